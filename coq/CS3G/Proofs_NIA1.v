(* CS3G: security.NIA1 = UIA2 (f9) with the 128-EIA1 parameter mapping, for every message
   bit length (including 0), MAC length, and the API wrapper. *)
From NV Require Import Lib.Base Lib.Bits CS3G.Model CS3G.Spec CS3G.Proofs_Words CS3G.Proofs_Snow
  CS3G.Proofs_Bits CS3G.Proofs_NEA1.
From Coq Require Import ZifyN ZifyNat ZifyBool.
Open Scope N_scope.
Ltac Zify.zify_post_hook ::= Z.div_mod_to_equations.

Arguments N.land : simpl never.
Arguments N.lor : simpl never.
Arguments N.lxor : simpl never.
Arguments N.shiftl : simpl never.
Arguments N.shiftr : simpl never.
Arguments N.modulo : simpl never.
Arguments N.div : simpl never.
Arguments N.pow : simpl never.
Arguments N.add : simpl never.
Arguments N.mul : simpl never.
Arguments N.sub : simpl never.
Arguments N.testbit : simpl never.
Arguments N.of_nat : simpl never.
Arguments N.to_nat : simpl never.

(* ---------- mulx, mulxPow, mul on uint64 ---------- *)
Lemma shl64_eq V : u64 (N.shiftl V 1) = Spec.shl64 V.
Proof. rewrite u64_mod, shiftl_mul. unfold Spec.shl64. f_equal. lia. Qed.

Lemma mulx64_eq V c : mulx V c = Spec.MUL64x V c.
Proof.
  unfold mulx, Spec.MUL64x, Spec.xor.
  change 0x8000000000000000 with (2 ^ 63). rewrite land_pow2_eqb, negb_involutive, shl64_eq. reflexivity.
Qed.

Lemma mulxPow64_rec_eq V i c : mulxPow_rec V i c = Spec.MUL64xPOW V i c.
Proof. induction i as [|i IH]; simpl; [reflexivity|]. rewrite IH. apply mulx64_eq. Qed.

Lemma bit_test P i : (N.land (N.shiftr P i) 1 =? 1) = N.testbit P i.
Proof.
  change 1 with (N.ones 1) at 1. rewrite land_ones_mod. change (2 ^ 1) with 2.
  rewrite <- N.bit0_mod, N.shiftr_spec', N.add_0_l.
  destruct (N.testbit P i); reflexivity.
Qed.

Lemma mul_loop_eq V P c n : forall i rst,
  mul_loop n (N.of_nat i) V P c rst
  = fold_left (fun res i => if N.testbit P (N.of_nat i) then Spec.xor res (Spec.MUL64xPOW V i c) else res) (seq i n) rst.
Proof.
  induction n as [|n IH]; intros i rst; [reflexivity|].
  cbn [mul_loop seq fold_left].
  replace (N.of_nat i + 1) with (N.of_nat (S i)) by lia. rewrite IH. f_equal.
  unfold Spec.xor. rewrite bit_test. unfold mulxPow. rewrite Nnat.Nat2N.id, mulxPow64_rec_eq. reflexivity.
Qed.

Lemma mul_eq V P c : mul V P c = Spec.MUL64 V P c.
Proof. unfold mul, Spec.MUL64. exact (mul_loop_eq V P c 64 0 0). Qed.

Lemma shl64_lt V : Spec.shl64 V < 2 ^ 64.
Proof. unfold Spec.shl64. apply N.mod_lt. rewrite p64. lia. Qed.

Lemma MUL64x_lt V c : c < 2 ^ 64 -> Spec.MUL64x V c < 2 ^ 64.
Proof.
  intro Hc. unfold Spec.MUL64x, Spec.xor. destruct (N.testbit V 63); [|apply shl64_lt].
  apply lxor_lt; [apply shl64_lt | assumption].
Qed.

Lemma MUL64xPOW_lt V i c : V < 2 ^ 64 -> c < 2 ^ 64 -> Spec.MUL64xPOW V i c < 2 ^ 64.
Proof. intros HV Hc. destruct i; simpl; [assumption | apply MUL64x_lt; assumption]. Qed.

Lemma MUL64_lt V P c : V < 2 ^ 64 -> c < 2 ^ 64 -> Spec.MUL64 V P c < 2 ^ 64.
Proof.
  intros HV Hc. unfold Spec.MUL64.
  assert (H : forall l acc, acc < 2 ^ 64 ->
     fold_left (fun res i => if N.testbit P (N.of_nat i) then Spec.xor res (Spec.MUL64xPOW V i c) else res) l acc < 2 ^ 64).
  { induction l as [|i l IH]; intros acc Ha; [exact Ha|]. cbn [fold_left]. apply IH.
    destruct (N.testbit P (N.of_nat i)); [|exact Ha].
    unfold Spec.xor. apply lxor_lt; [exact Ha | apply MUL64xPOW_lt; assumption]. }
  apply H. rewrite p64. lia.
Qed.

Local Opaque Spec.MUL64.

(* ---------- big-endian 64-bit reads ---------- *)
Definition be8 (b0 b1 b2 b3 b4 b5 b6 b7 : N) : N :=
  ((((((b0 * 256 + b1) * 256 + b2) * 256 + b3) * 256 + b4) * 256 + b5) * 256 + b6) * 256 + b7.

Lemma pack8 b0 b1 b2 b3 b4 b5 b6 b7 :
  b0 < 256 -> b1 < 256 -> b2 < 256 -> b3 < 256 -> b4 < 256 -> b5 < 256 -> b6 < 256 -> b7 < 256 ->
  N.lor (N.lor (N.lor (N.lor (N.lor (N.lor (N.lor b7
      (u64 (N.shiftl b6 8))) (u64 (N.shiftl b5 16))) (u64 (N.shiftl b4 24)))
      (u64 (N.shiftl b3 32))) (u64 (N.shiftl b2 40))) (u64 (N.shiftl b1 48))) (u64 (N.shiftl b0 56))
  = be8 b0 b1 b2 b3 b4 b5 b6 b7.
Proof.
  intros H0 H1 H2 H3 H4 H5 H6 H7. rewrite !shiftl_mul.
  assert (E8 : 2 ^ 8 = 256) by reflexivity. assert (E16 : 2 ^ 16 = 65536) by reflexivity.
  assert (E24 : 2 ^ 24 = 16777216) by reflexivity. assert (E32 : 2 ^ 32 = 4294967296) by reflexivity.
  assert (E40 : 2 ^ 40 = 1099511627776) by reflexivity. assert (E48 : 2 ^ 48 = 281474976710656) by reflexivity.
  assert (E56 : 2 ^ 56 = 72057594037927936) by reflexivity.
  rewrite !u64_small by (rewrite ?E8, ?E16, ?E24, ?E32, ?E40, ?E48, ?E56, p64; lia).
  rewrite (lor_disjoint_add' b6 b7 8) by (rewrite E8; lia).
  rewrite (lor_disjoint_add' b5 _ 16) by (rewrite E8, E16; lia).
  rewrite (lor_disjoint_add' b4 _ 24) by (rewrite E8, E16, E24; lia).
  rewrite (lor_disjoint_add' b3 _ 32) by (rewrite E8, E16, E24, E32; lia).
  rewrite (lor_disjoint_add' b2 _ 40) by (rewrite E8, E16, E24, E32, E40; lia).
  rewrite (lor_disjoint_add' b1 _ 48) by (rewrite E8, E16, E24, E32, E40, E48; lia).
  rewrite (lor_disjoint_add' b0 _ 56) by (rewrite E8, E16, E24, E32, E40, E48, E56; lia).
  unfold be8. rewrite E8, E16, E24, E32, E40, E48, E56. lia.
Qed.

Lemma be8_lt b0 b1 b2 b3 b4 b5 b6 b7 :
  b0 < 256 -> b1 < 256 -> b2 < 256 -> b3 < 256 -> b4 < 256 -> b5 < 256 -> b6 < 256 -> b7 < 256 ->
  be8 b0 b1 b2 b3 b4 b5 b6 b7 < 2 ^ 64.
Proof. intros. unfold be8. rewrite p64. lia. Qed.

(* octet k of the message, 0 beyond its end *)
Definition oct (msg : bytes) (k : nat) : N := nth k msg 0.
(* the 64-bit block i of the zero-padded message *)
Definition blockN (msg : bytes) (i : nat) : N :=
  be8 (oct msg (8 * i)) (oct msg (8 * i + 1)) (oct msg (8 * i + 2)) (oct msg (8 * i + 3))
      (oct msg (8 * i + 4)) (oct msg (8 * i + 5)) (oct msg (8 * i + 6)) (oct msg (8 * i + 7)).

Lemma blockN_lt msg i : bytes_ok msg -> blockN msg i < 2 ^ 64.
Proof. intro H. unfold blockN, oct. apply be8_lt; apply bytes_ok_nth; assumption. Qed.

Lemma be64_nth (l : bytes) : (8 <= length l)%nat -> bytes_ok l ->
  be64 l = Ok (be8 (nth 0 l 0) (nth 1 l 0) (nth 2 l 0) (nth 3 l 0) (nth 4 l 0) (nth 5 l 0) (nth 6 l 0) (nth 7 l 0)).
Proof.
  intros Hl Hok. unfold be64. rewrite !idx_nth by lia. cbn [obind]. f_equal.
  apply pack8; apply bytes_ok_nth; assumption.
Qed.

Lemma nth_skipn' {A} (l : list A) d : forall k a, nth a (skipn k l) d = nth (k + a) l d.
Proof.
  induction l as [|x l IH]; intros k a.
  - rewrite skipn_nil, !nth_nil'. reflexivity.
  - destruct k; [reflexivity|]. cbn [skipn Nat.add nth]. apply IH.
Qed.

Lemma bytes_ok_skipn (l : bytes) k : bytes_ok l -> bytes_ok (skipn k l).
Proof.
  unfold bytes_ok. revert k. induction l as [|x l IH]; intros k H.
  - rewrite skipn_nil. constructor.
  - destruct k; [exact H|]. inversion H; subst. cbn [skipn]. apply IH. assumption.
Qed.

Lemma bytes_ok_firstn (l : bytes) k : bytes_ok l -> bytes_ok (firstn k l).
Proof.
  unfold bytes_ok. revert k. induction l as [|x l IH]; intros k H.
  - rewrite firstn_nil. constructor.
  - destruct k; [constructor|]. inversion H; subst. cbn [firstn]. constructor; [assumption | apply IH; assumption].
Qed.

(* msg[8*i:] *)
Lemma slice_block msg i : (8 * i <= length msg)%nat -> N.of_nat (length msg) < 2 ^ 61 ->
  slice_fromN msg (u64 (8 * N.of_nat i)) = Ok (skipn (8 * i) msg).
Proof.
  intros Hl Hsz.
  assert (E61 : 2 ^ 61 = 2305843009213693952) by reflexivity. rewrite E61 in Hsz.
  rewrite u64_small by (rewrite p64; lia).
  unfold slice_fromN. destruct (N.leb_spec (8 * N.of_nat i) (N.of_nat (length msg))); [|lia].
  replace (N.to_nat (8 * N.of_nat i)) with (8 * i)%nat by lia. reflexivity.
Qed.

(* a full block: M := binary.BigEndian.Uint64(msg[8*i:]) *)
Lemma read_block msg i : bytes_ok msg -> (8 * i + 8 <= length msg)%nat ->
  be64 (skipn (8 * i) msg) = Ok (blockN msg i).
Proof.
  intros Hok Hl.
  rewrite be64_nth by (rewrite ?skipn_length; try apply bytes_ok_skipn; (assumption || lia)).
  rewrite !nth_skipn'. unfold blockN, oct. rewrite Nat.add_0_r. reflexivity.
Qed.

(* the last block: tmp := make([]byte, 8); copy(tmp, msg[8*i:]); M := binary.BigEndian.Uint64(tmp) *)
Lemma read_tail msg i : bytes_ok msg -> (8 * i <= length msg)%nat ->
  be64 (copy_bytes (repeat 0 8) (skipn (8 * i) msg)) = Ok (blockN msg i).
Proof.
  intros Hok Hl.
  set (tl := skipn (8 * i) msg).
  assert (Htl : length tl = (length msg - 8 * i)%nat) by apply skipn_length.
  assert (Hoktl : bytes_ok tl) by (apply bytes_ok_skipn; assumption).
  set (n := Nat.min (length (repeat 0 8)) (length tl)).
  assert (Hn : n = Nat.min 8 (length tl)) by reflexivity.
  assert (Hcl : length (copy_bytes (repeat 0 8) tl) = 8%nat).
  { unfold copy_bytes. fold n. rewrite app_length, firstn_length, skipn_length, repeat_length. lia. }
  assert (Hcok : bytes_ok (copy_bytes (repeat 0 8) tl)).
  { unfold copy_bytes. apply Forall_app. split.
    - apply bytes_ok_firstn. exact Hoktl.
    - apply bytes_ok_skipn. repeat constructor. }
  assert (Hnth : forall a, (a < 8)%nat -> nth a (copy_bytes (repeat 0 8) tl) 0 = oct msg (8 * i + a)).
  { intros a Ha. unfold copy_bytes. fold n. unfold oct.
    destruct (Nat.ltb_spec a n) as [Hlt|Hge].
    - rewrite app_nth1 by (rewrite firstn_length; lia). rewrite nth_firstn_lt by assumption.
      unfold tl. apply nth_skipn'.
    - rewrite app_nth2 by (rewrite firstn_length; lia).
      rewrite (nth_overflow msg) by lia.
      assert (Hz : forall k m, nth k (skipn m (repeat 0 8)) 0 = 0).
      { intros k m. rewrite nth_skipn'. generalize (m + k)%nat. intro j. do 8 (destruct j; [reflexivity|]). destruct j; reflexivity. }
      apply Hz. }
  rewrite be64_nth by (assumption || lia).
  rewrite !Hnth by lia. unfold blockN. rewrite Nat.add_0_r. reflexivity.
Qed.

(* ---------- the blocks of the specification ---------- *)
Lemma bits_val_acc (l : list bool) : forall acc,
  fold_left (fun a (b : bool) => 2 * a + (if b then 1 else 0)) l acc
  = acc * 2 ^ N.of_nat (length l) + Spec.bits_val l.
Proof.
  unfold Spec.bits_val. induction l as [|b l IH]; intro acc.
  - cbn [fold_left length]. change (2 ^ N.of_nat 0) with 1. lia.
  - cbn [fold_left length]. rewrite IH. rewrite (IH (2 * 0 + (if b then 1 else 0))).
    replace (N.of_nat (S (length l))) with (N.succ (N.of_nat (length l))) by lia.
    rewrite N.pow_succ_r'. destruct b; lia.
Qed.

Lemma bits_val_app a b : Spec.bits_val (a ++ b) = Spec.bits_val a * 2 ^ N.of_nat (length b) + Spec.bits_val b.
Proof. unfold Spec.bits_val at 1. rewrite fold_left_app. apply bits_val_acc. Qed.

Lemma bits_val_octet b : b < 256 -> Spec.bits_val (Spec.octet_bits b) = b.
Proof.
  intro H.
  assert (Hall : forallb (fun b => Spec.bits_val (Spec.octet_bits b) =? b) Spec.all_octets = true)
    by (vm_compute; reflexivity).
  rewrite forallb_forall in Hall. apply N.eqb_eq. apply Hall.
  unfold Spec.all_octets. apply in_map_iff. exists (N.to_nat b). split; [lia|].
  apply in_seq. lia.
Qed.

Lemma bits_val_8 b0 b1 b2 b3 b4 b5 b6 b7 :
  b0 < 256 -> b1 < 256 -> b2 < 256 -> b3 < 256 -> b4 < 256 -> b5 < 256 -> b6 < 256 -> b7 < 256 ->
  Spec.bits_val (Spec.octets_bits [b0; b1; b2; b3; b4; b5; b6; b7]) = be8 b0 b1 b2 b3 b4 b5 b6 b7.
Proof.
  intros. rewrite !octets_bits_cons.
  change (Spec.octets_bits []) with (@nil bool). rewrite app_nil_r.
  rewrite !bits_val_app, !app_length, !octet_bits_length, !bits_val_octet by assumption.
  unfold be8.
  change (2 ^ N.of_nat 8) with 256.
  change (2 ^ N.of_nat (8 + 8)) with 65536.
  change (2 ^ N.of_nat (8 + (8 + 8))) with 16777216.
  change (2 ^ N.of_nat (8 + (8 + (8 + 8)))) with 4294967296.
  change (2 ^ N.of_nat (8 + (8 + (8 + (8 + 8))))) with 1099511627776.
  change (2 ^ N.of_nat (8 + (8 + (8 + (8 + (8 + 8)))))) with 281474976710656.
  change (2 ^ N.of_nat (8 + (8 + (8 + (8 + (8 + (8 + 8))))))) with 72057594037927936.
  lia.
Qed.

(* all bits beyond `len` are zero: the N-bit message is ceil(N/8) octets with zero pad bits
   (octets beyond, if any, zero as well) *)
Definition pad_zero (msg : bytes) (len : N) : Prop :=
  forall k, len <= N.of_nat k -> nth k (Spec.octets_bits msg) false = false.

Lemma M_block_eq msg len i : bytes_ok msg -> pad_zero msg len ->
  Spec.M_block (firstn (N.to_nat len) (Spec.octets_bits msg)) i = blockN msg i.
Proof.
  intros Hok Hpad. unfold Spec.M_block.
  set (M := firstn (N.to_nat len) (Spec.octets_bits msg)).
  assert (HM : forall k, nth k M false = nth k (Spec.octets_bits msg) false).
  { intro k. unfold M. destruct (Nat.ltb_spec k (N.to_nat len)).
    - apply nth_firstn_lt. assumption.
    - rewrite nth_overflow by (rewrite firstn_length; lia). symmetry. apply Hpad. lia. }
  assert (E : map (fun j => nth (64 * i + j) M false) (seq 0 64)
              = Spec.octets_bits (map (fun a => oct msg (8 * i + a)) (seq 0 8))).
  { apply nth_ext with (d := false) (d' := false).
    - rewrite map_length, seq_length, octets_bits_length, map_length, seq_length. reflexivity.
    - intros j Hj. rewrite map_length, seq_length in Hj.
      rewrite nth_map_seq by assumption. rewrite HM.
      set (a := (j / 8)%nat). set (q := (j mod 8)%nat).
      assert (Ej : j = (8 * a + q)%nat) by (subst a q; apply Nat.div_mod; lia).
      assert (Hq : (q < 8)%nat) by (subst q; apply Nat.mod_upper_bound; lia).
      assert (Ha : (a < 8)%nat) by lia.
      rewrite Ej at 2. rewrite nth_octets_bits by assumption.
      rewrite nth_map_seq by assumption.
      replace (64 * i + j)%nat with (8 * (8 * i + a) + q)%nat by lia.
      rewrite nth_octets_bits by assumption. reflexivity. }
  rewrite E. cbn [seq map]. rewrite bits_val_8 by (apply bytes_ok_nth; assumption).
  unfold blockN. rewrite Nat.add_0_r. reflexivity.
Qed.

(* ---------- the EVAL loop ---------- *)
Definition eval_step (msg : bytes) (P : N) (E : N) (i : nat) : N :=
  Spec.MUL64 (Spec.xor E (blockN msg i)) P 0x1b.

Lemma eval_step_unfold msg P e i : eval_step msg P e i = Spec.MUL64 (N.lxor e (blockN msg i)) P 27.
Proof. reflexivity. Qed.

Lemma eval_body msg P i e : bytes_ok msg -> (8 * i + 8 <= length msg)%nat -> N.of_nat (length msg) < 2 ^ 61 ->
  (b <- slice_fromN msg (u64 (8 * N.of_nat i)) ;; M <- be64 b ;; Ok (mul (N.lxor e M) P 0x1b))
  = Ok (eval_step msg P e i).
Proof.
  intros Hok Hi Hsz.
  rewrite slice_block by (assumption || lia). cbn [obind].
  rewrite read_block by assumption. cbn [obind]. rewrite mul_eq. reflexivity.
Qed.

Lemma seq_cons i n : seq i (S n) = i :: seq (S i) n.
Proof. reflexivity. Qed.
Lemma fold_left_cons {A B} (f : A -> B -> A) x l a : fold_left f (x :: l) a = fold_left f l (f a x).
Proof. reflexivity. Qed.

Lemma eval_loop msg P n : forall i e,
  bytes_ok msg ->
  (forall k, (i <= k < i + n)%nat -> (8 * k + 8 <= length msg)%nat) ->
  N.of_nat (length msg) < 2 ^ 61 ->
  for_loop n i (fun i e =>
      b <- slice_fromN msg (u64 (8 * N.of_nat i)) ;; M <- be64 b ;; Ok (mul (N.lxor e M) P 0x1b)) e
  = Ok (fold_left (eval_step msg P) (seq i n) e).
Proof.
  induction n as [|n IH]; intros i e Hok Hfull Hsz; [reflexivity|].
  rewrite for_loop_S.
  rewrite eval_body by (try apply Hfull; (assumption || lia)). cbn [obind].
  rewrite seq_cons, fold_left_cons.
  apply IH; [assumption | intros k Hk; apply Hfull; lia | assumption].
Qed.

(* ---------- NIA1 = 128-EIA1 ---------- *)
Definition nia1_domain (ik : bytes) (count bearer direction : N) (msg : bytes) (length : N) : Prop :=
  List.length ik = 16%nat /\ bytes_ok ik /\ bytes_ok msg /\ count < 2 ^ 32 /\ bearer < 32 /\ direction < 2 /\
  length <= 8 * N.of_nat (List.length msg) /\ N.of_nat (List.length msg) < 2 ^ 60 /\
  pad_zero msg length.

Lemma nia1_iv_wf count bearer direction : count < 2 ^ 32 -> bearer < 32 -> direction < 2 ->
  let fresh := bearer * 2 ^ 27 in
  Forall w32 [Spec.xor fresh (direction * 2 ^ 15); Spec.xor count (direction * 2 ^ 31); fresh; count].
Proof.
  intros Hc Hb Hd fresh. subst fresh.
  assert (E27 : 2 ^ 27 = 134217728) by reflexivity. assert (E15 : 2 ^ 15 = 32768) by reflexivity.
  assert (E31 : 2 ^ 31 = 2147483648) by reflexivity.
  repeat constructor; unfold w32, Spec.xor; try apply lxor_lt; try assumption; rewrite ?E27, ?E15, ?E31, p32; lia.
Qed.

Lemma length5 (l : list N) : length l = 5%nat -> exists a b c d e, l = [a; b; c; d; e].
Proof.
  intro H. do 5 (destruct l as [|? l]; [discriminate H|]). destruct l; [|discriminate H]. repeat eexists.
Qed.

Lemma Forall5 (P : N -> Prop) a b c d e : Forall P [a; b; c; d; e] -> P a /\ P b /\ P c /\ P d /\ P e.
Proof.
  intro H. inversion H as [|? ? Ha H1]; subst. inversion H1 as [|? ? Hb H2]; subst.
  inversion H2 as [|? ? Hc H3]; subst. inversion H3 as [|? ? Hd H4]; subst. inversion H4 as [|? ? He H5]; subst.
  repeat split; assumption.
Qed.

Lemma put32_octets v : v < 2 ^ 32 -> put32 v = Spec.mac_octets v.
Proof.
  intro H. unfold put32, Spec.mac_octets.
  rewrite <- (u8_small (Spec.byte_of v 0)), <- (u8_small (Spec.byte_of v 1)),
          <- (u8_small (Spec.byte_of v 2)), <- (u8_small (Spec.byte_of v 3)) by apply byte_of_lt.
  rewrite <- byte0_eq, <- byte1_eq, <- byte2_eq, <- byte3_eq.
  unfold u8. change 0xff with (N.ones 8). rewrite !land_ones_mod.
  rewrite !N.mod_mod by (rewrite p8; lia). reflexivity.
Qed.

(* EVAL over the message blocks, for any P *)
Definition spec_eval (msg : bytes) (length : N) (P : N) (l : list nat) (e : N) : N :=
  fold_left (fun E i => Spec.MUL64 (N.lxor E (Spec.M_block (firstn (N.to_nat length) (Spec.octets_bits msg)) i)) P 27) l e.

Lemma spec_eval_step msg length P l e : bytes_ok msg -> pad_zero msg length ->
  spec_eval msg length P l e = fold_left (eval_step msg P) l e.
Proof.
  intros Hok Hpad. unfold spec_eval. revert e. induction l as [|i l IHl]; intro e; [reflexivity|].
  rewrite !fold_left_cons. rewrite IHl. f_equal.
  unfold eval_step, Spec.xor. rewrite M_block_eq by assumption. reflexivity.
Qed.

Lemma spec_eval_lt msg length P l e : bytes_ok msg -> pad_zero msg length -> e < 2 ^ 64 ->
  spec_eval msg length P l e < 2 ^ 64.
Proof.
  intros Hok Hpad. rewrite spec_eval_step by assumption. revert e.
  induction l as [|i l IH]; intros e He; [exact He|]. rewrite fold_left_cons. apply IH.
  unfold eval_step. apply MUL64_lt; [|rewrite p64; lia].
  unfold Spec.xor. apply lxor_lt; [exact He | apply blockN_lt; assumption].
Qed.

Lemma eval_all msg length P :
  bytes_ok msg -> length <= 8 * N.of_nat (List.length msg) -> N.of_nat (List.length msg) < 2 ^ 60 ->
  pad_zero msg length ->
  (if 2 <=? (length + 63) / 64 + 1
   then
    e <- for_loop (N.to_nat (sub64 ((length + 63) / 64 + 1) 2)) 0
           (fun (i : nat) (e : N) =>
            b <- slice_fromN msg (u64 (8 * N.of_nat i));; M <- be64 b;; Ok (mul (N.lxor e M) P 0x1b)) 0;;
    tl <- slice_fromN msg (u64 (8 * sub64 ((length + 63) / 64 + 1) 2));;
    M <- be64 (copy_bytes (repeat 0 8) tl);; Ok (mul (N.lxor e M) P 0x1b)
   else Ok 0)
  = Ok (spec_eval msg length P (seq 0 ((N.to_nat length + 63) / 64)) 0).
Proof.
  intros Hmok Hlen Hsz Hpad.
  assert (E60 : 2 ^ 60 = 1152921504606846976) by reflexivity. rewrite E60 in Hsz.
  assert (E61 : 2 ^ 61 = 2305843009213693952) by reflexivity.
  rewrite spec_eval_step by assumption.
  destruct (N.leb_spec 2 ((length + 63) / 64 + 1)) as [HD|HD].
  - rewrite sub64_ge by (rewrite ?p64; lia).
    set (m := N.to_nat ((length + 63) / 64 + 1 - 2)).
    assert (Em : ((N.to_nat length + 63) / 64)%nat = S m) by (subst m; lia).
    rewrite eval_loop; [ | assumption | intros k Hk; subst m; lia | rewrite E61; lia].
    cbn [obind].
    replace ((length + 63) / 64 + 1 - 2) with (N.of_nat m) by (subst m; lia).
    rewrite slice_block by (rewrite ?E61; subst m; lia). cbn [obind].
    rewrite read_tail by (assumption || (subst m; lia)). cbn [obind]. rewrite mul_eq.
    rewrite Em, seq_S, fold_left_app. reflexivity.
  - assert (E0 : ((N.to_nat length + 63) / 64)%nat = 0%nat) by lia. rewrite E0. reflexivity.
Qed.

(* the part of NIA1 after the keystream, for arbitrary keystream words *)
Lemma nia1_finish msg length z0 z1 z2 z3 z4 :
  bytes_ok msg -> length <= 8 * N.of_nat (List.length msg) -> N.of_nat (List.length msg) < 2 ^ 60 ->
  pad_zero msg length ->
  z0 < 2 ^ 32 -> z1 < 2 ^ 32 -> z2 < 2 ^ 32 -> z3 < 2 ^ 32 -> z4 < 2 ^ 32 ->
  let P := z0 * 2 ^ 32 + z1 in
  let Q := z2 * 2 ^ 32 + z3 in
  (Eval <- (if 2 <=? (length + 63) / 64 + 1
            then
             e <- for_loop (N.to_nat (sub64 ((length + 63) / 64 + 1) 2)) 0
                    (fun (i : nat) (e : N) =>
                     b <- slice_fromN msg (u64 (8 * N.of_nat i));; M <- be64 b;; Ok (mul (N.lxor e M) P 0x1b)) 0;;
             tl <- slice_fromN msg (u64 (8 * sub64 ((length + 63) / 64 + 1) 2));;
             M <- be64 (copy_bytes (repeat 0 8) tl);; Ok (mul (N.lxor e M) P 0x1b)
            else Ok 0) ;;
   Ok (put32 (N.lxor (u32 (N.shiftr (mul (N.lxor Eval length) Q 0x1b) 32)) z4)))
  = Ok (Spec.mac_octets
          (N.lxor (Spec.MUL64 (N.lxor (spec_eval msg length P (seq 0 ((N.to_nat length + 63) / 64)) 0) length) Q 27 / 2 ^ 32) z4)).
Proof.
  intros Hmok Hlen Hsz Hpad Hz0 Hz1 Hz2 Hz3 Hz4 P Q.
  rewrite eval_all by assumption. cbn [obind].
  set (EV := spec_eval msg length P (seq 0 ((N.to_nat length + 63) / 64)) 0).
  assert (HEV : EV < 2 ^ 64) by (apply spec_eval_lt; [assumption | assumption | rewrite p64; lia]).
  rewrite mul_eq.
  set (EV2 := Spec.MUL64 (N.lxor EV length) Q 27).
  assert (E60 : 2 ^ 60 = 1152921504606846976) by reflexivity. rewrite E60 in Hsz.
  assert (HEV2 : EV2 < 2 ^ 64).
  { subst EV2. apply MUL64_lt; [|rewrite p64; lia]. apply lxor_lt; [assumption | rewrite p64; lia]. }
  rewrite shiftr_div.
  assert (Hhi : EV2 / 2 ^ 32 < 2 ^ 32) by (rewrite p32, p64 in *; lia).
  rewrite u32_small by assumption.
  rewrite put32_octets by (apply lxor_lt; assumption).
  reflexivity.
Qed.

Theorem nia1_eq_uia2 ik count bearer direction msg length :
  nia1_domain ik count bearer direction msg length ->
  NIA1 ik count bearer direction msg length
  = Ok (Spec.mac_octets (Spec.EIA1 ik count bearer direction (firstn (N.to_nat length) (Spec.octets_bits msg)))).
Proof.
  intros (Hik & Hok & Hmok & Hc & Hb & Hd & Hlen & Hsz & Hpad).
  assert (E60 : 2 ^ 60 = 1152921504606846976) by reflexivity.
  assert (E27 : 2 ^ 27 = 134217728) by reflexivity. assert (E15 : 2 ^ 15 = 32768) by reflexivity.
  assert (E31 : 2 ^ 31 = 2147483648) by reflexivity.
  unfold NIA1. rewrite load_key_eq by assumption. cbn [obind].
  unfold Spec.EIA1, Spec.f9, Spec.xor.
  (* the IV *)
  rewrite !shiftl_mul.
  rewrite (u32_small (bearer * 2 ^ 27)) by (rewrite E27, p32; lia).
  rewrite (u32_small (direction * 2 ^ 15)) by (rewrite E15, p32; lia).
  rewrite (u32_small (direction * 2 ^ 31)) by (rewrite E31, p32; lia).
  destruct (key_words_wf ik Hok) as [HK FK].
  pose proof (nia1_iv_wf count bearer direction Hc Hb Hd) as FIV. cbv zeta in FIV. unfold Spec.xor in FIV.
  set (IV := [N.lxor (bearer * 2 ^ 27) (direction * 2 ^ 15); N.lxor count (direction * 2 ^ 31); bearer * 2 ^ 27; count]) in *.
  rewrite GetKeyStream_eq_spec by (assumption || reflexivity). cbn [obind].
  change (N.to_nat 5) with 5%nat.
  pose proof (keystream_w32 (Spec.key_words ik) IV 5 HK eq_refl FK FIV) as Hzw.
  destruct (length5 _ (keystream_length (Spec.key_words ik) IV 5)) as (z0 & z1 & z2 & z3 & z4 & Ez).
  rewrite Ez in *. cbn [idx nth_error obind nth].
  destruct (Forall5 _ _ _ _ _ _ Hzw) as (Hz0 & Hz1 & Hz2 & Hz3 & Hz4). unfold w32 in Hz0, Hz1, Hz2, Hz3, Hz4.
  (* P and Q *)
  rewrite !shiftl_mul.
  rewrite (u64_small (z0 * 2 ^ 32)), (u64_small (z2 * 2 ^ 32)) by (rewrite p32, p64 in *; lia).
  rewrite (lor_disjoint_add z0 z1 32), (lor_disjoint_add z2 z3 32) by assumption.
  (* D *)
  rewrite (u64_small (length + 63)) by (rewrite p64, E60 in *; lia).
  rewrite (u64_small ((length + 63) / 64 + 1)) by (rewrite p64, E60 in *; lia).
  assert (HlenM : List.length (firstn (N.to_nat length) (Spec.octets_bits msg)) = N.to_nat length)
    by (rewrite firstn_length, octets_bits_length; lia).
  rewrite HlenM. rewrite Nnat.N2Nat.id.
  replace ((N.to_nat length + 63) / 64 + 1 - 1)%nat with ((N.to_nat length + 63) / 64)%nat by lia.
  apply nia1_finish; assumption.
Qed.
