(* CS3G: word-level lemmas -- Go integer wrap-around, the tables, and
   mulx / mulxPow / s1 / s2 / mulAlpha / divAlpha of snow3g.go against the
   specification's MULx / MULxPOW / S1 / S2 / MULalpha / DIValpha. *)
From NV Require Import Lib.Base Lib.Bits CS3G.Model CS3G.Spec.
From Coq Require Import ZifyN ZifyNat ZifyBool.
Open Scope N_scope.
Ltac Zify.zify_post_hook ::= Z.div_mod_to_equations.

Arguments N.land : simpl never.
Arguments N.lor : simpl never.
Arguments N.lxor : simpl never.
Arguments N.shiftl : simpl never.
Arguments N.shiftr : simpl never.
Arguments N.modulo : simpl never.
Arguments N.div : simpl never.
Arguments N.pow : simpl never.
Arguments N.add : simpl never.
Arguments N.mul : simpl never.
Arguments N.sub : simpl never.
Arguments N.testbit : simpl never.

Lemma p8 : 2 ^ 8 = 256. Proof. reflexivity. Qed.
Lemma p16 : 2 ^ 16 = 65536. Proof. reflexivity. Qed.
Lemma p24 : 2 ^ 24 = 16777216. Proof. reflexivity. Qed.
Lemma p32 : 2 ^ 32 = 4294967296. Proof. reflexivity. Qed.
Lemma p64 : 2 ^ 64 = 18446744073709551616. Proof. reflexivity. Qed.

(* ---------- Go integer types ---------- *)
Lemma u8_mod x : u8 x = x mod 2 ^ 8.
Proof. unfold u8. change 0xff with (N.ones 8). apply land_ones_mod. Qed.
Lemma u32_mod x : u32 x = x mod 2 ^ 32.
Proof. unfold u32. change 0xffffffff with (N.ones 32). apply land_ones_mod. Qed.
Lemma u64_mod x : u64 x = x mod 2 ^ 64.
Proof. unfold u64. change 0xffffffffffffffff with (N.ones 64). apply land_ones_mod. Qed.

Lemma u8_lt x : u8 x < 256.
Proof. rewrite u8_mod, p8. apply N.mod_lt. lia. Qed.
Lemma u32_lt x : u32 x < 2 ^ 32.
Proof. rewrite u32_mod. apply N.mod_lt. rewrite p32. lia. Qed.
Lemma u64_lt x : u64 x < 2 ^ 64.
Proof. rewrite u64_mod. apply N.mod_lt. rewrite p64. lia. Qed.
Lemma u8_small x : x < 256 -> u8 x = x.
Proof. intro. rewrite u8_mod, p8. apply N.mod_small. assumption. Qed.
Lemma u32_small x : x < 2 ^ 32 -> u32 x = x.
Proof. intro. rewrite u32_mod. apply N.mod_small. assumption. Qed.
Lemma u64_small x : x < 2 ^ 64 -> u64 x = x.
Proof. intro. rewrite u64_mod. apply N.mod_small. assumption. Qed.

Lemma sub32_ge a b : b <= a -> a < 2 ^ 32 -> sub32 a b = a - b.
Proof.
  intros Hb Ha. unfold sub32. rewrite (u32_small a), (u32_small b) by lia.
  rewrite u32_mod, p32 in *. lia.
Qed.
Lemma sub64_ge a b : b <= a -> a < 2 ^ 64 -> sub64 a b = a - b.
Proof.
  intros Hb Ha. unfold sub64. rewrite (u64_small a), (u64_small b) by lia.
  rewrite u64_mod, p64 in *. lia.
Qed.

(* ---------- bounds of bitwise operations ---------- *)
Lemma lt_pow2_log2 x n : x < 2 ^ n <-> x = 0 \/ N.log2 x < n.
Proof.
  destruct (N.eq_dec x 0) as [->|Hx].
  - split; intros; [left; reflexivity | apply pow2_pos].
  - rewrite N.log2_lt_pow2 by lia. split; [intros; right; assumption | intros [?|?]; [lia | assumption]].
Qed.

Lemma lxor_lt a b n : a < 2 ^ n -> b < 2 ^ n -> N.lxor a b < 2 ^ n.
Proof.
  intros Ha Hb. apply lt_pow2_log2.
  destruct (N.eq_dec (N.lxor a b) 0) as [?|Hx]; [left; assumption | right].
  apply lt_pow2_log2 in Ha. apply lt_pow2_log2 in Hb.
  destruct Ha as [->|Ha]; [rewrite N.lxor_0_l in *; destruct Hb; [congruence | assumption]|].
  destruct Hb as [->|Hb]; [rewrite N.lxor_0_r in *; assumption|].
  pose proof (N.log2_lxor a b). lia.
Qed.

Lemma lor_lt a b n : a < 2 ^ n -> b < 2 ^ n -> N.lor a b < 2 ^ n.
Proof.
  intros Ha Hb. apply lt_pow2_log2.
  destruct (N.eq_dec (N.lor a b) 0) as [?|Hx]; [left; assumption | right].
  apply lt_pow2_log2 in Ha. apply lt_pow2_log2 in Hb.
  rewrite N.log2_lor.
  destruct Ha as [->|Ha]; [rewrite N.lor_0_l in *; destruct Hb; [congruence | simpl; lia]|].
  destruct Hb as [->|Hb]; [rewrite N.lor_0_r in *; simpl; lia|].
  lia.
Qed.

Lemma land_lt_r a b n : b < 2 ^ n -> N.land a b < 2 ^ n.
Proof.
  intros Hb. apply lt_pow2_log2.
  destruct (N.eq_dec (N.land a b) 0) as [?|Hx]; [left; assumption | right].
  apply lt_pow2_log2 in Hb.
  destruct Hb as [->|Hb]; [rewrite N.land_0_r in *; congruence|].
  pose proof (N.log2_land a b). lia.
Qed.

Lemma land_pow2_eqb V n : (N.land V (2 ^ n) =? 0) = negb (N.testbit V n).
Proof.
  destruct (N.testbit V n) eqn:Hb; simpl.
  - apply N.eqb_neq. intro H0.
    assert (N.testbit (N.land V (2 ^ n)) n = true).
    { rewrite N.land_spec, Hb, N.pow2_bits_true. reflexivity. }
    rewrite H0, N.bits_0 in H. discriminate.
  - apply N.eqb_eq. apply N.bits_inj_0. intro i.
    rewrite N.land_spec, N.pow2_bits_eqb.
    destruct (N.eqb_spec n i) as [<-|]; [rewrite Hb; reflexivity | apply andb_false_r].
Qed.

(* ---------- lists ---------- *)
Lemma idx_nth (l : list N) (i : nat) : (i < length l)%nat -> idx l i = Ok (nth i l 0).
Proof.
  intro H. unfold idx. rewrite (nth_error_nth' l 0 H). reflexivity.
Qed.

Lemma idxN_nth (l : list N) (i : N) : i < N.of_nat (length l) -> idxN l i = Ok (nth (N.to_nat i) l 0).
Proof.
  intro H. unfold idxN. destruct (N.ltb_spec i (N.of_nat (length l))); [|lia].
  apply idx_nth. lia.
Qed.

Lemma nth_Forall {A} (P : A -> Prop) (l : list A) (d : A) (i : nat) :
  Forall P l -> P d -> P (nth i l d).
Proof.
  intros Hl Hd. revert i. induction Hl; intros [|i]; simpl; auto.
Qed.

(* ---------- the tables ---------- *)
Lemma sr_eq : Snow3g.sr = Spec.SR.
Proof. vm_compute. reflexivity. Qed.
Lemma sq_eq : Snow3g.sq = Spec.SQ.
Proof. vm_compute. reflexivity. Qed.

Lemma forallb_ltb_Forall (l : list N) (b : N) : forallb (fun x => x <? b) l = true -> Forall (fun x => x < b) l.
Proof.
  intro H. apply Forall_forall. intros x Hx.
  rewrite forallb_forall in H. apply N.ltb_lt. apply H. assumption.
Qed.

Lemma SR_octets : Forall (fun x => x < 256) Spec.SR.
Proof. apply forallb_ltb_Forall. vm_compute. reflexivity. Qed.
Lemma SQ_octets : Forall (fun x => x < 256) Spec.SQ.
Proof. apply forallb_ltb_Forall. vm_compute. reflexivity. Qed.

Lemma S_R_lt x : Spec.S_R x < 256.
Proof. unfold Spec.S_R. apply nth_Forall; [apply SR_octets | lia]. Qed.
Lemma S_Q_lt x : Spec.S_Q x < 256.
Proof. unfold Spec.S_Q. apply nth_Forall; [apply SQ_octets | lia]. Qed.

Lemma tbl_sr i : i < 256 -> Snow3g.tbl Snow3g.sr i = Ok (Spec.S_R i).
Proof.
  intro H. unfold Snow3g.tbl. rewrite idxN_nth.
  - rewrite sr_eq. reflexivity.
  - change (N.of_nat (length Snow3g.sr)) with 256. assumption.
Qed.
Lemma tbl_sq i : i < 256 -> Snow3g.tbl Snow3g.sq i = Ok (Spec.S_Q i).
Proof.
  intro H. unfold Snow3g.tbl. rewrite idxN_nth.
  - rewrite sq_eq. reflexivity.
  - change (N.of_nat (length Snow3g.sq)) with 256. assumption.
Qed.

(* ---------- mulx, mulxPow ---------- *)
Lemma shl8_eq V : u8 (N.shiftl V 1) = Spec.shl8 V.
Proof. rewrite u8_mod, shiftl_mul. unfold Spec.shl8. rewrite p8. f_equal. lia. Qed.

Lemma mulx_eq V c : Snow3g.mulx V c = Spec.MULx V c.
Proof.
  unfold Snow3g.mulx, Spec.MULx, Spec.xor.
  change 0x80 with (2 ^ 7). rewrite land_pow2_eqb, negb_involutive, shl8_eq. reflexivity.
Qed.

Lemma mulxPow_rec_eq V i c : Snow3g.mulxPow_rec V i c = Spec.MULxPOW V i c.
Proof. induction i as [|i IH]; simpl; [reflexivity|]. rewrite IH. apply mulx_eq. Qed.

Lemma mulxPow_eq V i c : Snow3g.mulxPow V i c = Spec.MULxPOW V (N.to_nat i) c.
Proof. apply mulxPow_rec_eq. Qed.

Lemma shl8_lt V : Spec.shl8 V < 256.
Proof. unfold Spec.shl8. apply N.mod_lt. lia. Qed.

Lemma MULx_lt V c : c < 256 -> Spec.MULx V c < 256.
Proof.
  intro Hc. unfold Spec.MULx, Spec.xor. destruct (N.testbit V 7); [|apply shl8_lt].
  rewrite <- p8 in *. apply lxor_lt; [rewrite p8; apply shl8_lt | assumption].
Qed.

Lemma MULxPOW_lt V i c : V < 256 -> c < 256 -> Spec.MULxPOW V i c < 256.
Proof. intros HV Hc. destruct i; simpl; [assumption | apply MULx_lt; assumption]. Qed.

Lemma xor8 a b : a < 256 -> b < 256 -> Spec.xor a b < 256.
Proof. rewrite <- p8. apply lxor_lt. Qed.

(* ---------- bytes of a word ---------- *)
Lemma byte_of_lt w i : Spec.byte_of w i < 256.
Proof. unfold Spec.byte_of. apply N.mod_lt. lia. Qed.

Lemma byte0_eq w : N.land (N.shiftr w 24) 0xff = Spec.byte_of w 0.
Proof. change 0xff with (N.ones 8). rewrite land_ones_mod, shiftr_div. reflexivity. Qed.
Lemma byte1_eq w : N.land (N.shiftr w 16) 0xff = Spec.byte_of w 1.
Proof. change 0xff with (N.ones 8). rewrite land_ones_mod, shiftr_div. reflexivity. Qed.
Lemma byte2_eq w : N.land (N.shiftr w 8) 0xff = Spec.byte_of w 2.
Proof. change 0xff with (N.ones 8). rewrite land_ones_mod, shiftr_div. reflexivity. Qed.
Lemma byte3_eq w : N.land w 0xff = Spec.byte_of w 3.
Proof.
  change 0xff with (N.ones 8). rewrite land_ones_mod. unfold Spec.byte_of.
  change (2 ^ (8 * (3 - N.of_nat 3))) with 1. rewrite N.div_1_r. reflexivity.
Qed.

(* (r0 << 24) | (r1 << 16) | (r2 << 8) | r3 on octets is r0 || r1 || r2 || r3 *)
Lemma pack4 r0 r1 r2 r3 : r0 < 256 -> r1 < 256 -> r2 < 256 -> r3 < 256 ->
  N.lor (N.lor (N.lor (u32 (N.shiftl r0 24)) (u32 (N.shiftl r1 16))) (u32 (N.shiftl r2 8))) r3
  = Spec.cat4 r0 r1 r2 r3.
Proof.
  intros H0 H1 H2 H3. rewrite !shiftl_mul.
  rewrite !u32_small by (rewrite ?p24, ?p16, ?p8, p32; lia).
  rewrite (lor_disjoint_add r0 (r1 * 2 ^ 16) 24) by (rewrite p16, p24; lia).
  replace (r0 * 2 ^ 24 + r1 * 2 ^ 16) with ((r0 * 256 + r1) * 2 ^ 16) by (rewrite p24, p16; lia).
  rewrite (lor_disjoint_add (r0 * 256 + r1) (r2 * 2 ^ 8) 16) by (rewrite p16, p8; lia).
  replace ((r0 * 256 + r1) * 2 ^ 16 + r2 * 2 ^ 8) with (((r0 * 256 + r1) * 256 + r2) * 2 ^ 8) by (rewrite p16, p8; lia).
  rewrite (lor_disjoint_add ((r0 * 256 + r1) * 256 + r2) r3 8) by (rewrite p8; lia).
  unfold Spec.cat4. rewrite p8. reflexivity.
Qed.

Lemma cat4_lt r0 r1 r2 r3 : r0 < 256 -> r1 < 256 -> r2 < 256 -> r3 < 256 -> Spec.cat4 r0 r1 r2 r3 < 2 ^ 32.
Proof. intros. unfold Spec.cat4. rewrite p32. lia. Qed.

(* a 32-bit word is the concatenation of its bytes *)
Lemma cat4_bytes w : w < 2 ^ 32 ->
  Spec.cat4 (Spec.byte_of w 0) (Spec.byte_of w 1) (Spec.byte_of w 2) (Spec.byte_of w 3) = w.
Proof.
  intro H. unfold Spec.cat4, Spec.byte_of.
  change (2 ^ (8 * (3 - N.of_nat 0))) with 16777216.
  change (2 ^ (8 * (3 - N.of_nat 1))) with 65536.
  change (2 ^ (8 * (3 - N.of_nat 2))) with 256.
  change (2 ^ (8 * (3 - N.of_nat 3))) with 1.
  rewrite p32 in H. lia.
Qed.

(* ---------- s1, s2 ---------- *)
Lemma s1_eq w : Snow3g.s1 w = Ok (Spec.S1 w).
Proof.
  unfold Snow3g.s1. rewrite byte0_eq, byte1_eq, byte2_eq, byte3_eq.
  rewrite !tbl_sr by apply byte_of_lt. cbn [obind].
  rewrite !mulx_eq. rewrite pack4.
  - reflexivity.
  - repeat apply xor8; try apply MULx_lt; try apply S_R_lt; lia.
  - repeat apply xor8; try apply MULx_lt; try apply S_R_lt; lia.
  - repeat apply xor8; try apply MULx_lt; try apply S_R_lt; lia.
  - repeat apply xor8; try apply MULx_lt; try apply S_R_lt; lia.
Qed.

Lemma s2_eq w : Snow3g.s2 w = Ok (Spec.S2 w).
Proof.
  unfold Snow3g.s2. rewrite byte0_eq, byte1_eq, byte2_eq, byte3_eq.
  rewrite !tbl_sq by apply byte_of_lt. cbn [obind].
  rewrite !mulx_eq. rewrite pack4.
  - reflexivity.
  - repeat apply xor8; try apply MULx_lt; try apply S_Q_lt; lia.
  - repeat apply xor8; try apply MULx_lt; try apply S_Q_lt; lia.
  - repeat apply xor8; try apply MULx_lt; try apply S_Q_lt; lia.
  - repeat apply xor8; try apply MULx_lt; try apply S_Q_lt; lia.
Qed.

Lemma S1_lt w : Spec.S1 w < 2 ^ 32.
Proof.
  unfold Spec.S1. apply cat4_lt; repeat apply xor8; try apply MULx_lt; try apply S_R_lt; lia.
Qed.
Lemma S2_lt w : Spec.S2 w < 2 ^ 32.
Proof.
  unfold Spec.S2. apply cat4_lt; repeat apply xor8; try apply MULx_lt; try apply S_Q_lt; lia.
Qed.

(* ---------- mulAlpha, divAlpha ---------- *)
Lemma mulAlpha_eq c : c < 256 -> Snow3g.mulAlpha c = Spec.MULalpha c.
Proof.
  intro Hc. unfold Snow3g.mulAlpha, Spec.MULalpha. rewrite !mulxPow_eq.
  change (N.to_nat 23) with 23%nat. change (N.to_nat 245) with 245%nat.
  change (N.to_nat 48) with 48%nat. change (N.to_nat 239) with 239%nat.
  apply pack4; apply MULxPOW_lt; (assumption || lia).
Qed.
Lemma divAlpha_eq c : c < 256 -> Snow3g.divAlpha c = Spec.DIValpha c.
Proof.
  intro Hc. unfold Snow3g.divAlpha, Spec.DIValpha. rewrite !mulxPow_eq.
  change (N.to_nat 16) with 16%nat. change (N.to_nat 39) with 39%nat.
  change (N.to_nat 6) with 6%nat. change (N.to_nat 64) with 64%nat.
  apply pack4; apply MULxPOW_lt; (assumption || lia).
Qed.
Lemma MULalpha_lt c : c < 256 -> Spec.MULalpha c < 2 ^ 32.
Proof. intro. unfold Spec.MULalpha. apply cat4_lt; apply MULxPOW_lt; lia. Qed.
Lemma DIValpha_lt c : c < 256 -> Spec.DIValpha c < 2 ^ 32.
Proof. intro. unfold Spec.DIValpha. apply cat4_lt; apply MULxPOW_lt; lia. Qed.
