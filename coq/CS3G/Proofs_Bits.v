(* CS3G: bit strings, octets and words (generic plumbing, independent of the algorithms). *)
From NV Require Import Lib.Base Lib.Bits CS3G.Model CS3G.Spec CS3G.Proofs_Words.
From Coq Require Import ZifyN ZifyNat ZifyBool.
Open Scope N_scope.
Ltac Zify.zify_post_hook ::= Z.div_mod_to_equations.

Arguments N.land : simpl never.
Arguments N.lor : simpl never.
Arguments N.lxor : simpl never.
Arguments N.shiftl : simpl never.
Arguments N.shiftr : simpl never.
Arguments N.modulo : simpl never.
Arguments N.div : simpl never.
Arguments N.pow : simpl never.
Arguments N.add : simpl never.
Arguments N.mul : simpl never.
Arguments N.sub : simpl never.
Arguments N.testbit : simpl never.
Arguments N.of_nat : simpl never.
Arguments N.to_nat : simpl never.

(* ---------- lists ---------- *)
Lemma nth_nil' {A} (n : nat) (d : A) : nth n [] d = d.
Proof. destruct n; reflexivity. Qed.

Lemma nth_firstn_lt {A} (l : list A) d : forall n i, (i < n)%nat -> nth i (firstn n l) d = nth i l d.
Proof.
  induction l as [|x l IH]; intros n i H.
  - rewrite firstn_nil. reflexivity.
  - destruct n; [lia|]. destruct i; [reflexivity|]. cbn [firstn nth]. apply IH. lia.
Qed.

Lemma nth_map_seq {A} (f : nat -> A) d n i : (i < n)%nat -> nth i (map f (seq 0 n)) d = f i.
Proof.
  intro H. rewrite (nth_indep _ d (f 0%nat)) by (rewrite map_length, seq_length; assumption).
  rewrite map_nth. rewrite seq_nth by assumption. reflexivity.
Qed.

Lemma nth_upd_same (l : bytes) i v d : (i < length l)%nat -> nth i (upd l i v) d = v.
Proof.
  intro H. apply nth_error_nth. apply nth_error_upd_same. assumption.
Qed.

Lemma nth_upd_other (l : bytes) i j v d : i <> j -> nth j (upd l i v) d = nth j l d.
Proof.
  intro H. pose proof (nth_error_upd_other l i j v H) as E.
  destruct (nth_error l j) eqn:E1.
  - rewrite (nth_error_nth _ _ d E), (nth_error_nth _ _ d E1). reflexivity.
  - apply nth_error_None in E1. apply nth_error_None in E. rewrite !nth_overflow by assumption. reflexivity.
Qed.

(* ---------- bits of octets ---------- *)
Lemma octet_bits_length b : length (Spec.octet_bits b) = 8%nat.
Proof. reflexivity. Qed.

Lemma nth_octet_bits b q : (q < 8)%nat -> nth q (Spec.octet_bits b) false = N.testbit b (7 - N.of_nat q).
Proof. intro H. do 8 (destruct q as [|q]; [reflexivity|]). lia. Qed.

Lemma octets_bits_cons b l : Spec.octets_bits (b :: l) = Spec.octet_bits b ++ Spec.octets_bits l.
Proof. reflexivity. Qed.

Lemma octets_bits_length l : length (Spec.octets_bits l) = (8 * length l)%nat.
Proof.
  induction l as [|b l IH]; [reflexivity|].
  rewrite octets_bits_cons, app_length, octet_bits_length, IH. cbn [length]. lia.
Qed.

Lemma nth_octets_bits l : forall p q, (q < 8)%nat ->
  nth (8 * p + q) (Spec.octets_bits l) false = N.testbit (nth p l 0) (7 - N.of_nat q).
Proof.
  induction l as [|b l IH]; intros p q Hq.
  - cbn [Spec.octets_bits flat_map]. rewrite !nth_nil', N.bits_0. reflexivity.
  - rewrite octets_bits_cons. destruct p as [|p].
    + rewrite app_nth1 by (rewrite octet_bits_length; lia).
      replace (8 * 0 + q)%nat with q by lia. cbn [nth]. apply nth_octet_bits. assumption.
    + rewrite app_nth2 by (rewrite octet_bits_length; lia). rewrite octet_bits_length.
      replace (8 * S p + q - 8)%nat with (8 * p + q)%nat by lia. cbn [nth]. apply IH. assumption.
Qed.

(* ---------- bits of words ---------- *)
Lemma word_bits_length w : length (Spec.word_bits w) = 32%nat.
Proof. reflexivity. Qed.

Lemma nth_word_bits w q : (q < 32)%nat -> nth q (Spec.word_bits w) false = N.testbit w (31 - N.of_nat q).
Proof. intro H. do 32 (destruct q as [|q]; [reflexivity|]). lia. Qed.

Lemma words_bits_length ws : length (flat_map Spec.word_bits ws) = (32 * length ws)%nat.
Proof.
  induction ws as [|w ws IH]; [reflexivity|].
  cbn [flat_map]. rewrite app_length, word_bits_length, IH. cbn [length]. lia.
Qed.

Lemma nth_words_bits ws : forall t q, (q < 32)%nat ->
  nth (32 * t + q) (flat_map Spec.word_bits ws) false = N.testbit (nth t ws 0) (31 - N.of_nat q).
Proof.
  induction ws as [|w ws IH]; intros t q Hq.
  - cbn [flat_map]. rewrite !nth_nil', N.bits_0. reflexivity.
  - cbn [flat_map]. destruct t as [|t].
    + rewrite app_nth1 by (rewrite word_bits_length; lia).
      replace (32 * 0 + q)%nat with q by lia. cbn [nth]. apply nth_word_bits. assumption.
    + rewrite app_nth2 by (rewrite word_bits_length; lia). rewrite word_bits_length.
      replace (32 * S t + q - 32)%nat with (32 * t + q)%nat by lia. cbn [nth]. apply IH. assumption.
Qed.

(* ---------- xor of bit strings ---------- *)
Lemma xor_bits_length a : forall b, length (Spec.xor_bits a b) = Nat.min (length a) (length b).
Proof.
  induction a as [|x a IH]; intros [|y b]; cbn [Spec.xor_bits length Nat.min]; try reflexivity.
  rewrite IH. reflexivity.
Qed.

Lemma nth_xor_bits a : forall b i, (i < length a)%nat -> (i < length b)%nat ->
  nth i (Spec.xor_bits a b) false = xorb (nth i a false) (nth i b false).
Proof.
  induction a as [|x a IH]; intros [|y b] i Ha Hb; cbn [length] in *; try lia.
  destruct i; cbn [Spec.xor_bits nth]; [reflexivity|]. apply IH; lia.
Qed.

(* ---------- bits of the octets of a word ---------- *)
Lemma testbit_byte_of w j m : (j < 4)%nat -> m < 8 ->
  N.testbit (Spec.byte_of w j) m = N.testbit w (m + 8 * (3 - N.of_nat j)).
Proof.
  intros Hj Hm. unfold Spec.byte_of. change 256 with (2 ^ 8).
  rewrite N.mod_pow2_bits_low by assumption. rewrite N.div_pow2_bits. reflexivity.
Qed.

(* an octet is determined by its 8 bits *)
Lemma octet_ext a b : a < 256 -> b < 256 -> (forall m, m < 8 -> N.testbit a m = N.testbit b m) -> a = b.
Proof.
  intros Ha Hb H. apply N.bits_inj. intro m.
  destruct (N.ltb_spec m 8) as [Hm|Hm]; [apply H; assumption|].
  rewrite (testbit_small a 8 m), (testbit_small b 8 m) by (assumption || (rewrite p8; assumption)). reflexivity.
Qed.

(* ---------- xor of octet strings ---------- *)
Fixpoint xor_octets (a b : list N) : list N :=
  match a, b with
  | x :: a', y :: b' => N.lxor x y :: xor_octets a' b'
  | _, _ => []
  end.

Lemma xor_octets_length a : forall b, length (xor_octets a b) = Nat.min (length a) (length b).
Proof.
  induction a as [|x a IH]; intros [|y b]; cbn [xor_octets length Nat.min]; try reflexivity.
  rewrite IH. reflexivity.
Qed.

Lemma nth_xor_octets a : forall b i, (i < length a)%nat -> (i < length b)%nat ->
  nth i (xor_octets a b) 0 = N.lxor (nth i a 0) (nth i b 0).
Proof.
  induction a as [|x a IH]; intros [|y b] i Ha Hb; cbn [length] in *; try lia.
  destruct i; cbn [xor_octets nth]; [reflexivity|]. apply IH; lia.
Qed.

Lemma xor_octets_firstn a : forall b n, xor_octets (firstn n a) (firstn n b) = firstn n (xor_octets a b).
Proof.
  induction a as [|x a IH]; intros b n.
  - rewrite firstn_nil. cbn [xor_octets]. rewrite firstn_nil. reflexivity.
  - destruct b as [|y b].
    + rewrite firstn_nil. destruct n; cbn [firstn xor_octets]; reflexivity.
    + destruct n; cbn [firstn xor_octets]; [reflexivity|]. rewrite IH. reflexivity.
Qed.

Lemma xor_octets_involutive a : forall k, (length a <= length k)%nat -> xor_octets (xor_octets a k) k = a.
Proof.
  induction a as [|x a IH]; intros [|y k] H; cbn [length] in *; try lia; cbn [xor_octets]; [reflexivity|reflexivity|].
  rewrite N.lxor_assoc, N.lxor_nilpotent, N.lxor_0_r. rewrite IH by lia. reflexivity.
Qed.

Lemma xor_octets_cancel a : forall k, length a = length k -> xor_octets (xor_octets a k) a = k.
Proof.
  induction a as [|x a IH]; intros [|y k] H; cbn [length] in *; try lia; cbn [xor_octets]; [reflexivity|].
  rewrite (N.lxor_comm x y), N.lxor_assoc, N.lxor_nilpotent, N.lxor_0_r. rewrite IH by lia. reflexivity.
Qed.
