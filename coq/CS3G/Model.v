(* CS3G: hand-written executable model of
     /repo/security/snow3g/snow3g.go   (module Snow3g: sr, sq, mulx, mulxPow, s1, s2,
                                        mulAlpha, divAlpha, lfsrInitializationMode,
                                        lfsrKeystreamMode, clockFsm, newSnow3g,
                                        generateKeystream, GetKeyStream)
     /repo/security/security.go        (NEA1, NIA1 and the uint64 mulx, mulxPow, mul)
   statement by statement.  Conventions:
   * Go uint8/uint32/uint64 results are wrapped explicitly (u8/u32/u64 = "mod 2^n",
     lemma u32_mod etc. in Proofs_Words.v); a - b on unsigned types is sub32/sub64.
   * every array / slice access goes through idx / idxN / store / storeN / slice /
     slice_fromN and yields Panic when out of range, also for the fixed-size arrays
     ([16]uint32, [3]uint32, [4]uint32, [16]byte, the 256-entry tables) where the Go
     compiler can prove the access safe.
   * for-loops are [for_loop n lo body]: n iterations, structural on n.
   * a pointer receiver / an output slice is threaded through as a value.
   * Where one Go expression reads the same array cell several times (e.g. sr[w3]
     twice in s1, s.lfsr[0] twice in the feedback word) the model reads it once and
     reuses the value: the cell is not written in between and a failing read is a
     Panic either way.
   * stdlib calls that are modelled (trusted): binary.BigEndian.Uint32 / Uint64 /
     PutUint32 (be32, be64, put32), make (repeat 0), copy (copy_bytes). *)
From NV Require Import Lib.Base.
Open Scope N_scope.

(* ---------- Go integer types ---------- *)
Definition u8 (x : N) : N := N.land x 0xff.
Definition u32 (x : N) : N := N.land x 0xffffffff.
Definition u64 (x : N) : N := N.land x 0xffffffffffffffff.
(* a - b in uint32 / uint64 *)
Definition sub32 (a b : N) : N := u32 (u32 a + 0x100000000 - u32 b).
Definition sub64 (a b : N) : N := u64 (u64 a + 0x10000000000000000 - u64 b).

(* ---------- arrays and slices ---------- *)
(* x[i] with an unsigned index that may be huge: compare before converting to nat *)
Definition idxN (l : list N) (i : N) : outcome N :=
  if i <? N.of_nat (length l) then idx l (N.to_nat i) else Panic.

(* x[i] = v *)
Fixpoint store (l : list N) (i : nat) (v : N) : outcome (list N) :=
  match l, i with
  | [], _ => Panic
  | _ :: t, O => Ok (v :: t)
  | h :: t, S j => t' <- store t j v ;; Ok (h :: t')
  end.
Definition storeN (l : list N) (i : N) (v : N) : outcome (list N) :=
  if i <? N.of_nat (length l) then store l (N.to_nat i) v else Panic.

(* x[a:] with an unsigned a (converted to int by Go: anything above len panics) *)
Definition slice_fromN (l : bytes) (a : N) : outcome bytes :=
  if a <=? N.of_nat (length l) then Ok (skipn (N.to_nat a) l) else Panic.

(* copy(dst, src): min(len dst, len src) elements; returns the new dst *)
Definition copy_bytes (dst src : bytes) : bytes :=
  let n := Nat.min (length dst) (length src) in firstn n src ++ skipn n dst.

(* for i := lo; i < lo + n; i++ { a = body i a } *)
Fixpoint for_loop {A} (n : nat) (i : nat) (body : nat -> A -> outcome A) (a : A) : outcome A :=
  match n with
  | O => Ok a
  | S n' => a' <- body i a ;; for_loop n' (S i) body a'
  end.

(* encoding/binary BigEndian *)
Definition be32 (b : bytes) : outcome N :=
  _ <- idx b 3 ;;                                     (* _ = b[3] *)
  b3 <- idx b 3 ;; b2 <- idx b 2 ;; b1 <- idx b 1 ;; b0 <- idx b 0 ;;
  Ok (N.lor (N.lor (N.lor b3 (u32 (N.shiftl b2 8))) (u32 (N.shiftl b1 16))) (u32 (N.shiftl b0 24))).
Definition be64 (b : bytes) : outcome N :=
  _ <- idx b 7 ;;
  b7 <- idx b 7 ;; b6 <- idx b 6 ;; b5 <- idx b 5 ;; b4 <- idx b 4 ;;
  b3 <- idx b 3 ;; b2 <- idx b 2 ;; b1 <- idx b 1 ;; b0 <- idx b 0 ;;
  Ok (N.lor (N.lor (N.lor (N.lor (N.lor (N.lor (N.lor b7
      (u64 (N.shiftl b6 8))) (u64 (N.shiftl b5 16))) (u64 (N.shiftl b4 24)))
      (u64 (N.shiftl b3 32))) (u64 (N.shiftl b2 40))) (u64 (N.shiftl b1 48))) (u64 (N.shiftl b0 56))).
(* b := make([]byte, 4); binary.BigEndian.PutUint32(b, v) *)
Definition put32 (v : N) : bytes :=
  [u8 (N.shiftr v 24); u8 (N.shiftr v 16); u8 (N.shiftr v 8); u8 v].

(* ====================================================================== *)
Module Snow3g.

Definition sr : list N := [
  0x63; 0x7c; 0x77; 0x7b; 0xf2; 0x6b; 0x6f; 0xc5; 0x30; 0x01; 0x67; 0x2b; 0xfe; 0xd7; 0xab; 0x76;
  0xca; 0x82; 0xc9; 0x7d; 0xfa; 0x59; 0x47; 0xf0; 0xad; 0xd4; 0xa2; 0xaf; 0x9c; 0xa4; 0x72; 0xc0;
  0xb7; 0xfd; 0x93; 0x26; 0x36; 0x3f; 0xf7; 0xcc; 0x34; 0xa5; 0xe5; 0xf1; 0x71; 0xd8; 0x31; 0x15;
  0x04; 0xc7; 0x23; 0xc3; 0x18; 0x96; 0x05; 0x9a; 0x07; 0x12; 0x80; 0xe2; 0xeb; 0x27; 0xb2; 0x75;
  0x09; 0x83; 0x2c; 0x1a; 0x1b; 0x6e; 0x5a; 0xa0; 0x52; 0x3b; 0xd6; 0xb3; 0x29; 0xe3; 0x2f; 0x84;
  0x53; 0xd1; 0x00; 0xed; 0x20; 0xfc; 0xb1; 0x5b; 0x6a; 0xcb; 0xbe; 0x39; 0x4a; 0x4c; 0x58; 0xcf;
  0xd0; 0xef; 0xaa; 0xfb; 0x43; 0x4d; 0x33; 0x85; 0x45; 0xf9; 0x02; 0x7f; 0x50; 0x3c; 0x9f; 0xa8;
  0x51; 0xa3; 0x40; 0x8f; 0x92; 0x9d; 0x38; 0xf5; 0xbc; 0xb6; 0xda; 0x21; 0x10; 0xff; 0xf3; 0xd2;
  0xcd; 0x0c; 0x13; 0xec; 0x5f; 0x97; 0x44; 0x17; 0xc4; 0xa7; 0x7e; 0x3d; 0x64; 0x5d; 0x19; 0x73;
  0x60; 0x81; 0x4f; 0xdc; 0x22; 0x2a; 0x90; 0x88; 0x46; 0xee; 0xb8; 0x14; 0xde; 0x5e; 0x0b; 0xdb;
  0xe0; 0x32; 0x3a; 0x0a; 0x49; 0x06; 0x24; 0x5c; 0xc2; 0xd3; 0xac; 0x62; 0x91; 0x95; 0xe4; 0x79;
  0xe7; 0xc8; 0x37; 0x6d; 0x8d; 0xd5; 0x4e; 0xa9; 0x6c; 0x56; 0xf4; 0xea; 0x65; 0x7a; 0xae; 0x08;
  0xba; 0x78; 0x25; 0x2e; 0x1c; 0xa6; 0xb4; 0xc6; 0xe8; 0xdd; 0x74; 0x1f; 0x4b; 0xbd; 0x8b; 0x8a;
  0x70; 0x3e; 0xb5; 0x66; 0x48; 0x03; 0xf6; 0x0e; 0x61; 0x35; 0x57; 0xb9; 0x86; 0xc1; 0x1d; 0x9e;
  0xe1; 0xf8; 0x98; 0x11; 0x69; 0xd9; 0x8e; 0x94; 0x9b; 0x1e; 0x87; 0xe9; 0xce; 0x55; 0x28; 0xdf;
  0x8c; 0xa1; 0x89; 0x0d; 0xbf; 0xe6; 0x42; 0x68; 0x41; 0x99; 0x2d; 0x0f; 0xb0; 0x54; 0xbb; 0x16
].

Definition sq : list N := [
  0x25; 0x24; 0x73; 0x67; 0xd7; 0xae; 0x5c; 0x30; 0xa4; 0xee; 0x6e; 0xcb; 0x7d; 0xb5; 0x82; 0xdb;
  0xe4; 0x8e; 0x48; 0x49; 0x4f; 0x5d; 0x6a; 0x78; 0x70; 0x88; 0xe8; 0x5f; 0x5e; 0x84; 0x65; 0xe2;
  0xd8; 0xe9; 0xcc; 0xed; 0x40; 0x2f; 0x11; 0x28; 0x57; 0xd2; 0xac; 0xe3; 0x4a; 0x15; 0x1b; 0xb9;
  0xb2; 0x80; 0x85; 0xa6; 0x2e; 0x02; 0x47; 0x29; 0x07; 0x4b; 0x0e; 0xc1; 0x51; 0xaa; 0x89; 0xd4;
  0xca; 0x01; 0x46; 0xb3; 0xef; 0xdd; 0x44; 0x7b; 0xc2; 0x7f; 0xbe; 0xc3; 0x9f; 0x20; 0x4c; 0x64;
  0x83; 0xa2; 0x68; 0x42; 0x13; 0xb4; 0x41; 0xcd; 0xba; 0xc6; 0xbb; 0x6d; 0x4d; 0x71; 0x21; 0xf4;
  0x8d; 0xb0; 0xe5; 0x93; 0xfe; 0x8f; 0xe6; 0xcf; 0x43; 0x45; 0x31; 0x22; 0x37; 0x36; 0x96; 0xfa;
  0xbc; 0x0f; 0x08; 0x52; 0x1d; 0x55; 0x1a; 0xc5; 0x4e; 0x23; 0x69; 0x7a; 0x92; 0xff; 0x5b; 0x5a;
  0xeb; 0x9a; 0x1c; 0xa9; 0xd1; 0x7e; 0x0d; 0xfc; 0x50; 0x8a; 0xb6; 0x62; 0xf5; 0x0a; 0xf8; 0xdc;
  0x03; 0x3c; 0x0c; 0x39; 0xf1; 0xb8; 0xf3; 0x3d; 0xf2; 0xd5; 0x97; 0x66; 0x81; 0x32; 0xa0; 0x00;
  0x06; 0xce; 0xf6; 0xea; 0xb7; 0x17; 0xf7; 0x8c; 0x79; 0xd6; 0xa7; 0xbf; 0x8b; 0x3f; 0x1f; 0x53;
  0x63; 0x75; 0x35; 0x2c; 0x60; 0xfd; 0x27; 0xd3; 0x94; 0xa5; 0x7c; 0xa1; 0x05; 0x58; 0x2d; 0xbd;
  0xd9; 0xc7; 0xaf; 0x6b; 0x54; 0x0b; 0xe0; 0x38; 0x04; 0xc8; 0x9d; 0xe7; 0x14; 0xb1; 0x87; 0x9c;
  0xdf; 0x6f; 0xf9; 0xda; 0x2a; 0xc4; 0x59; 0x16; 0x74; 0x91; 0xab; 0x26; 0x61; 0x76; 0x34; 0x2b;
  0xad; 0x99; 0xfb; 0x72; 0xec; 0x33; 0x12; 0xde; 0x98; 0x3b; 0xc0; 0x9b; 0x3e; 0x18; 0x10; 0x3a;
  0x56; 0xe1; 0x77; 0xc9; 0x1e; 0x9e; 0x95; 0xa3; 0x90; 0x19; 0xa8; 0x6c; 0x09; 0xd0; 0xf0; 0x86
].

(* sr[i], sq[i] *)
Definition tbl (t : list N) (i : N) : outcome N := idxN t i.

(* type snow3g struct { lfsr [16]uint32; fsm [3]uint32 } *)
Record snow3g := mkSnow { lfsr : list N; fsm : list N }.

(* func mulx(V, c byte) byte *)
Definition mulx (V c : N) : N :=
  if negb (N.land V 0x80 =? 0) then N.lxor (u8 (N.shiftl V 1)) c else u8 (N.shiftl V 1).

(* func mulxPow(V, i, c byte) byte: recursion on i (i-1 never wraps: i <> 0) *)
Fixpoint mulxPow_rec (V : N) (i : nat) (c : N) : N :=
  match i with
  | O => V
  | S j => mulx (mulxPow_rec V j c) c
  end.
Definition mulxPow (V i c : N) : N := mulxPow_rec V (N.to_nat i) c.

(* func s1(w uint32) uint32 *)
Definition s1 (w : N) : outcome N :=
  let w0 := N.land (N.shiftr w 24) 0xff in
  let w1 := N.land (N.shiftr w 16) 0xff in
  let w2 := N.land (N.shiftr w 8) 0xff in
  let w3 := N.land w 0xff in
  a0 <- tbl sr w0 ;; a1 <- tbl sr w1 ;; a2 <- tbl sr w2 ;; a3 <- tbl sr w3 ;;
  let r0 := N.lxor (N.lxor (N.lxor (N.lxor (mulx a0 0x1b) a1) a2) (mulx a3 0x1b)) a3 in
  let r1 := N.lxor (N.lxor (N.lxor (N.lxor (mulx a0 0x1b) a0) (mulx a1 0x1b)) a2) a3 in
  let r2 := N.lxor (N.lxor (N.lxor (N.lxor a0 (mulx a1 0x1b)) a1) (mulx a2 0x1b)) a3 in
  let r3 := N.lxor (N.lxor (N.lxor (N.lxor a0 a1) (mulx a2 0x1b)) a2) (mulx a3 0x1b) in
  Ok (N.lor (N.lor (N.lor (u32 (N.shiftl r0 24)) (u32 (N.shiftl r1 16))) (u32 (N.shiftl r2 8))) r3).

(* func s2(w uint32) uint32 *)
Definition s2 (w : N) : outcome N :=
  let w0 := N.land (N.shiftr w 24) 0xff in
  let w1 := N.land (N.shiftr w 16) 0xff in
  let w2 := N.land (N.shiftr w 8) 0xff in
  let w3 := N.land w 0xff in
  a0 <- tbl sq w0 ;; a1 <- tbl sq w1 ;; a2 <- tbl sq w2 ;; a3 <- tbl sq w3 ;;
  let r0 := N.lxor (N.lxor (N.lxor (N.lxor (mulx a0 0x69) a1) a2) (mulx a3 0x69)) a3 in
  let r1 := N.lxor (N.lxor (N.lxor (N.lxor (mulx a0 0x69) a0) (mulx a1 0x69)) a2) a3 in
  let r2 := N.lxor (N.lxor (N.lxor (N.lxor a0 (mulx a1 0x69)) a1) (mulx a2 0x69)) a3 in
  let r3 := N.lxor (N.lxor (N.lxor (N.lxor a0 a1) (mulx a2 0x69)) a2) (mulx a3 0x69) in
  Ok (N.lor (N.lor (N.lor (u32 (N.shiftl r0 24)) (u32 (N.shiftl r1 16))) (u32 (N.shiftl r2 8))) r3).

(* func mulAlpha(c byte) uint32 *)
Definition mulAlpha (c : N) : N :=
  let r0 := mulxPow c 23 0xa9 in
  let r1 := mulxPow c 245 0xa9 in
  let r2 := mulxPow c 48 0xa9 in
  let r3 := mulxPow c 239 0xa9 in
  N.lor (N.lor (N.lor (u32 (N.shiftl r0 24)) (u32 (N.shiftl r1 16))) (u32 (N.shiftl r2 8))) r3.

(* func divAlpha(c byte) uint32 *)
Definition divAlpha (c : N) : N :=
  let r0 := mulxPow c 16 0xa9 in
  let r1 := mulxPow c 39 0xa9 in
  let r2 := mulxPow c 6 0xa9 in
  let r3 := mulxPow c 64 0xa9 in
  N.lor (N.lor (N.lor (u32 (N.shiftl r0 24)) (u32 (N.shiftl r1 16))) (u32 (N.shiftl r2 8))) r3.

(* for i := 0; i < 15; i++ { s.lfsr[i] = s.lfsr[i+1] } *)
Definition shift_lfsr (l : list N) : outcome (list N) :=
  for_loop 15 0 (fun i l => x <- idx l (S i) ;; store l i x) l.

(* func (s *snow3g) lfsrInitializationMode(F uint32) *)
Definition lfsrInitializationMode (s : snow3g) (F : N) : outcome snow3g :=
  l0 <- idx (lfsr s) 0 ;; l2 <- idx (lfsr s) 2 ;; l11 <- idx (lfsr s) 11 ;;
  let v := N.lxor (N.lxor (N.lxor (N.lxor (N.lxor
             (u32 (N.shiftl l0 8))
             (mulAlpha (N.land (u8 (N.shiftr l0 24)) 0xff)))
             l2)
             (N.shiftr l11 8))
             (divAlpha (u8 (N.land l11 0xff))))
             F in
  l' <- shift_lfsr (lfsr s) ;;
  l'' <- store l' 15 v ;;
  Ok (mkSnow l'' (fsm s)).

(* func (s *snow3g) lfsrKeystreamMode() *)
Definition lfsrKeystreamMode (s : snow3g) : outcome snow3g :=
  l0 <- idx (lfsr s) 0 ;; l2 <- idx (lfsr s) 2 ;; l11 <- idx (lfsr s) 11 ;;
  let v := N.lxor (N.lxor (N.lxor (N.lxor
             (u32 (N.shiftl l0 8))
             (mulAlpha (N.land (u8 (N.shiftr l0 24)) 0xff)))
             l2)
             (N.shiftr l11 8))
             (divAlpha (u8 (N.land l11 0xff))) in
  l' <- shift_lfsr (lfsr s) ;;
  l'' <- store l' 15 v ;;
  Ok (mkSnow l'' (fsm s)).

(* func (s *snow3g) clockFsm(s15, s5 uint32) uint32 *)
Definition clockFsm (s : snow3g) (s15 s5 : N) : outcome (snow3g * N) :=
  f0 <- idx (fsm s) 0 ;; f1 <- idx (fsm s) 1 ;;
  let F := N.lxor (u32 (s15 + f0)) f1 in                 (* F := (s15 + s.fsm[0]) ^ s.fsm[1] *)
  f2 <- idx (fsm s) 2 ;;
  let r := u32 (f1 + N.lxor f2 s5) in                    (* r := s.fsm[1] + (s.fsm[2] ^ s5) *)
  x2 <- s2 f1 ;;
  fsmA <- store (fsm s) 2 x2 ;;                          (* s.fsm[2] = s2(s.fsm[1]) *)
  f0' <- idx fsmA 0 ;;
  x1 <- s1 f0' ;;
  fsmB <- store fsmA 1 x1 ;;                             (* s.fsm[1] = s1(s.fsm[0]) *)
  fsmC <- store fsmB 0 r ;;                              (* s.fsm[0] = r *)
  Ok (mkSnow (lfsr s) fsmC, F).

(* func newSnow3g(k, iv [4]uint32) *snow3g *)
Definition newSnow3g (k iv : list N) : outcome snow3g :=
  let l := repeat 0 16 in                                (* s := &snow3g{} *)
  let f := repeat 0 3 in
  k0 <- idx k 0 ;; k1 <- idx k 1 ;; k2 <- idx k 2 ;; k3 <- idx k 3 ;;
  iv0 <- idx iv 0 ;; iv1 <- idx iv 1 ;; iv2 <- idx iv 2 ;; iv3 <- idx iv 3 ;;
  l <- store l 0 (N.lxor k0 0xffffffff) ;;
  l <- store l 1 (N.lxor k1 0xffffffff) ;;
  l <- store l 2 (N.lxor k2 0xffffffff) ;;
  l <- store l 3 (N.lxor k3 0xffffffff) ;;
  l <- store l 4 k0 ;;
  l <- store l 5 k1 ;;
  l <- store l 6 k2 ;;
  l <- store l 7 k3 ;;
  l <- store l 8 (N.lxor k0 0xffffffff) ;;
  l <- store l 9 (N.lxor (N.lxor k1 0xffffffff) iv3) ;;
  l <- store l 10 (N.lxor (N.lxor k2 0xffffffff) iv2) ;;
  l <- store l 11 (N.lxor k3 0xffffffff) ;;
  l <- store l 12 (N.lxor k0 iv1) ;;
  l <- store l 13 k1 ;;
  l <- store l 14 k2 ;;
  l <- store l 15 (N.lxor k3 iv0) ;;
  f <- for_loop 3 0 (fun i f => store f i 0) f ;;        (* for i < 3 { s.fsm[i] = 0 } *)
  for_loop 32 0 (fun _ s =>
      s15 <- idx (lfsr s) 15 ;; s5 <- idx (lfsr s) 5 ;;
      r <- clockFsm s s15 s5 ;;                          (* F := s.clockFsm(s.lfsr[15], s.lfsr[5]) *)
      lfsrInitializationMode (fst r) (snd r))
    (mkSnow l f).

(* func (s *snow3g) generateKeystream(n int, ks []uint32); n >= 0 *)
Definition generateKeystream (s : snow3g) (n : nat) (ks : list N) : outcome (snow3g * list N) :=
  s15 <- idx (lfsr s) 15 ;; s5 <- idx (lfsr s) 5 ;;
  r <- clockFsm s s15 s5 ;;
  s <- lfsrKeystreamMode (fst r) ;;
  for_loop n 0 (fun i st =>
      let '(s, ks) := st in
      s15 <- idx (lfsr s) 15 ;; s5 <- idx (lfsr s) 5 ;;
      r <- clockFsm s s15 s5 ;;
      l0 <- idx (lfsr (fst r)) 0 ;;
      ks <- store ks i (N.lxor (snd r) l0) ;;            (* ks[i] = F ^ s.lfsr[0] *)
      s <- lfsrKeystreamMode (fst r) ;;
      Ok (s, ks))
    (s, ks).

(* func GetKeyStream(k, iv [4]uint32, n int) []uint32.
   n is an N: a negative n makes make() panic and is not representable here. *)
Definition GetKeyStream (k iv : list N) (n : N) : outcome (list N) :=
  s <- newSnow3g k iv ;;
  let ks := repeat 0 (N.to_nat n) in                     (* ks := make([]uint32, n) *)
  r <- generateKeystream s (N.to_nat n) ks ;;
  Ok (snd r).

End Snow3g.

(* ====================================================================== *)
(* package security *)

(* func mulx(V, c uint64) uint64 *)
Definition mulx (V c : N) : N :=
  if negb (N.land V 0x8000000000000000 =? 0) then N.lxor (u64 (N.shiftl V 1)) c else u64 (N.shiftl V 1).

(* func mulxPow(V, i, c uint64) uint64 *)
Fixpoint mulxPow_rec (V : N) (i : nat) (c : N) : N :=
  match i with
  | O => V
  | S j => mulx (mulxPow_rec V j c) c
  end.
Definition mulxPow (V i c : N) : N := mulxPow_rec V (N.to_nat i) c.

(* func mul(V, P, c uint64) uint64 *)
Fixpoint mul_loop (n : nat) (i : N) (V P c rst : N) : N :=
  match n with
  | O => rst
  | S n' =>
      let rst' := if N.land (N.shiftr P i) 1 =? 1 then N.lxor rst (mulxPow V i c) else rst in
      mul_loop n' (i + 1) V P c rst'
  end.
Definition mul (V P c : N) : N := mul_loop 64 0 V P c 0.

(* for i := uint32(0); i < 4; i++ { k[i] = binary.BigEndian.Uint32(ck[4*(3-i) : 4*(3-i+1)]) }
   (i <= 3, so the uint32 expressions do not wrap) *)
Definition load_key (ck : bytes) : outcome (list N) :=
  for_loop 4 0 (fun i k =>
      b <- slice ck (4 * (3 - i)) (4 * (3 - i + 1)) ;;
      w <- be32 b ;;
      store k i w)
    (repeat 0 4).

(* obs[4*i+j] = ibs[4*i+j] ^ byte((ks[i]>>(8*(3-j)))&0xff)   (i, j uint32, j <= 3) *)
Definition nea1_byte (ibs ks : list N) (i j : N) (obs : bytes) : outcome bytes :=
  let p := u32 (u32 (4 * i) + j) in
  a <- idxN ibs p ;;
  w <- idxN ks i ;;
  storeN obs p (N.lxor a (u8 (N.land (N.shiftr w (u32 (8 * sub32 3 j))) 0xff))).

(* func NEA1(ck [16]byte, countC, bearer, direction uint32, ibs []byte, length uint32) (obs []byte, err error) *)
Definition NEA1 (ck : bytes) (countC bearer direction : N) (ibs : bytes) (length : N) : outcome bytes :=
  k <- load_key ck ;;
  let bd := N.lor (u32 (N.shiftl bearer 27)) (u32 (N.shiftl direction 26)) in
  let iv := [bd; countC; bd; countC] in
  let l := u32 (length + 31) / 32 in
  let r := length mod 32 in
  ks <- Snow3g.GetKeyStream k iv l ;;                    (* int(l) >= 0 on 64-bit *)
  ks <- (if negb (r =? 0) then                           (* ks[l-1] &= ^((1 << (32 - r)) - 1) *)
           x <- idxN ks (sub32 l 1) ;;
           let m := N.lxor (sub32 (u32 (N.shiftl 1 (sub32 32 r))) 1) 0xffffffff in
           storeN ks (sub32 l 1) (N.land x m)
         else Ok ks) ;;
  let obs := repeat 0 (List.length ibs) in               (* obs = make([]byte, len(ibs)) *)
  let nw := length / 32 in
  obs <- for_loop (N.to_nat nw) 0 (fun i obs =>
           for_loop 4 0 (fun j obs => nea1_byte ibs ks (N.of_nat i) (N.of_nat j) obs) obs) obs ;;
  obs <- (if negb (r =? 0) then                          (* here i = length/32 *)
            let ll := u32 (r + 7) / 8 in
            for_loop (N.to_nat ll) 0 (fun j obs => nea1_byte ibs ks nw (N.of_nat j) obs) obs
          else Ok obs) ;;
  Ok obs.

(* func NIA1(ik [16]byte, countI uint32, bearer byte, direction uint32, msg []byte, length uint64) (mac []byte, err error) *)
Definition NIA1 (ik : bytes) (countI bearer direction : N) (msg : bytes) (length : N) : outcome bytes :=
  let fresh := u32 (N.shiftl bearer 27) in               (* uint32(bearer) << 27 *)
  k <- load_key ik ;;
  let iv := [N.lxor fresh (u32 (N.shiftl direction 15));
             N.lxor countI (u32 (N.shiftl direction 31)); fresh; countI] in
  let D := u64 (u64 (length + 63) / 64 + 1) in
  z <- Snow3g.GetKeyStream k iv 5 ;;
  z0 <- idx z 0 ;; z1 <- idx z 1 ;;
  let P := N.lor (u64 (N.shiftl z0 32)) z1 in
  z2 <- idx z 2 ;; z3 <- idx z 3 ;;
  let Q := N.lor (u64 (N.shiftl z2 32)) z3 in
  Eval <- (if 2 <=? D then
             e <- for_loop (N.to_nat (sub64 D 2)) 0 (fun i e =>
                    b <- slice_fromN msg (u64 (8 * N.of_nat i)) ;;       (* msg[8*i:] *)
                    M <- be64 b ;;
                    Ok (mul (N.lxor e M) P 0x1b)) 0 ;;
             let tmp := repeat 0 8 in
             tl <- slice_fromN msg (u64 (8 * sub64 D 2)) ;;              (* msg[8*(D-2):] *)
             let tmp := copy_bytes tmp tl in
             M <- be64 tmp ;;
             Ok (mul (N.lxor e M) P 0x1b)
           else Ok 0) ;;
  let Eval := N.lxor Eval length in
  let Eval := mul Eval Q 0x1b in
  z4 <- idx z 4 ;;
  let MacI := N.lxor (u32 (N.shiftr Eval 32)) z4 in
  Ok (put32 MacI).

(* ---------- the two API entry points restricted to algorithm identity 1 ----------
   (the full NASEncrypt / NASMacCalculate are another slice's model; these wrappers exist so
   that the correspondence run can exercise NEA1 / NIA1 through the in-place byte-length API)
   NASEncrypt(AlgCiphering128NEA1, key, count, bearer, direction, payload) with payload != nil;
   bearer, direction : uint8.  Result: the final contents of payload. *)
Definition NASEncrypt_alg1 (key : bytes) (count bearer direction : N) (payload : bytes) : outcome bytes :=
  if 0x1f <? bearer then Err else
  if 1 <? direction then Err else
  output <- NEA1 key count bearer direction payload (u32 (u32 (N.of_nat (List.length payload)) * 8)) ;;
  Ok (copy_bytes payload output).                        (* copy(payload, output) *)

(* NASMacCalculate(AlgIntegrity128NIA1, key, count, bearer, direction, msg) with msg != nil *)
Definition NASMacCalculate_alg1 (key : bytes) (count bearer direction : N) (msg : bytes) : outcome bytes :=
  if 0x1f <? bearer then Err else
  if 1 <? direction then Err else
  NIA1 key count bearer direction msg (u64 (u64 (N.of_nat (List.length msg)) * 8)).
