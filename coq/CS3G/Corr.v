(* CS3G correspondence: calls observed on the Go implementation, replayed on the model. *)
From NV Require Import Lib.Base CS3G.Model.
Open Scope N_scope.

Inductive op :=
| OpKS   (k iv : list N) (n : N)                                   (* snow3g.GetKeyStream(k, iv, n) *)
| OpNEA1 (ck : bytes) (count bearer dir : N) (ibs : bytes) (len : N) (* security.NEA1 *)
| OpNIA1 (ik : bytes) (count bearer dir : N) (msg : bytes) (len : N) (* security.NIA1 *)
| OpEnc  (ck : bytes) (count bearer dir : N) (payload : bytes)     (* security.NASEncrypt(1, ...): payload afterwards *)
| OpMac  (ik : bytes) (count bearer dir : N) (msg : bytes).        (* security.NASMacCalculate(1, ...) *)

Inductive obs :=
| OWords (w : list N)
| OBytes (b : bytes)
| OErr
| OPanic
| OHang.

Definition obs_of (o : outcome (list N)) (words : bool) : obs :=
  match o with
  | Ok l => if words then OWords l else OBytes l
  | Err => OErr
  | Panic => OPanic
  | OutOfFuel => OHang
  end.

Definition run_op (o : op) : obs :=
  match o with
  | OpKS k iv n => obs_of (Snow3g.GetKeyStream k iv n) true
  | OpNEA1 ck c b d ibs len => obs_of (NEA1 ck c b d ibs len) false
  | OpNIA1 ik c b d msg len => obs_of (NIA1 ik c b d msg len) false
  | OpEnc ck c b d p => obs_of (NASEncrypt_alg1 ck c b d p) false
  | OpMac ik c b d m => obs_of (NASMacCalculate_alg1 ik c b d m) false
  end.

Definition obs_eqb (a b : obs) : bool :=
  match a, b with
  | OWords x, OWords y => eqb_bytes x y
  | OBytes x, OBytes y => eqb_bytes x y
  | OErr, OErr => true
  | OPanic, OPanic => true
  | _, _ => false
  end.

Definition case := (N * op * obs)%type.
Definition case_id (c : case) : N := fst (fst c).

Definition case_ok (c : case) : bool :=
  let '(_, o, observed) := c in obs_eqb (run_op o) observed.

Definition mismatches (cs : list case) : list N :=
  map case_id (filter (fun c => negb (case_ok c)) cs).
