(* CS3G: NEA1 = UEA2 (f8) on the first `length` bits for every bit length; what lies beyond;
   the C08 laws of NEA1 / NASEncrypt(alg 1) for byte lengths. *)
From NV Require Import Lib.Base Lib.Bits CS3G.Model CS3G.Spec CS3G.Proofs_Words CS3G.Proofs_Snow
  CS3G.Proofs_Bits CS3G.Proofs_NEA1.
From Coq Require Import ZifyN ZifyNat ZifyBool.
Open Scope N_scope.
Ltac Zify.zify_post_hook ::= Z.div_mod_to_equations.

Arguments N.land : simpl never.
Arguments N.lor : simpl never.
Arguments N.lxor : simpl never.
Arguments N.shiftl : simpl never.
Arguments N.shiftr : simpl never.
Arguments N.modulo : simpl never.
Arguments N.div : simpl never.
Arguments N.pow : simpl never.
Arguments N.add : simpl never.
Arguments N.mul : simpl never.
Arguments N.sub : simpl never.
Arguments N.testbit : simpl never.
Arguments N.of_nat : simpl never.
Arguments N.to_nat : simpl never.

(* ---------- the mask keeps exactly the first `length` keystream bits ---------- *)
Lemma ones_spec_ltb n m : N.testbit (N.ones n) m = (m <? n).
Proof.
  destruct (N.ltb_spec m n); [apply N.ones_spec_low | apply N.ones_spec_high]; assumption.
Qed.

Lemma testbit_mask r m : N.testbit (mask r) m = xorb (m <? 32 - r) (m <? 32).
Proof. unfold mask. rewrite N.lxor_spec, !ones_spec_ltb. reflexivity. Qed.

(* bit c (counted from the most significant end) of keystream word t, at overall position
   32t + c < length, is not affected by the mask *)
Lemma masked_bit (ks : list N) (len : N) (t c : nat) :
  length ks = nw_of len -> (c < 32)%nat -> N.of_nat (32 * t + c) < len ->
  N.testbit (nth t (mask_last ks (len mod 32)) 0) (31 - N.of_nat c)
  = N.testbit (nth t ks 0) (31 - N.of_nat c).
Proof.
  intros Hl Hc Hpos. unfold mask_last.
  destruct (N.eqb_spec (len mod 32) 0) as [E0|N0]; [reflexivity|].
  assert (Hr : len mod 32 < 32) by (apply N.mod_lt; lia).
  unfold nw_of in Hl.
  destruct (Nat.eq_dec t (length ks - 1)) as [Et|Nt].
  - subst t. rewrite nth_upd_same by lia.
    rewrite N.land_spec, testbit_mask.
    destruct (N.ltb_spec (31 - N.of_nat c) (32 - len mod 32)); [lia|].
    destruct (N.ltb_spec (31 - N.of_nat c) 32); [|lia].
    cbn [xorb]. apply andb_true_r.
  - rewrite nth_upd_other by lia. reflexivity.
Qed.

(* ---------- bit i of the output ---------- *)
Lemma filled_nth ibs ks nb p : (p < nb)%nat -> (nb <= length ibs)%nat ->
  nth p (filled ibs ks nb) 0 = N.lxor (nth p ibs 0) (nth p (ks_octets ks) 0).
Proof.
  intros Hp Hnb. unfold filled. rewrite app_nth1 by (rewrite map_length, seq_length; assumption).
  rewrite nth_map_seq by assumption. reflexivity.
Qed.

Lemma nea1_output_bit ibs (ks : list N) (len : N) (i : nat) :
  length ks = nw_of len -> N.of_nat i < len -> len <= 8 * N.of_nat (length ibs) ->
  nth i (Spec.octets_bits (filled ibs (mask_last ks (len mod 32)) (nb_of len))) false
  = xorb (nth i (Spec.octets_bits ibs) false) (nth i (flat_map Spec.word_bits ks) false).
Proof.
  intros Hl Hi Hlen.
  set (p := (i / 8)%nat). set (q := (i mod 8)%nat).
  set (t := (p / 4)%nat). set (j := (p mod 4)%nat).
  assert (Ei : i = (8 * p + q)%nat) by (subst p q; apply Nat.div_mod; lia).
  assert (Hq : (q < 8)%nat) by (subst q; apply Nat.mod_upper_bound; lia).
  assert (Ep : p = (4 * t + j)%nat) by (subst t j; apply Nat.div_mod; lia).
  assert (Hj : (j < 4)%nat) by (subst j; apply Nat.mod_upper_bound; lia).
  assert (Hpnb : (p < nb_of len)%nat) by (unfold nb_of; lia).
  assert (Hnb : (nb_of len <= length ibs)%nat) by (unfold nb_of; lia).
  assert (Ei32 : i = (32 * t + (8 * j + q))%nat) by lia.
  rewrite Ei at 1 2. rewrite !nth_octets_bits by assumption.
  rewrite filled_nth by assumption.
  rewrite N.lxor_spec. f_equal.
  rewrite Ep. rewrite nth_ks_octets by assumption.
  rewrite testbit_byte_of by lia.
  rewrite Ei32. rewrite nth_words_bits by lia.
  replace (7 - N.of_nat q + 8 * (3 - N.of_nat j)) with (31 - N.of_nat (8 * j + q)) by lia.
  apply masked_bit; [assumption | lia | lia].
Qed.

(* ---------- NEA1 = UEA2 ---------- *)
Theorem nea1_eq_uea2 ck count bearer direction ibs length :
  nea1_domain ck count bearer direction ibs length ->
  exists obs,
    NEA1 ck count bearer direction ibs length = Ok obs /\
    List.length obs = List.length ibs /\
    firstn (N.to_nat length) (Spec.octets_bits obs)
    = Spec.EEA1 ck count bearer direction (firstn (N.to_nat length) (Spec.octets_bits ibs)).
Proof.
  intro Hdom. pose proof Hdom as (Hck & Hok & Hc & Hb & Hd & Hlen & Hsz).
  eexists. split; [apply NEA1_closed; assumption|].
  assert (Hnb : (nb_of length <= List.length ibs)%nat) by (unfold nb_of; lia).
  split; [apply filled_length; assumption|].
  unfold nea1_ks.
  set (ks := Spec.keystream (Spec.key_words ck) (Spec.f8_iv count bearer direction) (nw_of length)).
  assert (Hksl : List.length ks = nw_of length) by apply keystream_length.
  set (n := N.to_nat length).
  assert (Hibits : List.length (firstn n (Spec.octets_bits ibs)) = n)
    by (rewrite firstn_length, octets_bits_length; subst n; lia).
  unfold Spec.EEA1, Spec.f8. rewrite Hibits. unfold Spec.f8_KS.
  replace ((n + 31) / 32)%nat with (nw_of length) by (unfold nw_of; subst n; lia).
  fold ks.
  assert (Hobits : List.length (firstn n (Spec.octets_bits (filled ibs (mask_last ks (length mod 32)) (nb_of length)))) = n).
  { rewrite firstn_length, octets_bits_length, filled_length by assumption. subst n; lia. }
  assert (Hkbits : List.length (firstn n (flat_map Spec.word_bits ks)) = n).
  { rewrite firstn_length, words_bits_length, Hksl. unfold nw_of. subst n. lia. }
  apply nth_ext with (d := false) (d' := false).
  - rewrite Hobits, xor_bits_length, Hibits, Hkbits. lia.
  - intros i Hi. rewrite Hobits in Hi.
    rewrite nth_xor_bits by lia.
    rewrite !nth_firstn_lt by assumption.
    apply nea1_output_bit; [assumption | subst n; lia | assumption].
Qed.

(* ---------- what NEA1 does beyond `length` (outside the standard) ---------- *)
(* the octets after the one containing bit length-1 are zero *)
Lemma nea1_beyond_octets ck count bearer direction ibs length obs p :
  nea1_domain ck count bearer direction ibs length ->
  NEA1 ck count bearer direction ibs length = Ok obs ->
  (nb_of length <= p)%nat -> nth p obs 0 = 0.
Proof.
  intros Hdom E Hp. rewrite NEA1_closed in E by assumption. inversion E; subst obs. clear E.
  unfold filled. rewrite app_nth2 by (rewrite map_length, seq_length; assumption).
  rewrite map_length, seq_length.
  generalize (p - nb_of length)%nat (List.length ibs - nb_of length)%nat.
  intros a b. revert a. induction b; intros [|a]; simpl; auto.
Qed.

(* the pad bits of the last, partial octet are the input's pad bits *)
Lemma nea1_beyond_padbits ck count bearer direction ibs length obs i :
  nea1_domain ck count bearer direction ibs length ->
  NEA1 ck count bearer direction ibs length = Ok obs ->
  length <= N.of_nat i -> (i < 8 * nb_of length)%nat ->
  nth i (Spec.octets_bits obs) false = nth i (Spec.octets_bits ibs) false.
Proof.
  intros Hdom E Hlo Hhi. pose proof Hdom as (Hck & Hok & Hc & Hb & Hd & Hlen & Hsz).
  rewrite NEA1_closed in E by assumption. inversion E; subst obs. clear E.
  unfold nea1_ks.
  set (ks := Spec.keystream (Spec.key_words ck) (Spec.f8_iv count bearer direction) (nw_of length)).
  assert (Hksl : List.length ks = nw_of length) by apply keystream_length.
  set (p := (i / 8)%nat). set (q := (i mod 8)%nat).
  set (t := (p / 4)%nat). set (j := (p mod 4)%nat).
  assert (Ei : i = (8 * p + q)%nat) by (subst p q; apply Nat.div_mod; lia).
  assert (Hq : (q < 8)%nat) by (subst q; apply Nat.mod_upper_bound; lia).
  assert (Ep : p = (4 * t + j)%nat) by (subst t j; apply Nat.div_mod; lia).
  assert (Hj : (j < 4)%nat) by (subst j; apply Nat.mod_upper_bound; lia).
  assert (Hnb : (nb_of length <= List.length ibs)%nat) by (unfold nb_of; lia).
  assert (Hpnb : (p < nb_of length)%nat) by lia.
  rewrite Ei. rewrite !nth_octets_bits by assumption.
  rewrite filled_nth by assumption. rewrite N.lxor_spec.
  rewrite Ep. rewrite nth_ks_octets by assumption. rewrite testbit_byte_of by lia.
  (* the keystream bit at this position was cleared *)
  assert (Er : length mod 32 <> 0) by (unfold nb_of in *; lia).
  assert (Et : t = (List.length ks - 1)%nat) by (rewrite Hksl; unfold nw_of, nb_of in *; lia).
  unfold mask_last. destruct (N.eqb_spec (length mod 32) 0) as [?|_]; [contradiction|].
  rewrite Et. rewrite nth_upd_same by (rewrite Hksl; unfold nw_of; lia).
  rewrite N.land_spec, testbit_mask.
  assert (Hr : length mod 32 < 32) by (apply N.mod_lt; lia).
  destruct (N.ltb_spec (7 - N.of_nat q + 8 * (3 - N.of_nat j)) (32 - length mod 32)) as [_|Hge].
  - destruct (N.ltb_spec (7 - N.of_nat q + 8 * (3 - N.of_nat j)) 32); [|lia].
    cbn [xorb]. rewrite andb_false_r. apply xorb_false_r.
  - exfalso. unfold nw_of, nb_of in *. lia.
Qed.

(* ---------- byte lengths: NEA1 is "xor with a keystream that depends on key, COUNT, BEARER,
   DIRECTION and the position only" ---------- *)
(* the first n keystream octets *)
Definition ksb (ck : bytes) (count bearer direction : N) (n : nat) : list N :=
  firstn n (ks_octets (Spec.keystream (Spec.key_words ck) (Spec.f8_iv count bearer direction) ((n + 3) / 4))).

Lemma ksb_length ck count bearer direction n : length (ksb ck count bearer direction n) = n.
Proof.
  unfold ksb. rewrite firstn_length, ks_octets_length, keystream_length. lia.
Qed.

Lemma ksb_prefix ck count bearer direction n m :
  ksb ck count bearer direction n = firstn n (ksb ck count bearer direction (n + m)).
Proof.
  unfold ksb.
  set (K := Spec.key_words ck). set (IV := Spec.f8_iv count bearer direction).
  assert (Hle : ((n + 3) / 4 <= (n + m + 3) / 4)%nat) by lia.
  replace ((n + m + 3) / 4)%nat with ((n + 3) / 4 + ((n + m + 3) / 4 - (n + 3) / 4))%nat by lia.
  rewrite (keystream_prefix K IV ((n + 3) / 4) ((n + m + 3) / 4 - (n + 3) / 4)).
  rewrite ks_octets_firstn. rewrite !firstn_firstn. f_equal. lia.
Qed.

Definition nea1_domain8 (ck : bytes) (count bearer direction : N) (p : bytes) : Prop :=
  length ck = 16%nat /\ bytes_ok ck /\ count < 2 ^ 32 /\ bearer < 32 /\ direction < 2 /\
  8 * N.of_nat (length p) < 2 ^ 32 - 31.

Lemma domain8 ck count bearer direction p :
  nea1_domain8 ck count bearer direction p ->
  nea1_domain ck count bearer direction p (8 * N.of_nat (length p)).
Proof. intros (?&?&?&?&?&?). unfold nea1_domain. repeat split; try assumption. lia. Qed.

Theorem nea1_bytes ck count bearer direction p :
  nea1_domain8 ck count bearer direction p ->
  NEA1 ck count bearer direction p (8 * N.of_nat (length p))
  = Ok (xor_octets p (ksb ck count bearer direction (length p))).
Proof.
  intro Hdom. pose proof Hdom as (Hck & Hok & Hc & Hb & Hd & Hsz).
  rewrite NEA1_closed by (apply domain8; assumption). f_equal.
  set (len := 8 * N.of_nat (length p)).
  assert (Enb : nb_of len = length p) by (unfold nb_of; subst len; lia).
  assert (Enw : nw_of len = ((length p + 3) / 4)%nat) by (unfold nw_of; subst len; lia).
  rewrite Enb. unfold nea1_ks, ksb. rewrite Enw.
  set (ks := Spec.keystream (Spec.key_words ck) (Spec.f8_iv count bearer direction) ((length p + 3) / 4)).
  assert (Hksl : length ks = nw_of len) by (rewrite Enw; apply keystream_length).
  assert (Hko : (length p <= length (ks_octets ks))%nat) by (rewrite ks_octets_length, Hksl, Enw; lia).
  apply nth_ext with (d := 0) (d' := 0).
  - rewrite filled_length by lia. rewrite xor_octets_length, firstn_length. lia.
  - intros i Hi. rewrite filled_length in Hi by lia.
    rewrite filled_nth by lia.
    rewrite nth_xor_octets by (rewrite ?firstn_length; lia).
    rewrite nth_firstn_lt by assumption. f_equal.
    (* octet i of the masked keystream = octet i of the keystream *)
    set (t := (i / 4)%nat). set (j := (i mod 4)%nat).
    assert (Ei : i = (4 * t + j)%nat) by (subst t j; apply Nat.div_mod; lia).
    assert (Hj : (j < 4)%nat) by (subst j; apply Nat.mod_upper_bound; lia).
    rewrite Ei, !nth_ks_octets by assumption.
    apply octet_ext; try apply byte_of_lt.
    intros m Hm. rewrite !testbit_byte_of by assumption.
    replace (m + 8 * (3 - N.of_nat j)) with (31 - N.of_nat (8 * j + (7 - N.to_nat m))) by lia.
    apply masked_bit; [assumption | lia | subst len; lia].
Qed.

(* ---------- the C08 laws for NEA1 with length = 8 * len(payload) ---------- *)
Theorem nea1_length ck count bearer direction p :
  nea1_domain8 ck count bearer direction p ->
  exists c, NEA1 ck count bearer direction p (8 * N.of_nat (length p)) = Ok c /\ length c = length p.
Proof.
  intro Hdom. eexists. split; [apply nea1_bytes; assumption|].
  rewrite xor_octets_length, ksb_length. lia.
Qed.

Theorem nea1_involution ck count bearer direction p c :
  nea1_domain8 ck count bearer direction p ->
  NEA1 ck count bearer direction p (8 * N.of_nat (length p)) = Ok c ->
  NEA1 ck count bearer direction c (8 * N.of_nat (length c)) = Ok p.
Proof.
  intros Hdom E. rewrite nea1_bytes in E by assumption.
  assert (Ec : c = xor_octets p (ksb ck count bearer direction (length p))) by congruence. clear E.
  assert (Hl : length c = length p) by (rewrite Ec, xor_octets_length, ksb_length; lia).
  assert (Hdom' : nea1_domain8 ck count bearer direction c).
  { destruct Hdom as (?&?&?&?&?&?). unfold nea1_domain8. rewrite Hl. repeat split; assumption. }
  rewrite nea1_bytes by assumption. f_equal. rewrite Hl, Ec.
  apply xor_octets_involutive. rewrite ksb_length. lia.
Qed.

Theorem nea1_prefix ck count bearer direction p c n :
  nea1_domain8 ck count bearer direction p -> (n <= length p)%nat ->
  NEA1 ck count bearer direction p (8 * N.of_nat (length p)) = Ok c ->
  NEA1 ck count bearer direction (firstn n p) (8 * N.of_nat (length (firstn n p))) = Ok (firstn n c).
Proof.
  intros Hdom Hn E. rewrite nea1_bytes in E by assumption.
  assert (Ec : c = xor_octets p (ksb ck count bearer direction (length p))) by congruence. clear E.
  assert (Hl : length (firstn n p) = n) by (rewrite firstn_length; lia).
  assert (Hdom' : nea1_domain8 ck count bearer direction (firstn n p)).
  { destruct Hdom as (?&?&?&?&?&?). unfold nea1_domain8. rewrite Hl. repeat split; try assumption. lia. }
  rewrite nea1_bytes by assumption. f_equal. rewrite Hl, Ec.
  rewrite <- xor_octets_firstn. f_equal.
  replace (length p) with (n + (length p - n))%nat by lia. apply ksb_prefix.
Qed.

(* ciphertext xor plaintext is the keystream: it does not depend on the plaintext *)
Theorem nea1_keystream_indep ck count bearer direction p q c d :
  nea1_domain8 ck count bearer direction p -> length q = length p ->
  NEA1 ck count bearer direction p (8 * N.of_nat (length p)) = Ok c ->
  NEA1 ck count bearer direction q (8 * N.of_nat (length q)) = Ok d ->
  xor_octets c p = xor_octets d q.
Proof.
  intros Hdom Hq E1 E2.
  assert (Hdom' : nea1_domain8 ck count bearer direction q).
  { destruct Hdom as (?&?&?&?&?&?). unfold nea1_domain8. rewrite Hq. repeat split; assumption. }
  rewrite nea1_bytes in E1, E2 by assumption.
  assert (Ec : c = xor_octets p (ksb ck count bearer direction (length p))) by congruence.
  assert (Ed : d = xor_octets q (ksb ck count bearer direction (length q))) by congruence.
  rewrite Ec, Ed.
  rewrite !xor_octets_cancel by (rewrite ksb_length; lia). rewrite Hq. reflexivity.
Qed.

(* ---------- the same through the in-place API ---------- *)
Lemma copy_bytes_same_length (dst src : bytes) : length dst = length src -> copy_bytes dst src = src.
Proof.
  intro H. unfold copy_bytes. rewrite H, Nat.min_id, firstn_all, <- H, skipn_all, app_nil_r. reflexivity.
Qed.

Theorem NASEncrypt_alg1_eq ck count bearer direction p :
  nea1_domain8 ck count bearer direction p ->
  NASEncrypt_alg1 ck count bearer direction p = NEA1 ck count bearer direction p (8 * N.of_nat (length p)).
Proof.
  intro Hdom. pose proof Hdom as (Hck & Hok & Hc & Hb & Hd & Hsz). rewrite p32 in Hsz.
  unfold NASEncrypt_alg1.
  destruct (N.ltb_spec 0x1f bearer); [lia|]. destruct (N.ltb_spec 1 direction); [lia|].
  rewrite (u32_small (N.of_nat (length p))) by (rewrite p32; lia).
  rewrite u32_small by (rewrite p32; lia).
  replace (N.of_nat (length p) * 8) with (8 * N.of_nat (length p)) by lia.
  rewrite nea1_bytes by assumption. cbn [obind].
  rewrite copy_bytes_same_length; [reflexivity|]. rewrite xor_octets_length, ksb_length. lia.
Qed.
