(* CS3G: closed form of security.NEA1 (byte / word plumbing; no bit reasoning here). *)
From NV Require Import Lib.Base Lib.Bits CS3G.Model CS3G.Spec CS3G.Proofs_Words CS3G.Proofs_Snow.
From Coq Require Import ZifyN ZifyNat ZifyBool.
Open Scope N_scope.
Ltac Zify.zify_post_hook ::= Z.div_mod_to_equations.

Arguments N.land : simpl never.
Arguments N.lor : simpl never.
Arguments N.lxor : simpl never.
Arguments N.shiftl : simpl never.
Arguments N.shiftr : simpl never.
Arguments N.modulo : simpl never.
Arguments N.div : simpl never.
Arguments N.pow : simpl never.
Arguments N.add : simpl never.
Arguments N.mul : simpl never.
Arguments N.sub : simpl never.
Arguments N.testbit : simpl never.
Arguments N.of_nat : simpl never.
Arguments N.to_nat : simpl never.

(* ---------- octets of keystream words ---------- *)
Definition word_octets (w : N) : list N :=
  [Spec.byte_of w 0; Spec.byte_of w 1; Spec.byte_of w 2; Spec.byte_of w 3].
Definition ks_octets (ws : list N) : list N := flat_map word_octets ws.

Lemma byte_of_0 j : Spec.byte_of 0 j = 0.
Proof. unfold Spec.byte_of. rewrite N.div_0_l by (apply N.pow_nonzero; lia). reflexivity. Qed.

Lemma nth_nil {A} (n : nat) (d : A) : nth n [] d = d.
Proof. destruct n; reflexivity. Qed.

Lemma nth_ks_octets ws : forall t j, (j < 4)%nat ->
  nth (4 * t + j) (ks_octets ws) 0 = Spec.byte_of (nth t ws 0) j.
Proof.
  induction ws as [|w ws IH]; intros t j Hj.
  - cbn [ks_octets flat_map]. rewrite !nth_nil, byte_of_0. reflexivity.
  - destruct t as [|t].
    + cbn [ks_octets flat_map word_octets nth Nat.mul Nat.add app].
      do 4 (destruct j as [|j]; [reflexivity|]). lia.
    + replace (4 * S t + j)%nat with (4 + (4 * t + j))%nat by lia.
      cbn [ks_octets flat_map word_octets app nth Nat.add]. apply IH. assumption.
Qed.

Lemma ks_octets_length ws : length (ks_octets ws) = (4 * length ws)%nat.
Proof.
  induction ws as [|w ws IH]; [reflexivity|].
  change (ks_octets (w :: ws)) with (word_octets w ++ ks_octets ws).
  rewrite app_length, IH. cbn [word_octets length]. lia.
Qed.

Lemma ks_octets_firstn ws n : ks_octets (firstn n ws) = firstn (4 * n) (ks_octets ws).
Proof.
  revert n. induction ws as [|w ws IH]; intro n.
  - rewrite !firstn_nil. reflexivity.
  - destruct n as [|n]; [reflexivity|].
    replace (4 * S n)%nat with (4 + 4 * n)%nat by lia.
    cbn [firstn ks_octets flat_map word_octets app Nat.add]. do 4 f_equal. apply IH.
Qed.

(* ---------- key loading ---------- *)
Lemma be32_val b0 b1 b2 b3 : b0 < 256 -> b1 < 256 -> b2 < 256 -> b3 < 256 ->
  be32 [b0; b1; b2; b3] = Ok (Spec.cat4 b0 b1 b2 b3).
Proof.
  intros. unfold be32. cbn [idx nth_error obind]. f_equal.
  rewrite <- pack4 by assumption.
  set (B0 := u32 (N.shiftl b0 24)). set (B1 := u32 (N.shiftl b1 16)). set (B2 := u32 (N.shiftl b2 8)).
  rewrite (N.lor_comm b3 B2), (N.lor_comm (N.lor B2 b3) B1), (N.lor_comm (N.lor B1 (N.lor B2 b3)) B0).
  rewrite !N.lor_assoc. reflexivity.
Qed.

Lemma bytes_ok_nth (l : bytes) i : bytes_ok l -> nth i l 0 < 256.
Proof. intro H. apply (nth_Forall is_byte); [assumption | unfold is_byte; lia]. Qed.

Lemma load_key_eq ck : length ck = 16%nat -> bytes_ok ck -> load_key ck = Ok (Spec.key_words ck).
Proof.
  intros Hlen Hok.
  assert (Hb : forall i, nth i ck 0 < 256) by (intro; apply bytes_ok_nth; assumption).
  destruct (length16 _ Hlen) as (a0&a1&a2&a3&a4&a5&a6&a7&a8&a9&a10&a11&a12&a13&a14&a15&E). subst ck.
  pose proof (Hb 0%nat); pose proof (Hb 1%nat); pose proof (Hb 2%nat); pose proof (Hb 3%nat);
  pose proof (Hb 4%nat); pose proof (Hb 5%nat); pose proof (Hb 6%nat); pose proof (Hb 7%nat);
  pose proof (Hb 8%nat); pose proof (Hb 9%nat); pose proof (Hb 10%nat); pose proof (Hb 11%nat);
  pose proof (Hb 12%nat); pose proof (Hb 13%nat); pose proof (Hb 14%nat); pose proof (Hb 15%nat).
  cbn [nth] in *.
  unfold load_key.
  cbn [for_loop repeat slice Nat.leb Nat.sub Nat.mul Nat.add length firstn skipn andb obind].
  rewrite !be32_val by assumption. cbn [obind store]. reflexivity.
Qed.

Lemma key_words_wf ck : bytes_ok ck ->
  length (Spec.key_words ck) = 4%nat /\ Forall w32 (Spec.key_words ck).
Proof.
  intro Hok. split; [reflexivity|]. unfold Spec.key_words.
  repeat constructor; unfold w32; apply cat4_lt; apply bytes_ok_nth; assumption.
Qed.

(* ---------- the IV ---------- *)
Lemma nea1_iv_word bearer direction : bearer < 32 -> direction < 2 ->
  N.lor (u32 (N.shiftl bearer 27)) (u32 (N.shiftl direction 26)) = bearer * 2 ^ 27 + direction * 2 ^ 26.
Proof.
  intros Hb Hd. rewrite !shiftl_mul.
  assert (E27 : 2 ^ 27 = 134217728) by reflexivity. assert (E26 : 2 ^ 26 = 67108864) by reflexivity.
  rewrite !u32_small by (rewrite ?E27, ?E26, p32; lia).
  apply lor_disjoint_add. rewrite E27, E26. lia.
Qed.

Lemma nea1_iv_wf count bearer direction : count < 2 ^ 32 -> bearer < 32 -> direction < 2 ->
  length (Spec.f8_iv count bearer direction) = 4%nat /\ Forall w32 (Spec.f8_iv count bearer direction).
Proof.
  intros Hc Hb Hd. split; [reflexivity|]. unfold Spec.f8_iv.
  assert (E27 : 2 ^ 27 = 134217728) by reflexivity. assert (E26 : 2 ^ 26 = 67108864) by reflexivity.
  repeat constructor; unfold w32; try assumption; rewrite E27, E26, p32; lia.
Qed.

(* ---------- the keystream mask ---------- *)
(* ^((1 << (32 - r)) - 1) in uint32: ones in the r leading bit positions *)
Definition mask (r : N) : N := N.lxor (N.ones (32 - r)) (N.ones 32).

Lemma model_mask r : 0 < r -> r < 32 ->
  N.lxor (sub32 (u32 (N.shiftl 1 (sub32 32 r))) 1) 0xffffffff = mask r.
Proof.
  intros H0 H32. unfold mask. change 0xffffffff with (N.ones 32). f_equal.
  rewrite (sub32_ge 32 r) by (rewrite ?p32; lia).
  rewrite shiftl_mul, N.mul_1_l.
  assert (Hp : 2 ^ (32 - r) < 2 ^ 32) by (apply N.pow_lt_mono_r; lia).
  assert (Hp1 : 1 <= 2 ^ (32 - r)) by (pose proof (pow2_pos (32 - r)); lia).
  rewrite u32_small by assumption.
  rewrite sub32_ge by assumption.
  rewrite N.ones_equiv, N.sub_1_r. reflexivity.
Qed.

(* the keystream with the bits beyond the bit length cleared in the last word *)
Definition mask_last (ks : list N) (r : N) : list N :=
  if r =? 0 then ks
  else upd ks (length ks - 1) (N.land (nth (length ks - 1)%nat ks 0) (mask r)).

Lemma mask_last_length ks r : length (mask_last ks r) = length ks.
Proof. unfold mask_last. destruct (r =? 0); [reflexivity | apply upd_length]. Qed.

Lemma for_loop_S {A} n i (body : nat -> A -> outcome A) a :
  for_loop (S n) i body a = (a' <- body i a ;; for_loop n (S i) body a').
Proof. reflexivity. Qed.

Lemma store_app' (a : list N) x b v k : length a = k -> store (a ++ x :: b) k v = Ok (a ++ v :: b).
Proof. intros <-. apply store_app. Qed.

(* ---------- the output buffer while it is being filled ---------- *)
Section Fill.
  (* ibs: input, kso: keystream octets in use *)
  Variable ibs : list N.
  Variable ks : list N.
  Definition g (p : nat) : N := N.lxor (nth p ibs 0) (nth p (ks_octets ks) 0).
  Definition filled (k : nat) : list N := map g (seq 0 k) ++ repeat 0 (length ibs - k).

  Lemma filled_length k : (k <= length ibs)%nat -> length (filled k) = length ibs.
  Proof. intro H. unfold filled. rewrite app_length, map_length, seq_length, repeat_length. lia. Qed.

  Lemma storeN_filled k : (k < length ibs)%nat ->
    storeN (filled k) (N.of_nat k) (g k) = Ok (filled (S k)).
  Proof.
    intro Hk. unfold storeN. rewrite filled_length by lia.
    destruct (N.ltb_spec (N.of_nat k) (N.of_nat (length ibs))); [|lia].
    rewrite Nnat.Nat2N.id. unfold filled.
    replace (length ibs - k)%nat with (S (length ibs - S k)) by lia. cbn [repeat].
    rewrite (store_app' (map g (seq 0 k))) by (rewrite map_length, seq_length; reflexivity).
    rewrite seq_S, map_app, <- app_assoc. reflexivity.
  Qed.

  Lemma nea1_byte_eq i j obs :
    (4 * i + j < length ibs)%nat -> (i < length ks)%nat -> (j < 4)%nat -> N.of_nat (4 * i + j) < 2 ^ 32 ->
    nea1_byte ibs ks (N.of_nat i) (N.of_nat j) obs = storeN obs (N.of_nat (4 * i + j)) (g (4 * i + j)).
  Proof.
    intros Hp Hi Hj Hb. unfold nea1_byte.
    assert (Ep : u32 (u32 (4 * N.of_nat i) + N.of_nat j) = N.of_nat (4 * i + j)).
    { rewrite (u32_small (4 * N.of_nat i)) by lia. rewrite u32_small by lia. lia. }
    rewrite Ep. rewrite idxN_nth by lia. cbn [obind].
    rewrite idxN_nth by lia. cbn [obind]. rewrite !Nnat.Nat2N.id.
    unfold g. rewrite nth_ks_octets by assumption.
    do 2 f_equal.
    destruct j as [|[|[|[|j]]]]; [| | | | lia].
    - change (u32 (8 * sub32 3 (N.of_nat 0))) with 24. rewrite byte0_eq. apply u8_small, byte_of_lt.
    - change (u32 (8 * sub32 3 (N.of_nat 1))) with 16. rewrite byte1_eq. apply u8_small, byte_of_lt.
    - change (u32 (8 * sub32 3 (N.of_nat 2))) with 8. rewrite byte2_eq. apply u8_small, byte_of_lt.
    - change (u32 (8 * sub32 3 (N.of_nat 3))) with 0. rewrite N.shiftr_0_r, byte3_eq. apply u8_small, byte_of_lt.
  Qed.

  (* for j := j0; j < j0 + m; j++ { obs[4*i+j] = ... } *)
  Lemma inner_loop i m : forall j,
    (j + m <= 4)%nat -> (4 * i + j + m <= length ibs)%nat -> (i < length ks)%nat -> N.of_nat (length ibs) < 2 ^ 32 ->
    for_loop m j (fun j obs => nea1_byte ibs ks (N.of_nat i) (N.of_nat j) obs) (filled (4 * i + j))
    = Ok (filled (4 * i + j + m)).
  Proof.
    induction m as [|m IH]; intros j Hj Hlen Hi Hb.
    - cbn [for_loop]. rewrite Nat.add_0_r. reflexivity.
    - cbn [for_loop]. rewrite nea1_byte_eq by lia. rewrite storeN_filled by lia. cbn [obind].
      replace (S (4 * i + j)) with (4 * i + S j)%nat by lia. rewrite IH by lia.
      f_equal. f_equal. lia.
  Qed.

  Lemma outer_loop cnt : forall i,
    (4 * (i + cnt) <= length ibs)%nat -> (i + cnt <= length ks)%nat -> N.of_nat (length ibs) < 2 ^ 32 ->
    for_loop cnt i (fun i obs =>
        for_loop 4 0 (fun j obs => nea1_byte ibs ks (N.of_nat i) (N.of_nat j) obs) obs) (filled (4 * i))
    = Ok (filled (4 * (i + cnt))).
  Proof.
    induction cnt as [|cnt IH]; intros i Hlen Hks Hb.
    - cbn [for_loop]. rewrite Nat.add_0_r. reflexivity.
    - rewrite for_loop_S.
      pose proof (inner_loop i 4 0) as Hin. rewrite Nat.add_0_r in Hin. rewrite Hin by lia. cbn [obind].
      replace (4 * i + 4)%nat with (4 * S i)%nat by lia. rewrite IH by lia. f_equal. f_equal. lia.
  Qed.
End Fill.

(* ---------- NEA1 in closed form ---------- *)
(* number of octets that carry the first `length` bits *)
Definition nb_of (length : N) : nat := N.to_nat ((length + 7) / 8).
(* number of keystream words *)
Definition nw_of (length : N) : nat := N.to_nat ((length + 31) / 32).

Definition nea1_domain (ck : bytes) (count bearer direction : N) (ibs : bytes) (length : N) : Prop :=
  List.length ck = 16%nat /\ bytes_ok ck /\ count < 2 ^ 32 /\ bearer < 32 /\ direction < 2 /\
  length <= 8 * N.of_nat (List.length ibs) /\ 8 * N.of_nat (List.length ibs) < 2 ^ 32 - 31.

Definition nea1_ks (ck : bytes) (count bearer direction : N) (length : N) : list N :=
  mask_last (Spec.keystream (Spec.key_words ck) (Spec.f8_iv count bearer direction) (nw_of length)) (length mod 32).

Theorem NEA1_closed ck count bearer direction ibs length :
  nea1_domain ck count bearer direction ibs length ->
  NEA1 ck count bearer direction ibs length
  = Ok (filled ibs (nea1_ks ck count bearer direction length) (nb_of length)).
Proof.
  intros (Hck & Hok & Hc & Hb & Hd & Hlen & Hsz).
  rewrite p32 in Hsz.
  unfold NEA1. rewrite load_key_eq by assumption. cbn [obind].
  rewrite nea1_iv_word by assumption.
  change [bearer * 2 ^ 27 + direction * 2 ^ 26; count; bearer * 2 ^ 27 + direction * 2 ^ 26; count]
    with (Spec.f8_iv count bearer direction).
  destruct (key_words_wf ck Hok) as [HK FK].
  destruct (nea1_iv_wf count bearer direction Hc Hb Hd) as [HIV FIV].
  rewrite (u32_small (length + 31)) by (rewrite p32; lia).
  rewrite GetKeyStream_eq_spec by assumption. cbn [obind].
  fold (nw_of length).
  set (ks := Spec.keystream (Spec.key_words ck) (Spec.f8_iv count bearer direction) (nw_of length)).
  assert (Hksl : List.length ks = nw_of length) by apply keystream_length.
  set (r := length mod 32).
  assert (Hr : r < 32) by (apply N.mod_lt; lia).
  (* the mask *)
  assert (Emask :
    (if negb (r =? 0)
     then x <- idxN ks (sub32 ((length + 31) / 32) 1) ;;
          storeN ks (sub32 ((length + 31) / 32) 1)
            (N.land x (N.lxor (sub32 (u32 (N.shiftl 1 (sub32 32 r))) 1) 0xffffffff))
     else Ok ks) = Ok (mask_last ks r)).
  { unfold mask_last. destruct (N.eqb_spec r 0) as [E0|N0]; cbn [negb]; [reflexivity|].
    assert (Hl1 : 1 <= (length + 31) / 32) by (subst r; lia).
    rewrite sub32_ge by (rewrite ?p32; lia).
    assert (Ei : N.to_nat ((length + 31) / 32 - 1) = (List.length ks - 1)%nat) by (rewrite Hksl; unfold nw_of; lia).
    rewrite idxN_nth by (rewrite Hksl; unfold nw_of; lia). cbn [obind].
    unfold storeN. destruct (N.ltb_spec ((length + 31) / 32 - 1) (N.of_nat (List.length ks))) as [_|Hge];
      [|rewrite Hksl in Hge; unfold nw_of in Hge; lia].
    rewrite Ei. rewrite store_upd by (rewrite Hksl; unfold nw_of; lia).
    rewrite model_mask by lia. reflexivity. }
  rewrite Emask. cbn [obind]. clear Emask.
  change (nea1_ks ck count bearer direction length) with (mask_last ks r).
  set (ks' := mask_last ks r).
  assert (Hks'l : List.length ks' = nw_of length) by (unfold ks'; rewrite mask_last_length; assumption).
  (* the word loop *)
  replace (repeat 0 (List.length ibs)) with (filled ibs ks' 0)
    by (unfold filled; rewrite Nat.sub_0_r; reflexivity).
  pose proof (outer_loop ibs ks' (N.to_nat (length / 32)) 0) as Hout.
  change (4 * 0)%nat with 0%nat in Hout. cbn [Nat.add] in Hout. rewrite Hout by (try rewrite Hks'l; unfold nw_of; rewrite ?p32; lia).
  cbn [obind]. clear Hout.
  (* the tail *)
  destruct (N.eqb_spec r 0) as [E0|N0]; cbn [negb obind].
  - f_equal. f_equal. unfold nb_of. subst r. lia.
  - rewrite (u32_small (r + 7)) by (rewrite p32; lia).
    pose proof (inner_loop ibs ks' (N.to_nat (length / 32)) (N.to_nat ((r + 7) / 8)) 0) as Hin.
    rewrite Nat.add_0_r, Nnat.N2Nat.id in Hin. rewrite Hin.
    + cbn [obind]. f_equal. f_equal. unfold nb_of. subst r. lia.
    + subst r. lia.
    + subst r. lia.
    + rewrite Hks'l. unfold nw_of. subst r. lia.
    + rewrite p32. lia.
Qed.
