(* C13: text fields vs. Go's hex / Atoi models; PLMN coding *)
From NV Require Import Lib.Base Lib.Bits C13.GoStd C13.Model C13.Spec.
From Coq Require Import ZifyN ZifyNat ZifyBool.
Open Scope N_scope.
Ltac Zify.zify_post_hook ::= Z.div_mod_to_equations.

Arguments N.land : simpl never.
Arguments N.lor : simpl never.
Arguments N.shiftl : simpl never.
Arguments N.shiftr : simpl never.
Arguments N.modulo : simpl never.
Arguments N.div : simpl never.
Arguments N.pow : simpl never.
Arguments N.add : simpl never.
Arguments N.mul : simpl never.
Arguments N.sub : simpl never.

(* ---- hexadecimal digits ---- *)

Lemma hexdigit_val_fromHexChar c d :
  hexdigit_val c = Some d -> fromHexChar c = Some d /\ d < 16.
Proof.
  unfold hexdigit_val, lower_digits, upper_digits. cbn [index_of].
  repeat match goal with
         | |- context [c =? ?k] => destruct (N.eqb_spec c k) as [->|?]
         end; intro H; try discriminate; inversion H; subst; split; try reflexivity; lia.
Qed.

Lemma fromHexChar_hexdigit_val c d :
  fromHexChar c = Some d -> hexdigit_val c = Some d.
Proof.
  unfold fromHexChar. intro H.
  assert (Hc : c < 103) by (destruct ((48 <=? c) && (c <=? 57)) eqn:E1;
    [lia|destruct ((97 <=? c) && (c <=? 102)) eqn:E2; [lia|
     destruct ((65 <=? c) && (c <=? 70)) eqn:E3; [lia|discriminate]]]).
  revert H.
  unfold hexdigit_val, lower_digits, upper_digits. cbn [index_of].
  repeat match goal with
         | |- context [c =? ?k] => destruct (N.eqb_spec c k) as [->|?]
         end; try (vm_compute; congruence).
  destruct ((48 <=? c) && (c <=? 57)) eqn:E1; [lia|].
  destruct ((97 <=? c) && (c <=? 102)) eqn:E2; [lia|].
  destruct ((65 <=? c) && (c <=? 70)) eqn:E3; [lia|discriminate].
Qed.

Lemma nth_lower_hexdigit d : d < 16 -> nth (N.to_nat d) lower_digits 0 = hexdigit d.
Proof.
  intro H.
  assert (E : d = 0 \/ d = 1 \/ d = 2 \/ d = 3 \/ d = 4 \/ d = 5 \/ d = 6 \/ d = 7 \/ d = 8 \/
              d = 9 \/ d = 10 \/ d = 11 \/ d = 12 \/ d = 13 \/ d = 14 \/ d = 15) by lia.
  repeat (destruct E as [->|E]; [reflexivity|]). subst; reflexivity.
Qed.

Lemma hexdigit_val_hexdigit d : d < 16 -> hexdigit_val (hexdigit d) = Some d.
Proof.
  intro H.
  assert (E : d = 0 \/ d = 1 \/ d = 2 \/ d = 3 \/ d = 4 \/ d = 5 \/ d = 6 \/ d = 7 \/ d = 8 \/
              d = 9 \/ d = 10 \/ d = 11 \/ d = 12 \/ d = 13 \/ d = 14 \/ d = 15) by lia.
  repeat (destruct E as [->|E]; [reflexivity|]). subst; reflexivity.
Qed.

(* six hexadecimal digits decode (Go) to the three octets of the number they denote *)
Lemma hex_decode_text24 s v :
  text24 s = Some v ->
  exists a b c, hex_DecodeString s = ([a; b; c], true) /\ be24 a b c = v /\
                a < 256 /\ b < 256 /\ c < 256.
Proof.
  unfold text24. destruct (Nat.eqb (length s) 6) eqn:El; [|discriminate].
  apply Nat.eqb_eq in El.
  destruct s as [|c1 [|c2 [|c3 [|c4 [|c5 [|c6 [|? ?]]]]]]]; try discriminate El.
  unfold hex_val. cbn [hex_val_acc].
  destruct (hexdigit_val c1) as [d1|] eqn:E1; [|discriminate].
  destruct (hexdigit_val c2) as [d2|] eqn:E2; [|discriminate].
  destruct (hexdigit_val c3) as [d3|] eqn:E3; [|discriminate].
  destruct (hexdigit_val c4) as [d4|] eqn:E4; [|discriminate].
  destruct (hexdigit_val c5) as [d5|] eqn:E5; [|discriminate].
  destruct (hexdigit_val c6) as [d6|] eqn:E6; [|discriminate].
  intro Hv; inversion Hv; subst v; clear Hv.
  apply hexdigit_val_fromHexChar in E1, E2, E3, E4, E5, E6.
  destruct E1 as [F1 ?], E2 as [F2 ?], E3 as [F3 ?], E4 as [F4 ?], E5 as [F5 ?], E6 as [F6 ?].
  exists (d1 * 16 + d2), (d3 * 16 + d4), (d5 * 16 + d6).
  cbn [hex_DecodeString]. rewrite F1, F2, F3, F4, F5, F6. cbn [fst snd].
  split; [reflexivity|]. unfold be24. repeat split; lia.
Qed.

(* Go's EncodeToString of three octets = the canonical text of the number *)
Lemma hex_encode_hex6 a b c :
  a < 256 -> b < 256 -> c < 256 -> hex_EncodeToString [a; b; c] = hex6 (be24 a b c).
Proof.
  intros Ha Hb Hc. unfold hex6, be24. cbn [hex_EncodeToString map].
  change (16 ^ 5) with 1048576. change (16 ^ 4) with 65536. change (16 ^ 3) with 4096.
  change (16 ^ 2) with 256. change (16 ^ 1) with 16. change (16 ^ 0) with 1.
  rewrite !nth_lower_hexdigit by lia.
  repeat (apply f_equal2; [apply f_equal; lia|]); reflexivity.
Qed.

Lemma text24_hex6 v : v < 16777216 -> text24 (hex6 v) = Some v.
Proof.
  intro Hv. unfold text24, hex6. cbn [map length Nat.eqb].
  change (16 ^ 5) with 1048576. change (16 ^ 4) with 65536. change (16 ^ 3) with 4096.
  change (16 ^ 2) with 256. change (16 ^ 1) with 16. change (16 ^ 0) with 1.
  rewrite !nth_lower_hexdigit by lia.
  unfold hex_val. cbn [hex_val_acc].
  rewrite !hexdigit_val_hexdigit by lia. f_equal. lia.
Qed.

Lemma b24_be24 v : v < 16777216 ->
  be24 (v / 65536) ((v / 256) mod 256) (v mod 256) = v.
Proof. intro. unfold be24. lia. Qed.

Lemma b24_bytes v : v < 16777216 -> v / 65536 < 256 /\ (v / 256) mod 256 < 256 /\ v mod 256 < 256.
Proof. intro. lia. Qed.

Lemma be24_lt a b c : a < 256 -> b < 256 -> c < 256 -> be24 a b c < 16777216.
Proof. unfold be24. lia. Qed.

(* ---- decimal digits, PLMN ---- *)

Lemma digit_atoi c d : digit_of_char c = Some d -> atoi_byte c = Some d /\ d <= 9.
Proof.
  unfold digit_of_char, atoi_byte. destruct ((48 <=? c) && (c <=? 57)) eqn:E; [|discriminate].
  intro H; inversion H; subst. split; [reflexivity|lia].
Qed.

Lemma lor_shift4 a b : b < 16 -> N.lor (N.shiftl a 4) b = a * 16 + b.
Proof.
  intro Hb. rewrite shiftl_mul. change (2 ^ 4) with 16.
  change 16 with (2 ^ 4). apply lor_disjoint_add. exact Hb.
Qed.

Definition plmn_digits_ok (v : plmn) : Prop :=
  mcc1 v <= 9 /\ mcc2 v <= 9 /\ mcc3 v <= 9 /\ mnc1 v <= 9 /\ mnc2 v <= 9 /\
  match mnc3 v with Some d => d <= 9 | None => True end.

Lemma PlmnIDToNas_spec p v :
  abs_plmn p = Some v ->
  exists a b c, PlmnIDToNas p = Ok [a; b; c] /\ spec_plmn a b c = v /\
                a < 256 /\ b < 256 /\ c < 256.
Proof.
  unfold abs_plmn. destruct p as [mcc mnc]. cbn [Mcc Mnc].
  destruct mcc as [|m1 [|m2 [|m3 [|? ?]]]]; cbn [map]; try discriminate;
    try (destruct (digit_of_char m1); discriminate);
    try (destruct (digit_of_char m1); [destruct (digit_of_char m2)|]; discriminate).
  2:{ destruct (digit_of_char m1); [destruct (digit_of_char m2); [destruct (digit_of_char m3)|]|]; discriminate. }
  destruct (digit_of_char m1) as [a1|] eqn:A1; [|discriminate].
  destruct (digit_of_char m2) as [a2|] eqn:A2; [|discriminate].
  destruct (digit_of_char m3) as [a3|] eqn:A3; [|discriminate].
  apply digit_atoi in A1, A2, A3. destruct A1 as [A1 ?], A2 as [A2 ?], A3 as [A3 ?].
  destruct mnc as [|n1 [|n2 [|n3 [|? ?]]]]; cbn [map]; try discriminate;
    try (destruct (digit_of_char n1); discriminate).
  - (* two-digit MNC *)
    destruct (digit_of_char n1) as [b1|] eqn:B1; [|discriminate].
    destruct (digit_of_char n2) as [b2|] eqn:B2; [|discriminate].
    apply digit_atoi in B1, B2. destruct B1 as [B1 ?], B2 as [B2 ?].
    intro Hv; inversion Hv; subst v; clear Hv.
    unfold PlmnIDToNas, idx, atoi_or. cbn [Mcc Mnc nth_error obind length Nat.eqb].
    rewrite A1, A2, A3, B1, B2.
    rewrite !lor_shift4 by lia. unfold u8.
    eexists _, _, _. split; [reflexivity|].
    unfold spec_plmn. split; [|lia].
    replace ((15 * 16 + a3) mod 256 / 16) with 15 by lia. cbn [N.eqb Pos.eqb].
    f_equal; lia.
  - (* three-digit MNC *)
    destruct (digit_of_char n1) as [b1|] eqn:B1; [|discriminate].
    destruct (digit_of_char n2) as [b2|] eqn:B2; [|discriminate].
    destruct (digit_of_char n3) as [b3|] eqn:B3; [|discriminate].
    apply digit_atoi in B1, B2, B3. destruct B1 as [B1 ?], B2 as [B2 ?], B3 as [B3 ?].
    intro Hv; inversion Hv; subst v; clear Hv.
    unfold PlmnIDToNas, idx, atoi_or. cbn [Mcc Mnc nth_error obind length Nat.eqb].
    rewrite A1, A2, A3, B1, B2, B3.
    rewrite !lor_shift4 by lia. unfold u8.
    eexists _, _, _. split; [reflexivity|].
    unfold spec_plmn. split; [|lia].
    destruct ((b3 * 16 + a3) mod 256 / 16 =? 15) eqn:E; [lia|].
    f_equal; try lia. f_equal. lia.
  - destruct (digit_of_char n1); [destruct (digit_of_char n2); [destruct (digit_of_char n3)|]|]; discriminate.
Qed.

(* the three octets of TS 24.008 10.5.1.3 for given digits *)
Definition plmn_octets (v : plmn) : bytes :=
  [mcc2 v * 16 + mcc1 v;
   (match mnc3 v with Some d => d | None => 15 end) * 16 + mcc3 v;
   mnc2 v * 16 + mnc1 v].

Lemma spec_plmn_octets v :
  plmn_digits_ok v ->
  spec_plmn (mcc2 v * 16 + mcc1 v) ((match mnc3 v with Some d => d | None => 15 end) * 16 + mcc3 v)
            (mnc2 v * 16 + mnc1 v) = v.
Proof.
  destruct v as [a1 a2 a3 b1 b2 [b3|]]; unfold plmn_digits_ok, spec_plmn; cbn [mcc1 mcc2 mcc3 mnc1 mnc2 mnc3];
    intros (? & ? & ? & ? & ? & ?).
  - destruct ((b3 * 16 + a3) / 16 =? 15) eqn:E; [lia|]. f_equal; try lia. f_equal; lia.
  - replace ((15 * 16 + a3) / 16) with 15 by lia. cbn [N.eqb Pos.eqb]. f_equal; lia.
Qed.

Lemma plmn_octets_ok v : plmn_digits_ok v -> bytes_ok (plmn_octets v).
Proof.
  destruct v as [a1 a2 a3 b1 b2 [b3|]]; unfold plmn_digits_ok, plmn_octets; cbn [mcc1 mcc2 mcc3 mnc1 mnc2 mnc3];
    intros (? & ? & ? & ? & ? & ?); repeat constructor; unfold is_byte; lia.
Qed.

Lemma digit_char c d : digit_of_char c = Some d -> c = d + 48.
Proof.
  unfold digit_of_char. destruct ((48 <=? c) && (c <=? 57)) eqn:E; [|discriminate].
  intro H; inversion H. lia.
Qed.

(* abs_plmn is defined exactly on "ddd"/"dd" and "ddd"/"ddd", and is injective there *)
Lemma abs_plmn_inv p v :
  abs_plmn p = Some v ->
  plmn_digits_ok v /\ PlmnIDToNas p = Ok (plmn_octets v) /\
  p = mkPlmnId [mcc1 v + 48; mcc2 v + 48; mcc3 v + 48]
               (match mnc3 v with
                | Some d => [mnc1 v + 48; mnc2 v + 48; d + 48]
                | None => [mnc1 v + 48; mnc2 v + 48]
                end).
Proof.
  unfold abs_plmn. destruct p as [mcc mnc]. cbn [Mcc Mnc].
  destruct mcc as [|m1 [|m2 [|m3 [|? ?]]]]; cbn [map]; try discriminate;
    try (destruct (digit_of_char m1); discriminate);
    try (destruct (digit_of_char m1); [destruct (digit_of_char m2)|]; discriminate).
  2:{ destruct (digit_of_char m1); [destruct (digit_of_char m2); [destruct (digit_of_char m3)|]|]; discriminate. }
  destruct (digit_of_char m1) as [a1|] eqn:A1; [|discriminate].
  destruct (digit_of_char m2) as [a2|] eqn:A2; [|discriminate].
  destruct (digit_of_char m3) as [a3|] eqn:A3; [|discriminate].
  pose proof (digit_char _ _ A1). pose proof (digit_char _ _ A2). pose proof (digit_char _ _ A3).
  apply digit_atoi in A1, A2, A3. destruct A1 as [A1 ?], A2 as [A2 ?], A3 as [A3 ?].
  destruct mnc as [|n1 [|n2 [|n3 [|? ?]]]]; cbn [map]; try discriminate;
    try (destruct (digit_of_char n1); discriminate).
  - destruct (digit_of_char n1) as [b1|] eqn:B1; [|discriminate].
    destruct (digit_of_char n2) as [b2|] eqn:B2; [|discriminate].
    pose proof (digit_char _ _ B1). pose proof (digit_char _ _ B2).
    apply digit_atoi in B1, B2. destruct B1 as [B1 ?], B2 as [B2 ?].
    intro Hv; inversion Hv; subst v; clear Hv.
    unfold plmn_digits_ok, plmn_octets. cbn [mcc1 mcc2 mcc3 mnc1 mnc2 mnc3].
    split; [repeat split; assumption|]. split; [|subst; reflexivity].
    unfold PlmnIDToNas, idx, atoi_or. cbn [Mcc Mnc nth_error obind length Nat.eqb].
    rewrite A1, A2, A3, B1, B2.
    rewrite !lor_shift4 by lia. unfold u8. rewrite !N.mod_small by lia. reflexivity.
  - destruct (digit_of_char n1) as [b1|] eqn:B1; [|discriminate].
    destruct (digit_of_char n2) as [b2|] eqn:B2; [|discriminate].
    destruct (digit_of_char n3) as [b3|] eqn:B3; [|discriminate].
    pose proof (digit_char _ _ B1). pose proof (digit_char _ _ B2). pose proof (digit_char _ _ B3).
    apply digit_atoi in B1, B2, B3. destruct B1 as [B1 ?], B2 as [B2 ?], B3 as [B3 ?].
    intro Hv; inversion Hv; subst v; clear Hv.
    unfold plmn_digits_ok, plmn_octets. cbn [mcc1 mcc2 mcc3 mnc1 mnc2 mnc3].
    split; [repeat split; assumption|]. split; [|subst; reflexivity].
    unfold PlmnIDToNas, idx, atoi_or. cbn [Mcc Mnc nth_error obind length Nat.eqb].
    rewrite A1, A2, A3, B1, B2, B3.
    rewrite !lor_shift4 by lia. unfold u8. rewrite !N.mod_small by lia. reflexivity.
  - destruct (digit_of_char n1); [destruct (digit_of_char n2); [destruct (digit_of_char n3)|]|]; discriminate.
Qed.

Lemma abs_plmn_inj p q v : abs_plmn p = Some v -> abs_plmn q = Some v -> p = q.
Proof.
  intros Hp Hq. apply abs_plmn_inv in Hp as (_ & _ & ->). apply abs_plmn_inv in Hq as (_ & _ & ->). reflexivity.
Qed.

(* hex text of a 24-bit field decodes (Go) to the octets b24 of its value *)
Lemma hex_or_nil_text24 s v :
  text24 s = Some v -> hex_or_nil s = [v / 65536; (v / 256) mod 256; v mod 256] /\ v < 16777216.
Proof.
  intro H. destruct (hex_decode_text24 s v H) as (a & b & c & Hd & <- & Ha & Hb & Hc).
  unfold hex_or_nil. rewrite Hd. cbn [fst snd]. split; [|apply be24_lt; assumption].
  unfold be24. repeat f_equal; lia.
Qed.
