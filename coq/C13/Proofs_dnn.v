(* C13: nasType.DNN -- SetDNN / GetDNN (label coding of TS 23.003 9.1) *)
From NV Require Import Lib.Base Lib.Bits C13.GoStd C13.Model C13.Spec C13.Proofs_nssai.
From Coq Require Import ZifyN ZifyNat ZifyBool.
Open Scope N_scope.
Ltac Zify.zify_post_hook ::= Z.div_mod_to_equations.

Arguments N.modulo : simpl never.
Arguments N.of_nat : simpl never.
Arguments N.to_nat : simpl never.

Lemma split_nonempty s : strings_Split_dot s <> [].
Proof.
  induction s as [|c t IH]; cbn; [discriminate|].
  destruct (c =? 46); [discriminate|]. destruct (strings_Split_dot t); discriminate.
Qed.

Lemma join_cons x segs : segs <> [] -> join_dot (x :: segs) = x ++ 46 :: join_dot segs.
Proof. destruct segs; [congruence|reflexivity]. Qed.

Lemma join_split s : join_dot (strings_Split_dot s) = s.
Proof.
  induction s as [|c t IH]; [reflexivity|].
  cbn [strings_Split_dot]. pose proof (split_nonempty t) as Hne.
  destruct (N.eqb_spec c 46) as [->|Hc].
  - rewrite join_cons by assumption. rewrite IH. reflexivity.
  - destruct (strings_Split_dot t) as [|h r] eqn:E; [congruence|].
    destruct r as [|h2 r].
    + cbn [join_dot] in *. rewrite IH. reflexivity.
    + rewrite join_cons in * by discriminate. cbn [app]. rewrite IH. reflexivity.
Qed.

Definition label_octets (segs : list bytes) : bytes := flat_map (fun seg => N.of_nat (length seg) :: seg) segs.
Definition dotted (segs : list bytes) : bytes := flat_map (fun seg => seg ++ [46]) segs.

Lemma loop_labels segs : forall fuel,
  Forall (fun seg => (length seg <= 255)%nat) segs ->
  (length (label_octets segs) < fuel)%nat ->
  rfc1035tofqdn_loop fuel (label_octets segs) = Ok (dotted segs).
Proof.
  induction segs as [|seg segs IH]; intros fuel H Hf.
  - destruct fuel; [cbn in Hf; lia|]. reflexivity.
  - inversion H; subst. destruct fuel as [|f]; [lia|].
    unfold label_octets in *. cbn [flat_map app length] in *. cbn [rfc1035tofqdn_loop].
    rewrite Nat2N.id, firstn_app_exact, skipn_app_exact.
    rewrite IH by (try assumption; rewrite app_length in Hf; lia).
    cbn [obind dotted flat_map]. rewrite <- app_assoc. reflexivity.
Qed.

Lemma dotted_join segs : segs <> [] -> dotted segs = join_dot segs ++ [46].
Proof.
  induction segs as [|seg segs IH]; intro H; [congruence|].
  cbn [dotted flat_map]. destruct segs as [|s2 segs].
  - cbn. rewrite app_nil_r. reflexivity.
  - fold (dotted (s2 :: segs)). rewrite IH by discriminate.
    cbn [join_dot]. rewrite <- !app_assoc. reflexivity.
Qed.

Theorem GetDNN_labels segs :
  segs <> [] -> Forall (fun seg => (length seg <= 255)%nat) segs ->
  DNN_GetDNN (label_octets segs) = Ok (join_dot segs).
Proof.
  intros Hne H. unfold DNN_GetDNN, rfc1035tofqdn, rfc1035tofqdn_fuel.
  rewrite loop_labels by (assumption || lia). cbn [obind].
  rewrite dotted_join by assumption. rewrite app_length. cbn [length].
  replace (Nat.eqb (length (join_dot segs) + 1) 0) with false by (symmetry; apply Nat.eqb_neq; lia).
  unfold slice.
  replace (Nat.leb 0 (length (join_dot segs) + 1 - 1) &&
           Nat.leb (length (join_dot segs) + 1 - 1) (length (join_dot segs ++ [46])))%bool with true
    by (symmetry; apply andb_true_iff; split; apply Nat.leb_le; rewrite ?app_length; cbn [length]; lia).
  cbn [skipn]. replace (length (join_dot segs) + 1 - 1 - 0)%nat with (length (join_dot segs)) by lia.
  rewrite firstn_app_exact. reflexivity.
Qed.

(* SetDNN stores the label coding of the text; GetDNN gives the text back *)
Theorem DNN_roundtrip s rr :
  fqdnToRfc1035 s = Ok rr ->
  rr = label_octets (strings_Split_dot s) /\ (length rr <= 100)%nat /\
  DNN_SetDNN s = (N.of_nat (length rr), rr) /\ DNN_GetDNN rr = Ok s.
Proof.
  unfold DNN_SetDNN. unfold fqdnToRfc1035 at 1 2.
  destruct (existsb (fun seg => Nat.ltb 62 (length seg)) (strings_Split_dot s)) eqn:E; [discriminate|].
  set (r := flat_map (fun seg => len8 seg :: seg) (strings_Split_dot s)).
  destruct (Nat.ltb 100 (length r)) eqn:El; [discriminate|]. apply Nat.ltb_ge in El.
  intro H; inversion H; subst rr; clear H.
  assert (Hs : Forall (fun seg => (length seg <= 62)%nat) (strings_Split_dot s)).
  { apply Forall_forall. intros seg Hin.
    destruct (Nat.ltb_spec 62 (length seg)) as [Hlt|]; [|assumption].
    assert (existsb (fun seg => Nat.ltb 62 (length seg)) (strings_Split_dot s) = true)
      by (apply existsb_exists; exists seg; split; [assumption|apply Nat.ltb_lt; assumption]).
    congruence. }
  assert (Hr : r = label_octets (strings_Split_dot s)).
  { unfold r, label_octets. clear -Hs. induction Hs as [|seg l Hseg Hl IH]; [reflexivity|].
    cbn [flat_map]. rewrite IH. unfold len8. rewrite N.mod_small by lia. reflexivity. }
  split; [assumption|]. split; [assumption|]. split.
  - unfold len8. rewrite N.mod_small by lia. reflexivity.
  - rewrite Hr, GetDNN_labels.
    + rewrite join_split. reflexivity.
    + apply split_nonempty.
    + eapply Forall_impl; [|exact Hs]. cbn. intros; lia.
Qed.
