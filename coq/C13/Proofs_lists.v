(* C13: TAI list, service-area list, LADN information *)
From NV Require Import Lib.Base Lib.Bits C13.GoStd C13.Model C13.Spec C13.Proofs_text C13.Proofs_nssai.
From Coq Require Import ZifyN ZifyNat ZifyBool.
Open Scope N_scope.
Ltac Zify.zify_post_hook ::= Z.div_mod_to_equations.

Arguments N.land : simpl never.
Arguments N.lor : simpl never.
Arguments N.shiftl : simpl never.
Arguments N.modulo : simpl never.
Arguments N.div : simpl never.
Arguments N.pow : simpl never.
Arguments N.add : simpl never.
Arguments N.mul : simpl never.
Arguments N.sub : simpl never.
Arguments N.of_nat : simpl never.
Arguments N.to_nat : simpl never.

Definition tai_ok (t : tai) : Prop := plmn_digits_ok (fst t) /\ snd t < 16777216.

Definition tai_octets (t : tai) : bytes := plmn_octets (fst t) ++ b24 (snd t).

Lemma b24_ok v : v < 16777216 -> bytes_ok (b24 v).
Proof. intro. unfold b24. repeat constructor; unfold is_byte; lia. Qed.

Lemma abs_tai_inv t v :
  abs_tai t = Some v ->
  exists p, TaiPlmnId t = Some p /\ abs_plmn p = Some (fst v) /\ text24 (Tac t) = Some (snd v) /\
            tai_ok v /\ PlmnIDToNas p = Ok (plmn_octets (fst v)) /\ hex_or_nil (Tac t) = b24 (snd v) /\
            snd (hex_DecodeString (Tac t)) = true /\ fst (hex_DecodeString (Tac t)) = b24 (snd v).
Proof.
  unfold abs_tai. destruct (TaiPlmnId t) as [p|]; [|discriminate].
  destruct (abs_plmn p) as [pl|] eqn:Ep; [|discriminate].
  destruct (text24 (Tac t)) as [tac|] eqn:Et; [|discriminate].
  intro H; inversion H; subst v; clear H. cbn [fst snd].
  exists p. destruct (abs_plmn_inv p pl Ep) as (Hd & Hn & _).
  destruct (hex_or_nil_text24 _ _ Et) as [Hh Hlt].
  destruct (hex_decode_text24 _ _ Et) as (a & b & c & Hdec & Hv & Ha & Hb & Hc).
  split; [reflexivity|]. split; [assumption|]. split; [reflexivity|].
  split; [split; assumption|]. split; [assumption|]. split; [assumption|].
  rewrite Hdec. cbn [fst snd]. split; [reflexivity|].
  subst tac. rewrite b24_of_be24 by assumption. reflexivity.
Qed.

(* ---- readers of the standard on the standard's layout ---- *)

Lemma take_tacs_flat tacs rest :
  Forall (fun t => t < 16777216) tacs ->
  take_tacs (length tacs) (flat_map b24 tacs ++ rest) = Some (tacs, rest).
Proof.
  induction tacs as [|t tacs IH]; intro H; [reflexivity|].
  inversion H; subst. cbn [length flat_map]. unfold b24 at 1. cbn [app take_tacs].
  rewrite IH by assumption. rewrite b24_be24 by assumption. reflexivity.
Qed.

Lemma take_tais_flat vs rest :
  Forall tai_ok vs ->
  take_tais (length vs) (flat_map tai_octets vs ++ rest) = Some (vs, rest).
Proof.
  induction vs as [|[p t] vs IH]; intro H; [reflexivity|].
  inversion H as [|? ? [Hp Ht] Hvs]; subst. cbn [fst snd] in *.
  cbn [length flat_map]. unfold tai_octets at 1, plmn_octets, b24. cbn [fst snd app take_tais].
  rewrite IH by assumption. rewrite b24_be24 by assumption.
  rewrite spec_plmn_octets by assumption. reflexivity.
Qed.

Lemma spec_tai_list_fuel_unfold f h rest :
  spec_tai_list_fuel (S f) (h :: rest) =
  let n := spec_count (h mod 32) in
  match (h / 32) mod 4, rest with
  | 0, p1 :: p2 :: p3 :: t =>
      match take_tacs n t with
      | Some (tacs, r) => option_map (cons (TL_list (spec_plmn p1 p2 p3) tacs)) (spec_tai_list_fuel f r)
      | None => None
      end
  | 1, p1 :: p2 :: p3 :: a :: b :: c :: r =>
      option_map (cons (TL_consec (spec_plmn p1 p2 p3) (be24 a b c) n)) (spec_tai_list_fuel f r)
  | 2, t =>
      match take_tais n t with
      | Some (l, r) => option_map (cons (TL_tais l)) (spec_tai_list_fuel f r)
      | None => None
      end
  | _, _ => None
  end.
Proof. reflexivity. Qed.

Lemma spec_count_len n : (1 <= n <= 16)%nat -> spec_count (N.of_nat n - 1) = n.
Proof. intro H. unfold spec_count. destruct (N.leb_spec (N.of_nat n - 1) 15); lia. Qed.

(* type 00 partial list: header, PLMN, TACs *)
Lemma spec_tai_list_type0 p tacs :
  plmn_digits_ok p -> Forall (fun t => t < 16777216) tacs -> (1 <= length tacs <= 16)%nat ->
  spec_tai_list ((N.of_nat (length tacs) - 1) :: plmn_octets p ++ flat_map b24 tacs)
  = Some [TL_list p tacs].
Proof.
  intros Hp Ht Hn. unfold spec_tai_list. cbn [length]. rewrite spec_tai_list_fuel_unfold. cbv zeta.
  replace ((N.of_nat (length tacs) - 1) / 32 mod 4) with 0 by lia.
  replace ((N.of_nat (length tacs) - 1) mod 32) with (N.of_nat (length tacs) - 1) by lia.
  rewrite spec_count_len by assumption.
  unfold plmn_octets. cbn [app].
  rewrite <- (app_nil_r (flat_map b24 tacs)), take_tacs_flat by assumption.
  rewrite spec_plmn_octets by assumption. reflexivity.
Qed.

(* type 10 partial list: header, then PLMN + TAC per element *)
Lemma spec_tai_list_type2 vs :
  Forall tai_ok vs -> (1 <= length vs <= 16)%nat ->
  spec_tai_list ((64 + (N.of_nat (length vs) - 1)) :: flat_map tai_octets vs) = Some [TL_tais vs].
Proof.
  intros Hv Hn. unfold spec_tai_list. cbn [length]. rewrite spec_tai_list_fuel_unfold. cbv zeta.
  replace ((64 + (N.of_nat (length vs) - 1)) / 32 mod 4) with 2 by lia.
  replace ((64 + (N.of_nat (length vs) - 1)) mod 32) with (N.of_nat (length vs) - 1) by lia.
  rewrite spec_count_len by assumption.
  rewrite <- (app_nil_r (flat_map tai_octets vs)), take_tais_flat by assumption.
  reflexivity.
Qed.

(* ---- TaiListToNas ---- *)

Lemma plmn_eqb_eq a b : plmn_eqb a b = true <-> a = b.
Proof.
  unfold plmn_eqb. rewrite andb_true_iff, !eqb_bytes_spec. destruct a, b; cbn. split.
  - intros [-> ->]; reflexivity.
  - intro H; inversion H; auto.
Qed.

Lemma typeOfList_fold p0 l acc :
  fold_left (fun ty tai => if negb (DeepEqual_plmn p0 (TaiPlmnId tai)) then 2 else ty) l acc
  = if forallb (fun tai => DeepEqual_plmn p0 (TaiPlmnId tai)) l then acc else 2.
Proof.
  revert acc. induction l as [|t l IH]; intro acc; [reflexivity|].
  cbn [fold_left forallb]. rewrite IH.
  destruct (DeepEqual_plmn p0 (TaiPlmnId t)); cbn [negb andb]; [reflexivity|].
  destruct (forallb _ l); reflexivity.
Qed.

(* DeepEqual on the text = equality of the PLMNs denoted *)
Lemma DeepEqual_abs t0 t v0 v :
  abs_tai t0 = Some v0 -> abs_tai t = Some v ->
  DeepEqual_plmn (TaiPlmnId t0) (TaiPlmnId t) = true <-> fst v = fst v0.
Proof.
  intros H0 H. destruct (abs_tai_inv _ _ H0) as (p0 & E0 & A0 & _). destruct (abs_tai_inv _ _ H) as (p & E & A & _).
  rewrite E0, E. cbn [DeepEqual_plmn]. rewrite plmn_eqb_eq. split.
  - intros ->. congruence.
  - intro Hf. rewrite Hf in A. eapply abs_plmn_inj; eassumption.
Qed.

Lemma forallb_DeepEqual t0 v0 l vs :
  abs_tai t0 = Some v0 -> opt_all (map abs_tai l) = Some vs ->
  forallb (fun tai => DeepEqual_plmn (TaiPlmnId t0) (TaiPlmnId tai)) l = true
  <-> (forall v, In v vs -> fst v = fst v0).
Proof.
  intro H0. revert vs. induction l as [|t l IH]; intros vs H.
  - cbn in H. inversion H; subst. cbn. split; [intros _ v []|reflexivity].
  - cbn [map opt_all] in H. destruct (abs_tai t) as [v|] eqn:Ev; [|discriminate].
    destruct (opt_all (map abs_tai l)) as [vs'|]; [|discriminate].
    cbn in H. inversion H; subst vs; clear H.
    cbn [forallb]. rewrite andb_true_iff, (DeepEqual_abs t0 t v0 v H0 Ev), (IH vs' eq_refl).
    split.
    + intros [Hv Hr] w [<-|Hw]; auto.
    + intro Hall. split; [apply Hall; left; reflexivity|intros w Hw; apply Hall; right; assumption].
Qed.

Lemma opt_all_length {A B} (f : A -> option B) l vs : opt_all (map f l) = Some vs -> length vs = length l.
Proof.
  revert vs. induction l as [|x l IH]; intros vs H.
  - cbn in H. inversion H. reflexivity.
  - cbn [map opt_all] in H. destruct (f x); [|discriminate].
    destruct (opt_all (map f l)) as [vs'|]; [|discriminate].
    cbn in H. inversion H; subst. cbn. f_equal. apply IH. reflexivity.
Qed.

Lemma opt_all_Forall {A B} (f : A -> option B) (P : B -> Prop) l vs :
  (forall x v, f x = Some v -> P v) -> opt_all (map f l) = Some vs -> Forall P vs.
Proof.
  intro Hf. revert vs. induction l as [|x l IH]; intros vs H.
  - cbn in H. inversion H. constructor.
  - cbn [map opt_all] in H. destruct (f x) as [v|] eqn:E; [|discriminate].
    destruct (opt_all (map f l)) as [vs'|]; [|discriminate].
    cbn in H. inversion H; subst. constructor; [eapply Hf; eassumption|apply IH; reflexivity].
Qed.

Lemma tacs_flat l vs :
  opt_all (map abs_tai l) = Some vs ->
  flat_map (fun tai => hex_or_nil (Tac tai)) l = flat_map b24 (map snd vs).
Proof.
  revert vs. induction l as [|t l IH]; intros vs H.
  - cbn in H. inversion H. reflexivity.
  - cbn [map opt_all] in H. destruct (abs_tai t) as [v|] eqn:Ev; [|discriminate].
    destruct (opt_all (map abs_tai l)) as [vs'|]; [|discriminate].
    cbn in H. inversion H; subst vs; clear H.
    destruct (abs_tai_inv _ _ Ev) as (p & _ & _ & _ & _ & _ & Hh & _).
    cbn [flat_map map]. rewrite Hh, (IH vs' eq_refl). reflexivity.
Qed.

Lemma type2_flat l vs :
  opt_all (map abs_tai l) = Some vs ->
  TaiListToNas_type2 l = Ok (flat_map tai_octets vs).
Proof.
  revert vs. induction l as [|t l IH]; intros vs H.
  - cbn in H. inversion H. reflexivity.
  - cbn [map opt_all] in H. destruct (abs_tai t) as [v|] eqn:Ev; [|discriminate].
    destruct (opt_all (map abs_tai l)) as [vs'|]; [|discriminate].
    cbn in H. inversion H; subst vs; clear H.
    destruct (abs_tai_inv _ _ Ev) as (p & Ep & _ & _ & _ & Hn & _ & Hs & Hf).
    cbn [TaiListToNas_type2 flat_map]. rewrite Ep. cbn [deref obind]. rewrite Hn. cbn [obind].
    rewrite (IH vs' eq_refl). cbn [obind]. rewrite Hs, Hf. reflexivity.
Qed.

Ltac nlia := rewrite ?map_length; cbn [length] in *; unfold tai in *; lia.

Definition same_plmn (vs : list tai) : Prop :=
  match vs with [] => True | v0 :: _ => forall v, In v vs -> fst v = fst v0 end.

Lemma hdr_value ty n :
  (ty = 0 \/ ty = 2) -> (1 <= n <= 16)%nat ->
  u8 (u8 (N.shiftl ty 5) + u8 (N.of_nat n mod 256 + 255)) = ty * 32 + (N.of_nat n - 1).
Proof.
  intros Hty Hn. unfold u8. rewrite shiftl_mul. change (2 ^ 5) with 32.
  destruct Hty as [-> | ->]; lia.
Qed.

Theorem TaiListToNas_spec l vs :
  opt_all (map abs_tai l) = Some vs -> (1 <= length l <= 16)%nat ->
  exists out, TaiListToNas l = Ok out /\ bytes_ok out /\ (length out <= 97)%nat /\
    ((same_plmn vs /\ exists v0 r, vs = v0 :: r /\ spec_tai_list out = Some [TL_list (fst v0) (map snd vs)]) \/
     (~ same_plmn vs /\ spec_tai_list out = Some [TL_tais vs])).
Proof.
  intros H Hn.
  pose proof (opt_all_length _ _ _ H) as Hlen.
  pose proof (opt_all_Forall abs_tai tai_ok l vs
                (fun x v Hx => match abs_tai_inv x v Hx with ex_intro _ _ (conj _ (conj _ (conj _ (conj Hok _)))) => Hok end) H) as Hok.
  destruct l as [|t0 l']; [cbn in Hn; lia|].
  destruct vs as [|v0 vs']; [discriminate Hlen|].
  assert (H0 : abs_tai t0 = Some v0).
  { cbn [map opt_all] in H. destruct (abs_tai t0); [|discriminate].
    destruct (opt_all (map abs_tai l')); [|discriminate]. cbn in H. inversion H. reflexivity. }
  unfold TaiListToNas. rewrite typeOfList_fold.
  pose proof (forallb_DeepEqual t0 v0 (t0 :: l') (v0 :: vs') H0 H) as Hall.
  destruct (abs_tai_inv _ _ H0) as (p0 & Ep0 & _ & _ & [Hd0 _] & Hn0 & _).
  unfold len8. rewrite hdr_value.
  2:{ destruct (forallb _ _); auto. }
  2:{ assumption. }
  destruct (forallb (fun tai => DeepEqual_plmn (TaiPlmnId t0) (TaiPlmnId tai)) (t0 :: l')) eqn:Eall.
  - (* one PLMN: type 00 *)
    rewrite Ep0. cbn [deref obind]. rewrite Hn0. cbn [obind].
    rewrite (tacs_flat _ _ H).
    assert (Hs : same_plmn (v0 :: vs')) by (cbn [same_plmn]; apply (proj1 Hall); reflexivity).
    assert (Ht : Forall (fun t => t < 16777216) (map snd (v0 :: vs'))).
    { apply Forall_forall. intros x Hx. apply in_map_iff in Hx as (v & <- & Hv).
      rewrite Forall_forall in Hok. apply (Hok v Hv). }
    eexists. split; [reflexivity|]. split; [|split].
    + apply bytes_ok_cons. split; [lia|]. apply bytes_ok_app; [apply plmn_octets_ok; assumption|].
      apply bytes_ok_flat_map. intros x Hx. apply b24_ok. rewrite Forall_forall in Ht. apply Ht; assumption.
    + cbn [length]. rewrite app_length.
      assert (G : forall ts, length (flat_map b24 ts) = (3 * length ts)%nat)
        by (induction ts as [|? ? IHt]; cbn [flat_map length app b24]; [reflexivity|rewrite IHt; lia]).
      rewrite G, map_length. cbn [plmn_octets length] in *. unfold tai in *. lia.
    + left. split; [assumption|]. exists v0, vs'. split; [reflexivity|].
      replace (0 * 32 + (N.of_nat (length (t0 :: l')) - 1)) with (N.of_nat (length (map snd (v0 :: vs'))) - 1).
      2:{ nlia. }
      apply spec_tai_list_type0; [assumption|assumption|nlia].
  - (* several PLMNs: type 10 *)
    rewrite (type2_flat _ _ H). cbn [obind].
    assert (Hs : ~ same_plmn (v0 :: vs')).
    { intro Hs. cbn [same_plmn] in Hs. apply (proj2 Hall) in Hs. congruence. }
    eexists. split; [reflexivity|]. split; [|split].
    + apply bytes_ok_cons. split; [lia|]. apply bytes_ok_flat_map. intros [p t] Hx.
      rewrite Forall_forall in Hok. destruct (Hok _ Hx) as [Hp Ht]. cbn [fst snd] in *.
      unfold tai_octets. apply bytes_ok_app; [apply plmn_octets_ok; assumption|apply b24_ok; assumption].
    + cbn [length].
      assert (G : forall ts, length (flat_map tai_octets ts) = (6 * length ts)%nat)
        by (induction ts as [|? ? IHt]; cbn [flat_map length]; [reflexivity|rewrite app_length, IHt; cbn; lia]).
      rewrite G. cbn [length] in *. unfold tai in *. lia.
    + right. split; [assumption|].
      replace (2 * 32 + (N.of_nat (length (t0 :: l')) - 1)) with (64 + (N.of_nat (length (v0 :: vs')) - 1))
        by nlia.
      apply spec_tai_list_type2; [assumption|nlia].
Qed.

(* the TAIs a reader obtains are exactly the input, in order, whichever list type was chosen *)
Corollary TaiListToNas_tais l vs :
  opt_all (map abs_tai l) = Some vs -> (1 <= length l <= 16)%nat ->
  exists out part, TaiListToNas l = Ok out /\ spec_tai_list out = Some [part] /\ partial_tais part = vs.
Proof.
  intros H Hn. destruct (TaiListToNas_spec l vs H Hn) as (out & Ho & _ & _ & [[Hs (v0 & r & -> & Hd)]|[_ Hd]]).
  - exists out, (TL_list (fst v0) (map snd (v0 :: r))). split; [assumption|]. split; [assumption|].
    cbn [partial_tais]. rewrite map_map.
    cbn [same_plmn] in Hs.
    assert (G : forall l' : list tai, (forall v, In v l' -> fst v = fst v0) -> map (fun x : tai => (fst v0, snd x)) l' = l').
    { induction l' as [|[p t] l' IH]; intro Hl; [reflexivity|].
      cbn [map fst snd]. rewrite IH by (intros; apply Hl; right; assumption).
      rewrite <- (Hl (p, t)) by (left; reflexivity). reflexivity. }
    apply G. assumption.
  - exists out, (TL_tais vs). auto.
Qed.

(* ---- service area list ---- *)

Lemma spec_service_area_fuel_unfold f h rest :
  spec_service_area_fuel (S f) (h :: rest) =
  let n := spec_count (h mod 32) in
  let na := (h / 128) mod 2 =? 1 in
  match (h / 32) mod 4, rest with
  | 0, p1 :: p2 :: p3 :: t =>
      match take_tacs n t with
      | Some (tacs, r) => option_map (cons (SA_list na (spec_plmn p1 p2 p3) tacs)) (spec_service_area_fuel f r)
      | None => None
      end
  | 1, p1 :: p2 :: p3 :: a :: b :: c :: r =>
      option_map (cons (SA_consec na (spec_plmn p1 p2 p3) (be24 a b c) n)) (spec_service_area_fuel f r)
  | 2, t =>
      match take_tais n t with
      | Some (l, r) => option_map (cons (SA_tais na l)) (spec_service_area_fuel f r)
      | None => None
      end
  | 3, p1 :: p2 :: p3 :: r =>
      option_map (cons (SA_all na (spec_plmn p1 p2 p3))) (spec_service_area_fuel f r)
  | _, _ => None
  end.
Proof. reflexivity. Qed.

Lemma spec_service_area_type0 (na : bool) p tacs :
  plmn_digits_ok p -> Forall (fun t => t < 16777216) tacs -> (1 <= length tacs <= 16)%nat ->
  spec_service_area (((if na then 1 else 0) * 128 + (N.of_nat (length tacs) - 1)) :: plmn_octets p ++ flat_map b24 tacs)
  = Some [SA_list na p tacs].
Proof.
  intros Hp Ht Hn. unfold spec_service_area. cbn [length]. rewrite spec_service_area_fuel_unfold. cbv zeta.
  set (a := if na then 1 else 0). assert (Ha : a = 0 \/ a = 1) by (destruct na; auto).
  replace ((a * 128 + (N.of_nat (length tacs) - 1)) / 32 mod 4) with 0 by lia.
  replace ((a * 128 + (N.of_nat (length tacs) - 1)) mod 32) with (N.of_nat (length tacs) - 1) by lia.
  replace ((a * 128 + (N.of_nat (length tacs) - 1)) / 128 mod 2) with a by lia.
  rewrite spec_count_len by assumption.
  unfold plmn_octets. cbn [app].
  rewrite <- (app_nil_r (flat_map b24 tacs)), take_tacs_flat by assumption.
  rewrite spec_plmn_octets by assumption. destruct na; reflexivity.
Qed.

Lemma service_area_fold tacs : forall tv b0 c0,
  opt_all (map text24 tacs) = Some tv -> c0 + N.of_nat (length tacs) < 256 ->
  fold_left (fun (st : bytes * N) tac =>
               if snd (hex_DecodeString tac) then (fst st ++ fst (hex_DecodeString tac), u8 (snd st + 1)) else st)
            tacs (b0, c0)
  = (b0 ++ flat_map b24 tv, c0 + N.of_nat (length tacs)).
Proof.
  induction tacs as [|t tacs IH]; intros tv b0 c0 H Hc.
  - cbn in H. inversion H. cbn [fold_left flat_map length]. rewrite app_nil_r. f_equal. lia.
  - cbn [map opt_all] in H. destruct (text24 t) as [v|] eqn:Ev; [|discriminate].
    destruct (opt_all (map text24 tacs)) as [tv'|]; [|discriminate].
    cbn in H. inversion H; subst tv; clear H.
    destruct (hex_decode_text24 _ _ Ev) as (a & b & c & Hdec & Hv & Ha & Hb & Hc').
    cbn [fold_left]. cbv zeta. rewrite Hdec. cbn [fst snd].
    cbn [length] in Hc. unfold u8. rewrite (N.mod_small (c0 + 1)) by lia.
    rewrite (IH tv' _ _ eq_refl) by lia.
    cbn [flat_map length]. rewrite <- app_assoc. subst v. rewrite b24_of_be24 by assumption.
    f_equal. lia.
Qed.

Definition is_allowed (restrictionType : bytes) : bool := eqb_bytes restrictionType RestrictionType_ALLOWED_AREAS.

Lemma land_128 a : a = 0 \/ a = 1 -> N.land (u8 (N.shiftl a 7)) 128 = a * 128.
Proof. intros [-> | ->]; reflexivity. Qed.

Theorem PartialServiceAreaListToNas_spec p rt areas pv tv :
  abs_plmn p = Some pv -> opt_all (map text24 (concat areas)) = Some tv ->
  (1 <= length (concat areas) <= 16)%nat ->
  exists out, PartialServiceAreaListToNas p rt areas = Ok out /\
              spec_service_area out = Some [SA_list (negb (is_allowed rt)) pv tv].
Proof.
  intros Hp Ht Hn. destruct (abs_plmn_inv p pv Hp) as (Hd & Hnas & _).
  pose proof (opt_all_length _ _ _ Ht) as Hlen.
  pose proof (opt_all_Forall text24 (fun t => t < 16777216) _ _
                (fun x v Hx => proj2 (hex_or_nil_text24 x v Hx)) Ht) as Hok.
  unfold PartialServiceAreaListToNas. rewrite Hnas. cbn [obind]. cbv zeta.
  match goal with |- context [fold_left ?f (concat areas) ?i] => set (st := fold_left f (concat areas) i) end.
  assert (Est : st = ([] ++ flat_map b24 tv, 0 + N.of_nat (length (concat areas))))
    by (apply (service_area_fold _ tv [] 0 Ht); lia).
  rewrite Est. cbn [fst snd app].
  eexists. split; [reflexivity|].
  replace (0 + N.of_nat (length (concat areas))) with (N.of_nat (length tv)) by lia.
  replace (if 0 <? N.of_nat (length tv) then N.of_nat (length tv) - 1 else N.of_nat (length tv))
    with (N.of_nat (length tv) - 1) by (destruct (N.ltb_spec 0 (N.of_nat (length tv))); lia).
  fold (is_allowed rt).
  set (a := if is_allowed rt then 0 else 1).
  assert (Ha : a = 0 \/ a = 1) by (unfold a; destruct (is_allowed rt); auto).
  rewrite land_128 by assumption.
  change 31 with (N.ones 5). rewrite land_ones_mod. change (2 ^ 5) with 32.
  unfold u8.
  replace ((a * 128 + (N.of_nat (length tv) - 1) mod 32) mod 256)
    with ((if negb (is_allowed rt) then 1 else 0) * 128 + (N.of_nat (length tv) - 1))
    by (unfold a; destruct (is_allowed rt); cbn [negb]; lia).
  apply spec_service_area_type0; [assumption|assumption|lia].
Qed.

(* ---- LADN information ---- *)

Lemma spec_ladn_info_fuel_unfold f l rest :
  spec_ladn_info_fuel (S f) (l :: rest) =
  if Nat.ltb (length rest) (N.to_nat l) then None
  else
    let dnn := firstn (N.to_nat l) rest in
    match skipn (N.to_nat l) rest with
    | [] => None
    | tl :: rest2 =>
        if Nat.ltb (length rest2) (N.to_nat tl) then None
        else match spec_tai_list (firstn (N.to_nat tl) rest2) with
             | None => None
             | Some ps => option_map (cons (dnn, ps)) (spec_ladn_info_fuel f (skipn (N.to_nat tl) rest2))
             end
    end.
Proof. reflexivity. Qed.

Lemma spec_ladn_info_fuel_irrel f : forall f' bs,
  (length bs < f)%nat -> (length bs < f')%nat -> spec_ladn_info_fuel f bs = spec_ladn_info_fuel f' bs.
Proof.
  induction f as [|f IH]; intros f' bs H1 H2; [lia|]. destruct f' as [|f']; [lia|].
  destruct bs as [|l rest]; [reflexivity|]. rewrite !spec_ladn_info_fuel_unfold.
  destruct (Nat.ltb (length rest) (N.to_nat l)); [reflexivity|]. cbv zeta.
  destruct (skipn (N.to_nat l) rest) as [|tl rest2] eqn:Es; [reflexivity|].
  destruct (Nat.ltb (length rest2) (N.to_nat tl)); [reflexivity|].
  destruct (spec_tai_list (firstn (N.to_nat tl) rest2)); [|reflexivity].
  f_equal. apply IH.
  - rewrite skipn_length. assert (length (skipn (N.to_nat l) rest) <= length rest)%nat by (rewrite skipn_length; lia).
    rewrite Es in H. cbn [length] in *. lia.
  - rewrite skipn_length. assert (length (skipn (N.to_nat l) rest) <= length rest)%nat by (rewrite skipn_length; lia).
    rewrite Es in H. cbn [length] in *. lia.
Qed.

Lemma spec_ladn_info_cons dnn tl ps rest :
  (length dnn <= 255)%nat -> (length tl <= 255)%nat -> spec_tai_list tl = Some ps ->
  spec_ladn_info ((N.of_nat (length dnn) :: dnn ++ N.of_nat (length tl) :: tl) ++ rest)
  = option_map (cons (dnn, ps)) (spec_ladn_info rest).
Proof.
  intros Hd Htl Hps. unfold spec_ladn_info. cbn [app]. rewrite spec_ladn_info_fuel_unfold.
  rewrite Nat2N.id. rewrite <- app_assoc. cbn [app].
  replace (Nat.ltb (length (dnn ++ N.of_nat (length tl) :: tl ++ rest)) (length dnn)) with false
    by (symmetry; apply Nat.ltb_ge; rewrite app_length; lia).
  cbv zeta. rewrite firstn_app_exact, skipn_app_exact, Nat2N.id.
  replace (Nat.ltb (length (tl ++ rest)) (length tl)) with false
    by (symmetry; apply Nat.ltb_ge; rewrite app_length; lia).
  rewrite firstn_app_exact, skipn_app_exact, Hps.
  f_equal. apply spec_ladn_info_fuel_irrel; cbn [length]; rewrite ?app_length; cbn [length]; rewrite ?app_length; lia.
Qed.

Theorem LadnToNas_spec dnn l vs rest :
  (length dnn <= 255)%nat -> opt_all (map abs_tai l) = Some vs -> (1 <= length l <= 16)%nat ->
  exists out part, LadnToNas dnn l = Ok out /\ partial_tais part = vs /\
    spec_ladn_info (out ++ rest) = option_map (cons (dnn, [part])) (spec_ladn_info rest).
Proof.
  intros Hd H Hn.
  destruct (TaiListToNas_spec l vs H Hn) as (tl & Ho & _ & Hl & Hcase).
  destruct (TaiListToNas_tais l vs H Hn) as (tl' & part & Ho' & Hs & Hp).
  rewrite Ho in Ho'. inversion Ho'; subst tl'; clear Ho'.
  exists (N.of_nat (length dnn) :: dnn ++ N.of_nat (length tl) :: tl), part.
  split; [|split; [assumption|]].
  - unfold LadnToNas. rewrite Ho. cbn [obind]. unfold len8. rewrite !N.mod_small by lia. reflexivity.
  - apply spec_ladn_info_cons; [assumption|lia|assumption].
Qed.
