(* C13: executable models of the Go standard-library calls made by the modelled
   nasConvert / nasType code (Go 1.23 sources).  Modelled, not verified: the
   correspondence run exercises each of them through the functions that use it.
   Go strings are [bytes] (lists of octets < 256). *)
From NV Require Import Lib.Base.
Open Scope N_scope.

(* ---- encoding/hex ---- *)

(* hextable = "0123456789abcdef" *)
Definition hexdigit (d : N) : N := if d <? 10 then 48 + d else 87 + d.

(* hex.EncodeToString: two lower-case digits per octet, high nibble first *)
Fixpoint hex_EncodeToString (src : bytes) : bytes :=
  match src with
  | [] => []
  | b :: t => hexdigit (b / 16) :: hexdigit (b mod 16) :: hex_EncodeToString t
  end.

(* reverseHexTable: 0-9, a-f, A-F map to their value, every other octet to 0xff *)
Definition fromHexChar (c : N) : option N :=
  if (48 <=? c) && (c <=? 57) then Some (c - 48)
  else if (97 <=? c) && (c <=? 102) then Some (c - 87)
  else if (65 <=? c) && (c <=? 70) then Some (c - 55)
  else None.

(* hex.DecodeString: returns the octets decoded before the first problem
   together with the error flag ([true] = err == nil).  An invalid character
   stops decoding (InvalidByteError); an odd number of characters is
   ErrLength (or InvalidByteError for the dangling character): in both cases
   the complete pairs before it are returned with a non-nil error. *)
Fixpoint hex_DecodeString (s : bytes) : bytes * bool :=
  match s with
  | [] => ([], true)
  | [_] => ([], false)
  | p :: q :: t =>
      match fromHexChar p, fromHexChar q with
      | Some a, Some b =>
          let r := hex_DecodeString t in ((a * 16 + b) :: fst r, snd r)
      | _, _ => ([], false)
      end
  end.

(* ---- strconv.Atoi(string(c)) for one octet c ----
   string(byte) is the UTF-8 encoding of the code point: a one-octet string for
   c < 0x80, a two-octet string otherwise (never a number).  Atoi of a
   one-character string succeeds exactly on '0'..'9' ("+" and "-" alone are
   syntax errors). *)
Definition atoi_byte (c : N) : option N :=
  if (48 <=? c) && (c <=? 57) then Some (c - 48) else None.

(* ---- strings.Split(s, ".") : always at least one element ---- *)
Fixpoint strings_Split_dot (s : bytes) : list bytes :=
  match s with
  | [] => [[]]
  | c :: t =>
      if c =? 46 then [] :: strings_Split_dot t
      else match strings_Split_dot t with
           | h :: r => (c :: h) :: r
           | [] => [[c]]
           end
  end.

(* Go conversions to uint8 *)
Definition u8 (x : N) : N := x mod 256.
Definition len8 {A} (l : list A) : N := N.of_nat (length l) mod 256.
