(* C13: S-NSSAI / NSSAI / rejected NSSAI *)
From NV Require Import Lib.Base Lib.Bits C13.GoStd C13.Model C13.Spec C13.Proofs_text.
From Coq Require Import ZifyN ZifyNat ZifyBool.
Open Scope N_scope.
Ltac Zify.zify_post_hook ::= Z.div_mod_to_equations.

Arguments N.modulo : simpl never.
Arguments N.div : simpl never.
Arguments N.pow : simpl never.
Arguments N.add : simpl never.
Arguments N.mul : simpl never.
Arguments N.sub : simpl never.
Arguments N.of_nat : simpl never.
Arguments N.to_nat : simpl never.

(* ---- generic list / slice facts ---- *)

Lemma idx_app_mid pre x r : idx (pre ++ x :: r) (length pre) = Ok x.
Proof.
  unfold idx. rewrite nth_error_app2 by lia. rewrite Nat.sub_diag. reflexivity.
Qed.

Lemma slice_from_app pre r : slice_from (pre ++ r) (length pre) = Ok r.
Proof.
  unfold slice_from, slice. rewrite app_length.
  replace (Nat.leb (length pre) (length pre + length r) && Nat.leb (length pre + length r) (length pre + length r))%bool
    with true by (symmetry; apply andb_true_iff; split; apply Nat.leb_le; lia).
  rewrite skipn_app, skipn_all, Nat.sub_diag. cbn [app skipn].
  replace (length pre + length r - length pre)%nat with (length r) by lia.
  rewrite firstn_all. reflexivity.
Qed.

Lemma bytes_ok_skipn n l : bytes_ok l -> bytes_ok (skipn n l).
Proof.
  unfold bytes_ok. rewrite !Forall_forall. intros H x Hx. apply H.
  rewrite <- (firstn_skipn n l). apply in_or_app. right. exact Hx.
Qed.
Lemma bytes_ok_firstn n l : bytes_ok l -> bytes_ok (firstn n l).
Proof.
  unfold bytes_ok. rewrite !Forall_forall. intros H x Hx. apply H.
  rewrite <- (firstn_skipn n l). apply in_or_app. left. exact Hx.
Qed.
Lemma bytes_ok_app a b : bytes_ok a -> bytes_ok b -> bytes_ok (a ++ b).
Proof. unfold bytes_ok. intros. apply Forall_app. split; assumption. Qed.
Lemma bytes_ok_cons x l : bytes_ok (x :: l) <-> x < 256 /\ bytes_ok l.
Proof. unfold bytes_ok, is_byte. split; [intro H; inversion H; auto|intros [? ?]; constructor; auto]. Qed.

(* ---- the S-NSSAI value reader of the standard ---- *)

Lemma spec_snssai_value_len c v :
  spec_snssai_value c = Some v ->
  (length c = 1 \/ length c = 2 \/ length c = 4 \/ length c = 5 \/ length c = 8)%nat.
Proof.
  destruct c as [|? [|? [|? [|? [|? [|? [|? [|? [|? ?]]]]]]]]]; cbn; intro H; try discriminate; lia.
Qed.

Lemma snssaiToModels_default L buf :
  L <> 1 -> L <> 2 -> L <> 4 -> L <> 5 -> L <> 8 -> snssaiToModels L buf = Err.
Proof.
  intros. unfold snssaiToModels.
  destruct (N.of_nat (length buf) <? L + 1); [reflexivity|].
  destruct L as [|p]; [reflexivity|].
  do 4 (try (destruct p as [p|p|]; try reflexivity; try congruence)).
Qed.

Lemma len_guard L r :
  (N.of_nat (length (L :: r)) <? L + 1) = Nat.ltb (length r) (N.to_nat L).
Proof.
  cbn [length]. destruct (N.ltb_spec (N.of_nat (S (length r))) (L + 1)), (Nat.ltb_spec (length r) (N.to_nat L)); lia.
Qed.

Local Opaque hex6 hex_EncodeToString be24.

Lemma snssaiToModels_spec L r :
  bytes_ok r ->
  snssaiToModels L (L :: r) =
    if Nat.ltb (length r) (N.to_nat L) then Err
    else match spec_snssai_value (firstn (N.to_nat L) r) with
         | Some v => Ok (conc_mapping v)
         | None => Err
         end.
Proof.
  intro Hr.
  destruct (N.eq_dec L 1) as [->|N1]; [|destruct (N.eq_dec L 2) as [->|N2];
    [|destruct (N.eq_dec L 4) as [->|N4]; [|destruct (N.eq_dec L 5) as [->|N5];
    [|destruct (N.eq_dec L 8) as [->|N8]]]]].
  - unfold snssaiToModels. rewrite len_guard. change (N.to_nat 1) with 1%nat.
    destruct r as [|s r]; [reflexivity|]. reflexivity.
  - unfold snssaiToModels. rewrite len_guard. change (N.to_nat 2) with 2%nat.
    destruct r as [|s [|m r]]; try reflexivity.
  - unfold snssaiToModels. rewrite len_guard. change (N.to_nat 4) with 4%nat.
    destruct r as [|s [|a [|b [|c r]]]]; try reflexivity.
    apply bytes_ok_cons in Hr as [_ Hr]. apply bytes_ok_cons in Hr as [Ha Hr].
    apply bytes_ok_cons in Hr as [Hb Hr]. apply bytes_ok_cons in Hr as [Hc Hr].
    cbn. rewrite (hex_encode_hex6 a b c) by assumption. reflexivity.
  - unfold snssaiToModels. rewrite len_guard. change (N.to_nat 5) with 5%nat.
    destruct r as [|s [|a [|b [|c [|m r]]]]]; try reflexivity.
    apply bytes_ok_cons in Hr as [_ Hr]. apply bytes_ok_cons in Hr as [Ha Hr].
    apply bytes_ok_cons in Hr as [Hb Hr]. apply bytes_ok_cons in Hr as [Hc Hr].
    cbn. rewrite (hex_encode_hex6 a b c) by assumption. reflexivity.
  - unfold snssaiToModels. rewrite len_guard. change (N.to_nat 8) with 8%nat.
    destruct r as [|s [|a [|b [|c [|m [|d [|e [|f r]]]]]]]]; try reflexivity.
    apply bytes_ok_cons in Hr as [_ Hr]. apply bytes_ok_cons in Hr as [Ha Hr].
    apply bytes_ok_cons in Hr as [Hb Hr]. apply bytes_ok_cons in Hr as [Hc Hr].
    apply bytes_ok_cons in Hr as [_ Hr]. apply bytes_ok_cons in Hr as [Hd Hr].
    apply bytes_ok_cons in Hr as [He Hr]. apply bytes_ok_cons in Hr as [Hf Hr].
    cbn. rewrite (hex_encode_hex6 a b c), (hex_encode_hex6 d e f) by assumption. reflexivity.
  - rewrite snssaiToModels_default by assumption.
    destruct (Nat.ltb (length r) (N.to_nat L)) eqn:E; [reflexivity|].
    apply Nat.ltb_ge in E.
    destruct (spec_snssai_value (firstn (N.to_nat L) r)) as [v|] eqn:Ev; [|reflexivity].
    apply spec_snssai_value_len in Ev. rewrite firstn_length_le in Ev by assumption. lia.
Qed.

Lemma spec_snssai_value_small L r v :
  (N.to_nat L <= length r)%nat -> spec_snssai_value (firstn (N.to_nat L) r) = Some v -> L <= 8.
Proof.
  intros Hl Ev. apply spec_snssai_value_len in Ev. rewrite firstn_length_le in Ev by assumption. lia.
Qed.

(* ---- the NSSAI decoder loop = the standard's reader, for every octet string ---- *)

Lemma RequestedNssaiToModels_loop_spec fuel : forall pre rest,
  bytes_ok rest -> (length rest < fuel)%nat ->
  RequestedNssaiToModels_loop fuel (pre ++ rest) (length (pre ++ rest)) (length pre)
  = match spec_nssai_fuel fuel rest with
    | Some l => Ok (map conc_mapping l)
    | None => Err
    end.
Proof.
  induction fuel as [|f IH]; intros pre rest Hok Hf; [lia|].
  cbn [RequestedNssaiToModels_loop spec_nssai_fuel].
  destruct rest as [|L r].
  - rewrite app_nil_r, Nat.ltb_irrefl. reflexivity.
  - replace (Nat.ltb (length pre) (length (pre ++ L :: r))) with true
      by (symmetry; apply Nat.ltb_lt; rewrite app_length; cbn [length]; lia).
    rewrite idx_app_mid. cbn [obind]. rewrite slice_from_app. cbn [obind].
    apply bytes_ok_cons in Hok as [HL Hr].
    rewrite snssaiToModels_spec by assumption.
    destruct (Nat.ltb (length r) (N.to_nat L)) eqn:E; [reflexivity|].
    apply Nat.ltb_ge in E.
    destruct (spec_snssai_value (firstn (N.to_nat L) r)) as [v|] eqn:Ev; [|reflexivity].
    cbn [obind].
    pose proof (spec_snssai_value_small L r v E Ev) as H8.
    replace (pre ++ L :: r) with ((pre ++ L :: firstn (N.to_nat L) r) ++ skipn (N.to_nat L) r)
      by (rewrite <- app_assoc; cbn [app]; rewrite firstn_skipn; reflexivity).
    replace (length pre + N.to_nat (u8 (L + 1)))%nat with (length (pre ++ L :: firstn (N.to_nat L) r)).
    2:{ rewrite app_length. cbn [length]. rewrite firstn_length_le by assumption. unfold u8. lia. }
    cbn [length] in Hf.
    rewrite IH.
    + destruct (spec_nssai_fuel f (skipn (N.to_nat L) r)); reflexivity.
    + apply bytes_ok_skipn; assumption.
    + rewrite skipn_length. lia.
Qed.

Theorem RequestedNssaiToModels_eq_spec bs :
  bytes_ok bs ->
  RequestedNssaiToModels (N.of_nat (length bs)) bs
  = match spec_nssai bs with Some l => Ok (map conc_mapping l) | None => Err end.
Proof.
  intro H. unfold RequestedNssaiToModels, RequestedNssaiToModels_fuel, spec_nssai.
  rewrite Nat2N.id.
  apply (RequestedNssaiToModels_loop_spec (S (length bs)) [] bs H). lia.
Qed.

(* ---- the standard's reader on the standard's layout ---- *)

Lemma spec_nssai_fuel_irrel f : forall f' bs,
  (length bs < f)%nat -> (length bs < f')%nat -> spec_nssai_fuel f bs = spec_nssai_fuel f' bs.
Proof.
  induction f as [|f IH]; intros f' bs H1 H2; [lia|]. destruct f' as [|f']; [lia|].
  cbn [spec_nssai_fuel]. destruct bs as [|l rest]; [reflexivity|].
  destruct (Nat.ltb (length rest) (N.to_nat l)); [reflexivity|].
  destruct (spec_snssai_value (firstn (N.to_nat l) rest)); [|reflexivity].
  f_equal. cbn [length] in *. apply IH; rewrite skipn_length; lia.
Qed.

Local Transparent be24.

Lemma spec_snssai_value_octets v :
  s_nssai_ok v = true ->
  exists L body, spec_snssai_octets v = L :: body /\ N.to_nat L = length body /\
                 spec_snssai_value body = Some v /\ bytes_ok (L :: body) /\
                 (L = 1 \/ L = 2 \/ L = 4 \/ L = 5 \/ L = 8).
Proof.
  destruct v as [t [x|] [m|] [y|]]; unfold s_nssai_ok; cbn [sst sd msst msd opt_lt];
    intro H; try discriminate;
    repeat (apply andb_true_iff in H; destruct H as [H ?]);
    try match goal with Hx : false = true |- _ => discriminate Hx end;
    repeat match goal with Hx : (_ <? _) = true |- _ => apply N.ltb_lt in Hx end;
    unfold spec_snssai_octets, b24; cbn [sst sd msst msd app length];
    eexists _, _; (split; [reflexivity|]); (split; [reflexivity|]);
    (split; [cbn [spec_snssai_value]; rewrite ?b24_be24 by assumption; reflexivity|]);
    (split; [|vm_compute; tauto]);
    repeat (apply bytes_ok_cons; split; [try (vm_compute; reflexivity); try lia|]);
    try constructor.
Qed.

Lemma firstn_app_exact {A} (a b : list A) : firstn (length a) (a ++ b) = a.
Proof. rewrite firstn_app, Nat.sub_diag, firstn_all. cbn. apply app_nil_r. Qed.
Lemma skipn_app_exact {A} (a b : list A) : skipn (length a) (a ++ b) = b.
Proof. rewrite skipn_app, Nat.sub_diag, skipn_all. reflexivity. Qed.

Lemma spec_nssai_fuel_unfold f l rest :
  spec_nssai_fuel (S f) (l :: rest) =
  if Nat.ltb (length rest) (N.to_nat l) then None
  else match spec_snssai_value (firstn (N.to_nat l) rest) with
       | None => None
       | Some v => option_map (cons v) (spec_nssai_fuel f (skipn (N.to_nat l) rest))
       end.
Proof. reflexivity. Qed.

Lemma spec_nssai_cons v rest :
  s_nssai_ok v = true ->
  spec_nssai (spec_snssai_octets v ++ rest) = option_map (cons v) (spec_nssai rest).
Proof.
  intro Hv. destruct (spec_snssai_value_octets v Hv) as (L & body & -> & HL & Hb & _ & _).
  unfold spec_nssai. cbn [app]. rewrite spec_nssai_fuel_unfold. rewrite HL.
  replace (Nat.ltb (length (body ++ rest)) (length body)) with false
    by (symmetry; apply Nat.ltb_ge; rewrite app_length; lia).
  rewrite firstn_app_exact, skipn_app_exact, Hb.
  f_equal. apply spec_nssai_fuel_irrel; cbn [length]; rewrite ?app_length; lia.
Qed.

Lemma spec_nssai_app l rest :
  forallb s_nssai_ok l = true ->
  spec_nssai (flat_map spec_snssai_octets l ++ rest) = option_map (app l) (spec_nssai rest).
Proof.
  induction l as [|v l IH]; intro H.
  - cbn [flat_map app]. destruct (spec_nssai rest); reflexivity.
  - cbn [forallb] in H. apply andb_true_iff in H as [Hv Hl].
    cbn [flat_map]. rewrite <- app_assoc, spec_nssai_cons, IH by assumption.
    destruct (spec_nssai rest); reflexivity.
Qed.

Lemma spec_nssai_roundtrip l :
  forallb s_nssai_ok l = true -> spec_nssai (flat_map spec_snssai_octets l) = Some l.
Proof.
  intro H. rewrite <- (app_nil_r (flat_map _ _)), spec_nssai_app by assumption.
  change (spec_nssai []) with (@Some (list s_nssai) []). cbn [option_map]. rewrite app_nil_r. reflexivity.
Qed.

(* a length octet that is reserved or overruns what is left *)
Definition bad_length (L : N) (rest : bytes) : Prop :=
  (L <> 1 /\ L <> 2 /\ L <> 4 /\ L <> 5 /\ L <> 8) \/ (length rest < N.to_nat L)%nat.

Lemma spec_nssai_bad L rest : bad_length L rest -> spec_nssai (L :: rest) = None.
Proof.
  intro H. unfold spec_nssai. cbn [length spec_nssai_fuel].
  destruct (Nat.ltb (length rest) (N.to_nat L)) eqn:E; [reflexivity|].
  apply Nat.ltb_ge in E. destruct H as [H|H]; [|lia].
  destruct (spec_snssai_value (firstn (N.to_nat L) rest)) eqn:Ev; [|reflexivity].
  apply spec_snssai_value_len in Ev. rewrite firstn_length_le in Ev by assumption. lia.
Qed.

Lemma bytes_ok_flat_map {A} (f : A -> bytes) l :
  (forall x, In x l -> bytes_ok (f x)) -> bytes_ok (flat_map f l).
Proof.
  induction l as [|x l IH]; intro H; cbn; [constructor|].
  apply bytes_ok_app; [apply H; left; reflexivity|apply IH; intros; apply H; right; assumption].
Qed.

Lemma spec_nssai_octets_ok l :
  forallb s_nssai_ok l = true -> bytes_ok (flat_map spec_snssai_octets l).
Proof.
  intro H. apply bytes_ok_flat_map. intros v Hv.
  rewrite forallb_forall in H. destruct (spec_snssai_value_octets v (H v Hv)) as (L & body & -> & _ & _ & Hok & _).
  exact Hok.
Qed.

Lemma spec_snssai_octets_length v : s_nssai_ok v = true -> (length (spec_snssai_octets v) <= 9)%nat.
Proof.
  intro Hv. destruct (spec_snssai_value_octets v Hv) as (L & body & -> & HL & _ & _ & HLv).
  cbn [length]. lia.
Qed.

(* round trip of the library decoder over the standard's layout, all five shapes *)
Theorem nssai_roundtrip l :
  forallb s_nssai_ok l = true ->
  let enc := flat_map spec_snssai_octets l in
  RequestedNssaiToModels (N.of_nat (length enc)) enc = Ok (map conc_mapping l).
Proof.
  intros H enc. unfold enc.
  rewrite RequestedNssaiToModels_eq_spec by (apply spec_nssai_octets_ok; assumption).
  rewrite spec_nssai_roundtrip by assumption. reflexivity.
Qed.

Theorem nssai_malformed_err l L rest :
  forallb s_nssai_ok l = true -> bytes_ok (L :: rest) -> bad_length L rest ->
  let buf := flat_map spec_snssai_octets l ++ L :: rest in
  RequestedNssaiToModels (N.of_nat (length buf)) buf = Err.
Proof.
  intros H Hok Hbad buf. unfold buf.
  rewrite RequestedNssaiToModels_eq_spec
    by (apply bytes_ok_app; [apply spec_nssai_octets_ok; assumption|assumption]).
  rewrite spec_nssai_app, spec_nssai_bad by assumption. reflexivity.
Qed.

(* conversely: whenever the decoder does not report an error, the whole buffer
   is a sequence of well-formed S-NSSAI entries of the standard *)
Theorem nssai_ok_iff_spec bs :
  bytes_ok bs ->
  (RequestedNssaiToModels (N.of_nat (length bs)) bs = Err <-> spec_nssai bs = None).
Proof.
  intro H. rewrite RequestedNssaiToModels_eq_spec by assumption.
  destruct (spec_nssai bs); split; intro; congruence.
Qed.

(* ---- SnssaiToNas / RejectedSnssaiToNas produce the standard's layout ---- *)

Definition basic (v : N * option N) : s_nssai := mk_s_nssai (fst v) (snd v) None None.

Lemma abs_snssai_inv s t osd :
  abs_snssai s = Some (t, osd) ->
  Sst s = t /\ t < 256 /\
  match osd with
  | None => Sd s = []
  | Some v => Sd s <> [] /\ text24 (Sd s) = Some v
  end.
Proof.
  unfold abs_snssai. destruct (Sst s <? 256) eqn:E; [|discriminate]. apply N.ltb_lt in E.
  unfold abs_sd. destruct (Sd s) as [|c cs] eqn:Es.
  - cbn. intro H; inversion H; subst. auto.
  - destruct (text24 (c :: cs)) as [v|]; cbn; intro H; inversion H; subst.
    repeat split; auto. discriminate.
Qed.

Lemma is_nil_false s : s <> [] -> is_nil s = false.
Proof. destruct s; [congruence|reflexivity]. Qed.

Lemma b24_of_be24 a b c : a < 256 -> b < 256 -> c < 256 -> b24 (be24 a b c) = [a; b; c].
Proof. intros. unfold b24, be24. repeat f_equal; lia. Qed.

Lemma SnssaiToNas_layout s v :
  abs_snssai s = Some v ->
  SnssaiToNas s = spec_snssai_octets (basic v) /\ s_nssai_ok (basic v) = true.
Proof.
  destruct v as [t osd]. intro H. apply abs_snssai_inv in H as (Ht & Hlt & Hsd).
  unfold SnssaiToNas, basic, spec_snssai_octets, s_nssai_ok. cbn [fst snd sst sd msst msd opt_lt].
  rewrite Ht. unfold u8. rewrite (N.mod_small t 256) by assumption.
  destruct osd as [v|].
  - destruct Hsd as [Hne Hv]. rewrite is_nil_false by assumption.
    destruct (hex_decode_text24 _ _ Hv) as (a & b & c & Hd & <- & Ha & Hb & Hc).
    unfold hex_or_nil. rewrite Hd. cbn [fst snd app].
    rewrite b24_of_be24 by assumption. split; [reflexivity|].
    pose proof (be24_lt a b c Ha Hb Hc).
    apply andb_true_iff; split; [|reflexivity].
    repeat (apply andb_true_iff; split); try reflexivity; apply N.ltb_lt; assumption.
  - rewrite Hsd. cbn [is_nil]. split; [reflexivity|].
    apply andb_true_iff; split; [|reflexivity].
    repeat (apply andb_true_iff; split); try reflexivity; apply N.ltb_lt; assumption.
Qed.

Theorem snssai_spec_decodes s v :
  abs_snssai s = Some v -> spec_nssai (SnssaiToNas s) = Some [basic v].
Proof.
  intro H. destruct (SnssaiToNas_layout s v H) as [-> Hok].
  rewrite <- (spec_nssai_roundtrip [basic v]).
  - cbn [flat_map]. rewrite app_nil_r. reflexivity.
  - cbn [forallb]. rewrite Hok. reflexivity.
Qed.

(* NSSAI lists encoded by the library itself (SnssaiToNas per entry) *)
Lemma flat_map_SnssaiToNas l vs :
  opt_all (map abs_snssai l) = Some vs ->
  flat_map SnssaiToNas l = flat_map spec_snssai_octets (map basic vs) /\
  forallb s_nssai_ok (map basic vs) = true.
Proof.
  revert vs. induction l as [|s l IH]; intros vs H.
  - cbn in H. inversion H; subst. split; reflexivity.
  - cbn [map opt_all] in H. destruct (abs_snssai s) as [v|] eqn:Ev; [|discriminate].
    destruct (opt_all (map abs_snssai l)) as [vs'|]; [|discriminate].
    cbn in H. inversion H; subst vs; clear H.
    destruct (IH vs' eq_refl) as [IH1 IH2]. destruct (SnssaiToNas_layout s v Ev) as [E1 E2].
    cbn [map flat_map forallb]. rewrite E1, IH1, E2, IH2. split; reflexivity.
Qed.

Theorem nssai_lib_roundtrip l vs :
  opt_all (map abs_snssai l) = Some vs ->
  let enc := flat_map SnssaiToNas l in
  RequestedNssaiToModels (N.of_nat (length enc)) enc = Ok (map (fun v => conc_mapping (basic v)) vs).
Proof.
  intros H enc. unfold enc. destruct (flat_map_SnssaiToNas l vs H) as [-> Hok].
  rewrite nssai_roundtrip by assumption. rewrite map_map. reflexivity.
Qed.

(* ---- SnssaiToModels on the nasType.SNSSAI the NAS decoder builds from an
        encoded S-NSSAI: Len = length octet, Octet = value padded to 8 ---- *)

Definition octet8 (body : bytes) : bytes := firstn 8 (body ++ repeat 0 8).

Local Opaque hex6 hex_EncodeToString be24.

Theorem SnssaiToModels_roundtrip s v :
  abs_snssai s = Some v ->
  exists L body, SnssaiToNas s = L :: body /\
                 SnssaiToModels L (octet8 body) = Ok (conc_snssai (fst v) (snd v)).
Proof.
  intro H. destruct (SnssaiToNas_layout s v H) as [-> Hok].
  destruct v as [t [x|]]; unfold basic, spec_snssai_octets, b24; cbn [fst snd sst sd msst msd app length];
    change (N.of_nat 4) with 4; change (N.of_nat 1) with 1.
  - eexists _, _. split; [reflexivity|].
    unfold s_nssai_ok, basic in Hok. cbn [fst snd] in Hok. cbn [sst sd msst msd opt_lt] in Hok.
    repeat (apply andb_true_iff in Hok; destruct Hok as [Hok ?]).
    repeat match goal with Hx : (_ <? _) = true |- _ => apply N.ltb_lt in Hx end.
    unfold SnssaiToModels, octet8. cbn.
    rewrite hex_encode_hex6 by lia. rewrite b24_be24 by assumption. reflexivity.
  - eexists _, _. split; [reflexivity|]. reflexivity.
Qed.

Lemma SnssaiToModels_total len octet : length octet = 8%nat -> exists s, SnssaiToModels len octet = Ok s.
Proof.
  intro H. destruct octet as [|o0 [|o1 [|o2 [|o3 [|o4 [|o5 [|o6 [|o7 [|? ?]]]]]]]]]; try discriminate H.
  unfold SnssaiToModels. destruct (len =? 4); cbn; eexists; reflexivity.
Qed.

Local Transparent be24.

(* ---- rejected NSSAI ---- *)

Lemma spec_rejected_fuel_irrel f : forall f' bs,
  (length bs < f)%nat -> (length bs < f')%nat -> spec_rejected_fuel f bs = spec_rejected_fuel f' bs.
Proof.
  induction f as [|f IH]; intros f' bs H1 H2; [lia|]. destruct f' as [|f']; [lia|].
  cbn [spec_rejected_fuel]. destruct bs as [|h rest]; [reflexivity|].
  destruct (Nat.ltb (length rest) (N.to_nat (h / 16))); [reflexivity|].
  cbn [length] in *.
  assert (E : spec_rejected_fuel f (skipn (N.to_nat (h / 16)) rest)
              = spec_rejected_fuel f' (skipn (N.to_nat (h / 16)) rest))
    by (apply IH; rewrite skipn_length; lia).
  rewrite E. reflexivity.
Qed.

Definition rejected_octets (t : N) (osd : option N) (cause : N) : bytes :=
  match osd with
  | None => [16 + cause; t]
  | Some v => [64 + cause; t] ++ b24 v
  end.

Lemma RejectedSnssaiToNas_layout s v cause :
  abs_snssai s = Some v -> cause < 16 ->
  RejectedSnssaiToNas s cause = rejected_octets (fst v) (snd v) cause /\
  match snd v with Some x => x < 16777216 | None => True end /\ fst v < 256.
Proof.
  destruct v as [t osd]. intros H Hc. apply abs_snssai_inv in H as (Ht & Hlt & Hsd).
  unfold RejectedSnssaiToNas, rejected_octets. cbn [fst snd].
  change (N.shiftl 1 4) with 16. change (N.shiftl 4 4) with 64.
  rewrite Ht. unfold u8. rewrite (N.mod_small t 256) by assumption.
  destruct osd as [v|].
  - destruct Hsd as [Hne Hv]. rewrite is_nil_false by assumption.
    destruct (hex_decode_text24 _ _ Hv) as (a & b & c & Hd & <- & Ha & Hb & Hc').
    unfold hex_or_nil. rewrite Hd. cbn [fst snd app].
    rewrite b24_of_be24 by assumption. rewrite N.mod_small by lia.
    split; [reflexivity|]. split; [apply be24_lt; assumption|assumption].
  - rewrite Hsd. cbn [is_nil]. rewrite N.mod_small by lia. auto.
Qed.

Lemma spec_rejected_fuel_unfold f h rest :
  spec_rejected_fuel (S f) (h :: rest) =
  let l := N.to_nat (h / 16) in
  let cause := h mod 16 in
  if Nat.ltb (length rest) l then None
  else match firstn l rest with
       | [s] => option_map (cons (mk_rejected s None cause)) (spec_rejected_fuel f (skipn l rest))
       | [s; a; b; c] =>
           option_map (cons (mk_rejected s (Some (be24 a b c)) cause)) (spec_rejected_fuel f (skipn l rest))
       | _ => None
       end.
Proof. reflexivity. Qed.

Lemma spec_rejected_cons t osd cause rest :
  t < 256 -> cause < 16 -> match osd with Some x => x < 16777216 | None => True end ->
  spec_rejected (rejected_octets t osd cause ++ rest)
  = option_map (cons (mk_rejected t osd cause)) (spec_rejected rest).
Proof.
  intros Ht Hc Hx. unfold spec_rejected, rejected_octets. destruct osd as [x|].
  - unfold b24. cbn [app length]. rewrite spec_rejected_fuel_unfold. cbv zeta.
    replace ((64 + cause) / 16) with 4 by lia. replace ((64 + cause) mod 16) with cause by lia.
    change (N.to_nat 4) with 4%nat. cbn [length Nat.ltb Nat.leb firstn skipn].
    rewrite b24_be24 by assumption.
    f_equal. apply spec_rejected_fuel_irrel; lia.
  - cbn [app length]. rewrite spec_rejected_fuel_unfold. cbv zeta.
    replace ((16 + cause) / 16) with 1 by lia. replace ((16 + cause) mod 16) with cause by lia.
    change (N.to_nat 1) with 1%nat. cbn [length Nat.ltb Nat.leb firstn skipn].
    f_equal. apply spec_rejected_fuel_irrel; lia.
Qed.

Lemma spec_rejected_list l vs cause rest :
  opt_all (map abs_snssai l) = Some vs -> cause < 16 ->
  spec_rejected (flat_map (fun s => RejectedSnssaiToNas s cause) l ++ rest)
  = option_map (app (map (fun v => mk_rejected (fst v) (snd v) cause) vs)) (spec_rejected rest).
Proof.
  intros H Hc. revert vs H. induction l as [|s l IH]; intros vs H.
  - cbn in H. inversion H; subst. cbn [flat_map app map]. destruct (spec_rejected rest); reflexivity.
  - cbn [map opt_all] in H. destruct (abs_snssai s) as [v|] eqn:Ev; [|discriminate].
    destruct (opt_all (map abs_snssai l)) as [vs'|]; [|discriminate].
    cbn in H. inversion H; subst vs; clear H.
    destruct (RejectedSnssaiToNas_layout s v cause Ev Hc) as (E1 & E2 & E3).
    cbn [flat_map map]. rewrite <- app_assoc, E1, spec_rejected_cons by assumption.
    rewrite (IH vs' eq_refl). destruct (spec_rejected rest); reflexivity.
Qed.

Lemma hex_DecodeString_length x : (2 * length (fst (hex_DecodeString x)) <= length x)%nat.
Proof.
  assert (G : forall n x, (length x <= n)%nat -> (2 * length (fst (hex_DecodeString x)) <= length x)%nat).
  { induction n as [|n IH]; intros [|p [|q t]] H; cbn [hex_DecodeString fst length] in *; try lia.
    destruct (fromHexChar p), (fromHexChar q); cbn [fst length]; try lia.
    specialize (IH t). lia. }
  apply (G (length x)). lia.
Qed.

Lemma RejectedSnssaiToNas_length s cause :
  (2 * length (RejectedSnssaiToNas s cause) <= 4 + length (Sd s))%nat.
Proof.
  unfold RejectedSnssaiToNas. destruct (is_nil (Sd s)); cbn [length app]; [lia|].
  unfold hex_or_nil. pose proof (hex_DecodeString_length (Sd s)).
  destruct (snd (hex_DecodeString (Sd s))); cbn [length]; lia.
Qed.

Theorem rejected_nssai_spec_decodes inPlmn inTa va vb :
  opt_all (map abs_snssai inPlmn) = Some va -> opt_all (map abs_snssai inTa) = Some vb ->
  (length inPlmn + length inTa <= 51)%nat ->
  let r := RejectedNssaiToNas inPlmn inTa in
  fst r = N.of_nat (length (snd r)) /\
  spec_rejected (snd r) = Some (map (fun v => mk_rejected (fst v) (snd v) 0) va
                                ++ map (fun v => mk_rejected (fst v) (snd v) 1) vb).
Proof.
  intros Ha Hb Hlen r. unfold r, RejectedNssaiToNas. cbn [fst snd].
  set (ba := flat_map (fun s => RejectedSnssaiToNas s 0) inPlmn ++ flat_map (fun s => RejectedSnssaiToNas s 1) inTa).
  assert (Hl : (length ba <= 255)%nat).
  { assert (G : forall l vs c, opt_all (map abs_snssai l) = Some vs ->
                 (length (flat_map (fun s => RejectedSnssaiToNas s c) l) <= 5 * length l)%nat).
    { induction l as [|s l IH]; intros vs c H; [cbn; lia|].
      cbn [map opt_all] in H. destruct (abs_snssai s) as [[t osd]|] eqn:Ev; [|discriminate].
      destruct (opt_all (map abs_snssai l)) as [vs'|] eqn:E'; [|discriminate].
      cbn [flat_map length]. rewrite app_length. specialize (IH vs' c eq_refl).
      pose proof (RejectedSnssaiToNas_length s c) as Hs.
      apply abs_snssai_inv in Ev as (_ & _ & Hsd).
      assert (length (Sd s) <= 6)%nat.
      { destruct osd; [destruct Hsd as [_ Hsd]; unfold text24 in Hsd;
          destruct (Nat.eqb (length (Sd s)) 6) eqn:E6; [apply Nat.eqb_eq in E6; lia|discriminate]
          |rewrite Hsd; cbn; lia]. }
      lia. }
    unfold ba. rewrite app_length. specialize (G inPlmn va 0 Ha) as G1. specialize (G inTa vb 1 Hb) as G2. lia. }
  unfold len8. rewrite N.mod_small by lia. rewrite Nat2N.id, firstn_all. split; [reflexivity|].
  unfold ba.
  rewrite (spec_rejected_list inPlmn va 0) by (assumption || lia).
  rewrite <- (app_nil_r (flat_map _ inTa)).
  rewrite (spec_rejected_list inTa vb 1) by (assumption || lia).
  change (spec_rejected []) with (@Some (list rejected) []). cbn [option_map]. rewrite app_nil_r. reflexivity.
Qed.

Theorem rejected_snssai_spec_decodes s v cause :
  abs_snssai s = Some v -> cause < 16 ->
  spec_rejected (RejectedSnssaiToNas s cause) = Some [mk_rejected (fst v) (snd v) cause].
Proof.
  intros H Hc. destruct (RejectedSnssaiToNas_layout s v cause H Hc) as (-> & E2 & E3).
  rewrite <- (app_nil_r (rejected_octets _ _ _)), spec_rejected_cons by assumption. reflexivity.
Qed.
