(* C13: lemmas -- see Proofs_text.v (hex / digit text vs. Go's stdlib models, PLMN),
   Proofs_nssai.v (S-NSSAI, NSSAI decoder = the standard's reader, rejected NSSAI),
   Proofs_lists.v (TAI list, service-area list, LADN information),
   Proofs_total.v (LADN indication decoder, totality of the UE-fed helpers),
   Proofs_dnn.v (nasType.DNN SetDNN / GetDNN). *)
From NV Require Export Lib.Base C13.GoStd C13.Model C13.Spec
  C13.Proofs_text C13.Proofs_nssai C13.Proofs_lists C13.Proofs_total C13.Proofs_dnn.
From Coq Require Import ZifyN ZifyNat ZifyBool.
Open Scope N_scope.

(* lists of at most 28 S-NSSAIs fit the one-octet Len of the element *)
Lemma nssai_octets_length l :
  forallb s_nssai_ok l = true -> (length (flat_map spec_snssai_octets l) <= 9 * length l)%nat.
Proof.
  induction l as [|v l IH]; intro H; [cbn; lia|].
  cbn [forallb] in H. apply andb_true_iff in H as [Hv Hl].
  cbn [flat_map length]. rewrite app_length. specialize (IH Hl).
  pose proof (spec_snssai_octets_length v Hv). lia.
Qed.

(* UPU header octet (9.11.3.53A): bit 3 = registration requested, bit 2 = acknowledgement requested *)
Lemma upuInfoGetHeader_value reg ack :
  upuInfoGetHeader reg ack = (if reg then 4 else 0) + (if ack then 2 else 0).
Proof. destruct reg, ack; reflexivity. Qed.

(* first octet and overall shape of UpuInfoToNas for well-formed hex text *)
Lemma UpuInfoToNas_head u :
  exists body, UpuInfoToNas u = ((if UpuRegInd u then 4 else 0) + (if UpuAckInd u then 2 else 0)) :: body.
Proof. unfold UpuInfoToNas. rewrite upuInfoGetHeader_value. eexists. reflexivity. Qed.
