(* C13 (+ the C14 obligations of the same files): hand-written executable model
   of nasConvert/{Snssai,Nssai,TaiList,ServiceAreaList,Ladn,UESecurityCapability,
   UPUInfo,PlmnId}.go and nasType/NAS_DNN.go, function by function, same names.

   Conventions: Go strings and []byte are [bytes]; uint8 arithmetic wraps
   explicitly ([u8]); every index / slice expression goes through [idx] /
   [slice] (Panic out of range); nil pointer dereference is Panic; loops that
   are not over a list take [fuel].  Log calls (logger.ConvertLog.Warnf) have no
   observable result and are not modelled.  Go nil and empty slices / strings
   are both []. *)
From NV Require Import Lib.Base C13.GoStd.
Open Scope N_scope.

(* ---- github.com/free5gc/openapi/models (only the fields the code reads) ---- *)

(* Sst is an int32: it is represented by its 32-bit two's-complement pattern
   (0 .. 2^32-1); the only operation on it is the conversion uint8(Sst). *)
Record Snssai := mkSnssai { Sst : N; Sd : bytes }.
Record MappingOfSnssai := mkMapping { ServingSnssai : option Snssai; HomeSnssai : option Snssai }.
Record PlmnId := mkPlmnId { Mcc : bytes; Mnc : bytes }.
(* Tai.PlmnId is a *PlmnId: None = nil *)
Record Tai := mkTai { TaiPlmnId : option PlmnId; Tac : bytes }.
Record UpuData := mkUpuData { SecPacket : bytes; DefaultConfNssai : list Snssai }.
Record UpuInfo := mkUpuInfo {
  UpuDataList : list UpuData; UpuRegInd : bool; UpuAckInd : bool;
  UpuMacIausf : bytes; CounterUpu : bytes }.

(* if b, err := hex.DecodeString(s); err != nil { log } else { use b } *)
Definition hex_or_nil (s : bytes) : bytes :=
  let r := hex_DecodeString s in if snd r then fst r else [].

Definition is_nil (s : bytes) : bool := match s with [] => true | _ => false end.

(* ---------------------------------------------------------------- Snssai.go *)

(* nasSnssai *nasType.SNSSAI is { Len uint8; Octet [8]uint8 }; GetSST = Octet[0],
   GetSD = Octet[1:4].  [octet] has 8 elements (fixed-size array). *)
Definition SnssaiToModels (len : N) (octet : bytes) : outcome Snssai :=
  sd <- (if len =? 4 then s <- slice octet 1 4 ;; Ok (hex_EncodeToString s) else Ok []) ;;
  sst <- idx octet 0 ;;
  Ok (mkSnssai sst sd).

Definition SnssaiToNas (snssai : Snssai) : bytes :=
  if is_nil (Sd snssai) then [1; u8 (Sst snssai)]
  else [4; u8 (Sst snssai)] ++ hex_or_nil (Sd snssai).

(* (0x01<<4)+rejectCause is uint8 arithmetic *)
Definition RejectedSnssaiToNas (snssai : Snssai) (rejectCause : N) : bytes :=
  if is_nil (Sd snssai) then [u8 (N.shiftl 1 4 + rejectCause); u8 (Sst snssai)]
  else [u8 (N.shiftl 4 4 + rejectCause); u8 (Sst snssai)] ++ hex_or_nil (Sd snssai).

(* ----------------------------------------------------------------- Nssai.go *)

Definition snssaiToModels (lengthOfSnssaiContents : N) (buf : bytes) : outcome MappingOfSnssai :=
  if (N.of_nat (length buf) <? lengthOfSnssaiContents + 1) then Err
  else
    match lengthOfSnssaiContents with
    | 1 =>
        b1 <- idx buf 1 ;;
        Ok (mkMapping (Some (mkSnssai b1 [])) None)
    | 2 =>
        b1 <- idx buf 1 ;; b2 <- idx buf 2 ;;
        Ok (mkMapping (Some (mkSnssai b1 [])) (Some (mkSnssai b2 [])))
    | 4 =>
        b1 <- idx buf 1 ;; sd <- slice buf 2 5 ;;
        Ok (mkMapping (Some (mkSnssai b1 (hex_EncodeToString sd))) None)
    | 5 =>
        b1 <- idx buf 1 ;; sd <- slice buf 2 5 ;; b5 <- idx buf 5 ;;
        Ok (mkMapping (Some (mkSnssai b1 (hex_EncodeToString sd))) (Some (mkSnssai b5 [])))
    | 8 =>
        b1 <- idx buf 1 ;; sd <- slice buf 2 5 ;; b5 <- idx buf 5 ;; sd2 <- slice buf 6 9 ;;
        Ok (mkMapping (Some (mkSnssai b1 (hex_EncodeToString sd)))
                      (Some (mkSnssai b5 (hex_EncodeToString sd2))))
    | _ => Err
    end.

(* for offset < lengthOfBuf { ... offset += int(lengthOfSnssaiContents + 1) }  -- the
   addition is uint8 (wraps at 256).  On an error Go returns nil, so the
   accumulated list is built on the way back. *)
Fixpoint RequestedNssaiToModels_loop (fuel : nat) (buf : bytes) (lengthOfBuf offset : nat)
  : outcome (list MappingOfSnssai) :=
  match fuel with
  | O => OutOfFuel
  | S fuel' =>
      if Nat.ltb offset lengthOfBuf then
        l <- idx buf offset ;;
        sub <- slice_from buf offset ;;
        s <- snssaiToModels l sub ;;
        r <- RequestedNssaiToModels_loop fuel' buf lengthOfBuf (offset + N.to_nat (u8 (l + 1))) ;;
        Ok (s :: r)
      else Ok []
  end.

(* nasNssai *nasType.RequestedNSSAI is { Len uint8; Buffer []uint8 }: GetLen and
   GetSNSSAIValue (a copy of Buffer). *)
Definition RequestedNssaiToModels_fuel (fuel : nat) (len : N) (buffer : bytes) :=
  RequestedNssaiToModels_loop fuel buffer (N.to_nat len) 0.
Definition RequestedNssaiToModels (len : N) (buffer : bytes) :=
  RequestedNssaiToModels_fuel (S (length buffer)) len buffer.

(* result: (Len, Buffer) of the nasType.RejectedNSSAI.  SetLen(uint8(len)) makes a
   zeroed Buffer of that many octets, SetRejectedNSSAIContents copies
   min(len(Buffer), len(byteArray)) = Len octets into it. *)
Definition RejectedNssaiToNas (inPlmn inTa : list Snssai) : N * bytes :=
  let byteArray := flat_map (fun s => RejectedSnssaiToNas s 0) inPlmn
                   ++ flat_map (fun s => RejectedSnssaiToNas s 1) inTa in
  let l := len8 byteArray in
  (l, firstn (N.to_nat l) byteArray).

(* ---------------------------------------------------------------- PlmnId.go *)

Definition atoi_or (dflt : N) (c : N) : N :=
  match atoi_byte c with Some v => v | None => dflt end.

Definition PlmnIDToNas (plmnID : PlmnId) : outcome bytes :=
  c0 <- idx (Mcc plmnID) 0 ;; let mccDigit1 := atoi_or 0 c0 in
  c1 <- idx (Mcc plmnID) 1 ;; let mccDigit2 := atoi_or 0 c1 in
  c2 <- idx (Mcc plmnID) 2 ;; let mccDigit3 := atoi_or 0 c2 in
  n0 <- idx (Mnc plmnID) 0 ;; let mncDigit1 := atoi_or 0 n0 in
  n1 <- idx (Mnc plmnID) 1 ;; let mncDigit2 := atoi_or 0 n1 in
  mncDigit3 <- (if Nat.eqb (length (Mnc plmnID)) 3
                then n2 <- idx (Mnc plmnID) 2 ;; Ok (atoi_or 15 n2) else Ok 15) ;;
  Ok [u8 (N.lor (N.shiftl mccDigit2 4) mccDigit1);
      u8 (N.lor (N.shiftl mncDigit3 4) mccDigit3);
      u8 (N.lor (N.shiftl mncDigit2 4) mncDigit1)].

(* --------------------------------------------------------------- TaiList.go *)

Definition plmn_eqb (a b : PlmnId) : bool :=
  eqb_bytes (Mcc a) (Mcc b) && eqb_bytes (Mnc a) (Mnc b).

(* reflect.DeepEqual on two *PlmnId: both nil, or both non-nil with deeply equal pointees *)
Definition DeepEqual_plmn (a b : option PlmnId) : bool :=
  match a, b with
  | None, None => true
  | Some x, Some y => plmn_eqb x y
  | _, _ => false
  end.

Definition deref {A} (p : option A) : outcome A :=
  match p with Some x => Ok x | None => Panic end.

Fixpoint TaiListToNas_type2 (taiList : list Tai) : outcome bytes :=
  match taiList with
  | [] => Ok []
  | tai :: t =>
      p <- deref (TaiPlmnId tai) ;;
      plmnNas <- PlmnIDToNas p ;;
      let r := hex_DecodeString (Tac tai) in
      rest <- TaiListToNas_type2 t ;;
      Ok ((if snd r then plmnNas ++ fst r else []) ++ rest)
  end.

Definition TaiListToNas (taiList : list Tai) : outcome bytes :=
  match taiList with
  | [] => Panic                                   (* taiList[0] *)
  | tai0 :: _ =>
      let plmnId := TaiPlmnId tai0 in
      let typeOfList :=
        fold_left (fun ty tai => if negb (DeepEqual_plmn plmnId (TaiPlmnId tai)) then 2 else ty)
                  taiList 0 in
      let numOfElementsNas := u8 (len8 taiList + 255) in       (* uint8(len) - 1 *)
      let hdr := u8 (u8 (N.shiftl typeOfList 5) + numOfElementsNas) in
      match typeOfList with
      | 0 =>
          p <- deref plmnId ;;
          plmnNas <- PlmnIDToNas p ;;
          Ok (hdr :: plmnNas ++ flat_map (fun tai => hex_or_nil (Tac tai)) taiList)
      | 2 =>
          body <- TaiListToNas_type2 taiList ;;
          Ok (hdr :: body)
      | _ => Ok [hdr]
      end
  end.

(* ------------------------------------------------------- ServiceAreaList.go *)

(* "ALLOWED_AREAS" *)
Definition RestrictionType_ALLOWED_AREAS : bytes := [65;76;76;79;87;69;68;95;65;82;69;65;83].

(* serviceAreaRestriction is passed as its RestrictionType string and, for
   Areas, the list of each area's Tacs (the other fields are not read). *)
Definition PartialServiceAreaListToNas (plmnID : PlmnId) (restrictionType : bytes)
           (areas : list (list bytes)) : outcome bytes :=
  let allowedType := if eqb_bytes restrictionType RestrictionType_ALLOWED_AREAS then 0 else 1 in
  plmnIDNas <- PlmnIDToNas plmnID ;;
  let st := fold_left (fun (st : bytes * N) tac =>
                         let r := hex_DecodeString tac in
                         if snd r then (fst st ++ fst r, u8 (snd st + 1)) else st)
                      (concat areas) ([], 0) in
  let numOfElements := if 0 <? snd st then snd st - 1 else snd st in
  let hdr := u8 (N.land (u8 (N.shiftl allowedType 7)) 128 + N.land numOfElements 31) in
  Ok (hdr :: plmnIDNas ++ fst st).

(* ------------------------------------------------------------------ Ladn.go *)

Fixpoint LadnToModels_loop (fuel : nat) (buf : bytes) (bufOffset : nat) : outcome (list bytes) :=
  match fuel with
  | O => OutOfFuel
  | S fuel' =>
      if Nat.ltb bufOffset (length buf) then
        l <- idx buf bufOffset ;;
        let lenOfDnn := N.to_nat l in
        let bufOffset1 := S bufOffset in
        if Nat.ltb (length buf) (bufOffset1 + lenOfDnn) then Ok []        (* break *)
        else
          dnn <- slice buf bufOffset1 (bufOffset1 + lenOfDnn) ;;
          r <- LadnToModels_loop fuel' buf (bufOffset1 + lenOfDnn) ;;
          Ok (dnn :: r)
      else Ok []
  end.
Definition LadnToModels_fuel (fuel : nat) (buf : bytes) := LadnToModels_loop fuel buf 0.
Definition LadnToModels (buf : bytes) := LadnToModels_fuel (S (length buf)) buf.

Definition LadnToNas (dnn : bytes) (taiLists : list Tai) : outcome bytes :=
  taiListNas <- TaiListToNas taiLists ;;
  Ok (len8 dnn :: dnn ++ len8 taiListNas :: taiListNas).

(* --------------------------------------------------- UESecurityCapability.go *)

(* returns nea, nia, eea, eia, each a [2]byte *)
Definition UESecurityCapabilityToByteArray (buf : bytes) : outcome (bytes * bytes * bytes * bytes) :=
  if Nat.ltb (length buf) 2 then Ok ([0;0], [0;0], [0;0], [0;0])
  else
    b0 <- idx buf 0 ;; b1 <- idx buf 1 ;;
    eea <- (if Nat.ltb 2 (length buf) then b2 <- idx buf 2 ;; Ok (u8 (N.shiftl b2 1)) else Ok 0) ;;
    eia <- (if Nat.ltb 3 (length buf) then b3 <- idx buf 3 ;; Ok (u8 (N.shiftl b3 1)) else Ok 0) ;;
    Ok ([u8 (N.shiftl b0 1); 0], [u8 (N.shiftl b1 1); 0], [eea; 0], [eia; 0]).

(* --------------------------------------------------------------- UPUInfo.go *)

Definition upuInfoGetHeader (reg ack : bool) : N :=
  let regValue := if reg then 1 else 0 in
  let ackValue := if ack then 1 else 0 in
  u8 (u8 (N.shiftl regValue 2) + u8 (N.shiftl ackValue 1)).

(* the inner test is [err != nil] on the OUTER err (nil in that branch), so the
   counter octets decoded before any problem are appended unconditionally *)
Definition UpuInfoToNas (upuInfo : UpuInfo) : bytes :=
  let hdr := upuInfoGetHeader (UpuRegInd upuInfo) (UpuAckInd upuInfo) in
  let r := hex_DecodeString (UpuMacIausf upuInfo) in
  let mac := if snd r then fst r ++ fst (hex_DecodeString (CounterUpu upuInfo)) else [] in
  let item (data : UpuData) : bytes :=
    if negb (is_nil (SecPacket data)) then
      let byteArray := hex_or_nil (SecPacket data) in
      1 :: len8 byteArray :: byteArray
    else
      let byteArray := flat_map SnssaiToNas (DefaultConfNssai data) in
      2 :: len8 byteArray :: byteArray in
  hdr :: mac ++ flat_map item (UpuDataList upuInfo).

Definition UpuAckToModels (buf : bytes) : outcome bytes :=
  if negb (Nat.eqb (length buf) 17) then Err
  else
    b0 <- idx buf 0 ;;
    if negb (b0 =? 1) then Err
    else s <- slice_from buf 1 ;; Ok (hex_EncodeToString s).

(* ------------------------------------------------------- nasType/NAS_DNN.go *)

Definition fqdnToRfc1035 (fqdn : bytes) : outcome bytes :=
  let domainSegments := strings_Split_dot fqdn in
  if existsb (fun seg => Nat.ltb 62 (length seg)) domainSegments then Err
  else
    let rr := flat_map (fun seg => len8 seg :: seg) domainSegments in
    if Nat.ltb 100 (length rr) then Err else Ok rr.

(* bytes.Buffer: ReadByte fails at the end; Next(n) returns min(n, Len) octets *)
Fixpoint rfc1035tofqdn_loop (fuel : nat) (rest : bytes) : outcome bytes :=
  match fuel with
  | O => OutOfFuel
  | S fuel' =>
      match rest with
      | [] => Ok []
      | labelLen :: t =>
          let n := N.to_nat labelLen in
          r <- rfc1035tofqdn_loop fuel' (skipn n t) ;;
          Ok (firstn n t ++ [46] ++ r)
      end
  end.

Definition rfc1035tofqdn_fuel (fuel : nat) (rfc1035RR : bytes) : outcome bytes :=
  fqdn <- rfc1035tofqdn_loop fuel rfc1035RR ;;
  if Nat.eqb (length fqdn) 0 then Ok fqdn
  else slice fqdn 0 (length fqdn - 1).
Definition rfc1035tofqdn (rfc1035RR : bytes) := rfc1035tofqdn_fuel (S (length rfc1035RR)) rfc1035RR.

(* (a *DNN) GetDNN() on a DNN whose Buffer is [buffer] *)
Definition DNN_GetDNN (buffer : bytes) : outcome bytes := rfc1035tofqdn buffer.

(* (a *DNN) SetDNN(s) on a zero DNN: resulting (Len, Buffer); unchanged on error *)
Definition DNN_SetDNN (dNN : bytes) : N * bytes :=
  match fqdnToRfc1035 dNN with
  | Ok b => (len8 b, b)
  | _ => (0, [])
  end.
