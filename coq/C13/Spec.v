(* C13: independent decoders written from the standards (TS 24.501 9.11.2.8,
   9.11.3.9, 9.11.3.29, 9.11.3.30, 9.11.3.37, 9.11.3.46, 9.11.3.49; TS 24.008
   10.5.1.3), not from the Go code.  They work on abstract values: decimal
   digits, 24-bit numbers, raw octet strings.  The second part says what the
   text fields of the models.* structures denote (hex text = a number, "208" =
   three digits) -- again without reference to the code.  Only the record types
   of C13/Model.v are used here, none of its functions. *)
From NV Require Import Lib.Base C13.Model.
Open Scope N_scope.

Definition be24 (a b c : N) : N := a * 65536 + b * 256 + c.

(* ------------------------------------------------------------------------ *)
(* S-NSSAI value, 9.11.2.8: length 1 = SST; 2 = SST, mapped SST; 4 = SST, SD;
   5 = SST, SD, mapped SST; 8 = SST, SD, mapped SST, mapped SD; all other
   lengths are reserved. *)
Record s_nssai := mk_s_nssai { sst : N; sd : option N; msst : option N; msd : option N }.

Definition spec_snssai_value (contents : bytes) : option s_nssai :=
  match contents with
  | [s] => Some (mk_s_nssai s None None None)
  | [s; m] => Some (mk_s_nssai s None (Some m) None)
  | [s; a; b; c] => Some (mk_s_nssai s (Some (be24 a b c)) None None)
  | [s; a; b; c; m] => Some (mk_s_nssai s (Some (be24 a b c)) (Some m) None)
  | [s; a; b; c; m; d; e; f] => Some (mk_s_nssai s (Some (be24 a b c)) (Some m) (Some (be24 d e f)))
  | _ => None
  end.

(* NSSAI contents, 9.11.3.37: a sequence of (length octet, S-NSSAI value) *)
Fixpoint spec_nssai_fuel (fuel : nat) (bs : bytes) : option (list s_nssai) :=
  match fuel with
  | O => None
  | S f =>
      match bs with
      | [] => Some []
      | l :: rest =>
          if Nat.ltb (length rest) (N.to_nat l) then None
          else match spec_snssai_value (firstn (N.to_nat l) rest) with
               | None => None
               | Some v => option_map (cons v) (spec_nssai_fuel f (skipn (N.to_nat l) rest))
               end
      end
  end.
Definition spec_nssai (bs : bytes) : option (list s_nssai) := spec_nssai_fuel (S (length bs)) bs.

(* the layout read the other way: one S-NSSAI as length octet + value *)
Definition b24 (v : N) : bytes := [v / 65536; (v / 256) mod 256; v mod 256].
Definition spec_snssai_octets (v : s_nssai) : bytes :=
  let body := sst v :: match sd v with Some x => b24 x | None => [] end
                    ++ match msst v with Some m => [m] | None => [] end
                    ++ match msd v with Some x => b24 x | None => [] end in
  N.of_nat (length body) :: body.

(* the five shapes of the standard, every field within its width *)
Definition opt_lt (o : option N) (bound : N) : bool :=
  match o with Some x => x <? bound | None => true end.
Definition s_nssai_ok (v : s_nssai) : bool :=
  (sst v <? 256) && opt_lt (sd v) 16777216 && opt_lt (msst v) 256 && opt_lt (msd v) 16777216
  && match sd v, msst v, msd v with
     | _, _, None => true                       (* lengths 1, 2, 4, 5 *)
     | Some _, Some _, Some _ => true           (* length 8 *)
     | _, _, _ => false
     end.

(* rejected NSSAI contents, 9.11.3.46: each entry = (length << 4 | cause), SST [, SD] *)
Record rejected := mk_rejected { r_sst : N; r_sd : option N; r_cause : N }.

Fixpoint spec_rejected_fuel (fuel : nat) (bs : bytes) : option (list rejected) :=
  match fuel with
  | O => None
  | S f =>
      match bs with
      | [] => Some []
      | h :: rest =>
          let l := N.to_nat (h / 16) in
          let cause := h mod 16 in
          if Nat.ltb (length rest) l then None
          else match firstn l rest with
               | [s] => option_map (cons (mk_rejected s None cause)) (spec_rejected_fuel f (skipn l rest))
               | [s; a; b; c] =>
                   option_map (cons (mk_rejected s (Some (be24 a b c)) cause)) (spec_rejected_fuel f (skipn l rest))
               | _ => None
               end
      end
  end.
Definition spec_rejected (bs : bytes) := spec_rejected_fuel (S (length bs)) bs.

(* ------------------------------------------------------------------------ *)
(* PLMN, TS 24.008 10.5.1.3: octet 1 = MCC digit 2 | MCC digit 1, octet 2 =
   MNC digit 3 | MCC digit 3, octet 3 = MNC digit 2 | MNC digit 1; MNC digit 3
   = 1111 for a two-digit MNC. *)
Record plmn := mk_plmn { mcc1 : N; mcc2 : N; mcc3 : N; mnc1 : N; mnc2 : N; mnc3 : option N }.

Definition spec_plmn (o1 o2 o3 : N) : plmn :=
  mk_plmn (o1 mod 16) (o1 / 16) (o2 mod 16) (o3 mod 16) (o3 / 16)
          (if o2 / 16 =? 15 then None else Some (o2 / 16)).

Definition tai := (plmn * N)%type.          (* PLMN, 24-bit TAC *)

(* number-of-elements field: 0..15 stand for 1..16 elements, the unused values
   are to be read as 16 *)
Definition spec_count (field : N) : nat := if field <=? 15 then S (N.to_nat field) else 16%nat.

(* n TACs of three octets *)
Fixpoint take_tacs (n : nat) (bs : bytes) : option (list N * bytes) :=
  match n with
  | O => Some ([], bs)
  | S k => match bs with
           | a :: b :: c :: t =>
               match take_tacs k t with Some (l, r) => Some (be24 a b c :: l, r) | None => None end
           | _ => None
           end
  end.
(* n TAIs of six octets *)
Fixpoint take_tais (n : nat) (bs : bytes) : option (list tai * bytes) :=
  match n with
  | O => Some ([], bs)
  | S k => match bs with
           | p1 :: p2 :: p3 :: a :: b :: c :: t =>
               match take_tais k t with
               | Some (l, r) => Some ((spec_plmn p1 p2 p3, be24 a b c) :: l, r)
               | None => None
               end
           | _ => None
           end
  end.

(* 5GS tracking area identity list, 9.11.3.9: partial lists; type 00 = one PLMN
   and non-consecutive TACs, 01 = one PLMN, first TAC of a consecutive run,
   10 = TAIs of different PLMNs; 11 reserved *)
Inductive tai_partial :=
| TL_list (p : plmn) (tacs : list N)
| TL_consec (p : plmn) (tac : N) (n : nat)
| TL_tais (l : list tai).

Fixpoint spec_tai_list_fuel (fuel : nat) (bs : bytes) : option (list tai_partial) :=
  match fuel with
  | O => None
  | S f =>
      match bs with
      | [] => Some []
      | h :: rest =>
          let n := spec_count (h mod 32) in
          match (h / 32) mod 4, rest with
          | 0, p1 :: p2 :: p3 :: t =>
              match take_tacs n t with
              | Some (tacs, r) => option_map (cons (TL_list (spec_plmn p1 p2 p3) tacs)) (spec_tai_list_fuel f r)
              | None => None
              end
          | 1, p1 :: p2 :: p3 :: a :: b :: c :: r =>
              option_map (cons (TL_consec (spec_plmn p1 p2 p3) (be24 a b c) n)) (spec_tai_list_fuel f r)
          | 2, t =>
              match take_tais n t with
              | Some (l, r) => option_map (cons (TL_tais l)) (spec_tai_list_fuel f r)
              | None => None
              end
          | _, _ => None
          end
      end
  end.
Definition spec_tai_list (bs : bytes) := spec_tai_list_fuel (S (length bs)) bs.

Definition partial_tais (p : tai_partial) : list tai :=
  match p with
  | TL_list pl tacs => map (fun t => (pl, t)) tacs
  | TL_consec pl tac n => map (fun i => (pl, tac + N.of_nat i)) (seq 0 n)
  | TL_tais l => l
  end.

(* service area list, 9.11.3.49: as above plus the allowed-type bit (bit 8:
   0 = the TAIs are in the allowed area, 1 = in the non-allowed area) and type
   11 = all TAIs of the PLMN *)
Inductive sa_partial :=
| SA_list (nonallowed : bool) (p : plmn) (tacs : list N)
| SA_consec (nonallowed : bool) (p : plmn) (tac : N) (n : nat)
| SA_tais (nonallowed : bool) (l : list tai)
| SA_all (nonallowed : bool) (p : plmn).

Fixpoint spec_service_area_fuel (fuel : nat) (bs : bytes) : option (list sa_partial) :=
  match fuel with
  | O => None
  | S f =>
      match bs with
      | [] => Some []
      | h :: rest =>
          let n := spec_count (h mod 32) in
          let na := (h / 128) mod 2 =? 1 in
          match (h / 32) mod 4, rest with
          | 0, p1 :: p2 :: p3 :: t =>
              match take_tacs n t with
              | Some (tacs, r) => option_map (cons (SA_list na (spec_plmn p1 p2 p3) tacs)) (spec_service_area_fuel f r)
              | None => None
              end
          | 1, p1 :: p2 :: p3 :: a :: b :: c :: r =>
              option_map (cons (SA_consec na (spec_plmn p1 p2 p3) (be24 a b c) n)) (spec_service_area_fuel f r)
          | 2, t =>
              match take_tais n t with
              | Some (l, r) => option_map (cons (SA_tais na l)) (spec_service_area_fuel f r)
              | None => None
              end
          | 3, p1 :: p2 :: p3 :: r =>
              option_map (cons (SA_all na (spec_plmn p1 p2 p3))) (spec_service_area_fuel f r)
          | _, _ => None
          end
      end
  end.
Definition spec_service_area (bs : bytes) := spec_service_area_fuel (S (length bs)) bs.

(* ------------------------------------------------------------------------ *)
(* LADN indication, 9.11.3.29: a sequence of (length octet, DNN value) *)
Fixpoint spec_ladn_indication_fuel (fuel : nat) (bs : bytes) : option (list bytes) :=
  match fuel with
  | O => None
  | S f =>
      match bs with
      | [] => Some []
      | l :: rest =>
          if Nat.ltb (length rest) (N.to_nat l) then None
          else option_map (cons (firstn (N.to_nat l) rest))
                          (spec_ladn_indication_fuel f (skipn (N.to_nat l) rest))
      end
  end.
Definition spec_ladn_indication (bs : bytes) := spec_ladn_indication_fuel (S (length bs)) bs.

(* the same reading, keeping the complete entries before the first overrun *)
Fixpoint spec_ladn_indication_prefix_fuel (fuel : nat) (bs : bytes) : list bytes :=
  match fuel with
  | O => []
  | S f =>
      match bs with
      | [] => []
      | l :: rest =>
          if Nat.ltb (length rest) (N.to_nat l) then []
          else firstn (N.to_nat l) rest :: spec_ladn_indication_prefix_fuel f (skipn (N.to_nat l) rest)
      end
  end.
Definition spec_ladn_indication_prefix (bs : bytes) := spec_ladn_indication_prefix_fuel (S (length bs)) bs.

(* LADN information, 9.11.3.30: a sequence of (DNN length, DNN value, length of
   the 5GS TAI list, 5GS TAI list contents) *)
Fixpoint spec_ladn_info_fuel (fuel : nat) (bs : bytes) : option (list (bytes * list tai_partial)) :=
  match fuel with
  | O => None
  | S f =>
      match bs with
      | [] => Some []
      | l :: rest =>
          if Nat.ltb (length rest) (N.to_nat l) then None
          else
            let dnn := firstn (N.to_nat l) rest in
            match skipn (N.to_nat l) rest with
            | [] => None
            | tl :: rest2 =>
                if Nat.ltb (length rest2) (N.to_nat tl) then None
                else match spec_tai_list (firstn (N.to_nat tl) rest2) with
                     | None => None
                     | Some ps => option_map (cons (dnn, ps)) (spec_ladn_info_fuel f (skipn (N.to_nat tl) rest2))
                     end
            end
      end
  end.
Definition spec_ladn_info (bs : bytes) := spec_ladn_info_fuel (S (length bs)) bs.

(* DNN value as labels (TS 23.003 9.1, RFC 1035): (length, label)*, read as
   dot-separated text; None when a label overruns *)
Fixpoint spec_labels_fuel (fuel : nat) (bs : bytes) : option (list bytes) :=
  match fuel with
  | O => None
  | S f =>
      match bs with
      | [] => Some []
      | l :: rest =>
          if Nat.ltb (length rest) (N.to_nat l) then None
          else option_map (cons (firstn (N.to_nat l) rest)) (spec_labels_fuel f (skipn (N.to_nat l) rest))
      end
  end.
Fixpoint join_dot (ls : list bytes) : bytes :=
  match ls with
  | [] => []
  | [l] => l
  | l :: t => l ++ 46 :: join_dot t
  end.

(* ======================================================================== *)
(* What the text fields of the models.* structures denote                    *)

Fixpoint index_of (c : N) (l : list N) (i : N) : option N :=
  match l with
  | [] => None
  | x :: t => if c =? x then Some i else index_of c t (i + 1)
  end.

(* "0123456789abcdef" and "0123456789ABCDEF" *)
Definition lower_digits : list N := [48;49;50;51;52;53;54;55;56;57;97;98;99;100;101;102].
Definition upper_digits : list N := [48;49;50;51;52;53;54;55;56;57;65;66;67;68;69;70].

Definition hexdigit_val (c : N) : option N :=
  match index_of c lower_digits 0 with
  | Some d => Some d
  | None => index_of c upper_digits 0
  end.

(* the number a hexadecimal text denotes *)
Fixpoint hex_val_acc (s : bytes) (acc : N) : option N :=
  match s with
  | [] => Some acc
  | c :: t => match hexdigit_val c with
              | Some d => hex_val_acc t (acc * 16 + d)
              | None => None
              end
  end.
Definition hex_val (s : bytes) : option N := hex_val_acc s 0.

(* a 24-bit field (SD, TAC) is written as exactly six hexadecimal digits *)
Definition text24 (s : bytes) : option N := if Nat.eqb (length s) 6 then hex_val s else None.

(* canonical text of a 24-bit number: six lower-case digits, most significant first *)
Definition hex6 (v : N) : bytes :=
  map (fun i => nth (N.to_nat ((v / 16 ^ i) mod 16)) lower_digits 0) [5; 4; 3; 2; 1; 0].

Definition digit_of_char (c : N) : option N :=
  if (48 <=? c) && (c <=? 57) then Some (c - 48) else None.

(* "208"/"93" or "466"/"092": three MCC digits, two or three MNC digits *)
Definition abs_plmn (p : PlmnId) : option plmn :=
  match map digit_of_char (Mcc p), map digit_of_char (Mnc p) with
  | [Some a; Some b; Some c], [Some d; Some e] => Some (mk_plmn a b c d e None)
  | [Some a; Some b; Some c], [Some d; Some e; Some f] => Some (mk_plmn a b c d e (Some f))
  | _, _ => None
  end.

Definition abs_tai (t : Tai) : option tai :=
  match TaiPlmnId t with
  | Some p => match abs_plmn p, text24 (Tac t) with
              | Some pl, Some tac => Some (pl, tac)
              | _, _ => None
              end
  | None => None
  end.

(* Sd: absent ("") or six hexadecimal digits; Sst 0..255 *)
Definition abs_sd (s : bytes) : option (option N) :=
  match s with [] => Some None | _ => option_map Some (text24 s) end.
Definition abs_snssai (s : Snssai) : option (N * option N) :=
  if Sst s <? 256 then option_map (pair (Sst s)) (abs_sd (Sd s)) else None.

(* all elements of a list denote something *)
Fixpoint opt_all {A} (l : list (option A)) : option (list A) :=
  match l with
  | [] => Some []
  | Some x :: t => option_map (cons x) (opt_all t)
  | None :: _ => None
  end.

(* the models.* value a decoder is expected to return for an abstract value
   (canonical text: lower-case, absent field = "") *)
Definition conc_snssai (sst : N) (sd : option N) : Snssai :=
  mkSnssai sst (match sd with Some v => hex6 v | None => [] end).
Definition conc_mapping (v : s_nssai) : MappingOfSnssai :=
  mkMapping (Some (conc_snssai (sst v) (sd v)))
            (match msst v with Some m => Some (conc_snssai m (msd v)) | None => None end).
