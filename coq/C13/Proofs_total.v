(* C13 / C14: LADN indication decoder, totality of the helpers fed with UE-supplied octets *)
From NV Require Import Lib.Base Lib.Bits C13.GoStd C13.Model C13.Spec C13.Proofs_text C13.Proofs_nssai.
From Coq Require Import ZifyN ZifyNat ZifyBool.
Open Scope N_scope.
Ltac Zify.zify_post_hook ::= Z.div_mod_to_equations.

Arguments N.modulo : simpl never.
Arguments N.div : simpl never.
Arguments N.add : simpl never.
Arguments N.mul : simpl never.
Arguments N.sub : simpl never.
Arguments N.of_nat : simpl never.
Arguments N.to_nat : simpl never.

(* ---- LadnToModels = the standard's reader (complete entries), for every octet string ---- *)

Lemma slice_app_mid pre r n :
  (n <= length r)%nat -> slice (pre ++ r) (length pre) (length pre + n) = Ok (firstn n r).
Proof.
  intro H. unfold slice. rewrite app_length.
  replace (Nat.leb (length pre) (length pre + n) && Nat.leb (length pre + n) (length pre + length r))%bool
    with true by (symmetry; apply andb_true_iff; split; apply Nat.leb_le; lia).
  rewrite skipn_app, skipn_all, Nat.sub_diag. cbn [app skipn].
  replace (length pre + n - length pre)%nat with n by lia. reflexivity.
Qed.

Lemma slice_after_len pre L r n :
  (n <= length r)%nat -> slice (pre ++ L :: r) (S (length pre)) (S (length pre) + n) = Ok (firstn n r).
Proof.
  intro H. replace (pre ++ L :: r) with ((pre ++ [L]) ++ r) by (rewrite <- app_assoc; reflexivity).
  replace (S (length pre)) with (length (pre ++ [L])) by (rewrite app_length; cbn; lia).
  apply slice_app_mid. assumption.
Qed.

Lemma LadnToModels_loop_spec fuel : forall pre rest,
  (length rest < fuel)%nat ->
  LadnToModels_loop fuel (pre ++ rest) (length pre) = Ok (spec_ladn_indication_prefix_fuel fuel rest).
Proof.
  induction fuel as [|f IH]; intros pre rest Hf; [lia|].
  cbn [LadnToModels_loop spec_ladn_indication_prefix_fuel].
  destruct rest as [|L r].
  - rewrite app_nil_r, Nat.ltb_irrefl. reflexivity.
  - replace (Nat.ltb (length pre) (length (pre ++ L :: r))) with true
      by (symmetry; apply Nat.ltb_lt; rewrite app_length; cbn [length]; lia).
    rewrite idx_app_mid. cbn [obind].
    replace (Nat.ltb (length (pre ++ L :: r)) (S (length pre) + N.to_nat L))
      with (Nat.ltb (length r) (N.to_nat L)).
    2:{ rewrite app_length. cbn [length].
        destruct (Nat.ltb_spec (length r) (N.to_nat L)), (Nat.ltb_spec (length pre + S (length r)) (S (length pre) + N.to_nat L)); lia. }
    destruct (Nat.ltb (length r) (N.to_nat L)) eqn:E; [reflexivity|].
    apply Nat.ltb_ge in E.
    rewrite slice_after_len by assumption. cbn [obind].
    replace (pre ++ L :: r) with ((pre ++ L :: firstn (N.to_nat L) r) ++ skipn (N.to_nat L) r)
      by (rewrite <- !app_assoc; cbn [app]; rewrite firstn_skipn; reflexivity).
    replace (S (length pre) + N.to_nat L)%nat with (length (pre ++ L :: firstn (N.to_nat L) r))
      by (rewrite !app_length; cbn [length]; rewrite firstn_length_le by assumption; lia).
    cbn [length] in Hf.
    rewrite IH by (rewrite skipn_length; lia). reflexivity.
Qed.

Lemma spec_ladn_prefix_fuel_irrel f : forall f' bs,
  (length bs < f)%nat -> (length bs < f')%nat ->
  spec_ladn_indication_prefix_fuel f bs = spec_ladn_indication_prefix_fuel f' bs.
Proof.
  induction f as [|f IH]; intros f' bs H1 H2; [lia|]. destruct f' as [|f']; [lia|].
  cbn [spec_ladn_indication_prefix_fuel]. destruct bs as [|l rest]; [reflexivity|].
  destruct (Nat.ltb (length rest) (N.to_nat l)); [reflexivity|].
  f_equal. cbn [length] in *. apply IH; rewrite skipn_length; lia.
Qed.

Theorem LadnToModels_eq_spec fuel bs :
  (length bs < fuel)%nat -> LadnToModels_fuel fuel bs = Ok (spec_ladn_indication_prefix bs).
Proof.
  intro H. unfold LadnToModels_fuel, spec_ladn_indication_prefix.
  change (LadnToModels_loop fuel bs 0) with (LadnToModels_loop fuel ([] ++ bs) (length (@nil N))).
  rewrite (LadnToModels_loop_spec fuel [] bs H). f_equal.
  apply spec_ladn_prefix_fuel_irrel; lia.
Qed.

Lemma spec_ladn_prefix_unfold f l rest :
  spec_ladn_indication_prefix_fuel (S f) (l :: rest) =
  if Nat.ltb (length rest) (N.to_nat l) then []
  else firstn (N.to_nat l) rest :: spec_ladn_indication_prefix_fuel f (skipn (N.to_nat l) rest).
Proof. reflexivity. Qed.

Definition ladn_indication_octets (dnns : list bytes) : bytes :=
  flat_map (fun d => N.of_nat (length d) :: d) dnns.

Lemma spec_ladn_prefix_roundtrip dnns :
  Forall (fun d => (length d <= 255)%nat) dnns ->
  spec_ladn_indication_prefix (ladn_indication_octets dnns) = dnns.
Proof.
  induction dnns as [|d dnns IH]; intro H; [reflexivity|].
  inversion H; subst. unfold spec_ladn_indication_prefix, ladn_indication_octets in *.
  cbn [flat_map app]. rewrite spec_ladn_prefix_unfold. rewrite Nat2N.id.
  replace (Nat.ltb (length (d ++ flat_map (fun d0 => N.of_nat (length d0) :: d0) dnns)) (length d)) with false
    by (symmetry; apply Nat.ltb_ge; rewrite app_length; lia).
  rewrite firstn_app_exact, skipn_app_exact. f_equal.
  etransitivity; [|apply IH; assumption].
  apply spec_ladn_prefix_fuel_irrel; cbn [length]; rewrite ?app_length; lia.
Qed.

(* the strict reader of 9.11.3.29 agrees with the lenient one whenever it accepts *)
Lemma spec_ladn_strict_prefix f : forall bs l,
  spec_ladn_indication_fuel f bs = Some l -> spec_ladn_indication_prefix_fuel f bs = l.
Proof.
  induction f as [|f IH]; intros bs l H; [discriminate|].
  cbn [spec_ladn_indication_fuel spec_ladn_indication_prefix_fuel] in *.
  destruct bs as [|x rest]; [inversion H; reflexivity|].
  destruct (Nat.ltb (length rest) (N.to_nat x)); [discriminate|].
  destruct (spec_ladn_indication_fuel f (skipn (N.to_nat x) rest)) as [l'|] eqn:E; [|discriminate].
  cbn in H. inversion H; subst. f_equal. apply IH. assumption.
Qed.

Theorem LadnToModels_roundtrip dnns :
  Forall (fun d => (length d <= 255)%nat) dnns ->
  LadnToModels (ladn_indication_octets dnns) = Ok dnns.
Proof.
  intro H. unfold LadnToModels. rewrite LadnToModels_eq_spec by lia.
  rewrite spec_ladn_prefix_roundtrip by assumption. reflexivity.
Qed.

Theorem LadnToModels_accepts_spec bs l :
  spec_ladn_indication bs = Some l -> LadnToModels bs = Ok l.
Proof.
  intro H. unfold LadnToModels. rewrite LadnToModels_eq_spec by lia.
  f_equal. apply spec_ladn_strict_prefix. exact H.
Qed.

Theorem total_LadnToModels bs fuel : (length bs + 1 <= fuel)%nat -> is_total (LadnToModels_fuel fuel bs).
Proof. intro H. rewrite LadnToModels_eq_spec by lia. exact I. Qed.

(* ---- UESecurityCapabilityToByteArray ---- *)

Lemma idx_lt l i : (i < length l)%nat -> exists b, idx l i = Ok b.
Proof.
  intro H. unfold idx. destruct (nth_error l i) eqn:E; eauto.
  apply nth_error_None in E. lia.
Qed.

Lemma total_UESecurityCapabilityToByteArray bs : is_total (UESecurityCapabilityToByteArray bs).
Proof.
  unfold UESecurityCapabilityToByteArray.
  destruct (Nat.ltb (length bs) 2) eqn:E2; [exact I|].
  apply Nat.ltb_ge in E2.
  destruct (idx_lt bs 0) as [b0 ->]; [lia|].
  destruct (idx_lt bs 1) as [b1 ->]; [lia|]. cbn [obind].
  destruct (Nat.ltb 2 (length bs)) eqn:E3.
  - apply Nat.ltb_lt in E3. destruct (idx_lt bs 2) as [b2 ->]; [lia|]. cbn [obind].
    destruct (Nat.ltb 3 (length bs)) eqn:E4.
    + apply Nat.ltb_lt in E4. destruct (idx_lt bs 3) as [b3 ->]; [lia|]. exact I.
    + exact I.
  - cbn [obind]. destruct (Nat.ltb 3 (length bs)) eqn:E4.
    + apply Nat.ltb_lt in E4. apply Nat.ltb_ge in E3. lia.
    + exact I.
Qed.

(* ---- RequestedNssaiToModels never panics when Len <= len(Buffer) ---- *)

Lemma snssaiToModels_total l buf :
  match snssaiToModels l buf with
  | Ok _ => 1 <= l <= 8
  | Err => True
  | _ => False
  end.
Proof.
  destruct (N.eq_dec l 1) as [->|N1]; [|destruct (N.eq_dec l 2) as [->|N2];
    [|destruct (N.eq_dec l 4) as [->|N4]; [|destruct (N.eq_dec l 5) as [->|N5];
    [|destruct (N.eq_dec l 8) as [->|N8]]]]].
  6:{ rewrite snssaiToModels_default by assumption. exact I. }
  all: unfold snssaiToModels;
    destruct buf as [|b0 [|b1 [|b2 [|b3 [|b4 [|b5 [|b6 [|b7 [|b8 buf]]]]]]]]];
    try exact I; cbn [length];
    match goal with
    | |- context [N.of_nat ?n <? ?k] =>
        destruct (N.ltb_spec (N.of_nat n) k) as [Hlt|Hge]; [exact I|]
    end; try lia; cbn; lia.
Qed.

Lemma slice_from_ok buf off : (off <= length buf)%nat -> slice_from buf off = Ok (skipn off buf).
Proof.
  intro H. unfold slice_from, slice.
  replace (Nat.leb off (length buf) && Nat.leb (length buf) (length buf))%bool with true
    by (symmetry; apply andb_true_iff; split; apply Nat.leb_le; lia).
  rewrite <- skipn_length, firstn_all. reflexivity.
Qed.

Lemma RequestedNssaiToModels_loop_total buf lenBuf fuel : forall off,
  (lenBuf <= length buf)%nat -> (lenBuf - off < fuel)%nat ->
  is_total (RequestedNssaiToModels_loop fuel buf lenBuf off).
Proof.
  induction fuel as [|f IH]; intros off Hl Hf; [lia|].
  cbn [RequestedNssaiToModels_loop].
  destruct (Nat.ltb off lenBuf) eqn:E; [|exact I]. apply Nat.ltb_lt in E.
  destruct (idx_lt buf off) as [l ->]; [lia|]. cbn [obind].
  rewrite slice_from_ok by lia. cbn [obind].
  pose proof (snssaiToModels_total l (skipn off buf)) as Ht.
  destruct (snssaiToModels l (skipn off buf)) as [s| | |]; try contradiction; [|exact I].
  cbn [obind].
  assert (Hi : is_total (RequestedNssaiToModels_loop f buf lenBuf (off + N.to_nat (u8 (l + 1)))))
    by (apply IH; [assumption|unfold u8; lia]).
  destruct (RequestedNssaiToModels_loop f buf lenBuf (off + N.to_nat (u8 (l + 1)))); try contradiction; exact I.
Qed.

Theorem total_RequestedNssaiToModels len buffer fuel :
  (N.to_nat len <= length buffer)%nat -> (length buffer + 1 <= fuel)%nat ->
  is_total (RequestedNssaiToModels_fuel fuel len buffer).
Proof.
  intros H Hf. unfold RequestedNssaiToModels_fuel. apply RequestedNssaiToModels_loop_total; lia.
Qed.

(* ---- UpuAckToModels ---- *)

Theorem total_UpuAckToModels bs : is_total (UpuAckToModels bs).
Proof.
  unfold UpuAckToModels. destruct (Nat.eqb (length bs) 17) eqn:E; cbn [negb]; [|exact I].
  apply Nat.eqb_eq in E. destruct (idx_lt bs 0) as [b0 ->]; [lia|]. cbn [obind].
  destruct (b0 =? 1); cbn [negb]; [|exact I].
  rewrite slice_from_ok by lia. exact I.
Qed.

Theorem UpuAckToModels_value bs :
  UpuAckToModels bs = match bs with
                      | 1 :: t => if Nat.eqb (length t) 16 then Ok (hex_EncodeToString t) else Err
                      | _ => Err
                      end.
Proof.
  unfold UpuAckToModels. destruct bs as [|b0 t]; [reflexivity|].
  cbn [length]. change (Nat.eqb (S (length t)) 17) with (Nat.eqb (length t) 16).
  destruct (Nat.eqb (length t) 16) eqn:E; cbn [negb].
  - cbn [idx nth_error obind]. destruct (N.eqb_spec b0 1) as [->|Hn]; cbn [negb].
    + rewrite slice_from_ok by (cbn; lia). reflexivity.
    + destruct b0 as [|[p|p|]]; try reflexivity. congruence.
  - destruct b0 as [|[p|p|]]; reflexivity.
Qed.

(* ---- nasType.DNN.GetDNN / rfc1035tofqdn ---- *)

Lemma rfc1035tofqdn_loop_ok fuel : forall rest, (length rest < fuel)%nat ->
  exists r, rfc1035tofqdn_loop fuel rest = Ok r.
Proof.
  induction fuel as [|f IH]; intros rest H; [lia|].
  cbn [rfc1035tofqdn_loop]. destruct rest as [|l t]; [eexists; reflexivity|].
  cbn [length] in H. destruct (IH (skipn (N.to_nat l) t)) as [r ->]; [rewrite skipn_length; lia|].
  eexists; reflexivity.
Qed.

Theorem total_rfc1035tofqdn bs fuel : (length bs + 1 <= fuel)%nat -> is_total (rfc1035tofqdn_fuel fuel bs).
Proof.
  intro H. unfold rfc1035tofqdn_fuel. destruct (rfc1035tofqdn_loop_ok fuel bs) as [r ->]; [lia|].
  cbn [obind]. destruct (Nat.eqb (length r) 0) eqn:E; [exact I|].
  unfold slice. replace (Nat.leb 0 (length r - 1) && Nat.leb (length r - 1) (length r))%bool with true
    by (symmetry; apply andb_true_iff; split; apply Nat.leb_le; lia).
  exact I.
Qed.

(* ---- SnssaiToModels on any Len / Octet ---- *)
Theorem total_SnssaiToModels len octet : length octet = 8%nat -> is_total (SnssaiToModels len octet).
Proof. intro H. destruct (SnssaiToModels_total len octet H) as [s ->]. exact I. Qed.
