(* C13 correspondence: calls observed on the Go implementation, replayed on the model. *)
From NV Require Import Lib.Base C13.GoStd C13.Model.
Open Scope N_scope.

Inductive call :=
| CSnssaiToModels (len : N) (octet : bytes)
| CSnssaiToNas (s : Snssai)
| CRejectedSnssaiToNas (s : Snssai) (cause : N)
| CRequestedNssaiToModels (len : N) (buffer : bytes)
| CRejectedNssaiToNas (inPlmn inTa : list Snssai)
| CPlmnIDToNas (p : PlmnId)
| CTaiListToNas (l : list Tai)
| CPartialServiceAreaListToNas (p : PlmnId) (restrictionType : bytes) (areas : list (list bytes))
| CLadnToModels (buf : bytes)
| CLadnToNas (dnn : bytes) (l : list Tai)
| CUESecurityCapabilityToByteArray (buf : bytes)
| CUpuInfoToNas (u : UpuInfo)
| CUpuAckToModels (buf : bytes)
| CGetDNN (buffer : bytes)
| CSetDNN (s : bytes).

(* projected observables: result class and returned values, never error texts *)
Inductive obs :=
| OBytes (b : bytes)                 (* []byte or string result *)
| OStrs (l : list bytes)             (* []string *)
| OSnssai (s : Snssai)
| OMappings (l : list MappingOfSnssai)
| OLenBuf (len : N) (buf : bytes)    (* Len and Buffer of a nasType value *)
| OCaps (nea nia eea eia : bytes)
| OErr
| OPanic
| OHang.

Definition of_outcome {A} (f : A -> obs) (o : outcome A) : obs :=
  match o with Ok a => f a | Err => OErr | Panic => OPanic | OutOfFuel => OHang end.

Definition run_call (c : call) : obs :=
  match c with
  | CSnssaiToModels len octet => of_outcome OSnssai (SnssaiToModels len octet)
  | CSnssaiToNas s => OBytes (SnssaiToNas s)
  | CRejectedSnssaiToNas s cause => OBytes (RejectedSnssaiToNas s cause)
  | CRequestedNssaiToModels len buffer => of_outcome OMappings (RequestedNssaiToModels len buffer)
  | CRejectedNssaiToNas a b => let r := RejectedNssaiToNas a b in OLenBuf (fst r) (snd r)
  | CPlmnIDToNas p => of_outcome OBytes (PlmnIDToNas p)
  | CTaiListToNas l => of_outcome OBytes (TaiListToNas l)
  | CPartialServiceAreaListToNas p rt areas => of_outcome OBytes (PartialServiceAreaListToNas p rt areas)
  | CLadnToModels buf => of_outcome OStrs (LadnToModels buf)
  | CLadnToNas dnn l => of_outcome OBytes (LadnToNas dnn l)
  | CUESecurityCapabilityToByteArray buf =>
      of_outcome (fun r => let '(a, b, c, d) := r in OCaps a b c d) (UESecurityCapabilityToByteArray buf)
  | CUpuInfoToNas u => OBytes (UpuInfoToNas u)
  | CUpuAckToModels buf => of_outcome OBytes (UpuAckToModels buf)
  | CGetDNN buffer => of_outcome OBytes (DNN_GetDNN buffer)
  | CSetDNN s => let r := DNN_SetDNN s in OLenBuf (fst r) (snd r)
  end.

Definition snssai_eqb (a b : Snssai) : bool := (Sst a =? Sst b) && eqb_bytes (Sd a) (Sd b).
Definition opt_eqb {A} (e : A -> A -> bool) (a b : option A) : bool :=
  match a, b with Some x, Some y => e x y | None, None => true | _, _ => false end.
Definition mapping_eqb (a b : MappingOfSnssai) : bool :=
  opt_eqb snssai_eqb (ServingSnssai a) (ServingSnssai b) && opt_eqb snssai_eqb (HomeSnssai a) (HomeSnssai b).

Definition obs_eqb (a b : obs) : bool :=
  match a, b with
  | OBytes x, OBytes y => eqb_bytes x y
  | OStrs x, OStrs y => eqb_list eqb_bytes x y
  | OSnssai x, OSnssai y => snssai_eqb x y
  | OMappings x, OMappings y => eqb_list mapping_eqb x y
  | OLenBuf l x, OLenBuf m y => (l =? m) && eqb_bytes x y
  | OCaps a1 b1 c1 d1, OCaps a2 b2 c2 d2 =>
      eqb_bytes a1 a2 && eqb_bytes b1 b2 && eqb_bytes c1 c2 && eqb_bytes d1 d2
  | OErr, OErr => true
  | OPanic, OPanic => true
  | OHang, OHang => true
  | _, _ => false
  end.

(* a case: id, the call, the result observed on the Go implementation *)
Definition case := (N * call * obs)%type.

Definition case_ok (c : case) : bool :=
  let '(_, cl, o) := c in obs_eqb (run_call cl) o.

Definition mismatches (cs : list case) : list N :=
  map (fun c => fst (fst c)) (filter (fun c => negb (case_ok c)) cs).
