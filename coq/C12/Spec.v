(* C12/Spec.v -- the identities of TS 24.501 9.11.3.4 (5GS mobile identity),
   TS 24.008 10.5.1.3 (PLMN digit order) and TS 23.003 (AMF identifier, 5G-GUTI,
   5G-S-TMSI, SUCI), written from the standards' figures and NOT from the Go code:
   abstract values, their octet layout ("wire") and their text form.

   Octet numbering: wire lists start at octet 4 of the information element
   (the octet carrying the type of identity), i.e. they are the IE *contents*
   without IEI and length, as nasConvert / nasType.MobileIdentity5GS.Buffer see them.
   Bit 8 is the most significant bit of an octet, so "bits 8-5 = a, bits 4-1 = b"
   is the number a*16+b.

   Text forms: 3GPP defines the digits / bit fields; the concatenated strings
   are conventions of free5gc and of the 5GC OpenAPI (TS 29.571 / TS 29.503):
     plmn  = MCC digits ++ MNC digits            (free5gc: models.PlmnId.Mcc ++ .Mnc)
     amfid = 6 lower-case hex digits of the 24-bit AMF Identifier    (TS 29.571 AmfId)
     guti  = plmn ++ amfid ++ 8 hex digits of the 5G-TMSI            (free5gc convention)
     stmsi = 12 hex digits of <AMF Set ID><AMF Pointer><5G-TMSI>     (free5gc convention)
     suci  = "suci-0-<mcc>-<mnc>-<routing indicator>-<scheme>-<key id>-<scheme output>"  (TS 29.503 Suci pattern)
     nai   = "nai-1-" ++ hex of the NAI octets                       (free5gc convention, not 3GPP)
     pei   = "imei-<digits>" / "imeisv-<digits>"                     (TS 29.571 Pei)
   Upper-case hex digits are accepted on input (hex is case-insensitive), output is lower case. *)
From NV Require Import Lib.Base.
Open Scope N_scope.

(* ---------------------------------------------------------------- characters *)
Definition dchar (d : N) : N := 48 + d.                              (* '0'+d, d < 10 *)
Definition hchar (d : N) : N := if d <? 10 then 48 + d else 97 + (d - 10).  (* lower-case hex digit, d < 16 *)

Definition dval (c : N) : option N :=
  if (48 <=? c) && (c <=? 57) then Some (c - 48) else None.
(* value of a hex digit of either case *)
Definition hval (c : N) : option N :=
  match dval c with
  | Some d => Some d
  | None => if (97 <=? c) && (c <=? 102) then Some (c - 97 + 10)
            else if (65 <=? c) && (c <=? 70) then Some (c - 65 + 10) else None
  end.

Definition decs (l : list N) : Prop := Forall (fun d => d < 10) l.

(* n hex digits of v, most significant first *)
Fixpoint hex_text (n : nat) (v : N) : bytes :=
  match n with O => [] | S k => hex_text k (v / 16) ++ [hchar (v mod 16)] end.

(* n octets of v, most significant first *)
Fixpoint be_octets (n : nat) (v : N) : bytes :=
  match n with O => [] | S k => be_octets k (v / 256) ++ [v mod 256] end.

(* hex text of an octet string: two digits per octet *)
Definition hex_of_octets (l : bytes) : bytes := flat_map (hex_text 2) l.

(* decimal text (no leading zeros) of a number below 10000 *)
Definition dec_text (n : N) : bytes :=
  if n <? 10 then [dchar n]
  else if n <? 100 then [dchar (n / 10); dchar (n mod 10)]
  else if n <? 1000 then [dchar (n / 100); dchar ((n / 10) mod 10); dchar (n mod 10)]
  else [dchar (n / 1000); dchar ((n / 100) mod 10); dchar ((n / 10) mod 10); dchar (n mod 10)].

(* value of a string of hex digits (either case); None if a character is not a hex digit *)
Fixpoint parse_hex_acc (s : bytes) (acc : N) : option N :=
  match s with
  | [] => Some acc
  | c :: t => match hval c with Some d => parse_hex_acc t (acc * 16 + d) | None => None end
  end.
Definition parse_hex (s : bytes) : option N := parse_hex_acc s 0.

Fixpoint parse_decs (s : bytes) : option (list N) :=
  match s with
  | [] => Some []
  | c :: t => match dval c, parse_decs t with Some d, Some l => Some (d :: l) | _, _ => None end
  end.

(* ---------------------------------------------------------------- PLMN (TS 24.008 10.5.1.3, TS 23.003 2.2)
     octet 1:  MCC digit 2 | MCC digit 1
     octet 2:  MNC digit 3 | MCC digit 3      (MNC digit 3 = 1111 for a 2-digit MNC)
     octet 3:  MNC digit 2 | MNC digit 1 *)
Record plmn := { mcc1 : N; mcc2 : N; mcc3 : N; mnc1 : N; mnc2 : N; mnc3 : option N }.

Definition plmn_ok (p : plmn) : Prop :=
  mcc1 p < 10 /\ mcc2 p < 10 /\ mcc3 p < 10 /\ mnc1 p < 10 /\ mnc2 p < 10 /\
  match mnc3 p with Some d => d < 10 | None => True end.

Definition mnc3_nibble (p : plmn) : N := match mnc3 p with Some d => d | None => 15 end.

Definition plmn_wire (p : plmn) : bytes :=
  [mcc2 p * 16 + mcc1 p; mnc3_nibble p * 16 + mcc3 p; mnc2 p * 16 + mnc1 p].

Definition mcc_text (p : plmn) : bytes := [dchar (mcc1 p); dchar (mcc2 p); dchar (mcc3 p)].
Definition mnc_text (p : plmn) : bytes :=
  [dchar (mnc1 p); dchar (mnc2 p)] ++ match mnc3 p with Some d => [dchar d] | None => [] end.
Definition plmn_text (p : plmn) : bytes := mcc_text p ++ mnc_text p.

Definition plmn_of_digits (l : list N) : option plmn :=
  match l with
  | [a; b; c; d; e] => Some {| mcc1 := a; mcc2 := b; mcc3 := c; mnc1 := d; mnc2 := e; mnc3 := None |}
  | [a; b; c; d; e; f] => Some {| mcc1 := a; mcc2 := b; mcc3 := c; mnc1 := d; mnc2 := e; mnc3 := Some f |}
  | _ => None
  end.

(* ---------------------------------------------------------------- AMF Identifier (TS 23.003 2.10.1)
   24 bits = AMF Region ID (8) || AMF Set ID (10) || AMF Pointer (6) *)
Record amfid := { region : N; set : N; pointer : N }.
Definition amf_ok (a : amfid) : Prop := region a < 2 ^ 8 /\ set a < 2 ^ 10 /\ pointer a < 2 ^ 6.
Definition amf_value (a : amfid) : N := region a * 2 ^ 16 + set a * 2 ^ 6 + pointer a.
Definition amf_of_value (v : N) : amfid :=
  {| region := v / 2 ^ 16; set := (v / 2 ^ 6) mod 2 ^ 10; pointer := v mod 2 ^ 6 |}.
Definition amf_octets (a : amfid) : bytes := be_octets 3 (amf_value a).
Definition amf_text (a : amfid) : bytes := hex_text 6 (amf_value a).
Definition parse_amf_text (s : bytes) : option amfid :=
  if Nat.eqb (length s) 6 then option_map amf_of_value (parse_hex s) else None.

(* ---------------------------------------------------------------- 5G-GUTI (TS 24.501 Figure 9.11.3.4.1)
     octet 4    : 1 1 1 1 | 0 | type of identity = 010
     octets 5-7 : PLMN
     octet 8    : AMF Region ID
     octet 9    : AMF Set ID (bits 10-3)
     octet 10   : AMF Set ID (bits 2-1) | AMF Pointer
     octets 11-14 : 5G-TMSI *)
Record guti := { g_plmn : plmn; g_amf : amfid; g_tmsi : N }.
Definition guti_ok (g : guti) : Prop := plmn_ok (g_plmn g) /\ amf_ok (g_amf g) /\ g_tmsi g < 2 ^ 32.
Definition guti_wire (g : guti) : bytes :=
  [242] ++ plmn_wire (g_plmn g) ++ amf_octets (g_amf g) ++ be_octets 4 (g_tmsi g).
Definition guti_text (g : guti) : bytes :=
  plmn_text (g_plmn g) ++ amf_text (g_amf g) ++ hex_text 8 (g_tmsi g).

(* grammar of the text: 19 characters (2-digit MNC) or 20 (3-digit MNC) *)
Definition parse_guti_text (s : bytes) : option guti :=
  let n := length s in
  if Nat.eqb n 19 || Nat.eqb n 20 then
    let nd := (n - 14)%nat in
    match parse_decs (firstn nd s) with
    | Some ds =>
        match plmn_of_digits ds, parse_amf_text (firstn 6 (skipn nd s)), parse_hex (skipn (nd + 6) s) with
        | Some p, Some a, Some t => Some {| g_plmn := p; g_amf := a; g_tmsi := t |}
        | _, _, _ => None
        end
    | None => None
    end
  else None.

(* ---------------------------------------------------------------- 5G-S-TMSI (Figure 9.11.3.4.5; TS 23.003 2.11)
     octet 4 : 1 1 1 1 | 0 | 100 ; octet 5 : Set ID (bits 10-3) ; octet 6 : Set ID (bits 2-1) | Pointer ; octets 7-10 : 5G-TMSI
   5G-S-TMSI = <AMF Set ID (10)><AMF Pointer (6)><5G-TMSI (32)>, 48 bits *)
Record stmsi := { t_set : N; t_pointer : N; t_tmsi : N }.
Definition stmsi_ok (t : stmsi) : Prop := t_set t < 2 ^ 10 /\ t_pointer t < 2 ^ 6 /\ t_tmsi t < 2 ^ 32.
Definition stmsi_value (t : stmsi) : N := t_set t * 2 ^ 38 + t_pointer t * 2 ^ 32 + t_tmsi t.
Definition stmsi_wire (t : stmsi) : bytes := [244] ++ be_octets 6 (stmsi_value t).
Definition stmsi_text (t : stmsi) : bytes := hex_text 12 (stmsi_value t).

(* ---------------------------------------------------------------- BCD digit strings
   two digits per octet, digit p in bits 4-1 and digit p+1 in bits 8-5; an odd
   number of digits is completed with the end mark 1111 *)
Fixpoint bcd (ds : list N) : bytes :=
  match ds with
  | [] => []
  | [a] => [15 * 16 + a]
  | a :: b :: t => (b * 16 + a) :: bcd t
  end.

(* ---------------------------------------------------------------- SUCI, SUPI format IMSI (Figure 9.11.3.4.3)
     octet 4  : 0 | SUPI format = 000 | 0 | type of identity = 001
     octets 5-7 : PLMN
     octet 8  : routing indicator digit 2 | digit 1
     octet 9  : routing indicator digit 4 | digit 3     (absent digits = 1111; 1 to 4 digits)
     octet 10 : 0 0 0 0 | protection scheme id
     octet 11 : home network public key identifier
     octets 12.. : scheme output; for the null scheme (id 0) the MSIN in BCD *)
Record suci := { s_plmn : plmn; s_ri : list N; s_scheme : N; s_hnpki : N;
                 s_msin : list N;     (* null scheme *)
                 s_out : bytes }.     (* other schemes *)
Definition suci_ok (s : suci) : Prop :=
  plmn_ok (s_plmn s) /\ decs (s_ri s) /\ (1 <= length (s_ri s) <= 4)%nat /\
  s_scheme s < 16 /\ s_hnpki s < 256 /\
  (if s_scheme s =? 0 then decs (s_msin s) /\ (1 <= length (s_msin s))%nat
   else bytes_ok (s_out s) /\ (1 <= length (s_out s))%nat).

Definition ri_octets (ri : list N) : bytes :=
  let d := fun i => nth i ri 15 in [d 1%nat * 16 + d 0%nat; d 3%nat * 16 + d 2%nat].

Definition suci_wire (s : suci) : bytes :=
  [1] ++ plmn_wire (s_plmn s) ++ ri_octets (s_ri s) ++ [s_scheme s; s_hnpki s] ++
  (if s_scheme s =? 0 then bcd (s_msin s) else s_out s).

Definition t_suci0 : bytes := [115; 117; 99; 105; 45; 48; 45].    (* "suci-0-" *)
Definition t_dash : bytes := [45].
Definition suci_text (s : suci) : bytes :=
  t_suci0 ++ mcc_text (s_plmn s) ++ t_dash ++ mnc_text (s_plmn s) ++ t_dash ++ map dchar (s_ri s) ++ t_dash ++
  [hchar (s_scheme s)] ++ t_dash ++ dec_text (s_hnpki s) ++ t_dash ++
  (if s_scheme s =? 0 then map dchar (s_msin s) else hex_of_octets (s_out s)).

(* SUCI, SUPI format NAI (Figure 9.11.3.4.4): octet 4 = 0 | 001 | 0 | 001, then the NAI octets *)
Definition nai_wire (nai : bytes) : bytes := 17 :: nai.
Definition t_nai1 : bytes := [110; 97; 105; 45; 49; 45].          (* "nai-1-" *)
Definition nai_text (nai : bytes) : bytes := t_nai1 ++ hex_of_octets nai.

(* ---------------------------------------------------------------- IMEI / IMEISV (Figure 9.11.3.4.2; TS 23.003 6.2)
     octet 4 : identity digit 1 | odd/even indication | type of identity (011 IMEI, 101 IMEISV)
     octet 5.. : identity digit p+1 | identity digit p ; an even number of digits ends with 1111 in bits 8-5
   odd/even indication = 1 for an odd number of digits.  IMEI: 15 digits, IMEISV: 16 digits. *)
Definition pei_wire (typ : N) (ds : list N) : bytes :=
  match ds with
  | [] => []
  | d1 :: t => (d1 * 16 + (N.of_nat (length ds) mod 2) * 8 + typ) :: bcd t
  end.
Definition t_imei : bytes := [105; 109; 101; 105; 45].             (* "imei-" *)
Definition t_imeisv : bytes := [105; 109; 101; 105; 115; 118; 45]. (* "imeisv-" *)
Definition pei_text (typ : N) (ds : list N) : bytes :=
  (if typ =? 3 then t_imei else t_imeisv) ++ map dchar ds.
