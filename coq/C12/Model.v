(* C12/Model.v -- hand-written executable model of
     /repo/nasConvert/MobileIdentity5GS.go, PlmnId.go, AmfId.go,
     the text getters of /repo/nasType/NAS_MobileIdentity5GS.go,
     NAS_TMSI5GS.go (Get5GSTMSI, AMFSetID/AMFPointer accessors) and the
     NAS_GUTI5G.go accessors used by GutiToNasWithError.
   Same function names as the Go text, statement by statement.  Go uint8/uint16
   arithmetic wraps explicitly; every index / slice expression goes through
   [idx] / [slice] (Panic when out of range).  Error texts and log output are
   not modelled. *)
From NV Require Import Lib.Base C12.GoStd.
Open Scope N_scope.

(* ---- Go integer operators at their types ---- *)
Definition u8 (x : N) : N := x mod 256.
Definition u16 (x : N) : N := x mod 65536.
Definition shl8 (x k : N) : N := u8 (N.shiftl x k).
Definition shl16 (x k : N) : N := u16 (N.shiftl x k).
Definition add8 (x y : N) : N := u8 (x + y).
Definition add16 (x y : N) : N := u16 (x + y).
(* uint8(i) for an int i *)
Definition u8_of_int (z : Z) : N := Z.to_N (z mod 256).

(* ---- string literals ---- *)
Definition s_suci : bytes := [115; 117; 99; 105].        (* "suci" *)
Definition s_nai : bytes := [110; 97; 105].              (* "nai" *)
Definition s_0 : bytes := [48].                          (* "0" *)
Definition s_1 : bytes := [49].                          (* "1" *)
Definition s_f : bytes := [102].                         (* "f" *)
Definition s_dash : bytes := [45].                       (* "-" *)
Definition s_imei_ : bytes := [105; 109; 101; 105; 45].  (* "imei-" *)
Definition s_imeisv_ : bytes := [105; 109; 101; 105; 115; 118; 45]. (* "imeisv-" *)
Definition s_SUCI : bytes := [83; 85; 67; 73].                       (* "SUCI" *)
Definition s_5GGUTI : bytes := [53; 71; 45; 71; 85; 84; 73].         (* "5G-GUTI" *)
Definition s_IMEI : bytes := [73; 77; 69; 73].                       (* "IMEI" *)
Definition s_5GSTMSI : bytes := [53; 71; 45; 83; 45; 84; 77; 83; 73]. (* "5G-S-TMSI" *)
Definition s_IMEISV : bytes := [73; 77; 69; 73; 83; 86].             (* "IMEISV" *)
Definition c_f : N := 102.                                           (* 'f' *)

(* s[len(s)-1] : index -1 on the empty string panics *)
Definition idx_last (s : bytes) : outcome N :=
  match s with [] => Panic | _ => idx s (length s - 1) end.
(* s[:len(s)-1] : slice bound -1 on the empty string panics *)
Definition drop_last (s : bytes) : outcome bytes :=
  match s with [] => Panic | _ => slice s 0 (length s - 1) end.

(* =====================================================================
   nasConvert/AmfId.go
   ===================================================================== *)

Definition AmfIdToNasWithError (amfId : bytes) : outcome (N * N * N) :=
  match hex_DecodeString amfId with
  | Err => Err
  | Panic => Panic
  | OutOfFuel => OutOfFuel
  | Ok amfIdBytes =>
      if negb (Nat.eqb (length amfIdBytes) 3) then Err else
      b0 <- idx amfIdBytes 0 ;;
      let amfRegionId := b0 in
      b1 <- idx amfIdBytes 1 ;;
      b2 <- idx amfIdBytes 2 ;;
      (* uint16(b1)<<2 + (uint16(b2)&0x00c0)>>6 *)
      let amfSetId := add16 (shl16 b1 2) (N.shiftr (N.land b2 192) 6) in
      b2' <- idx amfIdBytes 2 ;;
      let amfPointer := N.land b2' 63 in
      Ok (amfRegionId, amfSetId, amfPointer)
  end.

Definition AmfIdToNas (amfId : bytes) : outcome (N * N * N) :=
  match AmfIdToNasWithError amfId with
  | Err => Ok (0, 0, 0)
  | r => r
  end.

(* []uint8{amfRegionId, uint8(amfSetId>>2) & 0xff, uint8(amfSetId&0x03)<<6 + amfPointer&0x3f} *)
Definition AmfIdToModels (amfRegionId amfSetId amfPointer : N) : bytes :=
  let tmpBytes := [amfRegionId;
                   N.land (u8 (N.shiftr amfSetId 2)) 255;
                   add8 (shl8 (u8 (N.land amfSetId 3)) 6) (N.land amfPointer 63)] in
  hex_EncodeToString tmpBytes.

(* =====================================================================
   nasConvert/PlmnId.go
   ===================================================================== *)

(* if d, err := strconv.Atoi(string(s[i])); err != nil { warn } else { digit = d }  (digit starts at [dflt]) *)
Definition atoi_digit_or (s : bytes) (i : nat) (dflt : Z) : outcome Z :=
  c <- idx s i ;;
  match Atoi (string_of_byte c) with
  | Ok d => Ok d
  | Err => Ok dflt
  | Panic => Panic
  | OutOfFuel => OutOfFuel
  end.

(* Go int |, << on small non-negative ints, then uint8() *)
Definition nib_pack (hi lo : Z) : N := u8_of_int (Z.lor (Z.shiftl hi 4) lo).

Definition PlmnIDToNas (mcc mnc : bytes) : outcome bytes :=
  mccDigit1 <- atoi_digit_or mcc 0 0 ;;
  mccDigit2 <- atoi_digit_or mcc 1 0 ;;
  mccDigit3 <- atoi_digit_or mcc 2 0 ;;
  mncDigit1 <- atoi_digit_or mnc 0 0 ;;
  mncDigit2 <- atoi_digit_or mnc 1 0 ;;
  mncDigit3 <- (if Nat.eqb (length mnc) 3 then atoi_digit_or mnc 2 15 else Ok 15%Z) ;;
  Ok [nib_pack mccDigit2 mccDigit1; nib_pack mncDigit3 mccDigit3; nib_pack mncDigit2 mncDigit1].

Definition PlmnIDToString (nasBuf : bytes) : outcome bytes :=
  n0 <- idx nasBuf 0 ;;
  let mccDigit1 := N.land n0 15 in
  let mccDigit2 := N.shiftr (N.land n0 240) 4 in
  n1 <- idx nasBuf 1 ;;
  let mccDigit3 := N.land n1 15 in
  n2 <- idx nasBuf 2 ;;
  let mncDigit1 := N.land n2 15 in
  let mncDigit2 := N.shiftr (N.land n2 240) 4 in
  let mncDigit3 := N.shiftr (N.land n1 240) 4 in
  let tmpBytes := [N.lor (shl8 mccDigit1 4) mccDigit2;
                   N.lor (shl8 mccDigit3 4) mncDigit1;
                   N.lor (shl8 mncDigit2 4) mncDigit3] in
  let plmnID := hex_EncodeToString tmpBytes in
  c5 <- idx plmnID 5 ;;
  if c5 =? c_f then slice plmnID 0 5 else Ok plmnID.

(* =====================================================================
   nasType/comm_util.go, NAS_GUTI5G.go, NAS_TMSI5GS.go (fixed-size Octet arrays:
   constant indices below the array length cannot panic; [oget] reads)
   ===================================================================== *)

(* bitMask = ((1<<(ub-lb) - 1) << (lb)), all in uint8 *)
Definition GetBitMask (ub lb : N) : N :=
  let d := u8 (ub + 256 - lb) in
  shl8 (u8 (u8 (N.shiftl 1 d) + 255)) lb.

Definition oget (o : bytes) (i : nat) : N := nth i o 0.

Definition GUTI5G_SetSpare2 (o : bytes) (v : N) : bytes :=
  upd o 0 (add8 (N.land (oget o 0) 15) (shl8 (N.land v 15) 4)).
Definition GUTI5G_SetSpare (o : bytes) (v : N) : bytes :=
  upd o 0 (add8 (N.land (oget o 0) 247) (shl8 (N.land v 1) 3)).
Definition GUTI5G_SetTypeOfIdentity (o : bytes) (v : N) : bytes :=
  upd o 0 (add8 (N.land (oget o 0) 248) (N.land v 7)).
Definition GUTI5G_SetMCCDigit2 (o : bytes) (v : N) : bytes :=
  upd o 1 (add8 (N.land (oget o 1) 15) (shl8 (N.land v 15) 4)).
Definition GUTI5G_SetMCCDigit1 (o : bytes) (v : N) : bytes :=
  upd o 1 (add8 (N.land (oget o 1) 240) (N.land v 15)).
Definition GUTI5G_SetMNCDigit3 (o : bytes) (v : N) : bytes :=
  upd o 2 (add8 (N.land (oget o 2) 15) (shl8 (N.land v 15) 4)).
Definition GUTI5G_SetMCCDigit3 (o : bytes) (v : N) : bytes :=
  upd o 2 (add8 (N.land (oget o 2) 240) (N.land v 15)).
Definition GUTI5G_SetMNCDigit2 (o : bytes) (v : N) : bytes :=
  upd o 3 (add8 (N.land (oget o 3) 15) (shl8 (N.land v 15) 4)).
Definition GUTI5G_SetMNCDigit1 (o : bytes) (v : N) : bytes :=
  upd o 3 (add8 (N.land (oget o 3) 240) (N.land v 15)).
Definition GUTI5G_SetAMFRegionID (o : bytes) (v : N) : bytes := upd o 4 v.
(* a.Octet[5] = uint8((aMFSetID)>>2) & 255
   a.Octet[6] = a.Octet[6]&GetBitMask(6, 0) + uint8(aMFSetID&3)<<6 *)
Definition SetAMFSetID_at (i : nat) (o : bytes) (v : N) : bytes :=
  let o1 := upd o i (N.land (u8 (N.shiftr v 2)) 255) in
  upd o1 (S i) (add8 (N.land (oget o1 (S i)) (GetBitMask 6 0)) (shl8 (u8 (N.land v 3)) 6)).
(* a.Octet[6] = (a.Octet[6] & 192) + (aMFPointer & 63) *)
Definition SetAMFPointer_at (i : nat) (o : bytes) (v : N) : bytes :=
  upd o i (add8 (N.land (oget o i) 192) (N.land v 63)).
(* uint16(a.Octet[5])<<2 + uint16((a.Octet[6])&GetBitMask(8, 2))>>6 *)
Definition GetAMFSetID_at (i : nat) (o : bytes) : N :=
  add16 (shl16 (oget o i) 2) (N.shiftr (N.land (oget o (S i)) (GetBitMask 8 2)) 6).
Definition GetAMFPointer_at (i : nat) (o : bytes) : N :=
  N.land (oget o i) (GetBitMask 6 0).

Definition GUTI5G_SetAMFSetID := SetAMFSetID_at 5.
Definition GUTI5G_SetAMFPointer := SetAMFPointer_at 6.
Definition GUTI5G_GetAMFRegionID (o : bytes) : N := oget o 4.
Definition GUTI5G_GetAMFSetID := GetAMFSetID_at 5.
Definition GUTI5G_GetAMFPointer := GetAMFPointer_at 6.
Definition TMSI5GS_SetAMFSetID := SetAMFSetID_at 1.
Definition TMSI5GS_SetAMFPointer := SetAMFPointer_at 2.
Definition TMSI5GS_GetAMFSetID := GetAMFSetID_at 1.
Definition TMSI5GS_GetAMFPointer := GetAMFPointer_at 2.

(* (a *TMSI5GS) Get5GSTMSI: Octet is [7]uint8, the slices are always in range *)
Definition TMSI5GS_Get5GSTMSI (o : bytes) : outcome bytes :=
  p <- slice o 1 3 ;;
  t <- slice o 3 7 ;;
  Ok (hex_EncodeToString p ++ hex_EncodeToString t).

(* =====================================================================
   nasConvert/MobileIdentity5GS.go
   ===================================================================== *)

Definition conv_GetTypeOfIdentity (buf : N) : N := N.land buf 7.

Definition conv_naiToString (buf : bytes) : outcome bytes :=
  if (length buf <? 2)%nat then Err else
  naiBytes <- slice_from buf 1 ;;
  let naiStr := hex_EncodeToString naiBytes in
  Ok (strings_Join [s_nai; s_1; naiStr] s_dash).

Definition NaiToString (buf : bytes) : outcome bytes :=
  match conv_naiToString buf with Err => Ok [] | r => r end.

(* routingInd: hex of the two nibble-swapped octets, cut at the first 'f' *)
Definition routing_ind (b4 b5 : N) : outcome bytes :=
  let routingIndBytes := [RotateLeft8 b4 4; RotateLeft8 b5 4] in
  let routingInd := hex_EncodeToString routingIndBytes in
  let i := strings_Index routingInd s_f in
  if (i =? -1)%Z then Ok routingInd else slice routingInd 0 (Z.to_nat i).

(* the scheme-output part shared by SuciToStringWithError and (a *MobileIdentity5GS) GetSUCI *)
Definition scheme_output (protectionScheme : bytes) (buf : bytes) : outcome bytes :=
  if eqb_bytes protectionScheme s_0 then
    (* for i := 8; i < len(buf); i++ { msinBytes = append(msinBytes, bits.RotateLeft8(buf[i], 4)) } *)
    let msinBytes := map (fun b => RotateLeft8 b 4) (skipn 8 buf) in
    let schemeOutput := hex_EncodeToString msinBytes in
    l <- idx_last schemeOutput ;;
    if l =? c_f then drop_last schemeOutput else Ok schemeOutput
  else
    t <- slice_from buf 8 ;; Ok (hex_EncodeToString t).

Definition mcc_text (b1 b2 : N) : outcome bytes :=
  let mccDigit3 := N.land b2 15 in
  let tmpBytes := [RotateLeft8 b1 4; shl8 mccDigit3 4] in
  slice (hex_EncodeToString tmpBytes) 0 3.

Definition mnc_text (b2 b3 : N) : outcome bytes :=
  let mncDigit3 := N.shiftr (N.land b2 240) 4 in
  let tmpBytes := [RotateLeft8 b3 4; shl8 mncDigit3 4] in
  let mnc := hex_EncodeToString tmpBytes in
  c <- idx mnc 2 ;;
  if c =? c_f then slice mnc 0 2 else slice mnc 0 3.

Definition SuciToStringWithError (buf : bytes) : outcome (bytes * bytes) :=
  if (length buf <? 1)%nat then Err else
  b0 <- idx buf 0 ;;
  let supiFormat := N.shiftr (N.land b0 240) 4 in
  if supiFormat =? 1 then
    match conv_naiToString buf with
    | Ok suci => Ok (suci, [])
    | Err => Err | Panic => Panic | OutOfFuel => OutOfFuel
    end
  else
  if (length buf <? 9)%nat then Err else
  b2 <- idx buf 2 ;;
  b1 <- idx buf 1 ;;
  mcc <- mcc_text b1 b2 ;;
  b2' <- idx buf 2 ;;
  b3 <- idx buf 3 ;;
  mnc <- mnc_text b2' b3 ;;
  let plmnId := mcc ++ mnc in
  b4 <- idx buf 4 ;;
  b5 <- idx buf 5 ;;
  routingInd <- routing_ind b4 b5 ;;
  b6 <- idx buf 6 ;;
  let protectionScheme := Sprintf_x b6 in
  b7 <- idx buf 7 ;;
  let homeNetworkPublicKeyIdentifier := Sprintf_d b7 in
  schemeOutput <- scheme_output protectionScheme buf ;;
  let suci := strings_Join [s_suci; s_0; mcc; mnc; routingInd; protectionScheme;
                            homeNetworkPublicKeyIdentifier; schemeOutput] s_dash in
  Ok (suci, plmnId).

Definition SuciToString (buf : bytes) : outcome (bytes * bytes) :=
  match SuciToStringWithError buf with Err => Ok ([], []) | r => r end.

(* result: (guami.PlmnId.Mcc, guami.PlmnId.Mnc, guami.AmfId, guti) *)
Definition GutiToStringWithError (buf : bytes) : outcome (bytes * bytes * bytes * bytes) :=
  if negb (Nat.eqb (length buf) 11) then Err else
  p <- slice buf 1 4 ;;
  plmnID <- PlmnIDToString p ;;
  a <- slice buf 4 7 ;;
  let amfID := hex_EncodeToString a in
  t <- slice_from buf 7 ;;
  let tmsi5G := hex_EncodeToString t in
  mcc <- slice plmnID 0 3 ;;
  mnc <- slice_from plmnID 3 ;;
  Ok (mcc, mnc, amfID, plmnID ++ amfID ++ tmsi5G).

Definition GutiToString (buf : bytes) : outcome (bytes * bytes * bytes * bytes) :=
  match GutiToStringWithError buf with Err => Ok ([], [], [], []) | r => r end.

(* strconv.Atoi(string(guti[i])) with the error returned *)
Definition atoi_at (s : bytes) (i : nat) : outcome Z :=
  c <- idx s i ;; Atoi (string_of_byte c).

(* result: (Iei, Len, Octet[0..10]) of the nasType.GUTI5G value *)
Definition zero11 : bytes := repeat 0 11.

Definition GutiToNasWithError (guti : bytes) : outcome (N * N * bytes) :=
  if negb (Nat.eqb (length guti) 19) && negb (Nat.eqb (length guti) 20) then Err else
  let o := zero11 in
  let o := GUTI5G_SetSpare o 0 in
  let o := GUTI5G_SetSpare2 o 15 in
  let o := GUTI5G_SetTypeOfIdentity o 2 in
  mcc1 <- atoi_at guti 0 ;;
  mcc2 <- atoi_at guti 1 ;;
  mcc3 <- atoi_at guti 2 ;;
  mnc1 <- atoi_at guti 3 ;;
  mnc2 <- atoi_at guti 4 ;;
  r <- (if Nat.eqb (length guti) 20 then
          mnc3 <- atoi_at guti 5 ;;
          amfId <- slice guti 6 12 ;;
          tmsi <- slice_from guti 12 ;;
          Ok (mnc3, amfId, tmsi)
        else
          amfId <- slice guti 5 11 ;;
          tmsi <- slice_from guti 11 ;;
          Ok (15%Z, amfId, tmsi)) ;;
  let '(mnc3, amfId, tmsi) := r in
  let o := GUTI5G_SetMCCDigit1 o (u8_of_int mcc1) in
  let o := GUTI5G_SetMCCDigit2 o (u8_of_int mcc2) in
  let o := GUTI5G_SetMCCDigit3 o (u8_of_int mcc3) in
  let o := GUTI5G_SetMNCDigit1 o (u8_of_int mnc1) in
  let o := GUTI5G_SetMNCDigit2 o (u8_of_int mnc2) in
  let o := GUTI5G_SetMNCDigit3 o (u8_of_int mnc3) in
  a <- AmfIdToNasWithError amfId ;;
  let '(amfRegionId, amfSetId, amfPointer) := a in
  let o := GUTI5G_SetAMFRegionID o amfRegionId in
  let o := GUTI5G_SetAMFSetID o amfSetId in
  let o := GUTI5G_SetAMFPointer o amfPointer in
  tmsiBytes <- hex_DecodeString tmsi ;;
  let o := copy_at o 7 4 tmsiBytes in
  Ok (0, 11, o).

Definition GutiToNas (guti : bytes) : outcome (N * N * bytes) :=
  match GutiToNasWithError guti with Err => Ok (0, 11, zero11) | r => r end.

(* the range loop of PeiToStringWithError / peiToString:
     tmpBytes[len(tmpBytes)-1] += digitP; tmpBytes = append(tmpBytes, digitP1)
   [last] is the current last element of tmpBytes, the earlier ones are final. *)
Fixpoint pei_loop (rest : bytes) (last : N) : bytes :=
  match rest with
  | [] => [last]
  | octet :: t =>
      let digitP := N.land octet 15 in
      let digitP1 := N.land octet 240 in
      add8 last digitP :: pei_loop t digitP1
  end.

(* digits of a PEI: shared by nasConvert.PeiToStringWithError and nasType.peiToString *)
Definition pei_digits (buf : bytes) : outcome bytes :=
  b0 <- idx buf 0 ;;
  let oddIndication := N.shiftr (N.land b0 8) 3 in
  let digit1 := N.land b0 240 in
  rest <- slice_from buf 1 ;;
  let tmpBytes := pei_loop rest digit1 in
  let digitStr := hex_EncodeToString tmpBytes in
  digitStr <- drop_last digitStr ;;
  if oddIndication =? 0 then drop_last digitStr else Ok digitStr.

Definition PeiToStringWithError (buf : bytes) : outcome bytes :=
  if (length buf <? 1)%nat then Err else
  b0 <- idx buf 0 ;;
  let typeOfIdentity := N.land b0 7 in
  let prefix := if typeOfIdentity =? 3 then s_imei_ else s_imeisv_ in
  digitStr <- pei_digits buf ;;
  Ok (prefix ++ digitStr).

Definition PeiToString (buf : bytes) : outcome bytes :=
  match PeiToStringWithError buf with Err => Ok [] | r => r end.

(* =====================================================================
   nasType/NAS_MobileIdentity5GS.go : text getters on a.Buffer (no length guards)
   ===================================================================== *)

(* (string, error): Err = ("", "no identity") *)
Definition MI_GetTypeOfIdentity (buf : bytes) : outcome bytes :=
  b0 <- idx buf 0 ;;
  let idType := N.land b0 7 in
  if idType =? 0 then Err
  else if idType =? 1 then Ok s_SUCI
  else if idType =? 2 then Ok s_5GGUTI
  else if idType =? 3 then Ok s_IMEI
  else if idType =? 4 then Ok s_5GSTMSI
  else if idType =? 5 then Ok s_IMEISV
  else Ok s_SUCI.

(* idType == X && err == nil ; a panic in GetTypeOfIdentity propagates *)
Definition type_is (buf : bytes) (name : bytes) : outcome bool :=
  match MI_GetTypeOfIdentity buf with
  | Ok t => Ok (eqb_bytes t name)
  | Err => Ok false
  | Panic => Panic
  | OutOfFuel => OutOfFuel
  end.

Definition type_naiToString (buf : bytes) : outcome bytes :=
  naiBytes <- slice_from buf 1 ;;
  Ok (strings_Join [s_nai; s_1; hex_EncodeToString naiBytes] s_dash).

Definition type_peiToString (buf : bytes) : outcome bytes := pei_digits buf.

Definition MI_GetMCC (buf : bytes) : outcome bytes :=
  b2 <- idx buf 2 ;;
  b1 <- idx buf 1 ;;
  mcc_text b1 b2.

Definition MI_GetMNC (buf : bytes) : outcome bytes :=
  b2 <- idx buf 2 ;;
  b3 <- idx buf 3 ;;
  mnc_text b2 b3.

Definition MI_GetPlmnID (buf : bytes) : outcome bytes :=
  mcc <- MI_GetMCC buf ;; mnc <- MI_GetMNC buf ;; Ok (mcc ++ mnc).

Definition MI_GetSUCI (buf : bytes) : outcome bytes :=
  is <- type_is buf s_SUCI ;;
  if is then
    b0 <- idx buf 0 ;;
    let supiFormat := N.shiftr (N.land b0 240) 4 in
    if supiFormat =? 1 then type_naiToString buf else
    mcc <- MI_GetMCC buf ;;
    mnc <- MI_GetMNC buf ;;
    b4 <- idx buf 4 ;;
    b5 <- idx buf 5 ;;
    routingInd <- routing_ind b4 b5 ;;
    b6 <- idx buf 6 ;;
    let protectionScheme := Sprintf_x b6 in
    b7 <- idx buf 7 ;;
    let homeNetworkPublicKeyIdentifier := Sprintf_d b7 in
    schemeOutput <- scheme_output protectionScheme buf ;;
    Ok (strings_Join [s_suci; s_0; mcc; mnc; routingInd; protectionScheme;
                      homeNetworkPublicKeyIdentifier; schemeOutput] s_dash)
  else Ok [].

Definition MI_GetAmfID (buf : bytes) : outcome bytes :=
  s <- slice buf 4 7 ;; Ok (hex_EncodeToString s).

Definition MI_GetAmfRegionID (buf : bytes) : outcome bytes :=
  s <- slice buf 4 5 ;; Ok (hex_EncodeToString s).

Definition MI_GetAmfSetID (buf : bytes) : outcome bytes :=
  g <- type_is buf s_5GGUTI ;;
  let amfSetStartPoint := if g then 5%nat else 0%nat in
  s <- type_is buf s_5GSTMSI ;;
  let amfSetStartPoint := if s then 1%nat else amfSetStartPoint in
  x <- idx buf amfSetStartPoint ;;
  y <- idx buf (amfSetStartPoint + 1) ;;
  let amfSetID := add16 (shl16 x 2) (N.shiftr (N.land y (GetBitMask 8 2)) 6) in
  Ok (FormatUint amfSetID 10).

Definition MI_GetAmfPointer (buf : bytes) : outcome bytes :=
  g <- type_is buf s_5GGUTI ;;
  let amfPointerStartPoint := if g then 6%nat else 0%nat in
  s <- type_is buf s_5GSTMSI ;;
  let amfPointerStartPoint := if s then 2%nat else amfPointerStartPoint in
  x <- idx buf amfPointerStartPoint ;;
  let AMFPointer := N.land x (GetBitMask 6 0) in
  Ok (FormatUint AMFPointer 10).

Definition MI_Get5GTMSI (buf : bytes) : outcome bytes :=
  g <- type_is buf s_5GGUTI ;;
  if g then
    t <- slice_from buf 7 ;; Ok (hex_EncodeToString t)
  else
    s <- type_is buf s_5GSTMSI ;;
    if s then
      tmsi5G <- slice buf 3 7 ;;
      t <- slice_from tmsi5G 0 ;;
      Ok (hex_EncodeToString t)
    else Ok [].

Definition MI_Get5GGUTI (buf : bytes) : outcome bytes :=
  mcc <- MI_GetMCC buf ;;
  mnc <- MI_GetMNC buf ;;
  amf <- MI_GetAmfID buf ;;
  tmsi <- MI_Get5GTMSI buf ;;
  Ok (mcc ++ mnc ++ amf ++ tmsi).

Definition MI_GetIMEI (buf : bytes) : outcome bytes :=
  is <- type_is buf s_IMEI ;;
  if is then d <- type_peiToString buf ;; Ok (s_imei_ ++ d) else Ok [].

Definition MI_GetIMEISV (buf : bytes) : outcome bytes :=
  is <- type_is buf s_IMEISV ;;
  if is then d <- type_peiToString buf ;; Ok (s_imeisv_ ++ d) else Ok [].

(* (tMSI5GS, "5G-S-TMSI", nil) *)
Definition MI_Get5GSTMSI (buf : bytes) : outcome (bytes * bytes) :=
  p <- slice buf 1 3 ;;
  let partOfAmfId := hex_EncodeToString p in
  tmsi5g <- MI_Get5GTMSI buf ;;
  Ok (partOfAmfId ++ tmsi5g, s_5GSTMSI).

(* (identity, idType, err); Err = ("", "", err) *)
Definition MI_GetMobileIdentity (buf : bytes) : outcome (bytes * bytes) :=
  idType <- MI_GetTypeOfIdentity buf ;;
  if eqb_bytes idType s_SUCI then v <- MI_GetSUCI buf ;; Ok (v, idType)
  else if eqb_bytes idType s_5GGUTI then v <- MI_Get5GGUTI buf ;; Ok (v, idType)
  else if eqb_bytes idType s_IMEI then v <- MI_GetIMEI buf ;; Ok (v, idType)
  else if eqb_bytes idType s_5GSTMSI then
    (* tmsi5gs, _, err5gs := a.Get5GSTMSI(); return tmsi5gs, idType, err5gs   (err5gs is always nil) *)
    r <- MI_Get5GSTMSI buf ;; Ok (fst r, idType)
  else if eqb_bytes idType s_IMEISV then v <- MI_GetIMEISV buf ;; Ok (v, idType)
  else v <- MI_GetSUCI buf ;; Ok (v, s_SUCI).
