(* C12/GoStd.v -- executable models of the Go standard-library calls made by
   nasConvert/{MobileIdentity5GS,PlmnId,AmfId}.go and the nasType text getters.
   MODELLED, NOT VERIFIED: each definition follows the documented behaviour /
   the Go 1.23 source of the call and is exercised against the real call by the
   "stdlib" stream of the C12 correspondence run (harness/cmd/c12).
   Go strings are [bytes]; error values carry no text ([Err]). *)
From NV Require Import Lib.Base.
Open Scope N_scope.

(* ---- string(b) for b of type byte: a rune conversion, i.e. UTF-8 of U+00bb.
   b < 0x80: one octet; 0x80..0xff: 110000xx 10xxxxxx. *)
Definition string_of_byte (b : N) : bytes :=
  if b <? 128 then [b] else [192 + b / 64; 128 + b mod 64].

(* ---- encoding/hex ---- *)
(* hextable = "0123456789abcdef" *)
Definition hexdigit (n : N) : N := if n <? 10 then 48 + n else 87 + n.

(* hex.EncodeToString: dst[2i] = hextable[v>>4], dst[2i+1] = hextable[v&0x0f] *)
Definition hex_EncodeToString (l : bytes) : bytes :=
  flat_map (fun b => [hexdigit (b / 16); hexdigit (b mod 16)]) l.

(* reverseHexTable: '0'-'9', 'a'-'f', 'A'-'F' *)
Definition fromHexChar (c : N) : option N :=
  if (48 <=? c) && (c <=? 57) then Some (c - 48)
  else if (97 <=? c) && (c <=? 102) then Some (c - 87)
  else if (65 <=? c) && (c <=? 70) then Some (c - 55)
  else None.

(* hex.DecodeString: error (InvalidByteError or ErrLength) unless the length is
   even and every character is a hex digit of either case.  The partial result
   Go returns beside the error is not modelled (every caller drops it). *)
Fixpoint hex_DecodeString (s : bytes) : outcome bytes :=
  match s with
  | [] => Ok []
  | [_] => Err
  | p :: q :: t =>
      match fromHexChar p, fromHexChar q with
      | Some a, Some b => r <- hex_DecodeString t ;; Ok (a * 16 + b :: r)
      | _, _ => Err
      end
  end.

(* ---- strconv ---- *)
Definition is_digit (c : N) : bool := (48 <=? c) && (c <=? 57).

(* digit value in ParseUint: '0'-'9', 'a'-'z' (10..35), 'A'-'Z' (10..35) *)
Definition digit_val (c : N) : option N :=
  if (48 <=? c) && (c <=? 57) then Some (c - 48)
  else if (97 <=? c) && (c <=? 122) then Some (c - 87)
  else if (65 <=? c) && (c <=? 90) then Some (c - 55)
  else None.

(* ParseUint's loop: left to right, the first event wins -- a character that is not a digit of [base]
   (syntax error; no '_' : underscores are only legal with base 0), or a prefix whose value exceeds
   maxVal = 2^bitSize - 1 (range error, raised before the remaining characters are looked at) *)
Inductive uparse := USyntax | URange | UVal (n : N).
Fixpoint parse_uint (base maxVal : N) (s : bytes) (acc : N) : uparse :=
  match s with
  | [] => UVal acc
  | c :: t =>
      match digit_val c with
      | Some d =>
          if d <? base then
            let n := acc * base + d in
            if maxVal <? n then URange else parse_uint base maxVal t n
          else USyntax
      | None => USyntax
      end
  end.

(* strconv.ParseInt(s, base, bitSize) for an explicit base 2..36 (base 0 with
   its prefixes/underscores is not modelled: [Panic] marks "outside the model").
   Err = *NumError (syntax or range); the clamped value Go returns with a range
   error is not modelled.  ParseInt drops ParseUint's range error and re-checks the clamped
   value maxVal against cutoff = 2^(bitSize-1): always out of range, except for bitSize 1 and a
   minus sign, where maxVal = cutoff = 1 and Go returns -1 with a nil error (observed by the
   correspondence run: ParseInt("-5a8b3", 10, 1) = -1, nil). *)
Definition ParseInt (s : bytes) (base bitSize : N) : outcome Z :=
  if (base <? 2) || (36 <? base) then (if base =? 0 then Panic else Err) else
  if 64 <? bitSize then Err else
  let bits := if bitSize =? 0 then 64 else bitSize in
  match s with
  | [] => Err
  | c :: t =>
      let neg := c =? 45 in
      let ds := if (c =? 45) || (c =? 43) then t else s in
      match ds with
      | [] => Err
      | _ =>
          match parse_uint base (2 ^ bits - 1) ds 0 with
          | USyntax => Err
          | URange => if neg && (bits =? 1) then Ok (-1)%Z else Err
          | UVal n =>
              if neg then (if n <=? 2 ^ (bits - 1) then Ok (- Z.of_N n)%Z else Err)
              else (if n <? 2 ^ (bits - 1) then Ok (Z.of_N n) else Err)
          end
      end
  end.

(* strconv.Atoi: optional sign, at least one decimal digit, nothing else;
   out of int64 range is an error too (fast and slow path agree on this). *)
Definition Atoi (s : bytes) : outcome Z := ParseInt s 10 0.

(* strconv.FormatUint(n, base) for base 10 / 16, n < 2^64 (at most 20 digits) *)
Fixpoint fmt_digits (fuel : nat) (base n : N) (acc : bytes) : bytes :=
  match fuel with
  | O => acc
  | S f =>
      let acc' := hexdigit (n mod base) :: acc in
      if n / base =? 0 then acc' else fmt_digits f base (n / base) acc'
  end.
Definition FormatUint (n base : N) : bytes := fmt_digits 64 base n [].

(* fmt.Sprintf("%x", b) / ("%d", b) for an unsigned integer argument *)
Definition Sprintf_x (b : N) : bytes := FormatUint b 16.
Definition Sprintf_d (b : N) : bytes := FormatUint b 10.
(* fmt.Sprintf("%02d", z) for a signed integer: zero padding to width 2, the
   sign counts towards the width and precedes the zeros *)
Definition Sprintf_02d (z : Z) : bytes :=
  if (z <? 0)%Z then 45 :: FormatUint (Z.to_N (- z)) 10
  else let d := FormatUint (Z.to_N z) 10 in
       if (length d <? 2)%nat then 48 :: d else d.

(* ---- strings ---- *)
Fixpoint strings_HasPrefix (s p : bytes) : bool :=
  match p, s with
  | [], _ => true
  | x :: p', y :: s' => (x =? y) && strings_HasPrefix s' p'
  | _ :: _, [] => false
  end.

(* strings.Index: byte offset of the first occurrence, -1 if none *)
Fixpoint index_from (s sub : bytes) (i : N) : option N :=
  if strings_HasPrefix s sub then Some i
  else match s with [] => None | _ :: t => index_from t sub (i + 1) end.
Definition strings_Index (s sub : bytes) : Z :=
  match index_from s sub 0 with Some i => Z.of_N i | None => (-1)%Z end.

Fixpoint strings_Join (l : list bytes) (sep : bytes) : bytes :=
  match l with
  | [] => []
  | [x] => x
  | x :: t => x ++ sep ++ strings_Join t sep
  end.

(* strings.Split(s, sep) for a non-empty sep (leftmost non-overlapping
   occurrences; "" splits into [""]).  [skip] = octets of the current separator
   occurrence still to be dropped, [cur] = current piece, reversed. *)
Fixpoint split_aux (s sep : bytes) (skip : nat) (cur : bytes) : list bytes :=
  match s with
  | [] => [rev cur]
  | c :: t =>
      match skip with
      | S k => split_aux t sep k cur
      | O => if strings_HasPrefix s sep
             then rev cur :: split_aux t sep (length sep - 1) []
             else split_aux t sep 0 (c :: cur)
      end
  end.
Definition strings_Split (s sep : bytes) : outcome (list bytes) :=
  match sep with
  | [] => Panic  (* explode into UTF-8 sequences: outside the model *)
  | _ => Ok (split_aux s sep 0 [])
  end.

(* ---- math/bits ---- *)
(* RotateLeft8(x, k): s := uint(k) & 7; x<<s | x>>(8-s)  (uint8 arithmetic) *)
Definition RotateLeft8 (x : N) (k : Z) : N :=
  let s := Z.to_N (k mod 8) in
  N.lor ((N.shiftl x s) mod 256) (N.shiftr x (8 - s)).

(* ---- encoding/binary.BigEndian ---- *)
Definition BE_Uint16 (b : bytes) : outcome N :=
  b1 <- idx b 1 ;; b0 <- idx b 0 ;; Ok (b0 * 256 + b1).
Definition BE_Uint32 (b : bytes) : outcome N :=
  b3 <- idx b 3 ;; b0 <- idx b 0 ;; b1 <- idx b 1 ;; b2 <- idx b 2 ;;
  Ok (b0 * 16777216 + b1 * 65536 + b2 * 256 + b3).
Definition BE_PutUint16 (b : bytes) (v : N) : outcome bytes :=
  _ <- idx b 1 ;; Ok (upd (upd b 0 ((v / 256) mod 256)) 1 (v mod 256)).
Definition BE_PutUint32 (b : bytes) (v : N) : outcome bytes :=
  _ <- idx b 3 ;;
  Ok (upd (upd (upd (upd b 0 ((v / 16777216) mod 256)) 1 ((v / 65536) mod 256))
                2 ((v / 256) mod 256)) 3 (v mod 256)).

(* copy(dst[off:off+n], src): min(n, len src) octets *)
Fixpoint copy_at (dst : bytes) (off n : nat) (src : bytes) : bytes :=
  match n, src with
  | S k, x :: t => copy_at (upd dst off x) (S off) k t
  | _, _ => dst
  end.
