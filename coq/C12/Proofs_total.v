(* C12/Proofs_total.v -- C14 obligations: the byte-input conversion helpers never panic;
   the nasType.MobileIdentity5GS text getters are total exactly from a minimal Buffer length on
   (finding F9: below it they index a.Buffer unguarded and panic). *)
From NV Require Import Lib.Base Lib.Bits C12.GoStd C12.Model C12.Spec C12.Proofs_base C12.Proofs_plmn.
From Coq Require Import ZifyN ZifyNat ZifyBool.
Open Scope N_scope.

Definition succeeds {A} (o : outcome A) : Prop := exists r, o = Ok r.
Lemma succeeds_total {A} (o : outcome A) : succeeds o -> is_total o.
Proof. intros (r & ->). exact I. Qed.

Lemma leb_refl n : Nat.leb n n = true.
Proof. apply Nat.leb_le. lia. Qed.

Lemma slice_from_ok (l : bytes) n : (n <= length l)%nat -> slice_from l n = Ok (skipn n l).
Proof.
  intro H. unfold slice_from, slice.
  replace (Nat.leb n (length l)) with true by (symmetry; apply Nat.leb_le; lia).
  rewrite leb_refl. cbn [andb]. f_equal. apply firstn_all2. rewrite skipn_length. lia.
Qed.

Lemma slice_ok (l : bytes) a b : (a <= b)%nat -> (b <= length l)%nat -> succeeds (slice l a b).
Proof.
  intros H1 H2. unfold slice.
  replace (Nat.leb a b) with true by (symmetry; apply Nat.leb_le; lia).
  replace (Nat.leb b (length l)) with true by (symmetry; apply Nat.leb_le; lia).
  eexists. reflexivity.
Qed.

Lemma drop_last_ok (l : bytes) : l <> [] ->
  exists l', drop_last l = Ok l' /\ length l' = (length l - 1)%nat.
Proof.
  intro H. destruct (exists_last H) as (l' & x & ->). rewrite drop_last_snoc.
  exists l'. split; [reflexivity|]. rewrite app_length. cbn. lia.
Qed.

Lemma idx_last_ok (l : bytes) : l <> [] -> succeeds (idx_last l).
Proof. intro H. destruct (exists_last H) as (l' & x & ->). rewrite idx_last_snoc. eexists; reflexivity. Qed.

(* ---- pieces ---- *)
Lemma mcc_text_succeeds b1 b2 : succeeds (Model.mcc_text b1 b2).
Proof. unfold Model.mcc_text. cbn [hex_EncodeToString flat_map app]. eexists. reflexivity. Qed.

Lemma mnc_text_succeeds b2 b3 : succeeds (Model.mnc_text b2 b3).
Proof.
  unfold Model.mnc_text. cbn [hex_EncodeToString flat_map app idx nth_error obind].
  match goal with |- context [if ?c then _ else _] => destruct c end; eexists; reflexivity.
Qed.

Lemma routing_ind_succeeds b4 b5 : succeeds (routing_ind b4 b5).
Proof.
  unfold routing_ind. cbn [hex_EncodeToString flat_map app].
  set (a := hexdigit (RotateLeft8 b4 4 / 16)). set (b := hexdigit (RotateLeft8 b4 4 mod 16)).
  set (c := hexdigit (RotateLeft8 b5 4 / 16)). set (d := hexdigit (RotateLeft8 b5 4 mod 16)).
  unfold strings_Index, s_f. cbn [index_from strings_HasPrefix].
  destruct (102 =? a); cbn [andb]; [eexists; reflexivity|].
  destruct (102 =? b); cbn [andb]; [eexists; reflexivity|].
  destruct (102 =? c); cbn [andb]; [eexists; reflexivity|].
  destruct (102 =? d); cbn [andb]; eexists; reflexivity.
Qed.

Lemma hex_encode_nonempty l : l <> [] -> hex_EncodeToString l <> [].
Proof. destruct l; [congruence|]. intros _. rewrite hex_encode_cons. discriminate. Qed.

Lemma scheme_output_succeeds ps buf : (9 <= length buf)%nat -> succeeds (scheme_output ps buf).
Proof.
  intro H. unfold scheme_output. destruct (eqb_bytes ps s_0).
  - set (so := hex_EncodeToString (map (fun b => RotateLeft8 b 4) (skipn 8 buf))).
    assert (Hne : so <> []).
    { apply hex_encode_nonempty. intro E. apply (f_equal (@length N)) in E.
      rewrite map_length, skipn_length in E. cbn [length] in E. lia. }
    destruct (idx_last_ok so Hne) as (l & ->). cbn [obind].
    destruct (l =? c_f).
    + destruct (drop_last_ok so Hne) as (l' & -> & _). eexists; reflexivity.
    + eexists; reflexivity.
  - rewrite slice_from_ok by lia. eexists; reflexivity.
Qed.

Lemma pei_loop_length rest last : length (pei_loop rest last) = S (length rest).
Proof. revert last; induction rest; intro last; cbn [pei_loop length]; [reflexivity|]. rewrite IHrest. reflexivity. Qed.

Lemma pei_digits_succeeds buf : (1 <= length buf)%nat -> succeeds (pei_digits buf).
Proof.
  intro H. destruct buf as [|b0 t]; [cbn in H; lia|].
  unfold pei_digits. cbn [idx nth_error obind].
  rewrite slice_from_ok by (cbn [length]; lia). cbn [skipn obind].
  set (ds := hex_EncodeToString (pei_loop t (N.land b0 240))).
  assert (Hl : length ds = (2 * S (length t))%nat) by (unfold ds; rewrite hex_encode_length, pei_loop_length; reflexivity).
  assert (Hne : ds <> []) by (intro E; rewrite E in Hl; cbn in Hl; lia).
  destruct (drop_last_ok ds Hne) as (l' & -> & Hl'). cbn [obind].
  destruct (N.shiftr (N.land b0 8) 3 =? 0); [|eexists; reflexivity].
  assert (Hne' : l' <> []) by (intro E; rewrite E in Hl'; cbn in Hl'; lia).
  destruct (drop_last_ok l' Hne') as (l'' & -> & _). eexists; reflexivity.
Qed.

(* =====================================================================  nasConvert: total on every octet string *)
Lemma conv_naiToString_total buf : is_total (conv_naiToString buf).
Proof.
  unfold conv_naiToString. destruct (Nat.ltb_spec (length buf) 2); [exact I|].
  rewrite slice_from_ok by lia. exact I.
Qed.

Lemma NaiToString_total buf : is_total (NaiToString buf).
Proof.
  unfold NaiToString. pose proof (conv_naiToString_total buf). destruct (conv_naiToString buf); auto; exact I.
Qed.

Lemma SuciToStringWithError_total buf : is_total (SuciToStringWithError buf).
Proof.
  unfold SuciToStringWithError.
  destruct (Nat.ltb_spec (length buf) 1); [exact I|].
  destruct buf as [|b0 t0]; [cbn in *; lia|]. cbn [idx nth_error obind].
  destruct (N.shiftr (N.land b0 240) 4 =? 1).
  - pose proof (conv_naiToString_total (b0 :: t0)). destruct (conv_naiToString (b0 :: t0)); auto.
  - destruct (Nat.ltb_spec (length (b0 :: t0)) 9) as [|L9]; [exact I|].
    destruct t0 as [|b1 [|b2 [|b3 [|b4 [|b5 [|b6 [|b7 [|b8 t]]]]]]]]; cbn [length] in L9; try lia.
    cbn [idx nth_error obind].
    destruct (mcc_text_succeeds b1 b2) as (mcc & ->). cbn [obind].
    destruct (mnc_text_succeeds b2 b3) as (mnc & ->). cbn [obind].
    destruct (routing_ind_succeeds b4 b5) as (ri & ->). cbn [obind].
    destruct (scheme_output_succeeds (Sprintf_x b6) (b0 :: b1 :: b2 :: b3 :: b4 :: b5 :: b6 :: b7 :: b8 :: t)) as (so & ->);
      [cbn [length]; lia|]. exact I.
Qed.

Lemma SuciToString_total buf : is_total (SuciToString buf).
Proof.
  unfold SuciToString. pose proof (SuciToStringWithError_total buf). destruct (SuciToStringWithError buf); auto; exact I.
Qed.

Lemma PeiToStringWithError_total buf : is_total (PeiToStringWithError buf).
Proof.
  unfold PeiToStringWithError. destruct (Nat.ltb_spec (length buf) 1); [exact I|].
  destruct buf as [|b0 t]; [cbn in *; lia|]. cbn [idx nth_error obind].
  destruct (pei_digits_succeeds (b0 :: t)) as (d & ->); [cbn [length]; lia|]. exact I.
Qed.

Lemma PeiToString_total buf : is_total (PeiToString buf).
Proof.
  unfold PeiToString. pose proof (PeiToStringWithError_total buf). destruct (PeiToStringWithError buf); auto; exact I.
Qed.

(* =====================================================================  nasType.MobileIdentity5GS getters *)
Lemma type_cases b0 t :
  let r := MI_GetTypeOfIdentity (b0 :: t) in
  r = Err \/ r = Ok s_SUCI \/ r = Ok s_5GGUTI \/ r = Ok s_IMEI \/ r = Ok s_5GSTMSI \/ r = Ok s_IMEISV.
Proof.
  unfold MI_GetTypeOfIdentity. cbn [idx nth_error obind].
  destruct (N.land b0 7 =? 0); [tauto|]. destruct (N.land b0 7 =? 1); [tauto|].
  destruct (N.land b0 7 =? 2); [tauto|]. destruct (N.land b0 7 =? 3); [tauto|].
  destruct (N.land b0 7 =? 4); [tauto|]. destruct (N.land b0 7 =? 5); tauto.
Qed.

Ltac by_type b0 t :=
  let H := fresh "HT" in
  pose proof (type_cases b0 t) as H; cbv zeta in H;
  destruct H as [H|[H|[H|[H|[H|H]]]]]; unfold type_is; rewrite ?H; cbn [obind];
  repeat match goal with |- context [eqb_bytes ?a ?b] =>
    let v := eval vm_compute in (eqb_bytes a b) in change (eqb_bytes a b) with v end; cbv iota.

Lemma MI_GetTypeOfIdentity_total buf : (1 <= length buf)%nat -> is_total (MI_GetTypeOfIdentity buf).
Proof.
  intro H. destruct buf as [|b0 t]; [cbn in H; lia|].
  destruct (type_cases b0 t) as [E|[E|[E|[E|[E|E]]]]]; rewrite E; exact I.
Qed.

Lemma MI_GetMCC_total buf : (3 <= length buf)%nat -> is_total (MI_GetMCC buf).
Proof.
  intro H. destruct buf as [|b0 [|b1 [|b2 t]]]; cbn [length] in H; try lia.
  unfold MI_GetMCC. cbn [idx nth_error obind]. apply succeeds_total, mcc_text_succeeds.
Qed.

Lemma MI_GetMNC_total buf : (4 <= length buf)%nat -> is_total (MI_GetMNC buf).
Proof.
  intro H. destruct buf as [|b0 [|b1 [|b2 [|b3 t]]]]; cbn [length] in H; try lia.
  unfold MI_GetMNC. cbn [idx nth_error obind]. apply succeeds_total, mnc_text_succeeds.
Qed.

Lemma MI_GetMCC_succeeds b0 b1 b2 t : succeeds (MI_GetMCC (b0 :: b1 :: b2 :: t)).
Proof. unfold MI_GetMCC. cbn [idx nth_error obind]. apply mcc_text_succeeds. Qed.
Lemma MI_GetMNC_succeeds b0 b1 b2 b3 t : succeeds (MI_GetMNC (b0 :: b1 :: b2 :: b3 :: t)).
Proof. unfold MI_GetMNC. cbn [idx nth_error obind]. apply mnc_text_succeeds. Qed.

Lemma MI_GetPlmnID_total buf : (4 <= length buf)%nat -> is_total (MI_GetPlmnID buf).
Proof.
  intro H. destruct buf as [|b0 [|b1 [|b2 [|b3 t]]]]; cbn [length] in H; try lia.
  unfold MI_GetPlmnID.
  destruct (MI_GetMCC_succeeds b0 b1 b2 (b3 :: t)) as (m & ->). cbn [obind].
  destruct (MI_GetMNC_succeeds b0 b1 b2 b3 t) as (n & ->). exact I.
Qed.

Lemma MI_GetAmfID_total buf : (7 <= length buf)%nat -> is_total (MI_GetAmfID buf).
Proof.
  intro H. unfold MI_GetAmfID. destruct (slice_ok buf 4 7) as (s & ->); [lia|lia|]. exact I.
Qed.

Lemma MI_GetAmfRegionID_total buf : (5 <= length buf)%nat -> is_total (MI_GetAmfRegionID buf).
Proof.
  intro H. unfold MI_GetAmfRegionID. destruct (slice_ok buf 4 5) as (s & ->); [lia|lia|]. exact I.
Qed.

Lemma MI_Get5GTMSI_succeeds buf : (7 <= length buf)%nat -> succeeds (MI_Get5GTMSI buf).
Proof.
  intro H. destruct buf as [|b0 t]; [cbn in H; lia|]. unfold MI_Get5GTMSI.
  by_type b0 t; try (eexists; reflexivity).
  - rewrite slice_from_ok by lia. eexists; reflexivity.
  - destruct (slice_ok (b0 :: t) 3 7) as (s & E); [lia|lia|]. rewrite E. cbn [obind].
    rewrite slice_from_ok by lia. eexists; reflexivity.
Qed.

Lemma MI_Get5GTMSI_total buf : (7 <= length buf)%nat -> is_total (MI_Get5GTMSI buf).
Proof. intro H. apply succeeds_total, MI_Get5GTMSI_succeeds, H. Qed.

Lemma MI_GetAmfSetID_total buf : (7 <= length buf)%nat -> is_total (MI_GetAmfSetID buf).
Proof.
  intro H. destruct buf as [|b0 [|b1 [|b2 [|b3 [|b4 [|b5 [|b6 t]]]]]]]; cbn [length] in H; try lia.
  unfold MI_GetAmfSetID. by_type b0 (b1 :: b2 :: b3 :: b4 :: b5 :: b6 :: t); exact I.
Qed.

Lemma MI_GetAmfPointer_total buf : (7 <= length buf)%nat -> is_total (MI_GetAmfPointer buf).
Proof.
  intro H. destruct buf as [|b0 [|b1 [|b2 [|b3 [|b4 [|b5 [|b6 t]]]]]]]; cbn [length] in H; try lia.
  unfold MI_GetAmfPointer. by_type b0 (b1 :: b2 :: b3 :: b4 :: b5 :: b6 :: t); exact I.
Qed.

Lemma MI_Get5GGUTI_total buf : (7 <= length buf)%nat -> is_total (MI_Get5GGUTI buf).
Proof.
  intro H. unfold MI_Get5GGUTI.
  destruct (MI_Get5GTMSI_succeeds buf H) as (tm & ET).
  destruct (slice_ok buf 4 7) as (s & ES); [lia|lia|].
  destruct buf as [|b0 [|b1 [|b2 [|b3 t]]]]; cbn [length] in H; try lia.
  destruct (MI_GetMCC_succeeds b0 b1 b2 (b3 :: t)) as (m & ->). cbn [obind].
  destruct (MI_GetMNC_succeeds b0 b1 b2 b3 t) as (n & ->). cbn [obind].
  unfold MI_GetAmfID. rewrite ES. cbn [obind]. rewrite ET. exact I.
Qed.

Lemma MI_Get5GSTMSI_total buf : (7 <= length buf)%nat -> is_total (MI_Get5GSTMSI buf).
Proof.
  intro H. unfold MI_Get5GSTMSI.
  destruct (slice_ok buf 1 3) as (s & ->); [lia|lia|]. cbn [obind].
  destruct (MI_Get5GTMSI_succeeds buf H) as (tm & ->). exact I.
Qed.

Lemma MI_GetIMEI_succeeds buf : (1 <= length buf)%nat -> succeeds (MI_GetIMEI buf).
Proof.
  intro H. destruct buf as [|b0 t]; [cbn in H; lia|]. unfold MI_GetIMEI.
  by_type b0 t; try (eexists; reflexivity).
  unfold type_peiToString. destruct (pei_digits_succeeds (b0 :: t)) as (d & ->); [cbn [length]; lia|].
  eexists; reflexivity.
Qed.

Lemma MI_GetIMEISV_succeeds buf : (1 <= length buf)%nat -> succeeds (MI_GetIMEISV buf).
Proof.
  intro H. destruct buf as [|b0 t]; [cbn in H; lia|]. unfold MI_GetIMEISV.
  by_type b0 t; try (eexists; reflexivity).
  unfold type_peiToString. destruct (pei_digits_succeeds (b0 :: t)) as (d & ->); [cbn [length]; lia|].
  eexists; reflexivity.
Qed.

Lemma MI_GetIMEI_total buf : (1 <= length buf)%nat -> is_total (MI_GetIMEI buf).
Proof. intro H. apply succeeds_total, MI_GetIMEI_succeeds, H. Qed.
Lemma MI_GetIMEISV_total buf : (1 <= length buf)%nat -> is_total (MI_GetIMEISV buf).
Proof. intro H. apply succeeds_total, MI_GetIMEISV_succeeds, H. Qed.

Lemma MI_GetSUCI_succeeds buf : (9 <= length buf)%nat -> succeeds (MI_GetSUCI buf).
Proof.
  intro H.
  destruct buf as [|b0 [|b1 [|b2 [|b3 [|b4 [|b5 [|b6 [|b7 [|b8 t]]]]]]]]]; cbn [length] in H; try lia.
  unfold MI_GetSUCI. by_type b0 (b1 :: b2 :: b3 :: b4 :: b5 :: b6 :: b7 :: b8 :: t); try (eexists; reflexivity).
  cbn [idx nth_error obind].
  destruct (N.shiftr (N.land b0 240) 4 =? 1).
  - unfold type_naiToString. rewrite slice_from_ok by (cbn [length]; lia). eexists; reflexivity.
  - destruct (MI_GetMCC_succeeds b0 b1 b2 (b3 :: b4 :: b5 :: b6 :: b7 :: b8 :: t)) as (m & ->). cbn [obind].
    destruct (MI_GetMNC_succeeds b0 b1 b2 b3 (b4 :: b5 :: b6 :: b7 :: b8 :: t)) as (n & ->). cbn [obind].
    destruct (routing_ind_succeeds b4 b5) as (ri & ->). cbn [obind].
    destruct (scheme_output_succeeds (Sprintf_x b6) (b0 :: b1 :: b2 :: b3 :: b4 :: b5 :: b6 :: b7 :: b8 :: t)) as (so & ->);
      [cbn [length]; lia|]. eexists; reflexivity.
Qed.

Lemma MI_GetSUCI_total buf : (9 <= length buf)%nat -> is_total (MI_GetSUCI buf).
Proof. intro H. apply succeeds_total, MI_GetSUCI_succeeds, H. Qed.

Lemma MI_GetMobileIdentity_total buf : (9 <= length buf)%nat -> is_total (MI_GetMobileIdentity buf).
Proof.
  intro H. unfold MI_GetMobileIdentity.
  destruct (MI_GetSUCI_succeeds buf H) as (su & ES).
  pose proof (MI_Get5GSTMSI_total buf ltac:(lia)) as HS.
  destruct (MI_GetIMEI_succeeds buf ltac:(lia)) as (im & EI).
  destruct (MI_GetIMEISV_succeeds buf ltac:(lia)) as (iv & EV).
  pose proof (MI_Get5GGUTI_total buf ltac:(lia)) as HG.
  destruct buf as [|b0 t]; [cbn in H; lia|].
  destruct (type_cases b0 t) as [E|[E|[E|[E|[E|E]]]]]; rewrite E; cbn [obind]; try exact I;
  repeat match goal with |- context [eqb_bytes ?a ?b] =>
    let v := eval vm_compute in (eqb_bytes a b) in change (eqb_bytes a b) with v end; cbv iota.
  - rewrite ES. exact I.
  - destruct (MI_Get5GGUTI (b0 :: t)); try contradiction; exact I.
  - rewrite EI. exact I.
  - destruct (MI_Get5GSTMSI (b0 :: t)); try contradiction; exact I.
  - rewrite EV. exact I.
Qed.

(* ---- below the minimal length: a panicking Buffer of every shorter length (finding F9) ---- *)
Definition W_suci : bytes := [1; 2; 248; 57; 240; 255; 0; 0].       (* 8-octet SUCI, IMSI format, null scheme *)
Definition W_guti : bytes := [242; 2; 248; 57; 202; 254; 0].        (* truncated 5G-GUTI *)

Ltac refute_below W :=
  let k := fresh "k" in let H := fresh in
  intros k H;
  repeat (destruct k as [|k]; [exists (firstn _ W); split; vm_compute; reflexivity|]); lia.

Lemma MI_GetTypeOfIdentity_refuted : forall k, (k < 1)%nat -> exists buf, length buf = k /\ MI_GetTypeOfIdentity buf = Panic.
Proof. intros k H. exists []. split; [cbn; lia|reflexivity]. Qed.
Lemma MI_GetMobileIdentity_refuted : forall k, (k < 9)%nat -> exists buf, length buf = k /\ MI_GetMobileIdentity buf = Panic.
Proof. intros k H. exists (firstn k W_suci). do 9 (destruct k as [|k]; [split; vm_compute; reflexivity|]). lia. Qed.
Lemma MI_GetSUCI_refuted : forall k, (k < 9)%nat -> exists buf, length buf = k /\ MI_GetSUCI buf = Panic.
Proof. intros k H. exists (firstn k W_suci). do 9 (destruct k as [|k]; [split; vm_compute; reflexivity|]). lia. Qed.
Lemma MI_GetPlmnID_refuted : forall k, (k < 4)%nat -> exists buf, length buf = k /\ MI_GetPlmnID buf = Panic.
Proof. intros k H. exists (firstn k W_suci). do 4 (destruct k as [|k]; [split; vm_compute; reflexivity|]). lia. Qed.
Lemma MI_GetMCC_refuted : forall k, (k < 3)%nat -> exists buf, length buf = k /\ MI_GetMCC buf = Panic.
Proof. intros k H. exists (firstn k W_suci). do 3 (destruct k as [|k]; [split; vm_compute; reflexivity|]). lia. Qed.
Lemma MI_GetMNC_refuted : forall k, (k < 4)%nat -> exists buf, length buf = k /\ MI_GetMNC buf = Panic.
Proof. intros k H. exists (firstn k W_suci). do 4 (destruct k as [|k]; [split; vm_compute; reflexivity|]). lia. Qed.
Lemma MI_Get5GGUTI_refuted : forall k, (k < 7)%nat -> exists buf, length buf = k /\ MI_Get5GGUTI buf = Panic.
Proof. intros k H. exists (firstn k W_guti). do 7 (destruct k as [|k]; [split; vm_compute; reflexivity|]). lia. Qed.
Lemma MI_GetAmfID_refuted : forall k, (k < 7)%nat -> exists buf, length buf = k /\ MI_GetAmfID buf = Panic.
Proof. intros k H. exists (firstn k W_guti). do 7 (destruct k as [|k]; [split; vm_compute; reflexivity|]). lia. Qed.
Lemma MI_GetAmfRegionID_refuted : forall k, (k < 5)%nat -> exists buf, length buf = k /\ MI_GetAmfRegionID buf = Panic.
Proof. intros k H. exists (firstn k W_guti). do 5 (destruct k as [|k]; [split; vm_compute; reflexivity|]). lia. Qed.
Lemma MI_GetAmfSetID_refuted : forall k, (k < 7)%nat -> exists buf, length buf = k /\ MI_GetAmfSetID buf = Panic.
Proof. intros k H. exists (firstn k W_guti). do 7 (destruct k as [|k]; [split; vm_compute; reflexivity|]). lia. Qed.
Lemma MI_GetAmfPointer_refuted : forall k, (k < 7)%nat -> exists buf, length buf = k /\ MI_GetAmfPointer buf = Panic.
Proof. intros k H. exists (firstn k W_guti). do 7 (destruct k as [|k]; [split; vm_compute; reflexivity|]). lia. Qed.
Lemma MI_Get5GTMSI_refuted : forall k, (k < 7)%nat -> exists buf, length buf = k /\ MI_Get5GTMSI buf = Panic.
Proof. intros k H. exists (firstn k W_guti). do 7 (destruct k as [|k]; [split; vm_compute; reflexivity|]). lia. Qed.
Lemma MI_Get5GSTMSI_refuted : forall k, (k < 7)%nat -> exists buf, length buf = k /\ MI_Get5GSTMSI buf = Panic.
Proof. intros k H. exists (firstn k W_guti). do 7 (destruct k as [|k]; [split; vm_compute; reflexivity|]). lia. Qed.
Lemma MI_GetIMEI_refuted : forall k, (k < 1)%nat -> exists buf, length buf = k /\ MI_GetIMEI buf = Panic.
Proof. intros k H. exists []. split; [cbn; lia|reflexivity]. Qed.
Lemma MI_GetIMEISV_refuted : forall k, (k < 1)%nat -> exists buf, length buf = k /\ MI_GetIMEISV buf = Panic.
Proof. intros k H. exists []. split; [cbn; lia|reflexivity]. Qed.

(* ---- PlmnIDToNas: documented domain (no error result): at least 3 / 2 characters ---- *)
Lemma atoi_digit_or_succeeds s i dflt : (i < length s)%nat -> bytes_ok s -> succeeds (atoi_digit_or s i dflt).
Proof.
  intros Hi Hok. destruct (nth_error s i) as [c|] eqn:E; [|apply nth_error_None in E; lia].
  assert (Hc : c < 256).
  { unfold bytes_ok in Hok. rewrite Forall_forall in Hok. apply Hok. eapply nth_error_In; eassumption. }
  rewrite (atoi_digit_or_spec s i dflt c E Hc). eexists; reflexivity.
Qed.

Lemma PlmnIDToNas_total mcc mnc :
  bytes_ok mcc -> bytes_ok mnc -> (3 <= length mcc)%nat -> (2 <= length mnc)%nat -> is_total (PlmnIDToNas mcc mnc).
Proof.
  intros H1 H2 L1 L2. unfold PlmnIDToNas.
  destruct (atoi_digit_or_succeeds mcc 0 0%Z ltac:(lia) H1) as (a & ->). cbn [obind].
  destruct (atoi_digit_or_succeeds mcc 1 0%Z ltac:(lia) H1) as (b & ->). cbn [obind].
  destruct (atoi_digit_or_succeeds mcc 2 0%Z ltac:(lia) H1) as (c & ->). cbn [obind].
  destruct (atoi_digit_or_succeeds mnc 0 0%Z ltac:(lia) H2) as (d & ->). cbn [obind].
  destruct (atoi_digit_or_succeeds mnc 1 0%Z ltac:(lia) H2) as (e & ->). cbn [obind].
  destruct (Nat.eqb_spec (length mnc) 3) as [L3|L3].
  - destruct (atoi_digit_or_succeeds mnc 2 15%Z ltac:(lia) H2) as (f & ->). exact I.
  - exact I.
Qed.

(* ---- exactly which octet strings SuciToStringWithError / PeiToStringWithError / GutiToStringWithError reject ---- *)
Lemma SuciToStringWithError_err_iff buf :
  SuciToStringWithError buf = Err <->
  match buf with
  | [] => True
  | b0 :: _ => if N.shiftr (N.land b0 240) 4 =? 1 then (length buf < 2)%nat else (length buf < 9)%nat
  end.
Proof.
  destruct buf as [|b0 t0]; [split; [tauto|reflexivity]|].
  unfold SuciToStringWithError.
  destruct (Nat.ltb_spec (length (b0 :: t0)) 1) as [L1|L1]; [cbn [length] in L1; lia|].
  cbn [idx nth_error obind].
  destruct (N.shiftr (N.land b0 240) 4 =? 1).
  - unfold conv_naiToString. destruct (Nat.ltb_spec (length (b0 :: t0)) 2) as [L|L].
    + split; [intros _; exact L|reflexivity].
    + rewrite slice_from_ok by lia. cbn [obind]. split; [discriminate|lia].
  - destruct (Nat.ltb_spec (length (b0 :: t0)) 9) as [L|L9].
    + split; [intros _; exact L|reflexivity].
    + split; [|lia]. intro E. exfalso.
      destruct t0 as [|b1 [|b2 [|b3 [|b4 [|b5 [|b6 [|b7 [|b8 t]]]]]]]]; cbn [length] in L9; try lia.
      cbn [idx nth_error obind] in E.
      destruct (mcc_text_succeeds b1 b2) as (mcc & Em). rewrite Em in E. cbn [obind] in E.
      destruct (mnc_text_succeeds b2 b3) as (mnc & En). rewrite En in E. cbn [obind] in E.
      destruct (routing_ind_succeeds b4 b5) as (ri & Er). rewrite Er in E. cbn [obind] in E.
      destruct (scheme_output_succeeds (Sprintf_x b6) (b0 :: b1 :: b2 :: b3 :: b4 :: b5 :: b6 :: b7 :: b8 :: t)) as (so & Es);
        [cbn [length]; lia|]. rewrite Es in E. discriminate.
Qed.

Lemma PeiToStringWithError_err_iff buf : PeiToStringWithError buf = Err <-> buf = [].
Proof.
  destruct buf as [|b0 t]; [split; reflexivity|]. split; [|discriminate].
  unfold PeiToStringWithError.
  destruct (Nat.ltb_spec (length (b0 :: t)) 1) as [L1|L1]; [cbn [length] in L1; lia|].
  cbn [idx nth_error obind].
  destruct (pei_digits_succeeds (b0 :: t)) as (d & ->); [cbn [length]; lia|]. discriminate.
Qed.
