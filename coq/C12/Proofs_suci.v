(* C12/Proofs_suci.v -- SUCI (IMSI and NAI format) and IMEI / IMEISV: wire -> text *)
From NV Require Import Lib.Base Lib.Bits C12.GoStd C12.Model C12.Spec C12.Proofs_base C12.Proofs_plmn.
From Coq Require Import ZifyN ZifyNat ZifyBool.
Open Scope N_scope.
Ltac Zify.zify_post_hook ::= Z.div_mod_to_equations.

(* ---- BCD strings: the nibbles of the octets, low nibble first ---- *)
Definition nibs_lo_hi (l : bytes) : bytes := flat_map (fun o => [hexdigit (o mod 16); hexdigit (o / 16)]) l.

Lemma hex_rotl4 l : bytes_ok l ->
  hex_EncodeToString (map (fun b => RotateLeft8 b 4) l) = nibs_lo_hi l.
Proof.
  induction 1 as [|b t Hb Ht IH]; [reflexivity|].
  cbn [map]. rewrite hex_encode_cons, IH. unfold is_byte in Hb. rewrite rotl4 by exact Hb.
  unfold nibs_lo_hi. cbn [flat_map app]. f_equal; [f_equal; lia|f_equal; f_equal; lia].
Qed.

Definition filler (n : nat) : bytes := if Nat.odd n then [102] else [].

Lemma nibs_bcd ds : decs ds -> nibs_lo_hi (bcd ds) = map dchar ds ++ filler (length ds).
Proof.
  induction ds as [|a|a b t IH] using list_ind2; intro H.
  - reflexivity.
  - inversion H; subst. cbv beta in *. unfold nibs_lo_hi, filler. cbn [bcd flat_map app map length Nat.odd Nat.even negb].
    replace ((15 * 16 + a) mod 16) with a by lia. replace ((15 * 16 + a) / 16) with 15 by lia.
    rewrite hexdigit_dchar by assumption. reflexivity.
  - inversion H as [|? ? Ha H']; subst. inversion H' as [|? ? Hb H'']; subst. cbv beta in *.
    cbn [bcd map length]. unfold nibs_lo_hi in *. cbn [flat_map app].
    rewrite IH by assumption.
    replace ((b * 16 + a) mod 16) with a by lia. replace ((b * 16 + a) / 16) with b by lia.
    rewrite !hexdigit_dchar by assumption. unfold filler. cbn [Nat.odd Nat.even negb]. reflexivity.
Qed.

Lemma bcd_ok ds : decs ds -> bytes_ok (bcd ds).
Proof.
  induction ds as [|a|a b t IH] using list_ind2; intro H.
  - constructor.
  - inversion H; subst. cbv beta in *. constructor; [unfold is_byte; lia|constructor].
  - inversion H as [|? ? Ha H']; subst. inversion H' as [|? ? Hb H'']; subst. cbv beta in *.
    cbn [bcd]. constructor; [unfold is_byte; lia|]. apply IH. assumption.
Qed.

Lemma bcd_length_pos ds : (1 <= length ds)%nat -> (1 <= length (bcd ds))%nat.
Proof. destruct ds as [|a [|b t]]; cbn [bcd length]; lia. Qed.

(* ---- strings.Index of "f" in a digit string ---- *)
Lemma HasPrefix_nil s : strings_HasPrefix s [] = true.
Proof. destruct s; reflexivity. Qed.

Lemma index_from_digits ds rest i : decs ds ->
  index_from (map dchar ds ++ 102 :: rest) [102] i = Some (i + N.of_nat (length ds)).
Proof.
  revert i. induction ds as [|d t IH]; intros i H.
  - cbn [map app index_from strings_HasPrefix]. change (102 =? 102) with true. cbn [andb].
    rewrite HasPrefix_nil. f_equal. cbn [length]. lia.
  - inversion H; subst. cbn [map app]. cbn [index_from strings_HasPrefix].
    replace (102 =? dchar d) with false by (symmetry; apply N.eqb_neq; unfold dchar; lia).
    cbn [andb]. fold (index_from (map dchar t ++ 102 :: rest) [102] (i + 1)).
    rewrite IH by assumption. f_equal. cbn [length]. lia.
Qed.

Lemma index_from_digits_none ds i : decs ds -> index_from (map dchar ds) [102] i = None.
Proof.
  revert i. induction ds as [|d t IH]; intros i H; [reflexivity|].
  inversion H; subst. cbn [map index_from strings_HasPrefix].
  replace (102 =? dchar d) with false by (symmetry; apply N.eqb_neq; unfold dchar; lia).
  cbn [andb]. apply IH. assumption.
Qed.

(* ---- the pieces of the SUCI text ---- *)
Lemma model_mcc_text a b c f : a < 16 -> b < 16 -> c < 16 -> f < 16 ->
  Model.mcc_text (b * 16 + a) (f * 16 + c) = Ok [hexdigit a; hexdigit b; hexdigit c].
Proof.
  intros Ha Hb Hc Hf. unfold Model.mcc_text. rewrite rotl4, land15 by lia.
  replace ((f * 16 + c) mod 16) with c by lia. rewrite shl8_4 by lia.
  replace ((b * 16 + a) mod 16 * 16 + (b * 16 + a) / 16) with (a * 16 + b) by lia.
  replace (c * 16) with (c * 16 + 0) by lia.
  change [a * 16 + b; c * 16 + 0] with (map (fun p => fst p * 16 + snd p) [(a, b); (c, 0)]).
  rewrite hex_encode_nibs by (repeat constructor; cbn [fst snd]; lia). reflexivity.
Qed.

Lemma model_mnc_text c d e f : c < 16 -> d < 16 -> e < 16 -> f < 16 ->
  Model.mnc_text (f * 16 + c) (e * 16 + d) =
  Ok (if f =? 15 then [hexdigit d; hexdigit e] else [hexdigit d; hexdigit e; hexdigit f]).
Proof.
  intros Hc Hd He Hf. unfold Model.mnc_text. rewrite rotl4, land240, shr4 by lia.
  replace ((f * 16 + c) / 16 * 16 / 16) with f by lia. rewrite shl8_4 by lia.
  replace ((e * 16 + d) mod 16 * 16 + (e * 16 + d) / 16) with (d * 16 + e) by lia.
  replace (f * 16) with (f * 16 + 0) by lia.
  change [d * 16 + e; f * 16 + 0] with (map (fun p => fst p * 16 + snd p) [(d, e); (f, 0)]).
  rewrite hex_encode_nibs by (repeat constructor; cbn [fst snd]; lia).
  cbn [flat_map app fst snd idx nth_error obind].
  destruct (N.eqb_spec f 15) as [->|Hn].
  - reflexivity.
  - replace (hexdigit f =? c_f) with false; [reflexivity|].
    symmetry. apply N.eqb_neq. unfold hexdigit, c_f. destruct (N.ltb_spec f 10); lia.
Qed.

Lemma routing_ind_ok ri : decs ri -> (1 <= length ri <= 4)%nat ->
  match ri_octets ri with
  | [r1; r2] => routing_ind r1 r2 = Ok (map dchar ri)
  | _ => False
  end.
Proof.
  intros Hd Hl. unfold ri_octets.
  assert (E : exists rest, hex_EncodeToString
                [RotateLeft8 (nth 1 ri 15 * 16 + nth 0 ri 15) 4; RotateLeft8 (nth 3 ri 15 * 16 + nth 2 ri 15) 4]
              = map dchar ri ++ rest /\ (rest = [] \/ exists r', rest = 102 :: r')).
  { destruct ri as [|a [|b [|c [|d [|]]]]]; cbn [length] in Hl; try lia;
      repeat match goal with H : decs (_ :: _) |- _ => inversion H; subst; clear H
                        | H : Forall _ (_ :: _) |- _ => inversion H; subst; clear H end;
      cbn [nth]; rewrite !rotl4 by lia.
    - exists [102; 102; 102]. split; [|right; eauto].
      replace ((15 * 16 + a) mod 16 * 16 + (15 * 16 + a) / 16) with (a * 16 + 15) by lia.
      replace ((15 * 16 + 15) mod 16 * 16 + (15 * 16 + 15) / 16) with (15 * 16 + 15) by lia.
      change [a * 16 + 15; 15 * 16 + 15] with (map (fun p => fst p * 16 + snd p) [(a, 15); (15, 15)]).
      rewrite hex_encode_nibs by (repeat constructor; cbn [fst snd]; lia).
      cbn [flat_map app fst snd map]. rewrite hexdigit_dchar by lia. reflexivity.
    - exists [102; 102]. split; [|right; eauto].
      replace ((b * 16 + a) mod 16 * 16 + (b * 16 + a) / 16) with (a * 16 + b) by lia.
      replace ((15 * 16 + 15) mod 16 * 16 + (15 * 16 + 15) / 16) with (15 * 16 + 15) by lia.
      change [a * 16 + b; 15 * 16 + 15] with (map (fun p => fst p * 16 + snd p) [(a, b); (15, 15)]).
      rewrite hex_encode_nibs by (repeat constructor; cbn [fst snd]; lia).
      cbn [flat_map app fst snd map]. rewrite !hexdigit_dchar by lia. reflexivity.
    - exists [102]. split; [|right; eauto].
      replace ((b * 16 + a) mod 16 * 16 + (b * 16 + a) / 16) with (a * 16 + b) by lia.
      replace ((15 * 16 + c) mod 16 * 16 + (15 * 16 + c) / 16) with (c * 16 + 15) by lia.
      change [a * 16 + b; c * 16 + 15] with (map (fun p => fst p * 16 + snd p) [(a, b); (c, 15)]).
      rewrite hex_encode_nibs by (repeat constructor; cbn [fst snd]; lia).
      cbn [flat_map app fst snd map]. rewrite !hexdigit_dchar by lia. reflexivity.
    - exists []. split; [|left; reflexivity].
      replace ((b * 16 + a) mod 16 * 16 + (b * 16 + a) / 16) with (a * 16 + b) by lia.
      replace ((d * 16 + c) mod 16 * 16 + (d * 16 + c) / 16) with (c * 16 + d) by lia.
      change [a * 16 + b; c * 16 + d] with (map (fun p => fst p * 16 + snd p) [(a, b); (c, d)]).
      rewrite hex_encode_nibs by (repeat constructor; cbn [fst snd]; lia).
      cbn [flat_map app fst snd map]. rewrite !hexdigit_dchar by lia. reflexivity. }
  destruct E as (rest & E & Hrest). unfold routing_ind. rewrite E. unfold strings_Index.
  destruct Hrest as [->|(r' & ->)].
  - rewrite app_nil_r, index_from_digits_none by exact Hd. reflexivity.
  - rewrite index_from_digits by exact Hd.
    replace ((Z.of_N (0 + N.of_nat (length ri)) =? -1)%Z) with false by (symmetry; apply Z.eqb_neq; lia).
    replace (Z.to_nat (Z.of_N (0 + N.of_nat (length ri)))) with (length (map dchar ri)) by (rewrite map_length; lia).
    apply slice_app_l.
Qed.

Lemma sprintf_x_nib s : s < 16 -> Sprintf_x s = [hchar s].
Proof.
  intro H. apply eqb_bytes_spec. revert s H.
  apply (nib_forall (fun s => eqb_bytes (Sprintf_x s) [hchar s])). vm_compute. reflexivity.
Qed.

Lemma sprintf_d_byte h : h < 256 -> Sprintf_d h = dec_text h.
Proof.
  intro H. apply eqb_bytes_spec. revert h H.
  apply (byte_forall (fun h => eqb_bytes (Sprintf_d h) (dec_text h))). vm_compute. reflexivity.
Qed.

Lemma hchar_is_0 s : s < 16 -> eqb_bytes [hchar s] s_0 = (s =? 0).
Proof.
  intro H. apply Bool.eqb_prop. revert s H.
  apply (nib_forall (fun s => Bool.eqb (eqb_bytes [hchar s] s_0) (s =? 0))). vm_compute. reflexivity.
Qed.

Lemma decs_snoc ds : decs ds -> (1 <= length ds)%nat -> exists l x, ds = l ++ [x] /\ x < 10.
Proof.
  intros Hd Hl. destruct (exists_last (l := ds)) as (l & x & ->); [destruct ds; cbn in Hl; [lia|discriminate]|].
  exists l, x. split; [reflexivity|]. unfold decs in Hd. apply Forall_app in Hd. destruct Hd as [_ Hx].
  inversion Hx; assumption.
Qed.

(* scheme output of the null scheme: the MSIN digits *)
Lemma scheme_output_null hdr ds : length hdr = 8%nat -> decs ds -> (1 <= length ds)%nat ->
  scheme_output s_0 (hdr ++ bcd ds) = Ok (map dchar ds).
Proof.
  intros Hh Hd Hl. unfold scheme_output. change (eqb_bytes s_0 s_0) with true. cbv iota.
  rewrite (skipn_app_len hdr) by exact Hh.
  rewrite hex_rotl4 by (apply bcd_ok, Hd). rewrite nibs_bcd by exact Hd.
  destruct (decs_snoc ds Hd Hl) as (l & x & -> & Hx).
  unfold filler. destruct (Nat.odd (length (l ++ [x]))).
  - rewrite idx_last_snoc. cbn [obind]. change (102 =? c_f) with true. cbv iota. apply drop_last_snoc.
  - rewrite app_nil_r, map_app. cbn [map]. rewrite idx_last_snoc. cbn [obind].
    unfold c_f. rewrite hchar_not_f by exact Hx. reflexivity.
Qed.

Lemma scheme_output_other sch hdr out : length hdr = 8%nat -> sch < 16 -> sch <> 0 -> bytes_ok out ->
  scheme_output [hchar sch] (hdr ++ out) = Ok (hex_of_octets out).
Proof.
  intros Hh Hs Hn Ho. unfold scheme_output. rewrite hchar_is_0 by exact Hs.
  destruct (N.eqb_spec sch 0); [contradiction|].
  replace 8%nat with (length hdr). rewrite slice_from_app_r. cbn [obind].
  rewrite hex_of_octets_encode by exact Ho. reflexivity.
Qed.

(* ---- SuciToStringWithError / GetSUCI on a buffer of the IMSI-format shape ---- *)
Definition suci_join (mcc mnc ri sch hn so : bytes) : bytes :=
  strings_Join [s_suci; s_0; mcc; mnc; ri; sch; hn; so] s_dash.

Lemma suci_conv_core p1 p2 p3 r1 r2 sch hn x out mccT mncT riT soT :
  Model.mcc_text p1 p2 = Ok mccT -> Model.mnc_text p2 p3 = Ok mncT -> routing_ind r1 r2 = Ok riT ->
  scheme_output (Sprintf_x sch) (1 :: p1 :: p2 :: p3 :: r1 :: r2 :: sch :: hn :: x :: out) = Ok soT ->
  SuciToStringWithError (1 :: p1 :: p2 :: p3 :: r1 :: r2 :: sch :: hn :: x :: out) =
  Ok (suci_join mccT mncT riT (Sprintf_x sch) (Sprintf_d hn) soT, mccT ++ mncT).
Proof.
  intros H1 H2 H3 H4. unfold SuciToStringWithError.
  cbn [length Nat.ltb Nat.leb idx nth_error obind].
  change (N.shiftr (N.land 1 240) 4 =? 1) with false. cbv iota.
  rewrite H1. cbn [obind]. rewrite H2. cbn [obind]. rewrite H3. cbn [obind]. rewrite H4. reflexivity.
Qed.

Lemma suci_type_core p1 p2 p3 r1 r2 sch hn x out mccT mncT riT soT :
  Model.mcc_text p1 p2 = Ok mccT -> Model.mnc_text p2 p3 = Ok mncT -> routing_ind r1 r2 = Ok riT ->
  scheme_output (Sprintf_x sch) (1 :: p1 :: p2 :: p3 :: r1 :: r2 :: sch :: hn :: x :: out) = Ok soT ->
  MI_GetSUCI (1 :: p1 :: p2 :: p3 :: r1 :: r2 :: sch :: hn :: x :: out) =
  Ok (suci_join mccT mncT riT (Sprintf_x sch) (Sprintf_d hn) soT).
Proof.
  intros H1 H2 H3 H4. unfold MI_GetSUCI, type_is, MI_GetTypeOfIdentity, MI_GetMCC, MI_GetMNC.
  cbn [idx nth_error obind].
  change (N.land 1 7) with 1. cbn [N.eqb Pos.eqb]. change (eqb_bytes s_SUCI s_SUCI) with true. cbv iota.
  change (N.shiftr (N.land 1 240) 4 =? 1) with false. cbv iota.
  rewrite H1. cbn [obind]. rewrite H2. cbn [obind]. rewrite H3. cbn [obind]. rewrite H4. reflexivity.
Qed.

Lemma suci_join_text p ri sch hn so :
  suci_join (Spec.mcc_text p) (Spec.mnc_text p) (map dchar ri) [hchar sch] (dec_text hn) so =
  t_suci0 ++ Spec.mcc_text p ++ t_dash ++ Spec.mnc_text p ++ t_dash ++ map dchar ri ++ t_dash ++
  [hchar sch] ++ t_dash ++ dec_text hn ++ t_dash ++ so.
Proof.
  unfold suci_join. cbn [strings_Join]. unfold s_suci, s_0, s_dash, t_suci0, t_dash.
  repeat rewrite <- app_assoc. reflexivity.
Qed.

Lemma plmn_pieces p : plmn_ok p ->
  match plmn_wire p with
  | [p1; p2; p3] => Model.mcc_text p1 p2 = Ok (Spec.mcc_text p) /\ Model.mnc_text p2 p3 = Ok (Spec.mnc_text p)
  | _ => False
  end.
Proof.
  destruct p as [a b c d e f]. unfold plmn_ok, plmn_wire, Spec.mcc_text, Spec.mnc_text, mnc3_nibble.
  cbn [mcc1 mcc2 mcc3 mnc1 mnc2 mnc3]. intros (Ha & Hb & Hc & Hd & He & Hf).
  destruct f as [f|].
  - rewrite model_mcc_text, model_mnc_text by lia. destruct (N.eqb_spec f 15); [lia|].
    rewrite !hexdigit_dchar by lia. split; reflexivity.
  - rewrite model_mcc_text, model_mnc_text by lia. change (15 =? 15) with true. cbv iota.
    rewrite !hexdigit_dchar by lia. split; reflexivity.
Qed.

Lemma suci_text_ok s : suci_ok s ->
  SuciToStringWithError (suci_wire s) = Ok (suci_text s, plmn_text (s_plmn s)) /\
  MI_GetSUCI (suci_wire s) = Ok (suci_text s).
Proof.
  destruct s as [p ri sch hn msin out]. unfold suci_ok, suci_wire, suci_text.
  cbn [s_plmn s_ri s_scheme s_hnpki s_msin s_out].
  intros (Hp & Hri & Hrl & Hs & Hh & Hout).
  pose proof (plmn_pieces p Hp) as HP. pose proof (routing_ind_ok ri Hri Hrl) as HR.
  destruct (plmn_wire p) as [|p1 [|p2 [|p3 [|]]]] eqn:EP; try contradiction.
  destruct (ri_octets ri) as [|r1 [|r2 [|]]] eqn:ER; try contradiction.
  destruct HP as (HM1 & HM2).
  rewrite <- suci_join_text. rewrite <- (sprintf_x_nib sch Hs), <- (sprintf_d_byte hn Hh).
  cbn [app].
  destruct (N.eqb_spec sch 0) as [->|Hn].
  - destruct Hout as (Hm & Hml).
    assert (SO : scheme_output (Sprintf_x 0) ([1; p1; p2; p3; r1; r2; 0; hn] ++ bcd msin) = Ok (map dchar msin)).
    { change (Sprintf_x 0) with s_0. apply scheme_output_null; [reflexivity|assumption|assumption]. }
    pose proof (bcd_length_pos msin Hml) as HL.
    destruct (bcd msin) as [|x o']; [cbn in HL; lia|]. cbn [app] in SO.
    split; [apply suci_conv_core|apply suci_type_core]; assumption.
  - destruct Hout as (Ho & Hol).
    assert (SO : scheme_output (Sprintf_x sch) ([1; p1; p2; p3; r1; r2; sch; hn] ++ out) = Ok (hex_of_octets out)).
    { rewrite sprintf_x_nib by exact Hs. apply scheme_output_other; [reflexivity|assumption|assumption|assumption]. }
    destruct out as [|x o']; [cbn in Hol; lia|]. cbn [app] in SO.
    split; [apply suci_conv_core|apply suci_type_core]; assumption.
Qed.

(* ---- SUPI format NAI ---- *)
Lemma nai_text_ok nai : bytes_ok nai -> (1 <= length nai)%nat ->
  SuciToStringWithError (nai_wire nai) = Ok (nai_text nai, []) /\
  NaiToString (nai_wire nai) = Ok (nai_text nai) /\
  MI_GetSUCI (nai_wire nai) = Ok (nai_text nai).
Proof.
  intros Hok Hl. destruct nai as [|x t]; [cbn in Hl; lia|].
  assert (E : conv_naiToString (nai_wire (x :: t)) = Ok (nai_text (x :: t))).
  { unfold conv_naiToString, nai_wire, nai_text. cbn [length Nat.ltb Nat.leb].
    unfold slice_from, slice. cbn [length Nat.leb andb skipn Nat.sub].
    replace (Nat.leb (length t) (length t)) with true by (symmetry; apply Nat.leb_le; lia).
    rewrite firstn_all2 by (cbn [length]; lia). cbn [obind strings_Join].
    rewrite hex_of_octets_encode by exact Hok. reflexivity. }
  repeat split.
  - unfold SuciToStringWithError. cbn [nai_wire length Nat.ltb Nat.leb idx nth_error obind].
    change (N.shiftr (N.land 17 240) 4 =? 1) with true. cbv iota.
    change (17 :: x :: t) with (nai_wire (x :: t)). rewrite E. reflexivity.
  - unfold NaiToString. rewrite E. reflexivity.
  - unfold MI_GetSUCI, type_is, MI_GetTypeOfIdentity, nai_wire. cbn [idx nth_error obind].
    change (N.land 17 7) with 1. cbn [N.eqb Pos.eqb]. change (eqb_bytes s_SUCI s_SUCI) with true. cbv iota.
    change (N.shiftr (N.land 17 240) 4 =? 1) with true. cbv iota.
    unfold type_naiToString, nai_text.
    unfold slice_from, slice. cbn [length Nat.leb andb skipn Nat.sub].
    replace (Nat.leb (length t) (length t)) with true by (symmetry; apply Nat.leb_le; lia).
    rewrite firstn_all2 by (cbn [length]; lia). cbn [obind strings_Join].
    rewrite hex_of_octets_encode by exact Hok. reflexivity.
Qed.

(* =====================================================================  IMEI / IMEISV *)
Lemma pei_loop_hex rest d : d < 16 -> bytes_ok rest ->
  hex_EncodeToString (pei_loop rest (d * 16)) = hexdigit d :: nibs_lo_hi rest ++ [hexdigit 0].
Proof.
  intros Hd Hok. revert d Hd. induction Hok as [|o t Ho Ht IH]; intros d Hd.
  - cbn [pei_loop]. replace (d * 16) with (d * 16 + 0) by lia. rewrite hex2 by lia. reflexivity.
  - cbn [pei_loop]. unfold is_byte in Ho. rewrite land15, land240 by exact Ho.
    rewrite hex_encode_cons. rewrite IH by lia.
    unfold add8, u8. rewrite (N.mod_small (d * 16 + o mod 16)) by lia.
    replace ((d * 16 + o mod 16) / 16) with d by lia.
    replace ((d * 16 + o mod 16) mod 16) with (o mod 16) by lia.
    unfold nibs_lo_hi. cbn [flat_map app]. reflexivity.
Qed.

Lemma pei_digits_ok typ d1 t : typ < 8 -> d1 < 10 -> decs t ->
  pei_digits (pei_wire typ (d1 :: t)) = Ok (map dchar (d1 :: t)).
Proof.
  intros Ht Hd1 Hd. unfold pei_digits, pei_wire. cbn [idx nth_error obind].
  set (odd := N.of_nat (length (d1 :: t)) mod 2).
  assert (Hodd : odd < 2) by (unfold odd; lia).
  rewrite land240 by lia.
  replace ((d1 * 16 + odd * 8 + typ) / 16 * 16) with (d1 * 16) by lia.
  unfold slice_from, slice. cbn [length Nat.leb andb skipn Nat.sub].
  replace (Nat.leb (length (bcd t)) (length (bcd t))) with true by (symmetry; apply Nat.leb_le; lia).
  rewrite firstn_all2 by lia. cbn [obind].
  rewrite pei_loop_hex by (try apply bcd_ok; try assumption; lia).
  rewrite nibs_bcd by exact Hd.
  change (hexdigit d1 :: (map dchar t ++ filler (length t)) ++ [hexdigit 0])
    with ((hexdigit d1 :: map dchar t ++ filler (length t)) ++ [hexdigit 0]).
  rewrite drop_last_snoc. cbn [obind].
  assert (E : N.shiftr (N.land (d1 * 16 + odd * 8 + typ) 8) 3 = odd).
  { change 8 with (N.shiftl (N.ones 1) 3) at 2. rewrite land_shifted_ones, shiftr_div.
    change (2 ^ 3) with 8. change (2 ^ 1) with 2. lia. }
  rewrite E. rewrite hexdigit_dchar by exact Hd1. cbn [map].
  unfold filler, odd. cbn [length].
  destruct (Nat.even (length t)) eqn:EV.
  - (* total number of digits odd: no filler *)
    assert (Nat.odd (length t) = false) as -> by (unfold Nat.odd; rewrite EV; reflexivity).
    rewrite app_nil_r.
    assert (N.of_nat (S (length t)) mod 2 = 1) as ->.
    { apply Nat.even_spec in EV. destruct EV as (k & EV). rewrite EV. lia. }
    reflexivity.
  - assert (Nat.odd (length t) = true) as -> by (unfold Nat.odd; rewrite EV; reflexivity).
    assert (N.of_nat (S (length t)) mod 2 = 0) as ->.
    { assert (O : Nat.odd (length t) = true) by (unfold Nat.odd; rewrite EV; reflexivity).
      apply Nat.odd_spec in O. destruct O as (k & O). rewrite O. lia. }
    cbn [N.eqb].
    change (dchar d1 :: map dchar t ++ [102]) with ((dchar d1 :: map dchar t) ++ [102]).
    apply drop_last_snoc.
Qed.

Lemma pei_text_ok typ ds : (typ = 3 \/ typ = 5) -> decs ds -> (1 <= length ds)%nat ->
  PeiToStringWithError (pei_wire typ ds) = Ok (pei_text typ ds).
Proof.
  intros Ht Hd Hl. destruct ds as [|d1 t]; [cbn in Hl; lia|]. inversion Hd; subst.
  unfold PeiToStringWithError. rewrite pei_digits_ok by (try assumption; lia).
  unfold pei_wire at 1 2. cbn [length Nat.ltb Nat.leb idx nth_error obind].
  set (odd := N.of_nat (S (length t)) mod 2). assert (Hodd : odd < 2) by (unfold odd; lia).
  rewrite land_ones_mod with (n := 3) || (change 7 with (N.ones 3); rewrite land_ones_mod).
  change (2 ^ 3) with 8.
  replace ((d1 * 16 + odd * 8 + typ) mod 8) with typ by lia.
  unfold pei_text. destruct Ht as [-> | ->]; reflexivity.
Qed.
