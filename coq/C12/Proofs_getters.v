(* C12/Proofs_getters.v -- the nasType.MobileIdentity5GS text getters on valid identities *)
From NV Require Import Lib.Base Lib.Bits C12.GoStd C12.Model C12.Spec C12.Proofs_base C12.Proofs_plmn
  C12.Proofs_guti C12.Proofs_suci.
From Coq Require Import ZifyN ZifyNat ZifyBool.
Open Scope N_scope.
Ltac Zify.zify_post_hook ::= Z.div_mod_to_equations.

Lemma format_dec n : n < 1024 -> FormatUint n 10 = dec_text n.
Proof.
  intro H. apply eqb_bytes_spec. revert n H.
  apply (forall_lt 1024 (fun n => eqb_bytes (FormatUint n 10) (dec_text n))). vm_compute. reflexivity.
Qed.

Ltac eval_eqb_bytes :=
  repeat match goal with |- context [eqb_bytes ?a ?b] =>
    let v := eval vm_compute in (eqb_bytes a b) in change (eqb_bytes a b) with v end; cbv iota.

(* ---- 5G-GUTI ---- *)
Lemma guti_wire_explicit g : guti_ok g -> exists t0 t1 t2 t3,
  be_octets 4 (g_tmsi g) = [t0; t1; t2; t3] /\
  guti_wire g = [242; mcc2 (g_plmn g) * 16 + mcc1 (g_plmn g); mnc3_nibble (g_plmn g) * 16 + mcc3 (g_plmn g);
                 mnc2 (g_plmn g) * 16 + mnc1 (g_plmn g);
                 region (g_amf g); set (g_amf g) / 4; set (g_amf g) mod 4 * 64 + pointer (g_amf g); t0; t1; t2; t3].
Proof.
  intros (Hp & Ha & Ht). destruct (be4_cases (g_tmsi g)) as (t0 & t1 & t2 & t3 & Et).
  exists t0, t1, t2, t3. split; [exact Et|].
  unfold guti_wire, amf_octets. rewrite Et, be3_amf by exact Ha. reflexivity.
Qed.

Lemma guti_getters g : guti_ok g ->
  let w := guti_wire g in let p := g_plmn g in let a := g_amf g in
  MI_GetTypeOfIdentity w = Ok s_5GGUTI /\
  MI_GetMCC w = Ok (Spec.mcc_text p) /\ MI_GetMNC w = Ok (Spec.mnc_text p) /\ MI_GetPlmnID w = Ok (plmn_text p) /\
  MI_GetAmfID w = Ok (amf_text a) /\ MI_GetAmfRegionID w = Ok (hex_text 2 (region a)) /\
  MI_GetAmfSetID w = Ok (dec_text (set a)) /\ MI_GetAmfPointer w = Ok (dec_text (pointer a)) /\
  MI_Get5GTMSI w = Ok (hex_text 8 (g_tmsi g)) /\
  MI_Get5GGUTI w = Ok (guti_text g) /\
  MI_GetMobileIdentity w = Ok (guti_text g, s_5GGUTI).
Proof.
  intro H. cbv zeta. destruct (guti_wire_explicit g H) as (t0 & t1 & t2 & t3 & Et & ->).
  destruct H as (Hp & Ha & Ht). destruct g as [p a t]. cbn [g_plmn g_amf g_tmsi] in *.
  pose proof (plmn_pieces p Hp) as HP. unfold plmn_wire in HP. destruct HP as (HM1 & HM2).
  assert (Hs : set a < 1024 /\ pointer a < 64 /\ region a < 256) by (destruct Ha as (? & ? & ?); repeat split; assumption).
  destruct Hs as (Hs & Hpt & Hr).
  set (w := [242; mcc2 p * 16 + mcc1 p; mnc3_nibble p * 16 + mcc3 p; mnc2 p * 16 + mnc1 p;
             region a; set a / 4; set a mod 4 * 64 + pointer a; t0; t1; t2; t3]).
  assert (T : MI_GetTypeOfIdentity w = Ok s_5GGUTI) by reflexivity.
  assert (M1 : MI_GetMCC w = Ok (Spec.mcc_text p)) by (unfold MI_GetMCC, w; cbn [idx nth_error obind]; exact HM1).
  assert (M2 : MI_GetMNC w = Ok (Spec.mnc_text p)) by (unfold MI_GetMNC, w; cbn [idx nth_error obind]; exact HM2).
  assert (A : MI_GetAmfID w = Ok (amf_text a)).
  { unfold MI_GetAmfID, w, slice. cbn [length Nat.leb andb Nat.sub skipn firstn obind].
    rewrite <- be3_amf by exact Ha. unfold amf_text. change 6%nat with (2 * 3)%nat. rewrite <- hex_text_be. reflexivity. }
  assert (TM : MI_Get5GTMSI w = Ok (hex_text 8 t)).
  { unfold MI_Get5GTMSI, type_is. rewrite T. cbn [obind]. eval_eqb_bytes.
    unfold slice_from, slice, w. cbn [length Nat.leb andb Nat.sub skipn firstn obind].
    rewrite <- Et. change 8%nat with (2 * 4)%nat. rewrite <- hex_text_be. reflexivity. }
  assert (G : MI_Get5GGUTI w = Ok (guti_text {| g_plmn := p; g_amf := a; g_tmsi := t |})).
  { unfold MI_Get5GGUTI. rewrite M1, M2, A, TM. cbn [obind]. unfold guti_text, plmn_text. cbn [g_plmn g_amf g_tmsi].
    rewrite <- app_assoc. reflexivity. }
  repeat split; try assumption.
  - unfold MI_GetPlmnID. rewrite M1, M2. reflexivity.
  - unfold MI_GetAmfRegionID, w, slice. cbn [length Nat.leb andb Nat.sub skipn firstn obind].
    change 2%nat with (2 * 1)%nat. rewrite <- hex_text_be. cbn [be_octets app].
    rewrite N.mod_small by exact Hr. reflexivity.
  - unfold MI_GetAmfSetID, type_is. rewrite T. cbn [obind]. eval_eqb_bytes.
    unfold w. cbn [idx nth_error obind Nat.add].
    rewrite GetBitMask_8_2. unfold add16, shl16, u16. rewrite shl2, land252, shr6.
    replace ((set a / 4 * 4) mod 65536 + (set a mod 4 * 64 + pointer a) / 4 mod 64 * 4 / 64) with (set a) by lia.
    rewrite N.mod_small by lia. rewrite format_dec by exact Hs. reflexivity.
  - unfold MI_GetAmfPointer, type_is. rewrite T. cbn [obind]. eval_eqb_bytes.
    unfold w. cbn [idx nth_error obind].
    rewrite GetBitMask_6_0, land63.
    replace ((set a mod 4 * 64 + pointer a) mod 64) with (pointer a) by lia.
    rewrite format_dec by lia. reflexivity.
  - unfold MI_GetMobileIdentity. rewrite T. cbn [obind]. eval_eqb_bytes. rewrite G. reflexivity.
Qed.

(* ---- 5G-S-TMSI ---- *)
Lemma be6_cases v : exists a b c d e f, be_octets 6 v = [a; b; c; d; e; f].
Proof. cbn [be_octets app]. do 6 eexists. reflexivity. Qed.

Lemma stmsi_text_ok t :
  MI_Get5GSTMSI (stmsi_wire t) = Ok (stmsi_text t, s_5GSTMSI) /\
  TMSI5GS_Get5GSTMSI (stmsi_wire t) = Ok (stmsi_text t).
Proof.
  unfold stmsi_wire, stmsi_text. change 12%nat with (2 * 6)%nat. rewrite <- hex_text_be.
  destruct (be6_cases (stmsi_value t)) as (a & b & c & d & e & f & ->). cbn [app]. split.
  - unfold MI_Get5GSTMSI, MI_Get5GTMSI, type_is. 
    assert (T : MI_GetTypeOfIdentity [244; a; b; c; d; e; f] = Ok s_5GSTMSI) by reflexivity.
    rewrite T. cbn [obind]. eval_eqb_bytes.
    unfold slice_from, slice. cbn [length Nat.leb andb Nat.sub skipn firstn obind]. reflexivity.
  - unfold TMSI5GS_Get5GSTMSI, slice. cbn [length Nat.leb andb Nat.sub skipn firstn obind]. reflexivity.
Qed.

Lemma be6_stmsi t : stmsi_ok t -> exists t0 t1 t2 t3,
  be_octets 6 (stmsi_value t) = [t_set t / 4; t_set t mod 4 * 64 + t_pointer t; t0; t1; t2; t3] /\
  be_octets 4 (t_tmsi t) = [t0; t1; t2; t3].
Proof.
  destruct t as [s p m]. unfold stmsi_ok, stmsi_value. cbn [t_set t_pointer t_tmsi].
  change (2 ^ 10) with 1024. change (2 ^ 6) with 64. change (2 ^ 32) with 4294967296. change (2 ^ 38) with 274877906944.
  intros (Hs & Hp & Hm).
  do 4 eexists. split; [|cbn [be_octets app]; reflexivity].
  cbn [be_octets app].
  assert (E : (s * 274877906944 + p * 4294967296 + m) / 256 / 256 / 256 / 256 = s * 64 + p) by lia.
  f_equal; [|f_equal; [|f_equal; [|f_equal; [|f_equal; [|f_equal]]]]].
  - rewrite E. lia.
  - rewrite E. lia.
  - assert ((s * 274877906944 + p * 4294967296 + m) / 256 / 256 / 256 = (s * 64 + p) * 256 + m / 256 / 256 / 256) as -> by lia. lia.
  - assert ((s * 274877906944 + p * 4294967296 + m) / 256 / 256 = (s * 64 + p) * 65536 + m / 256 / 256) as -> by lia. lia.
  - assert ((s * 274877906944 + p * 4294967296 + m) / 256 = (s * 64 + p) * 16777216 + m / 256) as -> by lia. lia.
  - lia.
Qed.

Lemma stmsi_getters t : stmsi_ok t ->
  let w := stmsi_wire t in
  MI_GetTypeOfIdentity w = Ok s_5GSTMSI /\
  MI_GetAmfSetID w = Ok (dec_text (t_set t)) /\ MI_GetAmfPointer w = Ok (dec_text (t_pointer t)) /\
  MI_Get5GTMSI w = Ok (hex_text 8 (t_tmsi t)) /\
  TMSI5GS_GetAMFSetID w = t_set t /\ TMSI5GS_GetAMFPointer w = t_pointer t.
Proof.
  intro H. cbv zeta. unfold stmsi_wire.
  destruct (be6_stmsi t H) as (t0 & t1 & t2 & t3 & -> & Et). cbn [app].
  destruct H as (Hs & Hp & Hm). change (2 ^ 10) with 1024 in Hs. change (2 ^ 6) with 64 in Hp.
  set (w := [244; t_set t / 4; t_set t mod 4 * 64 + t_pointer t; t0; t1; t2; t3]).
  assert (T : MI_GetTypeOfIdentity w = Ok s_5GSTMSI) by reflexivity.
  repeat split; try assumption.
  - unfold MI_GetAmfSetID, type_is. rewrite T. cbn [obind]. eval_eqb_bytes.
    unfold w. cbn [idx nth_error obind Nat.add].
    rewrite GetBitMask_8_2. unfold add16, shl16, u16. rewrite shl2, land252, shr6.
    replace ((t_set t / 4 * 4) mod 65536 + (t_set t mod 4 * 64 + t_pointer t) / 4 mod 64 * 4 / 64) with (t_set t) by lia.
    rewrite N.mod_small by lia. rewrite format_dec by exact Hs. reflexivity.
  - unfold MI_GetAmfPointer, type_is. rewrite T. cbn [obind]. eval_eqb_bytes.
    unfold w. cbn [idx nth_error obind].
    rewrite GetBitMask_6_0, land63.
    replace ((t_set t mod 4 * 64 + t_pointer t) mod 64) with (t_pointer t) by lia.
    rewrite format_dec by lia. reflexivity.
  - unfold MI_Get5GTMSI, type_is. rewrite T. cbn [obind]. eval_eqb_bytes.
    unfold slice_from, slice, w. cbn [length Nat.leb andb Nat.sub skipn firstn obind].
    rewrite <- Et. change 8%nat with (2 * 4)%nat. rewrite <- hex_text_be. reflexivity.
  - unfold TMSI5GS_GetAMFSetID. rewrite get_setid_at by (unfold w; cbn [oget nth]; lia).
    unfold w. cbn [oget nth]. lia.
  - unfold TMSI5GS_GetAMFPointer. rewrite get_pointer_at. unfold w. cbn [oget nth]. lia.
Qed.

(* ---- IMEI / IMEISV ---- *)
Lemma pei_getters typ ds : (typ = 3 \/ typ = 5) -> decs ds -> (1 <= length ds)%nat ->
  let w := pei_wire typ ds in
  (typ = 3 -> MI_GetIMEI w = Ok (pei_text 3 ds) /\ MI_GetIMEISV w = Ok [] /\
              MI_GetMobileIdentity w = Ok (pei_text 3 ds, s_IMEI)) /\
  (typ = 5 -> MI_GetIMEISV w = Ok (pei_text 5 ds) /\ MI_GetIMEI w = Ok [] /\
              MI_GetMobileIdentity w = Ok (pei_text 5 ds, s_IMEISV)).
Proof.
  intros Ht Hd Hl. cbv zeta. destruct ds as [|d1 t]; [cbn in Hl; lia|]. inversion Hd; subst.
  pose proof (pei_digits_ok typ d1 t ltac:(lia) ltac:(assumption) ltac:(assumption)) as PD.
  set (odd := N.of_nat (length (d1 :: t)) mod 2) in *. assert (Hodd : odd < 2) by (unfold odd; lia).
  assert (T7 : forall rest, MI_GetTypeOfIdentity ((d1 * 16 + odd * 8 + typ) :: rest) =
               if typ =? 3 then Ok s_IMEI else Ok s_IMEISV).
  { intro rest. unfold MI_GetTypeOfIdentity. cbn [idx nth_error obind].
    change 7 with (N.ones 3). rewrite land_ones_mod. change (2 ^ 3) with 8.
    replace ((d1 * 16 + odd * 8 + typ) mod 8) with typ by lia.
    destruct Ht as [-> | ->]; reflexivity. }
  unfold pei_wire in *. fold odd. fold odd in PD.
  split; intros ->.
  - unfold MI_GetIMEI, MI_GetIMEISV, MI_GetMobileIdentity, type_is. rewrite !T7. cbn [N.eqb Pos.eqb obind].
    eval_eqb_bytes. unfold MI_GetIMEI, type_is. rewrite T7. cbn [N.eqb Pos.eqb obind]. eval_eqb_bytes.
    unfold type_peiToString. rewrite PD. repeat split; reflexivity.
  - unfold MI_GetIMEI, MI_GetIMEISV, MI_GetMobileIdentity, type_is. rewrite !T7. cbn [N.eqb Pos.eqb obind].
    eval_eqb_bytes. unfold MI_GetIMEISV, type_is. rewrite T7. cbn [N.eqb Pos.eqb obind]. eval_eqb_bytes.
    unfold type_peiToString. rewrite PD. repeat split; reflexivity.
Qed.

(* GetMobileIdentity on a SUCI *)
Lemma suci_mobile_identity s : suci_ok s -> MI_GetMobileIdentity (suci_wire s) = Ok (suci_text s, s_SUCI).
Proof.
  intro H. pose proof (suci_text_ok s H) as (_ & G).
  unfold MI_GetMobileIdentity.
  assert (T : MI_GetTypeOfIdentity (suci_wire s) = Ok s_SUCI) by reflexivity.
  rewrite T. cbn [obind]. eval_eqb_bytes. rewrite G. reflexivity.
Qed.

(* GetMobileIdentity on a 5G-S-TMSI (after fix c23cc0d it goes through Get5GSTMSI): the full 5G-S-TMSI text *)
Lemma stmsi_mobile_identity t : stmsi_ok t ->
  MI_GetMobileIdentity (stmsi_wire t) = Ok (stmsi_text t, s_5GSTMSI).
Proof.
  intro H. destruct (stmsi_getters t H) as (T & _). destruct (stmsi_text_ok t) as (E & _).
  unfold MI_GetMobileIdentity. rewrite T. cbn [obind]. eval_eqb_bytes. rewrite E. reflexivity.
Qed.
