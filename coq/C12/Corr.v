(* C12 correspondence: calls observed on the Go implementation, replayed on the model.
   Observables: result class and the returned strings / numbers (never error text). *)
From NV Require Import Lib.Base C12.GoStd C12.Model.
Open Scope N_scope.

Inductive getter :=
| GTypeOfIdentity | GMobileIdentity | GSUCI | GPlmnID | GMCC | GMNC | G5GGUTI | GAmfID
| GAmfRegionID | GAmfSetID | GAmfPointer | G5GTMSI | GIMEI | GIMEISV | G5GSTMSI
| GnaiToString | GpeiToString.

Inductive call :=
(* nasConvert *)
| CSuciE (buf : bytes) | CSuci (buf : bytes) | CNai (buf : bytes)
| CGutiStrE (buf : bytes) | CGutiStr (buf : bytes)
| CGutiNasE (s : bytes) | CGutiNas (s : bytes)
| CPeiE (buf : bytes) | CPei (buf : bytes)
| CPlmnNas (mcc mnc : bytes) | CPlmnStr (buf : bytes)
| CAmfNasE (s : bytes) | CAmfNas (s : bytes) | CAmfModels (r s p : N)
| CConvType (b : N)
(* nasType *)
| CMI (g : getter) (buf : bytes)
| CTmsiStmsi (oct : bytes)            (* TMSI5GS.Get5GSTMSI, 7 octets *)
| CGutiAcc (oct : bytes)              (* GUTI5G.GetAMFRegionID/GetAMFSetID/GetAMFPointer, 11 octets *)
| CGutiSet (oct : bytes) (s p : N)    (* GUTI5G.SetAMFSetID(s); SetAMFPointer(p) *)
| CTmsiAcc (oct : bytes)              (* TMSI5GS.GetAMFSetID/GetAMFPointer, 7 octets *)
| CTmsiSet (oct : bytes) (s p : N)
| CGutiSetId (oct : bytes) (s : N) | CGutiSetPtr (oct : bytes) (p : N)   (* one setter alone *)
| CTmsiSetId (oct : bytes) (s : N) | CTmsiSetPtr (oct : bytes) (p : N)
| CBitMask (ub lb : N)
(* stdlib models *)
| CHexEnc (b : bytes) | CHexDec (s : bytes)
| CAtoi (s : bytes) | CAtoiByte (b : N)
| CParseInt (s : bytes) (base bits : N)
| CFormatUint (n base : N)
| CSprintfX (b : N) | CSprintfD (b : N) | CSprintf02d (z : Z)
| CSplit (s sep : bytes) | CJoin (l : list bytes) (sep : bytes)
| CIndex (s sub : bytes) | CHasPrefix (s p : bytes)
| CRotl (x : N) (k : Z)
| CBE16 (b : bytes) | CBE32 (b : bytes) | CPut16 (b : bytes) (v : N) | CPut32 (b : bytes) (v : N).

(* every result is projected to (strings, numbers) *)
Definition res := (list bytes * list Z)%type.
Definition str1 (o : outcome bytes) : outcome res := omap (fun s => ([s], [])) o.
Definition zn (n : N) : Z := Z.of_N n.

Definition run_getter (g : getter) (buf : bytes) : outcome res :=
  match g with
  | GTypeOfIdentity => str1 (MI_GetTypeOfIdentity buf)
  | GMobileIdentity => omap (fun r => ([fst r; snd r], [])) (MI_GetMobileIdentity buf)
  | GSUCI => str1 (MI_GetSUCI buf)
  | GPlmnID => str1 (MI_GetPlmnID buf)
  | GMCC => str1 (MI_GetMCC buf)
  | GMNC => str1 (MI_GetMNC buf)
  | G5GGUTI => str1 (MI_Get5GGUTI buf)
  | GAmfID => str1 (MI_GetAmfID buf)
  | GAmfRegionID => str1 (MI_GetAmfRegionID buf)
  | GAmfSetID => str1 (MI_GetAmfSetID buf)
  | GAmfPointer => str1 (MI_GetAmfPointer buf)
  | G5GTMSI => str1 (MI_Get5GTMSI buf)
  | GIMEI => str1 (MI_GetIMEI buf)
  | GIMEISV => str1 (MI_GetIMEISV buf)
  | G5GSTMSI => omap (fun r => ([fst r; snd r], [])) (MI_Get5GSTMSI buf)
  | GnaiToString => str1 (type_naiToString buf)
  | GpeiToString => str1 (type_peiToString buf)
  end.

Definition run (c : call) : outcome res :=
  match c with
  | CSuciE buf => omap (fun r => ([fst r; snd r], [])) (SuciToStringWithError buf)
  | CSuci buf => omap (fun r => ([fst r; snd r], [])) (SuciToString buf)
  | CNai buf => str1 (NaiToString buf)
  | CGutiStrE buf =>
      omap (fun r => let '(a, b, c, d) := r in ([a; b; c; d], [])) (GutiToStringWithError buf)
  | CGutiStr buf =>
      omap (fun r => let '(a, b, c, d) := r in ([a; b; c; d], [])) (GutiToString buf)
  | CGutiNasE s =>
      omap (fun r => let '(i, l, o) := r in ([o], [zn i; zn l])) (GutiToNasWithError s)
  | CGutiNas s =>
      omap (fun r => let '(i, l, o) := r in ([o], [zn i; zn l])) (GutiToNas s)
  | CPeiE buf => str1 (PeiToStringWithError buf)
  | CPei buf => str1 (PeiToString buf)
  | CPlmnNas mcc mnc => str1 (PlmnIDToNas mcc mnc)
  | CPlmnStr buf => str1 (PlmnIDToString buf)
  | CAmfNasE s =>
      omap (fun r => let '(a, b, c) := r in ([], [zn a; zn b; zn c])) (AmfIdToNasWithError s)
  | CAmfNas s =>
      omap (fun r => let '(a, b, c) := r in ([], [zn a; zn b; zn c])) (AmfIdToNas s)
  | CAmfModels r s p => Ok ([AmfIdToModels r s p], [])
  | CConvType b => Ok ([], [zn (conv_GetTypeOfIdentity b)])
  | CMI g buf => run_getter g buf
  | CTmsiStmsi o => omap (fun s => ([s; s_5GSTMSI], [])) (TMSI5GS_Get5GSTMSI o)
  | CGutiAcc o => Ok ([], [zn (GUTI5G_GetAMFRegionID o); zn (GUTI5G_GetAMFSetID o); zn (GUTI5G_GetAMFPointer o)])
  | CGutiSet o s p => Ok ([GUTI5G_SetAMFPointer (GUTI5G_SetAMFSetID o s) p], [])
  | CTmsiAcc o => Ok ([], [zn (TMSI5GS_GetAMFSetID o); zn (TMSI5GS_GetAMFPointer o)])
  | CTmsiSet o s p => Ok ([TMSI5GS_SetAMFPointer (TMSI5GS_SetAMFSetID o s) p], [])
  | CGutiSetId o s => Ok ([GUTI5G_SetAMFSetID o s], [])
  | CGutiSetPtr o p => Ok ([GUTI5G_SetAMFPointer o p], [])
  | CTmsiSetId o s => Ok ([TMSI5GS_SetAMFSetID o s], [])
  | CTmsiSetPtr o p => Ok ([TMSI5GS_SetAMFPointer o p], [])
  | CBitMask ub lb => Ok ([], [zn (GetBitMask ub lb)])
  | CHexEnc b => Ok ([hex_EncodeToString b], [])
  | CHexDec s => str1 (hex_DecodeString s)
  | CAtoi s => omap (fun z => ([], [z])) (Atoi s)
  | CAtoiByte b => omap (fun z => ([], [z])) (Atoi (string_of_byte b))
  | CParseInt s base bits => omap (fun z => ([], [z])) (ParseInt s base bits)
  | CFormatUint n base => Ok ([FormatUint n base], [])
  | CSprintfX b => Ok ([Sprintf_x b], [])
  | CSprintfD b => Ok ([Sprintf_d b], [])
  | CSprintf02d z => Ok ([Sprintf_02d z], [])
  | CSplit s sep => omap (fun l => (l, [])) (strings_Split s sep)
  | CJoin l sep => Ok ([strings_Join l sep], [])
  | CIndex s sub => Ok ([], [strings_Index s sub])
  | CHasPrefix s p => Ok ([], [if strings_HasPrefix s p then 1%Z else 0%Z])
  | CRotl x k => Ok ([], [zn (RotateLeft8 x k)])
  | CBE16 b => omap (fun v => ([], [zn v])) (BE_Uint16 b)
  | CBE32 b => omap (fun v => ([], [zn v])) (BE_Uint32 b)
  | CPut16 b v => str1 (BE_PutUint16 b v)
  | CPut32 b v => str1 (BE_PutUint32 b v)
  end.

Inductive obs := OOk (strs : list bytes) (nums : list Z) | OErr | OPanic.

Definition obs_match (o : outcome res) (x : obs) : bool :=
  match o, x with
  | Ok (ss, ns), OOk ss' ns' => eqb_list eqb_bytes ss ss' && eqb_list Z.eqb ns ns'
  | Err, OErr => true
  | Panic, OPanic => true
  | _, _ => false
  end.

Definition case := (N * call * obs)%type.
Definition case_id (c : case) : N := fst (fst c).
Definition case_ok (c : case) : bool := obs_match (run (snd (fst c))) (snd c).

Definition mismatches (cs : list case) : list N :=
  map case_id (filter (fun c => negb (case_ok c)) cs).
