(* C12/Proofs_plmn.v -- nibble arithmetic of the model; PLMN and AMF identifier *)
From NV Require Import Lib.Base Lib.Bits C12.GoStd C12.Model C12.Spec C12.Proofs_base.
From Coq Require Import ZifyN ZifyNat ZifyBool.
Open Scope N_scope.
Ltac Zify.zify_post_hook ::= Z.div_mod_to_equations.

(* ---- octet / nibble facts, decided on the whole domain ---- *)
Ltac by_bytes P := let H := fresh in intros ? H; apply N.eqb_eq; revert H; apply (byte_forall P); vm_compute; reflexivity.

Lemma rotl4 x : x < 256 -> RotateLeft8 x 4 = (x mod 16) * 16 + x / 16.
Proof. revert x. intros x H. apply N.eqb_eq. revert x H.
  apply (byte_forall (fun x => RotateLeft8 x 4 =? (x mod 16) * 16 + x / 16)). vm_compute. reflexivity. Qed.

Lemma land15 x : N.land x 15 = x mod 16.
Proof. change 15 with (N.ones 4). apply land_ones_mod. Qed.
Lemma land240 x : x < 256 -> N.land x 240 = (x / 16) * 16.
Proof.
  intro H. change 240 with (N.shiftl (N.ones 4) 4). rewrite land_shifted_ones.
  change (2 ^ 4) with 16. rewrite N.mod_small by lia. reflexivity.
Qed.
Lemma shr4 x : N.shiftr x 4 = x / 16.
Proof. rewrite shiftr_div. reflexivity. Qed.
Lemma shl8_4 x : x < 16 -> shl8 x 4 = x * 16.
Proof. intro H. unfold shl8, u8. rewrite shiftl_mul. change (2 ^ 4) with 16. apply N.mod_small. lia. Qed.
Lemma lor_nib a b : b < 16 -> N.lor (a * 16) b = a * 16 + b.
Proof. intro H. change 16 with (2 ^ 4). apply lor_disjoint_add. exact H. Qed.

Lemma nib_pack_ok a b : a < 16 -> b < 16 -> nib_pack (Z.of_N a) (Z.of_N b) = a * 16 + b.
Proof.
  intros Ha Hb. apply N.eqb_eq. revert a b Ha Hb.
  apply (nib2_forall (fun a b => nib_pack (Z.of_N a) (Z.of_N b) =? a * 16 + b)). vm_compute. reflexivity.
Qed.

Lemma hex2 a b : a < 16 -> b < 16 -> hex_EncodeToString [a * 16 + b] = [hexdigit a; hexdigit b].
Proof.
  intros. cbn [hex_EncodeToString flat_map app].
  replace ((a * 16 + b) / 16) with a by lia. replace ((a * 16 + b) mod 16) with b by lia. reflexivity.
Qed.

Lemma hex_encode_nibs (l : list (N * N)) :
  Forall (fun p => fst p < 16 /\ snd p < 16) l ->
  hex_EncodeToString (map (fun p => fst p * 16 + snd p) l) = flat_map (fun p => [hexdigit (fst p); hexdigit (snd p)]) l.
Proof.
  induction 1 as [|[a b] t [Ha Hb] Ht IH]; [reflexivity|].
  cbn [map flat_map fst snd]. rewrite hex_encode_cons, IH. cbn [fst snd] in *.
  replace ((a * 16 + b) / 16) with a by lia. replace ((a * 16 + b) mod 16) with b by lia. reflexivity.
Qed.

(* ---- PlmnIDToString on three octets given by their nibbles ---- *)
Lemma PlmnIDToString_nibs a b c d e f :
  a < 16 -> b < 16 -> c < 16 -> d < 16 -> e < 16 -> f < 16 ->
  PlmnIDToString [b * 16 + a; f * 16 + c; e * 16 + d] =
  Ok (if f =? 15 then map hexdigit [a; b; c; d; e] else map hexdigit [a; b; c; d; e; f]).
Proof.
  intros Ha Hb Hc Hd He Hf. unfold PlmnIDToString. cbn [idx nth_error obind].
  rewrite !land15, !land240, !shr4 by lia.
  replace ((b * 16 + a) mod 16) with a by lia.
  replace ((b * 16 + a) / 16 * 16 / 16) with b by lia.
  replace ((f * 16 + c) mod 16) with c by lia.
  replace ((e * 16 + d) mod 16) with d by lia.
  replace ((e * 16 + d) / 16 * 16 / 16) with e by lia.
  replace ((f * 16 + c) / 16 * 16 / 16) with f by lia.
  rewrite !shl8_4, !lor_nib by lia.
  change [a * 16 + b; c * 16 + d; e * 16 + f] with (map (fun p => fst p * 16 + snd p) [(a, b); (c, d); (e, f)]).
  rewrite hex_encode_nibs by (repeat constructor; cbn [fst snd]; lia).
  cbn [flat_map app fst snd idx nth_error obind map].
  destruct (N.eqb_spec f 15) as [->|Hn].
  - change (hexdigit 15 =? c_f) with true. cbv iota. reflexivity.
  - replace (hexdigit f =? c_f) with false; [reflexivity|].
    symmetry. apply N.eqb_neq. unfold hexdigit, c_f. destruct (N.ltb_spec f 10); lia.
Qed.

Lemma plmn_text_ok p : plmn_ok p -> PlmnIDToString (plmn_wire p) = Ok (plmn_text p).
Proof.
  destruct p as [a b c d e f]. unfold plmn_ok, plmn_wire, plmn_text, mcc_text, mnc_text, mnc3_nibble.
  cbn [mcc1 mcc2 mcc3 mnc1 mnc2 mnc3]. intros (Ha & Hb & Hc & Hd & He & Hf).
  destruct f as [f|].
  - rewrite PlmnIDToString_nibs by lia.
    destruct (N.eqb_spec f 15); [lia|].
    cbn [map app]. rewrite !hexdigit_dchar by lia. reflexivity.
  - rewrite PlmnIDToString_nibs by lia. change (15 =? 15) with true. cbv iota.
    cbn [map app]. rewrite !hexdigit_dchar by lia. reflexivity.
Qed.

Lemma dchar_byte d : d < 10 -> dchar d < 256.
Proof. unfold dchar. lia. Qed.

Lemma atoi_digit_or_spec s i dflt c :
  nth_error s i = Some c -> c < 256 ->
  atoi_digit_or s i dflt = Ok (match dval c with Some d => Z.of_N d | None => dflt end).
Proof.
  intros Hn Hc. unfold atoi_digit_or, idx. rewrite Hn. cbn [obind].
  rewrite atoi_byte by exact Hc. destruct (dval c); reflexivity.
Qed.

Lemma plmn_wire_ok p : plmn_ok p -> PlmnIDToNas (mcc_text p) (mnc_text p) = Ok (plmn_wire p).
Proof.
  destruct p as [a b c d e f]. unfold plmn_ok, plmn_wire, mcc_text, mnc_text, mnc3_nibble.
  cbn [mcc1 mcc2 mcc3 mnc1 mnc2 mnc3]. intros (Ha & Hb & Hc & Hd & He & Hf).
  unfold PlmnIDToNas.
  rewrite (atoi_digit_or_spec _ 0 0%Z (dchar a)), (atoi_digit_or_spec _ 1 0%Z (dchar b)),
          (atoi_digit_or_spec _ 2 0%Z (dchar c)) by (try reflexivity; apply dchar_byte; lia).
  destruct f as [f|]; cbn [app length Nat.eqb].
  - rewrite (atoi_digit_or_spec _ 0 0%Z (dchar d)), (atoi_digit_or_spec _ 1 0%Z (dchar e)),
            (atoi_digit_or_spec _ 2 15%Z (dchar f)) by (try reflexivity; apply dchar_byte; lia).
    rewrite !dval_dchar by lia. cbn [obind].
    rewrite !nib_pack_ok by lia. reflexivity.
  - rewrite (atoi_digit_or_spec _ 0 0%Z (dchar d)), (atoi_digit_or_spec _ 1 0%Z (dchar e))
      by (try reflexivity; apply dchar_byte; lia).
    rewrite !dval_dchar by lia. cbn [obind].
    change 15%Z with (Z.of_N 15). rewrite !nib_pack_ok by lia. reflexivity.
Qed.

(* both round trips *)
Lemma plmn_roundtrip_text p : plmn_ok p ->
  (w <- PlmnIDToNas (mcc_text p) (mnc_text p) ;; PlmnIDToString w) = Ok (plmn_text p).
Proof. intro H. rewrite plmn_wire_ok by exact H. cbn [obind]. apply plmn_text_ok, H. Qed.

Lemma plmn_roundtrip_wire p : plmn_ok p ->
  (s <- PlmnIDToString (plmn_wire p) ;;
   mcc <- slice s 0 3 ;; mnc <- slice_from s 3 ;; PlmnIDToNas mcc mnc) = Ok (plmn_wire p).
Proof.
  intro H. rewrite plmn_text_ok by exact H. cbn [obind].
  unfold plmn_text.
  change 3%nat with (length (mcc_text p)).
  rewrite slice_app_l. cbn [obind]. rewrite slice_from_app_r. cbn [obind].
  apply plmn_wire_ok, H.
Qed.

(* the documented domain of the two helpers without an error result *)
Lemma PlmnIDToString_total buf : (3 <= length buf)%nat -> is_total (PlmnIDToString buf).
Proof.
  intro H. destruct buf as [|a [|b [|c t]]]; cbn [length] in H; try lia.
  unfold PlmnIDToString. cbn [idx nth_error obind hex_EncodeToString flat_map app].
  match goal with |- context [if ?x then _ else _] => destruct x end; cbn; exact I.
Qed.

Lemma PlmnIDToString_short buf : (length buf < 3)%nat -> PlmnIDToString buf = Panic.
Proof.
  intro H. destruct buf as [|a [|b [|c t]]]; cbn [length] in H; try lia; reflexivity.
Qed.

(* =====================================================================  AMF identifier *)
Lemma land63 x : N.land x 63 = x mod 64.
Proof. change 63 with (N.ones 6). apply land_ones_mod. Qed.
Lemma land3 x : N.land x 3 = x mod 4.
Proof. change 3 with (N.ones 2). apply land_ones_mod. Qed.
Lemma land255 x : N.land x 255 = x mod 256.
Proof. change 255 with (N.ones 8). apply land_ones_mod. Qed.
Lemma land192 x : N.land x 192 = ((x / 64) mod 4) * 64.
Proof. change 192 with (N.shiftl (N.ones 2) 6). rewrite land_shifted_ones. reflexivity. Qed.
Lemma land252 x : N.land x 252 = ((x / 4) mod 64) * 4.
Proof. change 252 with (N.shiftl (N.ones 6) 2). rewrite land_shifted_ones. reflexivity. Qed.
Lemma shr6 x : N.shiftr x 6 = x / 64.
Proof. rewrite shiftr_div. reflexivity. Qed.
Lemma shr2 x : N.shiftr x 2 = x / 4.
Proof. rewrite shiftr_div. reflexivity. Qed.
Lemma shl2 x : N.shiftl x 2 = x * 4.
Proof. rewrite shiftl_mul. reflexivity. Qed.
Lemma shl6 x : N.shiftl x 6 = x * 64.
Proof. rewrite shiftl_mul. reflexivity. Qed.

(* the 10/6 split of two octets, as AmfIdToNasWithError and the nasType getters compute it *)
Lemma setid_of_octets b1 b2 : b1 < 256 -> b2 < 256 ->
  add16 (shl16 b1 2) (N.shiftr (N.land b2 192) 6) = b1 * 4 + b2 / 64.
Proof.
  intros H1 H2. unfold add16, shl16, u16. rewrite shl2, land192, shr6.
  rewrite (N.mod_small (b1 * 4)) by lia. rewrite N.mod_small by lia. lia.
Qed.

(* and back, as AmfIdToModels and the nasType setters compute it *)
Lemma octet1_of_setid s : s < 1024 -> N.land (u8 (N.shiftr s 2)) 255 = s / 4.
Proof. intro H. unfold u8. rewrite shr2, land255. rewrite !N.mod_small by lia. reflexivity. Qed.
Lemma octet2_of_setid_ptr s p : p < 64 ->
  add8 (shl8 (u8 (N.land s 3)) 6) (N.land p 63) = (s mod 4) * 64 + p.
Proof.
  intro H. unfold add8, shl8, u8. rewrite land3, land63, shl6.
  rewrite (N.mod_small (s mod 4)) by lia. rewrite (N.mod_small (s mod 4 * 64)) by lia.
  rewrite (N.mod_small p) by lia. rewrite N.mod_small by lia. reflexivity.
Qed.

Lemma list_ind2 {A} (P : list A -> Prop) :
  P [] -> (forall x, P [x]) -> (forall x y l, P l -> P (x :: y :: l)) -> forall l, P l.
Proof.
  intros H0 H1 H2 l. enough (P l /\ forall x, P (x :: l)) by tauto.
  induction l as [|a t [IH1 IH2]]; split; auto.
Qed.

Lemma hex_decode_cases s :
  (exists l, hex_DecodeString s = Ok l /\ length s = (2 * length l)%nat) \/ hex_DecodeString s = Err.
Proof.
  induction s as [|x|p q t IH] using list_ind2.
  - left. exists []. split; reflexivity.
  - right. reflexivity.
  - cbn [hex_DecodeString].
    destruct (fromHexChar p); [|right; reflexivity]. destruct (fromHexChar q); [|right; reflexivity].
    destruct IH as [(l & -> & L)| ->]; [|right; reflexivity].
    left. eexists. split; [reflexivity|]. cbn [length]. lia.
Qed.

Lemma hex_decode_6 c0 c1 c2 c3 c4 c5 :
  hex_DecodeString [c0; c1; c2; c3; c4; c5] =
  match hval c0, hval c1, hval c2, hval c3, hval c4, hval c5 with
  | Some d0, Some d1, Some d2, Some d3, Some d4, Some d5 => Ok [d0 * 16 + d1; d2 * 16 + d3; d4 * 16 + d5]
  | _, _, _, _, _, _ => Err
  end.
Proof.
  cbn [hex_DecodeString]. rewrite !fromHexChar_hval.
  destruct (hval c0), (hval c1), (hval c2), (hval c3), (hval c4), (hval c5); reflexivity.
Qed.

Lemma hex_decode_8 c0 c1 c2 c3 c4 c5 c6 c7 :
  hex_DecodeString [c0; c1; c2; c3; c4; c5; c6; c7] =
  match hval c0, hval c1, hval c2, hval c3, hval c4, hval c5, hval c6, hval c7 with
  | Some d0, Some d1, Some d2, Some d3, Some d4, Some d5, Some d6, Some d7 =>
      Ok [d0 * 16 + d1; d2 * 16 + d3; d4 * 16 + d5; d6 * 16 + d7]
  | _, _, _, _, _, _, _, _ => Err
  end.
Proof.
  cbn [hex_DecodeString]. rewrite !fromHexChar_hval.
  destruct (hval c0), (hval c1), (hval c2), (hval c3), (hval c4), (hval c5), (hval c6), (hval c7); reflexivity.
Qed.

Definition amf_res (a : amfid) := (region a, set a, pointer a).

(* AmfIdToNasWithError = the specification's parser, on every string *)
Lemma amf_nas_spec s :
  AmfIdToNasWithError s = match parse_amf_text s with Some a => Ok (amf_res a) | None => Err end.
Proof.
  unfold parse_amf_text. destruct (Nat.eqb_spec (length s) 6) as [L|L].
  - destruct s as [|c0 [|c1 [|c2 [|c3 [|c4 [|c5 [|c6 t]]]]]]]; cbn [length] in L; try lia.
    unfold AmfIdToNasWithError. rewrite hex_decode_6.
    unfold parse_hex. cbn [parse_hex_acc].
    destruct (hval c0) as [d0|] eqn:E0; [|reflexivity].
    destruct (hval c1) as [d1|] eqn:E1; [|reflexivity].
    destruct (hval c2) as [d2|] eqn:E2; [|reflexivity].
    destruct (hval c3) as [d3|] eqn:E3; [|reflexivity].
    destruct (hval c4) as [d4|] eqn:E4; [|reflexivity].
    destruct (hval c5) as [d5|] eqn:E5; [|reflexivity].
    apply hval_lt in E0, E1, E2, E3, E4, E5.
    cbn [length Nat.eqb negb idx nth_error obind option_map].
    rewrite setid_of_octets, land63 by lia.
    unfold amf_res, amf_of_value. cbn [region set pointer].
    change (2 ^ 16) with 65536. change (2 ^ 6) with 64. change (2 ^ 10) with 1024.
    f_equal. f_equal; [f_equal|]; lia.
  - unfold AmfIdToNasWithError.
    destruct (hex_decode_cases s) as [(l & -> & L')| ->]; [|reflexivity].
    destruct (Nat.eqb_spec (length l) 3); [lia|]. reflexivity.
Qed.

(* ---- the specification's own consistency: parsing the text form gives the value back ---- *)
Lemma parse_hex_acc_app a b acc :
  parse_hex_acc (a ++ b) acc =
  match parse_hex_acc a acc with Some x => parse_hex_acc b x | None => None end.
Proof.
  revert acc. induction a as [|c t IH]; intro acc; [reflexivity|].
  cbn [app parse_hex_acc]. destruct (hval c); [apply IH|reflexivity].
Qed.

Lemma parse_hex_acc_text n v acc :
  parse_hex_acc (hex_text n v) acc = Some (acc * 16 ^ N.of_nat n + v mod 16 ^ N.of_nat n).
Proof.
  revert v acc. induction n as [|n IH]; intros v acc.
  - cbn [hex_text parse_hex_acc]. f_equal. change (16 ^ N.of_nat 0) with 1. rewrite N.mod_1_r. lia.
  - cbn [hex_text]. rewrite parse_hex_acc_app, IH. cbn [parse_hex_acc].
    rewrite hval_hchar by (apply N.mod_lt; lia). f_equal.
    replace (N.of_nat (S n)) with (N.succ (N.of_nat n)) by lia.
    rewrite N.pow_succ_r'.
    rewrite (N.mod_mul_r v 16 (16 ^ N.of_nat n)) by (try apply N.pow_nonzero; lia).
    lia.
Qed.

Lemma parse_hex_text n v : v < 16 ^ N.of_nat n -> parse_hex (hex_text n v) = Some v.
Proof.
  intro H. unfold parse_hex. rewrite parse_hex_acc_text. f_equal. rewrite N.mod_small by exact H. lia.
Qed.

Lemma amf_value_lt a : amf_ok a -> amf_value a < 2 ^ 24.
Proof.
  destruct a as [r s p]. unfold amf_ok, amf_value. cbn [region set pointer].
  change (2 ^ 8) with 256. change (2 ^ 10) with 1024. change (2 ^ 6) with 64.
  change (2 ^ 16) with 65536. change (2 ^ 24) with 16777216. lia.
Qed.

Lemma amf_of_value_value a : amf_ok a -> amf_of_value (amf_value a) = a.
Proof.
  destruct a as [r s p]. unfold amf_ok, amf_value, amf_of_value. cbn [region set pointer].
  change (2 ^ 8) with 256. change (2 ^ 10) with 1024. change (2 ^ 6) with 64. change (2 ^ 16) with 65536.
  intros (Hr & Hs & Hp). f_equal; lia.
Qed.

Lemma amf_of_value_ok v : v < 2 ^ 24 -> amf_ok (amf_of_value v) /\ amf_value (amf_of_value v) = v.
Proof.
  unfold amf_ok, amf_value, amf_of_value. cbn [region set pointer].
  change (2 ^ 8) with 256. change (2 ^ 10) with 1024. change (2 ^ 6) with 64.
  change (2 ^ 16) with 65536. change (2 ^ 24) with 16777216. intro H. repeat split; lia.
Qed.

Lemma parse_amf_text_text a : amf_ok a -> parse_amf_text (amf_text a) = Some a.
Proof.
  intro H. unfold parse_amf_text, amf_text. rewrite hex_text_length. cbn [Nat.eqb].
  rewrite parse_hex_text by (apply amf_value_lt in H; exact H).
  cbn [option_map]. f_equal. apply amf_of_value_value, H.
Qed.

(* ---- AmfIdToModels ---- *)
Lemma amf_models_text a : amf_ok a ->
  AmfIdToModels (region a) (set a) (pointer a) = amf_text a.
Proof.
  destruct a as [r s p]. unfold amf_ok, amf_text, amf_value. cbn [region set pointer].
  change (2 ^ 8) with 256. change (2 ^ 10) with 1024. change (2 ^ 6) with 64. change (2 ^ 16) with 65536.
  intros (Hr & Hs & Hp). unfold AmfIdToModels.
  rewrite octet1_of_setid, octet2_of_setid_ptr by lia.
  change 6%nat with (2 * 3)%nat. rewrite <- hex_text_be. f_equal.
  cbn [be_octets app]. f_equal; [|f_equal; [|f_equal]]; lia.
Qed.

(* 8 / 10 / 6 split of three octets *)
Lemma amf_layout o0 o1 o2 : o0 < 256 -> o1 < 256 -> o2 < 256 ->
  AmfIdToNasWithError (hex_EncodeToString [o0; o1; o2]) = Ok (o0, o1 * 4 + o2 / 64, o2 mod 64).
Proof.
  intros H0 H1 H2. unfold AmfIdToNasWithError.
  rewrite hex_decode_encode by (repeat constructor; assumption).
  cbn [length Nat.eqb negb idx nth_error obind].
  rewrite setid_of_octets, land63 by lia. reflexivity.
Qed.

Lemma amf_roundtrip_nas a : amf_ok a ->
  AmfIdToNasWithError (AmfIdToModels (region a) (set a) (pointer a)) = Ok (amf_res a).
Proof.
  intro H. rewrite amf_models_text, amf_nas_spec, parse_amf_text_text by exact H. reflexivity.
Qed.

Lemma parse_amf_text_ok s a : parse_amf_text s = Some a -> amf_ok a.
Proof.
  unfold parse_amf_text. destruct (Nat.eqb_spec (length s) 6) as [L|L]; [|discriminate].
  destruct s as [|c0 [|c1 [|c2 [|c3 [|c4 [|c5 [|c6 t]]]]]]]; cbn [length] in L; try lia.
  unfold parse_hex. cbn [parse_hex_acc].
  destruct (hval c0) as [d0|] eqn:E0; [|discriminate].
  destruct (hval c1) as [d1|] eqn:E1; [|discriminate].
  destruct (hval c2) as [d2|] eqn:E2; [|discriminate].
  destruct (hval c3) as [d3|] eqn:E3; [|discriminate].
  destruct (hval c4) as [d4|] eqn:E4; [|discriminate].
  destruct (hval c5) as [d5|] eqn:E5; [|discriminate].
  apply hval_lt in E0, E1, E2, E3, E4, E5. cbn [option_map]. intro H. injection H as <-.
  apply amf_of_value_ok. change (2 ^ 24) with 16777216. lia.
Qed.

(* text -> (region, set, pointer) -> text: the canonical (lower-case) form of the accepted text *)
Lemma amf_roundtrip_text s a : parse_amf_text s = Some a ->
  (r <- AmfIdToNasWithError s ;; let '(x, y, z) := r in Ok (AmfIdToModels x y z)) = Ok (amf_text a).
Proof.
  intro H. rewrite amf_nas_spec, H. cbn [obind amf_res].
  rewrite amf_models_text by (eapply parse_amf_text_ok; eassumption). reflexivity.
Qed.

Lemma amf_invalid_err s : parse_amf_text s = None -> AmfIdToNasWithError s = Err.
Proof. intro H. rewrite amf_nas_spec, H. reflexivity. Qed.

Lemma AmfIdToNasWithError_total s : is_total (AmfIdToNasWithError s).
Proof. rewrite amf_nas_spec. destruct (parse_amf_text s); exact I. Qed.

Lemma AmfIdToNas_total s : is_total (AmfIdToNas s).
Proof. unfold AmfIdToNas. rewrite amf_nas_spec. destruct (parse_amf_text s); exact I. Qed.
