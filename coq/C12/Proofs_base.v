(* C12/Proofs_base.v -- finite-domain reflection over octets / nibbles, and the
   lemmas about the stdlib models (GoStd.v) that the other proof files use. *)
From NV Require Import Lib.Base Lib.Bits C12.GoStd C12.Model C12.Spec.
From Coq Require Import ZifyN ZifyNat ZifyBool.
Open Scope N_scope.
Ltac Zify.zify_post_hook ::= Z.div_mod_to_equations.

(* ---- deciding a predicate on all octets / nibbles by evaluation ---- *)
Definition range (n : nat) : list N := map N.of_nat (seq 0 n).

Lemma range_in n x : x < N.of_nat n -> In x (range n).
Proof.
  intro H. unfold range. apply in_map_iff. exists (N.to_nat x). split; [lia|].
  apply in_seq. lia.
Qed.

Lemma forall_lt (n : nat) (P : N -> bool) :
  forallb P (range n) = true -> forall x, x < N.of_nat n -> P x = true.
Proof. intros H x Hx. rewrite forallb_forall in H. apply H, range_in, Hx. Qed.

Lemma byte_forall (P : N -> bool) :
  forallb P (range 256) = true -> forall x, x < 256 -> P x = true.
Proof. intros H x Hx. apply (forall_lt 256 P H). exact Hx. Qed.

Lemma nib_forall (P : N -> bool) :
  forallb P (range 16) = true -> forall x, x < 16 -> P x = true.
Proof. intros H x Hx. apply (forall_lt 16 P H). exact Hx. Qed.

Lemma nib2_forall (P : N -> N -> bool) :
  forallb (fun a => forallb (P a) (range 16)) (range 16) = true ->
  forall a b, a < 16 -> b < 16 -> P a b = true.
Proof.
  intros H a b Ha Hb.
  pose proof (forall_lt 16 _ H a Ha) as H1. cbv beta in H1.
  exact (forall_lt 16 _ H1 b Hb).
Qed.

(* outcome equality as a boolean, for reflection *)
Definition oeqb_bytes := eqb_outcome eqb_bytes.
Lemma oeqb_bytes_eq a b : oeqb_bytes a b = true -> a = b.
Proof.
  destruct a, b; cbn; intro H; try discriminate; auto.
  apply eqb_bytes_spec in H. congruence.
Qed.

(* ---- characters ---- *)
Lemma hexdigit_hchar n : n < 16 -> hexdigit n = hchar n.
Proof.
  intro H. apply N.eqb_eq. revert n H.
  apply (nib_forall (fun n => hexdigit n =? hchar n)). vm_compute. reflexivity.
Qed.

Lemma hchar_dchar d : d < 10 -> hchar d = dchar d.
Proof. intro H. unfold hchar, dchar. destruct (N.ltb_spec d 10); [reflexivity|lia]. Qed.

Lemma hexdigit_dchar d : d < 10 -> hexdigit d = dchar d.
Proof. intro H. unfold hexdigit, dchar. destruct (N.ltb_spec d 10); [reflexivity|lia]. Qed.

Lemma fromHexChar_hval c : fromHexChar c = hval c.
Proof.
  unfold fromHexChar, hval, dval.
  destruct (N.leb_spec 48 c), (N.leb_spec c 57), (N.leb_spec 97 c), (N.leb_spec c 102),
    (N.leb_spec 65 c), (N.leb_spec c 70); cbn [andb]; try reflexivity; try (f_equal; lia); lia.
Qed.

Lemma hval_lt c d : hval c = Some d -> d < 16.
Proof.
  unfold hval, dval.
  destruct (N.leb_spec 48 c), (N.leb_spec c 57), (N.leb_spec 97 c), (N.leb_spec c 102),
    (N.leb_spec 65 c), (N.leb_spec c 70); cbn [andb]; intro EQ; inversion EQ; lia.
Qed.

Lemma dval_lt c d : dval c = Some d -> d < 10.
Proof.
  unfold dval. destruct (N.leb_spec 48 c), (N.leb_spec c 57); cbn [andb]; intro EQ; inversion EQ; lia.
Qed.

Lemma dval_hval c d : dval c = Some d -> hval c = Some d.
Proof. unfold hval. intros ->. reflexivity. Qed.

Lemma dval_dchar d : d < 10 -> dval (dchar d) = Some d.
Proof.
  intro H. unfold dval, dchar.
  destruct (N.leb_spec 48 (48 + d)), (N.leb_spec (48 + d) 57); cbn [andb]; try lia.
  f_equal. lia.
Qed.

Lemma hval_hchar d : d < 16 -> hval (hchar d) = Some d.
Proof.
  intro H.
  assert (E : (match hval (hchar d) with Some x => x =? d | None => false end) = true).
  { revert d H. apply (nib_forall (fun d => match hval (hchar d) with Some x => x =? d | None => false end)).
    vm_compute. reflexivity. }
  destruct (hval (hchar d)); [|discriminate]. apply N.eqb_eq in E. congruence.
Qed.

Lemma hchar_not_f d : d < 10 -> (dchar d =? 102) = false.
Proof. intro H. unfold dchar. apply N.eqb_neq. lia. Qed.

(* ---- Atoi(string(b)) : a digit, or an error ---- *)
Definition atoi_byte_ok (c : N) : bool :=
  match Atoi (string_of_byte c), dval c with
  | Ok z, Some d => (z =? Z.of_N d)%Z
  | Err, None => true
  | _, _ => false
  end.

Lemma atoi_byte c : c < 256 ->
  Atoi (string_of_byte c) = match dval c with Some d => Ok (Z.of_N d) | None => Err end.
Proof.
  intro H.
  assert (E : atoi_byte_ok c = true).
  { revert c H. apply byte_forall. vm_compute. reflexivity. }
  unfold atoi_byte_ok in E.
  destruct (Atoi (string_of_byte c)), (dval c); try discriminate; auto.
  apply Z.eqb_eq in E. congruence.
Qed.

(* ---- hex ---- *)
Lemma hex_encode_app a b :
  hex_EncodeToString (a ++ b) = hex_EncodeToString a ++ hex_EncodeToString b.
Proof. unfold hex_EncodeToString. apply flat_map_app. Qed.

Lemma hex_encode_length l : length (hex_EncodeToString l) = (2 * length l)%nat.
Proof. induction l as [|b t IH]; cbn [hex_EncodeToString flat_map app length] in *; [reflexivity|]. unfold hex_EncodeToString in IH. lia. Qed.

Lemma hex_encode_cons b t :
  hex_EncodeToString (b :: t) = hexdigit (b / 16) :: hexdigit (b mod 16) :: hex_EncodeToString t.
Proof. reflexivity. Qed.

Lemma hex_decode_encode l : bytes_ok l -> hex_DecodeString (hex_EncodeToString l) = Ok l.
Proof.
  induction 1 as [|b t Hb Ht IH]; [reflexivity|].
  rewrite hex_encode_cons. cbn [hex_DecodeString].
  unfold is_byte in Hb.
  rewrite !fromHexChar_hval, !hexdigit_hchar, !hval_hchar by lia.
  rewrite IH. cbn [obind]. f_equal. f_equal. lia.
Qed.

(* hex text of a value = hex encoding of its big-endian octets *)
Lemma hex_text_be k v : hex_EncodeToString (be_octets k v) = hex_text (2 * k) v.
Proof.
  revert v. induction k as [|k IH]; intro v; [reflexivity|].
  replace (2 * S k)%nat with (S (S (2 * k))) by lia.
  cbn [be_octets hex_text]. rewrite hex_encode_app, IH.
  rewrite <- app_assoc. f_equal.
  - f_equal. rewrite N.div_div by lia. reflexivity.
  - cbn [hex_EncodeToString flat_map app].
    rewrite !hexdigit_hchar by lia. f_equal; [f_equal; lia|f_equal; f_equal; lia].
Qed.

Lemma hex_of_octets_encode l : bytes_ok l -> hex_of_octets l = hex_EncodeToString l.
Proof.
  induction 1 as [|b t Hb Ht IH]; [reflexivity|].
  unfold hex_of_octets in *. cbn [flat_map]. rewrite IH, hex_encode_cons.
  unfold is_byte in Hb. cbn [hex_text app].
  rewrite !hexdigit_hchar by lia. rewrite (N.mod_small (b / 16) 16) by lia. reflexivity.
Qed.

Lemma be_octets_length k v : length (be_octets k v) = k.
Proof. revert v; induction k; intro v; cbn [be_octets]; [reflexivity|]. rewrite app_length, IHk. cbn. lia. Qed.

Lemma be_octets_ok k v : bytes_ok (be_octets k v).
Proof.
  revert v; induction k; intro v; cbn [be_octets]; [constructor|].
  apply Forall_app. split; [apply IHk|]. constructor; [|constructor]. unfold is_byte. lia.
Qed.

Lemma hex_text_length n v : length (hex_text n v) = n.
Proof. revert v; induction n; intro v; cbn [hex_text]; [reflexivity|]. rewrite app_length, IHn. cbn. lia. Qed.

(* ---- slices of lists of known shape ---- *)
Lemma slice_app_l (a b : bytes) : slice (a ++ b) 0 (length a) = Ok a.
Proof.
  unfold slice. rewrite app_length.
  replace (Nat.leb 0 (length a) && Nat.leb (length a) (length a + length b))%bool with true.
  2:{ symmetry. apply andb_true_iff. split; apply Nat.leb_le; lia. }
  cbn [skipn]. rewrite Nat.sub_0_r, firstn_app, Nat.sub_diag, firstn_all. cbn [firstn]. rewrite app_nil_r. reflexivity.
Qed.

Lemma slice_from_app_r (a b : bytes) : slice_from (a ++ b) (length a) = Ok b.
Proof.
  unfold slice_from, slice. rewrite app_length.
  replace (Nat.leb (length a) (length a + length b) && Nat.leb (length a + length b) (length a + length b))%bool with true.
  2:{ symmetry. apply andb_true_iff. split; apply Nat.leb_le; lia. }
  rewrite skipn_app, skipn_all, Nat.sub_diag. cbn [skipn app].
  replace (length a + length b - length a)%nat with (length b) by lia.
  rewrite firstn_all. reflexivity.
Qed.

Lemma drop_last_snoc (l : bytes) x : drop_last (l ++ [x]) = Ok l.
Proof.
  unfold drop_last. destruct (l ++ [x]) eqn:E; [destruct l; discriminate|].
  rewrite <- E. replace (length (l ++ [x]) - 1)%nat with (length l) by (rewrite app_length; cbn; lia).
  apply slice_app_l.
Qed.

Lemma idx_last_snoc (l : bytes) x : idx_last (l ++ [x]) = Ok x.
Proof.
  unfold idx_last. destruct (l ++ [x]) eqn:E; [destruct l; discriminate|].
  rewrite <- E. unfold idx.
  replace (length (l ++ [x]) - 1)%nat with (length l) by (rewrite app_length; cbn; lia).
  rewrite nth_error_app2, Nat.sub_diag by lia. reflexivity.
Qed.

Lemma firstn_app_len {A} (l1 l2 : list A) n : length l1 = n -> firstn n (l1 ++ l2) = l1.
Proof. intros <-. rewrite firstn_app, Nat.sub_diag, firstn_all. cbn [firstn]. apply app_nil_r. Qed.
Lemma skipn_app_len {A} (l1 l2 : list A) n : length l1 = n -> skipn n (l1 ++ l2) = l2.
Proof. intros <-. rewrite skipn_app, skipn_all, Nat.sub_diag. reflexivity. Qed.

Lemma skipn_add {A} n m (l : list A) : skipn (n + m) l = skipn m (skipn n l).
Proof.
  revert l. induction n as [|n IH]; intro l; [reflexivity|].
  destruct l; cbn [Nat.add skipn]; [destruct m; reflexivity|apply IH].
Qed.

