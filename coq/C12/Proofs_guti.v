(* C12/Proofs_guti.v -- GUTI5G / TMSI5GS accessors, 5G-GUTI text <-> wire, 5G-S-TMSI *)
From NV Require Import Lib.Base Lib.Bits C12.GoStd C12.Model C12.Spec C12.Proofs_base C12.Proofs_plmn.
From Coq Require Import ZifyN ZifyNat ZifyBool.
Open Scope N_scope.
Ltac Zify.zify_post_hook ::= Z.div_mod_to_equations.

Lemma GetBitMask_8_2 : GetBitMask 8 2 = 252. Proof. reflexivity. Qed.
Lemma GetBitMask_6_0 : GetBitMask 6 0 = 63. Proof. reflexivity. Qed.

Lemma nth_upd_same (l : bytes) i v : (i < length l)%nat -> nth i (upd l i v) 0 = v.
Proof.
  intro H. apply nth_error_nth. apply nth_error_upd_same, H.
Qed.
Lemma nth_upd_other (l : bytes) i j v : i <> j -> nth j (upd l i v) 0 = nth j l 0.
Proof.
  intro H. revert i j H. induction l as [|h t IH]; intros [|i] [|j] H; cbn [upd nth]; auto; try congruence.
Qed.

(* ---- the two-octet 10-bit / 6-bit accessors (GUTI5G at octets 5,6; TMSI5GS at 1,2) ---- *)
Lemma get_setid_at i o : oget o i < 256 -> oget o (S i) < 256 ->
  GetAMFSetID_at i o = oget o i * 4 + oget o (S i) / 64.
Proof.
  intros H1 H2. unfold GetAMFSetID_at. rewrite GetBitMask_8_2.
  unfold add16, shl16, u16. rewrite shl2, land252, shr6.
  rewrite (N.mod_small (oget o i * 4)) by lia. rewrite N.mod_small by lia. lia.
Qed.

Lemma get_pointer_at i o : GetAMFPointer_at i o = oget o i mod 64.
Proof. unfold GetAMFPointer_at. rewrite GetBitMask_6_0. apply land63. Qed.

Lemma set_get_at i o s p :
  (S i < length o)%nat -> bytes_ok o -> s < 1024 -> p < 64 ->
  let o' := SetAMFPointer_at (S i) (SetAMFSetID_at i o s) p in
  GetAMFSetID_at i o' = s /\ GetAMFPointer_at (S i) o' = p /\
  length o' = length o /\ bytes_ok o' /\
  forall j, j <> i -> j <> S i -> nth j o' 0 = nth j o 0.
Proof.
  intros Hl Hok Hs Hp.
  assert (Hb : oget o (S i) < 256).
  { unfold oget. unfold bytes_ok in Hok. rewrite Forall_forall in Hok. apply Hok, nth_In. lia. }
  set (x := oget o (S i)) in *.
  assert (E5 : oget (SetAMFPointer_at (S i) (SetAMFSetID_at i o s) p) i = s / 4).
  { unfold SetAMFPointer_at, SetAMFSetID_at, oget.
    rewrite nth_upd_other by lia. rewrite nth_upd_other by lia.
    rewrite nth_upd_same by lia. apply octet1_of_setid, Hs. }
  assert (E6 : oget (SetAMFPointer_at (S i) (SetAMFSetID_at i o s) p) (S i) = (s mod 4) * 64 + p).
  { unfold SetAMFPointer_at, SetAMFSetID_at, oget.
    rewrite nth_upd_same by (rewrite !upd_length; lia).
    rewrite nth_upd_same by (rewrite !upd_length; lia).
    rewrite nth_upd_other by lia. fold (oget o (S i)). fold x.
    rewrite GetBitMask_6_0. unfold add8, shl8, u8.
    rewrite land192, !land63, land3, shl6.
    rewrite (N.mod_small (s mod 4)) by lia. rewrite (N.mod_small (s mod 4 * 64)) by lia.
    rewrite (N.mod_small (x mod 64 + s mod 4 * 64)) by lia.
    rewrite (N.mod_small p) by lia. rewrite N.mod_small by lia. lia. }
  cbv zeta. repeat split.
  - rewrite get_setid_at by (rewrite ?E5, ?E6; lia). rewrite E5, E6. lia.
  - rewrite get_pointer_at, E6. lia.
  - unfold SetAMFPointer_at, SetAMFSetID_at. rewrite !upd_length. reflexivity.
  - apply Forall_forall. intros y Hy. apply In_nth with (d := 0) in Hy. destruct Hy as (j & Hj & <-).
    unfold SetAMFPointer_at, SetAMFSetID_at in Hj. rewrite !upd_length in Hj.
    destruct (Nat.eq_dec j i) as [->|Hi]; [fold (oget (SetAMFPointer_at (S i) (SetAMFSetID_at i o s) p) i); rewrite E5; unfold is_byte; lia|].
    destruct (Nat.eq_dec j (S i)) as [->|Hi']; [fold (oget (SetAMFPointer_at (S i) (SetAMFSetID_at i o s) p) (S i)); rewrite E6; unfold is_byte; lia|].
    unfold SetAMFPointer_at, SetAMFSetID_at. rewrite !nth_upd_other by lia.
    unfold bytes_ok in Hok. rewrite Forall_forall in Hok. apply Hok, nth_In. lia.
  - intros j Hi Hi'. unfold SetAMFPointer_at, SetAMFSetID_at. rewrite !nth_upd_other by lia. reflexivity.
Qed.

(* the nasType getters agree with AmfIdToNasWithError on the same three octets *)
Lemma guti_accessors_consistent o : length o = 11%nat -> bytes_ok o ->
  AmfIdToNasWithError (hex_EncodeToString (firstn 3 (skipn 4 o))) =
  Ok (GUTI5G_GetAMFRegionID o, GUTI5G_GetAMFSetID o, GUTI5G_GetAMFPointer o).
Proof.
  intros L Hok.
  destruct o as [|o0 [|o1 [|o2 [|o3 [|o4 [|o5 [|o6 [|o7 [|o8 [|o9 [|o10 [|]]]]]]]]]]]]; cbn [length] in L; try lia.
  cbn [firstn skipn].
  assert (H4 : o4 < 256 /\ o5 < 256 /\ o6 < 256).
  { unfold bytes_ok in Hok. rewrite Forall_forall in Hok. repeat split; apply Hok; cbn; tauto. }
  destruct H4 as (H4 & H5 & H6).
  rewrite amf_layout by assumption.
  unfold GUTI5G_GetAMFRegionID, GUTI5G_GetAMFSetID, GUTI5G_GetAMFPointer.
  rewrite get_setid_at, get_pointer_at by (cbn [oget nth]; assumption). reflexivity.
Qed.

Lemma tmsi_accessors_consistent o r : length o = 7%nat -> bytes_ok o -> r < 256 ->
  AmfIdToNasWithError (hex_EncodeToString (r :: firstn 2 (skipn 1 o))) =
  Ok (r, TMSI5GS_GetAMFSetID o, TMSI5GS_GetAMFPointer o).
Proof.
  intros L Hok Hr.
  destruct o as [|o0 [|o1 [|o2 [|o3 [|o4 [|o5 [|o6 [|]]]]]]]]; cbn [length] in L; try lia.
  cbn [firstn skipn].
  assert (H4 : o1 < 256 /\ o2 < 256).
  { unfold bytes_ok in Hok. rewrite Forall_forall in Hok. split; apply Hok; cbn; tauto. }
  destruct H4 as (H5 & H6).
  rewrite amf_layout by assumption.
  unfold TMSI5GS_GetAMFSetID, TMSI5GS_GetAMFPointer.
  rewrite get_setid_at, get_pointer_at by (cbn [oget nth]; assumption). reflexivity.
Qed.

(* =====================================================================  GutiToNasWithError *)
Lemma u8_of_int_N d : d < 256 -> u8_of_int (Z.of_N d) = d.
Proof. intro H. unfold u8_of_int. rewrite Z.mod_small by lia. apply N2Z.id. Qed.

(* low nibble set first, then the high nibble, on a zero octet *)
Lemma set_lo_hi lo hi : lo < 16 -> hi < 16 ->
  add8 (N.land (add8 (N.land 0 240) (N.land lo 15)) 15) (shl8 (N.land hi 15) 4) = hi * 16 + lo.
Proof.
  intros H1 H2. apply N.eqb_eq. revert hi lo H2 H1.
  apply (nib2_forall (fun hi lo =>
    add8 (N.land (add8 (N.land 0 240) (N.land lo 15)) 15) (shl8 (N.land hi 15) 4) =? hi * 16 + lo)).
  vm_compute. reflexivity.
Qed.

Lemma set_setid_ptr s p : s < 1024 -> p < 64 ->
  add8 (N.land (add8 (N.land 0 (GetBitMask 6 0)) (shl8 (u8 (N.land s 3)) 6)) 192) (N.land p 63)
  = (s mod 4) * 64 + p.
Proof.
  intros Hs Hp. rewrite GetBitMask_6_0. unfold add8, shl8, u8.
  rewrite land192, !land63, land3, shl6.
  change (0 mod 64) with 0. rewrite N.add_0_l.
  rewrite (N.mod_small (s mod 4)) by lia. rewrite !(N.mod_small (s mod 4 * 64)) by lia.
  rewrite (N.mod_small p) by lia. rewrite N.mod_small by lia. lia.
Qed.

Definition build_guti (d0 d1 d2 d3 d4 m3 : Z) (a : N * N * N) (tmsi : bytes) : bytes :=
  let o := zero11 in
  let o := GUTI5G_SetSpare o 0 in
  let o := GUTI5G_SetSpare2 o 15 in
  let o := GUTI5G_SetTypeOfIdentity o 2 in
  let o := GUTI5G_SetMCCDigit1 o (u8_of_int d0) in
  let o := GUTI5G_SetMCCDigit2 o (u8_of_int d1) in
  let o := GUTI5G_SetMCCDigit3 o (u8_of_int d2) in
  let o := GUTI5G_SetMNCDigit1 o (u8_of_int d3) in
  let o := GUTI5G_SetMNCDigit2 o (u8_of_int d4) in
  let o := GUTI5G_SetMNCDigit3 o (u8_of_int m3) in
  let '(amfRegionId, amfSetId, amfPointer) := a in
  let o := GUTI5G_SetAMFRegionID o amfRegionId in
  let o := GUTI5G_SetAMFSetID o amfSetId in
  let o := GUTI5G_SetAMFPointer o amfPointer in
  copy_at o 7 4 tmsi.

Lemma build_guti_octets d0 d1 d2 d3 d4 m3 r s p t0 t1 t2 t3 :
  d0 < 16 -> d1 < 16 -> d2 < 16 -> d3 < 16 -> d4 < 16 -> m3 < 16 -> s < 1024 -> p < 64 ->
  build_guti (Z.of_N d0) (Z.of_N d1) (Z.of_N d2) (Z.of_N d3) (Z.of_N d4) (Z.of_N m3) (r, s, p) [t0; t1; t2; t3]
  = [242; d1 * 16 + d0; m3 * 16 + d2; d4 * 16 + d3; r; s / 4; (s mod 4) * 64 + p; t0; t1; t2; t3].
Proof.
  intros. unfold build_guti. rewrite !u8_of_int_N by lia.
  unfold GUTI5G_SetSpare, GUTI5G_SetSpare2, GUTI5G_SetTypeOfIdentity, GUTI5G_SetMCCDigit1, GUTI5G_SetMCCDigit2,
    GUTI5G_SetMCCDigit3, GUTI5G_SetMNCDigit1, GUTI5G_SetMNCDigit2, GUTI5G_SetMNCDigit3, GUTI5G_SetAMFRegionID,
    GUTI5G_SetAMFSetID, GUTI5G_SetAMFPointer, SetAMFSetID_at, SetAMFPointer_at, zero11.
  cbn [repeat upd oget nth copy_at].
  rewrite !set_lo_hi, octet1_of_setid, set_setid_ptr by lia.
  f_equal.
Qed.

Lemma be3_amf a : amf_ok a ->
  be_octets 3 (amf_value a) = [region a; set a / 4; (set a mod 4) * 64 + pointer a].
Proof.
  destruct a as [r s p]. unfold amf_ok, amf_value. cbn [region set pointer].
  change (2 ^ 8) with 256. change (2 ^ 10) with 1024. change (2 ^ 6) with 64. change (2 ^ 16) with 65536.
  intros (Hr & Hs & Hp). cbn [be_octets app]. f_equal; [|f_equal; [|f_equal]]; lia.
Qed.

(* eight hex characters: hex.DecodeString against the specification's value parser *)
Lemma hex_decode_parse_8 c0 c1 c2 c3 c4 c5 c6 c7 :
  hex_DecodeString [c0; c1; c2; c3; c4; c5; c6; c7] =
  match parse_hex [c0; c1; c2; c3; c4; c5; c6; c7] with
  | Some t => Ok (be_octets 4 t)
  | None => Err
  end.
Proof.
  rewrite hex_decode_8. unfold parse_hex. cbn [parse_hex_acc].
  destruct (hval c0) as [d0|] eqn:E0; [|reflexivity].
  destruct (hval c1) as [d1|] eqn:E1; [|reflexivity].
  destruct (hval c2) as [d2|] eqn:E2; [|reflexivity].
  destruct (hval c3) as [d3|] eqn:E3; [|reflexivity].
  destruct (hval c4) as [d4|] eqn:E4; [|reflexivity].
  destruct (hval c5) as [d5|] eqn:E5; [|reflexivity].
  destruct (hval c6) as [d6|] eqn:E6; [|reflexivity].
  destruct (hval c7) as [d7|] eqn:E7; [|reflexivity].
  apply hval_lt in E0, E1, E2, E3, E4, E5, E6, E7.
  cbn [be_octets app]. f_equal. f_equal; [|f_equal; [|f_equal; [|f_equal]]]; lia.
Qed.

Lemma parse_hex_8_lt s t : length s = 8%nat -> parse_hex s = Some t -> t < 2 ^ 32.
Proof.
  intros L.
  destruct s as [|c0 [|c1 [|c2 [|c3 [|c4 [|c5 [|c6 [|c7 [|]]]]]]]]]; cbn [length] in L; try lia.
  unfold parse_hex. cbn [parse_hex_acc].
  destruct (hval c0) as [d0|] eqn:E0; [|discriminate].
  destruct (hval c1) as [d1|] eqn:E1; [|discriminate].
  destruct (hval c2) as [d2|] eqn:E2; [|discriminate].
  destruct (hval c3) as [d3|] eqn:E3; [|discriminate].
  destruct (hval c4) as [d4|] eqn:E4; [|discriminate].
  destruct (hval c5) as [d5|] eqn:E5; [|discriminate].
  destruct (hval c6) as [d6|] eqn:E6; [|discriminate].
  destruct (hval c7) as [d7|] eqn:E7; [|discriminate].
  apply hval_lt in E0, E1, E2, E3, E4, E5, E6, E7. intro H. injection H as <-.
  change (2 ^ 32) with 4294967296. lia.
Qed.

Lemma atoi_at_spec s i c : nth_error s i = Some c -> c < 256 ->
  atoi_at s i = match dval c with Some d => Ok (Z.of_N d) | None => Err end.
Proof. intros Hn Hc. unfold atoi_at, idx. rewrite Hn. cbn [obind]. apply atoi_byte, Hc. Qed.

Lemma be4_cases t : exists t0 t1 t2 t3, be_octets 4 t = [t0; t1; t2; t3].
Proof. cbn [be_octets app]. eauto. Qed.

Ltac bytes_of Hok :=
  unfold bytes_ok in Hok; repeat match type of Hok with Forall _ (_ :: _) => 
    let H := fresh "B" in let H' := fresh "Hok" in inversion Hok as [|? ? H H']; subst; clear Hok; rename H' into Hok; unfold is_byte in H end.

(* GutiToNasWithError = the specification's parser followed by its encoder, on every octet string *)
Lemma guti_nas_spec s : bytes_ok s ->
  GutiToNasWithError s =
  match parse_guti_text s with Some g => Ok (0, 11, guti_wire g) | None => Err end.
Proof.
  intro Hok. unfold parse_guti_text.
  destruct (Nat.eqb_spec (length s) 19) as [L|L19].
  - (* 2-digit MNC *)
    destruct s as [|c0 [|c1 [|c2 [|c3 [|c4 [|c5 [|c6 [|c7 [|c8 [|c9 [|c10 [|c11 [|c12 [|c13 [|c14 [|c15 [|c16 [|c17 [|c18 [|]]]]]]]]]]]]]]]]]]]];
      cbn [length] in L; try lia.
    bytes_of Hok.
    unfold GutiToNasWithError.
    cbn [length Nat.eqb negb andb orb Nat.sub firstn skipn Nat.add parse_decs].
    rewrite (atoi_at_spec _ 0 c0), (atoi_at_spec _ 1 c1), (atoi_at_spec _ 2 c2),
            (atoi_at_spec _ 3 c3), (atoi_at_spec _ 4 c4) by (try reflexivity; assumption).
    destruct (dval c0) as [d0|] eqn:E0; [|reflexivity].
    destruct (dval c1) as [d1|] eqn:E1; [|reflexivity].
    destruct (dval c2) as [d2|] eqn:E2; [|reflexivity].
    destruct (dval c3) as [d3|] eqn:E3; [|reflexivity].
    destruct (dval c4) as [d4|] eqn:E4; [|reflexivity].
    apply dval_lt in E0, E1, E2, E3, E4.
    cbn [obind plmn_of_digits].
    unfold slice_from, slice. cbn [length Nat.leb andb Nat.sub firstn skipn obind].
    rewrite amf_nas_spec.
    destruct (parse_amf_text [c5; c6; c7; c8; c9; c10]) as [a|] eqn:EA; [|reflexivity].
    cbn [obind]. rewrite hex_decode_parse_8.
    destruct (parse_hex [c11; c12; c13; c14; c15; c16; c17; c18]) as [t|] eqn:ET; [|reflexivity].
    cbn [obind]. apply parse_amf_text_ok in EA.
    destruct (be4_cases t) as (t0 & t1 & t2 & t3 & Et).
    unfold guti_wire, amf_octets. cbn [g_plmn g_amf g_tmsi].
    rewrite Et, be3_amf by exact EA.
    destruct EA as (Hr & Hs & Hp). change (2 ^ 10) with 1024 in Hs. change (2 ^ 6) with 64 in Hp.
    f_equal. f_equal.
    change 15%Z with (Z.of_N 15).
    pose proof (build_guti_octets d0 d1 d2 d3 d4 15 (region a) (set a) (pointer a) t0 t1 t2 t3) as HB.
    unfold build_guti, amf_res in *. rewrite HB by lia. reflexivity.
  - destruct (Nat.eqb_spec (length s) 20) as [L|L20].
    + (* 3-digit MNC *)
      destruct s as [|c0 [|c1 [|c2 [|c3 [|c4 [|c5 [|c6 [|c7 [|c8 [|c9 [|c10 [|c11 [|c12 [|c13 [|c14 [|c15 [|c16 [|c17 [|c18 [|c19 [|]]]]]]]]]]]]]]]]]]]]];
        cbn [length] in L; try lia.
      bytes_of Hok.
      unfold GutiToNasWithError.
      cbn [length Nat.eqb negb andb orb Nat.sub firstn skipn Nat.add parse_decs].
      rewrite (atoi_at_spec _ 0 c0), (atoi_at_spec _ 1 c1), (atoi_at_spec _ 2 c2),
              (atoi_at_spec _ 3 c3), (atoi_at_spec _ 4 c4), (atoi_at_spec _ 5 c5) by (try reflexivity; assumption).
      destruct (dval c0) as [d0|] eqn:E0; [|reflexivity].
      destruct (dval c1) as [d1|] eqn:E1; [|reflexivity].
      destruct (dval c2) as [d2|] eqn:E2; [|reflexivity].
      destruct (dval c3) as [d3|] eqn:E3; [|reflexivity].
      destruct (dval c4) as [d4|] eqn:E4; [|reflexivity].
      cbn [obind].
      destruct (dval c5) as [d5|] eqn:E5; [|reflexivity].
      apply dval_lt in E0, E1, E2, E3, E4, E5.
      cbn [obind plmn_of_digits].
      unfold slice_from, slice. cbn [length Nat.leb andb Nat.sub firstn skipn obind].
      rewrite amf_nas_spec.
      destruct (parse_amf_text [c6; c7; c8; c9; c10; c11]) as [a|] eqn:EA; [|reflexivity].
      cbn [obind]. rewrite hex_decode_parse_8.
      destruct (parse_hex [c12; c13; c14; c15; c16; c17; c18; c19]) as [t|] eqn:ET; [|reflexivity].
      cbn [obind]. apply parse_amf_text_ok in EA.
      destruct (be4_cases t) as (t0 & t1 & t2 & t3 & Et).
      unfold guti_wire, amf_octets. cbn [g_plmn g_amf g_tmsi].
      rewrite Et, be3_amf by exact EA.
      destruct EA as (Hr & Hs & Hp). change (2 ^ 10) with 1024 in Hs. change (2 ^ 6) with 64 in Hp.
      f_equal. f_equal.
      pose proof (build_guti_octets d0 d1 d2 d3 d4 d5 (region a) (set a) (pointer a) t0 t1 t2 t3) as HB.
      unfold build_guti, amf_res in *. rewrite HB by lia. reflexivity.
    + unfold GutiToNasWithError.
      destruct (Nat.eqb_spec (length s) 19); [lia|]. destruct (Nat.eqb_spec (length s) 20); [lia|]. reflexivity.
Qed.

Lemma guti_nas_ok s g : bytes_ok s -> parse_guti_text s = Some g ->
  GutiToNasWithError s = Ok (0, 11, guti_wire g).
Proof. intros Hok H. rewrite guti_nas_spec, H by exact Hok. reflexivity. Qed.

Lemma guti_nas_err s : bytes_ok s -> parse_guti_text s = None -> GutiToNasWithError s = Err.
Proof. intros Hok H. rewrite guti_nas_spec, H by exact Hok. reflexivity. Qed.

(* =====================================================================  GutiToStringWithError *)
Lemma guti_str_parts y x z w a0 a1 a2 t0 t1 t2 t3 :
  GutiToStringWithError [y; x; z; w; a0; a1; a2; t0; t1; t2; t3] =
  (plmnID <- PlmnIDToString [x; z; w] ;;
   mcc <- slice plmnID 0 3 ;;
   mnc <- slice_from plmnID 3 ;;
   Ok (mcc, mnc, hex_EncodeToString [a0; a1; a2],
       plmnID ++ hex_EncodeToString [a0; a1; a2] ++ hex_EncodeToString [t0; t1; t2; t3])).
Proof. reflexivity. Qed.

Lemma guti_str_ok g : guti_ok g ->
  GutiToStringWithError (guti_wire g) =
  Ok (mcc_text (g_plmn g), mnc_text (g_plmn g), amf_text (g_amf g), guti_text g).
Proof.
  destruct g as [p a t]. unfold guti_ok, guti_wire, guti_text, amf_octets. cbn [g_plmn g_amf g_tmsi].
  intros (Hp & Ha & Ht).
  destruct (be4_cases t) as (t0 & t1 & t2 & t3 & Et). rewrite Et, be3_amf by exact Ha.
  change ([242] ++ plmn_wire p ++ [region a; set a / 4; set a mod 4 * 64 + pointer a] ++ [t0; t1; t2; t3])
    with [242; mcc2 p * 16 + mcc1 p; mnc3_nibble p * 16 + mcc3 p; mnc2 p * 16 + mnc1 p;
          region a; set a / 4; set a mod 4 * 64 + pointer a; t0; t1; t2; t3].
  rewrite guti_str_parts.
  change [mcc2 p * 16 + mcc1 p; mnc3_nibble p * 16 + mcc3 p; mnc2 p * 16 + mnc1 p] with (plmn_wire p).
  rewrite plmn_text_ok by exact Hp. cbn [obind].
  rewrite <- be3_amf, <- Et by exact Ha. rewrite !hex_text_be.
  unfold plmn_text. change 3%nat with (length (mcc_text p)) at 1 2.
  rewrite slice_app_l. cbn [obind]. rewrite slice_from_app_r. cbn [obind].
  unfold amf_text. reflexivity.
Qed.

(* ---- consistency of the specification's GUTI text grammar with its printer ---- *)
Lemma parse_guti_text_text g : guti_ok g -> parse_guti_text (guti_text g) = Some g.
Proof.
  destruct g as [p a t]. unfold guti_ok, guti_text. cbn [g_plmn g_amf g_tmsi].
  intros (Hp & Ha & Ht).
  destruct p as [d0 d1 d2 d3 d4 m]. unfold plmn_ok in Hp. cbn [mcc1 mcc2 mcc3 mnc1 mnc2 mnc3] in Hp.
  destruct Hp as (H0 & H1 & H2 & H3 & H4 & H5).
  unfold parse_guti_text, plmn_text, mcc_text, mnc_text. cbn [mcc1 mcc2 mcc3 mnc1 mnc2 mnc3].
  destruct m as [d5|].
  - replace (length (([dchar d0; dchar d1; dchar d2] ++ [dchar d3; dchar d4] ++ [dchar d5]) ++ amf_text a ++ hex_text 8 t)) with 20%nat
      by (rewrite !app_length; unfold amf_text; rewrite !hex_text_length; reflexivity).
    cbn [Nat.eqb orb Nat.sub].
    change (([dchar d0; dchar d1; dchar d2] ++ [dchar d3; dchar d4] ++ [dchar d5]) ++ amf_text a ++ hex_text 8 t)
      with ([dchar d0; dchar d1; dchar d2; dchar d3; dchar d4; dchar d5] ++ amf_text a ++ hex_text 8 t).
    rewrite (skipn_add 6 6).
    rewrite firstn_app_len, skipn_app_len by reflexivity.
    cbn [parse_decs]. rewrite !dval_dchar by assumption. cbn [plmn_of_digits].
    rewrite (firstn_app_len (amf_text a)) by apply hex_text_length.
    rewrite (skipn_app_len (amf_text a)) by apply hex_text_length.
    rewrite parse_amf_text_text by exact Ha.
    rewrite parse_hex_text by exact Ht. reflexivity.
  - replace (length (([dchar d0; dchar d1; dchar d2] ++ [dchar d3; dchar d4] ++ []) ++ amf_text a ++ hex_text 8 t)) with 19%nat
      by (rewrite !app_length; unfold amf_text; rewrite !hex_text_length; reflexivity).
    cbn [Nat.eqb orb Nat.sub].
    change (([dchar d0; dchar d1; dchar d2] ++ [dchar d3; dchar d4] ++ []) ++ amf_text a ++ hex_text 8 t)
      with ([dchar d0; dchar d1; dchar d2; dchar d3; dchar d4] ++ amf_text a ++ hex_text 8 t).
    rewrite (skipn_add 5 6).
    rewrite firstn_app_len, skipn_app_len by reflexivity.
    cbn [parse_decs]. rewrite !dval_dchar by assumption. cbn [plmn_of_digits].
    rewrite (firstn_app_len (amf_text a)) by apply hex_text_length.
    rewrite (skipn_app_len (amf_text a)) by apply hex_text_length.
    rewrite parse_amf_text_text by exact Ha.
    rewrite parse_hex_text by exact Ht. reflexivity.
Qed.

Lemma hchar_byte v : is_byte (hchar (v mod 16)).
Proof. unfold is_byte, hchar. destruct (N.ltb_spec (v mod 16) 10); lia. Qed.

Lemma hex_text_ok n v : bytes_ok (hex_text n v).
Proof.
  revert v; induction n; intro v; cbn [hex_text]; [constructor|].
  apply Forall_app. split; [apply IHn|]. constructor; [apply hchar_byte|constructor].
Qed.

Lemma plmn_text_bytes p : plmn_ok p -> bytes_ok (plmn_text p).
Proof.
  destruct p as [d0 d1 d2 d3 d4 m]. unfold plmn_ok, plmn_text, mcc_text, mnc_text.
  cbn [mcc1 mcc2 mcc3 mnc1 mnc2 mnc3]. intros (H0 & H1 & H2 & H3 & H4 & H5).
  destruct m; repeat constructor; unfold is_byte, dchar; lia.
Qed.

Lemma guti_text_bytes g : guti_ok g -> bytes_ok (guti_text g).
Proof.
  intros (Hp & _ & _). unfold guti_text, amf_text.
  apply Forall_app; split; [apply plmn_text_bytes, Hp|]. apply Forall_app; split; apply hex_text_ok.
Qed.

Lemma parse_guti_text_ok s g : parse_guti_text s = Some g -> guti_ok g.
Proof.
  unfold parse_guti_text.
  destruct (Nat.eqb (length s) 19 || Nat.eqb (length s) 20)%bool eqn:EL; [|discriminate].
  destruct (parse_decs (firstn (length s - 14) s)) as [ds|] eqn:ED; [|discriminate].
  destruct (plmn_of_digits ds) as [p|] eqn:EP; [|discriminate].
  destruct (parse_amf_text (firstn 6 (skipn (length s - 14) s))) as [a|] eqn:EA; [|discriminate].
  destruct (parse_hex (skipn (length s - 14 + 6) s)) as [t|] eqn:ET; [|discriminate].
  intro H. injection H as <-. unfold guti_ok. cbn [g_plmn g_amf g_tmsi]. split; [|split].
  - (* digits *)
    assert (HD : decs ds).
    { clear -ED. revert ds ED. generalize (firstn (length s - 14) s). intro l.
      induction l as [|c l IH]; intros ds H; cbn [parse_decs] in H.
      - injection H as <-. constructor.
      - destruct (dval c) as [d|] eqn:E; [|discriminate]. destruct (parse_decs l) as [l'|]; [|discriminate].
        injection H as <-. constructor; [eapply dval_lt; eassumption|]. apply IH. reflexivity. }
    unfold decs in HD.
    destruct ds as [|a0 [|a1 [|a2 [|a3 [|a4 [|a5 [|]]]]]]]; cbn [plmn_of_digits] in EP; try discriminate;
      injection EP as <-; unfold plmn_ok; cbn [mcc1 mcc2 mcc3 mnc1 mnc2 mnc3];
      repeat match goal with H : Forall _ (_ :: _) |- _ => inversion H; subst; clear H end; tauto.
  - eapply parse_amf_text_ok; eassumption.
  - apply (parse_hex_8_lt (skipn (length s - 14 + 6) s)); [|exact ET].
    rewrite skipn_length. apply orb_true_iff in EL. destruct EL as [E|E]; apply Nat.eqb_eq in E; rewrite E; reflexivity.
Qed.

(* round trips *)
Lemma guti_roundtrip_text g : guti_ok g ->
  (r <- GutiToNasWithError (guti_text g) ;; let '(_, _, o) := r in GutiToStringWithError o)
  = Ok (mcc_text (g_plmn g), mnc_text (g_plmn g), amf_text (g_amf g), guti_text g).
Proof.
  intro H. rewrite (guti_nas_ok _ g) by (try apply guti_text_bytes; try apply parse_guti_text_text; exact H).
  cbn [obind]. apply guti_str_ok, H.
Qed.

Lemma guti_roundtrip_wire g : guti_ok g ->
  (r <- GutiToStringWithError (guti_wire g) ;; let '(_, _, _, s) := r in GutiToNasWithError s)
  = Ok (0, 11, guti_wire g).
Proof.
  intro H. rewrite guti_str_ok by exact H. cbn [obind].
  apply guti_nas_ok; [apply guti_text_bytes|apply parse_guti_text_text]; exact H.
Qed.

(* any accepted text (upper-case hex included) comes back in canonical lower-case form *)
Lemma guti_roundtrip_accepted s g : bytes_ok s -> parse_guti_text s = Some g ->
  (r <- GutiToNasWithError s ;; let '(_, _, o) := r in GutiToStringWithError o)
  = Ok (mcc_text (g_plmn g), mnc_text (g_plmn g), amf_text (g_amf g), guti_text g).
Proof.
  intros Hok H. rewrite (guti_nas_ok _ g) by assumption. cbn [obind].
  apply guti_str_ok. eapply parse_guti_text_ok; eassumption.
Qed.

(* totality: both directions, every input *)
Lemma GutiToNasWithError_total s : bytes_ok s -> is_total (GutiToNasWithError s).
Proof. intro H. rewrite guti_nas_spec by exact H. destruct (parse_guti_text s); exact I. Qed.

Lemma GutiToNas_total s : bytes_ok s -> is_total (GutiToNas s).
Proof. intro H. unfold GutiToNas. rewrite guti_nas_spec by exact H. destruct (parse_guti_text s); exact I. Qed.

Lemma GutiToStringWithError_total buf : is_total (GutiToStringWithError buf).
Proof.
  unfold GutiToStringWithError. destruct (Nat.eqb_spec (length buf) 11) as [L|L]; [|exact I].
  destruct buf as [|y [|x [|z [|w [|a0 [|a1 [|a2 [|t0 [|t1 [|t2 [|t3 [|]]]]]]]]]]]]; cbn [length] in L; try lia.
  cbn [negb]. fold (GutiToStringWithError [y; x; z; w; a0; a1; a2; t0; t1; t2; t3]).
  cbn [length Nat.eqb negb slice slice_from Nat.leb andb Nat.sub firstn skipn obind].
  unfold PlmnIDToString. cbn [idx nth_error obind hex_EncodeToString flat_map app].
  match goal with |- context [if ?c then _ else _] => destruct c end; cbn; exact I.
Qed.

Lemma GutiToString_total buf : is_total (GutiToString buf).
Proof.
  unfold GutiToString. pose proof (GutiToStringWithError_total buf).
  destruct (GutiToStringWithError buf); auto; exact I.
Qed.
