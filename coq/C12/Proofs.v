(* C12 proofs: collected.  Proofs_base (reflection over octets/nibbles, stdlib-model lemmas),
   Proofs_plmn (PLMN, AMF identifier), Proofs_guti (accessors, 5G-GUTI), Proofs_suci (SUCI, NAI, IMEI/IMEISV),
   Proofs_getters (nasType text getters on valid identities, 5G-S-TMSI), Proofs_total (C14: totality, F9). *)
From NV Require Export Lib.Base C12.GoStd C12.Model C12.Spec C12.Proofs_base C12.Proofs_plmn C12.Proofs_guti
  C12.Proofs_suci C12.Proofs_getters C12.Proofs_total.
