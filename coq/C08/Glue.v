(* C06 / C07 / C08 assembly: the concrete NASEncrypt / NASMacCalculate =
   the wrapper model of CAES/Model.v with
     E    := FIPS-197 AES-128 (CAES/Spec.v)
     nea1 := CS3G.Model.NEA1   nia1 := CS3G.Model.NIA1      (SNOW 3G)
     nea3 := CZUC.Model.NEA3   nia3 := CZUC.Model.NIA3      (ZUC)
   and the interface premises of the CAES wrapper theorems discharged from the final theorems
   of the SNOW 3G and ZUC parts (Props/CS3G.v, Props/CZUC.v).

   Length domain carried by every statement: [dom n := 8 * n < 2^32 - 31] octets, i.e. the
   uint32 bit length 8*len(payload) and NEA1/NEA3/NIA3's "(length + 31) / 32" do not wrap
   (payloads shorter than 2^29 - 4 octets); this is the bound of the SNOW 3G and ZUC theorems.
   For algorithm 2 alone the CAES theorems need no such bound. *)
From NV Require Import Lib.Base CAES.Util CAES.Spec CAES.Proofs_aes CAES.Proofs_ctr CAES.Proofs_cmac CAES.Proofs.
From NV Require CAES.Model CS3G.Model CS3G.Spec CS3G.Proofs CZUC.Model CZUC.Spec CZUC.Proofs.
From NV Require Import Props.CS3G Props.CZUC.
From Coq Require Import ZifyN ZifyNat ZifyBool.
Open Scope N_scope.

Definition NASEncrypt : N -> bytes -> N -> N -> N -> option bytes -> outcome unit * option bytes :=
  CAES.Model.NASEncrypt aes128 CS3G.Model.NEA1 CZUC.Model.NEA3.
Definition NASMacCalculate : N -> bytes -> N -> N -> N -> option bytes -> outcome bytes :=
  CAES.Model.NASMacCalculate aes128 CS3G.Model.NIA1 CZUC.Model.NIA3.

(* payload / message lengths (octets) covered by the SNOW 3G and ZUC theorems *)
Definition dom (n : nat) : Prop := 8 * N.of_nat n < 2 ^ 32 - 31.

Lemma dom_len_dom : len_dom dom.
Proof.
  constructor; unfold dom, len32_ok; change (2 ^ 32) with 4294967296; intros; lia.
Qed.

Lemma dom_payload_ok p : dom (length p) <-> CZUC.Proofs_Laws.payload_ok p.
Proof. unfold dom, CZUC.Proofs_Laws.payload_ok. change (2 ^ 32) with 4294967296. lia. Qed.

Lemma block_ok_key_ok k : block_ok k <-> CZUC.Proofs_Zuc.key_ok k.
Proof. reflexivity. Qed.

(* the three parts use structurally identical octet-wise xor functions *)
Lemma xor_octets_xorb a b : CS3G.Proofs_Bits.xor_octets a b = Util.xorb a b.
Proof. revert b; induction a as [|x a IH]; intros [|y b]; simpl; auto; rewrite IH; reflexivity. Qed.

Lemma xor_bytes_xorb a b : CZUC.Proofs_BitStr.xor_bytes a b = Util.xorb a b.
Proof. revert b; induction a as [|x a IH]; intros [|y b]; simpl; auto; rewrite IH; reflexivity. Qed.

(* ---------- NEA1 meets the stream interface ---------- *)

Definition ks1 := ks_of_zeros CS3G.Model.NEA1.

Lemma nea1_iface : stream_iface CS3G.Model.NEA1 ks1 dom.
Proof.
  apply stream_iface_of_laws.
  - intros k c b d p [[L O] [Hc [Hb Hd]]] Hn.
    exact (CS3G_nea1_length k c b d p L O Hc Hb Hd Hn).
  - intros k c b d p q o o' [[L O] [Hc [Hb Hd]]] Hn Lpq A A'.
    rewrite <- !xor_octets_xorb.
    exact (CS3G_nea1_keystream_indep k c b d p q o o' L O Hc Hb Hd Hn (eq_sym Lpq) A A').
  - intros k c b d p o n [[L O] [Hc [Hb Hd]]] Hn Hle A.
    exact (CS3G_nea1_prefix k c b d p o n L O Hc Hb Hd Hn Hle A).
Qed.

(* ---------- NEA3 meets the stream interface ---------- *)

Lemma zuc_u32_len n : dom n ->
  CZUC.Model.u32 (CZUC.Model.u32 (N.of_nat n) * 8) = 8 * N.of_nat n.
Proof.
  unfold dom, CZUC.Model.u32. change (2 ^ 32) with 4294967296. intro H.
  change 0xFFFFFFFF with (N.ones 32). rewrite !N.land_ones.
  change (2 ^ 32) with 4294967296.
  rewrite (N.mod_small (N.of_nat n)) by lia. rewrite N.mod_small by lia. lia.
Qed.

Lemma zuc_copy_into_same dst src : length src = length dst -> CZUC.Model.copy_into dst src = src.
Proof.
  intro L. unfold CZUC.Model.copy_into. rewrite <- L, firstn_all. rewrite L, skipn_all, app_nil_r. reflexivity.
Qed.

(* the ZUC part states its laws on NASEncrypt3, the AlgoID = 3 path; on valid arguments that is NEA3
   with bit length 8 * len *)
Lemma enc3_is_nea3 k c b d p : block_ok k -> c < 2 ^ 32 -> b < 32 -> d < 2 -> dom (length p) ->
  CZUC.Model.NASEncrypt3 k c b d p = CZUC.Model.NEA3 k c b d p (8 * N.of_nat (length p)).
Proof.
  intros K Hc Hb Hd Hn. unfold CZUC.Model.NASEncrypt3.
  destruct (N.ltb_spec 31 b) as [Hbad|_]; [lia|].
  destruct (N.ltb_spec 1 d) as [Hbad|_]; [lia|].
  rewrite zuc_u32_len by exact Hn.
  destruct (CZUC_nea3_eq_eea3 k c b d p (8 * N.of_nat (length p))) as [obs [A [B _]]];
    try assumption; try lia.
  { unfold dom in Hn. change (2 ^ 32) with 4294967296 in *. lia. }
  rewrite A. cbn [obind]. rewrite zuc_copy_into_same by exact B. reflexivity.
Qed.

Definition ks3 := ks_of_zeros CZUC.Model.NEA3.

Lemma dom_firstn n (p : bytes) : dom (length p) -> dom (length (firstn n p)).
Proof. apply (dom_le _ dom_len_dom). rewrite firstn_length. lia. Qed.

Lemma nea3_iface : stream_iface CZUC.Model.NEA3 ks3 dom.
Proof.
  apply stream_iface_of_laws.
  - intros k c b d p [K [Hc [Hb Hd]]] Hn.
    destruct (CZUC_nea3_eq_eea3 k c b d p (8 * N.of_nat (length p))) as [obs [A [B _]]];
      try assumption; try lia.
    { unfold dom in Hn. change (2 ^ 32) with 4294967296 in *. lia. }
    eauto.
  - intros k c b d p q o o' [K [Hc [Hb Hd]]] Hn Lpq A A'.
    assert (Hq : dom (length q)) by (rewrite <- Lpq; exact Hn).
    unfold bits in A, A'.
    rewrite <- enc3_is_nea3 in A, A' by assumption.
    rewrite <- !xor_bytes_xorb.
    exact (CZUC_nea3_keystream_indep k c b d p q o o' K (proj1 (dom_payload_ok p) Hn) Lpq A A').
  - intros k c b d p o n [K [Hc [Hb Hd]]] Hn Hle A.
    unfold bits in *.
    rewrite <- enc3_is_nea3 in A by assumption.
    rewrite <- enc3_is_nea3 by (try assumption; apply dom_firstn; exact Hn).
    exact (proj1 CZUC_nea3_prefix k c b d p o n K (proj1 (dom_payload_ok p) Hn) A).
Qed.

(* ---------- NIA1 / NIA3 meet the MAC interface ---------- *)

Lemma nia1_iface : mac_iface CS3G.Model.NIA1 dom.
Proof.
  intros k c b d m [[L O] [Hc [Hb Hd]]] Om Hn.
  apply CS3G_mac_len4; try assumption; try lia.
  - unfold dom in Hn. change (2 ^ 32) with 4294967296 in Hn.
    change (2 ^ 60) with 1152921504606846976. lia.
  - intros i Hi. apply nth_overflow. rewrite CS3G.Proofs_Bits.octets_bits_length. lia.
Qed.

Lemma nia3_iface : mac_iface CZUC.Model.NIA3 dom.
Proof.
  intros k c b d m [K [Hc [Hb Hd]]] Om Hn.
  assert (H31 : 8 * N.of_nat (length m) + 31 < 2 ^ 32).
  { unfold dom in Hn. change (2 ^ 32) with 4294967296 in *. lia. }
  pose proof (CZUC_nia3_eq_eia3 k c b d m (8 * N.of_nat (length m)) K Hc Hb Hd (N.le_refl _) H31) as A.
  eexists. split; [exact A|].
  exact (proj1 (proj2 CZUC_mac_len4 k c b d m _ _ K (N.le_refl _) H31 A)).
Qed.

(* ================= C08 for the concrete wrappers ================= *)

Lemma enc_ok_valid alg k c b d p ct :
  NASEncrypt alg k c b d (Some p) = (Ok tt, Some ct) -> alg <= 3 /\ b <= 31 /\ d <= 1.
Proof.
  intro H.
  assert (NI : ~ invalid alg b d (Some p)).
  { intro Inv. unfold NASEncrypt in H. rewrite encrypt_validation in H by exact Inv. discriminate H. }
  apply not_invalid in NI. tauto.
Qed.

Lemma valid_of k c b d : block_ok k -> c < 2 ^ 32 -> b <= 31 -> d <= 1 -> valid_args k c b d.
Proof. unfold valid_args. intros. repeat split; try apply H; lia. Qed.

Lemma c08_laws alg k c b d (p : bytes) :
  alg <= 3 -> valid_args k c b d -> dom (length p) ->
  exists ct,
    NASEncrypt alg k c b d (Some p) = (Ok tt, Some ct) /\
    length ct = length p /\
    NASEncrypt alg k c b d (Some ct) = (Ok tt, Some p) /\
    (forall n, NASEncrypt alg k c b d (Some (firstn n p)) = (Ok tt, Some (firstn n ct))) /\
    (forall (q cq : bytes), length q = length p ->
       NASEncrypt alg k c b d (Some q) = (Ok tt, Some cq) -> Util.xorb ct p = Util.xorb cq q).
Proof.
  exact (encrypt_laws aes128 CS3G.Model.NEA1 CZUC.Model.NEA3 aes128_wf dom dom_len_dom
           ks1 ks3 nea1_iface nea3_iface alg k c b d p).
Qed.

(* validation: for every algorithm identity, bearer and direction *)
Lemma c08_validation alg k c b d payload :
  31 < b \/ 1 < d \/ payload = None \/ 3 < alg ->
  NASEncrypt alg k c b d payload = (Err, payload) /\ NASMacCalculate alg k c b d payload = Err.
Proof.
  intro H. split.
  - exact (encrypt_validation aes128 CS3G.Model.NEA1 CZUC.Model.NEA3 alg k c b d payload H).
  - exact (mac_validation aes128 CS3G.Model.NIA1 CZUC.Model.NIA3 alg k c b d payload H).
Qed.

(* length is preserved whatever the call returns: all alg, bearer, direction *)
Lemma c08_length alg k c b d (p : bytes) ct :
  block_ok k -> c < 2 ^ 32 -> dom (length p) ->
  snd (NASEncrypt alg k c b d (Some p)) = Some ct -> length ct = length p.
Proof.
  intros K Hc Hn H.
  destruct (N.le_gt_cases b 31) as [Hb|Hb];
    [|rewrite (proj1 (c08_validation alg k c b d (Some p) ltac:(auto))) in H; inversion H; reflexivity].
  destruct (N.le_gt_cases d 1) as [Hd|Hd];
    [|rewrite (proj1 (c08_validation alg k c b d (Some p) ltac:(auto))) in H; inversion H; reflexivity].
  destruct (N.le_gt_cases alg 3) as [Ha|Ha];
    [|rewrite (proj1 (c08_validation alg k c b d (Some p) ltac:(auto))) in H; inversion H; reflexivity].
  destruct (c08_laws alg k c b d p Ha (valid_of k c b d K Hc Hb Hd) Hn) as [ct' [A [B _]]].
  rewrite A in H. inversion H; subst. exact B.
Qed.

Lemma c08_involution alg k c b d (p ct : bytes) :
  block_ok k -> c < 2 ^ 32 -> dom (length p) ->
  NASEncrypt alg k c b d (Some p) = (Ok tt, Some ct) ->
  NASEncrypt alg k c b d (Some ct) = (Ok tt, Some p).
Proof.
  intros K Hc Hn H. destruct (enc_ok_valid _ _ _ _ _ _ _ H) as [Ha [Hb Hd]].
  destruct (c08_laws alg k c b d p Ha (valid_of k c b d K Hc Hb Hd) Hn) as [ct' [A [_ [B _]]]].
  rewrite A in H. inversion H; subst. exact B.
Qed.

Lemma c08_prefix alg k c b d (p ct : bytes) n :
  block_ok k -> c < 2 ^ 32 -> dom (length p) ->
  NASEncrypt alg k c b d (Some p) = (Ok tt, Some ct) ->
  NASEncrypt alg k c b d (Some (firstn n p)) = (Ok tt, Some (firstn n ct)).
Proof.
  intros K Hc Hn H. destruct (enc_ok_valid _ _ _ _ _ _ _ H) as [Ha [Hb Hd]].
  destruct (c08_laws alg k c b d p Ha (valid_of k c b d K Hc Hb Hd) Hn) as [ct' [A [_ [_ [B _]]]]].
  rewrite A in H. inversion H; subst. apply B.
Qed.

Lemma c08_keystream_indep alg k c b d (p q cp cq : bytes) :
  block_ok k -> c < 2 ^ 32 -> dom (length p) -> length q = length p ->
  NASEncrypt alg k c b d (Some p) = (Ok tt, Some cp) ->
  NASEncrypt alg k c b d (Some q) = (Ok tt, Some cq) ->
  Util.xorb cp p = Util.xorb cq q.
Proof.
  intros K Hc Hn L H H'. destruct (enc_ok_valid _ _ _ _ _ _ _ H) as [Ha [Hb Hd]].
  destruct (c08_laws alg k c b d p Ha (valid_of k c b d K Hc Hb Hd) Hn) as [ct' [A [_ [_ [_ B]]]]].
  rewrite A in H. inversion H; subst. exact (B q cq L H').
Qed.

Lemma c08_null k c b d p : b <= 31 -> d <= 1 ->
  NASEncrypt 0 k c b d (Some p) = (Ok tt, Some p) /\
  NASMacCalculate 0 k c b d (Some p) = Ok [0; 0; 0; 0].
Proof.
  intros Hb Hd. split.
  - exact (encrypt_null aes128 CS3G.Model.NEA1 CZUC.Model.NEA3 k c b d p Hb Hd).
  - exact (mac_null aes128 CS3G.Model.NIA1 CZUC.Model.NIA3 k c b d p Hb Hd).
Qed.

Lemma c08_mac_len4 alg k c b d msg :
  block_ok k -> c < 2 ^ 32 -> payload_ok dom msg ->
  NASMacCalculate alg k c b d msg = Err \/
  exists m, NASMacCalculate alg k c b d msg = Ok m /\ length m = 4%nat.
Proof.
  exact (mac_len4 aes128 CS3G.Model.NIA1 CZUC.Model.NIA3 aes128_wf dom dom_len_dom
           nia1_iface nia3_iface alg k c b d msg).
Qed.

Lemma c08_total alg k c b d payload :
  block_ok k -> c < 2 ^ 32 -> payload_ok dom payload ->
  is_total (fst (NASEncrypt alg k c b d payload)) /\ is_total (NASMacCalculate alg k c b d payload).
Proof.
  intros K Hc P. split.
  - exact (enc_total aes128 CS3G.Model.NEA1 CZUC.Model.NEA3 aes128_wf dom dom_len_dom
             ks1 ks3 nea1_iface nea3_iface alg k c b d payload K Hc P).
  - exact (mac_total aes128 CS3G.Model.NIA1 CZUC.Model.NIA3 aes128_wf dom dom_len_dom
             nia1_iface nia3_iface alg k c b d payload K Hc P).
Qed.

(* a call succeeds exactly on valid parameters *)
Lemma c08_ok_iff alg k c b d (p : bytes) :
  block_ok k -> c < 2 ^ 32 -> dom (length p) ->
  ((exists ct, NASEncrypt alg k c b d (Some p) = (Ok tt, Some ct)) <-> (alg <= 3 /\ b <= 31 /\ d <= 1)).
Proof.
  intros K Hc Hn. split.
  - intros [ct H]. exact (enc_ok_valid _ _ _ _ _ _ _ H).
  - intros [Ha [Hb Hd]].
    destruct (c08_laws alg k c b d p Ha (valid_of k c b d K Hc Hb Hd) Hn) as [ct [A _]]. eauto.
Qed.

(* ================= C06 / C07 through the concrete wrappers ================= *)

Lemma dom_wrap32 n : dom n -> (N.of_nat n mod 2 ^ 32 * 8) mod 2 ^ 32 = 8 * N.of_nat n.
Proof. intro H. apply len32_wrap. apply (dom_32 _ dom_len_dom). exact H. Qed.

Lemma dom_wrap64 n : dom n -> (N.of_nat n mod 2 ^ 64 * 8) mod 2 ^ 64 = 8 * N.of_nat n.
Proof. intro H. apply len64_wrap. apply (dom_32 _ dom_len_dom). exact H. Qed.

(* algorithm 1 through the in-place API = 128-EEA1 (UEA2) on all 8 * len bits *)
Lemma c06_enc_alg1 k c b d (p : bytes) : valid_args k c b d -> dom (length p) ->
  exists ct, NASEncrypt 1 k c b d (Some p) = (Ok tt, Some ct) /\ length ct = length p /\
    CS3G.Spec.Spec.octets_bits ct = CS3G.Spec.Spec.EEA1 k c b d (CS3G.Spec.Spec.octets_bits p).
Proof.
  intros [[L O] [Hc [Hb Hd]]] Hn.
  destruct (CS3G_nasencrypt_alg1_eq_uea2 k c b d p L O Hc Hb Hd Hn) as [ct [A [B C]]].
  rewrite (CS3G_nasencrypt_alg1 k c b d p L O Hc Hb Hd Hn) in A.
  exists ct. split; [|split; assumption].
  unfold NASEncrypt.
  destruct (encrypt_dispatch aes128 CS3G.Model.NEA1 CZUC.Model.NEA3 k c b d p ltac:(lia) ltac:(lia))
    as [_ [H1 _]].
  rewrite H1, dom_wrap32 by exact Hn. rewrite A. cbn [CAES.Model.enc_finish].
  rewrite copy_into_same by exact B. reflexivity.
Qed.

(* algorithm 2 = 128-EEA2 *)
Lemma c06_enc_alg2 k c b d (p : bytes) : valid_args k c b d -> dom (length p) ->
  NASEncrypt 2 k c b d (Some p) = (Ok tt, Some (EEA2 k c b d p)).
Proof.
  intros V Hn. apply (encrypt_eea2 aes128 CS3G.Model.NEA1 CZUC.Model.NEA3 aes128_wf); [exact V|].
  unfold dom in Hn. change (2 ^ 32) with 4294967296 in Hn. change (2 ^ 63) with 9223372036854775808. lia.
Qed.

(* algorithm 3 = 128-EEA3 on all 8 * len bits *)
Lemma c06_enc_alg3 k c b d (p : bytes) : valid_args k c b d -> dom (length p) ->
  exists ct, NASEncrypt 3 k c b d (Some p) = (Ok tt, Some ct) /\ length ct = length p /\
    CZUC.Spec.octets_bits ct = CZUC.Spec.EEA3Spec.eea3 k c b d (CZUC.Spec.octets_bits p).
Proof.
  intros [K [Hc [Hb Hd]]] Hn.
  destruct (CZUC_enc_eq_eea3 k c b d p K Hc ltac:(lia) ltac:(lia) (proj1 (dom_payload_ok p) Hn))
    as [ct [A [B C]]].
  rewrite enc3_is_nea3 in A by assumption.
  exists ct. split; [|split; assumption].
  unfold NASEncrypt.
  destruct (encrypt_dispatch aes128 CS3G.Model.NEA1 CZUC.Model.NEA3 k c b d p ltac:(lia) ltac:(lia))
    as [_ [_ [_ H3]]].
  rewrite H3, dom_wrap32 by exact Hn. rewrite A. cbn [CAES.Model.enc_finish].
  rewrite copy_into_same by exact B. reflexivity.
Qed.

(* NASMacCalculate: algorithm 1 = 128-EIA1 (UIA2), 2 = 128-EIA2, 3 = 128-EIA3, on all 8 * len bits *)
Lemma c07_mac_alg1 k c b d (m : bytes) : valid_args k c b d -> bytes_ok m -> dom (length m) ->
  NASMacCalculate 1 k c b d (Some m)
  = Ok (CS3G.Spec.Spec.mac_octets (CS3G.Spec.Spec.EIA1 k c b d (CS3G.Spec.Spec.octets_bits m))).
Proof.
  intros [[L O] [Hc [Hb Hd]]] Om Hn. unfold NASMacCalculate.
  destruct (mac_dispatch aes128 CS3G.Model.NIA1 CZUC.Model.NIA3 k c b d m ltac:(lia) ltac:(lia))
    as [_ [H1 _]].
  rewrite H1, dom_wrap64 by exact Hn.
  rewrite (CS3G_nia1_eq_uia2 k c b d m (8 * N.of_nat (length m))); try assumption; try lia.
  - rewrite firstn_all2; [reflexivity|]. rewrite CS3G.Proofs_Bits.octets_bits_length. lia.
  - unfold dom in Hn. change (2 ^ 32) with 4294967296 in Hn.
    change (2 ^ 60) with 1152921504606846976. lia.
  - intros i Hi. apply nth_overflow. rewrite CS3G.Proofs_Bits.octets_bits_length. lia.
Qed.

Lemma c07_mac_alg2 k c b d (m : bytes) : valid_args k c b d -> bytes_ok m ->
  NASMacCalculate 2 k c b d (Some m) = Ok (EIA2 k c b d m) /\ length (EIA2 k c b d m) = 4%nat.
Proof. exact (mac_eia2 aes128 CS3G.Model.NIA1 CZUC.Model.NIA3 aes128_wf k c b d m). Qed.

Lemma c07_mac_alg3 k c b d (m : bytes) : valid_args k c b d -> dom (length m) ->
  NASMacCalculate 3 k c b d (Some m)
  = Ok (CZUC.Spec.word_octets (CZUC.Spec.EIA3Spec.eia3 k c b d (CZUC.Spec.octets_bits m))).
Proof.
  intros [K [Hc [Hb Hd]]] Hn. unfold NASMacCalculate.
  destruct (mac_dispatch aes128 CS3G.Model.NIA1 CZUC.Model.NIA3 k c b d m ltac:(lia) ltac:(lia))
    as [_ [_ [_ H3]]].
  rewrite H3, dom_wrap32 by exact Hn.
  rewrite (CZUC_nia3_eq_eia3 k c b d m (8 * N.of_nat (length m))); try assumption; try lia.
  - rewrite firstn_all2; [reflexivity|]. rewrite CZUC.Proofs_BitStr.octets_bits_length. lia.
  - unfold dom in Hn. change (2 ^ 32) with 4294967296 in *. lia.
Qed.
