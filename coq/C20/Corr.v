(* C20 correspondence: histories observed on the Go implementation (through the
   exported API only), replayed on the model. *)
From NV Require Import Lib.Base C20.Model.
Open Scope Z_scope.

(* observable result of one call; a history stops at the first panic / hang *)
Inductive obs :=
| OId (id : Z)
| OFail
| ONone
| OPanic
| OHang.

Definition obs_eqb (a b : obs) : bool :=
  match a, b with
  | OId x, OId y => x =? y
  | OFail, OFail => true
  | ONone, ONone => true
  | OPanic, OPanic => true
  | OHang, OHang => true
  | _, _ => false
  end.

Definition obs_of (r : res) : obs :=
  match r with RId id => OId id | RFail => OFail | RNone => ONone end.

Fixpoint run_obs (g : gen) (ops : list op) : list obs :=
  match ops with
  | [] => []
  | o :: t =>
      match step g o with
      | Ok (g', r) => obs_of r :: run_obs g' t
      | OutOfFuel => [OHang]
      | _ => [OPanic]
      end
  end.

(* digest of the whole tree of histories of depth <= d over an alphabet, in
   pre-order: one number per node = result of the last call of that history *)
Definition mix (h c : Z) : Z := Z.land (h * 1000003 + c) 2147483647.

Definition code (lo : Z) (r : res) : Z :=
  match r with
  | RId id => 10 + (id - lo) mod 1000000
  | RFail => 1
  | RNone => 2
  end.

Fixpoint tree (d : nat) (lo : Z) (alpha : list op) (g : gen) (h : Z) : Z :=
  match d with
  | O => h
  | S d' =>
      fold_left (fun h o =>
        match step g o with
        | Ok (g', r) => tree d' lo alpha g' (mix h (code lo r))
        | OutOfFuel => mix h 4
        | _ => mix h 3
        end) alpha h
  end.

Inductive case :=
| CHist (id : N) (lo hi : Z) (ops : list op) (observed : list obs)
| CTree (id : N) (lo hi : Z) (alpha : list op) (depth : nat) (digest : Z).

Definition case_id (c : case) : N :=
  match c with CHist id _ _ _ _ => id | CTree id _ _ _ _ _ => id end.

Definition case_ok (c : case) : bool :=
  match c with
  | CHist _ lo hi ops observed => eqb_list obs_eqb (run_obs (NewGenerator lo hi) ops) observed
  | CTree _ lo hi alpha d digest => tree d lo alpha (NewGenerator lo hi) 7 =? digest
  end.

Definition mismatches (cs : list case) : list N :=
  map case_id (filter (fun c => negb (case_ok c)) cs).
