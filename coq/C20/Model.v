(* C20: executable model of uePolicyContainer/UPSC_Generator.go (IDGenerator).
   Hand-written, function by function, same names as the Go text.

   Go int64 arithmetic is modelled on Z with explicit two's-complement
   wrap-around ([wrap64]) after every +, - and %; Go's % truncates toward zero
   ([Z.rem]) and panics for a zero divisor.  The map usedMap (map[int64]bool,
   only ever holding the value true) is a duplicate-free list of its keys:
   m[k] = true  is [map_set], delete(m, k) is [map_del], the lookup
   "_, ok := m[k]" is [map_has]. *)
From NV Require Import Lib.Base.
Open Scope Z_scope.

(* two's-complement reduction into [-2^63, 2^63); the first branch is only a
   short cut for evaluation (Proofs.wrap64_mod: it is (z + 2^63) mod 2^64 - 2^63) *)
Definition wrap64 (z : Z) : Z :=
  if (-9223372036854775808 <=? z) && (z <? 9223372036854775808) then z
  else (z + 9223372036854775808) mod 18446744073709551616 - 9223372036854775808.

Definition go_add (a b : Z) : Z := wrap64 (a + b).
Definition go_sub (a b : Z) : Z := wrap64 (a - b).
(* a % b on int64: run-time panic for b = 0 (MinInt64 % -1 is 0 in Go, as Z.rem gives) *)
Definition go_rem (a b : Z) : outcome Z :=
  if b =? 0 then Panic else Ok (wrap64 (Z.rem a b)).

Fixpoint map_has (k : Z) (m : list Z) : bool :=
  match m with
  | [] => false
  | x :: t => if x =? k then true else map_has k t
  end.
Definition map_set (k : Z) (m : list Z) : list Z := if map_has k m then m else k :: m.
Definition map_del (k : Z) (m : list Z) : list Z := filter (fun x => negb (x =? k)) m.

Record gen := mkgen {
  minValue : Z;
  maxValue : Z;
  valueRange : Z;
  offset : Z;
  usedMap : list Z
}.

Definition with_offset (g : gen) (o : Z) : gen :=
  mkgen (minValue g) (maxValue g) (valueRange g) o (usedMap g).
Definition with_used (g : gen) (m : list Z) : gen :=
  mkgen (minValue g) (maxValue g) (valueRange g) (offset g) m.

(* NewGenerator / init *)
Definition init (minV maxV : Z) : gen :=
  mkgen minV maxV (go_add (go_sub maxV minV) 1) 0 [].
Definition NewGenerator := init.

(* offset++ ; offset = offset % valueRange *)
Definition updateOffset (g : gen) : outcome gen :=
  r <- go_rem (go_add (offset g) 1) (valueRange g) ;;
  Ok (with_offset g r).

(* offset = newoffset % valueRange ; if offset < 0 { offset += valueRange } *)
Definition setOffset (g : gen) (newoffset : Z) : outcome gen :=
  r <- go_rem newoffset (valueRange g) ;;
  Ok (with_offset g (if r <? 0 then go_add r (valueRange g) else r)).

(* the scanning loop of Allocate: Ok (g', true) = left by "break",
   Ok (g', false) = left by "return 0, error" (the offset has moved) *)
Fixpoint Allocate_loop (fuel : nat) (g : gen) (offsetBegin : Z) : outcome (gen * bool) :=
  match fuel with
  | O => OutOfFuel
  | S f =>
      if map_has (offset g) (usedMap g) then
        g1 <- updateOffset g ;;
        if offset g1 =? offsetBegin then Ok (g1, false)
        else Allocate_loop f g1 offsetBegin
      else Ok (g, true)
  end.

(* result of an allocation: Some id = (id, nil); None = (0, error) *)
Definition Allocate (fuel : nat) (g : gen) : outcome (gen * option Z) :=
  let offsetBegin := offset g in
  r <- Allocate_loop fuel g offsetBegin ;;
  let '(g1, found) := r in
  if found then
    let g2 := with_used g1 (map_set (offset g1) (usedMap g1)) in
    let id := go_add (offset g2) (minValue g2) in
    g3 <- updateOffset g2 ;;
    Ok (g3, Some id)
  else Ok (g1, None).

Fixpoint Allocate_inRange_loop (fuel : nat) (g : gen) (offsetBegin max : Z) : outcome (gen * bool) :=
  match fuel with
  | O => OutOfFuel
  | S f =>
      if map_has (offset g) (usedMap g) then
        g1 <- updateOffset g ;;
        if (offset g1 =? offsetBegin) || (offset g1 =? max) then Ok (g1, false)
        else Allocate_inRange_loop f g1 offsetBegin max
      else Ok (g, true)
  end.

Definition Allocate_inRange (fuel : nat) (g : gen) (min max : Z) : outcome (gen * option Z) :=
  let offsetBegin := offset g in
  g0 <- setOffset g min ;;
  r <- Allocate_inRange_loop fuel g0 offsetBegin max ;;
  let '(g1, found) := r in
  if found then
    let g2 := with_used g1 (map_set (offset g1) (usedMap g1)) in
    let id := go_add (offset g2) (minValue g2) in
    g3 <- updateOffset g2 ;;
    Ok (g3, Some id)
  else Ok (g1, None).

Definition FreeID (g : gen) (id : Z) : gen :=
  if (id <? minValue g) || (id >? maxValue g) then g
  else with_used g (map_del (go_sub id (minValue g)) (usedMap g)).

(* ---- operations and histories ---- *)

Inductive op :=
| OpAllocate
| OpAllocateInRange (min max : Z)
| OpFreeID (id : Z).

(* observable result of one call *)
Inductive res :=
| RId (id : Z)      (* (id, nil) *)
| RFail             (* (0, error) *)
| RNone.            (* FreeID returns nothing *)

(* fuel given to the two loops: (number of keys in the map) + 1.  Each iteration
   that goes on has found the current offset in the map, and the offsets visited are
   pairwise distinct, so this is enough; it is at most valueRange + 1
   (Proofs.no_hang, Proofs.used_length_le) and, unlike valueRange, cheap to evaluate. *)
Definition fuel_of (g : gen) : nat := S (length (usedMap g)).

Definition ares (r : gen * option Z) : gen * res :=
  (fst r, match snd r with Some id => RId id | None => RFail end).

Definition step_fuel (fuel : nat) (g : gen) (o : op) : outcome (gen * res) :=
  match o with
  | OpAllocate => omap ares (Allocate fuel g)
  | OpAllocateInRange a b => omap ares (Allocate_inRange fuel g a b)
  | OpFreeID id => Ok (FreeID g id, RNone)
  end.

Definition step (g : gen) (o : op) : outcome (gen * res) := step_fuel (fuel_of g) g o.

Fixpoint run_ops (g : gen) (ops : list op) : outcome (gen * list res) :=
  match ops with
  | [] => Ok (g, [])
  | o :: t =>
      r <- step g o ;;
      r' <- run_ops (fst r) t ;;
      Ok (fst r', snd r :: snd r')
  end.
