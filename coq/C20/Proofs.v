(* C20: invariant, closed forms of the loops, allocator laws. *)
From NV Require Import Lib.Base C20.Model C20.Spec.
From Coq Require Import ZifyN ZifyNat ZifyBool FinFun.
Open Scope Z_scope.

Arguments Z.pow : simpl never.
Arguments Z.modulo : simpl never.
Arguments Z.rem : simpl never.
Arguments Z.add : simpl never.
Arguments Z.sub : simpl never.

(* ---- int64 ---- *)
Definition int64 (z : Z) : Prop := - 2 ^ 63 <= z < 2 ^ 63.

Lemma p63 : 2 ^ 63 = 9223372036854775808. Proof. reflexivity. Qed.
Lemma p64 : 2 ^ 64 = 18446744073709551616. Proof. reflexivity. Qed.

Lemma wrap64_mod z : wrap64 z = (z + 2 ^ 63) mod 2 ^ 64 - 2 ^ 63.
Proof.
  unfold wrap64. rewrite p63, p64.
  destruct (Z.leb_spec (-9223372036854775808) z); [destruct (Z.ltb_spec z 9223372036854775808)|]; cbn [andb]; try reflexivity.
  rewrite Z.mod_small by lia. lia.
Qed.

Lemma wrap64_id z : int64 z -> wrap64 z = z.
Proof.
  rewrite wrap64_mod. unfold int64. rewrite p63, p64. intro H.
  rewrite Z.mod_small by lia. lia.
Qed.

(* ---- piecewise-linear forms of mod ---- *)
Lemma mod_lt2 R x : 0 < R -> 0 <= x < 2 * R -> x mod R = if x <? R then x else x - R.
Proof.
  intros HR Hx. destruct (Z.ltb_spec x R).
  - apply Z.mod_small; lia.
  - symmetry. apply (Z.mod_unique_pos x R 1); lia.
Qed.

Lemma mod_pm R x : 0 < R -> - R <= x < R -> x mod R = if x <? 0 then x + R else x.
Proof.
  intros HR Hx. destruct (Z.ltb_spec x 0).
  - symmetry. apply (Z.mod_unique_pos x R (-1)); lia.
  - apply Z.mod_small; lia.
Qed.

Lemma rem_norm a R : 0 < R ->
  (if Z.rem a R <? 0 then Z.rem a R + R else Z.rem a R) = a mod R.
Proof.
  intro HR.
  pose proof (Z.quot_rem' a R) as E.
  destruct (Z.le_gt_cases 0 a) as [Ha|Ha].
  - rewrite Z.rem_mod_nonneg by lia.
    pose proof (Z.mod_pos_bound a R HR).
    destruct (Z.ltb_spec (a mod R) 0); lia.
  - pose proof (Z.rem_bound_pos_neg a R ltac:(lia) ltac:(lia)) as B.
    destruct (Z.ltb_spec (Z.rem a R) 0).
    + apply (Z.mod_unique_pos a R (Z.quot a R - 1)); lia.
    + apply (Z.mod_unique_pos a R (Z.quot a R)); lia.
Qed.

Lemma rem_int64 a R : 0 < R < 2 ^ 63 -> int64 (Z.rem a R).
Proof.
  intros HR. unfold int64.
  destruct (Z.le_gt_cases 0 a) as [Ha|Ha].
  - pose proof (Z.rem_bound_pos a R Ha ltac:(lia)). lia.
  - pose proof (Z.rem_bound_pos_neg a R ltac:(lia) ltac:(lia)). lia.
Qed.

(* cyclic successor positions *)
Definition cyc (R b j : Z) : Z := (b + j) mod R.

Lemma cyc_bound R b j : 0 < R -> 0 <= cyc R b j < R.
Proof. intro. apply Z.mod_pos_bound; lia. Qed.

Lemma cyc_0 R b : 0 <= b < R -> cyc R b 0 = b.
Proof. intro. unfold cyc. rewrite Z.add_0_r. apply Z.mod_small; lia. Qed.

Lemma cyc_succ R b j : 0 < R -> (cyc R b j + 1) mod R = cyc R b (j + 1).
Proof.
  intro. unfold cyc. rewrite Z.add_mod_idemp_l by lia. f_equal. lia.
Qed.

Lemma cyc_full R b : 0 <= b < R -> cyc R b R = b.
Proof. intro. unfold cyc. rewrite (mod_lt2 R (b + R)) by lia. destruct (Z.ltb_spec (b + R) R); lia. Qed.

Lemma cyc_inj R b i j : 0 <= b < R -> 0 <= i < R -> 0 <= j < R -> cyc R b i = cyc R b j -> i = j.
Proof.
  intros Hb Hi Hj. unfold cyc.
  rewrite (mod_lt2 R (b + i)), (mod_lt2 R (b + j)) by lia.
  destruct (Z.ltb_spec (b + i) R), (Z.ltb_spec (b + j) R); lia.
Qed.

Lemma cyc_surj R b o : 0 <= b < R -> 0 <= o < R -> cyc R b ((o - b) mod R) = o.
Proof.
  intros Hb Ho. unfold cyc. rewrite (mod_pm R (o - b)) by lia.
  destruct (Z.ltb_spec (o - b) 0).
  - rewrite mod_lt2 by lia. destruct (Z.ltb_spec (b + (o - b + R)) R); lia.
  - rewrite mod_lt2 by lia. destruct (Z.ltb_spec (b + (o - b)) R); lia.
Qed.

(* ---- the map ---- *)
Lemma map_has_In k m : map_has k m = true <-> In k m.
Proof.
  induction m as [|x t IH]; simpl.
  - split; [discriminate|tauto].
  - destruct (Z.eqb_spec x k).
    + split; auto.
    + rewrite IH. split; [auto|intros [?|?]; [contradiction|assumption]].
Qed.

Lemma map_has_false k m : map_has k m = false <-> ~ In k m.
Proof. rewrite <- map_has_In. destruct (map_has k m); split; congruence. Qed.

Lemma map_del_In k x m : In x (map_del k m) <-> In x m /\ x <> k.
Proof.
  unfold map_del. rewrite filter_In. destruct (Z.eqb_spec x k); simpl; split; intros [? ?]; split; auto; congruence.
Qed.

Lemma map_del_NoDup k m : NoDup m -> NoDup (map_del k m).
Proof. apply NoDup_filter. Qed.

Lemma map_del_notin k m : ~ In k m -> map_del k m = m.
Proof.
  induction m as [|x t IH]; simpl; auto. intro H.
  destruct (Z.eqb_spec x k); simpl.
  - exfalso; apply H; auto.
  - f_equal. apply IH. tauto.
Qed.

(* ---- [0, R) as a list, for counting ---- *)
Definition zrange (R : Z) : list Z := map Z.of_nat (seq 0 (Z.to_nat R)).

Lemma zrange_In R x : In x (zrange R) <-> 0 <= x < R.
Proof.
  unfold zrange. rewrite in_map_iff. split.
  - intros [n [<- Hn]]. apply in_seq in Hn. lia.
  - intro H. exists (Z.to_nat x). split; [lia|]. apply in_seq. lia.
Qed.

Lemma zrange_length R : length (zrange R) = Z.to_nat R.
Proof. unfold zrange. rewrite map_length, seq_length. reflexivity. Qed.

Lemma zrange_NoDup R : NoDup (zrange R).
Proof.
  unfold zrange. apply FinFun.Injective_map_NoDup.
  - intros a b H. lia.
  - apply seq_NoDup.
Qed.

(* ---- invariant ---- *)
Definition bounds_ok (lo hi : Z) : Prop :=
  int64 lo /\ int64 hi /\ lo <= hi /\ hi - lo + 1 < 2 ^ 63.

Record Inv (g : gen) : Prop := mkInv {
  inv_bounds : bounds_ok (minValue g) (maxValue g);
  inv_range : valueRange g = maxValue g - minValue g + 1;
  inv_off : 0 <= offset g < valueRange g;
  inv_used : forall o, In o (usedMap g) -> 0 <= o < valueRange g;
  inv_nodup : NoDup (usedMap g)
}.

(* live identifiers *)
Definition live (g : gen) : list Z := map (fun o => o + minValue g) (usedMap g).

Lemma Inv_init lo hi : bounds_ok lo hi -> Inv (init lo hi).
Proof.
  intros (Hlo & Hhi & Hle & Hr). unfold int64 in *. rewrite p63 in *.
  assert (E : valueRange (init lo hi) = hi - lo + 1).
  { cbn. unfold go_add, go_sub. rewrite (wrap64_id (hi - lo)) by (unfold int64; rewrite p63; lia).
    apply wrap64_id. unfold int64; rewrite p63; lia. }
  constructor; cbn [minValue maxValue offset usedMap init].
  - unfold bounds_ok, int64. rewrite p63. lia.
  - exact E.
  - rewrite E. lia.
  - intros o [].
  - constructor.
Qed.

Lemma Inv_R g : Inv g -> 0 < valueRange g < 2 ^ 63.
Proof. intros [(?&?&?&?) E ? ? ?]. lia. Qed.

(* ---- updateOffset / setOffset in closed form ---- *)
Lemma updateOffset_spec g :
  0 < valueRange g < 2 ^ 63 -> 0 <= offset g < valueRange g ->
  updateOffset g = Ok (with_offset g ((offset g + 1) mod valueRange g)).
Proof.
  intros HR Ho. unfold updateOffset, go_rem, go_add. rewrite p63 in HR.
  rewrite (wrap64_id (offset g + 1)) by (unfold int64; rewrite p63; lia).
  destruct (Z.eqb_spec (valueRange g) 0); [lia|]. cbn [obind].
  rewrite Z.rem_mod_nonneg by lia.
  pose proof (Z.mod_pos_bound (offset g + 1) (valueRange g) ltac:(lia)).
  rewrite wrap64_id by (unfold int64; rewrite p63; lia). reflexivity.
Qed.

Lemma setOffset_spec g a :
  0 < valueRange g < 2 ^ 63 ->
  setOffset g a = Ok (with_offset g (a mod valueRange g)).
Proof.
  intros HR. unfold setOffset, go_rem, go_add.
  destruct (Z.eqb_spec (valueRange g) 0); [lia|]. cbn [obind].
  pose proof (rem_int64 a (valueRange g) HR) as Hi.
  rewrite (wrap64_id (Z.rem a (valueRange g))) by exact Hi.
  rewrite <- (rem_norm a (valueRange g)) by lia.
  destruct (Z.ltb_spec (Z.rem a (valueRange g)) 0); [|reflexivity].
  rewrite wrap64_id; [reflexivity|]. unfold int64 in *. lia.
Qed.

(* ---- the loops ---- *)
Definition Geom (g : gen) : Prop :=
  0 < valueRange g < 2 ^ 63 /\ 0 <= offset g < valueRange g.

Lemma Inv_Geom g : Inv g -> Geom g.
Proof. intro H. split; [apply Inv_R; exact H|apply inv_off; exact H]. Qed.

Lemma with_offset_same g : with_offset g (offset g) = g.
Proof. destruct g; reflexivity. Qed.

Lemma with_offset_twice g a b : with_offset (with_offset g a) b = with_offset g b.
Proof. reflexivity. Qed.

(* counting: the first j positions of a cyclic scan are distinct, so if all of
   them are in the map then j <= number of keys *)
Lemma NoDup_map_on {A B} (f : A -> B) l :
  (forall x y, In x l -> In y l -> f x = f y -> x = y) -> NoDup l -> NoDup (map f l).
Proof.
  intros Hinj Hnd. induction Hnd as [|x l Hx Hnd IH]; [constructor|].
  cbn [map]. constructor.
  - rewrite in_map_iff. intros (y & E & Hy). apply Hx.
    rewrite (Hinj x y); auto; [left; reflexivity|right; exact Hy].
  - apply IH. intros a b Ha Hb. apply Hinj; right; assumption.
Qed.

Lemma prefix_count R b j used :
  0 <= b < R -> 0 <= j <= R -> (forall i, 0 <= i < j -> In (cyc R b i) used) ->
  (Z.to_nat j <= length used)%nat.
Proof.
  intros Hb Hj H. rewrite <- (zrange_length j), <- (map_length (cyc R b)).
  apply NoDup_incl_length.
  - apply NoDup_map_on; [|apply zrange_NoDup]. intros x y Hx Hy E.
    apply zrange_In in Hx, Hy. apply (cyc_inj R b); try lia; exact E.
  - intros x Hx. apply in_map_iff in Hx. destruct Hx as (i & <- & Hi).
    apply H. apply zrange_In. exact Hi.
Qed.

(* termination and frame of the Allocate_inRange loop, started at position s with
   old offset b: it ends after at most (number of keys) + 1 iterations, whatever
   max is, because the scan reaches b again at the latest after valueRange steps *)
Lemma inRange_loop_spec : forall fuel g s b mx j,
  Geom g -> 0 <= s < valueRange g -> 0 <= b < valueRange g -> 0 <= j < valueRange g ->
  offset g = cyc (valueRange g) s j ->
  (forall i, 0 <= i < j -> In (cyc (valueRange g) s i) (usedMap g)) ->
  ((b - s) mod valueRange g = 0 \/ j < (b - s) mod valueRange g) ->
  (length (usedMap g) + 1 <= fuel + Z.to_nat j)%nat ->
  exists o' fl, Allocate_inRange_loop fuel g b mx = Ok (with_offset g o', fl) /\
     0 <= o' < valueRange g /\ (fl = true -> ~ In o' (usedMap g)).
Proof.
  induction fuel as [|f IH]; intros g s b mx j [HR Ho] Hs Hb Hj Hoj Hused Hi0 Hf.
  { pose proof (prefix_count (valueRange g) s j (usedMap g) Hs ltac:(lia) Hused). lia. }
  cbn [Allocate_inRange_loop].
  destruct (map_has (offset g) (usedMap g)) eqn:Hh.
  - rewrite updateOffset_spec by assumption. cbn [obind].
    set (R := valueRange g) in *.
    rewrite Hoj. rewrite cyc_succ by lia.
    set (o' := cyc R s (j + 1)).
    assert (Ho' : 0 <= o' < R) by (apply cyc_bound; lia).
    cbn [offset with_offset].
    assert (Hj' : forall i, 0 <= i < j + 1 -> In (cyc R s i) (usedMap g)).
    { intros i Hi. destruct (Z.eq_dec i j) as [->|].
      - rewrite <- Hoj. apply map_has_In. exact Hh.
      - apply Hused. lia. }
    destruct ((o' =? b) || (o' =? mx)) eqn:E.
    + exists o', false. split; [reflexivity|]. split; [assumption|discriminate].
    + assert (Hne : o' <> b) by lia.
      pose proof (cyc_surj R s b Hs Hb) as Eb.
      pose proof (Z.mod_pos_bound (b - s) R ltac:(lia)) as Bi0.
      assert (Hj1 : j + 1 < R).
      { destruct (Z.eq_dec (j + 1) R) as [E1|]; [|lia]. exfalso. apply Hne.
        unfold o'. rewrite E1, cyc_full by assumption.
        destruct Hi0 as [Z0|]; [|lia]. rewrite Z0, cyc_0 in Eb by assumption. exact Eb. }
      destruct (IH (with_offset g o') s b mx (j + 1)) as (o'' & fl & E2 & B2 & F2).
      * split; assumption.
      * assumption.
      * assumption.
      * cbn [valueRange with_offset]. fold R. lia.
      * reflexivity.
      * exact Hj'.
      * cbn [valueRange with_offset]. fold R.
        destruct Hi0 as [Z0|Hlt]; [left; exact Z0|].
        destruct (Z.eq_dec ((b - s) mod R) (j + 1)) as [E1|]; [|right; lia].
        exfalso. apply Hne. unfold o'. rewrite <- E1. exact Eb.
      * cbn [usedMap with_offset]. lia.
      * exists o'', fl. rewrite E2. split; [reflexivity|]. split; assumption.
  - exists (offset g), true. rewrite with_offset_same. split; [reflexivity|].
    split; [assumption|]. intros _. apply map_has_false. exact Hh.
Qed.

(* the loop of Allocate in closed form: it stops at the first free position
   cyc b k (k least), or comes back to b when every position is taken *)
Lemma Allocate_loop_scan : forall fuel g b j,
  Geom g -> 0 <= b < valueRange g -> 0 <= j < valueRange g ->
  offset g = cyc (valueRange g) b j ->
  (forall i, 0 <= i < j -> In (cyc (valueRange g) b i) (usedMap g)) ->
  (length (usedMap g) + 1 <= fuel + Z.to_nat j)%nat ->
  (exists k, j <= k < valueRange g /\ ~ In (cyc (valueRange g) b k) (usedMap g) /\
      (forall i, 0 <= i < k -> In (cyc (valueRange g) b i) (usedMap g)) /\
      Allocate_loop fuel g b = Ok (with_offset g (cyc (valueRange g) b k), true))
  \/ ((forall i, 0 <= i < valueRange g -> In (cyc (valueRange g) b i) (usedMap g)) /\
      Allocate_loop fuel g b = Ok (with_offset g b, false)).
Proof.
  induction fuel as [|f IH]; intros g b j [HR Ho] Hb Hj Hoj Hused Hf.
  { pose proof (prefix_count (valueRange g) b j (usedMap g) Hb ltac:(lia) Hused). lia. }
  cbn [Allocate_loop].
  destruct (map_has (offset g) (usedMap g)) eqn:Hh.
  - rewrite updateOffset_spec by assumption. cbn [obind].
    set (R := valueRange g) in *.
    rewrite Hoj. rewrite cyc_succ by lia.
    cbn [offset with_offset].
    assert (Hj' : forall i, 0 <= i < j + 1 -> In (cyc R b i) (usedMap g)).
    { intros i Hi. destruct (Z.eq_dec i j) as [->|].
      - rewrite <- Hoj. apply map_has_In. exact Hh.
      - apply Hused. lia. }
    destruct (Z.eq_dec (j + 1) R) as [E|E].
    + rewrite E, cyc_full by assumption. rewrite Z.eqb_refl.
      right. split; [|reflexivity]. intros i Hi. apply Hj'. lia.
    + destruct (Z.eqb_spec (cyc R b (j + 1)) b) as [E2|E2].
      { exfalso. rewrite <- (cyc_0 R b Hb) in E2 at 2. apply cyc_inj in E2; lia. }
      destruct (IH (with_offset g (cyc R b (j + 1))) b (j + 1)) as [(k & Hk & Hnk & Hall & EQ)|(Hall & EQ)].
      * split; [assumption|]. cbn [offset with_offset valueRange]. apply cyc_bound. lia.
      * assumption.
      * cbn [valueRange with_offset]. fold R. lia.
      * reflexivity.
      * exact Hj'.
      * cbn [usedMap with_offset]. lia.
      * left. exists k. split; [cbn [valueRange with_offset] in Hk; fold R in Hk; lia|].
        split; [exact Hnk|]. split; [exact Hall|]. exact EQ.
      * right. split; [exact Hall|exact EQ].
  - left. exists j. split; [lia|]. rewrite <- Hoj. split; [apply map_has_false; exact Hh|].
    split; [exact Hused|]. rewrite with_offset_same. reflexivity.
Qed.

(* ---- Allocate in closed form ---- *)
Definition alloc_at (g : gen) (k : Z) : gen * option Z :=
  let R := valueRange g in
  (mkgen (minValue g) (maxValue g) R (cyc R (offset g) (k + 1)) (cyc R (offset g) k :: usedMap g),
   Some (cyc R (offset g) k + minValue g)).

Lemma Allocate_spec fuel g :
  Inv g -> (length (usedMap g) + 1 <= fuel)%nat ->
  (exists k, 0 <= k < valueRange g /\
      ~ In (cyc (valueRange g) (offset g) k) (usedMap g) /\
      (forall i, 0 <= i < k -> In (cyc (valueRange g) (offset g) i) (usedMap g)) /\
      Allocate fuel g = Ok (alloc_at g k))
  \/ ((forall o, 0 <= o < valueRange g -> In o (usedMap g)) /\ Allocate fuel g = Ok (g, None)).
Proof.
  intros HI Hf. pose proof (Inv_Geom g HI) as HG. destruct HG as [HR Ho].
  destruct HI as [(Hlo & Hhi & Hle & Hr) ER _ Hu Hnd].
  unfold Allocate.
  destruct (Allocate_loop_scan fuel g (offset g) 0) as [(k & Hk & Hnk & Hall & EQ)|(Hall & EQ)];
    try assumption; try lia.
  - split; assumption.
  - symmetry. apply cyc_0. assumption.
  - left. exists k. split; [lia|]. split; [exact Hnk|]. split; [exact Hall|].
    rewrite EQ. cbn [obind]. cbn [offset usedMap with_offset with_used valueRange minValue maxValue].
    unfold map_set. apply map_has_false in Hnk. rewrite Hnk.
    set (R := valueRange g) in *. set (c := cyc R (offset g) k).
    assert (Hc : 0 <= c < R) by (apply cyc_bound; lia).
    rewrite updateOffset_spec; cbn [offset usedMap with_offset with_used valueRange minValue maxValue];
      try assumption.
    cbn [obind]. unfold alloc_at. fold R. fold c.
    replace ((c + 1) mod R) with (cyc R (offset g) (k + 1)) by (unfold c; symmetry; apply cyc_succ; lia).
    unfold go_add. rewrite wrap64_id by (unfold int64 in *; lia).
    unfold with_offset, with_used. cbn. reflexivity.
  - right. split.
    + intros o Hoo. rewrite <- (cyc_surj (valueRange g) (offset g) o) by assumption.
      apply Hall. apply Z.mod_pos_bound. lia.
    + rewrite EQ. cbn [obind]. rewrite with_offset_same. reflexivity.
Qed.

(* ---- consequences for Allocate ---- *)
Lemma live_alloc_at g k :
  live (fst (alloc_at g k)) = (cyc (valueRange g) (offset g) k + minValue g) :: live g.
Proof. reflexivity. Qed.

Lemma live_In g id : In id (live g) <-> In (id - minValue g) (usedMap g).
Proof.
  unfold live. rewrite in_map_iff. split.
  - intros (x & <- & Hx). replace (x + minValue g - minValue g) with x by lia. exact Hx.
  - intro H. exists (id - minValue g). split; [lia|exact H].
Qed.

Lemma Inv_alloc_at g k :
  Inv g -> 0 <= k < valueRange g -> ~ In (cyc (valueRange g) (offset g) k) (usedMap g) ->
  Inv (fst (alloc_at g k)).
Proof.
  intros HI Hk Hn. pose proof (Inv_R g HI) as HR.
  destruct HI as [Hb ER Ho Hu Hnd].
  constructor; cbn [alloc_at fst minValue maxValue valueRange offset usedMap].
  - exact Hb.
  - exact ER.
  - apply cyc_bound. lia.
  - intros o [<-|H]; [apply cyc_bound; lia|apply Hu; exact H].
  - constructor; assumption.
Qed.

Lemma used_length_le g : Inv g -> (length (usedMap g) <= Z.to_nat (valueRange g))%nat.
Proof.
  intros [_ _ _ Hu Hnd]. rewrite <- zrange_length.
  apply NoDup_incl_length; [exact Hnd|]. intros x Hx. apply zrange_In. apply Hu. exact Hx.
Qed.

Lemma full_iff_length g : Inv g ->
  (forall o, 0 <= o < valueRange g -> In o (usedMap g)) <->
  length (usedMap g) = Z.to_nat (valueRange g).
Proof.
  intro HI. pose proof (used_length_le g HI) as Hle.
  destruct HI as [_ _ _ Hu Hnd]. split.
  - intro Hall. apply Nat.le_antisymm; [exact Hle|].
    rewrite <- zrange_length. apply NoDup_incl_length; [apply zrange_NoDup|].
    intros x Hx. apply Hall. apply zrange_In. exact Hx.
  - intros E o Ho.
    assert (Hincl : incl (zrange (valueRange g)) (usedMap g)).
    { apply NoDup_length_incl; [exact Hnd| |].
      - rewrite zrange_length. lia.
      - intros x Hx. apply zrange_In. apply Hu. exact Hx. }
    apply Hincl. apply zrange_In. exact Ho.
Qed.

(* ---- Allocate_inRange ---- *)
Lemma Allocate_inRange_spec fuel g a b :
  Inv g -> (length (usedMap g) + 1 <= fuel)%nat ->
  exists o', 0 <= o' < valueRange g /\
    (Allocate_inRange fuel g a b = Ok (with_offset g o', None)
     \/ (~ In o' (usedMap g) /\
         Allocate_inRange fuel g a b =
           Ok (mkgen (minValue g) (maxValue g) (valueRange g) ((o' + 1) mod valueRange g) (o' :: usedMap g),
               Some (o' + minValue g)))).
Proof.
  intros HI Hf. pose proof (Inv_Geom g HI) as [HR Ho].
  destruct HI as [(Hlo & Hhi & Hle & Hr) ER _ Hu Hnd].
  unfold Allocate_inRange. rewrite setOffset_spec by assumption. cbn [obind].
  set (R := valueRange g) in *.
  assert (Hs : 0 <= a mod R < R) by (apply Z.mod_pos_bound; lia).
  destruct (inRange_loop_spec fuel (with_offset g (a mod R)) (a mod R) (offset g) b 0) as (o' & fl & EQ & Bo & Hfl).
  - split; assumption.
  - assumption.
  - assumption.
  - cbn [valueRange with_offset]. fold R. lia.
  - cbn [valueRange offset with_offset]. fold R. symmetry. apply cyc_0. assumption.
  - intros i Hi. lia.
  - cbn [valueRange with_offset]. fold R.
    pose proof (Z.mod_pos_bound (offset g - a mod R) R ltac:(lia)). lia.
  - cbn [usedMap with_offset]. lia.
  - rewrite EQ. cbn [obind]. rewrite with_offset_twice.
    cbn [valueRange with_offset] in Bo. fold R in Bo.
    exists o'. split; [exact Bo|].
    destruct fl.
    + right. specialize (Hfl eq_refl). cbn [usedMap with_offset] in Hfl.
      split; [exact Hfl|].
      cbn [offset usedMap with_offset with_used valueRange minValue maxValue].
      unfold map_set. apply map_has_false in Hfl. rewrite Hfl.
      rewrite updateOffset_spec; cbn [offset usedMap with_offset with_used valueRange minValue maxValue];
        try assumption.
      cbn [obind]. unfold go_add. rewrite wrap64_id by (unfold int64 in *; lia).
      unfold with_offset, with_used. cbn. reflexivity.
    + left. reflexivity.
Qed.

(* ---- FreeID ---- *)
Lemma filter_all {A} (f : A -> bool) l : (forall x, In x l -> f x = true) -> filter f l = l.
Proof.
  induction l as [|x t IH]; intro H; simpl; auto.
  rewrite (H x) by (left; reflexivity). f_equal. apply IH. intros y Hy. apply H. right. exact Hy.
Qed.

Lemma Inv_live_bounds g : Inv g -> forall id, In id (live g) -> minValue g <= id <= maxValue g.
Proof.
  intros [_ ER _ Hu _] id H. apply live_In in H. apply Hu in H. lia.
Qed.

Lemma FreeID_inb g id : Inv g -> minValue g <= id <= maxValue g ->
  FreeID g id = with_used g (map_del (id - minValue g) (usedMap g)).
Proof.
  intros HI Hid. destruct HI as [(Hlo & Hhi & Hle & Hr) ER _ _ _].
  unfold FreeID. destruct (Z.ltb_spec id (minValue g)); [lia|].
  destruct (Z.gtb_spec id (maxValue g)); [lia|]. cbn [orb].
  unfold go_sub. rewrite wrap64_id by (unfold int64 in *; lia). reflexivity.
Qed.

Lemma FreeID_outb g id : ~ (minValue g <= id <= maxValue g) -> FreeID g id = g.
Proof.
  intro H. unfold FreeID. destruct (Z.ltb_spec id (minValue g)); [reflexivity|].
  destruct (Z.gtb_spec id (maxValue g)); [reflexivity|]. lia.
Qed.

Lemma Inv_FreeID g id : Inv g -> Inv (FreeID g id).
Proof.
  intro HI. destruct (Z_le_dec (minValue g) id); [destruct (Z_le_dec id (maxValue g))|].
  - rewrite FreeID_inb by (auto; lia). destruct HI as [Hb ER Ho Hu Hnd].
    constructor; cbn [with_used minValue maxValue valueRange offset usedMap]; auto.
    + intros o Ho'. apply map_del_In in Ho'. apply Hu. tauto.
    + apply map_del_NoDup. exact Hnd.
  - rewrite FreeID_outb by lia. exact HI.
  - rewrite FreeID_outb by lia. exact HI.
Qed.

Lemma live_FreeID g id : Inv g -> live (FreeID g id) = spec_remove id (live g).
Proof.
  intro HI. unfold spec_remove.
  destruct (Z_le_dec (minValue g) id); [destruct (Z_le_dec id (maxValue g))|].
  - rewrite FreeID_inb by (auto; lia). unfold live. cbn [with_used minValue usedMap].
    unfold map_del. induction (usedMap g) as [|x t IH]; [reflexivity|].
    cbn [filter map].
    replace (x + minValue g =? id) with (x =? id - minValue g)
      by (destruct (Z.eqb_spec x (id - minValue g)), (Z.eqb_spec (x + minValue g) id); lia).
    destruct (x =? id - minValue g); cbn [negb map]; rewrite IH; reflexivity.
  - rewrite FreeID_outb by lia. symmetry. apply filter_all.
    intros x Hx. apply (Inv_live_bounds g HI) in Hx. destruct (Z.eqb_spec x id); [lia|reflexivity].
  - rewrite FreeID_outb by lia. symmetry. apply filter_all.
    intros x Hx. apply (Inv_live_bounds g HI) in Hx. destruct (Z.eqb_spec x id); [lia|reflexivity].
Qed.

Lemma FreeID_frame g id : minValue (FreeID g id) = minValue g /\ maxValue (FreeID g id) = maxValue g
  /\ valueRange (FreeID g id) = valueRange g /\ offset (FreeID g id) = offset g.
Proof. unfold FreeID. destruct ((id <? minValue g) || (id >? maxValue g)); cbn; auto. Qed.

(* ---- one operation refines the abstract allocator ---- *)
Lemma fuel_of_ge g : (length (usedMap g) + 1 <= fuel_of g)%nat.
Proof. unfold fuel_of. lia. Qed.

Lemma step_fuel_refines fuel g o :
  Inv g -> (length (usedMap g) + 1 <= fuel)%nat ->
  exists g' r, step_fuel fuel g o = Ok (g', r) /\ Inv g' /\
     minValue g' = minValue g /\ maxValue g' = maxValue g /\
     spec_step (minValue g) (maxValue g) (live g) o r (live g').
Proof.
  intros HI Hf. pose proof (Inv_R g HI) as HR.
  destruct o as [|a b|id]; cbn [step_fuel].
  - destruct (Allocate_spec fuel g HI Hf) as [(k & Hk & Hnk & Hall & EQ)|(Hall & EQ)]; rewrite EQ.
    + eexists _, _. split; [reflexivity|]. cbn [ares fst snd alloc_at].
      split; [apply (Inv_alloc_at g k HI Hk Hnk)|].
      split; [reflexivity|]. split; [reflexivity|].
      cbn [spec_step].
      pose proof (cyc_bound (valueRange g) (offset g) k ltac:(lia)) as Hc.
      destruct HI as [(Hlo & Hhi & Hle & Hr) ER _ Hu Hnd].
      split; [lia|]. split; [|reflexivity].
      rewrite live_In. replace (cyc (valueRange g) (offset g) k + minValue g - minValue g)
        with (cyc (valueRange g) (offset g) k) by lia. exact Hnk.
    + eexists _, _. split; [reflexivity|]. cbn [ares fst snd].
      split; [exact HI|]. split; [reflexivity|]. split; [reflexivity|].
      cbn [spec_step]. split; [|reflexivity].
      intros id Hid. apply live_In. apply Hall.
      destruct HI as [(Hlo & Hhi & Hle & Hr) ER _ Hu Hnd]. lia.
  - destruct (Allocate_inRange_spec fuel g a b HI Hf) as (o' & Bo & [EQ|(Hn & EQ)]); rewrite EQ.
    + eexists _, _. split; [reflexivity|]. cbn [ares fst snd].
      split.
      { destruct HI as [Hb ER Ho Hu Hnd]. constructor; cbn [with_offset minValue maxValue valueRange offset usedMap]; auto. }
      split; [reflexivity|]. split; [reflexivity|]. cbn [spec_step]. reflexivity.
    + eexists _, _. split; [reflexivity|]. cbn [ares fst snd].
      split.
      { destruct HI as [Hb ER Ho Hu Hnd]. constructor; cbn [minValue maxValue valueRange offset usedMap]; auto.
        - apply Z.mod_pos_bound. lia.
        - intros o [<-|H]; [exact Bo|apply Hu; exact H].
        - constructor; assumption. }
      split; [reflexivity|]. split; [reflexivity|]. cbn [spec_step].
      destruct HI as [(Hlo & Hhi & Hle & Hr) ER _ Hu Hnd].
      split; [lia|]. split; [|reflexivity].
      rewrite live_In. replace (o' + minValue g - minValue g) with o' by lia. exact Hn.
  - eexists _, _. split; [reflexivity|].
    split; [apply Inv_FreeID; exact HI|].
    destruct (FreeID_frame g id) as (E1 & E2 & _).
    split; [exact E1|]. split; [exact E2|].
    cbn [spec_step]. apply live_FreeID. exact HI.
Qed.

Lemma step_refines g o :
  Inv g ->
  exists g' r, step g o = Ok (g', r) /\ Inv g' /\
     minValue g' = minValue g /\ maxValue g' = maxValue g /\
     spec_step (minValue g) (maxValue g) (live g) o r (live g').
Proof. intro HI. apply step_fuel_refines; [exact HI|apply fuel_of_ge]. Qed.

(* ---- histories ---- *)
Lemma histories_refine : forall ops g,
  Inv g ->
  exists g' rs, run_ops g ops = Ok (g', rs) /\ Inv g' /\
     minValue g' = minValue g /\ maxValue g' = maxValue g /\
     spec_run (minValue g) (maxValue g) (live g) ops rs (live g').
Proof.
  induction ops as [|o t IH]; intros g HI.
  - exists g, []. cbn. auto.
  - destruct (step_refines g o HI) as (g1 & r & E1 & I1 & M1 & X1 & S1).
    destruct (IH g1 I1) as (g2 & rs & E2 & I2 & M2 & X2 & S2).
    exists g2, (r :: rs). cbn [run_ops]. rewrite E1. cbn [obind fst snd]. rewrite E2. cbn [obind fst snd].
    split; [reflexivity|]. split; [exact I2|]. split; [congruence|]. split; [congruence|].
    cbn [spec_run]. exists (live g1). split; [exact S1|]. rewrite <- M1, <- X1. exact S2.
Qed.

Lemma histories_from_init lo hi ops :
  bounds_ok lo hi ->
  exists g' rs, run_ops (init lo hi) ops = Ok (g', rs) /\ Inv g' /\
     spec_run lo hi [] ops rs (live g') /\ live_ok lo hi (live g').
Proof.
  intro Hb. destruct (histories_refine ops (init lo hi) (Inv_init lo hi Hb)) as (g' & rs & E & I & _ & _ & S).
  exists g', rs. split; [exact E|]. split; [exact I|]. cbn in S. split; [exact S|].
  eapply spec_run_live_ok; [|exact S]. split; [constructor|intros ? []].
Qed.

(* ---- the clauses of the property, one by one ---- *)

(* a successful allocation of either kind returns an identifier of [min, max]
   whose offset was not in the map before, and records exactly it *)
Lemma alloc_result fuel g o g' id :
  Inv g -> (length (usedMap g) + 1 <= fuel)%nat ->
  (o = OpAllocate \/ exists a b, o = OpAllocateInRange a b) ->
  step_fuel fuel g o = Ok (g', RId id) ->
  minValue g <= id <= maxValue g /\ ~ In (id - minValue g) (usedMap g) /\
  ~ In id (live g) /\ live g' = id :: live g.
Proof.
  intros HI Hf Ho E.
  destruct (step_fuel_refines fuel g o HI Hf) as (g1 & r & E1 & _ & _ & _ & S).
  rewrite E in E1. inversion E1; subst g1 r.
  destruct Ho as [->|(a & b & ->)]; cbn [spec_step] in S; destruct S as (B & N & L);
    (split; [exact B|]; split; [rewrite <- live_In; exact N|]; split; [exact N|exact L]).
Qed.

Lemma Allocate_fail_iff_full fuel g :
  Inv g -> (length (usedMap g) + 1 <= fuel)%nat ->
  ((exists g', Allocate fuel g = Ok (g', None)) <-> length (usedMap g) = Z.to_nat (valueRange g)).
Proof.
  intros HI Hf. rewrite <- (full_iff_length g HI).
  destruct (Allocate_spec fuel g HI Hf) as [(k & Hk & Hnk & Hall & EQ)|(Hall & EQ)]; rewrite EQ.
  - split.
    + intros (g' & E). unfold alloc_at in E. discriminate.
    + intro Hfull. exfalso. apply Hnk. apply Hfull. apply cyc_bound.
      pose proof (Inv_R g HI). lia.
  - split; [intros _; exact Hall|intros _; exists g; reflexivity].
Qed.

(* a failed Allocate changes nothing *)
Lemma Allocate_fail_state fuel g g' :
  Inv g -> (length (usedMap g) + 1 <= fuel)%nat -> Allocate fuel g = Ok (g', None) -> g' = g.
Proof.
  intros HI Hf E.
  destruct (Allocate_spec fuel g HI Hf) as [(k & _ & _ & _ & EQ)|(_ & EQ)]; rewrite EQ in E.
  - unfold alloc_at in E. discriminate.
  - congruence.
Qed.

(* fuel: any amount >= valueRange gives the same answer (so valueRange + 1 is enough) *)
Lemma Allocate_loop_mono : forall f g b r, Allocate_loop f g b = Ok r ->
  forall f', (f <= f')%nat -> Allocate_loop f' g b = Ok r.
Proof.
  induction f as [|f IH]; intros g b r E f' Hf'; [discriminate|].
  destruct f' as [|f']; [lia|]. cbn [Allocate_loop] in *.
  destruct (map_has (offset g) (usedMap g)); [|exact E].
  destruct (updateOffset g) as [g1| | |]; cbn [obind] in *; try discriminate.
  destruct (offset g1 =? b); [exact E|]. apply (IH _ _ _ E). lia.
Qed.

Lemma inRange_loop_mono : forall f g b mx r, Allocate_inRange_loop f g b mx = Ok r ->
  forall f', (f <= f')%nat -> Allocate_inRange_loop f' g b mx = Ok r.
Proof.
  induction f as [|f IH]; intros g b mx r E f' Hf'; [discriminate|].
  destruct f' as [|f']; [lia|]. cbn [Allocate_inRange_loop] in *.
  destruct (map_has (offset g) (usedMap g)); [|exact E].
  destruct (updateOffset g) as [g1| | |]; cbn [obind] in *; try discriminate.
  destruct ((offset g1 =? b) || (offset g1 =? mx)); [exact E|]. apply (IH _ _ _ _ E). lia.
Qed.

Lemma step_fuel_mono f g o r : step_fuel f g o = Ok r ->
  forall f', (f <= f')%nat -> step_fuel f' g o = Ok r.
Proof.
  intros E f' Hf. destruct o as [|a b|id]; cbn [step_fuel] in *; [| |exact E].
  - unfold Allocate in *.
    destruct (Allocate_loop f g (offset g)) as [x| | |] eqn:EL; cbn [omap obind] in E; try discriminate.
    rewrite (Allocate_loop_mono _ _ _ _ EL f' Hf). exact E.
  - unfold Allocate_inRange in *.
    destruct (setOffset g a) as [g0| | |]; cbn [omap obind] in *; try discriminate.
    destruct (Allocate_inRange_loop f g0 (offset g) b) as [x| | |] eqn:EL; cbn [omap obind] in E; try discriminate.
    rewrite (inRange_loop_mono _ _ _ _ _ EL f' Hf). exact E.
Qed.

(* the loops end within (number of live identifiers) + 1 iterations, hence within
   valueRange + 1; more fuel changes nothing *)
Lemma no_hang fuel g o :
  Inv g -> (Z.to_nat (valueRange g) + 1 <= fuel)%nat \/ (length (usedMap g) + 1 <= fuel)%nat ->
  step_fuel fuel g o = step g o /\ exists g' r, step g o = Ok (g', r).
Proof.
  intros HI Hf.
  pose proof (used_length_le g HI) as Hle.
  destruct (step_fuel_refines (length (usedMap g) + 1) g o HI (le_n _)) as (g' & r & E & _).
  unfold step. rewrite (step_fuel_mono _ _ _ _ E fuel) by lia.
  rewrite (step_fuel_mono _ _ _ _ E (fuel_of g)) by (unfold fuel_of; lia).
  split; [reflexivity|]. exists g', r. reflexivity.
Qed.

(* ---- a freed identifier is allocatable again ---- *)

(* directly: Allocate_inRange aimed at its offset returns it at once *)
Lemma inRange_hits_free fuel g t b :
  Inv g -> (1 <= fuel)%nat -> 0 <= t < valueRange g -> ~ In t (usedMap g) ->
  exists g', Allocate_inRange fuel g t b = Ok (g', Some (t + minValue g)).
Proof.
  intros HI Hf Ht Hn. pose proof (Inv_Geom g HI) as [HR Ho].
  destruct HI as [(Hlo & Hhi & Hle & Hr) ER _ Hu Hnd].
  unfold Allocate_inRange. rewrite setOffset_spec by assumption. cbn [obind].
  rewrite Z.mod_small by lia.
  destruct fuel as [|f]; [lia|]. cbn [Allocate_inRange_loop offset usedMap with_offset].
  apply map_has_false in Hn. rewrite Hn. cbn [obind].
  cbn [offset usedMap with_offset with_used valueRange minValue maxValue].
  unfold map_set. rewrite Hn.
  rewrite updateOffset_spec; cbn [offset usedMap with_offset with_used valueRange minValue maxValue];
    try assumption.
  cbn [obind]. unfold go_add. rewrite wrap64_id by (unfold int64 in *; lia).
  eexists. reflexivity.
Qed.

Lemma cyc_cyc R o a e : 0 < R -> cyc R (cyc R o a) e = cyc R o (a + e).
Proof. intro. unfold cyc. rewrite Z.add_mod_idemp_l by lia. f_equal. lia. Qed.

Lemma cyc_dist R o t e : 0 <= o < R -> 0 <= t < R -> 0 <= e < R -> cyc R o e = t -> (t - o) mod R = e.
Proof.
  intros Ho Ht He E. apply (cyc_inj R o); try assumption.
  - apply Z.mod_pos_bound. lia.
  - rewrite cyc_surj by assumption. symmetry. exact E.
Qed.

(* by plain allocation: a free identifier is returned after at most
   ((its offset - scan offset) mod valueRange) further successful Allocates *)
Lemma realloc_plain : forall n g t,
  Inv g -> 0 <= t < valueRange g -> ~ In t (usedMap g) ->
  (Z.to_nat ((t - offset g) mod valueRange g) <= n)%nat ->
  exists m g1 rs g2, (m <= n)%nat /\
    run_ops g (repeat OpAllocate m) = Ok (g1, rs) /\
    Forall (fun r => exists id, r = RId id /\ id <> t + minValue g) rs /\
    step g1 OpAllocate = Ok (g2, RId (t + minValue g)).
Proof.
  induction n as [n IH] using lt_wf_ind. intros g t HI Ht Hn Hd.
  pose proof (Inv_Geom g HI) as [HR Ho].
  set (R := valueRange g) in *.
  set (d := (t - offset g) mod R) in *.
  assert (Hdb : 0 <= d < R) by (apply Z.mod_pos_bound; lia).
  assert (Etd : cyc R (offset g) d = t) by (apply cyc_surj; assumption).
  destruct (Allocate_spec (fuel_of g) g HI (fuel_of_ge g)) as [(k & Hk & Hnk & Hall & EQ)|(Hall & EQ)].
  2:{ exfalso. apply Hn. apply Hall. exact Ht. }
  fold R in Hk, Hnk, Hall, EQ.
  assert (Hkd : k <= d).
  { destruct (Z_le_gt_dec k d); [assumption|]. exfalso. apply Hn. rewrite <- Etd. apply Hall. lia. }
  destruct (Z.eq_dec k d) as [Ekd|Nkd].
  - subst k. exists O, g, []. eexists. split; [lia|]. split; [reflexivity|]. split; [constructor|].
    unfold step. cbn [step_fuel]. rewrite EQ. cbn [omap obind ares alloc_at fst snd].
    unfold ares, alloc_at. cbn [fst snd]. fold R. rewrite Etd. reflexivity.
  - set (g1 := fst (alloc_at g k)).
    assert (I1 : Inv g1) by (apply Inv_alloc_at; assumption).
    assert (Hc : cyc R (offset g) k <> t).
    { intro E. rewrite <- Etd in E. apply cyc_inj in E; try assumption; lia. }
    destruct (IH (Z.to_nat (d - k - 1)) ltac:(lia) g1 t I1) as (m & g2 & rs & g3 & Hm & E1 & F1 & E2).
    + exact Ht.
    + cbn [g1 alloc_at fst usedMap]. intros [E|E]; [apply Hc; exact E|apply Hn; exact E].
    + cbn [g1 alloc_at fst offset valueRange]. fold R.
      rewrite (cyc_dist R (cyc R (offset g) (k + 1)) t (d - k - 1)); try lia.
      * apply cyc_bound. lia.
      * rewrite cyc_cyc by lia. replace (k + 1 + (d - k - 1)) with d by lia. exact Etd.
    + exists (S m), g2, (RId (cyc R (offset g) k + minValue g) :: rs), g3.
      split; [lia|]. split; [|split].
      * cbn [repeat run_ops]. unfold step at 1. cbn [step_fuel]. rewrite EQ.
        cbn [omap obind ares alloc_at fst snd]. fold R. fold g1.
        change (fst (alloc_at g k)) with g1 in E1.
        replace ({| minValue := minValue g; maxValue := maxValue g; valueRange := R;
                    offset := cyc R (offset g) (k + 1); usedMap := cyc R (offset g) k :: usedMap g |}) with g1 by reflexivity.
        rewrite E1. reflexivity.
      * constructor; [|exact F1]. eexists. split; [reflexivity|]. lia.
      * exact E2.
Qed.

Lemma free_then_realloc g id :
  Inv g -> minValue g <= id <= maxValue g ->
  let g0 := FreeID g id in
  ~ In id (live g0) /\
  (exists m g1 rs g2, (m < Z.to_nat (valueRange g))%nat /\
     run_ops g0 (repeat OpAllocate m) = Ok (g1, rs) /\
     Forall (fun r => exists id', r = RId id' /\ id' <> id) rs /\
     step g1 OpAllocate = Ok (g2, RId id)) /\
  (forall b, exists g1, step g0 (OpAllocateInRange (id - minValue g) b) = Ok (g1, RId id)).
Proof.
  intros HI Hid g0.
  assert (I0 : Inv g0) by (apply Inv_FreeID; exact HI).
  destruct (FreeID_frame g id) as (Emin & Emax & ER & Eoff). fold g0 in Emin, Emax, ER, Eoff.
  pose proof (Inv_R g HI) as HR.
  assert (Ht : 0 <= id - minValue g < valueRange g0).
  { rewrite ER. destruct HI as [(Hlo & Hhi & Hle & Hr) ERg _ _ _]. lia. }
  assert (Hn : ~ In (id - minValue g) (usedMap g0)).
  { unfold g0. rewrite FreeID_inb by assumption. cbn [usedMap with_used].
    rewrite map_del_In. tauto. }
  split; [|split].
  - rewrite live_In, Emin. exact Hn.
  - destruct (realloc_plain (Z.to_nat ((id - minValue g - offset g0) mod valueRange g0)) g0 (id - minValue g) I0 Ht Hn (le_n _))
      as (m & g1 & rs & g2 & Hm & E1 & F1 & E2).
    rewrite Emin in *. replace (id - minValue g + minValue g) with id in * by lia.
    exists m, g1, rs, g2. split; [|split; [exact E1|split; [exact F1|exact E2]]].
    pose proof (Z.mod_pos_bound (id - minValue g - offset g0) (valueRange g0) ltac:(lia)). rewrite ER in *. lia.
  - intro b. unfold step. cbn [step_fuel].
    destruct (inRange_hits_free (fuel_of g0) g0 (id - minValue g) b I0 ltac:(unfold fuel_of; lia) Ht Hn) as (g1 & E).
    rewrite E. cbn [omap obind ares fst snd]. rewrite Emin.
    replace (id - minValue g + minValue g) with id by lia. eexists. reflexivity.
Qed.

(* ---- statements in the form used by Props/C20.v ---- *)
Lemma in_bounds : forall g o g' id, Inv g ->
  (o = OpAllocate \/ exists a b, o = OpAllocateInRange a b) ->
  step g o = Ok (g', RId id) -> minValue g <= id <= maxValue g.
Proof.
  intros g o g' id HI Ho E.
  exact (proj1 (alloc_result (fuel_of g) g o g' id HI (fuel_of_ge g) Ho E)).
Qed.

Lemma fresh : forall g o g' id, Inv g ->
  (o = OpAllocate \/ exists a b, o = OpAllocateInRange a b) ->
  step g o = Ok (g', RId id) ->
  ~ In (id - minValue g) (usedMap g) /\ ~ In id (live g) /\ live g' = id :: live g.
Proof.
  intros g o g' id HI Ho E.
  exact (proj2 (alloc_result (fuel_of g) g o g' id HI (fuel_of_ge g) Ho E)).
Qed.

Lemma fail_iff_full : forall g, Inv g ->
  ((exists g', step g OpAllocate = Ok (g', RFail)) <-> length (usedMap g) = Z.to_nat (valueRange g)) /\
  (forall g', step g OpAllocate = Ok (g', RFail) ->
      g' = g /\ forall id, minValue g <= id <= maxValue g -> In id (live g)).
Proof.
  intros g HI. split.
  - rewrite <- (Allocate_fail_iff_full (fuel_of g) g HI (fuel_of_ge g)).
    unfold step. cbn [step_fuel]. split; intros (g' & E).
    + destruct (Allocate (fuel_of g) g) as [[g1 [id|]]| | |]; cbn in E; try discriminate.
      exists g1. reflexivity.
    + exists g'. rewrite E. reflexivity.
  - intros g' E.
    destruct (step_refines g OpAllocate HI) as (g1 & r & E1 & _ & _ & _ & S).
    rewrite E in E1. inversion E1; subst g1 r. cbn in S. destruct S as (Hall & _).
    split; [|exact Hall].
    unfold step in E. cbn [step_fuel] in E.
    destruct (Allocate (fuel_of g) g) as [[g1 [id|]]| | |] eqn:EA; cbn in E; try discriminate.
    inversion E; subst g1. exact (Allocate_fail_state (fuel_of g) g g' HI (fuel_of_ge g) EA).
Qed.

Lemma free_spec : forall g id, Inv g ->
  Inv (FreeID g id) /\ live (FreeID g id) = spec_remove id (live g) /\
  (~ (minValue g <= id <= maxValue g) -> FreeID g id = g).
Proof.
  intros g id HI. split; [apply Inv_FreeID; exact HI|].
  split; [apply live_FreeID; exact HI|apply FreeID_outb].
Qed.

(* the range hypothesis of bounds_ok is needed: over the full int64 range the
   width wraps to 0 and the first Allocate divides by zero *)
Example overflow_range_panics :
  step (init (- 2 ^ 63) (2 ^ 63 - 1)) OpAllocate = Panic.
Proof. vm_compute. reflexivity. Qed.

(* non-vacuity: exhaustion, wrap-around of the scan offset, free and re-allocation,
   Allocate_inRange with a negative and an out-of-range argument *)
Example example_history :
  run_ops (init 5 7)
    [OpAllocate; OpAllocate; OpAllocate; OpAllocate; OpFreeID 6; OpFreeID 9; OpAllocate; OpAllocate;
     OpFreeID 5; OpFreeID 7; OpAllocateInRange (-1) 100; OpAllocateInRange 4 0; OpAllocateInRange 0 1]
  = Ok (mkgen 5 7 3 1 [0; 2; 1],
        [RId 5; RId 6; RId 7; RFail; RNone; RNone; RId 6; RFail;
         RNone; RNone; RId 7; RFail; RId 5]).
Proof. vm_compute. reflexivity. Qed.

Example example_bounds : bounds_ok 5 7 /\ bounds_ok (- 2 ^ 63) (-2) /\ bounds_ok (2 ^ 63 - 4) (2 ^ 63 - 1).
Proof. unfold bounds_ok, int64. rewrite p63. lia. Qed.
