(* C20 extension: what Allocate_inRange(min, max) computes, in closed form. *)
From NV Require Import Lib.Base C20.Model C20.Spec C20.Proofs.
From Coq Require Import ZifyN ZifyNat ZifyBool.
Open Scope Z_scope.

Arguments Z.pow : simpl never.
Arguments Z.modulo : simpl never.
Arguments Z.rem : simpl never.
Arguments Z.add : simpl never.
Arguments Z.sub : simpl never.

(* the scan of Allocate_inRange started at position s = min mod valueRange, with old offset b:
   it walks s, s+1, ... cyclically; it succeeds at the first position not in the map unless,
   on the way (after at least one step), it lands on b or on max, where it gives up *)
Lemma inRange_loop_scan : forall fuel g s b mx j,
  Geom g -> 0 <= s < valueRange g -> 0 <= b < valueRange g -> 0 <= j < valueRange g ->
  offset g = cyc (valueRange g) s j ->
  (forall i, 0 <= i < j -> In (cyc (valueRange g) s i) (usedMap g)) ->
  (forall i, 1 <= i <= j -> cyc (valueRange g) s i <> b /\ cyc (valueRange g) s i <> mx) ->
  (length (usedMap g) + 1 <= fuel + Z.to_nat j)%nat ->
  (exists k, j <= k < valueRange g /\ ~ In (cyc (valueRange g) s k) (usedMap g) /\
      (forall i, 0 <= i < k -> In (cyc (valueRange g) s i) (usedMap g)) /\
      (forall i, 1 <= i <= k -> cyc (valueRange g) s i <> b /\ cyc (valueRange g) s i <> mx) /\
      Allocate_inRange_loop fuel g b mx = Ok (with_offset g (cyc (valueRange g) s k), true))
  \/ (exists j', j < j' <= valueRange g /\
      (forall i, 0 <= i < j' -> In (cyc (valueRange g) s i) (usedMap g)) /\
      (forall i, 1 <= i < j' -> cyc (valueRange g) s i <> b /\ cyc (valueRange g) s i <> mx) /\
      (cyc (valueRange g) s j' = b \/ cyc (valueRange g) s j' = mx) /\
      Allocate_inRange_loop fuel g b mx = Ok (with_offset g (cyc (valueRange g) s j'), false)).
Proof.
  induction fuel as [|f IH]; intros g s b mx j [HR Ho] Hs Hb Hj Hoj Hused Hns Hf.
  { pose proof (prefix_count (valueRange g) s j (usedMap g) Hs ltac:(lia) Hused). lia. }
  cbn [Allocate_inRange_loop].
  destruct (map_has (offset g) (usedMap g)) eqn:Hh.
  - rewrite updateOffset_spec by assumption. cbn [obind].
    set (R := valueRange g) in *.
    rewrite Hoj. rewrite cyc_succ by lia.
    set (o' := cyc R s (j + 1)).
    cbn [offset with_offset].
    assert (Hj' : forall i, 0 <= i < j + 1 -> In (cyc R s i) (usedMap g)).
    { intros i Hi. destruct (Z.eq_dec i j) as [->|].
      - rewrite <- Hoj. apply map_has_In. exact Hh.
      - apply Hused. lia. }
    destruct ((o' =? b) || (o' =? mx)) eqn:E.
    + right. exists (j + 1). split; [lia|]. split; [exact Hj'|].
      split; [intros i Hi; apply Hns; lia|]. split; [fold o'; lia|reflexivity].
    + assert (Hj1 : j + 1 < R).
      { destruct (Z.eq_dec (j + 1) R) as [E1|]; [|lia]. exfalso.
        assert (o' = s) by (unfold o'; rewrite E1; apply cyc_full; assumption).
        (* b = cyc s i0 for some i0 in [0, R): either i0 = 0, then b = s = o', or 1 <= i0 <= j, excluded *)
        pose proof (cyc_surj R s b Hs Hb) as Eb.
        pose proof (Z.mod_pos_bound (b - s) R ltac:(lia)) as Bi0.
        destruct (Z.eq_dec ((b - s) mod R) 0) as [Z0|NZ].
        - rewrite Z0, cyc_0 in Eb by assumption. lia.
        - destruct (Hns ((b - s) mod R) ltac:(lia)) as [Hnb _]. apply Hnb. exact Eb. }
      assert (Hns' : forall i, 1 <= i <= j + 1 -> cyc R s i <> b /\ cyc R s i <> mx).
      { intros i Hi. destruct (Z.eq_dec i (j + 1)) as [->|]; [fold o'; lia|apply Hns; lia]. }
      destruct (IH (with_offset g o') s b mx (j + 1)) as [(k & Hk & Hnk & Hall & Hnsk & EQ)|(j' & Hj2 & Hall & Hnsj & Hstop & EQ)].
      * split; [assumption|]. cbn [offset with_offset valueRange]. apply cyc_bound. lia.
      * assumption.
      * assumption.
      * cbn [valueRange with_offset]. fold R. lia.
      * reflexivity.
      * exact Hj'.
      * exact Hns'.
      * cbn [usedMap with_offset]. lia.
      * left. exists k. cbn [valueRange with_offset usedMap] in *. fold R in Hk, Hnk, Hall, Hnsk, EQ.
        split; [lia|]. split; [exact Hnk|]. split; [exact Hall|]. split; [exact Hnsk|]. exact EQ.
      * right. exists j'. cbn [valueRange with_offset usedMap] in *. fold R in Hj2, Hall, Hnsj, Hstop, EQ.
        split; [lia|]. split; [exact Hall|]. split; [exact Hnsj|]. split; [exact Hstop|exact EQ].
  - left. exists j. split; [lia|]. rewrite <- Hoj. split; [apply map_has_false; exact Hh|].
    split; [exact Hused|]. split; [exact Hns|]. rewrite with_offset_same. reflexivity.
Qed.

(* Allocate_inRange(a, b) in closed form.  With s = a mod valueRange (the arguments are
   treated as OFFSETS, not identifiers) and o = the offset before the call:
   - it returns min + cyc s k for the first position k >= 0 (cyclically from s) that is not in
     the map, provided none of the positions 1..k is o or b;
   - otherwise it fails at the first position j >= 1 that is o or b (all positions before it
     being taken), leaving the offset there and the map unchanged.
   In particular it may fail although free identifiers exist, and b is not an upper bound. *)
Lemma Allocate_inRange_meaning fuel g a b :
  Inv g -> (length (usedMap g) + 1 <= fuel)%nat ->
  let R := valueRange g in let s := a mod R in let o := offset g in
  (exists k, 0 <= k < R /\ ~ In (cyc R s k) (usedMap g) /\
      (forall i, 0 <= i < k -> In (cyc R s i) (usedMap g)) /\
      (forall i, 1 <= i <= k -> cyc R s i <> o /\ cyc R s i <> b) /\
      Allocate_inRange fuel g a b =
        Ok (mkgen (minValue g) (maxValue g) R (cyc R s (k + 1)) (cyc R s k :: usedMap g),
            Some (cyc R s k + minValue g)))
  \/ (exists j, 1 <= j <= R /\
      (forall i, 0 <= i < j -> In (cyc R s i) (usedMap g)) /\
      (forall i, 1 <= i < j -> cyc R s i <> o /\ cyc R s i <> b) /\
      (cyc R s j = o \/ cyc R s j = b) /\
      Allocate_inRange fuel g a b = Ok (with_offset g (cyc R s j), None)).
Proof.
  intros HI Hf R s o. pose proof (Inv_Geom g HI) as [HR Ho].
  destruct HI as [(Hlo & Hhi & Hle & Hr) ER _ Hu Hnd].
  unfold Allocate_inRange. rewrite setOffset_spec by assumption. cbn [obind].
  fold R. fold s. fold o.
  assert (Hs : 0 <= s < R) by (apply Z.mod_pos_bound; lia).
  destruct (inRange_loop_scan fuel (with_offset g s) s o b 0)
    as [(k & Hk & Hnk & Hall & Hns & EQ)|(j & Hj & Hall & Hns & Hstop & EQ)].
  - split; assumption.
  - assumption.
  - assumption.
  - cbn [valueRange with_offset]. fold R. lia.
  - cbn [valueRange offset with_offset]. fold R. symmetry. apply cyc_0. assumption.
  - intros i Hi. lia.
  - intros i Hi. lia.
  - cbn [usedMap with_offset]. lia.
  - left. cbn [valueRange usedMap with_offset] in *. fold R in Hk, Hnk, Hall, Hns, EQ.
    exists k. split; [lia|]. split; [exact Hnk|]. split; [exact Hall|]. split; [exact Hns|].
    rewrite EQ. cbn [obind]. rewrite with_offset_twice.
    cbn [offset usedMap with_offset with_used valueRange minValue maxValue].
    unfold map_set. apply map_has_false in Hnk. rewrite Hnk.
    pose proof (cyc_bound R s k ltac:(lia)) as Hc.
    rewrite updateOffset_spec; cbn [offset usedMap with_offset with_used valueRange minValue maxValue];
      fold R; try assumption.
    cbn [obind]. rewrite cyc_succ by lia.
    unfold go_add. rewrite wrap64_id by (unfold int64 in *; lia).
    unfold with_offset, with_used. cbn. reflexivity.
  - right. cbn [valueRange usedMap with_offset] in *. fold R in Hj, Hall, Hns, Hstop, EQ.
    exists j. split; [lia|]. split; [exact Hall|]. split; [exact Hns|]. split; [exact Hstop|].
    rewrite EQ. cbn [obind]. rewrite with_offset_twice. reflexivity.
Qed.

(* consequence: Allocate_inRange can fail while identifiers are free, and its second
   argument is not an upper bound of what it returns *)
Example inRange_fails_though_free :
  run_ops (init 0 9) [OpAllocate; OpAllocateInRange 0 5] = Ok (mkgen 0 9 10 1 [0], [RId 0; RFail]).
Proof. vm_compute. reflexivity. Qed.

Example inRange_max_is_not_a_bound :
  run_ops (init 0 9) [OpAllocateInRange 7 3] = Ok (mkgen 0 9 10 8 [7], [RId 7]).
Proof. vm_compute. reflexivity. Qed.
