(* C20: the property's own, implementation-independent description of an
   identifier allocator over [lo, hi]: the abstract state is the set of live
   identifiers (a list), and one call is allowed to do the following.

   - Allocate returns an identifier within [lo, hi] that is not live and makes
     it live; it may fail only when every identifier of [lo, hi] is live.
   - Allocate_inRange returns an identifier within [lo, hi] that is not live
     and makes it live, or fails and leaves the live set alone.
   - FreeID id removes id from the live set (nothing else changes).

   The spec is a relation (which fresh identifier is returned is not
   prescribed); [spec_run] lifts it to histories. *)
From NV Require Import Lib.Base C20.Model.
Open Scope Z_scope.

Definition spec_remove (id : Z) (live : list Z) : list Z :=
  filter (fun x => negb (x =? id)) live.

Definition spec_step (lo hi : Z) (live : list Z) (o : op) (r : res) (live' : list Z) : Prop :=
  match o, r with
  | OpAllocate, RId id => lo <= id <= hi /\ ~ In id live /\ live' = id :: live
  | OpAllocate, RFail => (forall id, lo <= id <= hi -> In id live) /\ live' = live
  | OpAllocateInRange _ _, RId id => lo <= id <= hi /\ ~ In id live /\ live' = id :: live
  | OpAllocateInRange _ _, RFail => live' = live
  | OpFreeID id, RNone => live' = spec_remove id live
  | _, _ => False
  end.

Fixpoint spec_run (lo hi : Z) (live : list Z) (ops : list op) (rs : list res) (live' : list Z) : Prop :=
  match ops, rs with
  | [], [] => live' = live
  | o :: ops', r :: rs' => exists l1, spec_step lo hi live o r l1 /\ spec_run lo hi l1 ops' rs' live'
  | _, _ => False
  end.

(* consequences used by the property text: along an accepted history the live
   set stays inside [lo, hi] and duplicate-free *)
Definition live_ok (lo hi : Z) (live : list Z) : Prop :=
  NoDup live /\ forall id, In id live -> lo <= id <= hi.

Lemma spec_step_live_ok lo hi live o r live' :
  live_ok lo hi live -> spec_step lo hi live o r live' -> live_ok lo hi live'.
Proof.
  intros [Hnd Hb] H. destruct o, r; cbn in H; try contradiction.
  - destruct H as (Hid & Hn & ->). split; [constructor; assumption|].
    intros x [<-|Hx]; auto.
  - destruct H as (_ & ->). split; assumption.
  - destruct H as (Hid & Hn & ->). split; [constructor; assumption|].
    intros x [<-|Hx]; auto.
  - subst. split; assumption.
  - subst. unfold spec_remove. split; [apply NoDup_filter; assumption|].
    intros x Hx. apply filter_In in Hx. apply Hb. tauto.
Qed.

Lemma spec_run_live_ok lo hi : forall ops rs live live',
  live_ok lo hi live -> spec_run lo hi live ops rs live' -> live_ok lo hi live'.
Proof.
  induction ops as [|o t IH]; intros [|r rs] live live' Hl H; cbn in H; try contradiction.
  - subst. assumption.
  - destruct H as (l1 & H1 & H2). eapply IH; [|exact H2]. eapply spec_step_live_ok; eassumption.
Qed.
