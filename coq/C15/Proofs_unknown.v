(* C15: unknown component / parameter identifiers are errors. *)
From NV Require Import Lib.Base Lib.Bits C15.Model C15.Spec C15.Proofs_bits C15.Proofs_total C15.Proofs_rt.
From Coq Require Import ZifyN ZifyNat ZifyBool.
Open Scope N_scope.
Ltac Zify.zify_post_hook ::= Z.div_mod_to_equations.

Arguments N.land : simpl never.
Arguments N.lor : simpl never.
Arguments N.shiftl : simpl never.
Arguments N.shiftr : simpl never.
Arguments N.to_nat : simpl never.
Arguments N.of_nat : simpl never.

(* the identifiers the factories know: Table 9.11.4.13.1 without the two IPv6 types,
   and 01H..07H of table 9.11.4.12.1 *)
Definition known_component_ids : list N :=
  [1; 16; 17; 48; 64; 65; 80; 81; 96; 112; 128; 129; 130; 131; 132; 133; 134; 135].
Definition known_parameter_ids : list N := [1; 2; 3; 4; 5; 6; 7].

Lemma newPacketFilterComponent_Some ty c : newPacketFilterComponent ty = Some c -> In ty known_component_ids.
Proof.
  unfold newPacketFilterComponent.
  repeat match goal with |- context [match ?p with _ => _ end] => destruct p end;
    intro H; try discriminate H; cbn; tauto.
Qed.

Lemma newPacketFilterComponent_None ty :
  newPacketFilterComponent ty = None <-> ~ In ty known_component_ids.
Proof.
  split.
  - intros H Hin. cbn in Hin.
    repeat (destruct Hin as [<-|Hin]; [discriminate H|]). exact Hin.
  - intro H. destruct (newPacketFilterComponent ty) eqn:E; [|reflexivity].
    exfalso. apply H. eapply newPacketFilterComponent_Some. exact E.
Qed.

Lemma newQoSFlowParameters_Some id p : newQoSFlowParameters id = Some p -> In id known_parameter_ids.
Proof.
  unfold newQoSFlowParameters.
  repeat match goal with |- context [match ?p with _ => _ end] => destruct p end;
    intro H; try discriminate H; cbn; tauto.
Qed.

Lemma newQoSFlowParameters_None id :
  newQoSFlowParameters id = None <-> ~ In id known_parameter_ids.
Proof.
  split.
  - intros H Hin. cbn in Hin.
    repeat (destruct Hin as [<-|Hin]; [discriminate H|]). exact Hin.
  - intro H. destruct (newQoSFlowParameters id) eqn:E; [|reflexivity].
    exfalso. apply H. eapply newQoSFlowParameters_Some. exact E.
Qed.

(* ---- at the place where the parser reads the identifier ---- *)

Lemma comps_loop_unknown ty buf acc fuel : newPacketFilterComponent ty = None ->
  PacketFilterComponentList_loop (S fuel) (ty :: buf) acc = RErr EOther.
Proof. intro H. cbn [PacketFilterComponentList_loop read8]. rewrite H. reflexivity. Qed.

Lemma params_unknown id plen buf n : newQoSFlowParameters id = None ->
  parseQoSFlowParameterList (S n) (id :: plen :: buf) = RErr EOther.
Proof. intro H. cbn [parseQoSFlowParameterList read8 rbind]. rewrite H. reflexivity. Qed.

(* ---- the same after any well-formed material ---- *)

Lemma comps_loop_prefix cs bcs : forallb wf_comp cs = true ->
  PacketFilterComponentList_MarshalBinary cs = Ok bcs ->
  forall rest f acc,
    PacketFilterComponentList_loop (length cs + f) (bcs ++ rest) acc =
    PacketFilterComponentList_loop f rest (acc ++ cs).
Proof.
  revert bcs. induction cs as [|c t IH]; intros bcs Hwf Hm rest f acc.
  - cbn in Hm. inversion Hm; subst. cbn. rewrite app_nil_r. reflexivity.
  - apply forallb_cons in Hwf as [Hc Ht].
    destruct (comp_roundtrip c Hc) as (cb & Hcm & Hcl & Hcu).
    destruct (newPacketFilterComponent_Type c) as (c0 & Hnew & Hlen0 & Hun0).
    cbn [PacketFilterComponentList_MarshalBinary] in Hm. rewrite Hcm in Hm. cbn [obind] in Hm.
    destruct (PacketFilterComponentList_MarshalBinary t) as [tb| | |] eqn:Htm; try discriminate Hm.
    cbn [obind] in Hm. inversion Hm; subst bcs.
    cbn [length Nat.add app PacketFilterComponentList_loop read8]. rewrite Hnew.
    rewrite <- app_assoc. rewrite (Next_app cb (tb ++ rest)) by lia.
    rewrite Hun0, Hcu. cbn [lift rbind].
    rewrite (IH tb Ht eq_refl). rewrite <- app_assoc. reflexivity.
Qed.

Lemma filter_step pf : wf_filter pf = true ->
  exists cb, PacketFilterComponentList_MarshalBinary (pf_Components pf) = Ok cb /\
    forall n rest,
      parsePacketFilterList (S n)
        (N.lor (shl8 (pf_Direction pf) 4) (u8 (pf_Identifier pf)) :: u8 (len cb) :: cb ++ rest) =
      ('(l, b) <~ parsePacketFilterList n rest ;; ROk (pf :: l, b)).
Proof.
  intro Hpf. unfold wf_filter in Hpf. btrue.
  destruct (comps_roundtrip _ H1) as (cb & Hcm & Hcl & Hcp).
  exists cb. split; [exact Hcm|]. intros n rest.
  cbn [parsePacketFilterList read8 rbind].
  rewrite pfHeader_val by assumption.
  assert (Hlen : N.to_nat (u8 (len cb)) = length cb).
  { unfold len. rewrite u8_small by lia. lia. }
  rewrite (Next_app cb rest) by exact Hlen.
  unfold PacketFilterComponentList_UnmarshalBinary. rewrite Hcp by lia. cbn [app rbind].
  rewrite pfHeader_dir, pfHeader_id by assumption.
  destruct pf; reflexivity.
Qed.

Lemma filters_prefix fs bfs : forallb wf_filter fs = true ->
  buildPacketFilterList fs = Ok bfs ->
  forall rest m,
    parsePacketFilterList (length fs + m) (bfs ++ rest) =
    ('(l, b) <~ parsePacketFilterList m rest ;; ROk (fs ++ l, b)).
Proof.
  revert bfs. induction fs as [|pf t IH]; intros bfs Hwf Hm rest m.
  - cbn in Hm. inversion Hm; subst. cbn [length Nat.add app].
    destruct (parsePacketFilterList m rest) as [[l b]| | |]; reflexivity.
  - apply forallb_cons in Hwf as [Hpf Ht].
    destruct (filter_step pf Hpf) as (cb & Hcm & Hstep).
    cbn [buildPacketFilterList] in Hm. rewrite Hcm in Hm. cbn [obind] in Hm.
    destruct (buildPacketFilterList t) as [tb| | |] eqn:Htm; try discriminate Hm.
    cbn [obind] in Hm. inversion Hm; subst bfs. clear Hm.
    cbn [length Nat.add app]. rewrite <- app_assoc, Hstep, (IH tb Ht eq_refl).
    destruct (parsePacketFilterList m rest) as [[l b]| | |]; reflexivity.
Qed.

Lemma rules_loop_prefix q bq : wf_rules_code q = true ->
  QoSRules_MarshalBinary q = Ok bq ->
  forall rest f acc, QoSRules_loop (length q + f) (bq ++ rest) acc = QoSRules_loop f rest (acc ++ q).
Proof.
  revert bq. induction q as [|r t IH]; intros bq Hwf Hm rest f acc.
  - cbn in Hm. inversion Hm; subst. cbn. rewrite app_nil_r. reflexivity.
  - apply forallb_cons in Hwf as [Hr Ht].
    destruct (rule_step r Hr) as (rb & Hrm & Hpos & Hstep).
    cbn [QoSRules_MarshalBinary] in Hm. rewrite Hrm in Hm. cbn [obind] in Hm.
    destruct (QoSRules_MarshalBinary t) as [tb| | |] eqn:Htm; try discriminate Hm.
    cbn [obind] in Hm. inversion Hm; subst bq.
    cbn [length Nat.add]. rewrite <- app_assoc, Hstep, (IH tb Ht eq_refl), <- app_assoc. reflexivity.
Qed.

Lemma rules_marshal_length q bq : wf_rules_code q = true ->
  QoSRules_MarshalBinary q = Ok bq -> (length q <= length bq)%nat.
Proof.
  revert bq. induction q as [|r t IH]; intros bq Hwf Hm; [cbn; lia|].
  apply forallb_cons in Hwf as [Hr Ht].
  destruct (rule_step r Hr) as (rb & Hrm & Hpos & _).
  cbn [QoSRules_MarshalBinary] in Hm. rewrite Hrm in Hm. cbn [obind] in Hm.
  destruct (QoSRules_MarshalBinary t) as [tb| | |] eqn:Htm; try discriminate Hm.
  cbn [obind] in Hm. inversion Hm; subst bq. specialize (IH tb Ht eq_refl).
  rewrite app_length. cbn [length]. lia.
Qed.

(* An unknown component type identifier met at any component position of any
   packet filter of any rule (after well-formed rules, filters, components)
   makes QoSRules.UnmarshalBinary return an error. *)
Theorem unknown_component_err :
  forall q bq ident l1 l2 h fs bfs ph pl cs bcs ty tail,
    wf_rules_code q = true -> QoSRules_MarshalBinary q = Ok bq ->
    N.shiftr h 5 <> 5 ->
    forallb wf_filter fs = true -> buildPacketFilterList fs = Ok bfs ->
    (length fs < N.to_nat (N.land h 15))%nat ->
    forallb wf_comp cs = true -> PacketFilterComponentList_MarshalBinary cs = Ok bcs ->
    (length bcs < N.to_nat pl)%nat ->
    ~ In ty known_component_ids ->
    QoSRules_UnmarshalBinary (bq ++ ident :: l1 :: l2 :: h :: bfs ++ ph :: pl :: bcs ++ ty :: tail) = Err.
Proof.
  intros q bq ident l1 l2 h fs bfs ph pl cs bcs ty tail Hq Hbq Hop Hfs Hbfs Hn Hcs Hbcs Hpl Hty.
  apply newPacketFilterComponent_None in Hty.
  unfold QoSRules_UnmarshalBinary.
  pose proof (rules_marshal_length q bq Hq Hbq) as Hlen.
  set (X := ident :: l1 :: l2 :: h :: bfs ++ ph :: pl :: bcs ++ ty :: tail).
  replace (length (bq ++ X) + 1)%nat with (length q + S (length bq - length q + length X))%nat
    by (rewrite app_length; lia).
  rewrite (rules_loop_prefix q bq Hq Hbq). subst X.
  cbn [QoSRules_loop read8 read16 rbind app].
  replace (N.shiftr h 5 =? OperationCodeModifyExistingQoSRuleAndDeletePacketFilters) with false
    by (symmetry; apply N.eqb_neq; exact Hop).
  replace (N.to_nat (N.land h 15)) with (length fs + S (N.to_nat (N.land h 15) - length fs - 1))%nat by lia.
  rewrite (filters_prefix fs bfs Hfs Hbfs).
  cbn [parsePacketFilterList read8 rbind].
  unfold Next.
  rewrite firstn_app, (firstn_all2 bcs) by lia.
  replace (N.to_nat pl - length bcs)%nat with (S (N.to_nat pl - length bcs - 1)) by lia.
  cbn [firstn].
  unfold PacketFilterComponentList_UnmarshalBinary.
  set (tl := firstn (N.to_nat pl - length bcs - 1) tail).
  assert (Hl : (length cs <= length bcs)%nat).
  { destruct (comps_roundtrip cs Hcs) as (b' & Hb' & Hl' & _). rewrite Hbcs in Hb'. inversion Hb'; subst b'.
    rewrite Hl'. clear. induction cs; cbn; lia. }
  replace (length (bcs ++ ty :: tl) + 1)%nat with (length cs + S (length bcs - length cs + length tl + 1))%nat
    by (rewrite app_length; cbn [length]; lia).
  rewrite (comps_loop_prefix cs bcs Hcs Hbcs).
  rewrite comps_loop_unknown by exact Hty.
  reflexivity.
Qed.

(* ---- parameters ---- *)

Lemma params_prefix ps bps : forallb wf_param ps = true ->
  QoSFlowParameterList_MarshalBinary ps = Ok bps ->
  forall rest m,
    parseQoSFlowParameterList (length ps + m) (bps ++ rest) =
    ('(l, b) <~ parseQoSFlowParameterList m rest ;; ROk (ps ++ l, b)).
Proof.
  revert bps. induction ps as [|p t IH]; intros bps Hwf Hm rest m.
  - cbn in Hm. inversion Hm; subst. cbn [length Nat.add app].
    destruct (parseQoSFlowParameterList m rest) as [[l b]| | |]; reflexivity.
  - apply forallb_cons in Hwf as [Hp Ht].
    destruct (param_roundtrip p Hp) as (pb & Hpm & Hpl & Hpu).
    destruct (newQoSFlowParameters_Identifier p) as (p0 & Hnew & Hun0).
    cbn [QoSFlowParameterList_MarshalBinary] in Hm. rewrite Hpm in Hm. cbn [obind] in Hm.
    destruct (QoSFlowParameterList_MarshalBinary t) as [tb| | |] eqn:Htm; try discriminate Hm.
    cbn [obind] in Hm. inversion Hm; subst bps.
    cbn [length Nat.add parseQoSFlowParameterList app read8 rbind]. rewrite Hnew.
    assert (Hlen : N.to_nat (u8 (len pb)) = length pb).
    { unfold len. rewrite u8_small by lia. lia. }
    rewrite <- app_assoc. rewrite (Next_app pb (tb ++ rest)) by exact Hlen.
    rewrite Hun0, Hpu. cbn [rbind]. rewrite (IH tb Ht eq_refl).
    destruct (parseQoSFlowParameterList m rest) as [[l b]| | |]; reflexivity.
Qed.

Lemma descs_loop_prefix q bq : wf_descs_code q = true ->
  QoSFlowDescs_MarshalBinary q = Ok bq ->
  forall rest f acc, QoSFlowDescs_loop (length q + f) (bq ++ rest) acc = QoSFlowDescs_loop f rest (acc ++ q).
Proof.
  revert bq. induction q as [|d t IH]; intros bq Hwf Hm rest f acc.
  - cbn in Hm. inversion Hm; subst. cbn. rewrite app_nil_r. reflexivity.
  - apply forallb_cons in Hwf as [Hd Ht].
    destruct (desc_roundtrip d Hd) as (db & Hdm & Hpos & Hdp).
    cbn [QoSFlowDescs_MarshalBinary] in Hm. rewrite Hdm in Hm. cbn [obind] in Hm.
    destruct (QoSFlowDescs_MarshalBinary t) as [tb| | |] eqn:Htm; try discriminate Hm.
    cbn [obind] in Hm. inversion Hm; subst bq.
    cbn [length Nat.add QoSFlowDescs_loop]. rewrite <- app_assoc, Hdp, (IH tb Ht eq_refl), <- app_assoc. reflexivity.
Qed.

Lemma descs_marshal_length q bq : wf_descs_code q = true ->
  QoSFlowDescs_MarshalBinary q = Ok bq -> (length q <= length bq)%nat.
Proof.
  revert bq. induction q as [|d t IH]; intros bq Hwf Hm; [cbn; lia|].
  apply forallb_cons in Hwf as [Hd Ht].
  destruct (desc_roundtrip d Hd) as (db & Hdm & Hpos & _).
  cbn [QoSFlowDescs_MarshalBinary] in Hm. rewrite Hdm in Hm. cbn [obind] in Hm.
  destruct (QoSFlowDescs_MarshalBinary t) as [tb| | |] eqn:Htm; try discriminate Hm.
  cbn [obind] in Hm. inversion Hm; subst bq. specialize (IH tb Ht eq_refl).
  rewrite app_length. cbn [length]. lia.
Qed.

Lemma land63_pos pno : (0 < N.to_nat (N.land pno 63))%nat -> (pno =? 0) = false.
Proof. intro H. apply N.eqb_neq. intros ->. rewrite N.land_0_l in H. cbn in H. lia. Qed.

(* An unknown parameter identifier followed by its length octet, at any parameter
   position of any description (after well-formed descriptions and parameters),
   makes QoSFlowDescs.UnmarshalBinary return an error. *)
Theorem unknown_parameter_err :
  forall q bq qfi opo pno ps bps id plen tail,
    wf_descs_code q = true -> QoSFlowDescs_MarshalBinary q = Ok bq ->
    forallb wf_param ps = true -> QoSFlowParameterList_MarshalBinary ps = Ok bps ->
    (length ps < N.to_nat (N.land pno 63))%nat ->
    ~ In id known_parameter_ids ->
    QoSFlowDescs_UnmarshalBinary (bq ++ qfi :: opo :: pno :: bps ++ id :: plen :: tail) = Err.
Proof.
  intros q bq qfi opo pno ps bps id plen tail Hq Hbq Hps Hbps Hn Hid.
  apply newQoSFlowParameters_None in Hid.
  unfold QoSFlowDescs_UnmarshalBinary.
  pose proof (descs_marshal_length q bq Hq Hbq) as Hlen.
  set (X := qfi :: opo :: pno :: bps ++ id :: plen :: tail).
  replace (length (bq ++ X) + 1)%nat with (length q + S (length bq - length q + length X))%nat
    by (rewrite app_length; lia).
  rewrite (descs_loop_prefix q bq Hq Hbq). subst X.
  cbn [QoSFlowDescs_loop]. unfold parseQoSFlowDesc. cbn [read8 rbind].
  rewrite land63_pos by lia. cbn [negb].
  replace (N.to_nat (N.land pno 63)) with (length ps + S (N.to_nat (N.land pno 63) - length ps - 1))%nat by lia.
  rewrite (params_prefix ps bps Hps Hbps).
  rewrite params_unknown by exact Hid. reflexivity.
Qed.

(* The boundary of the previous theorem: when the input ends right after the
   unknown identifier, reading the length octet gives io.EOF, which
   QoSFlowDescs.UnmarshalBinary takes for the regular end of the input: nil error,
   and the description under construction is dropped. *)
Theorem unknown_parameter_at_end_is_accepted :
  forall q bq qfi opo pno ps bps id,
    wf_descs_code q = true -> QoSFlowDescs_MarshalBinary q = Ok bq ->
    forallb wf_param ps = true -> QoSFlowParameterList_MarshalBinary ps = Ok bps ->
    (length ps < N.to_nat (N.land pno 63))%nat ->
    QoSFlowDescs_UnmarshalBinary (bq ++ qfi :: opo :: pno :: bps ++ [id]) = Ok q.
Proof.
  intros q bq qfi opo pno ps bps id Hq Hbq Hps Hbps Hn.
  unfold QoSFlowDescs_UnmarshalBinary.
  pose proof (descs_marshal_length q bq Hq Hbq) as Hlen.
  set (X := qfi :: opo :: pno :: bps ++ [id]).
  replace (length (bq ++ X) + 1)%nat with (length q + S (length bq - length q + length X))%nat
    by (rewrite app_length; lia).
  rewrite (descs_loop_prefix q bq Hq Hbq). subst X.
  cbn [QoSFlowDescs_loop]. unfold parseQoSFlowDesc. cbn [read8 rbind].
  rewrite land63_pos by lia. cbn [negb].
  replace (N.to_nat (N.land pno 63)) with (length ps + S (N.to_nat (N.land pno 63) - length ps - 1))%nat by lia.
  rewrite (params_prefix ps bps Hps Hbps).
  cbn [parseQoSFlowParameterList read8 rbind app to_outcome]. reflexivity.
Qed.

(* instance: type 0x21 (IPv6 remote address of the TS, not implemented) as second
   component of the second filter of the second rule *)
Lemma unknown_component_instance :
  QoSRules_UnmarshalBinary
    ([1; 0; 3; 32; 7; 9] ++ 2 :: 0 :: 12 :: 50 :: [17; 1; 1] ++ 34 :: 9 :: [48; 6] ++ 33 :: [1; 2; 3; 4; 5; 6; 7; 8])
  = Err.
Proof.
  apply (unknown_component_err [mkRule 1 1 false [] 7 false 9] _ 2 0 12 50 [mkPF 1 1 [MatchAll]] _ 34 9 [ProtocolIdentifier 6]);
    try reflexivity; try (vm_compute; lia); vm_compute; intuition discriminate.
Qed.
