(* C15: the serialised form is the TS layout of Spec.v. *)
From NV Require Import Lib.Base Lib.Bits C15.Model C15.Spec C15.Proofs_bits C15.Proofs_total C15.Proofs_rt.
From Coq Require Import ZifyN ZifyNat ZifyBool.
Open Scope N_scope.
Ltac Zify.zify_post_hook ::= Z.div_mod_to_equations.

Arguments N.land : simpl never.
Arguments N.lor : simpl never.
Arguments N.shiftl : simpl never.
Arguments N.shiftr : simpl never.
Arguments N.modulo : simpl never.
Arguments N.div : simpl never.
Arguments N.pow : simpl never.
Arguments N.add : simpl never.
Arguments N.mul : simpl never.
Arguments N.sub : simpl never.
Arguments N.to_nat : simpl never.
Arguments N.of_nat : simpl never.

Lemma put16_spec v : put16 v = spec_be16 v.
Proof. reflexivity. Qed.

Lemma put16_u16_spec v : put16 (u16 v) = spec_be16 v.
Proof. unfold put16, u16, spec_be16, hi8, lo8. f_equal; [|f_equal]; lia. Qed.

(* ---- components ---- *)
Lemma comp_format c : wf_comp c = true ->
  exists cb, comp_MarshalBinary c = Ok cb /\ comp_Type c :: cb = spec_comp c.
Proof.
  destruct c; cbn [wf_comp]; intro H; btrue;
    try (eexists; split; [reflexivity|]; cbn; rewrite ?u8_small by assumption; reflexivity).
  - exists (Address ++ Mask). cbn. unfold pfIPv4Address_MarshalBinary. rewrite H, H0. split; reflexivity.
  - exists (Address ++ Mask). cbn. unfold pfIPv4Address_MarshalBinary. rewrite H, H0. split; reflexivity.
  - (* service class *)
    eexists; split; [reflexivity|]. cbn. rewrite serviceClass_word by assumption.
    unfold put16. f_equal. f_equal; [|f_equal]; lia.
  - (* flow label *)
    exists [(Label / 65536) mod 256; (Label / 256) mod 256; Label mod 256].
    cbn. unfold PacketFilterFlowLabel_MarshalBinary.
    replace (1048576 <=? Label) with false by (symmetry; apply N.leb_gt; assumption).
    split; reflexivity.
Qed.

Lemma comps_format cs : forallb wf_comp cs = true ->
  PacketFilterComponentList_MarshalBinary cs = Ok (spec_comps cs).
Proof.
  induction cs as [|c t IH]; intro Hwf; [reflexivity|].
  apply forallb_cons in Hwf as [Hc Ht].
  destruct (comp_format c Hc) as (cb & Hcm & Hcs).
  cbn [PacketFilterComponentList_MarshalBinary]. rewrite Hcm, (IH Ht). cbn [obind].
  unfold spec_comps. cbn [map concat]. rewrite <- Hcs. reflexivity.
Qed.

Lemma spec_comps_length cs : forallb wf_comp cs = true -> length (spec_comps cs) = comps_size cs.
Proof.
  intro Hwf. destruct (comps_roundtrip cs Hwf) as (bs & Hm & Hl & _).
  rewrite (comps_format cs Hwf) in Hm. inversion Hm; subst. exact Hl.
Qed.

(* ---- packet filter lists ---- *)
Lemma filters_format fs : forallb wf_filter fs = true ->
  buildPacketFilterList fs = Ok (concat (map spec_filter fs)).
Proof.
  induction fs as [|pf t IH]; intro Hwf; [reflexivity|].
  apply forallb_cons in Hwf as [Hpf Ht].
  unfold wf_filter in Hpf. btrue.
  cbn [buildPacketFilterList]. rewrite (comps_format _ H1), (IH Ht). cbn [obind].
  cbn [map concat]. unfold spec_filter at 2.
  rewrite pfHeader_val by assumption.
  unfold len, blen. rewrite u8_small by (rewrite spec_comps_length by assumption; lia).
  reflexivity.
Qed.

Lemma filters_del_format fs : forallb wf_filter_del fs = true ->
  buildPacketFilterDeleteList fs = Ok (concat (map spec_filter_id fs)).
Proof.
  induction fs as [|pf t IH]; intro Hwf; [reflexivity|].
  apply forallb_cons in Hwf as [Hpf Ht].
  unfold wf_filter_del in Hpf. btrue.
  cbn [buildPacketFilterDeleteList]. rewrite (IH Ht). cbn [obind].
  rewrite u8_small by lia. reflexivity.
Qed.

Lemma filters_any_format r : wf_rule_code r = true ->
  (if Operation r =? OperationCodeModifyExistingQoSRuleAndDeletePacketFilters
   then buildPacketFilterDeleteList (PacketFilterList r)
   else buildPacketFilterList (PacketFilterList r)) =
  Ok (spec_filters (Operation r) (PacketFilterList r)).
Proof.
  unfold wf_rule_code, spec_filters, OperationCodeModifyExistingQoSRuleAndDeletePacketFilters.
  intro H. btrue.
  destruct (Operation r =? 5); [apply filters_del_format | apply filters_format]; assumption.
Qed.

(* ---- rules: the library writes the layout with octets z+1, z+2 for every operation ---- *)
Lemma b2n_bool2bit b : b2n b = bool2bit b.
Proof. reflexivity. Qed.

Lemma rule_format_always r : wf_rule_code r = true ->
  QoSRule_bytes r = Ok (spec_rule_z12_always r).
Proof.
  intro Hwf. pose proof (filters_any_format r Hwf) as Hf.
  unfold wf_rule_code in Hwf. btrue.
  unfold QoSRule_bytes. rewrite Hf. cbn [obind].
  unfold spec_rule_z12_always, spec_rule_with.
  rewrite ruleHeader_val, qfiByte_val by (assumption || lia).
  rewrite !u8_small by assumption. rewrite put16_u16_spec.
  unfold b2n, bool2bit, len, blen. reflexivity.
Qed.

Theorem rules_format_always q : wf_rules_code q = true ->
  QoSRules_MarshalBinary q = Ok (spec_rules_z12_always q).
Proof.
  induction q as [|r t IH]; intro Hwf; [reflexivity|].
  apply forallb_cons in Hwf as [Hr Ht].
  cbn [QoSRules_MarshalBinary]. rewrite (rule_format_always r Hr), (IH Ht). reflexivity.
Qed.

(* the TS layout proper: octets z+1, z+2 absent for "delete existing QoS rule" *)
Definition no_delete_rule (q : list QoSRule) : bool := forallb (fun r => negb (Operation r =? 2)) q.

Theorem rules_format_partial q : wf_rules_code q = true -> no_delete_rule q = true ->
  QoSRules_MarshalBinary q = Ok (spec_rules q).
Proof.
  intros Hwf Hnd. rewrite (rules_format_always q Hwf). f_equal.
  unfold spec_rules_z12_always, spec_rules. f_equal.
  apply map_ext_in. intros r Hr.
  unfold no_delete_rule in Hnd. rewrite forallb_forall in Hnd. specialize (Hnd r Hr).
  unfold spec_rule_z12_always, spec_rule, spec_rule_with, ts_z12. rewrite Hnd. reflexivity.
Qed.

Definition delete_rule_witness : list QoSRule := [mkRule 1 2 false [] 7 false 9].

Theorem rules_format_refuted :
  exists q bs, wf_rules q = true /\ QoSRules_MarshalBinary q = Ok bs /\ bs <> spec_rules q /\
               QoSRules_UnmarshalBinary (spec_rules q) = Err.
Proof.
  exists delete_rule_witness, [1; 0; 3; 64; 7; 9].
  split; [reflexivity|]. split; [reflexivity|]. split; [discriminate|reflexivity].
Qed.

(* sizes: the 2-octet length of a well-formed rule does not wrap *)
Lemma concat_length_le {A} (f : A -> bytes) k l :
  (forall x, In x l -> length (f x) <= k)%nat -> (length (concat (map f l)) <= length l * k)%nat.
Proof.
  induction l as [|x t IH]; intro H; [cbn; lia|].
  cbn [map concat length]. rewrite app_length.
  pose proof (H x (or_introl eq_refl)). specialize (IH (fun y Hy => H y (or_intror Hy))). lia.
Qed.

Theorem rule_size r : wf_rule_code r = true -> (length (spec_rule_z12_always r) <= 3861)%nat.
Proof.
  intro Hwf. unfold wf_rule_code in Hwf. btrue.
  unfold spec_rule_z12_always, spec_rule_with, spec_be16, spec_filters.
  cbn [length app]. rewrite app_length. cbn [length].
  match goal with |- (S (S (S (S (length ?x + 2)))) <= _)%nat =>
    assert (Hl : (length x <= 15 * 257)%nat); [|revert Hl; generalize (length x); intros n Hn; lia] end.
  destruct (Operation r =? 5).
    - etransitivity; [apply (concat_length_le spec_filter_id 257)|].
      + intros; cbn; lia.
      + apply Nat.mul_le_mono_r. assumption.
    - etransitivity; [apply (concat_length_le spec_filter 257)|].
      + intros pf Hpf. rewrite forallb_forall in H0. specialize (H0 pf Hpf).
        unfold wf_filter in H0. btrue. unfold spec_filter. cbn [length].
        rewrite spec_comps_length by assumption. lia.
      + apply Nat.mul_le_mono_r. assumption.
Qed.

(* ---- flow descriptions ---- *)
Lemma param_format p : wf_param p = true ->
  exists pb, param_MarshalBinary p = Ok pb /\
             param_Identifier p :: u8 (len pb) :: pb = spec_param p.
Proof.
  destruct p; cbn [wf_param]; intro H; btrue; eexists; (split; [reflexivity|]); cbn;
    unfold len, put16; cbn [length]; rewrite ?u8_small by (assumption || lia); reflexivity.
Qed.

Lemma params_format ps : forallb wf_param ps = true ->
  QoSFlowParameterList_MarshalBinary ps = Ok (concat (map spec_param ps)).
Proof.
  induction ps as [|p t IH]; intro Hwf; [reflexivity|].
  apply forallb_cons in Hwf as [Hp Ht].
  destruct (param_format p Hp) as (pb & Hpm & Hps).
  cbn [QoSFlowParameterList_MarshalBinary]. rewrite Hpm, (IH Ht). cbn [obind map concat].
  rewrite <- Hps. reflexivity.
Qed.

Lemma desc_format d : wf_desc_code d = true -> QoSFlowDesc_MarshalBinary d = Ok (spec_desc d).
Proof.
  unfold wf_desc_code. intro H. btrue.
  unfold QoSFlowDesc_MarshalBinary, spec_desc.
  rewrite (u8_small (N.of_nat (length (d_Parameters d)))) by lia.
  rewrite descOp_val by assumption. rewrite (u8_small (d_QFI d)) by assumption.
  destruct (N.of_nat (length (d_Parameters d)) =? 0) eqn:E0.
  - apply N.eqb_eq in E0. cbn [N.eqb]. rewrite E0.
    destruct (d_Parameters d); [reflexivity|cbn in E0; lia].
  - apply N.eqb_neq in E0. cbn [N.eqb]. rewrite (params_format _ H0). cbn [obind app].
    pose proof (descNum_val (N.of_nat (length (d_Parameters d)))) as Hv.
    rewrite u8_small in Hv by lia. rewrite Hv by lia. reflexivity.
Qed.

Theorem descs_format q : wf_descs_code q = true ->
  QoSFlowDescs_MarshalBinary q = Ok (spec_descs q).
Proof.
  induction q as [|d t IH]; intro Hwf; [reflexivity|].
  apply forallb_cons in Hwf as [Hd Ht].
  cbn [QoSFlowDescs_MarshalBinary]. rewrite (desc_format d Hd), (IH Ht). reflexivity.
Qed.

(* ---- the statements of Props/C15.v in the property's own terms ---- *)
Lemma rules_total_bytes bs : bytes_ok bs -> is_total (QoSRules_UnmarshalBinary bs).
Proof. intros _. apply QoSRules_UnmarshalBinary_total. Qed.

Lemma descs_total_bytes bs : bytes_ok bs -> is_total (QoSFlowDescs_UnmarshalBinary bs).
Proof. intros _. apply QoSFlowDescs_UnmarshalBinary_total. Qed.

Lemma rules_roundtrip_prop q : wf_rules q = true ->
  exists bs, QoSRules_MarshalBinary q = Ok bs /\ QoSRules_UnmarshalBinary bs = Ok q.
Proof. intro H. apply rules_roundtrip, wf_rules_code_of, H. Qed.

Lemma descs_roundtrip_prop q : wf_descs q = true ->
  exists bs, QoSFlowDescs_MarshalBinary q = Ok bs /\ QoSFlowDescs_UnmarshalBinary bs = Ok q.
Proof. intro H. apply descs_roundtrip, wf_descs_code_of, H. Qed.

(* ---- serialising any value (well-formed or not) ends with octets or an error ---- *)
Lemma comp_MarshalBinary_safe c : osafe (comp_MarshalBinary c).
Proof.
  destruct c; cbn; try exact I.
  - unfold pfIPv4Address_MarshalBinary. destruct (negb _); [exact I|]. destruct (negb _); exact I.
  - unfold pfIPv4Address_MarshalBinary. destruct (negb _); [exact I|]. destruct (negb _); exact I.
  - unfold PacketFilterFlowLabel_MarshalBinary. destruct (1048576 <=? Label); exact I.
Qed.

Lemma comps_MarshalBinary_safe cs : osafe (PacketFilterComponentList_MarshalBinary cs).
Proof.
  induction cs as [|c t IH]; cbn [PacketFilterComponentList_MarshalBinary]; [exact I|].
  pose proof (comp_MarshalBinary_safe c).
  destruct (comp_MarshalBinary c); cbn in *; try contradiction; try exact I.
  destruct (PacketFilterComponentList_MarshalBinary t); cbn in *; try contradiction; exact I.
Qed.

Lemma buildPacketFilterList_safe fs : osafe (buildPacketFilterList fs).
Proof.
  induction fs as [|pf t IH]; cbn [buildPacketFilterList]; [exact I|].
  pose proof (comps_MarshalBinary_safe (pf_Components pf)).
  destruct (PacketFilterComponentList_MarshalBinary (pf_Components pf)); cbn in *; try contradiction; try exact I.
  destruct (buildPacketFilterList t); cbn in *; try contradiction; exact I.
Qed.

Lemma buildPacketFilterDeleteList_safe fs : osafe (buildPacketFilterDeleteList fs).
Proof.
  induction fs as [|pf t IH]; cbn [buildPacketFilterDeleteList]; [exact I|].
  destruct (buildPacketFilterDeleteList t); cbn in *; try contradiction; exact I.
Qed.

Theorem QoSRules_MarshalBinary_total q : is_total (QoSRules_MarshalBinary q).
Proof.
  induction q as [|r t IH]; cbn [QoSRules_MarshalBinary]; [exact I|].
  assert (Hr : osafe (QoSRule_bytes r)).
  { unfold QoSRule_bytes.
    destruct (Operation r =? OperationCodeModifyExistingQoSRuleAndDeletePacketFilters).
    - pose proof (buildPacketFilterDeleteList_safe (PacketFilterList r)).
      destruct (buildPacketFilterDeleteList (PacketFilterList r)); cbn in *; try contradiction; exact I.
    - pose proof (buildPacketFilterList_safe (PacketFilterList r)).
      destruct (buildPacketFilterList (PacketFilterList r)); cbn in *; try contradiction; exact I. }
  destruct (QoSRule_bytes r); cbn in *; try contradiction; try exact I.
  destruct (QoSRules_MarshalBinary t); cbn in *; try contradiction; exact I.
Qed.

Lemma params_MarshalBinary_ok ps : exists b, QoSFlowParameterList_MarshalBinary ps = Ok b.
Proof.
  induction ps as [|p t [tb IH]]; cbn [QoSFlowParameterList_MarshalBinary]; [eauto|].
  rewrite IH. destruct p; cbn; eauto.
Qed.

(* ... and QoSFlowDescs.MarshalBinary has no error at all *)
Theorem QoSFlowDescs_MarshalBinary_ok q : exists b, QoSFlowDescs_MarshalBinary q = Ok b.
Proof.
  induction q as [|d t [tb IH]]; cbn [QoSFlowDescs_MarshalBinary]; [eauto|].
  rewrite IH. unfold QoSFlowDesc_MarshalBinary.
  destruct (params_MarshalBinary_ok (d_Parameters d)) as [pb Hpb]. rewrite Hpb.
  destruct ((if u8 (N.of_nat (length (d_Parameters d))) =? 0 then 0 else 1) =? 1); cbn; eauto.
Qed.

(* ---- observation: the "length of QoS rule" octets are read and never used ---- *)
Theorem rule_length_is_ignored ident l1 l2 m1 m2 rest :
  QoSRules_UnmarshalBinary (ident :: l1 :: l2 :: rest) = QoSRules_UnmarshalBinary (ident :: m1 :: m2 :: rest).
Proof. reflexivity. Qed.

(* ---- the TS value ranges lie inside the domain of the theorems ---- *)
Lemma ts_rule_in_domain r : ts_rule_ok r = true -> go_rule_ok r = true -> wf_rule r = true.
Proof.
  unfold ts_rule_ok, go_rule_ok, wf_rule, wf_rule_code. intros Ht Hg. btrue.
  repeat (apply andb_true_iff; split); try (apply N.ltb_lt; lia); try (apply N.leb_le; lia);
    try (apply Nat.leb_le; lia).
  destruct (Operation r =? 5) eqn:E5.
  - apply forallb_forall. intros pf Hpf.
    rewrite forallb_forall in H1, H0. specialize (H1 pf Hpf). specialize (H0 pf Hpf).
    unfold go_filter_ok in H0. rewrite E5 in H0. unfold wf_filter_del.
    apply andb_true_iff in H0 as [Hd Hc]. rewrite H1, Hd, Hc. reflexivity.
  - apply forallb_forall. intros pf Hpf.
    rewrite forallb_forall in H1, H0, H4. specialize (H1 pf Hpf). specialize (H0 pf Hpf). specialize (H4 pf Hpf).
    unfold go_filter_ok in H0. rewrite E5 in H0. unfold ts_filter_ok in H4. unfold wf_filter.
    apply andb_true_iff in H0 as [Hc Hs]. rewrite H1, Hc, Hs. btrue.
    replace (pf_Direction pf <? 16) with true by (symmetry; apply N.ltb_lt; lia). reflexivity.
Qed.
