(* C15: totality of the parsers (no panic, fuel [length + 1] suffices) and the
   behaviour on unknown identifiers. *)
From NV Require Import Lib.Base Lib.Bits C15.Model.
From Coq Require Import ZifyN ZifyNat ZifyBool.
Open Scope N_scope.
Ltac Zify.zify_post_hook ::= Z.div_mod_to_equations.

Arguments N.land : simpl never.
Arguments N.lor : simpl never.
Arguments N.shiftl : simpl never.
Arguments N.shiftr : simpl never.
Arguments N.modulo : simpl never.
Arguments N.div : simpl never.
Arguments N.pow : simpl never.
Arguments N.add : simpl never.
Arguments N.mul : simpl never.
Arguments N.sub : simpl never.
Arguments N.to_nat : simpl never.
Arguments N.of_nat : simpl never.

(* a result that is a value or a Go error *)
Definition rtotal {A} (r : res A) : Prop :=
  match r with ROk _ | RErr _ => True | RPanic | RFuel => False end.

(* ... and, for a function reading from a buffer, leaves a suffix no longer than the buffer *)
Definition shrinks {A} (k : nat) (buf : bytes) (r : res (A * bytes)) : Prop :=
  match r with
  | ROk (_, rest) => (length rest + k <= length buf)%nat
  | RErr _ => True
  | RPanic | RFuel => False
  end.

Definition osafe {A} (o : outcome A) : Prop :=
  match o with Ok _ | Err => True | Panic | OutOfFuel => False end.

Lemma rtotal_to_outcome {A} (r : res A) : rtotal r -> is_total (to_outcome r).
Proof. destruct r; simpl; auto. Qed.

Lemma read8_shrinks buf : shrinks 1 buf (read8 buf).
Proof. destruct buf; simpl; lia. Qed.

Lemma read16_shrinks buf : shrinks 2 buf (read16 buf).
Proof. destruct buf as [|a [|b r]]; simpl; lia. Qed.

Lemma skipn_length_le {A} n (l : list A) : (length (skipn n l) <= length l)%nat.
Proof. rewrite skipn_length. lia. Qed.

(* the length test in front of every index / slice expression makes them safe *)
Lemma comp_UnmarshalBinary_safe c b : osafe (comp_UnmarshalBinary c b).
Proof.
  destruct c; (do 10 (destruct b as [|? b]; [cbn; exact I|])); cbn; exact I.
Qed.

Lemma PacketFilterComponentList_loop_total fuel : forall buf acc,
  (length buf < fuel)%nat -> rtotal (PacketFilterComponentList_loop fuel buf acc).
Proof.
  induction fuel as [|f IH]; intros buf acc Hf; [lia|].
  destruct buf as [|ty buf1]; cbn [PacketFilterComponentList_loop read8]; [exact I|].
  destruct (newPacketFilterComponent ty) as [c|]; [|exact I].
  cbn [Next].
  pose proof (comp_UnmarshalBinary_safe c (firstn (comp_Length c) buf1)) as Hs.
  destruct (comp_UnmarshalBinary c (firstn (comp_Length c) buf1)); cbn in *; try contradiction; try exact I.
  apply IH. pose proof (skipn_length_le (comp_Length c) buf1). cbn in Hf. lia.
Qed.

Lemma PacketFilterComponentList_UnmarshalBinary_total b :
  rtotal (PacketFilterComponentList_UnmarshalBinary b).
Proof. apply PacketFilterComponentList_loop_total. lia. Qed.

Lemma parsePacketFilterList_shrinks n : forall buf, shrinks 0 buf (parsePacketFilterList n buf).
Proof.
  induction n as [|n IH]; intro buf; cbn [parsePacketFilterList]; [cbn; lia|].
  destruct buf as [|h [|l buf2]]; cbn [read8 rbind]; try exact I.
  cbn [Next].
  pose proof (PacketFilterComponentList_UnmarshalBinary_total (firstn (N.to_nat l) buf2)) as Ht.
  destruct (PacketFilterComponentList_UnmarshalBinary (firstn (N.to_nat l) buf2)); cbn in *; try contradiction; try exact I.
  specialize (IH (skipn (N.to_nat l) buf2)).
  destruct (parsePacketFilterList n (skipn (N.to_nat l) buf2)) as [[rest b4]| | |]; cbn in *; try contradiction; try exact I.
  pose proof (skipn_length_le (N.to_nat l) buf2). lia.
Qed.

Lemma parsePacketFilterDeleteList_shrinks n : forall buf, shrinks 0 buf (parsePacketFilterDeleteList n buf).
Proof.
  induction n as [|n IH]; intro buf; cbn [parsePacketFilterDeleteList]; [cbn; lia|].
  destruct buf as [|h buf1]; cbn [read8 rbind]; try exact I.
  specialize (IH buf1).
  destruct (parsePacketFilterDeleteList n buf1) as [[rest b4]| | |]; cbn in *; try contradiction; try exact I.
  lia.
Qed.

Lemma QoSRules_loop_total fuel : forall buf acc,
  (length buf < fuel)%nat -> rtotal (QoSRules_loop fuel buf acc).
Proof.
  induction fuel as [|f IH]; intros buf acc Hf; [lia|].
  destruct buf as [|ident [|l1 [|l2 [|h buf3]]]]; cbn [QoSRules_loop read8 read16 rbind]; try exact I.
  set (pl := if N.shiftr h 5 =? OperationCodeModifyExistingQoSRuleAndDeletePacketFilters
             then parsePacketFilterDeleteList (N.to_nat (N.land h 15)) buf3
             else parsePacketFilterList (N.to_nat (N.land h 15)) buf3).
  assert (Hs : shrinks 0 buf3 pl).
  { subst pl. destruct (N.shiftr h 5 =? _);
      [apply parsePacketFilterDeleteList_shrinks | apply parsePacketFilterList_shrinks]. }
  destruct pl as [[pfList buf4]| | |]; cbn in Hs |- *; try contradiction; try exact I.
  destruct buf4 as [|prec [|q buf6]]; cbn [read8 rbind]; try exact I.
  apply IH. cbn in Hf, Hs. lia.
Qed.

Lemma QoSRules_UnmarshalBinary_total b : is_total (QoSRules_UnmarshalBinary b).
Proof. apply rtotal_to_outcome, QoSRules_loop_total. lia. Qed.

(* ---- QoS flow descriptions ---- *)

Lemma param_UnmarshalBinary_total p b : rtotal (param_UnmarshalBinary p b).
Proof.
  destruct p; (do 4 (destruct b as [|? b]; [cbn; exact I|])); cbn; exact I.
Qed.

Lemma parseQoSFlowParameterList_shrinks n : forall buf, shrinks 0 buf (parseQoSFlowParameterList n buf).
Proof.
  induction n as [|n IH]; intro buf; cbn [parseQoSFlowParameterList]; [cbn; lia|].
  destruct buf as [|pid [|plen buf2]]; cbn [read8 rbind]; try exact I.
  destruct (newQoSFlowParameters pid) as [p|]; [|exact I].
  cbn [Next].
  pose proof (param_UnmarshalBinary_total p (firstn (N.to_nat plen) buf2)) as Ht.
  destruct (param_UnmarshalBinary p (firstn (N.to_nat plen) buf2)); cbn in *; try contradiction; try exact I.
  specialize (IH (skipn (N.to_nat plen) buf2)).
  destruct (parseQoSFlowParameterList n (skipn (N.to_nat plen) buf2)) as [[rest b4]| | |]; cbn in *; try contradiction; try exact I.
  pose proof (skipn_length_le (N.to_nat plen) buf2). lia.
Qed.

Lemma parseQoSFlowDesc_shrinks buf : shrinks 3 buf (parseQoSFlowDesc buf).
Proof.
  unfold parseQoSFlowDesc.
  destruct buf as [|qfi [|opo [|pno buf3]]]; cbn [read8 rbind]; try exact I.
  destruct (negb (pno =? 0)); [|cbn; lia].
  pose proof (parseQoSFlowParameterList_shrinks (N.to_nat (N.land pno 63)) buf3) as Hs.
  destruct (parseQoSFlowParameterList (N.to_nat (N.land pno 63)) buf3) as [[pl b4]| | |]; cbn in *; try contradiction; try exact I.
  lia.
Qed.

Lemma QoSFlowDescs_loop_total fuel : forall buf acc,
  (length buf < fuel)%nat -> rtotal (QoSFlowDescs_loop fuel buf acc).
Proof.
  induction fuel as [|f IH]; intros buf acc Hf; [lia|].
  cbn [QoSFlowDescs_loop].
  pose proof (parseQoSFlowDesc_shrinks buf) as Hs.
  destruct (parseQoSFlowDesc buf) as [[d buf1]|[|]| |]; cbn in Hs |- *; try contradiction; try exact I.
  apply IH. lia.
Qed.

Lemma QoSFlowDescs_UnmarshalBinary_total b : is_total (QoSFlowDescs_UnmarshalBinary b).
Proof. apply rtotal_to_outcome, QoSFlowDescs_loop_total. lia. Qed.
