(* C15: all lemmas (re-export). *)
From NV Require Export C15.Proofs_bits C15.Proofs_total C15.Proofs_rt C15.Proofs_unknown C15.Proofs_fmt C15.Examples.
