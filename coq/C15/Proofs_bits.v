(* C15: the octet-level facts: Go's shift/mask expressions on the header octets
   against the arithmetic layout of the TS. *)
From NV Require Import Lib.Base Lib.Bits C15.Model.
From Coq Require Import ZifyN ZifyNat ZifyBool.
Open Scope N_scope.
Ltac Zify.zify_post_hook ::= Z.div_mod_to_equations.

Arguments N.land : simpl never.
Arguments N.lor : simpl never.
Arguments N.shiftl : simpl never.
Arguments N.shiftr : simpl never.
Arguments N.modulo : simpl never.
Arguments N.div : simpl never.
Arguments N.pow : simpl never.
Arguments N.add : simpl never.
Arguments N.mul : simpl never.
Arguments N.sub : simpl never.

Lemma p4 : 2 ^ 4 = 16. Proof. reflexivity. Qed.
Lemma p5 : 2 ^ 5 = 32. Proof. reflexivity. Qed.
Lemma p6 : 2 ^ 6 = 64. Proof. reflexivity. Qed.
Lemma p8 : 2 ^ 8 = 256. Proof. reflexivity. Qed.
Lemma p16 : 2 ^ 16 = 65536. Proof. reflexivity. Qed.
Lemma p1 : 2 ^ 1 = 2. Proof. reflexivity. Qed.
Lemma p2 : 2 ^ 2 = 4. Proof. reflexivity. Qed.

Lemma bool2bit_lt b : bool2bit b < 2.
Proof. destruct b; cbn; lia. Qed.

(* a*2^n | b for b < 2^n, with the power as a literal *)
Lemma lor_add a b n k : k = 2 ^ n -> b < k -> N.lor (a * k) b = a * k + b.
Proof. intros -> H. apply lor_disjoint_add; assumption. Qed.

(* ---- rule header: operation<<5 | DQR<<4 | number of filters ---- *)
Lemma ruleHeader_val op d n : op < 8 -> n < 16 ->
  N.lor (N.lor (shl8 (u8 op) 5) (shl8 (bool2bit d) 4)) (u8 n) = op * 32 + bool2bit d * 16 + n.
Proof.
  intros Ho Hn. pose proof (bool2bit_lt d) as Hd.
  unfold shl8, u8. rewrite !shiftl_mul, p5, p4.
  rewrite (N.mod_small op 256) by lia.
  rewrite (N.mod_small (op * 32)) by lia.
  rewrite (N.mod_small (bool2bit d * 16)) by lia.
  rewrite (N.mod_small n) by lia.
  rewrite (lor_add op (bool2bit d * 16) 5 32) by (auto; lia).
  replace (op * 32 + bool2bit d * 16) with ((op * 2 + bool2bit d) * 16) by lia.
  rewrite (lor_add _ n 4 16) by (auto; lia). reflexivity.
Qed.

Lemma land_15 h : N.land h 15 = h mod 16.
Proof. change 15 with (N.ones 4). rewrite land_ones_mod, p4. reflexivity. Qed.
Lemma land_63 h : N.land h 63 = h mod 64.
Proof. change 63 with (N.ones 6). rewrite land_ones_mod, p6. reflexivity. Qed.
Lemma land_255 h : N.land h 255 = h mod 256.
Proof. change 255 with (N.ones 8). rewrite land_ones_mod, p8. reflexivity. Qed.
Lemma land_16 h : N.land h 16 = ((h / 16) mod 2) * 16.
Proof. change 16 with (N.shiftl (N.ones 1) 4) at 1. rewrite land_shifted_ones, p4, p1. reflexivity. Qed.
Lemma land_240 h : N.land h 240 = ((h / 16) mod 16) * 16.
Proof. change 240 with (N.shiftl (N.ones 4) 4). rewrite land_shifted_ones, p4. reflexivity. Qed.
Lemma land_65280 h : N.land h 65280 = ((h / 256) mod 256) * 256.
Proof. change 65280 with (N.shiftl (N.ones 8) 8). rewrite land_shifted_ones, p8. reflexivity. Qed.

Lemma ruleHeader_op op d n : op < 8 -> n < 16 -> N.shiftr (op * 32 + bool2bit d * 16 + n) 5 = op.
Proof. intros. pose proof (bool2bit_lt d). rewrite shiftr_div, p5. lia. Qed.

Lemma ruleHeader_dqr op d n : n < 16 ->
  bit2bool (N.land (op * 32 + bool2bit d * 16 + n) 16) = d.
Proof.
  intros. rewrite land_16. unfold bit2bool.
  destruct d; cbn [bool2bit]; apply eq_true_iff_eq; rewrite negb_true_iff, N.eqb_neq; split; intros; try easy; lia.
Qed.

Lemma ruleHeader_n op d n : n < 16 -> N.land (op * 32 + bool2bit d * 16 + n) 15 = n.
Proof. intros. pose proof (bool2bit_lt d). rewrite land_15. destruct d; cbn [bool2bit]; lia. Qed.

(* ---- spare | segregation | QFI ---- *)
Lemma qfiByte_val s q : q < 64 -> N.lor (shl8 (bool2bit s) 6) (u8 q) = bool2bit s * 64 + q.
Proof.
  intros Hq. pose proof (bool2bit_lt s). unfold shl8, u8. rewrite shiftl_mul, p6.
  rewrite (N.mod_small (bool2bit s * 64)) by lia. rewrite (N.mod_small q) by lia.
  apply (lor_add _ q 6 64); auto.
Qed.

Lemma qfiByte_seg s q : q < 64 -> bit2bool (N.shiftr (bool2bit s * 64 + q) 6) = s.
Proof.
  intros. rewrite shiftr_div, p6. unfold bit2bool.
  destruct s; cbn [bool2bit]; apply eq_true_iff_eq; rewrite negb_true_iff, N.eqb_neq; split; intros; try easy; lia.
Qed.

Lemma qfiByte_qfi s q : q < 64 -> N.land (bool2bit s * 64 + q) 63 = q.
Proof. intros. rewrite land_63. destruct s; cbn [bool2bit]; lia. Qed.

(* ---- packet filter header: direction<<4 | identifier ---- *)
Lemma pfHeader_val dir id : dir < 16 -> id < 16 -> N.lor (shl8 dir 4) (u8 id) = dir * 16 + id.
Proof.
  intros. unfold shl8, u8. rewrite shiftl_mul, p4.
  rewrite (N.mod_small (dir * 16)) by lia. rewrite (N.mod_small id) by lia.
  apply (lor_add _ id 4 16); auto.
Qed.

Lemma pfHeader_dir dir id : dir < 16 -> id < 16 -> N.shiftr (N.land (dir * 16 + id) 240) 4 = dir.
Proof. intros. rewrite land_240, shiftr_div, p4. lia. Qed.

Lemma pfHeader_id dir id : id < 16 -> N.land (dir * 16 + id) 15 = id.
Proof. intros. rewrite land_15. lia. Qed.

(* ---- flow description header ---- *)
Lemma descOp_val op : op < 8 -> shl8 (u8 op) 5 = op * 32.
Proof. intros. unfold shl8, u8. rewrite shiftl_mul, p5. rewrite (N.mod_small op) by lia. apply N.mod_small. lia. Qed.

Lemma descOp_op op : op < 8 -> N.shiftr (op * 32) 5 = op.
Proof. intros. rewrite shiftr_div, p5. lia. Qed.

Lemma descNum_val n : 0 < n -> n < 64 -> N.lor (shl8 1 6) (u8 n) = 64 + n.
Proof.
  intros. unfold shl8, u8. rewrite shiftl_mul, p6. change (1 * 64 mod 256) with (1 * 64).
  rewrite (N.mod_small n) by lia. rewrite (lor_add 1 n 6 64); auto; lia.
Qed.

Lemma descNum_zero : N.lor (shl8 0 6) (u8 0) = 0.
Proof. reflexivity. Qed.

(* ---- component values ---- *)
Lemma serviceClass_word c m : c < 256 -> m < 256 ->
  N.lor (u16 (N.shiftl (u8 c) 8)) (u8 m) = c * 256 + m.
Proof.
  intros. unfold u16, u8. rewrite (N.mod_small c), (N.mod_small m) by lia.
  rewrite shiftl_mul, p8. rewrite (N.mod_small (c * 256)) by lia.
  apply (lor_add _ m 8 256); auto.
Qed.

Lemma serviceClass_class c m : c < 256 -> m < 256 ->
  u8 (N.shiftr (N.land (c * 256 + m) 65280) 8) = c.
Proof. intros. unfold u8. rewrite land_65280, shiftr_div, p8. lia. Qed.

Lemma serviceClass_mask c m : m < 256 -> u8 (N.land (c * 256 + m) 255) = m.
Proof. intros. unfold u8. rewrite land_255. lia. Qed.

Lemma flowLabel_join l : l < 1048576 ->
  N.lor (N.lor (N.shiftl ((l / 65536) mod 256) 16) (N.shiftl ((l / 256) mod 256) 8)) (l mod 256) = l.
Proof.
  intros. rewrite !shiftl_mul, p16, p8.
  rewrite (lor_add _ ((l / 256) mod 256 * 256) 16 65536) by (auto; lia).
  replace ((l / 65536) mod 256 * 65536 + (l / 256) mod 256 * 256)
    with (((l / 65536) mod 256 * 256 + (l / 256) mod 256) * 256) by lia.
  rewrite (lor_add _ (l mod 256) 8 256) by (auto; lia). lia.
Qed.
