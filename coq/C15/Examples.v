(* C15: concrete values used by the non-vacuity Examples of Props/C15.v. *)
From NV Require Import Lib.Base C15.Model C15.Spec.
Open Scope N_scope.

(* four rules: create (two filters, several components), delete packet filters
   (identifiers only), delete rule, replace all filters (seven more component types) *)
Definition ex_rules : list QoSRule :=
  [ mkRule 1 1 true
      [ mkPF 1 3 [IPv4RemoteAddress [10; 0; 0; 1] [255; 255; 255; 0]; ProtocolIdentifier 17;
                  RemotePortRange 5000 6000; FlowLabel 1048575];
        mkPF 2 1 [MatchAll] ] 10 false 9;
    mkRule 2 5 false [mkPF 1 0 []; mkPF 2 0 []] 20 true 63;
    mkRule 3 2 false [] 0 false 0;
    mkRule 4 4 false
      [ mkPF 15 2 [DestinationMACAddress [1; 2; 3; 4; 5; 6]; CTagVID 4095; STagPCPDEI 15; EtherType 2048;
                   SecurityParameterIndex 4294967295; ServiceClass 184 252; SingleLocalPort 65535;
                   IPv4LocalAddress [192; 168; 1; 0] [255; 255; 255; 0]; SourceMACAddress [255; 254; 253; 252; 251; 250];
                   STagVID 1; CTagPCPDEI 0; SingleRemotePort 0; LocalPortRange 0 65535] ] 255 true 1 ].

Definition ex_rules_octets : bytes :=
  [1; 0; 28; 50; 49; 20; 16; 10; 0; 0; 1; 255; 255; 255; 0; 48; 17; 81; 19; 136; 23; 112; 128; 15; 255; 255;
   18; 1; 1; 10; 9;
   2; 0; 5; 162; 1; 2; 20; 127;
   3; 0; 3; 64; 0; 0;
   4; 0; 60; 129; 47; 55; 129; 1; 2; 3; 4; 5; 6; 131; 15; 255; 134; 15; 135; 8; 0; 96; 255; 255; 255; 255;
   112; 184; 252; 64; 255; 255; 17; 192; 168; 1; 0; 255; 255; 255; 0; 130; 255; 254; 253; 252; 251; 250;
   132; 0; 1; 133; 0; 80; 0; 0; 65; 0; 0; 255; 255; 255; 65].

(* the same list without the "delete existing QoS rule" entry *)
Definition ex_rules_nodel : list QoSRule :=
  match ex_rules with [a; b; _; d] => [a; b; d] | _ => [] end.

(* three descriptions: create with all seven parameter kinds, delete, modify *)
Definition ex_descs : list QoSFlowDesc :=
  [ mkDesc 9 1 [P5QI 9; GFBRUplink 6 100; GFBRDownlink 6 200; MFBRUplink 7 1; MFBRDownlink 7 65535;
                AveragingWindow 2000; EBI 80];
    mkDesc 10 2 [];
    mkDesc 63 3 [P5QI 255] ].

Definition ex_descs_octets : bytes :=
  [9; 32; 71; 1; 1; 9; 2; 3; 6; 0; 100; 3; 3; 6; 0; 200; 4; 3; 7; 0; 1; 5; 3; 7; 255; 255; 6; 2; 7; 208; 7; 1; 80;
   10; 64; 0;
   63; 96; 65; 1; 1; 255].
