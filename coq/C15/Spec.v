(* C15: the wire formats of TS 24.501 (Release 15/16), written from the standard with
   plain arithmetic (no Go bit operations), independently of the model:

     9.11.4.13  QoS rules                 (figures 9.11.4.13.2-4, table 9.11.4.13.1)
     9.11.4.12  QoS flow descriptions     (figures 9.11.4.12.2-4, table 9.11.4.12.1)

   The value types are those of the model (one constructor per Go type).  The
   functions are total; the ranges the TS gives to the fields are [ts_*] below. *)
From NV Require Import Lib.Base C15.Model.
Open Scope N_scope.

Definition blen (l : bytes) : N := N.of_nat (length l).
Definition spec_be16 (v : N) : bytes := [hi8 v; lo8 v].

(* ---------------------------------------------------------------- 9.11.4.13 *)

(* Table 9.11.4.13.1, "packet filter component type identifier" and the value field
   that follows it:
     0000 0001  match-all type                         (no value)
     0001 0000  IPv4 remote address type               4 octets address, 4 octets mask
     0001 0001  IPv4 local address type                4 + 4
     0010 0001  IPv6 remote address/prefix length type (not implemented by the library)
     0010 0011  IPv6 local address/prefix length type  (not implemented by the library)
     0011 0000  protocol identifier/next header type   1 octet
     0100 0000  single local port type                 2 octets
     0100 0001  local port range type                  2 octets low limit, 2 octets high limit
     0101 0000  single remote port type                2
     0101 0001  remote port range type                 2 + 2
     0110 0000  security parameter index type          4 octets
     0111 0000  type of service/traffic class type     1 octet value, 1 octet mask
     1000 0000  flow label type                        3 octets: 4 spare bits, 20 bits label
     1000 0001  destination MAC address type           6 octets
     1000 0010  source MAC address type                6 octets
     1000 0011  802.1Q C-TAG VID type                  2 octets: 4 spare bits, 12 bits VID
     1000 0100  802.1Q S-TAG VID type                  2 octets
     1000 0101  802.1Q C-TAG PCP/DEI type              1 octet: 4 spare bits, PCP, DEI
     1000 0110  802.1Q S-TAG PCP/DEI type              1 octet
     1000 0111  ethertype type                         2 octets *)
Definition spec_comp (c : comp) : bytes :=
  match c with
  | MatchAll => [1]
  | IPv4RemoteAddress a m => 16 :: a ++ m
  | IPv4LocalAddress a m => 17 :: a ++ m
  | ProtocolIdentifier v => [48; v]
  | SingleLocalPort v => 64 :: spec_be16 v
  | LocalPortRange lo hi => 65 :: spec_be16 lo ++ spec_be16 hi
  | SingleRemotePort v => 80 :: spec_be16 v
  | RemotePortRange lo hi => 81 :: spec_be16 lo ++ spec_be16 hi
  | SecurityParameterIndex i => [96; (i / 16777216) mod 256; (i / 65536) mod 256; (i / 256) mod 256; i mod 256]
  | ServiceClass c m => [112; c; m]
  | FlowLabel l => [128; (l / 65536) mod 256; (l / 256) mod 256; l mod 256]
  | DestinationMACAddress m => 129 :: m
  | SourceMACAddress m => 130 :: m
  | CTagVID v => 131 :: spec_be16 v
  | STagVID v => 132 :: spec_be16 v
  | CTagPCPDEI v => [133; v]
  | STagPCPDEI v => [134; v]
  | EtherType v => 135 :: spec_be16 v
  end.

Definition spec_comps (cs : list comp) : bytes := concat (map spec_comp cs).

(* figure 9.11.4.13.3: 0 0 | direction (2 bits) | identifier (4 bits); length of
   packet filter contents; packet filter contents *)
Definition spec_filter (pf : PacketFilter) : bytes :=
  let contents := spec_comps (pf_Components pf) in
  (pf_Direction pf * 16 + pf_Identifier pf) :: blen contents :: contents.

(* figure 9.11.4.13.4 ("modify existing QoS rule and delete packet filters"):
   0 0 0 0 | identifier, one octet per filter *)
Definition spec_filter_id (pf : PacketFilter) : bytes := [pf_Identifier pf].

Definition spec_filters (op : N) (l : list PacketFilter) : bytes :=
  if op =? 5 then concat (map spec_filter_id l) else concat (map spec_filter l).

Definition b2n (b : bool) : N := if b then 1 else 0.

(* figure 9.11.4.13.2: rule identifier; length of QoS rule (2 octets);
   rule operation code (3 bits) | DQR | number of packet filters (4 bits);
   packet filter list; QoS rule precedence; 0 | segregation | QFI (6 bits).
   Table 9.11.4.13.1: for the "delete existing QoS rule" operation (010) the QoS rule
   precedence value field and the QoS flow identifier value field shall not be
   included; for "create new QoS rule" they shall be included.  [z12] says whether
   octets z+1, z+2 are present. *)
Definition spec_rule_with (z12 : N -> bool) (r : QoSRule) : bytes :=
  let content :=
    (Operation r * 32 + b2n (DQR r) * 16 + N.of_nat (length (PacketFilterList r))) ::
    spec_filters (Operation r) (PacketFilterList r) ++
    (if z12 (Operation r) then [Precedence r; b2n (Segregation r) * 64 + QFI r] else [])
  in Identifier r :: spec_be16 (blen content) ++ content.

Definition ts_z12 (op : N) : bool := negb (op =? 2).
Definition spec_rule : QoSRule -> bytes := spec_rule_with ts_z12.
Definition spec_rules (q : list QoSRule) : bytes := concat (map spec_rule q).

(* the same layout with octets z+1, z+2 present for every operation *)
Definition spec_rule_z12_always : QoSRule -> bytes := spec_rule_with (fun _ => true).
Definition spec_rules_z12_always (q : list QoSRule) : bytes := concat (map spec_rule_z12_always q).

(* value ranges of the TS (documentation of the domain; the layouts above put the
   spare bits to 0 exactly on this domain) *)
Definition ts_comp_ok (c : comp) : bool :=
  match c with
  | FlowLabel l => l <? 1048576
  | CTagVID v | STagVID v => v <? 4096
  | CTagPCPDEI v | STagPCPDEI v => v <? 16
  | _ => true
  end.
Definition ts_filter_ok (pf : PacketFilter) : bool :=
  (1 <=? pf_Direction pf) && (pf_Direction pf <=? 3) && (pf_Identifier pf <? 16) &&
  forallb ts_comp_ok (pf_Components pf).
Definition ts_rule_ok (r : QoSRule) : bool :=
  (1 <=? Operation r) && (Operation r <=? 6) && (QFI r <? 64) &&
  (Nat.leb (length (PacketFilterList r)) 15) &&
  (if (Operation r =? 2) || (Operation r =? 6) then Nat.eqb (length (PacketFilterList r)) 0 else true) &&
  (if (Operation r =? 3) || (Operation r =? 5) then Nat.ltb 0 (length (PacketFilterList r)) else true) &&
  (if Operation r =? 5 then true else forallb ts_filter_ok (PacketFilterList r)).

(* ---------------------------------------------------------------- 9.11.4.12 *)

(* table 9.11.4.12.1, parameter identifier / length / contents:
     01H 5QI                 1 octet
     02H GFBR uplink         3 octets: unit, 2 octets value
     03H GFBR downlink       3
     04H MFBR uplink         3
     05H MFBR downlink       3
     06H averaging window    2 octets
     07H EPS bearer identity 1 octet (EBI in bits 8 to 5; the Go field holds the whole octet) *)
Definition spec_param (p : param) : bytes :=
  match p with
  | P5QI v => [1; 1; v]
  | GFBRUplink u v => 2 :: 3 :: u :: spec_be16 v
  | GFBRDownlink u v => 3 :: 3 :: u :: spec_be16 v
  | MFBRUplink u v => 4 :: 3 :: u :: spec_be16 v
  | MFBRDownlink u v => 5 :: 3 :: u :: spec_be16 v
  | AveragingWindow v => 6 :: 2 :: spec_be16 v
  | EBI v => [7; 1; v]
  end.

(* figure 9.11.4.12.2: 0 0 | QFI; operation code (3 bits) | 0 0 0 0 0;
   0 | E | number of parameters (6 bits); parameters list.
   E = 1 "parameters list is included" exactly when there are parameters (the Go
   value has no E field; for the modify operation E = 1 reads "replacement of all
   previously provided parameters"). *)
Definition spec_desc (d : QoSFlowDesc) : bytes :=
  let n := N.of_nat (length (d_Parameters d)) in
  d_QFI d :: d_OperationCode d * 32 :: ((if n =? 0 then 0 else 64) + n) ::
  concat (map spec_param (d_Parameters d)).

Definition spec_descs (q : list QoSFlowDesc) : bytes := concat (map spec_desc q).

Definition ts_desc_ok (d : QoSFlowDesc) : bool :=
  (d_QFI d <? 64) && (1 <=? d_OperationCode d) && (d_OperationCode d <=? 3) &&
  Nat.leb (length (d_Parameters d)) 63.

(* ---------------------------------------------------------------- well-formed values *)
(* [wf_*_code]: exactly what the library needs for the round trip (field values
   within their Go types, counts and lengths within their wire fields, slices of
   the fixed lengths the parser insists on).  [wf_rules] / [wf_descs]: the
   property's domain (operations 1-6 / 1-3, QFI < 64), a subset. *)

Definition wf_comp (c : comp) : bool :=
  match c with
  | MatchAll => true
  | IPv4RemoteAddress a m | IPv4LocalAddress a m => Nat.eqb (length a) 4 && Nat.eqb (length m) 4
  | ProtocolIdentifier v => v <? 256
  | SingleLocalPort v | SingleRemotePort v => v <? 65536
  | LocalPortRange lo hi | RemotePortRange lo hi => (lo <? 65536) && (hi <? 65536)
  | SecurityParameterIndex i => i <? 4294967296
  | ServiceClass c m => (c <? 256) && (m <? 256)
  | FlowLabel l => l <? 1048576
  | DestinationMACAddress m | SourceMACAddress m => Nat.eqb (length m) 6
  | CTagVID v | STagVID v | EtherType v => v <? 65536
  | CTagPCPDEI v | STagPCPDEI v => v <? 256
  end.

(* octets of the contents of a packet filter *)
Fixpoint comps_size (cs : list comp) : nat :=
  match cs with [] => 0 | c :: t => S (comp_Length c) + comps_size t end%nat.

Definition wf_filter (pf : PacketFilter) : bool :=
  (pf_Identifier pf <? 16) && (pf_Direction pf <? 16) &&
  forallb wf_comp (pf_Components pf) && Nat.leb (comps_size (pf_Components pf)) 255.

(* in a "delete packet filters" rule a filter is only an identifier *)
Definition wf_filter_del (pf : PacketFilter) : bool :=
  (pf_Identifier pf <? 16) && (pf_Direction pf =? 0) &&
  match pf_Components pf with [] => true | _ => false end.

Definition wf_rule_code (r : QoSRule) : bool :=
  (Identifier r <? 256) && (Operation r <? 8) && Nat.leb (length (PacketFilterList r)) 15 &&
  (Precedence r <? 256) && (QFI r <? 64) &&
  (if Operation r =? 5 then forallb wf_filter_del (PacketFilterList r)
   else forallb wf_filter (PacketFilterList r)).

Definition wf_rule (r : QoSRule) : bool :=
  wf_rule_code r && (1 <=? Operation r) && (Operation r <=? 6).

Definition wf_rules_code (q : list QoSRule) : bool := forallb wf_rule_code q.
Definition wf_rules (q : list QoSRule) : bool := forallb wf_rule q.

Definition wf_param (p : param) : bool :=
  match p with
  | P5QI v | EBI v => v <? 256
  | GFBRUplink u v | GFBRDownlink u v | MFBRUplink u v | MFBRDownlink u v => (u <? 256) && (v <? 65536)
  | AveragingWindow v => v <? 65536
  end.

Definition wf_desc_code (d : QoSFlowDesc) : bool :=
  (d_QFI d <? 256) && (d_OperationCode d <? 8) && Nat.leb (length (d_Parameters d)) 63 &&
  forallb wf_param (d_Parameters d).

Definition wf_desc (d : QoSFlowDesc) : bool :=
  wf_desc_code d && (d_QFI d <? 64) && (1 <=? d_OperationCode d) && (d_OperationCode d <=? 3).

Definition wf_descs_code (q : list QoSFlowDesc) : bool := forallb wf_desc_code q.
Definition wf_descs (q : list QoSFlowDesc) : bool := forallb wf_desc q.

(* what [ts_rule_ok] leaves open: the Go representation of the values *)
Definition go_filter_ok (op : N) (pf : PacketFilter) : bool :=
  if op =? 5 then (pf_Direction pf =? 0) && match pf_Components pf with [] => true | _ => false end
  else forallb wf_comp (pf_Components pf) && Nat.leb (comps_size (pf_Components pf)) 255.
Definition go_rule_ok (r : QoSRule) : bool :=
  (Identifier r <? 256) && (Precedence r <? 256) &&
  forallb (fun pf => pf_Identifier pf <? 16) (PacketFilterList r) &&
  forallb (go_filter_ok (Operation r)) (PacketFilterList r).
