(* C15: hand-written executable model of nasType/qos_rule.go and
   nasType/qos_flow_desc.go, function by function (same names; methods are
   prefixed with their receiver type).

   Conventions
   - bytes.Buffer = the unread suffix (a [bytes]); [Next n] returns min(n, Len)
     octets (the argument is an [int] converted from uint8 or a constant, never
     negative here, so the negative-count panic of bytes.Buffer.Next has no
     counterpart in these functions).
   - binary.Read of a 1- or 2-octet value from a bytes.Buffer: [read8]/[read16];
     on an empty buffer the error is io.EOF, on 1 octet for a 2-octet value it is
     io.ErrUnexpectedEOF.  The two are distinguished ([EOF] / [EOther]) because
     the callers compare with io.EOF.  Every caller returns at once on an error,
     so what binary.Read consumed before failing is never observable and is not
     modelled.
   - binary.Write / bytes.Buffer.Write into a fresh bytes.Buffer never fail; the
     written octets are appended.  Fixed-size values are written big-endian.
   - Go uint8 / uint16 conversions and shifts wrap: [u8], [u16], [shl8].
   - an interface holding nil is [None]; the code tests it before use.
   - Go nil and empty slices are both [[]].
   - net.IP, net.IPMask, net.HardwareAddr are []byte: modelled as [bytes]. *)
From NV Require Import Lib.Base.
Open Scope N_scope.

(* ------------------------------------------------------------------ *)
(* results of the parse side: Go errors that are compared with io.EOF  *)

Inductive errk := EOF | EOther.

Inductive res (A : Type) : Type :=
| ROk (a : A)
| RErr (e : errk)
| RPanic
| RFuel.
Arguments ROk {A} a.
Arguments RErr {A} e.
Arguments RPanic {A}.
Arguments RFuel {A}.

Definition rbind {A B} (r : res A) (f : A -> res B) : res B :=
  match r with
  | ROk a => f a
  | RErr e => RErr e
  | RPanic => RPanic
  | RFuel => RFuel
  end.
Notation "x <~ e ;; f" := (rbind e (fun x => f))
  (at level 61, e at next level, right associativity).
Notation "' p <~ e ;; f" := (rbind e (fun p => f))
  (at level 61, p pattern, e at next level, right associativity).

(* an error produced by errors.New / fmt.Errorf (never == io.EOF) *)
Definition lift {A} (o : outcome A) : res A :=
  match o with
  | Ok a => ROk a
  | Err => RErr EOther
  | Panic => RPanic
  | OutOfFuel => RFuel
  end.

(* what the caller of the exported method sees *)
Definition to_outcome {A} (r : res A) : outcome A :=
  match r with
  | ROk a => Ok a
  | RErr _ => Err
  | RPanic => Panic
  | RFuel => OutOfFuel
  end.

(* ------------------------------------------------------------------ *)
(* Go integer helpers                                                  *)

Definition u8 (x : N) : N := x mod 256.
Definition u16 (x : N) : N := x mod 65536.
Definition shl8 (x n : N) : N := (N.shiftl x n) mod 256.      (* uint8 << n *)
Definition bool2bit (b : bool) : N := if b then 1 else 0.
Definition bit2bool (n : N) : bool := negb (n =? 0).
Definition len (l : bytes) : N := N.of_nat (length l).

(* binary.Write of uint16 / binary.BigEndian.PutUint16, PutUint32 *)
Definition put16 (v : N) : bytes := [(v / 256) mod 256; v mod 256].
Definition put32 (v : N) : bytes :=
  [(v / 16777216) mod 256; (v / 65536) mod 256; (v / 256) mod 256; v mod 256].

(* binary.Read(buf, binary.BigEndian, &x) for 1- and 2-octet x *)
Definition read8 (buf : bytes) : res (N * bytes) :=
  match buf with
  | [] => RErr EOF
  | b :: r => ROk (b, r)
  end.
Definition read16 (buf : bytes) : res (N * bytes) :=
  match buf with
  | [] => RErr EOF
  | [_] => RErr EOther                      (* io.ErrUnexpectedEOF *)
  | b0 :: b1 :: r => ROk (b0 * 256 + b1, r)
  end.

(* bytes.Buffer.Next(n), n >= 0 *)
Definition Next (n : nat) (buf : bytes) : bytes * bytes := (firstn n buf, skipn n buf).

(* binary.BigEndian.Uint16 / Uint32 (index the slice: panic when short) *)
Definition BigEndian_Uint16 (b : bytes) : outcome N :=
  b1 <- idx b 1 ;; b0 <- idx b 0 ;; Ok (b0 * 256 + b1).
Definition BigEndian_Uint32 (b : bytes) : outcome N :=
  b3 <- idx b 3 ;; b0 <- idx b 0 ;; b1 <- idx b 1 ;; b2 <- idx b 2 ;;
  Ok (b0 * 16777216 + b1 * 65536 + b2 * 256 + b3).

(* ================================================================== *)
(* qos_rule.go                                                         *)

(* one constructor per Go type implementing PacketFilterComponent *)
Inductive comp :=
| MatchAll
| IPv4RemoteAddress (Address Mask : bytes)
| IPv4LocalAddress (Address Mask : bytes)
| ProtocolIdentifier (Value : N)
| SingleLocalPort (Value : N)
| LocalPortRange (LowLimit HighLimit : N)
| SingleRemotePort (Value : N)
| RemotePortRange (LowLimit HighLimit : N)
| SecurityParameterIndex (Index : N)
| ServiceClass (Class Mask : N)
| FlowLabel (Label : N)
| DestinationMACAddress (MAC : bytes)
| SourceMACAddress (MAC : bytes)
| CTagVID (VID : N)
| STagVID (VID : N)
| CTagPCPDEI (Value : N)
| STagPCPDEI (Value : N)
| EtherType (Value : N).

Record PacketFilter := mkPF {
  pf_Identifier : N;
  pf_Direction : N;
  pf_Components : list comp }.

Record QoSRule := mkRule {
  Identifier : N;
  Operation : N;
  DQR : bool;
  PacketFilterList : list PacketFilter;
  Precedence : N;
  Segregation : bool;
  QFI : N }.

Definition OperationCodeModifyExistingQoSRuleAndDeletePacketFilters : N := 5.

(* p.Type() *)
Definition comp_Type (c : comp) : N :=
  match c with
  | MatchAll => 1
  | IPv4RemoteAddress _ _ => 16
  | IPv4LocalAddress _ _ => 17
  | ProtocolIdentifier _ => 48
  | SingleLocalPort _ => 64
  | LocalPortRange _ _ => 65
  | SingleRemotePort _ => 80
  | RemotePortRange _ _ => 81
  | SecurityParameterIndex _ => 96
  | ServiceClass _ _ => 112
  | FlowLabel _ => 128
  | DestinationMACAddress _ => 129
  | SourceMACAddress _ => 130
  | CTagVID _ => 131
  | STagVID _ => 132
  | CTagPCPDEI _ => 133
  | STagPCPDEI _ => 134
  | EtherType _ => 135
  end.

(* p.Length() *)
Definition comp_Length (c : comp) : nat :=
  match c with
  | MatchAll => 0
  | IPv4RemoteAddress _ _ | IPv4LocalAddress _ _ => 8
  | ProtocolIdentifier _ => 1
  | SingleLocalPort _ | SingleRemotePort _ => 2
  | LocalPortRange _ _ | RemotePortRange _ _ => 4
  | SecurityParameterIndex _ => 4
  | ServiceClass _ _ => 2
  | FlowLabel _ => 3
  | DestinationMACAddress _ | SourceMACAddress _ => 6
  | CTagVID _ | STagVID _ => 2
  | CTagPCPDEI _ | STagPCPDEI _ => 1
  | EtherType _ => 2
  end%nat.

(* newPacketFilterComponent: the zero value of the Go type, nil for any other id.
   (0x21 / 0x23, the IPv6 address types of the TS, have constants but no case.) *)
Definition newPacketFilterComponent (id : N) : option comp :=
  match id with
  | 1 => Some MatchAll
  | 16 => Some (IPv4RemoteAddress [] [])
  | 17 => Some (IPv4LocalAddress [] [])
  | 48 => Some (ProtocolIdentifier 0)
  | 64 => Some (SingleLocalPort 0)
  | 65 => Some (LocalPortRange 0 0)
  | 80 => Some (SingleRemotePort 0)
  | 81 => Some (RemotePortRange 0 0)
  | 96 => Some (SecurityParameterIndex 0)
  | 112 => Some (ServiceClass 0 0)
  | 128 => Some (FlowLabel 0)
  | 129 => Some (DestinationMACAddress [])
  | 130 => Some (SourceMACAddress [])
  | 131 => Some (CTagVID 0)
  | 132 => Some (STagVID 0)
  | 133 => Some (CTagPCPDEI 0)
  | 134 => Some (STagPCPDEI 0)
  | 135 => Some (EtherType 0)
  | _ => None
  end.

(* ---- MarshalBinary of the component types ---- *)

Definition pfIPv4Address_MarshalBinary (Address Mask : bytes) : outcome bytes :=
  if negb (Nat.eqb (length Address) 4) then Err
  else if negb (Nat.eqb (length Mask) 4) then Err
  else Ok (Address ++ Mask).

Definition pfPort_MarshalBinary (Value : N) : outcome bytes := Ok (put16 Value).

Definition pfPortRange_MarshalBinary (LowLimit HighLimit : N) : outcome bytes :=
  Ok (put16 LowLimit ++ put16 HighLimit).

Definition PacketFilterSecurityParameterIndex_MarshalBinary (Index : N) : outcome bytes :=
  Ok (put32 Index).

Definition PacketFilterServiceClass_MarshalBinary (Class Mask : N) : outcome bytes :=
  Ok (put16 (N.lor (u16 (N.shiftl (u8 Class) 8)) (u8 Mask))).

Definition PacketFilterFlowLabel_MarshalBinary (Label : N) : outcome bytes :=
  let b := put32 Label in
  if 1048576 <=? Label then Err
  else slice_from b 1.

Definition pfMACAddress_MarshalBinary (MAC : bytes) : outcome bytes := Ok MAC.

Definition pfVID_MarshalBinary (VID : N) : outcome bytes := Ok (put16 VID).
Definition pfPCPDEI_MarshalBinary (Value : N) : outcome bytes := Ok [u8 Value].
Definition PacketFilterEtherType_MarshalBinary (v : N) : outcome bytes := Ok (put16 v).

Definition comp_MarshalBinary (c : comp) : outcome bytes :=
  match c with
  | MatchAll => Ok []
  | IPv4RemoteAddress a m | IPv4LocalAddress a m => pfIPv4Address_MarshalBinary a m
  | ProtocolIdentifier v => Ok [u8 v]
  | SingleLocalPort v | SingleRemotePort v => pfPort_MarshalBinary v
  | LocalPortRange lo hi | RemotePortRange lo hi => pfPortRange_MarshalBinary lo hi
  | SecurityParameterIndex i => PacketFilterSecurityParameterIndex_MarshalBinary i
  | ServiceClass c m => PacketFilterServiceClass_MarshalBinary c m
  | FlowLabel l => PacketFilterFlowLabel_MarshalBinary l
  | DestinationMACAddress m | SourceMACAddress m => pfMACAddress_MarshalBinary m
  | CTagVID v | STagVID v => pfVID_MarshalBinary v
  | CTagPCPDEI v | STagPCPDEI v => pfPCPDEI_MarshalBinary v
  | EtherType v => PacketFilterEtherType_MarshalBinary v
  end.

(* ---- UnmarshalBinary of the component types (every error is fmt.Errorf /
        errors.New, and the caller wraps it in fmt.Errorf once more) ---- *)

Definition len_ne (b : bytes) (n : nat) : bool := negb (Nat.eqb (length b) n).

Definition PacketFilterMatchAll_UnmarshalBinary (b : bytes) : outcome unit :=
  if len_ne b 0 then Err else Ok tt.

Definition pfIPv4Address_UnmarshalBinary (b : bytes) : outcome (bytes * bytes) :=
  if len_ne b 8 then Err
  else a <- slice b 0 4 ;; m <- slice b 4 8 ;; Ok (a, m).

Definition PacketFilterProtocolIdentifier_UnmarshalBinary (b : bytes) : outcome N :=
  if len_ne b 1 then Err else idx b 0.

Definition pfPort_UnmarshalBinary (b : bytes) : outcome N :=
  if len_ne b 2 then Err else BigEndian_Uint16 b.

Definition pfPortRange_UnmarshalBinary (b : bytes) : outcome (N * N) :=
  if len_ne b 4 then Err
  else to_outcome ('(lo, buf) <~ read16 b ;; '(hi, _) <~ read16 buf ;; ROk (lo, hi)).

Definition PacketFilterSecurityParameterIndex_UnmarshalBinary (b : bytes) : outcome N :=
  if len_ne b 4 then Err else BigEndian_Uint32 b.

Definition PacketFilterServiceClass_UnmarshalBinary (b : bytes) : outcome (N * N) :=
  if len_ne b 2 then Err
  else w <- BigEndian_Uint16 b ;;
       Ok (u8 (N.shiftr (N.land w 65280) 8), u8 (N.land w 255)).

Definition PacketFilterFlowLabel_UnmarshalBinary (b : bytes) : outcome N :=
  if len_ne b 3 then Err
  else b0 <- idx b 0 ;; b1 <- idx b 1 ;; b2 <- idx b 2 ;;
       Ok (N.lor (N.lor (N.shiftl b0 16) (N.shiftl b1 8)) b2).

Definition pfMACAddress_UnmarshalBinary (b : bytes) : outcome bytes :=
  if len_ne b 6 then Err else Ok b.

Definition pfVID_UnmarshalBinary (b : bytes) : outcome N :=
  if len_ne b 2 then Err else BigEndian_Uint16 b.

Definition pfPCPDEI_UnmarshalBinary (b : bytes) : outcome N :=
  if len_ne b 1 then Err else idx b 0.

Definition PacketFilterEtherType_UnmarshalBinary (b : bytes) : outcome N :=
  if len_ne b 2 then Err else BigEndian_Uint16 b.

(* component.UnmarshalBinary(b): dispatch on the dynamic type, returns the updated value *)
Definition comp_UnmarshalBinary (c : comp) (b : bytes) : outcome comp :=
  match c with
  | MatchAll => _ <- PacketFilterMatchAll_UnmarshalBinary b ;; Ok MatchAll
  | IPv4RemoteAddress _ _ => am <- pfIPv4Address_UnmarshalBinary b ;; Ok (IPv4RemoteAddress (fst am) (snd am))
  | IPv4LocalAddress _ _ => am <- pfIPv4Address_UnmarshalBinary b ;; Ok (IPv4LocalAddress (fst am) (snd am))
  | ProtocolIdentifier _ => v <- PacketFilterProtocolIdentifier_UnmarshalBinary b ;; Ok (ProtocolIdentifier v)
  | SingleLocalPort _ => v <- pfPort_UnmarshalBinary b ;; Ok (SingleLocalPort v)
  | SingleRemotePort _ => v <- pfPort_UnmarshalBinary b ;; Ok (SingleRemotePort v)
  | LocalPortRange _ _ => lh <- pfPortRange_UnmarshalBinary b ;; Ok (LocalPortRange (fst lh) (snd lh))
  | RemotePortRange _ _ => lh <- pfPortRange_UnmarshalBinary b ;; Ok (RemotePortRange (fst lh) (snd lh))
  | SecurityParameterIndex _ => v <- PacketFilterSecurityParameterIndex_UnmarshalBinary b ;; Ok (SecurityParameterIndex v)
  | ServiceClass _ _ => cm <- PacketFilterServiceClass_UnmarshalBinary b ;; Ok (ServiceClass (fst cm) (snd cm))
  | FlowLabel _ => v <- PacketFilterFlowLabel_UnmarshalBinary b ;; Ok (FlowLabel v)
  | DestinationMACAddress _ => m <- pfMACAddress_UnmarshalBinary b ;; Ok (DestinationMACAddress m)
  | SourceMACAddress _ => m <- pfMACAddress_UnmarshalBinary b ;; Ok (SourceMACAddress m)
  | CTagVID _ => v <- pfVID_UnmarshalBinary b ;; Ok (CTagVID v)
  | STagVID _ => v <- pfVID_UnmarshalBinary b ;; Ok (STagVID v)
  | CTagPCPDEI _ => v <- pfPCPDEI_UnmarshalBinary b ;; Ok (CTagPCPDEI v)
  | STagPCPDEI _ => v <- pfPCPDEI_UnmarshalBinary b ;; Ok (STagPCPDEI v)
  | EtherType _ => v <- PacketFilterEtherType_UnmarshalBinary b ;; Ok (EtherType v)
  end.

(* ---- PacketFilterComponentList ---- *)

(* for _, component := range *p { Write(Type); Write(component.MarshalBinary()) } *)
Fixpoint PacketFilterComponentList_MarshalBinary (p : list comp) : outcome bytes :=
  match p with
  | [] => Ok []
  | component :: t =>
      componentBytes <- comp_MarshalBinary component ;;
      rest <- PacketFilterComponentList_MarshalBinary t ;;
      Ok (comp_Type component :: componentBytes ++ rest)
  end.

(* the for { } loop of PacketFilterComponentList.UnmarshalBinary; [acc] is *p *)
Fixpoint PacketFilterComponentList_loop (fuel : nat) (buf : bytes) (acc : list comp)
  : res (list comp) :=
  match fuel with
  | O => RFuel
  | S fuel' =>
      match read8 buf with
      | RErr EOF => ROk acc                                  (* break *)
      | RErr e => RErr e
      | RPanic => RPanic
      | RFuel => RFuel
      | ROk (componentType, buf1) =>
          match newPacketFilterComponent componentType with
          | None => RErr EOther                              (* component == nil *)
          | Some component =>
              let '(componentBytes, buf2) := Next (comp_Length component) buf1 in
              component' <~ lift (comp_UnmarshalBinary component componentBytes) ;;
              PacketFilterComponentList_loop fuel' buf2 (acc ++ [component'])
          end
      end
  end.

Definition PacketFilterComponentList_UnmarshalBinary (b : bytes) : res (list comp) :=
  PacketFilterComponentList_loop (length b + 1) b [].

(* ---- packet filter lists ---- *)

Fixpoint buildPacketFilterList (pfList : list PacketFilter) : outcome bytes :=
  match pfList with
  | [] => Ok []
  | pf :: t =>
      let pfHeader := N.lor (shl8 (pf_Direction pf) 4) (u8 (pf_Identifier pf)) in
      pfBuf <- PacketFilterComponentList_MarshalBinary (pf_Components pf) ;;
      rest <- buildPacketFilterList t ;;
      Ok (pfHeader :: u8 (len pfBuf) :: pfBuf ++ rest)
  end.

Fixpoint buildPacketFilterDeleteList (pfList : list PacketFilter) : outcome bytes :=
  match pfList with
  | [] => Ok []
  | pf :: t => rest <- buildPacketFilterDeleteList t ;; Ok (u8 (pf_Identifier pf) :: rest)
  end.

(* for i := 0; i < n; i++ *)
Fixpoint parsePacketFilterList (n : nat) (buf : bytes) : res (list PacketFilter * bytes) :=
  match n with
  | O => ROk ([], buf)
  | S n' =>
      '(pfHeader, buf1) <~ read8 buf ;;
      '(pfLen, buf2) <~ read8 buf1 ;;
      let dir := N.shiftr (N.land pfHeader 240) 4 in
      let id := N.land pfHeader 15 in
      let '(cb, buf3) := Next (N.to_nat pfLen) buf2 in
      comps <~ PacketFilterComponentList_UnmarshalBinary cb ;;
      '(rest, buf4) <~ parsePacketFilterList n' buf3 ;;
      ROk (mkPF id dir comps :: rest, buf4)
  end.

Fixpoint parsePacketFilterDeleteList (n : nat) (buf : bytes) : res (list PacketFilter * bytes) :=
  match n with
  | O => ROk ([], buf)
  | S n' =>
      '(pfHeader, buf1) <~ read8 buf ;;
      '(rest, buf2) <~ parsePacketFilterDeleteList n' buf1 ;;
      ROk (mkPF (N.land pfHeader 15) 0 [] :: rest, buf2)
  end.

(* ---- QoSRules ---- *)

(* the body of the range loop of QoSRules.MarshalBinary: the octets of one rule *)
Definition QoSRule_bytes (rule : QoSRule) : outcome bytes :=
  let ruleHeader :=
    N.lor (N.lor (shl8 (u8 (Operation rule)) 5) (shl8 (bool2bit (DQR rule)) 4))
          (u8 (N.of_nat (length (PacketFilterList rule)))) in
  packetFilterBytes <-
    (if Operation rule =? OperationCodeModifyExistingQoSRuleAndDeletePacketFilters
     then buildPacketFilterDeleteList (PacketFilterList rule)
     else buildPacketFilterList (PacketFilterList rule)) ;;
  let ruleContent :=
    ruleHeader :: packetFilterBytes ++
    [u8 (Precedence rule); N.lor (shl8 (bool2bit (Segregation rule)) 6) (u8 (QFI rule))] in
  Ok (u8 (Identifier rule) :: put16 (u16 (len ruleContent)) ++ ruleContent).

Fixpoint QoSRules_MarshalBinary (q : list QoSRule) : outcome bytes :=
  match q with
  | [] => Ok []
  | rule :: t =>
      rb <- QoSRule_bytes rule ;;
      rest <- QoSRules_MarshalBinary t ;;
      Ok (rb ++ rest)
  end.

(* the for { } loop of QoSRules.UnmarshalBinary; [acc] is *q.  ruleLen is read and never used. *)
Fixpoint QoSRules_loop (fuel : nat) (buf : bytes) (acc : list QoSRule) : res (list QoSRule) :=
  match fuel with
  | O => RFuel
  | S fuel' =>
      match read8 buf with
      | RErr EOF => ROk acc                                  (* break *)
      | RErr e => RErr e
      | RPanic => RPanic
      | RFuel => RFuel
      | ROk (ident, buf1) =>
          '(ruleLen, buf2) <~ read16 buf1 ;;
          '(ruleHeader, buf3) <~ read8 buf2 ;;
          let op := N.shiftr ruleHeader 5 in
          let dqr := bit2bool (N.land ruleHeader 16) in
          let pfLen := N.to_nat (N.land ruleHeader 15) in
          '(pfList, buf4) <~
            (if op =? OperationCodeModifyExistingQoSRuleAndDeletePacketFilters
             then parsePacketFilterDeleteList pfLen buf3
             else parsePacketFilterList pfLen buf3) ;;
          '(prec, buf5) <~ read8 buf4 ;;
          '(QFIByte, buf6) <~ read8 buf5 ;;
          let rule := mkRule ident op dqr pfList prec
                             (bit2bool (N.shiftr QFIByte 6)) (N.land QFIByte 63) in
          QoSRules_loop fuel' buf6 (acc ++ [rule])
      end
  end.

Definition QoSRules_UnmarshalBinary (b : bytes) : outcome (list QoSRule) :=
  to_outcome (QoSRules_loop (length b + 1) b []).

(* ================================================================== *)
(* qos_flow_desc.go                                                    *)

(* one constructor per Go type implementing QoSFlowParameter *)
Inductive param :=
| P5QI (FiveQI : N)
| GFBRUplink (Unit Value : N)
| GFBRDownlink (Unit Value : N)
| MFBRUplink (Unit Value : N)
| MFBRDownlink (Unit Value : N)
| AveragingWindow (AverageWindow : N)
| EBI (v : N).

Record QoSFlowDesc := mkDesc {
  d_QFI : N;
  d_OperationCode : N;
  d_Parameters : list param }.

Definition param_Identifier (p : param) : N :=
  match p with
  | P5QI _ => 1
  | GFBRUplink _ _ => 2
  | GFBRDownlink _ _ => 3
  | MFBRUplink _ _ => 4
  | MFBRDownlink _ _ => 5
  | AveragingWindow _ => 6
  | EBI _ => 7
  end.

Definition newQoSFlowParameters (id : N) : option param :=
  match id with
  | 1 => Some (P5QI 0)
  | 2 => Some (GFBRUplink 0 0)
  | 3 => Some (GFBRDownlink 0 0)
  | 4 => Some (MFBRUplink 0 0)
  | 5 => Some (MFBRDownlink 0 0)
  | 6 => Some (AveragingWindow 0)
  | 7 => Some (EBI 0)
  | _ => None
  end.

Definition qoSFlowBitRate_MarshalBinary (Unit Value : N) : outcome bytes :=
  Ok (u8 Unit :: put16 Value).

Definition param_MarshalBinary (p : param) : outcome bytes :=
  match p with
  | P5QI v => Ok [u8 v]
  | GFBRUplink u v | GFBRDownlink u v | MFBRUplink u v | MFBRDownlink u v =>
      qoSFlowBitRate_MarshalBinary u v
  | AveragingWindow v => Ok (put16 v)
  | EBI v => Ok [u8 v]
  end.

(* these return the error of binary.Read unchanged (io.EOF on an empty slice) *)
Definition qoSFlowBitRate_UnmarshalBinary (b : bytes) : res (N * N) :=
  '(unit, buf) <~ read8 b ;; '(value, _) <~ read16 buf ;; ROk (unit, value).

Definition param_UnmarshalBinary (p : param) (b : bytes) : res param :=
  match p with
  | P5QI _ => '(v, _) <~ read8 b ;; ROk (P5QI v)
  | GFBRUplink _ _ => uv <~ qoSFlowBitRate_UnmarshalBinary b ;; ROk (GFBRUplink (fst uv) (snd uv))
  | GFBRDownlink _ _ => uv <~ qoSFlowBitRate_UnmarshalBinary b ;; ROk (GFBRDownlink (fst uv) (snd uv))
  | MFBRUplink _ _ => uv <~ qoSFlowBitRate_UnmarshalBinary b ;; ROk (MFBRUplink (fst uv) (snd uv))
  | MFBRDownlink _ _ => uv <~ qoSFlowBitRate_UnmarshalBinary b ;; ROk (MFBRDownlink (fst uv) (snd uv))
  | AveragingWindow _ => '(v, _) <~ read16 b ;; ROk (AveragingWindow v)
  | EBI _ => '(v, _) <~ read8 b ;; ROk (EBI v)
  end.

Fixpoint QoSFlowParameterList_MarshalBinary (l : list param) : outcome bytes :=
  match l with
  | [] => Ok []
  | parameter :: t =>
      parameterBuf <- param_MarshalBinary parameter ;;
      rest <- QoSFlowParameterList_MarshalBinary t ;;
      Ok (param_Identifier parameter :: u8 (len parameterBuf) :: parameterBuf ++ rest)
  end.

(* for i := 0; i < int(number); i++ *)
Fixpoint parseQoSFlowParameterList (number : nat) (buf : bytes) : res (list param * bytes) :=
  match number with
  | O => ROk ([], buf)
  | S n' =>
      '(parameterID, buf1) <~ read8 buf ;;
      '(parameterLen, buf2) <~ read8 buf1 ;;
      match newQoSFlowParameters parameterID with
      | None => RErr EOther                                  (* parameter == nil *)
      | Some parameter =>
          let '(pb, buf3) := Next (N.to_nat parameterLen) buf2 in
          parameter' <~ param_UnmarshalBinary parameter pb ;;
          '(rest, buf4) <~ parseQoSFlowParameterList n' buf3 ;;
          ROk (parameter' :: rest, buf4)
      end
  end.

Definition QoSFlowDesc_MarshalBinary (q : QoSFlowDesc) : outcome bytes :=
  let parameterNum := u8 (N.of_nat (length (d_Parameters q))) in
  let E := if parameterNum =? 0 then 0 else 1 in
  let hdr := [u8 (d_QFI q); shl8 (u8 (d_OperationCode q)) 5; N.lor (shl8 E 6) parameterNum] in
  if E =? 1 then
    paraListBuf <- QoSFlowParameterList_MarshalBinary (d_Parameters q) ;;
    Ok (hdr ++ paraListBuf)
  else Ok hdr.

Definition parseQoSFlowDesc (buf : bytes) : res (QoSFlowDesc * bytes) :=
  '(qfi, buf1) <~ read8 buf ;;
  '(OperationCodeOctet, buf2) <~ read8 buf1 ;;
  let op := N.shiftr OperationCodeOctet 5 in
  '(ParameterNumOctet, buf3) <~ read8 buf2 ;;
  if negb (ParameterNumOctet =? 0) then
    '(paraList, buf4) <~ parseQoSFlowParameterList (N.to_nat (N.land ParameterNumOctet 63)) buf3 ;;
    ROk (mkDesc qfi op paraList, buf4)
  else ROk (mkDesc qfi op [], buf3).

Fixpoint QoSFlowDescs_MarshalBinary (q : list QoSFlowDesc) : outcome bytes :=
  match q with
  | [] => Ok []
  | desc :: t =>
      descBuf <- QoSFlowDesc_MarshalBinary desc ;;
      rest <- QoSFlowDescs_MarshalBinary t ;;
      Ok (descBuf ++ rest)
  end.

(* the for { } loop of QoSFlowDescs.UnmarshalBinary: ANY io.EOF coming out of
   parseQoSFlowDesc (also from the middle of a description) ends the loop with
   a nil error *)
Fixpoint QoSFlowDescs_loop (fuel : nat) (buf : bytes) (acc : list QoSFlowDesc)
  : res (list QoSFlowDesc) :=
  match fuel with
  | O => RFuel
  | S fuel' =>
      match parseQoSFlowDesc buf with
      | RErr EOF => ROk acc
      | RErr e => RErr e
      | RPanic => RPanic
      | RFuel => RFuel
      | ROk (desc, buf1) => QoSFlowDescs_loop fuel' buf1 (acc ++ [desc])
      end
  end.

Definition QoSFlowDescs_UnmarshalBinary (b : bytes) : outcome (list QoSFlowDesc) :=
  to_outcome (QoSFlowDescs_loop (length b + 1) b []).
