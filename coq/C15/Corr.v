(* C15 correspondence: calls observed on the Go implementation, replayed on the model.
   Observables: result class and, for nil error, the returned value (rule list /
   description list / octets); Go nil and empty slices are identified. *)
From NV Require Import Lib.Base C15.Model.
Open Scope N_scope.

Inductive obs (A : Type) : Type :=
| OOk (v : A)
| OErr
| OPanic
| OHang.
Arguments OOk {A} v.
Arguments OErr {A}.
Arguments OPanic {A}.
Arguments OHang {A}.

Definition comp_eqb (a b : comp) : bool :=
  match a, b with
  | MatchAll, MatchAll => true
  | IPv4RemoteAddress a1 m1, IPv4RemoteAddress a2 m2
  | IPv4LocalAddress a1 m1, IPv4LocalAddress a2 m2 => eqb_bytes a1 a2 && eqb_bytes m1 m2
  | ProtocolIdentifier x, ProtocolIdentifier y
  | SingleLocalPort x, SingleLocalPort y
  | SingleRemotePort x, SingleRemotePort y
  | SecurityParameterIndex x, SecurityParameterIndex y
  | FlowLabel x, FlowLabel y
  | CTagVID x, CTagVID y
  | STagVID x, STagVID y
  | CTagPCPDEI x, CTagPCPDEI y
  | STagPCPDEI x, STagPCPDEI y
  | EtherType x, EtherType y => x =? y
  | LocalPortRange l1 h1, LocalPortRange l2 h2
  | RemotePortRange l1 h1, RemotePortRange l2 h2
  | ServiceClass l1 h1, ServiceClass l2 h2 => (l1 =? l2) && (h1 =? h2)
  | DestinationMACAddress x, DestinationMACAddress y
  | SourceMACAddress x, SourceMACAddress y => eqb_bytes x y
  | _, _ => false
  end.

Definition pf_eqb (a b : PacketFilter) : bool :=
  (pf_Identifier a =? pf_Identifier b) && (pf_Direction a =? pf_Direction b) &&
  eqb_list comp_eqb (pf_Components a) (pf_Components b).

Definition rule_eqb (a b : QoSRule) : bool :=
  (Identifier a =? Identifier b) && (Operation a =? Operation b) &&
  Bool.eqb (DQR a) (DQR b) &&
  eqb_list pf_eqb (PacketFilterList a) (PacketFilterList b) &&
  (Precedence a =? Precedence b) && Bool.eqb (Segregation a) (Segregation b) &&
  (QFI a =? QFI b).

Definition param_eqb (a b : param) : bool :=
  match a, b with
  | P5QI x, P5QI y
  | AveragingWindow x, AveragingWindow y
  | EBI x, EBI y => x =? y
  | GFBRUplink u1 v1, GFBRUplink u2 v2
  | GFBRDownlink u1 v1, GFBRDownlink u2 v2
  | MFBRUplink u1 v1, MFBRUplink u2 v2
  | MFBRDownlink u1 v1, MFBRDownlink u2 v2 => (u1 =? u2) && (v1 =? v2)
  | _, _ => false
  end.

Definition desc_eqb (a b : QoSFlowDesc) : bool :=
  (d_QFI a =? d_QFI b) && (d_OperationCode a =? d_OperationCode b) &&
  eqb_list param_eqb (d_Parameters a) (d_Parameters b).

(* the boolean equalities decide Leibniz equality (so [case_ok] compares what it says) *)
Lemma eqb_list_spec {A} (e : A -> A -> bool) :
  (forall x y, e x y = true <-> x = y) ->
  forall a b, eqb_list e a b = true <-> a = b.
Proof.
  intros He. induction a as [|x a IH]; intros [|y b]; simpl; split; intro H;
    try congruence; auto.
  - apply andb_true_iff in H as [H1 H2]. apply He in H1. apply IH in H2. congruence.
  - inversion H; subst. apply andb_true_iff. split; [apply He | apply IH]; reflexivity.
Qed.

Lemma comp_eqb_spec a b : comp_eqb a b = true <-> a = b.
Proof.
  destruct a, b; simpl; split; intro H; try congruence;
    rewrite ?andb_true_iff, ?N.eqb_eq, ?eqb_bytes_spec in *;
    try (destruct H; congruence); try (f_equal; congruence);
    try (inversion H; subst; auto).
Qed.

Lemma pf_eqb_spec a b : pf_eqb a b = true <-> a = b.
Proof.
  destruct a, b; unfold pf_eqb; simpl.
  rewrite !andb_true_iff, !N.eqb_eq, (eqb_list_spec comp_eqb comp_eqb_spec).
  split; [intros [[? ?] ?]; congruence | intro H; inversion H; auto].
Qed.

Lemma rule_eqb_spec a b : rule_eqb a b = true <-> a = b.
Proof.
  destruct a, b; unfold rule_eqb; simpl.
  rewrite !andb_true_iff, !N.eqb_eq, !Bool.eqb_true_iff, (eqb_list_spec pf_eqb pf_eqb_spec).
  split; [intros [[[[[[? ?] ?] ?] ?] ?] ?]; congruence | intro H; inversion H; repeat split; auto].
Qed.

Lemma param_eqb_spec a b : param_eqb a b = true <-> a = b.
Proof.
  destruct a, b; simpl; split; intro H; try congruence;
    rewrite ?andb_true_iff, ?N.eqb_eq in *;
    try (destruct H; congruence); try (f_equal; congruence);
    try (inversion H; subst; auto).
Qed.

Lemma desc_eqb_spec a b : desc_eqb a b = true <-> a = b.
Proof.
  destruct a, b; unfold desc_eqb; simpl.
  rewrite !andb_true_iff, !N.eqb_eq, (eqb_list_spec param_eqb param_eqb_spec).
  split; [intros [[? ?] ?]; congruence | intro H; inversion H; auto].
Qed.

Definition obs_matches {A} (eqb : A -> A -> bool) (o : obs A) (m : outcome A) : bool :=
  match o, m with
  | OOk x, Ok y => eqb x y
  | OErr, Err => true
  | OPanic, Panic => true
  | OHang, OutOfFuel => true
  | _, _ => false
  end.

Inductive case :=
| CRulesU (id : N) (b : bytes) (o : obs (list QoSRule))          (* QoSRules.UnmarshalBinary *)
| CRulesM (id : N) (q : list QoSRule) (o : obs bytes)            (* QoSRules.MarshalBinary *)
| CDescsU (id : N) (b : bytes) (o : obs (list QoSFlowDesc))      (* QoSFlowDescs.UnmarshalBinary *)
| CDescsM (id : N) (q : list QoSFlowDesc) (o : obs bytes).       (* QoSFlowDescs.MarshalBinary *)

Definition case_id (c : case) : N :=
  match c with
  | CRulesU id _ _ | CRulesM id _ _ | CDescsU id _ _ | CDescsM id _ _ => id
  end.

Definition case_ok (c : case) : bool :=
  match c with
  | CRulesU _ b o => obs_matches (eqb_list rule_eqb) o (QoSRules_UnmarshalBinary b)
  | CRulesM _ q o => obs_matches eqb_bytes o (QoSRules_MarshalBinary q)
  | CDescsU _ b o => obs_matches (eqb_list desc_eqb) o (QoSFlowDescs_UnmarshalBinary b)
  | CDescsM _ q o => obs_matches eqb_bytes o (QoSFlowDescs_MarshalBinary q)
  end.

Definition mismatches (cs : list case) : list N :=
  map case_id (filter (fun c => negb (case_ok c)) cs).
