(* C15: round trip (serialise then parse) for components, filters, rules,
   parameters, descriptions. *)
From NV Require Import Lib.Base Lib.Bits C15.Model C15.Spec C15.Proofs_bits C15.Proofs_total.
From Coq Require Import ZifyN ZifyNat ZifyBool.
Open Scope N_scope.
Ltac Zify.zify_post_hook ::= Z.div_mod_to_equations.

Arguments N.land : simpl never.
Arguments N.lor : simpl never.
Arguments N.shiftl : simpl never.
Arguments N.shiftr : simpl never.
Arguments N.modulo : simpl never.
Arguments N.div : simpl never.
Arguments N.pow : simpl never.
Arguments N.add : simpl never.
Arguments N.mul : simpl never.
Arguments N.sub : simpl never.
Arguments N.to_nat : simpl never.
Arguments N.of_nat : simpl never.

(* ---------------------------------------------------------------- generic *)

Lemma Next_app (a b : bytes) n : n = length a -> Next n (a ++ b) = (a, b).
Proof.
  intros ->. unfold Next. f_equal.
  - rewrite firstn_app, Nat.sub_diag, firstn_all. cbn. apply app_nil_r.
  - rewrite skipn_app, Nat.sub_diag, skipn_all. reflexivity.
Qed.

Lemma u8_small x : x < 256 -> u8 x = x.
Proof. intro. apply N.mod_small. assumption. Qed.

Lemma be16_join v : v < 65536 -> (v / 256) mod 256 * 256 + v mod 256 = v.
Proof. intros. lia. Qed.

Lemma be32_join v : v < 4294967296 ->
  (v / 16777216) mod 256 * 16777216 + (v / 65536) mod 256 * 65536 + (v / 256) mod 256 * 256 + v mod 256 = v.
Proof. intros. lia. Qed.

Ltac btrue :=
  repeat match goal with
  | H : (_ && _)%bool = true |- _ => apply andb_true_iff in H; destruct H
  | H : (_ <? _) = true |- _ => apply N.ltb_lt in H
  | H : (_ <=? _) = true |- _ => apply N.leb_le in H
  | H : (_ =? _) = true |- _ => apply N.eqb_eq in H
  | H : Nat.eqb _ _ = true |- _ => apply Nat.eqb_eq in H
  | H : Nat.leb _ _ = true |- _ => apply Nat.leb_le in H
  end.

(* ---------------------------------------------------------------- components *)

(* the factory returns a value of the same Go type, hence of the same length *)
Lemma newPacketFilterComponent_Type c :
  exists c0, newPacketFilterComponent (comp_Type c) = Some c0 /\
             comp_Length c0 = comp_Length c /\
             forall b, comp_UnmarshalBinary c0 b = comp_UnmarshalBinary c b.
Proof. destruct c; eexists; (split; [reflexivity|split; reflexivity]). Qed.

Lemma list4 (l : bytes) : length l = 4%nat -> exists a b c d, l = [a; b; c; d].
Proof. destruct l as [|a [|b [|c [|d [|]]]]]; try discriminate. eauto. Qed.
Lemma list6 (l : bytes) : length l = 6%nat -> exists a b c d e f, l = [a; b; c; d; e; f].
Proof. destruct l as [|a [|b [|c [|d [|e [|f [|]]]]]]]; try discriminate. eauto 7. Qed.

(* per-constructor round trip, for each of the 18 component types *)
Lemma comp_roundtrip c : wf_comp c = true ->
  exists bs, comp_MarshalBinary c = Ok bs /\ length bs = comp_Length c /\
             comp_UnmarshalBinary c bs = Ok c.
Proof.
  destruct c; cbn [wf_comp]; intro H; btrue.
  - (* match-all *) eexists; repeat split.
  - destruct (list4 _ H) as (a0&a1&a2&a3&->), (list4 _ H0) as (m0&m1&m2&m3&->). eexists; repeat split.
  - destruct (list4 _ H) as (a0&a1&a2&a3&->), (list4 _ H0) as (m0&m1&m2&m3&->). eexists; repeat split.
  - eexists; repeat split. cbn. rewrite u8_small; auto.
  - eexists; repeat split. cbn. rewrite be16_join; auto.
  - eexists; repeat split. cbn. rewrite !be16_join; auto.
  - eexists; repeat split. cbn. rewrite be16_join; auto.
  - eexists; repeat split. cbn. rewrite !be16_join; auto.
  - eexists; repeat split. cbn. rewrite be32_join; auto.
  - eexists; repeat split. cbn.
    rewrite serviceClass_word by assumption.
    replace (((Class * 256 + Mask) / 256) mod 256 * 256 + (Class * 256 + Mask) mod 256)
      with (Class * 256 + Mask) by lia.
    rewrite serviceClass_class, serviceClass_mask by assumption. reflexivity.
  - exists [(Label / 65536) mod 256; (Label / 256) mod 256; Label mod 256].
    cbn. unfold PacketFilterFlowLabel_MarshalBinary.
    replace (1048576 <=? Label) with false by (symmetry; apply N.leb_gt; assumption).
    repeat split. cbn. rewrite flowLabel_join by assumption. reflexivity.
  - destruct (list6 _ H) as (a0&a1&a2&a3&a4&a5&->). eexists; repeat split.
  - destruct (list6 _ H) as (a0&a1&a2&a3&a4&a5&->). eexists; repeat split.
  - eexists; repeat split. cbn. rewrite be16_join; auto.
  - eexists; repeat split. cbn. rewrite be16_join; auto.
  - eexists; repeat split. cbn. rewrite u8_small; auto.
  - eexists; repeat split. cbn. rewrite u8_small; auto.
  - eexists; repeat split. cbn. rewrite be16_join; auto.
Qed.

(* ---------------------------------------------------------------- component lists *)

Lemma forallb_cons {A} (f : A -> bool) x l : forallb f (x :: l) = true -> f x = true /\ forallb f l = true.
Proof. cbn. intro H. apply andb_true_iff in H. exact H. Qed.

Lemma comps_roundtrip cs : forallb wf_comp cs = true ->
  exists bs, PacketFilterComponentList_MarshalBinary cs = Ok bs /\
             length bs = comps_size cs /\
             forall fuel acc, (length bs < fuel)%nat ->
               PacketFilterComponentList_loop fuel bs acc = ROk (acc ++ cs).
Proof.
  induction cs as [|c t IH]; intro Hwf.
  - exists []. repeat split. intros [|f] acc Hf; [cbn in Hf; lia|]. cbn. rewrite app_nil_r. reflexivity.
  - apply forallb_cons in Hwf as [Hc Ht].
    destruct (IH Ht) as (tb & Htm & Htl & Htp).
    destruct (comp_roundtrip c Hc) as (cb & Hcm & Hcl & Hcu).
    destruct (newPacketFilterComponent_Type c) as (c0 & Hnew & Hlen0 & Hun0).
    exists (comp_Type c :: cb ++ tb).
    cbn [PacketFilterComponentList_MarshalBinary]. rewrite Hcm, Htm. cbn [obind].
    split; [reflexivity|]. split.
    { cbn [length comps_size]. rewrite app_length. lia. }
    intros [|f] acc Hf; [cbn in Hf; lia|].
    cbn [PacketFilterComponentList_loop read8]. rewrite Hnew.
    rewrite (Next_app cb tb) by lia.
    rewrite Hun0, Hcu. cbn [lift rbind].
    rewrite Htp.
    + rewrite <- app_assoc. reflexivity.
    + cbn [length] in Hf. rewrite app_length in Hf. lia.
Qed.

Lemma comps_unmarshal_marshal cs bs : forallb wf_comp cs = true ->
  PacketFilterComponentList_MarshalBinary cs = Ok bs ->
  PacketFilterComponentList_UnmarshalBinary bs = ROk cs.
Proof.
  intros Hwf Hm. destruct (comps_roundtrip cs Hwf) as (bs' & Hm' & _ & Hp).
  rewrite Hm in Hm'. inversion Hm'; subst bs'.
  unfold PacketFilterComponentList_UnmarshalBinary. rewrite Hp by lia. reflexivity.
Qed.

(* ---------------------------------------------------------------- packet filter lists *)

Lemma filters_roundtrip fs : forallb wf_filter fs = true ->
  exists bs, buildPacketFilterList fs = Ok bs /\
             forall rest, parsePacketFilterList (length fs) (bs ++ rest) = ROk (fs, rest).
Proof.
  induction fs as [|pf t IH]; intro Hwf.
  - exists []. split; reflexivity.
  - apply forallb_cons in Hwf as [Hpf Ht].
    destruct (IH Ht) as (tb & Htm & Htp).
    unfold wf_filter in Hpf. btrue.
    destruct (comps_roundtrip _ H1) as (cb & Hcm & Hcl & Hcp).
    exists (N.lor (shl8 (pf_Direction pf) 4) (u8 (pf_Identifier pf)) :: u8 (len cb) :: cb ++ tb).
    cbn [buildPacketFilterList]. rewrite Hcm, Htm. cbn [obind]. split; [reflexivity|].
    intro rest. cbn [length parsePacketFilterList app read8 rbind].
    rewrite pfHeader_val by assumption.
    assert (Hlen : N.to_nat (u8 (len cb)) = length cb).
    { unfold len. rewrite u8_small by lia. lia. }
    rewrite <- app_assoc. rewrite (Next_app cb (tb ++ rest)) by exact Hlen.
    unfold PacketFilterComponentList_UnmarshalBinary. rewrite Hcp by lia. cbn [app rbind].
    rewrite Htp. cbn [rbind].
    rewrite pfHeader_dir, pfHeader_id by assumption.
    destruct pf; reflexivity.
Qed.

Lemma filters_del_roundtrip fs : forallb wf_filter_del fs = true ->
  exists bs, buildPacketFilterDeleteList fs = Ok bs /\
             forall rest, parsePacketFilterDeleteList (length fs) (bs ++ rest) = ROk (fs, rest).
Proof.
  induction fs as [|pf t IH]; intro Hwf.
  - exists []. split; reflexivity.
  - apply forallb_cons in Hwf as [Hpf Ht].
    destruct (IH Ht) as (tb & Htm & Htp).
    unfold wf_filter_del in Hpf. btrue.
    exists (u8 (pf_Identifier pf) :: tb).
    cbn [buildPacketFilterDeleteList]. rewrite Htm. cbn [obind]. split; [reflexivity|].
    intro rest. cbn [length parsePacketFilterDeleteList app read8 rbind].
    rewrite Htp. cbn [rbind].
    rewrite u8_small by lia. rewrite land_15. rewrite N.mod_small by assumption.
    destruct pf as [i d cs]; cbn in *. subst d. destruct cs; [reflexivity|discriminate].
Qed.

(* ---------------------------------------------------------------- rules *)

(* one iteration of the parser loop consumes exactly the octets of one rule *)
Lemma rule_step r : wf_rule_code r = true ->
  exists rb, QoSRule_bytes r = Ok rb /\ (0 < length rb)%nat /\
    forall f rest acc, QoSRules_loop (S f) (rb ++ rest) acc = QoSRules_loop f rest (acc ++ [r]).
Proof.
  unfold wf_rule_code. intro H. btrue.
  assert (Hn : N.of_nat (length (PacketFilterList r)) < 16) by lia.
  assert (Hpf : exists pfb,
    (if Operation r =? OperationCodeModifyExistingQoSRuleAndDeletePacketFilters
     then buildPacketFilterDeleteList (PacketFilterList r)
     else buildPacketFilterList (PacketFilterList r)) = Ok pfb /\
    forall rest,
    (if Operation r =? OperationCodeModifyExistingQoSRuleAndDeletePacketFilters
     then parsePacketFilterDeleteList (length (PacketFilterList r)) (pfb ++ rest)
     else parsePacketFilterList (length (PacketFilterList r)) (pfb ++ rest)) = ROk (PacketFilterList r, rest)).
  { unfold OperationCodeModifyExistingQoSRuleAndDeletePacketFilters.
    destruct (Operation r =? 5); [apply filters_del_roundtrip | apply filters_roundtrip]; assumption. }
  destruct Hpf as (pfb & Hb & Hp).
  unfold QoSRule_bytes. rewrite Hb. cbn [obind].
  eexists. split; [reflexivity|]. split; [cbn; lia|].
  intros f rest acc.
  rewrite ruleHeader_val, qfiByte_val by assumption.
  rewrite !u8_small by assumption.
  unfold put16.
  cbn [app QoSRules_loop read8 read16 rbind].
  rewrite ruleHeader_op, ruleHeader_dqr, ruleHeader_n by assumption.
  rewrite Nat2N.id.
  rewrite <- app_assoc. rewrite Hp. cbn [app read8 rbind].
  rewrite qfiByte_seg, qfiByte_qfi by assumption.
  destruct r; reflexivity.
Qed.

Lemma rules_roundtrip_loop q : wf_rules_code q = true ->
  exists bs, QoSRules_MarshalBinary q = Ok bs /\
    forall fuel acc, (length bs < fuel)%nat -> QoSRules_loop fuel bs acc = ROk (acc ++ q).
Proof.
  induction q as [|r t IH]; intro Hwf.
  - exists []. split; [reflexivity|]. intros [|f] acc Hf; [cbn in Hf; lia|]. cbn. rewrite app_nil_r. reflexivity.
  - apply forallb_cons in Hwf as [Hr Ht].
    destruct (IH Ht) as (tb & Htm & Htp).
    destruct (rule_step r Hr) as (rb & Hrm & Hpos & Hstep).
    exists (rb ++ tb). cbn [QoSRules_MarshalBinary]. rewrite Hrm, Htm. cbn [obind].
    split; [reflexivity|].
    intros [|f] acc Hf; [lia|].
    rewrite Hstep, Htp.
    + rewrite <- app_assoc. reflexivity.
    + rewrite app_length in Hf. lia.
Qed.

Theorem rules_roundtrip q : wf_rules_code q = true ->
  exists bs, QoSRules_MarshalBinary q = Ok bs /\ QoSRules_UnmarshalBinary bs = Ok q.
Proof.
  intro Hwf. destruct (rules_roundtrip_loop q Hwf) as (bs & Hm & Hp).
  exists bs. split; [exact Hm|]. unfold QoSRules_UnmarshalBinary. rewrite Hp by lia. reflexivity.
Qed.

Lemma wf_rule_code_of r : wf_rule r = true -> wf_rule_code r = true.
Proof. unfold wf_rule. intro H. btrue. assumption. Qed.

Lemma wf_rules_code_of q : wf_rules q = true -> wf_rules_code q = true.
Proof.
  unfold wf_rules, wf_rules_code. rewrite !forallb_forall. intros H x Hx. apply wf_rule_code_of, H, Hx.
Qed.

(* ---------------------------------------------------------------- flow descriptions *)

Lemma newQoSFlowParameters_Identifier p :
  exists p0, newQoSFlowParameters (param_Identifier p) = Some p0 /\
             forall b, param_UnmarshalBinary p0 b = param_UnmarshalBinary p b.
Proof. destruct p; eexists; (split; reflexivity). Qed.

(* per-constructor round trip, for each of the 7 parameter kinds *)
Lemma param_roundtrip p : wf_param p = true ->
  exists pb, param_MarshalBinary p = Ok pb /\ (length pb <= 3)%nat /\
             param_UnmarshalBinary p pb = ROk p.
Proof.
  destruct p; cbn [wf_param]; intro H; btrue; eexists; (split; [reflexivity|]); (split; [cbn; lia|]); cbn;
    rewrite ?u8_small, ?be16_join by assumption; reflexivity.
Qed.

Lemma params_roundtrip ps : forallb wf_param ps = true ->
  exists bs, QoSFlowParameterList_MarshalBinary ps = Ok bs /\
             forall rest, parseQoSFlowParameterList (length ps) (bs ++ rest) = ROk (ps, rest).
Proof.
  induction ps as [|p t IH]; intro Hwf.
  - exists []. split; reflexivity.
  - apply forallb_cons in Hwf as [Hp Ht].
    destruct (IH Ht) as (tb & Htm & Htp).
    destruct (param_roundtrip p Hp) as (pb & Hpm & Hpl & Hpu).
    destruct (newQoSFlowParameters_Identifier p) as (p0 & Hnew & Hun0).
    exists (param_Identifier p :: u8 (len pb) :: pb ++ tb).
    cbn [QoSFlowParameterList_MarshalBinary]. rewrite Hpm, Htm. cbn [obind]. split; [reflexivity|].
    intro rest. cbn [length parseQoSFlowParameterList app read8 rbind]. rewrite Hnew.
    assert (Hlen : N.to_nat (u8 (len pb)) = length pb).
    { unfold len. rewrite u8_small by lia. lia. }
    rewrite <- app_assoc. rewrite (Next_app pb (tb ++ rest)) by exact Hlen.
    rewrite Hun0, Hpu. cbn [rbind]. rewrite Htp. reflexivity.
Qed.

Lemma desc_roundtrip d : wf_desc_code d = true ->
  exists db, QoSFlowDesc_MarshalBinary d = Ok db /\ (0 < length db)%nat /\
             forall rest, parseQoSFlowDesc (db ++ rest) = ROk (d, rest).
Proof.
  unfold wf_desc_code. intro H. btrue.
  destruct (params_roundtrip _ H0) as (pb & Hpm & Hpp).
  unfold QoSFlowDesc_MarshalBinary.
  rewrite (u8_small (N.of_nat (length (d_Parameters d)))) by lia.
  rewrite descOp_val by assumption. rewrite (u8_small (d_QFI d)) by assumption.
  destruct (N.of_nat (length (d_Parameters d)) =? 0) eqn:E0.
  - (* no parameters: E = 0, list absent *)
    apply N.eqb_eq in E0. cbn [N.eqb].
    eexists. split; [reflexivity|]. split; [cbn; lia|].
    intro rest. unfold parseQoSFlowDesc. cbn [app read8 rbind].
    rewrite E0. change (N.lor (shl8 0 6) 0) with 0. cbn [N.eqb negb].
    rewrite descOp_op by assumption.
    destruct d as [q o ps]; cbn in *. destruct ps; [reflexivity|cbn in E0; lia].
  - apply N.eqb_neq in E0. cbn [N.eqb]. rewrite Hpm. cbn [obind].
    eexists. split; [reflexivity|]. split; [cbn; lia|].
    intro rest. unfold parseQoSFlowDesc. cbn [app read8 rbind].
    pose proof (descNum_val (N.of_nat (length (d_Parameters d)))) as Hv.
    rewrite u8_small in Hv by lia. rewrite Hv by lia.
    replace (64 + N.of_nat (length (d_Parameters d)) =? 0) with false by (symmetry; apply N.eqb_neq; lia).
    cbn [negb]. rewrite land_63.
    replace ((64 + N.of_nat (length (d_Parameters d))) mod 64) with (N.of_nat (length (d_Parameters d))) by lia.
    rewrite Nat2N.id, Hpp. cbn [rbind]. rewrite descOp_op by assumption.
    destruct d; reflexivity.
Qed.

Lemma descs_roundtrip_loop q : wf_descs_code q = true ->
  exists bs, QoSFlowDescs_MarshalBinary q = Ok bs /\
    forall fuel acc, (length bs < fuel)%nat -> QoSFlowDescs_loop fuel bs acc = ROk (acc ++ q).
Proof.
  induction q as [|d t IH]; intro Hwf.
  - exists []. split; [reflexivity|]. intros [|f] acc Hf; [cbn in Hf; lia|]. cbn. rewrite app_nil_r. reflexivity.
  - apply forallb_cons in Hwf as [Hd Ht].
    destruct (IH Ht) as (tb & Htm & Htp).
    destruct (desc_roundtrip d Hd) as (db & Hdm & Hpos & Hdp).
    exists (db ++ tb). cbn [QoSFlowDescs_MarshalBinary]. rewrite Hdm, Htm. cbn [obind].
    split; [reflexivity|].
    intros [|f] acc Hf; [lia|].
    cbn [QoSFlowDescs_loop]. rewrite Hdp, Htp.
    + rewrite <- app_assoc. reflexivity.
    + rewrite app_length in Hf. lia.
Qed.

Theorem descs_roundtrip q : wf_descs_code q = true ->
  exists bs, QoSFlowDescs_MarshalBinary q = Ok bs /\ QoSFlowDescs_UnmarshalBinary bs = Ok q.
Proof.
  intro Hwf. destruct (descs_roundtrip_loop q Hwf) as (bs & Hm & Hp).
  exists bs. split; [exact Hm|]. unfold QoSFlowDescs_UnmarshalBinary. rewrite Hp by lia. reflexivity.
Qed.

Lemma wf_desc_code_of d : wf_desc d = true -> wf_desc_code d = true.
Proof. unfold wf_desc. intro H. btrue. assumption. Qed.

Lemma wf_descs_code_of q : wf_descs q = true -> wf_descs_code q = true.
Proof.
  unfold wf_descs, wf_descs_code. rewrite !forallb_forall. intros H x Hx. apply wf_desc_code_of, H, Hx.
Qed.
