(* CAES: github.com/aead/cmac (as modelled) against RFC 4493, and NIA2 = 128-EIA2, for every E. *)
From NV Require Import Lib.Base Lib.Bits CAES.Util CAES.Spec CAES.Model CAES.Proofs_aes CAES.Proofs_ctr.
From Coq Require Import ZifyN ZifyNat ZifyBool.
Open Scope N_scope.

(* ---------- shift = doubling ---------- *)

Lemma cmac_shift_spec l : bytes_ok l ->
  let '(l', c) := cmac_shift l in
  length l' = length l /\ bytes_ok l' /\ c <= 1 /\
  be_val l' + c * 256 ^ N.of_nat (length l) = 2 * be_val l.
Proof.
  induction 1 as [|x t Hx Ht IH]; [simpl; repeat split; try constructor; lia|].
  cbn [cmac_shift]. destruct (cmac_shift t) as [t' c].
  destruct IH as [L [O [C V]]]. unfold is_byte in Hx.
  assert (Hh : N.lor ((x * 2) mod 256) c = (x * 2) mod 256 + c).
  { replace ((x * 2) mod 256) with (((x * 2) mod 256 / 2) * 2 ^ 1) by (change (2 ^ 1) with 2; lia).
    apply lor_disjoint_add. simpl. lia. }
  rewrite Hh.
  replace (N.of_nat (length (x :: t))) with (N.succ (N.of_nat (length t))) by (simpl length; lia).
  rewrite N.pow_succ_r'.
  set (P := 256 ^ N.of_nat (length t)) in *.
  repeat split.
  - simpl. lia.
  - constructor; [unfold is_byte; lia|exact O].
  - lia.
  - cbn [be_val]. rewrite L. fold P.
    replace (((x * 2) mod 256 + c) * P + be_val t' + x / 128 * (256 * P))
      with (((x * 2) mod 256 + 256 * (x / 128)) * P + (be_val t' + c * P)) by lia.
    rewrite V. replace ((x * 2) mod 256 + 256 * (x / 128)) with (2 * x) by lia. lia.
Qed.

Lemma cmac_fold_0 k : block_ok k -> cmac_fold k 0 = k.
Proof.
  intros [L _].
  do 16 (destruct k as [|? k]; [discriminate L|]). destruct k; [|discriminate L].
  unfold cmac_fold. cbn. rewrite N.lxor_0_r. reflexivity.
Qed.

Lemma cmac_fold_1 k : block_ok k -> cmac_fold k 1 = xorb k (const_Rb).
Proof.
  intros [L _].
  do 16 (destruct k as [|? k]; [discriminate L|]). destruct k; [|discriminate L].
  unfold cmac_fold. cbn. rewrite !N.lxor_0_r. reflexivity.
Qed.

Lemma shift_fold_dbl l : block_ok l ->
  (let '(l', c) := cmac_shift l in cmac_fold l' c) = dbl l /\ block_ok (dbl l).
Proof.
  intros [L O]. pose proof (cmac_shift_spec l O) as H.
  destruct (cmac_shift l) as [l' c]. destruct H as [L' [O' [C V]]].
  rewrite L in *. change (256 ^ N.of_nat 16) with (2 ^ 128) in V.
  pose proof (be_val_lt l' O') as B'. rewrite L' in B'. change (256 ^ N.of_nat 16) with (2 ^ 128) in B'.
  pose proof (be_val_lt l O) as B. rewrite L in B. change (256 ^ N.of_nat 16) with (2 ^ 128) in B.
  assert (Hl' : l' = be_bytes 16 (2 * be_val l)).
  { rewrite <- (be_bytes_be_val l' O'), L'.
    rewrite <- (be_bytes_mod 16 (2 * be_val l)). f_equal.
    change (256 ^ N.of_nat 16) with (2 ^ 128).
    rewrite <- V, N.mod_add by (apply N.pow_nonzero; lia). symmetry. apply N.mod_small. exact B'. }
  assert (Bl' : block_ok l') by (split; assumption).
  unfold dbl. change (2 ^ 128) with (2 * 2 ^ 127) in *.
  destruct (be_val l <? 2 ^ 127) eqn:Hm.
  - apply N.ltb_lt in Hm. assert (c = 0) by nia. subst c.
    rewrite cmac_fold_0 by exact Bl'. rewrite <- Hl'. auto.
  - apply N.ltb_ge in Hm. assert (c = 1) by nia. subst c.
    rewrite cmac_fold_1 by exact Bl'. rewrite <- Hl'. split; [reflexivity|].
    apply block_ok_xorb; [exact Bl'|apply block_ok_be_bytes].
Qed.

(* ---------- list plumbing ---------- *)

Lemma skipn_skipn' {A} (l : list A) a b : skipn a (skipn b l) = skipn (b + a) l.
Proof.
  revert l; induction b as [|b IH]; intros l; [reflexivity|].
  destruct l as [|x l]; [rewrite !skipn_nil; reflexivity|]. simpl. apply IH.
Qed.

Lemma split_at {A} (l : list A) r : (r < length l)%nat ->
  exists a x b, l = a ++ x :: b /\ length a = r.
Proof.
  intro H. exists (firstn r l).
  destruct (skipn r l) as [|x b] eqn:S.
  - pose proof (skipn_length r l) as SL. rewrite S in SL. simpl in SL. lia.
  - exists x, b. split.
    + rewrite <- S. symmetry. apply firstn_skipn.
    + rewrite firstn_length. lia.
Qed.

Lemma upd_app_mid (a : bytes) x b v : upd (a ++ x :: b) (length a) v = a ++ v :: b.
Proof. induction a as [|y a IH]; simpl; [reflexivity|]. rewrite IH. reflexivity. Qed.

Lemma nth_error_app_mid (a : bytes) x b : nth_error (a ++ x :: b) (length a) = Some x.
Proof. induction a; simpl; auto. Qed.

Lemma xorb_zeros_l a n : (length a <= n)%nat -> xorb (zeros n) a = a.
Proof. intro H. rewrite xorb_comm. apply xorb_zeros_r. exact H. Qed.

Lemma xor_into_full dst src : length src = length dst -> xor_into dst src = xorb dst src.
Proof.
  intro L. unfold xor_into. rewrite L, firstn_all, skipn_all, app_nil_r. reflexivity.
Qed.

Lemma xor_into_nil dst : xor_into dst [] = dst.
Proof. unfold xor_into. simpl. reflexivity. Qed.

Section CMAC.
  Variable E : bytes -> bytes -> bytes.
  Hypothesis Ewf : E_wf E.
  Variable key : bytes.
  Hypothesis K : block_ok key.

  Lemma cmac_new_subkeys :
    cmac_new E key = cmac_subkeys E key /\
    block_ok (fst (cmac_subkeys E key)) /\ block_ok (snd (cmac_subkeys E key)).
  Proof.
    unfold cmac_new, cmac_subkeys.
    assert (BL : block_ok (E key (zeros 16))) by (apply Ewf; [exact K|apply block_ok_zeros]).
    destruct (shift_fold_dbl _ BL) as [H1 B1].
    destruct (cmac_shift (E key (zeros 16))) as [l1 c1]. rewrite H1.
    destruct (shift_fold_dbl _ B1) as [H2 B2].
    destruct (cmac_shift (dbl (E key (zeros 16)))) as [l2 c2]. rewrite H2.
    simpl. auto.
  Qed.

  (* the CBC chain of RFC 4493 step 6 over the first k blocks of M, started at X *)
  Definition chain (M : bytes) (X : bytes) (k : nat) : bytes :=
    fold_left (fun X i => E key (xorb X (firstn 16 (skipn (16 * i) M)))) (seq 0 k) X.

  Lemma chain_S M X k :
    chain M X (S k) = chain (skipn 16 M) (E key (xorb X (firstn 16 M))) k.
  Proof.
    unfold chain. cbn [seq fold_left]. change (16 * 0)%nat with O. change (skipn 0 M) with M.
    rewrite <- seq_shift.
    generalize (E key (xorb X (firstn 16 M))) as Y. generalize (seq 0 k) as l.
    induction l as [|i l IH]; intro Y; [reflexivity|].
    cbn [map fold_left]. rewrite IH. do 4 f_equal.
    rewrite skipn_skipn'. f_equal. lia.
  Qed.

  Lemma cmac_blocks_chain k : forall buf M,
    block_ok buf -> bytes_ok M -> (16 * k <= length M)%nat ->
    cmac_blocks E key k buf M = (chain M buf k, skipn (16 * k) M) /\ block_ok (chain M buf k).
  Proof.
    induction k as [|k IH]; intros buf M B O L; [simpl; auto|].
    cbn [cmac_blocks]. rewrite chain_S.
    assert (F : length (firstn 16 M) = 16%nat) by (rewrite firstn_length; lia).
    rewrite xor_into_full by (rewrite F; symmetry; exact (proj1 B)).
    assert (B' : block_ok (E key (xorb buf (firstn 16 M)))).
    { apply Ewf; [exact K|]. apply block_ok_xorb; [exact B|].
      split; [exact F|apply bytes_ok_firstn; exact O]. }
    destruct (IH _ (skipn 16 M) B' (bytes_ok_skipn 16 M O)) as [H1 H2].
    { rewrite skipn_length. lia. }
    rewrite H1, skipn_skipn'. split; [|exact H2]. do 2 f_equal. lia.
  Qed.

  (* the last step: Sum's use of buf / off against "M_last xor X" *)
  Lemma last_block_full K1 X rest :
    block_ok K1 -> block_ok X -> length rest = 16%nat ->
    xor_into K1 (xor_into X rest) = xorb (xorb rest K1) X.
  Proof.
    intros [LK _] [LX _] LR.
    rewrite (xor_into_full X rest) by lia.
    rewrite xor_into_full by (rewrite xorb_length; lia).
    rewrite (xorb_comm rest K1), xorb_assoc. f_equal. apply xorb_comm.
  Qed.

  Lemma last_block_partial K2 X rest :
    block_ok K2 -> block_ok X -> (length rest < 16)%nat ->
    let hash := xor_into K2 (xor_into X rest) in
    match nth_error hash (length rest) with
    | Some x => upd hash (length rest) (N.lxor x 128)
    | None => hash
    end = xorb (xorb (cmac_pad rest) K2) X.
  Proof.
    intros [LK _] [LX _] LR.
    destruct (split_at K2 (length rest)) as [Ka [kr [Kb [EK LKa]]]]; [lia|].
    destruct (split_at X (length rest)) as [Xa [xr [Xb [EX LXa]]]]; [lia|].
    assert (LKb : length Kb = (15 - length rest)%nat).
    { rewrite EK, app_length in LK. simpl in LK. lia. }
    assert (LXb : length Xb = (15 - length rest)%nat).
    { rewrite EX, app_length in LX. simpl in LX. lia. }
    assert (Hbuf : xor_into X rest = xorb Xa rest ++ xr :: Xb).
    { unfold xor_into. rewrite EX.
      rewrite firstn_app, skipn_app, LXa, Nat.sub_diag. cbn [firstn skipn].
      rewrite app_nil_r, <- LXa, firstn_all, skipn_all. reflexivity. }
    rewrite Hbuf.
    assert (Hhash : xor_into K2 (xorb Xa rest ++ xr :: Xb)
                    = xorb Ka (xorb Xa rest) ++ N.lxor kr xr :: xorb Kb Xb).
    { rewrite xor_into_full.
      - rewrite EK. rewrite xorb_app by (rewrite xorb_length; lia). reflexivity.
      - rewrite app_length, xorb_length. simpl. lia. }
    cbv zeta. rewrite Hhash.
    assert (LA : length (xorb Ka (xorb Xa rest)) = length rest) by (rewrite !xorb_length; lia).
    rewrite <- LA at 1. rewrite nth_error_app_mid.
    rewrite <- LA at 1. rewrite upd_app_mid.
    unfold cmac_pad. rewrite EK, EX.
    rewrite xorb_app by lia. cbn [xorb].
    rewrite xorb_zeros_l by lia.
    rewrite xorb_app by (rewrite xorb_length; lia). cbn [xorb].
    f_equal; [|f_equal].
    - rewrite (xorb_comm Xa rest), <- xorb_assoc, (xorb_comm Ka rest). reflexivity.
    - rewrite (N.lxor_comm 128 kr), !N.lxor_assoc. f_equal. apply N.lxor_comm.
  Qed.

  Lemma firstn_block b : block_ok b -> firstn 16 b = b.
  Proof. intros [L _]. rewrite <- L. apply firstn_all. Qed.

  (* cmac.Sum(msg, block, 16) is RFC 4493 AES-CMAC (for any E) *)
  Theorem cmac_Sum_eq M : bytes_ok M ->
    cmac_Sum E key M = cmac E key M /\ block_ok (cmac E key M).
  Proof.
    intro O.
    unfold cmac_Sum, cmac.
    destruct cmac_new_subkeys as [HN [B1 B2]]. rewrite HN.
    destruct (cmac_subkeys E key) as [K1 K2]. simpl in B1, B2.
    set (len := length M).
    set (n0 := Nat.div (len + 15) 16).
    set (n := if Nat.eqb n0 0 then 1%nat else n0).
    pose proof (Nat.div_mod (len + 15) 16 ltac:(lia)) as DM.
    pose proof (Nat.mod_upper_bound (len + 15) 16 ltac:(lia)) as MU.
    fold n0 in DM.
    pose proof (Nat.div_mod len 16 ltac:(lia)) as DM'.
    pose proof (Nat.mod_upper_bound len 16 ltac:(lia)) as MU'.
    (* the block loop *)
    assert (HW : exists X, block_ok X /\ X = chain M (zeros 16) (n - 1) /\
              cmac_write E key M = (xor_into X (skipn (16 * (n - 1)) M),
                                    length (skipn (16 * (n - 1)) M))).
    { unfold cmac_write. fold len.
      destruct (Nat.ltb 16 len) eqn:H16.
      - apply Nat.ltb_lt in H16.
        set (nn0 := (Nat.div len 16 * 16)%nat).
        set (nn := if Nat.eqb len nn0 then (nn0 - 16)%nat else nn0).
        assert (Hn : Nat.div nn 16 = (n - 1)%nat).
        { unfold nn, n. destruct (Nat.eqb len nn0) eqn:He.
          - apply Nat.eqb_eq in He. unfold nn0 in *.
            assert (Nat.modulo len 16 = 0)%nat by lia.
            assert (n0 = Nat.div len 16).
            { unfold n0. symmetry. apply (Nat.div_unique (len + 15) 16 (Nat.div len 16) 15); lia. }
            destruct (Nat.eqb n0 0) eqn:Hz; [apply Nat.eqb_eq in Hz; lia|].
            symmetry. apply (Nat.div_unique _ 16 (n0 - 1) 0); lia.
          - apply Nat.eqb_neq in He. unfold nn0 in *.
            assert (Nat.modulo len 16 <> 0)%nat by lia.
            assert (n0 = S (Nat.div len 16)).
            { unfold n0. symmetry.
              apply (Nat.div_unique (len + 15) 16 (S (Nat.div len 16)) (Nat.modulo len 16 - 1)); lia. }
            destruct (Nat.eqb n0 0) eqn:Hz; [apply Nat.eqb_eq in Hz; lia|].
            rewrite Nat.div_mul by lia. lia. }
        rewrite Hn.
        destruct (cmac_blocks_chain (n - 1) (zeros 16) M block_ok_zeros O) as [HB BX].
        { fold len. unfold n. destruct (Nat.eqb n0 0); lia. }
        rewrite HB.
        exists (chain M (zeros 16) (n - 1)). split; [exact BX|]. split; [reflexivity|].
        destruct (Nat.ltb 0 (length (skipn (16 * (n - 1)) M))) eqn:Hr; [reflexivity|].
        apply Nat.ltb_ge in Hr.
        assert (length (skipn (16 * (n - 1)) M) = 0)%nat as Z by lia.
        apply length_zero_iff_nil in Z. rewrite Z, xor_into_nil. reflexivity.
      - apply Nat.ltb_ge in H16.
        assert (Hn : (n - 1 = 0)%nat).
        { unfold n. destruct (Nat.eqb n0 0) eqn:Hz; [reflexivity|]. apply Nat.eqb_neq in Hz. lia. }
        rewrite Hn. cbn [Nat.mul skipn].
        exists (zeros 16). split; [apply block_ok_zeros|]. split; [reflexivity|].
        destruct (Nat.ltb 0 (length M)) eqn:Hr; [reflexivity|].
        apply Nat.ltb_ge in Hr. assert (length M = 0)%nat as Z by lia.
        apply length_zero_iff_nil in Z. rewrite Z, xor_into_nil. reflexivity. }
    destruct HW as [X [BX [EX HW]]]. rewrite HW. fold (chain M (zeros 16) (n - 1)). rewrite <- EX.
    set (rest := skipn (16 * (n - 1)) M).
    assert (LR : length rest = (len - 16 * (n - 1))%nat) by (unfold rest; apply skipn_length).
    assert (OR : bytes_ok rest) by (apply bytes_ok_skipn; exact O).
    unfold cmac_sum.
    assert (Hflag : (if Nat.eqb n0 0 then false else Nat.eqb (Nat.modulo len 16) 0)
                    = negb (Nat.ltb (length rest) 16)).
    { rewrite LR. unfold n.
      destruct (Nat.eqb n0 0) eqn:Hz.
      - apply Nat.eqb_eq in Hz. symmetry. apply negb_false_iff, Nat.ltb_lt. lia.
      - apply Nat.eqb_neq in Hz.
        destruct (Nat.eqb (Nat.modulo len 16) 0) eqn:Hm.
        + apply Nat.eqb_eq in Hm. symmetry. apply negb_true_iff, Nat.ltb_ge. lia.
        + apply Nat.eqb_neq in Hm. symmetry. apply negb_false_iff, Nat.ltb_lt. lia. }
    rewrite Hflag.
    destruct (Nat.ltb (length rest) 16) eqn:Hlt; cbn [negb].
    - apply Nat.ltb_lt in Hlt.
      rewrite (last_block_partial K2 X rest B2 BX Hlt).
      assert (BH : block_ok (xorb (xorb (cmac_pad rest) K2) X)).
      { apply block_ok_xorb; [|exact BX]. apply block_ok_xorb; [|exact B2].
        unfold cmac_pad. split.
        - rewrite app_length. cbn [length]. rewrite zeros_length. lia.
        - apply bytes_ok_app; [exact OR|]. constructor; [unfold is_byte; lia|apply zeros_ok]. }
      pose proof (Ewf key _ K BH) as BE. rewrite (firstn_block _ BE). auto.
    - apply Nat.ltb_ge in Hlt.
      assert (L16 : length rest = 16%nat).
      { rewrite LR in *. unfold n in *. destruct (Nat.eqb n0 0) eqn:Hz.
        - apply Nat.eqb_eq in Hz. lia.
        - apply Nat.eqb_neq in Hz. lia. }
      rewrite (last_block_full K1 X rest B1 BX L16).
      assert (BH : block_ok (xorb (xorb rest K1) X)).
      { apply block_ok_xorb; [|exact BX]. apply block_ok_xorb; [|exact B1]. split; assumption. }
      pose proof (Ewf key _ K BH) as BE. rewrite (firstn_block _ BE). auto.
  Qed.
End CMAC.

(* ---------- NIA2 ---------- *)

Lemma nia2_prefix_eq count b d msg : count < 2 ^ 32 -> b < 32 -> d < 2 ->
  firstn 8 (upd (put_uint32 (zeros (length msg + 8)) count) 4 (bd_octet b d)) ++ msg
  = eia2_prefix count b d ++ msg.
Proof.
  intros Hc Hb Hd. f_equal.
  replace (length msg + 8)%nat with (8 + length msg)%nat by lia.
  unfold zeros. cbn [Nat.add repeat put_uint32 upd firstn].
  rewrite bd_octet_valid by assumption.
  unfold eia2_prefix. cbn [be_bytes].
  change (2 ^ 32) with 4294967296 in *. change (2 ^ 24) with 16777216. change (2 ^ 16) with 65536.
  change (2 ^ 8) with 256. change (2 ^ 27) with 134217728. change (2 ^ 26) with 67108864.
  repeat match goal with |- context [256 ^ N.of_nat ?n] =>
    let v := eval vm_compute in (256 ^ N.of_nat n) in change (256 ^ N.of_nat n) with v end.
  repeat (f_equal; [lia|]). f_equal. lia.
Qed.

Lemma nia2_prefix_any_ok count b d msg : bytes_ok msg ->
  bytes_ok (firstn 8 (upd (put_uint32 (zeros (length msg + 8)) count) 4 (bd_octet b d)) ++ msg).
Proof.
  intro O. apply bytes_ok_app; [|exact O].
  replace (length msg + 8)%nat with (8 + length msg)%nat by lia.
  unfold zeros. cbn [Nat.add repeat put_uint32 upd firstn].
  repeat constructor; try (unfold is_byte; lia); try (apply N.mod_lt; lia). apply bd_octet_byte.
Qed.

Section NIA2.
  Variable E : bytes -> bytes -> bytes.
  Hypothesis Ewf : E_wf E.

  (* C07, algorithm 2: NIA2 is 128-EIA2, and the MAC has 4 octets *)
  Theorem nia2_eq_eia2 key count b d msg :
    block_ok key -> count < 2 ^ 32 -> b < 32 -> d < 2 -> bytes_ok msg ->
    NIA2 E key count b d msg = Ok (eia2 E key count b d msg) /\
    length (eia2 E key count b d msg) = 4%nat /\ bytes_ok (eia2 E key count b d msg).
  Proof.
    intros K Hc Hb Hd O. unfold NIA2, new_cipher. rewrite (proj1 K). cbn [Nat.eqb obind].
    rewrite nia2_prefix_eq by assumption.
    assert (OM : bytes_ok (eia2_prefix count b d ++ msg)).
    { apply bytes_ok_app; [apply be_bytes_ok|exact O]. }
    destruct (cmac_Sum_eq E Ewf key K _ OM) as [HS [LS OS]]. rewrite HS.
    unfold slice, eia2. rewrite LS. cbn [Nat.leb andb Nat.sub skipn].
    repeat split.
    - rewrite firstn_length, LS. reflexivity.
    - apply bytes_ok_firstn. exact OS.
  Qed.

  (* for any count / bearer / direction (also outside their ranges) a 4-octet MAC comes back *)
  Theorem nia2_total key count b d msg :
    block_ok key -> bytes_ok msg ->
    exists mac, NIA2 E key count b d msg = Ok mac /\ length mac = 4%nat /\ bytes_ok mac.
  Proof.
    intros K O. unfold NIA2, new_cipher. rewrite (proj1 K). cbn [Nat.eqb obind].
    pose proof (nia2_prefix_any_ok count b d msg O) as OM.
    destruct (cmac_Sum_eq E Ewf key K _ OM) as [HS [LS OS]]. rewrite HS.
    unfold slice. rewrite LS. cbn [Nat.leb andb Nat.sub skipn].
    eexists. split; [reflexivity|]. split.
    - rewrite firstn_length, LS. reflexivity.
    - apply bytes_ok_firstn. exact OS.
  Qed.

  Lemma NIA2_badkey key count b d msg : length key <> 16%nat -> NIA2 E key count b d msg = Err.
  Proof.
    intro L. unfold NIA2, new_cipher. apply Nat.eqb_neq in L. rewrite L. reflexivity.
  Qed.
End NIA2.
