(* CAES: executable model of security/security.go NEA2, NIA2, NASEncrypt, NASMacCalculate.

   External code is not translated but modelled from its behaviour:
     crypto/aes       block encryption          section variable [E] (key -> block -> block)
     crypto/cipher    NewCTR / XORKeyStream     [ctr_incr], [ctr_stream], [xor_key_stream]
     github.com/aead/cmac  Sum(m, block, 16)    [cmac_new], [cmac_write], [cmac_sum], [cmac_Sum]
   NEA1/NEA3/NIA1/NIA3 (modelled by other parts) are section variables of the wrappers.

   Go's [16]byte key is a [bytes] of length 16 (anything else: aes.NewCipher's error).
   A Go []byte that may be nil is [option bytes]; the in-place update of the payload is the
   second component of NASEncrypt's result. *)
From NV Require Import Lib.Base CAES.Util.
Open Scope N_scope.

(* binary.BigEndian.PutUint32(b, v): b[0..3] = byte(v>>24), byte(v>>16), byte(v>>8), byte(v) *)
Definition put_uint32 (b : bytes) (v : N) : bytes :=
  upd (upd (upd (upd b 0 ((v / 2 ^ 24) mod 256)) 1 ((v / 2 ^ 16) mod 256)) 2 ((v / 2 ^ 8) mod 256)) 3 (v mod 256).

(* (bearer << 3) | (direction << 2) in uint8 *)
Definition bd_octet (bearer direction : N) : N :=
  N.lor ((bearer * 8) mod 256) ((direction * 4) mod 256).

(* copy(dst, src): min(len) octets *)
Definition copy_into (dst src : bytes) : bytes :=
  firstn (length dst) src ++ skipn (length src) dst.

Section Ext.
  Variable E : bytes -> bytes -> bytes.   (* cipher.Block.Encrypt of aes.NewCipher(key) on one 16-octet block *)

  (* aes.NewCipher(key[:]): KeySizeError unless len is 16, 24 or 32; the argument is a
     [16]byte, so only 16 is modelled (24/32 would select AES-192/256, unreachable). *)
  Definition new_cipher (key : bytes) : outcome bytes :=
    if Nat.eqb (length key) 16 then Ok key else Err.

  (* ---- crypto/cipher ctr ---- *)

  (* refill's "for i := len(x.ctr)-1; i >= 0; i-- { x.ctr[i]++; if x.ctr[i] != 0 { break } }":
     add one to the last octet, ripple the carry towards the first, wrap at the top.
     Returns the new counter and the carry out of the first octet. *)
  Fixpoint ctr_incr_c (c : bytes) : bytes * bool :=
    match c with
    | [] => ([], true)
    | x :: t =>
        let '(t', carry) := ctr_incr_c t in
        if carry then let x' := (x + 1) mod 256 in (x' :: t', x' =? 0)
        else (x :: t', false)
    end.
  Definition ctr_incr (c : bytes) : bytes := fst (ctr_incr_c c).

  (* the key stream: Encrypt(ctr), Encrypt(ctr+1), ... (refill computes whole blocks ahead of
     use; how far ahead is not observable) *)
  Fixpoint ctr_stream (key : bytes) (nblocks : nat) (ctr : bytes) : bytes :=
    match nblocks with
    | O => []
    | S n => E key ctr ++ ctr_stream key n (ctr_incr ctr)
    end.

  (* NewCTR(block, iv) followed by one XORKeyStream(dst, src) with len(dst) = len(src):
     dst[i] = src[i] ^ stream[i].  NewCTR panics unless len(iv) = 16. *)
  Definition xor_key_stream (key iv src : bytes) : outcome bytes :=
    if Nat.eqb (length iv) 16
    then Ok (xorb src (ctr_stream key (Nat.div (length src + 15) 16) iv))
    else Panic.

  (* ---- github.com/aead/cmac ---- *)

  (* shift(dst, src): dst = src << 1 over the whole string, returns the bit shifted out *)
  Fixpoint cmac_shift (src : bytes) : bytes * N :=
    match src with
    | [] => ([], 0)
    | x :: t =>
        let '(t', b) := cmac_shift t in
        (N.lor ((x * 2) mod 256) b :: t', x / 128)
    end.

  (* k[blocksize-1] ^= byte(subtle.ConstantTimeSelect(v, 0x87, 0)) *)
  Definition cmac_fold (k : bytes) (v : N) : bytes :=
    match nth_error k 15 with
    | Some x => upd k 15 (N.lxor x (if v =? 1 then 135 else 0))
    | None => k
    end.

  (* NewWithTagSize: (k0, k1) *)
  Definition cmac_new (key : bytes) : bytes * bytes :=
    let k0 := E key (zeros 16) in
    let '(k0, v) := cmac_shift k0 in
    let k0 := cmac_fold k0 v in
    let '(k1, v) := cmac_shift k0 in
    let k1 := cmac_fold k1 v in
    (k0, k1).

  (* xor(dst, src): dst[i] ^= src[i] for i < len(src) (len(src) <= len(dst) at every call) *)
  Definition xor_into (dst src : bytes) : bytes :=
    xorb (firstn (length src) dst) src ++ skipn (length src) dst.

  (* the block loop of Write: for i := 0; i < nn; i += bs { xor(buf, msg[i:i+bs]); Encrypt(buf, buf) } *)
  Fixpoint cmac_blocks (key : bytes) (nblk : nat) (buf msg : bytes) : bytes * bytes :=
    match nblk with
    | O => (buf, msg)
    | S n => cmac_blocks key n (E key (xor_into buf (firstn 16 msg))) (skipn 16 msg)
    end.

  (* Write(msg) on a fresh hash (off = 0, buf = 0^16): returns (buf, off) *)
  Definition cmac_write (key msg : bytes) : bytes * nat :=
    let buf := zeros 16 in
    let length0 := length msg in
    let '(buf, msg) :=
      if Nat.ltb 16 length0 then
        let nn := (Nat.div length0 16 * 16)%nat in              (* length & ^(bs-1) *)
        let nn := if Nat.eqb length0 nn then (nn - 16)%nat else nn in
        cmac_blocks key (Nat.div nn 16) buf msg
      else (buf, msg) in
    if Nat.ltb 0 (length msg) then (xor_into buf msg, length msg) else (buf, O).

  (* Sum(nil) with tagsize 16 *)
  Definition cmac_sum (key k0 k1 buf : bytes) (off : nat) : bytes :=
    let hash := if Nat.ltb off 16 then k1 else k0 in
    let hash := xor_into hash buf in
    let hash := if Nat.ltb off 16
                then match nth_error hash off with
                     | Some x => upd hash off (N.lxor x 128)
                     | None => hash
                     end
                else hash in
    firstn 16 (E key hash).

  (* cmac.Sum(msg, block, 16) *)
  Definition cmac_Sum (key msg : bytes) : bytes :=
    let '(k0, k1) := cmac_new key in
    let '(buf, off) := cmac_write key msg in
    cmac_sum key k0 k1 buf off.

  (* ---- security.go ---- *)

  Definition NEA2 (key : bytes) (count bearer direction : N) (ibs : bytes) : outcome bytes :=
    let couterBlk := zeros 16 in
    let couterBlk := put_uint32 couterBlk count in
    let couterBlk := upd couterBlk 4 (bd_octet bearer direction) in
    block <- new_cipher key ;;
    xor_key_stream block couterBlk ibs.

  Definition NIA2 (key : bytes) (count bearer direction : N) (msg : bytes) : outcome bytes :=
    let m := zeros (length msg + 8) in
    let m := put_uint32 m count in
    let m := upd m 4 (bd_octet bearer direction) in
    block <- new_cipher key ;;
    let m := firstn 8 m ++ msg in                  (* copy(m[8:], msg) *)
    let mac := cmac_Sum block m in
    slice mac 0 4.

  Section Wrappers.
    (* ck count bearer direction ibs bitlength *)
    Variables nea1 nea3 nia1 nia3 : bytes -> N -> N -> N -> bytes -> N -> outcome bytes.

    Definition AlgCiphering128NEA0 := 0.
    Definition AlgCiphering128NEA1 := 1.
    Definition AlgCiphering128NEA2 := 2.
    Definition AlgCiphering128NEA3 := 3.

    (* output, err := NEAx(...); if err != nil { return err }; copy(payload, output); return nil *)
    Definition enc_finish (payload : bytes) (r : outcome bytes) : outcome unit * option bytes :=
      match r with
      | Ok output => (Ok tt, Some (copy_into payload output))
      | Err => (Err, Some payload)
      | Panic => (Panic, Some payload)
      | OutOfFuel => (OutOfFuel, Some payload)
      end.

    (* result: (nil / error / panic, the payload slice after the call) *)
    Definition NASEncrypt (AlgoID : N) (KnasEnc : bytes) (Count Bearer Direction : N)
               (payload : option bytes) : outcome unit * option bytes :=
      if 31 <? Bearer then (Err, payload)
      else if 1 <? Direction then (Err, payload)
      else match payload with
      | None => (Err, payload)
      | Some p =>
          let len32 := N.of_nat (length p) mod 2 ^ 32 in       (* uint32(len(payload)) *)
          if AlgoID =? AlgCiphering128NEA0 then (Ok tt, payload)
          else if AlgoID =? AlgCiphering128NEA1 then
            enc_finish p (nea1 KnasEnc Count Bearer Direction p ((len32 * 8) mod 2 ^ 32))
          else if AlgoID =? AlgCiphering128NEA2 then
            enc_finish p (NEA2 KnasEnc Count Bearer Direction p)
          else if AlgoID =? AlgCiphering128NEA3 then
            enc_finish p (nea3 KnasEnc Count Bearer Direction p ((len32 * 8) mod 2 ^ 32))
          else (Err, payload)
      end.

    Definition NASMacCalculate (AlgoID : N) (KnasInt : bytes) (Count Bearer Direction : N)
               (msg : option bytes) : outcome bytes :=
      if 31 <? Bearer then Err
      else if 1 <? Direction then Err
      else match msg with
      | None => Err
      | Some m =>
          let len := N.of_nat (length m) in
          if AlgoID =? 0 then Ok (zeros 4)
          else if AlgoID =? 1 then
            nia1 KnasInt Count Bearer Direction m (((len mod 2 ^ 64) * 8) mod 2 ^ 64)
          else if AlgoID =? 2 then NIA2 KnasInt Count Bearer Direction m
          else if AlgoID =? 3 then
            nia3 KnasInt Count Bearer Direction m (((len mod 2 ^ 32) * 8) mod 2 ^ 32)
          else Err
      end.
  End Wrappers.
End Ext.

(* ---- execution instance: E := the FIPS-197 AES-128 of CAES/Spec.v ---- *)
From NV Require CAES.Spec.
Definition NEA2_aes := NEA2 Spec.aes128.
Definition NIA2_aes := NIA2 Spec.aes128.
Definition xor_key_stream_aes := xor_key_stream Spec.aes128.
Definition cmac_Sum_aes := cmac_Sum Spec.aes128.
Definition NASEncrypt_aes := NASEncrypt Spec.aes128.
Definition NASMacCalculate_aes := NASMacCalculate Spec.aes128.
