(* CAES correspondence: behaviour observed on the Go implementation, replayed on the model
   with E := the FIPS-197 AES-128 of CAES/Spec.v. *)
From NV Require Import Lib.Base CAES.Util CAES.Spec CAES.Model.
Open Scope N_scope.

Inductive obs :=
| OOk (v : bytes)      (* returned octets ([] when the function returns only an error value) *)
| OErr
| OPanic.

Inductive input :=
| IAes (key block : bytes)                                   (* crypto/aes Encrypt *)
| ICtr (key iv src : bytes)                                  (* cipher.NewCTR(aes(key), iv).XORKeyStream *)
| ICmac (key msg : bytes)                                    (* cmac.Sum(msg, aes(key), 16) *)
| INea2 (key : bytes) (count bearer dir : N) (ibs : bytes)
| INia2 (key : bytes) (count bearer dir : N) (msg : bytes)
| IEnc (alg : N) (key : bytes) (count bearer dir : N) (payload : option bytes)
| IMac (alg : N) (key : bytes) (count bearer dir : N) (msg : option bytes).

(* id, input, observed result, observed payload after the call (IEnc only) *)
Definition case := (N * input * obs * option bytes)%type.

Definition obs_of (o : outcome bytes) : obs :=
  match o with Ok v => OOk v | Err => OErr | Panic => OPanic | OutOfFuel => OPanic end.

Definition obs_eqb (a b : obs) : bool :=
  match a, b with
  | OOk x, OOk y => eqb_bytes x y
  | OErr, OErr => true
  | OPanic, OPanic => true
  | _, _ => false
  end.

Definition obs_class_eqb (a b : obs) : bool :=
  match a, b with
  | OOk _, OOk _ => true
  | OErr, OErr => true
  | OPanic, OPanic => true
  | _, _ => false
  end.

Definition opt_eqb (a b : option bytes) : bool :=
  match a, b with
  | Some x, Some y => eqb_bytes x y
  | None, None => true
  | _, _ => false
  end.

(* NEA1/NEA3/NIA1/NIA3 belong to other parts: stand-ins that only keep the result class *)
Definition stub_nea (_ : bytes) (_ _ _ : N) (p : bytes) (_ : N) : outcome bytes := Ok p.
Definition stub_nia (_ : bytes) (_ _ _ : N) (_ : bytes) (_ : N) : outcome bytes := Ok (zeros 4).

Definition foreign_alg (alg : N) : bool := (alg =? 1) || (alg =? 3).

Definition case_ok (c : case) : bool :=
  let '(_, i, o, after) := c in
  match i with
  | IAes key block => obs_eqb o (OOk (aes128 key block))
  | ICtr key iv src => obs_eqb o (obs_of (xor_key_stream_aes key iv src))
  | ICmac key msg => obs_eqb o (OOk (cmac_Sum_aes key msg))
  | INea2 key count bearer dir ibs => obs_eqb o (obs_of (NEA2_aes key count bearer dir ibs))
  | INia2 key count bearer dir msg => obs_eqb o (obs_of (NIA2_aes key count bearer dir msg))
  | IEnc alg key count bearer dir payload =>
      let '(r, after') := NASEncrypt_aes stub_nea stub_nea alg key count bearer dir payload in
      let r' := obs_of (omap (fun _ => []) r) in
      if foreign_alg alg
      then obs_class_eqb o r' &&
           match r' with OOk _ => true | _ => opt_eqb after after' end
      else obs_eqb o r' && opt_eqb after after'
  | IMac alg key count bearer dir msg =>
      let r' := obs_of (NASMacCalculate_aes stub_nia stub_nia alg key count bearer dir msg) in
      if foreign_alg alg then obs_class_eqb o r' else obs_eqb o r'
  end.

Definition case_id (c : case) : N := fst (fst (fst c)).

Definition mismatches (cs : list case) : list N :=
  map case_id (filter (fun c => negb (case_ok c)) cs).
