(* CAES: Go's CTR (cipher.NewCTR / XORKeyStream as modelled) against SP 800-38A, NEA2 = 128-EEA2,
   and the stream-cipher laws, for every block cipher E. *)
From NV Require Import Lib.Base Lib.Bits CAES.Util CAES.Spec CAES.Model CAES.Proofs_aes.
From Coq Require Import ZifyN ZifyNat ZifyBool.
Open Scope N_scope.

(* ---------- the byte-wise counter increment is +1 modulo 256^len ---------- *)

Lemma ctr_incr_c_spec c : bytes_ok c ->
  let '(c', carry) := ctr_incr_c c in
  length c' = length c /\ bytes_ok c' /\
  be_val c' + (if carry then 256 ^ N.of_nat (length c) else 0) = be_val c + 1.
Proof.
  induction 1 as [|x t Hx Ht IH]; [simpl; repeat split; constructor|].
  cbn [ctr_incr_c]. destruct (ctr_incr_c t) as [t' carry].
  destruct IH as [L [O V]].
  unfold is_byte in Hx.
  replace (N.of_nat (length (x :: t))) with (N.succ (N.of_nat (length t))) by (simpl length; lia).
  rewrite N.pow_succ_r'.
  set (P := 256 ^ N.of_nat (length t)) in *.
  destruct carry.
  - destruct ((x + 1) mod 256 =? 0) eqn:Hz.
    + apply N.eqb_eq in Hz. repeat split.
      * simpl. lia.
      * constructor; [unfold is_byte; lia|exact O].
      * cbn [be_val]. rewrite L. fold P. assert (x = 255) by lia. subst x. rewrite Hz. lia.
    + apply N.eqb_neq in Hz. repeat split.
      * simpl. lia.
      * constructor; [unfold is_byte; apply N.mod_lt; lia|exact O].
      * cbn [be_val]. rewrite L. fold P.
        assert ((x + 1) mod 256 = x + 1) by (apply N.mod_small; lia). lia.
  - repeat split.
    + simpl. lia.
    + constructor; assumption.
    + cbn [be_val]. rewrite L. fold P. lia.
Qed.

Lemma ctr_incr_block c : block_ok c ->
  ctr_incr c = be_bytes 16 ((be_val c + 1) mod 2 ^ 128).
Proof.
  intros [L O]. unfold ctr_incr.
  pose proof (ctr_incr_c_spec c O) as H. destruct (ctr_incr_c c) as [c' carry]. simpl fst.
  destruct H as [L' [O' V]]. rewrite L in *.
  change (256 ^ N.of_nat 16) with (2 ^ 128) in V.
  pose proof (be_val_lt c' O') as B'. rewrite L' in B'. change (256 ^ N.of_nat 16) with (2 ^ 128) in B'.
  assert (be_val c' = (be_val c + 1) mod 2 ^ 128).
  { destruct carry.
    - symmetry. replace (be_val c + 1) with (be_val c' + 1 * 2 ^ 128) by lia.
      rewrite N.mod_add by lia. apply N.mod_small. exact B'.
    - symmetry. rewrite <- V, N.add_0_r. apply N.mod_small. exact B'. }
  rewrite <- H, <- L'. symmetry. apply be_bytes_be_val. exact O'.
Qed.

Lemma ctr_incr_ok c : block_ok c -> block_ok (ctr_incr c).
Proof. intro H. rewrite ctr_incr_block by exact H. apply block_ok_be_bytes. Qed.

Lemma be_val_be_bytes16 v : be_val (be_bytes 16 v) = v mod 2 ^ 128.
Proof. rewrite be_val_be_bytes. reflexivity. Qed.

Lemma iter_shift {A} (f : A -> A) a x : Nat.iter a f (f x) = f (Nat.iter a f x).
Proof. induction a as [|a IH]; simpl; [reflexivity|]. rewrite IH. reflexivity. Qed.

Section CTR.
  Variable E : bytes -> bytes -> bytes.

  (* the j-th counter of Go's stream: iv + j modulo 2^128 *)
  Definition go_counter (iv : bytes) (j : N) : bytes := be_bytes 16 ((be_val iv + j) mod 2 ^ 128).

  Lemma go_counter_0 iv : block_ok iv -> go_counter iv 0 = iv.
  Proof.
    intros [L O]. unfold go_counter. rewrite N.add_0_r.
    pose proof (be_val_lt iv O) as B. rewrite L in B. change (256 ^ N.of_nat 16) with (2 ^ 128) in B.
    rewrite N.mod_small by exact B. rewrite <- L. apply be_bytes_be_val. exact O.
  Qed.

  Lemma go_counter_succ iv j : block_ok iv -> go_counter (ctr_incr iv) j = go_counter iv (j + 1).
  Proof.
    intro H. unfold go_counter. rewrite ctr_incr_block by exact H.
    rewrite be_val_be_bytes16. f_equal.
    rewrite !N.add_mod_idemp_l by (apply N.pow_nonzero; lia). f_equal. lia.
  Qed.

  Lemma ctr_stream_blocks key n : forall iv, block_ok iv ->
    ctr_stream E key n iv = concat (map (fun j => E key (go_counter iv (N.of_nat j))) (seq 0 n)).
  Proof.
    induction n as [|n IH]; intros iv H; [reflexivity|].
    cbn [ctr_stream]. rewrite IH by (apply ctr_incr_ok; exact H).
    cbn [seq map concat]. change (N.of_nat 0) with 0. rewrite (go_counter_0 iv H). f_equal.
    rewrite <- seq_shift, map_map. f_equal. apply map_ext. intro j.
    rewrite go_counter_succ by exact H. do 2 f_equal. lia.
  Qed.

  Lemma ctr_stream_app key a : forall b iv,
    ctr_stream E key (a + b) iv = ctr_stream E key a iv ++ ctr_stream E key b (Nat.iter a ctr_incr iv).
  Proof.
    induction a as [|a IH]; intros b iv; [reflexivity|].
    cbn [Nat.add ctr_stream]. rewrite IH, <- app_assoc. do 2 f_equal.
    f_equal. apply iter_shift.
  Qed.

  Lemma iter_incr_ok a iv : block_ok iv -> block_ok (Nat.iter a ctr_incr iv).
  Proof. intro H. induction a; simpl; auto using ctr_incr_ok. Qed.

  Hypothesis Ewf : E_wf E.

  Lemma ctr_stream_length key n : forall iv, block_ok key -> block_ok iv ->
    length (ctr_stream E key n iv) = (16 * n)%nat.
  Proof.
    induction n as [|n IH]; intros iv K H; [reflexivity|].
    cbn [ctr_stream]. rewrite app_length, IH by auto using ctr_incr_ok.
    rewrite (proj1 (Ewf key iv K H)). lia.
  Qed.

  Lemma ctr_stream_ok key n : forall iv, block_ok key -> block_ok iv ->
    bytes_ok (ctr_stream E key n iv).
  Proof.
    induction n as [|n IH]; intros iv K H; [constructor|].
    cbn [ctr_stream]. apply bytes_ok_app; [apply (Ewf key iv K H)|apply IH; auto using ctr_incr_ok].
  Qed.
End CTR.

(* ---------- xor with a truncated stream ---------- *)

Lemma xorb_firstn_r p s : xorb p (firstn (length p) s) = xorb p s.
Proof.
  revert s; induction p as [|x p IH]; intros [|y s]; simpl; auto.
  rewrite IH. reflexivity.
Qed.

Lemma firstn_firstn_le {A} (l : list A) n m : (n <= m)%nat -> firstn n (firstn m l) = firstn n l.
Proof. intro H. rewrite firstn_firstn. f_equal. lia. Qed.

Lemma blocks_ge n : (n <= 16 * Nat.div (n + 15) 16)%nat.
Proof.
  pose proof (Nat.div_mod (n + 15) 16 ltac:(lia)).
  pose proof (Nat.mod_upper_bound (n + 15) 16 ltac:(lia)). lia.
Qed.

Lemma blocks_mono n m : (Nat.div (n + 15) 16 <= Nat.div (n + m + 15) 16)%nat.
Proof. apply Nat.div_le_mono; lia. Qed.

(* ---------- the NEA2 counter block ---------- *)

Definition nea2_counter (count bearer direction : N) : bytes :=
  upd (put_uint32 (zeros 16) count) 4 (bd_octet bearer direction).

Lemma bd_octet_byte b d : is_byte (bd_octet b d).
Proof.
  unfold bd_octet, is_byte. change 256 with (2 ^ 8).
  destruct (N.eq_dec (N.lor ((b * 8) mod 2 ^ 8) ((d * 4) mod 2 ^ 8)) 0) as [->|Hnz]; [simpl; lia|].
  apply N.log2_lt_pow2; [lia|]. rewrite N.log2_lor.
  apply N.max_lub_lt; apply log2_lt_pow2'; try lia; apply N.mod_lt; simpl; lia.
Qed.

Lemma nea2_counter_cons count b d :
  nea2_counter count b d =
  [(count / 2 ^ 24) mod 256; (count / 2 ^ 16) mod 256; (count / 2 ^ 8) mod 256; count mod 256;
   bd_octet b d; 0; 0; 0; 0; 0; 0; 0; 0; 0; 0; 0].
Proof. reflexivity. Qed.

Lemma nea2_counter_ok count b d : block_ok (nea2_counter count b d).
Proof.
  rewrite nea2_counter_cons. split; [reflexivity|].
  repeat constructor; try (unfold is_byte; lia); try (apply N.mod_lt; lia). apply bd_octet_byte.
Qed.

Lemma bd_octet_valid b d : b < 32 -> d < 2 -> bd_octet b d = b * 8 + d * 4.
Proof.
  intros Hb Hd. unfold bd_octet.
  rewrite !N.mod_small by lia.
  change (b * 8) with (b * 2 ^ 3). apply lor_disjoint_add. simpl. lia.
Qed.

Ltac Zify.zify_post_hook ::= Z.div_mod_to_equations.

Lemma nea2_counter_val count b d : count < 2 ^ 32 -> b < 32 -> d < 2 ->
  be_val (nea2_counter count b d) = eea2_t1 count b d.
Proof.
  intros Hc Hb Hd. rewrite nea2_counter_cons, bd_octet_valid by assumption.
  unfold eea2_t1. cbn [be_val length]. 
  change (2 ^ 32) with 4294967296 in *. change (2 ^ 24) with 16777216. change (2 ^ 16) with 65536.
  change (2 ^ 8) with 256. change (2 ^ 27) with 134217728. change (2 ^ 26) with 67108864.
  change (2 ^ 64) with 18446744073709551616.
  repeat match goal with |- context [256 ^ N.of_nat ?n] =>
    let v := eval vm_compute in (256 ^ N.of_nat n) in change (256 ^ N.of_nat n) with v end.
  lia.
Qed.

(* the spec's 64-bit counter field and Go's 128-bit increment agree below 2^64 blocks *)
Lemma counter_block_go count b d j : count < 2 ^ 32 -> b < 32 -> d < 2 -> j < 2 ^ 64 ->
  counter_block 64 (eea2_t1 count b d) j = go_counter (nea2_counter count b d) j.
Proof.
  intros Hc Hb Hd Hj. unfold counter_block, go_counter. f_equal.
  rewrite nea2_counter_val by assumption. unfold eea2_t1.
  set (h := count * 2 ^ 32 + b * 2 ^ 27 + d * 2 ^ 26).
  assert (Hh : h < 2 ^ 64).
  { unfold h. change (2 ^ 32) with 4294967296 in *. change (2 ^ 27) with 134217728.
    change (2 ^ 26) with 67108864. change (2 ^ 64) with 18446744073709551616. lia. }
  rewrite N.div_mul by (apply N.pow_nonzero; lia).
  rewrite N.mod_mul by (apply N.pow_nonzero; lia).
  rewrite N.add_0_l, (N.mod_small j) by exact Hj.
  symmetry. apply N.mod_small.
  change (2 ^ 128) with (2 ^ 64 * 2 ^ 64). nia.
Qed.

(* why the bound: at block 2^64 the standard's 64-bit field has wrapped to T1 while Go's 128-bit
   counter has carried into the upper half *)
Example counter_disagree_at_2_64 :
  counter_block 64 (eea2_t1 7 3 1) (2 ^ 64) = counter_block 64 (eea2_t1 7 3 1) 0 /\
  go_counter (nea2_counter 7 3 1) (2 ^ 64) <> go_counter (nea2_counter 7 3 1) 0.
Proof. split; [vm_compute; reflexivity|vm_compute; discriminate]. Qed.

Section NEA2.
  Variable E : bytes -> bytes -> bytes.

  (* NEA2 in keystream form *)
  Definition nea2_ks (key : bytes) (count b d : N) (n : nat) : bytes :=
    firstn n (ctr_stream E key (Nat.div (n + 15) 16) (nea2_counter count b d)).

  Lemma NEA2_ks key count b d ibs : length key = 16%nat ->
    NEA2 E key count b d ibs = Ok (xorb ibs (nea2_ks key count b d (length ibs))).
  Proof.
    intro L. unfold NEA2, new_cipher. rewrite L. cbn [Nat.eqb obind].
    unfold xor_key_stream. fold (nea2_counter count b d).
    rewrite (proj1 (nea2_counter_ok count b d)). cbn [Nat.eqb].
    unfold nea2_ks. rewrite xorb_firstn_r. reflexivity.
  Qed.

  Lemma NEA2_badkey key count b d ibs : length key <> 16%nat -> NEA2 E key count b d ibs = Err.
  Proof.
    intro L. unfold NEA2, new_cipher. apply Nat.eqb_neq in L. rewrite L. reflexivity.
  Qed.

  (* C06, algorithm 2: the model of NEA2 is 128-EEA2 *)
  Theorem nea2_eq_eea2 key count b d ibs :
    length key = 16%nat -> count < 2 ^ 32 -> b < 32 -> d < 2 ->
    N.of_nat (length ibs) < 2 ^ 63 ->
    NEA2 E key count b d ibs = Ok (eea2 E key count b d ibs).
  Proof.
    intros L Hc Hb Hd Hlen. rewrite NEA2_ks by exact L. f_equal.
    unfold eea2, ctr_crypt, ctr_keystream, nea2_ks, ctr_output_blocks. do 2 f_equal.
    rewrite ctr_stream_blocks by apply nea2_counter_ok.
    f_equal. apply map_ext_in. intros j Hj. apply in_seq in Hj. f_equal.
    symmetry. apply counter_block_go; try assumption.
    assert (Nat.div (length ibs + 15) 16 <= length ibs + 15)%nat by (apply Nat.div_le_upper_bound; lia).
    change (2 ^ 63) with 9223372036854775808 in Hlen. change (2 ^ 64) with 18446744073709551616. lia.
  Qed.

  Hypothesis Ewf : E_wf E.

  Lemma nea2_ks_length key count b d n : block_ok key -> length (nea2_ks key count b d n) = n.
  Proof.
    intro K. unfold nea2_ks. rewrite firstn_length, ctr_stream_length by auto using nea2_counter_ok.
    pose proof (blocks_ge n). lia.
  Qed.

  Lemma nea2_ks_ok key count b d n : block_ok key -> bytes_ok (nea2_ks key count b d n).
  Proof.
    intro K. unfold nea2_ks. apply bytes_ok_firstn. apply ctr_stream_ok; auto using nea2_counter_ok.
  Qed.

  Lemma nea2_ks_prefix key count b d n m : block_ok key ->
    firstn n (nea2_ks key count b d (n + m)) = nea2_ks key count b d n.
  Proof.
    intro K. unfold nea2_ks. rewrite firstn_firstn_le by lia.
    pose proof (blocks_mono n m) as Hm.
    replace (Nat.div (n + m + 15) 16) with
      (Nat.div (n + 15) 16 + (Nat.div (n + m + 15) 16 - Nat.div (n + 15) 16))%nat by lia.
    rewrite ctr_stream_app. rewrite firstn_app.
    rewrite ctr_stream_length by auto using nea2_counter_ok.
    pose proof (blocks_ge n).
    replace (n - 16 * Nat.div (n + 15) 16)%nat with O by lia.
    rewrite firstn_O, app_nil_r. reflexivity.
  Qed.
End NEA2.

(* ---------- laws of any function of keystream form ---------- *)

Section KeystreamLaws.
  Variable ks : nat -> bytes.
  Variable dom : nat -> Prop.                     (* lengths for which the form is known *)
  Hypothesis ks_len : forall n, dom n -> length (ks n) = n.
  Hypothesis ks_prefix : forall n m, dom (n + m) -> firstn n (ks (n + m)) = ks n.

  Definition ksf (p : bytes) : bytes := xorb p (ks (length p)).

  Lemma ksf_length p : dom (length p) -> length (ksf p) = length p.
  Proof. intro D. unfold ksf. rewrite xorb_length, ks_len by exact D. lia. Qed.

  Lemma ksf_involution p : dom (length p) -> ksf (ksf p) = p.
  Proof.
    intro D. unfold ksf at 1. rewrite ksf_length by exact D. unfold ksf.
    apply xorb_involutive. rewrite ks_len by exact D. lia.
  Qed.

  Lemma ksf_prefix p n : dom (length p) -> ksf (firstn n p) = firstn n (ksf p).
  Proof.
    intro D. unfold ksf. rewrite xorb_firstn.
    destruct (Nat.le_gt_cases n (length p)) as [Hle|Hgt].
    - rewrite firstn_length_le by exact Hle.
      set (m := (length p - n)%nat).
      assert (EQ : length p = (n + m)%nat) by lia. clearbody m.
      rewrite EQ in D |- *.
      rewrite ks_prefix by exact D. reflexivity.
    - rewrite !firstn_all2 by (rewrite ?ks_len by exact D; lia). reflexivity.
  Qed.

  Lemma ksf_keystream p : dom (length p) -> xorb (ksf p) p = ks (length p).
  Proof. intro D. unfold ksf. apply xorb_cancel_l. rewrite ks_len by exact D. reflexivity. Qed.

  Lemma ksf_keystream_indep p q : dom (length p) -> length p = length q ->
    xorb (ksf p) p = xorb (ksf q) q.
  Proof. intros D L. rewrite !ksf_keystream by (rewrite <- ?L; exact D). rewrite L. reflexivity. Qed.
End KeystreamLaws.

(* ---------- C08 laws for NEA2 (every E, every count / bearer / direction) ---------- *)

Section NEA2Laws.
  Variable E : bytes -> bytes -> bytes.
  Hypothesis Ewf : E_wf E.
  Variables (key : bytes) (count b d : N).
  Hypothesis K : block_ok key.

  Let ks := nea2_ks E key count b d.
  Let dom (n : nat) := True.

  Lemma nea2_form p : NEA2 E key count b d p = Ok (ksf ks p).
  Proof. apply NEA2_ks. exact (proj1 K). Qed.

  Lemma ks_len_all : forall n, dom n -> length (ks n) = n.
  Proof. intros n _. apply nea2_ks_length; assumption. Qed.

  Lemma ks_prefix_all : forall n m, dom (n + m) -> firstn n (ks (n + m)) = ks n.
  Proof. intros n m _. apply nea2_ks_prefix; assumption. Qed.

  Theorem nea2_length p c : NEA2 E key count b d p = Ok c -> length c = length p.
  Proof.
    rewrite nea2_form. intro H. inversion H; subst.
    apply (ksf_length ks dom ks_len_all). exact I.
  Qed.

  Theorem nea2_involution p c : NEA2 E key count b d p = Ok c -> NEA2 E key count b d c = Ok p.
  Proof.
    rewrite !nea2_form. intro H. inversion H; subst. f_equal.
    apply (ksf_involution ks dom ks_len_all). exact I.
  Qed.

  Theorem nea2_prefix p c n : NEA2 E key count b d p = Ok c ->
    NEA2 E key count b d (firstn n p) = Ok (firstn n c).
  Proof.
    rewrite !nea2_form. intro H. inversion H; subst. f_equal.
    apply (ksf_prefix ks dom ks_len_all ks_prefix_all). exact I.
  Qed.

  Theorem nea2_keystream_indep p q c c' : length p = length q ->
    NEA2 E key count b d p = Ok c -> NEA2 E key count b d q = Ok c' -> xorb c p = xorb c' q.
  Proof.
    rewrite !nea2_form. intros L H H'. inversion H; inversion H'; subst.
    apply (ksf_keystream_indep ks dom ks_len_all); [exact I|exact L].
  Qed.

  Theorem nea2_total p : exists c, NEA2 E key count b d p = Ok c.
  Proof. eexists. apply nea2_form. Qed.
End NEA2Laws.
