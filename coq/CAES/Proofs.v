(* CAES: the API wrappers NASEncrypt / NASMacCalculate: dispatch, validation, NULL algorithm,
   the C08 laws lifted through the wrapper, MAC length, totality.
   NEA1/NEA3/NIA1/NIA3 are arbitrary functions constrained only by the interface below. *)
From NV Require Import Lib.Base Lib.Bits CAES.Util CAES.Spec CAES.Model
  CAES.Proofs_aes CAES.Proofs_ctr CAES.Proofs_cmac.
From Coq Require Import ZifyN ZifyNat ZifyBool.
Open Scope N_scope.

(* Go parameter ranges after validation: [16]byte key, uint32 COUNT, 5-bit bearer, 1-bit direction *)
Definition valid_args (k : bytes) (c b d : N) : Prop :=
  block_ok k /\ c < 2 ^ 32 /\ b < 32 /\ d < 2.

(* the wrapper passes len(payload)*8 as a uint32: lengths for which that does not wrap *)
Definition len32_ok (n : nat) : Prop := 8 * N.of_nat n < 2 ^ 32.

(* a downward-closed set of payload lengths inside the non-wrapping range (the domain on which a
   foreign function is known to behave; the largest one is len32_ok itself) *)
Record len_dom (dom : nat -> Prop) : Prop := {
  dom_le : forall n m, (n <= m)%nat -> dom m -> dom n;
  dom_32 : forall n, dom n -> len32_ok n
}.

Lemma len32_dom : len_dom len32_ok.
Proof. constructor; [unfold len32_ok; intros; lia|auto]. Qed.

(* ---- what the wrapper theorems need of a foreign stream cipher (NEA1 / NEA3):
        on whole octets it is "xor with a keystream that depends only on key, COUNT, bearer,
        direction and the number of octets", the keystream for n octets being a prefix of the
        one for n + m octets.  Derivable from: totality with length, keystream independence,
        prefix stability (stream_iface_of_laws below). *)
Record stream_iface (nea : bytes -> N -> N -> N -> bytes -> N -> outcome bytes)
                    (ks : bytes -> N -> N -> N -> nat -> bytes) (dom : nat -> Prop) : Prop := {
  si_len : forall k c b d n, valid_args k c b d -> dom n -> length (ks k c b d n) = n;
  si_prefix : forall k c b d n m, valid_args k c b d -> dom (n + m)%nat ->
              firstn n (ks k c b d (n + m)%nat) = ks k c b d n;
  si_eq : forall k c b d p, valid_args k c b d -> dom (length p) ->
          nea k c b d p (8 * N.of_nat (length p)) = Ok (xorb p (ks k c b d (length p)))
}.

(* ---- ... and of a foreign MAC function *)
Definition mac_iface (nia : bytes -> N -> N -> N -> bytes -> N -> outcome bytes)
                     (dom : nat -> Prop) : Prop :=
  forall k c b d m, valid_args k c b d -> bytes_ok m -> dom (length m) ->
  exists mac, nia k c b d m (8 * N.of_nat (length m)) = Ok mac /\ length mac = 4%nat.

Definition payload_ok (dom : nat -> Prop) (p : option bytes) : Prop :=
  match p with Some l => bytes_ok l /\ dom (length l) | None => True end.

Lemma copy_into_same dst src : length src = length dst -> copy_into dst src = src.
Proof. intro L. unfold copy_into. rewrite <- L, firstn_all. rewrite L, skipn_all, app_nil_r. reflexivity. Qed.

Lemma len32_wrap n : len32_ok n -> (N.of_nat n mod 2 ^ 32 * 8) mod 2 ^ 32 = 8 * N.of_nat n.
Proof.
  unfold len32_ok. intro H. change (2 ^ 32) with 4294967296 in *.
  rewrite (N.mod_small (N.of_nat n)) by lia. rewrite N.mod_small by lia. lia.
Qed.

Lemma len64_wrap n : len32_ok n -> (N.of_nat n mod 2 ^ 64 * 8) mod 2 ^ 64 = 8 * N.of_nat n.
Proof.
  unfold len32_ok. intro H. change (2 ^ 32) with 4294967296 in *.
  change (2 ^ 64) with 18446744073709551616.
  rewrite (N.mod_small (N.of_nat n)) by lia. rewrite N.mod_small by lia. lia.
Qed.

Definition invalid (alg b d : N) (payload : option bytes) : Prop :=
  31 < b \/ 1 < d \/ payload = None \/ 3 < alg.

(* anything else gets past the guards (see dispatch) *)
Lemma not_invalid alg b d p :
  ~ invalid alg b d (Some p) <-> (b <= 31 /\ d <= 1 /\ alg <= 3).
Proof. unfold invalid. split; [intro H|intros H [?|[?|[?|?]]]]; try discriminate; lia. Qed.

Lemma alg_cases alg : alg <= 3 -> alg = 0 \/ alg = 1 \/ alg = 2 \/ alg = 3.
Proof. lia. Qed.

(* ================= NASEncrypt ================= *)
Section EncAPI.
  Variable E : bytes -> bytes -> bytes.
  Variables nea1 nea3 : bytes -> N -> N -> N -> bytes -> N -> outcome bytes.

  Notation enc := (NASEncrypt E nea1 nea3).

  (* ---------- validation (no assumption on anything) ---------- *)

  Theorem encrypt_validation alg k c b d payload :
    invalid alg b d payload -> enc alg k c b d payload = (Err, payload).
  Proof.
    unfold invalid, NASEncrypt. intro H.
    destruct (31 <? b) eqn:Hb; [reflexivity|]. apply N.ltb_ge in Hb.
    destruct (1 <? d) eqn:Hd; [reflexivity|]. apply N.ltb_ge in Hd.
    destruct payload as [p|]; [|reflexivity].
    assert (Ha : 3 < alg) by (destruct H as [H|[H|[H|H]]]; [lia|lia|discriminate|exact H]).
    unfold AlgCiphering128NEA0, AlgCiphering128NEA1, AlgCiphering128NEA2, AlgCiphering128NEA3.
    destruct (alg =? 0) eqn:E0; [apply N.eqb_eq in E0; lia|].
    destruct (alg =? 1) eqn:E1; [apply N.eqb_eq in E1; lia|].
    destruct (alg =? 2) eqn:E2; [apply N.eqb_eq in E2; lia|].
    destruct (alg =? 3) eqn:E3; [apply N.eqb_eq in E3; lia|].
    reflexivity.
  Qed.

  (* ---------- dispatch is exact ---------- *)

  Theorem encrypt_dispatch k c b d p : b <= 31 -> d <= 1 ->
    enc 0 k c b d (Some p) = (Ok tt, Some p) /\
    enc 1 k c b d (Some p) =
      enc_finish p (nea1 k c b d p ((N.of_nat (length p) mod 2 ^ 32 * 8) mod 2 ^ 32)) /\
    enc 2 k c b d (Some p) = enc_finish p (NEA2 E k c b d p) /\
    enc 3 k c b d (Some p) =
      enc_finish p (nea3 k c b d p ((N.of_nat (length p) mod 2 ^ 32 * 8) mod 2 ^ 32)).
  Proof.
    intros Hb Hd. unfold NASEncrypt.
    apply N.ltb_ge in Hb, Hd. rewrite Hb, Hd. repeat split; reflexivity.
  Qed.

  (* ---------- NULL algorithm ---------- *)

  Theorem encrypt_null k c b d p : b <= 31 -> d <= 1 -> enc 0 k c b d (Some p) = (Ok tt, Some p).
  Proof. intros Hb Hd. apply (encrypt_dispatch k c b d p Hb Hd). Qed.

  (* the bit length handed to NEA1 / NEA3 is uint32(len(payload))*8: for a payload of 2^29 octets
     (512 MiB) it has wrapped to 0 (recorded as an observation; NAS payloads are < 2^16 octets) *)
  Lemma encrypt_bitlength_wraps k c b d (p : bytes) : b <= 31 -> d <= 1 ->
    N.of_nat (length p) = 2 ^ 29 ->
    enc 1 k c b d (Some p) = enc_finish p (nea1 k c b d p 0) /\
    enc 3 k c b d (Some p) = enc_finish p (nea3 k c b d p 0).
  Proof.
    intros Hb Hd L. destruct (encrypt_dispatch k c b d p Hb Hd) as [_ [H1 [_ H3]]].
    rewrite H1, H3, L. split; reflexivity.
  Qed.

  Hypothesis Ewf : E_wf E.

  (* ---------- algorithm 2 through the wrapper = 128-EEA2 ---------- *)

  Theorem encrypt_eea2 k c b d (p : bytes) : valid_args k c b d -> N.of_nat (length p) < 2 ^ 63 ->
    enc 2 k c b d (Some p) = (Ok tt, Some (eea2 E k c b d p)).
  Proof.
    intros [K [Hc [Hb Hd]]] Hl.
    destruct (encrypt_dispatch k c b d p ltac:(lia) ltac:(lia)) as [_ [_ [H2 _]]]. rewrite H2.
    pose proof (nea2_eq_eea2 E k c b d p (proj1 K) Hc Hb Hd Hl) as HE. rewrite HE.
    cbn [enc_finish]. rewrite copy_into_same; [reflexivity|].
    apply (nea2_length E Ewf k c b d K p). exact HE.
  Qed.

  (* ---------- the laws through the wrapper ---------- *)

  Variable dom : nat -> Prop.
  Hypothesis D : len_dom dom.
  Variables ks1 ks3 : bytes -> N -> N -> N -> nat -> bytes.
  Hypothesis I1 : stream_iface nea1 ks1 dom.
  Hypothesis I3 : stream_iface nea3 ks3 dom.

  (* the keystream of each algorithm *)
  Definition api_ks (alg : N) (k : bytes) (c b d : N) (n : nat) : bytes :=
    if alg =? 0 then zeros n
    else if alg =? 1 then ks1 k c b d n
    else if alg =? 2 then nea2_ks E k c b d n
    else ks3 k c b d n.

  Lemma api_ks_len alg k c b d n : alg <= 3 -> valid_args k c b d -> dom n ->
    length (api_ks alg k c b d n) = n.
  Proof.
    intros Ha V Hn. unfold api_ks.
    destruct (alg_cases alg Ha) as [ -> | [ -> | [ -> | -> ] ] ]; cbn [N.eqb Pos.eqb].
    - apply zeros_length.
    - apply (si_len _ _ _ I1); assumption.
    - apply nea2_ks_length; [exact Ewf|exact (proj1 V)].
    - apply (si_len _ _ _ I3); assumption.
  Qed.

  Lemma api_ks_prefix alg k c b d n m : alg <= 3 -> valid_args k c b d -> dom (n + m)%nat ->
    firstn n (api_ks alg k c b d (n + m)%nat) = api_ks alg k c b d n.
  Proof.
    intros Ha V Hn. unfold api_ks.
    destruct (alg_cases alg Ha) as [ -> | [ -> | [ -> | -> ] ] ]; cbn [N.eqb Pos.eqb].
    - unfold zeros. rewrite repeat_app, firstn_app, repeat_length, Nat.sub_diag, firstn_O, app_nil_r.
      rewrite <- (repeat_length 0 n) at 1. apply firstn_all.
    - apply (si_prefix _ _ _ I1); assumption.
    - apply nea2_ks_prefix; [exact Ewf|exact (proj1 V)].
    - apply (si_prefix _ _ _ I3); assumption.
  Qed.

  (* every valid call is "xor with the algorithm's keystream", written in place *)
  Lemma enc_form alg k c b d (p : bytes) :
    alg <= 3 -> valid_args k c b d -> dom (length p) ->
    enc alg k c b d (Some p) = (Ok tt, Some (ksf (api_ks alg k c b d) p)).
  Proof.
    intros Ha V Hn.
    pose proof (api_ks_len alg k c b d (length p) Ha V Hn) as KL.
    pose proof (dom_32 _ D _ Hn) as H32.
    destruct V as [K [Hc [Hb Hd]]].
    destruct (encrypt_dispatch k c b d p ltac:(lia) ltac:(lia)) as [H0 [H1 [H2 H3]]].
    unfold ksf, api_ks in *.
    destruct (alg_cases alg Ha) as [ -> | [ -> | [ -> | -> ] ] ]; cbn [N.eqb Pos.eqb] in *.
    - rewrite H0, xorb_zeros_r by lia. reflexivity.
    - rewrite H1, len32_wrap by exact H32.
      rewrite (si_eq _ _ _ I1) by (unfold valid_args; auto). cbn [enc_finish].
      rewrite copy_into_same; [reflexivity|]. rewrite xorb_length, KL. lia.
    - rewrite H2, NEA2_ks by exact (proj1 K). cbn [enc_finish].
      rewrite copy_into_same; [reflexivity|]. rewrite xorb_length, KL. lia.
    - rewrite H3, len32_wrap by exact H32.
      rewrite (si_eq _ _ _ I3) by (unfold valid_args; auto). cbn [enc_finish].
      rewrite copy_into_same; [reflexivity|]. rewrite xorb_length, KL. lia.
  Qed.

  (* C08: length, involution, prefix stability, keystream independence, for algorithms 0..3 *)
  Theorem encrypt_laws alg k c b d (p : bytes) :
    alg <= 3 -> valid_args k c b d -> dom (length p) ->
    exists ct,
      enc alg k c b d (Some p) = (Ok tt, Some ct) /\
      length ct = length p /\
      enc alg k c b d (Some ct) = (Ok tt, Some p) /\
      (forall n, enc alg k c b d (Some (firstn n p)) = (Ok tt, Some (firstn n ct))) /\
      (forall (q cq : bytes), length q = length p ->
                    enc alg k c b d (Some q) = (Ok tt, Some cq) -> xorb ct p = xorb cq q).
  Proof.
    intros Ha V Hn.
    set (ks := api_ks alg k c b d).
    assert (KL : forall n, dom n -> length (ks n) = n) by (intros; apply api_ks_len; assumption).
    assert (KP : forall n m, dom (n + m)%nat -> firstn n (ks (n + m)%nat) = ks n)
      by (intros; apply api_ks_prefix; assumption).
    exists (ksf ks p).
    pose proof (ksf_length ks dom KL p Hn) as CL.
    split; [apply enc_form; assumption|]. split; [exact CL|].
    split; [|split].
    - rewrite enc_form by (try assumption; rewrite CL; exact Hn).
      fold ks. rewrite (ksf_involution ks dom KL p Hn). reflexivity.
    - intro n. rewrite enc_form; try assumption.
      + fold ks. rewrite (ksf_prefix ks dom KL KP p n Hn). reflexivity.
      + apply (dom_le _ D _ (length p)); [rewrite firstn_length; lia|exact Hn].
    - intros q cq Lq Hq. rewrite enc_form in Hq by (try assumption; rewrite Lq; exact Hn).
      inversion Hq; subst cq. fold ks.
      apply (ksf_keystream_indep ks dom KL p q Hn). symmetry. exact Lq.
  Qed.

  (* the output octets are octets when the foreign keystreams are *)
  Lemma encrypt_bytes_ok alg k c b d p ct :
    (forall k c b d n, bytes_ok (ks1 k c b d n)) -> (forall k c b d n, bytes_ok (ks3 k c b d n)) ->
    alg <= 3 -> valid_args k c b d -> dom (length p) -> bytes_ok p ->
    enc alg k c b d (Some p) = (Ok tt, Some ct) -> bytes_ok ct.
  Proof.
    intros O1 O3 Ha V Hn O H. rewrite enc_form in H by assumption. inversion H; subst ct.
    apply xorb_bytes_ok; [exact O|]. unfold api_ks.
    destruct (alg_cases alg Ha) as [ -> | [ -> | [ -> | -> ] ] ]; cbn [N.eqb Pos.eqb]; auto.
    - apply zeros_ok.
    - apply nea2_ks_ok; [exact Ewf|exact (proj1 V)].
  Qed.

  (* no algorithm identity, bearer, direction, payload (nil, empty, any length) panics *)
  Theorem enc_total alg k c b d payload :
    block_ok k -> c < 2 ^ 32 -> payload_ok dom payload ->
    is_total (fst (enc alg k c b d payload)).
  Proof.
    intros K Hc P.
    destruct payload as [p|]; [|rewrite encrypt_validation by (unfold invalid; auto); exact I].
    destruct (N.le_gt_cases b 31) as [Hb|Hb]; [|rewrite encrypt_validation by (unfold invalid; auto); exact I].
    destruct (N.le_gt_cases d 1) as [Hd|Hd]; [|rewrite encrypt_validation by (unfold invalid; auto); exact I].
    destruct (N.le_gt_cases alg 3) as [Ha|Ha]; [|rewrite encrypt_validation by (unfold invalid; auto); exact I].
    destruct P as [O Hn].
    assert (V : valid_args k c b d) by (unfold valid_args; repeat split; try apply K; lia).
    rewrite enc_form by assumption. exact I.
  Qed.
End EncAPI.

(* ================= NASMacCalculate ================= *)
Section MacAPI.
  Variable E : bytes -> bytes -> bytes.
  Variables nia1 nia3 : bytes -> N -> N -> N -> bytes -> N -> outcome bytes.

  Notation mac := (NASMacCalculate E nia1 nia3).

  Theorem mac_validation alg k c b d msg :
    invalid alg b d msg -> mac alg k c b d msg = Err.
  Proof.
    unfold invalid, NASMacCalculate. intro H.
    destruct (31 <? b) eqn:Hb; [reflexivity|]. apply N.ltb_ge in Hb.
    destruct (1 <? d) eqn:Hd; [reflexivity|]. apply N.ltb_ge in Hd.
    destruct msg as [p|]; [|reflexivity].
    assert (Ha : 3 < alg) by (destruct H as [H|[H|[H|H]]]; [lia|lia|discriminate|exact H]).
    destruct (alg =? 0) eqn:E0; [apply N.eqb_eq in E0; lia|].
    destruct (alg =? 1) eqn:E1; [apply N.eqb_eq in E1; lia|].
    destruct (alg =? 2) eqn:E2; [apply N.eqb_eq in E2; lia|].
    destruct (alg =? 3) eqn:E3; [apply N.eqb_eq in E3; lia|].
    reflexivity.
  Qed.

  Theorem mac_dispatch k c b d m : b <= 31 -> d <= 1 ->
    mac 0 k c b d (Some m) = Ok (zeros 4) /\
    mac 1 k c b d (Some m) = nia1 k c b d m ((N.of_nat (length m) mod 2 ^ 64 * 8) mod 2 ^ 64) /\
    mac 2 k c b d (Some m) = NIA2 E k c b d m /\
    mac 3 k c b d (Some m) = nia3 k c b d m ((N.of_nat (length m) mod 2 ^ 32 * 8) mod 2 ^ 32).
  Proof.
    intros Hb Hd. unfold NASMacCalculate.
    apply N.ltb_ge in Hb, Hd. rewrite Hb, Hd. repeat split; reflexivity.
  Qed.

  Theorem mac_null k c b d m : b <= 31 -> d <= 1 -> mac 0 k c b d (Some m) = Ok [0; 0; 0; 0].
  Proof. intros Hb Hd. apply (mac_dispatch k c b d m Hb Hd). Qed.

  Hypothesis Ewf : E_wf E.

  Theorem mac_eia2 k c b d m : valid_args k c b d -> bytes_ok m ->
    mac 2 k c b d (Some m) = Ok (eia2 E k c b d m) /\ length (eia2 E k c b d m) = 4%nat.
  Proof.
    intros [K [Hc [Hb Hd]]] O.
    destruct (mac_dispatch k c b d m ltac:(lia) ltac:(lia)) as [_ [_ [H2 _]]]. rewrite H2.
    destruct (nia2_eq_eia2 E Ewf k c b d m K Hc Hb Hd O) as [A [B _]]. auto.
  Qed.

  Variable dom : nat -> Prop.
  Hypothesis D : len_dom dom.
  Hypothesis M1 : mac_iface nia1 dom.
  Hypothesis M3 : mac_iface nia3 dom.

  (* a MAC is always exactly 4 octets: every call returns an error or 4 octets (never panics),
     for every algorithm identity, bearer and direction *)
  Theorem mac_len4 alg k c b d msg :
    block_ok k -> c < 2 ^ 32 -> payload_ok dom msg ->
    mac alg k c b d msg = Err \/
    exists m, mac alg k c b d msg = Ok m /\ length m = 4%nat.
  Proof.
    intros K Hc P.
    destruct msg as [m|]; [|left; apply mac_validation; unfold invalid; auto].
    destruct (N.le_gt_cases b 31) as [Hb|Hb]; [|left; apply mac_validation; unfold invalid; auto].
    destruct (N.le_gt_cases d 1) as [Hd|Hd]; [|left; apply mac_validation; unfold invalid; auto].
    destruct (N.le_gt_cases alg 3) as [Ha|Ha]; [|left; apply mac_validation; unfold invalid; auto].
    right. destruct P as [O Hn].
    assert (V : valid_args k c b d) by (unfold valid_args; repeat split; try apply K; lia).
    destruct (mac_dispatch k c b d m Hb Hd) as [H0 [H1 [H2 H3]]].
    destruct (alg_cases alg Ha) as [ -> | [ -> | [ -> | -> ] ] ].
    - rewrite H0. eexists; split; reflexivity.
    - rewrite H1, len64_wrap by (apply (dom_32 _ D); exact Hn). apply M1; assumption.
    - rewrite H2. destruct (nia2_total E Ewf k c b d m K O) as [r [A [B _]]]. eauto.
    - rewrite H3, len32_wrap by (apply (dom_32 _ D); exact Hn). apply M3; assumption.
  Qed.

  Theorem mac_total alg k c b d msg :
    block_ok k -> c < 2 ^ 32 -> payload_ok dom msg -> is_total (mac alg k c b d msg).
  Proof.
    intros K Hc P. destruct (mac_len4 alg k c b d msg K Hc P) as [->|[m [-> _]]]; exact I.
  Qed.
End MacAPI.

(* ---------- the interface is satisfiable: NEA2 / NIA2 themselves meet it ---------- *)

Section IfaceInstances.
  Variable E : bytes -> bytes -> bytes.
  Hypothesis Ewf : E_wf E.

  Lemma nea2_stream_iface dom :
    stream_iface (fun k c b d p _ => NEA2 E k c b d p) (nea2_ks E) dom.
  Proof.
    constructor.
    - intros k c b d n [K _] _. apply nea2_ks_length; assumption.
    - intros k c b d n m [K _] _. apply nea2_ks_prefix; assumption.
    - intros k c b d p [K _] _. apply NEA2_ks. exact (proj1 K).
  Qed.

  Lemma nia2_mac_iface dom : mac_iface (fun k c b d m _ => NIA2 E k c b d m) dom.
  Proof.
    intros k c b d m [K _] O _.
    destruct (nia2_total E Ewf k c b d m K O) as [r [A [B _]]]. eauto.
  Qed.
End IfaceInstances.

(* ---------- the interface follows from the laws the other parts prove ----------
   totality + length, keystream independence and prefix stability of a function [nea] on whole
   octets give [stream_iface nea ks] with ks n := nea's output on n zero octets. *)

Section IfaceFromLaws.
  Variable nea : bytes -> N -> N -> N -> bytes -> N -> outcome bytes.
  Variable dom : nat -> Prop.

  Definition bits (p : bytes) : N := 8 * N.of_nat (length p).

  Hypothesis H_total : forall k c b d p, valid_args k c b d -> dom (length p) ->
    exists o, nea k c b d p (bits p) = Ok o /\ length o = length p.
  Hypothesis H_indep : forall k c b d p q o o', valid_args k c b d ->
    dom (length p) -> length p = length q ->
    nea k c b d p (bits p) = Ok o -> nea k c b d q (bits q) = Ok o' -> xorb o p = xorb o' q.
  Hypothesis H_prefix : forall k c b d p o n, valid_args k c b d ->
    dom (length p) -> (n <= length p)%nat ->
    nea k c b d p (bits p) = Ok o -> nea k c b d (firstn n p) (bits (firstn n p)) = Ok (firstn n o).

  Definition ks_of_zeros (k : bytes) (c b d : N) (n : nat) : bytes :=
    match nea k c b d (zeros n) (bits (zeros n)) with Ok o => o | _ => [] end.

  Lemma firstn_zeros n m : firstn n (zeros (n + m)) = zeros n.
  Proof.
    unfold zeros. rewrite repeat_app, firstn_app, repeat_length, Nat.sub_diag, firstn_O, app_nil_r.
    rewrite <- (repeat_length 0 n) at 1. apply firstn_all.
  Qed.

  Theorem stream_iface_of_laws : stream_iface nea ks_of_zeros dom.
  Proof.
    constructor.
    - intros k c b d n V Hn. unfold ks_of_zeros.
      destruct (H_total k c b d (zeros n) V) as [o [A B]]; [rewrite zeros_length; exact Hn|].
      rewrite A, B. apply zeros_length.
    - intros k c b d n m V Hn. unfold ks_of_zeros.
      destruct (H_total k c b d (zeros (n + m)) V) as [o [A B]]; [rewrite zeros_length; exact Hn|].
      rewrite A.
      pose proof (H_prefix k c b d (zeros (n + m)) o n V) as P.
      rewrite zeros_length, firstn_zeros in P. rewrite P; [reflexivity|exact Hn|lia|exact A].
    - intros k c b d p V Hn. unfold ks_of_zeros. fold (bits p).
      destruct (H_total k c b d p V Hn) as [o [A B]].
      destruct (H_total k c b d (zeros (length p)) V) as [z [A' B']]; [rewrite zeros_length; exact Hn|].
      rewrite A, A'. f_equal.
      pose proof (H_indep k c b d p (zeros (length p)) o z V Hn (eq_sym (zeros_length _)) A A') as I.
      rewrite zeros_length in B'.
      rewrite (xorb_zeros_r z) in I by lia.
      rewrite <- I. rewrite (xorb_comm p), xorb_involutive by lia. reflexivity.
  Qed.
End IfaceFromLaws.
