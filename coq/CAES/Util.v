(* CAES: small shared vocabulary (byte-wise xor, big-endian octet strings) used by
   both the specification and the model.  No lemma here mentions AES/CTR/CMAC. *)
From NV Require Import Lib.Base.
From Coq Require Import ZifyN ZifyNat ZifyBool.
Open Scope N_scope.

(* octet-wise xor, result as long as the shorter argument (Go subtle.XORBytes / the
   standards' "xor of two strings of equal length") *)
Fixpoint xorb (a b : bytes) : bytes :=
  match a, b with
  | x :: a', y :: b' => N.lxor x y :: xorb a' b'
  | _, _ => []
  end.

(* the n-octet big-endian representation of v mod 256^n *)
Fixpoint be_bytes (n : nat) (v : N) : bytes :=
  match n with
  | O => []
  | S k => (v / 256 ^ N.of_nat k) mod 256 :: be_bytes k v
  end.

Definition zeros (n : nat) : bytes := repeat 0 n.

(* ---------- xorb ---------- *)

Lemma xorb_length a b : length (xorb a b) = Nat.min (length a) (length b).
Proof. revert b; induction a as [|x a IH]; intros [|y b]; simpl; auto. Qed.

Lemma xorb_nil_r a : xorb a [] = [].
Proof. destruct a; reflexivity. Qed.

Lemma xorb_comm a b : xorb a b = xorb b a.
Proof.
  revert b; induction a as [|x a IH]; intros [|y b]; simpl; auto.
  rewrite N.lxor_comm, IH. reflexivity.
Qed.

Lemma xorb_assoc a b c : xorb (xorb a b) c = xorb a (xorb b c).
Proof.
  revert b c; induction a as [|x a IH]; intros [|y b] [|z c]; simpl; auto.
  rewrite N.lxor_assoc, IH. reflexivity.
Qed.

(* (p xor k) xor k = p as soon as k is at least as long as p *)
Lemma xorb_involutive p k : (length p <= length k)%nat -> xorb (xorb p k) k = p.
Proof.
  revert k; induction p as [|x p IH]; intros [|y k] H; simpl in *; auto; try lia.
  rewrite N.lxor_assoc, N.lxor_nilpotent, N.lxor_0_r, IH by lia. reflexivity.
Qed.

(* (p xor k) xor p = k when both have the same length *)
Lemma xorb_cancel_l p k : length p = length k -> xorb (xorb p k) p = k.
Proof.
  revert k; induction p as [|x p IH]; intros [|y k] H; simpl in *; auto; try lia.
  rewrite (N.lxor_comm x y), N.lxor_assoc, N.lxor_nilpotent, N.lxor_0_r, IH by lia. reflexivity.
Qed.

Lemma xorb_firstn n a b : firstn n (xorb a b) = xorb (firstn n a) (firstn n b).
Proof.
  revert a b; induction n as [|n IH]; intros [|x a] [|y b]; simpl; auto;
    try rewrite xorb_nil_r; try rewrite IH; reflexivity.
Qed.

Lemma xorb_skipn n a b : skipn n (xorb a b) = xorb (skipn n a) (skipn n b).
Proof.
  revert a b; induction n as [|n IH]; intros [|x a] [|y b]; simpl; auto;
    try rewrite xorb_nil_r; reflexivity.
Qed.

Lemma xorb_app a1 a2 b1 b2 :
  length a1 = length b1 -> xorb (a1 ++ a2) (b1 ++ b2) = xorb a1 b1 ++ xorb a2 b2.
Proof.
  revert b1; induction a1 as [|x a1 IH]; intros [|y b1] H; simpl in *; try lia; auto.
  rewrite IH by lia. reflexivity.
Qed.

Lemma xorb_zeros_r a n : (length a <= n)%nat -> xorb a (zeros n) = a.
Proof.
  revert n; induction a as [|x a IH]; intros [|n] H; simpl in *; auto; try lia.
  rewrite N.lxor_0_r. unfold zeros in IH. rewrite IH by lia. reflexivity.
Qed.

Lemma log2_lt_pow2' a n : 0 < n -> a < 2 ^ n -> N.log2 a < n.
Proof.
  intros Hn Ha. destruct (N.eq_dec a 0) as [->|Hnz]; [simpl; lia|].
  apply N.log2_lt_pow2; lia.
Qed.

Lemma lxor_lt_pow2 a b n : a < 2 ^ n -> b < 2 ^ n -> N.lxor a b < 2 ^ n.
Proof.
  intros Ha Hb.
  destruct (N.eq_dec n 0) as [->|Hn].
  { simpl in *. assert (a = 0) by lia. assert (b = 0) by lia. subst. simpl. lia. }
  destruct (N.eq_dec (N.lxor a b) 0) as [->|Hnz]; [apply N.neq_0_lt_0, N.pow_nonzero; lia|].
  apply N.log2_lt_pow2; [lia|].
  eapply N.le_lt_trans; [apply N.log2_lxor|].
  apply N.max_lub_lt; apply log2_lt_pow2'; lia.
Qed.

Lemma lxor_byte a b : is_byte a -> is_byte b -> is_byte (N.lxor a b).
Proof. unfold is_byte. change 256 with (2 ^ 8). apply lxor_lt_pow2. Qed.

Lemma xorb_bytes_ok a b : bytes_ok a -> bytes_ok b -> bytes_ok (xorb a b).
Proof.
  unfold bytes_ok. intros Ha; revert b; induction Ha as [|x a Hx Ha IH]; intros b Hb; simpl; auto.
  destruct Hb as [|y b Hy Hb]; constructor; auto using lxor_byte.
Qed.

(* ---------- be_bytes / be_val ---------- *)

Lemma be_bytes_length n v : length (be_bytes n v) = n.
Proof. induction n; simpl; auto. Qed.

Lemma be_bytes_ok n v : bytes_ok (be_bytes n v).
Proof.
  induction n; simpl; constructor; auto.
  unfold is_byte. apply N.mod_lt. lia.
Qed.

Lemma be_val_lt l : bytes_ok l -> be_val l < 256 ^ N.of_nat (length l).
Proof.
  induction 1 as [|x l Hx Hl IH]; simpl be_val; [simpl; lia|].
  unfold is_byte in Hx.
  replace (N.of_nat (length (x :: l))) with (N.succ (N.of_nat (length l))) by (simpl length; lia).
  rewrite N.pow_succ_r'. nia.
Qed.

Lemma divmod_helper w P Q : 0 < P -> 0 < Q ->
  ((w mod (P * (256 * Q))) / P) mod 256 = (w / P) mod 256.
Proof.
  intros HP HQ.
  rewrite N.mod_mul_r by lia.
  replace (w mod P + P * ((w / P) mod (256 * Q))) with (w mod P + ((w / P) mod (256 * Q)) * P) by lia.
  rewrite N.div_add by lia.
  rewrite (N.div_small (w mod P) P) by (apply N.mod_lt; lia). rewrite N.add_0_l.
  rewrite N.mod_mul_r by lia.
  replace ((w / P) mod 256 + 256 * ((w / P / 256) mod Q)) with ((w / P) mod 256 + ((w / P / 256) mod Q) * 256) by lia.
  rewrite N.mod_add by lia. rewrite N.mod_mod by lia. reflexivity.
Qed.

Lemma be_bytes_mod n v : be_bytes n (v mod 256 ^ N.of_nat n) = be_bytes n v.
Proof.
  assert (G : forall k m v, (k <= m)%nat -> be_bytes k (v mod 256 ^ N.of_nat m) = be_bytes k v).
  { induction k as [|k IH]; intros m w Hkm; simpl; auto.
    rewrite IH by lia. f_equal.
    replace (N.of_nat m) with (N.of_nat k + N.succ (N.of_nat m - N.of_nat k - 1)) by lia.
    rewrite N.pow_add_r, N.pow_succ_r'.
    apply divmod_helper; apply N.neq_0_lt_0, N.pow_nonzero; lia. }
  apply G. lia.
Qed.

Lemma be_bytes_be_val l : bytes_ok l -> be_bytes (length l) (be_val l) = l.
Proof.
  induction 1 as [|x l Hx Hl IH]; simpl; auto.
  pose proof (be_val_lt l Hl) as Hlt.
  set (P := 256 ^ N.of_nat (length l)) in *.
  assert (0 < P) by (apply N.neq_0_lt_0, N.pow_nonzero; lia).
  unfold is_byte in Hx.
  f_equal.
  - rewrite N.div_add_l by lia. rewrite (N.div_small _ P) by lia. rewrite N.add_0_r.
    apply N.mod_small. lia.
  - rewrite <- (be_bytes_mod (length l)). fold P.
    rewrite N.add_comm, N.mod_add by lia. rewrite N.mod_small by lia. exact IH.
Qed.

Lemma be_val_be_bytes n v : be_val (be_bytes n v) = v mod 256 ^ N.of_nat n.
Proof.
  induction n as [|n IH]; [simpl; rewrite N.mod_1_r; reflexivity|].
  cbn [be_bytes be_val]. rewrite be_bytes_length, IH.
  replace (N.of_nat (S n)) with (N.succ (N.of_nat n)) by lia. rewrite N.pow_succ_r'.
  set (P := 256 ^ N.of_nat n).
  assert (0 < P) by (apply N.neq_0_lt_0, N.pow_nonzero; lia).
  rewrite (N.mul_comm 256 P), N.mod_mul_r by lia. lia.
Qed.

Lemma be_val_inj a b :
  bytes_ok a -> bytes_ok b -> length a = length b -> be_val a = be_val b -> a = b.
Proof.
  intros Ha Hb Hl Hv.
  rewrite <- (be_bytes_be_val a Ha), <- (be_bytes_be_val b Hb), Hl, Hv. reflexivity.
Qed.

Lemma zeros_length n : length (zeros n) = n.
Proof. apply repeat_length. Qed.

Lemma zeros_ok n : bytes_ok (zeros n).
Proof. induction n; simpl; constructor; auto; unfold is_byte; lia. Qed.

Lemma be_val_zeros n : be_val (zeros n) = 0.
Proof. induction n; simpl; auto. Qed.

Lemma bytes_ok_app a b : bytes_ok a -> bytes_ok b -> bytes_ok (a ++ b).
Proof. unfold bytes_ok. intros. apply Forall_app; auto. Qed.

Lemma In_firstn' {A} (x : A) n l : In x (firstn n l) -> In x l.
Proof. revert l; induction n; intros [|y l]; simpl; auto; try tauto. intros [H|H]; auto. Qed.

Lemma bytes_ok_firstn n a : bytes_ok a -> bytes_ok (firstn n a).
Proof.
  unfold bytes_ok. intro H. apply Forall_forall. intros x Hx.
  rewrite Forall_forall in H. apply H. eapply In_firstn'; eauto.
Qed.

Lemma In_skipn {A} (x : A) n l : In x (skipn n l) -> In x l.
Proof. revert l; induction n; intros [|y l]; simpl; auto. Qed.

Lemma bytes_ok_skipn n a : bytes_ok a -> bytes_ok (skipn n a).
Proof.
  unfold bytes_ok. intro H. apply Forall_forall. intros x Hx.
  rewrite Forall_forall in H. apply H. eapply In_skipn; eauto.
Qed.
