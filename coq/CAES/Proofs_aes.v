(* CAES: well-formedness of the FIPS-197 AES-128 of Spec.v: on a 16-octet key and block it
   returns a 16-octet block (the contract every mode-of-operation lemma needs of E). *)
From NV Require Import Lib.Base CAES.Util CAES.Spec.
From Coq Require Import ZifyN ZifyNat ZifyBool.
Open Scope N_scope.

Definition block_ok (b : bytes) : Prop := length b = 16%nat /\ bytes_ok b.

(* what the mode lemmas assume of a block cipher E : key -> block -> block *)
Definition E_wf (E : bytes -> bytes -> bytes) : Prop :=
  forall k b, block_ok k -> block_ok b -> block_ok (E k b).

Lemma block_ok_zeros : block_ok (zeros 16).
Proof. split; [apply zeros_length | apply zeros_ok]. Qed.

Lemma block_ok_be_bytes v : block_ok (be_bytes 16 v).
Proof. split; [apply be_bytes_length | apply be_bytes_ok]. Qed.

Lemma block_ok_xorb a b : block_ok a -> block_ok b -> block_ok (xorb a b).
Proof.
  intros [La Oa] [Lb Ob]. split.
  - rewrite xorb_length, La, Lb. reflexivity.
  - apply xorb_bytes_ok; assumption.
Qed.

Lemma SBOX_bytes : bytes_okb SBOX = true.
Proof. vm_compute. reflexivity. Qed.

Lemma sbox_byte b : is_byte (sbox b).
Proof.
  unfold sbox.
  pose proof (proj1 (bytes_okb_spec SBOX) SBOX_bytes) as H.
  destruct (nth_in_or_default (N.to_nat b) SBOX 0) as [Hin|Hd].
  - unfold bytes_ok in H. rewrite Forall_forall in H. apply H. exact Hin.
  - rewrite Hd. unfold is_byte. lia.
Qed.

Lemma map_sbox_ok l : bytes_ok (map sbox l).
Proof. induction l; simpl; constructor; auto using sbox_byte. Qed.

Lemma xtime_byte b : is_byte b -> is_byte (xtime b).
Proof.
  unfold is_byte, xtime. intro H.
  destruct (b <? 128) eqn:Hb.
  - apply N.ltb_lt in Hb. lia.
  - change 256 with (2 ^ 8). apply lxor_lt_pow2.
    + apply N.mod_lt. lia.
    + simpl. lia.
Qed.

Lemma sub_bytes_ok s : length s = 16%nat -> block_ok (sub_bytes s).
Proof. intro L. split; [unfold sub_bytes; rewrite map_length; exact L | apply map_sbox_ok]. Qed.

Lemma nth_byte l i : bytes_ok l -> is_byte (nth i l 0).
Proof.
  intro H. destruct (nth_in_or_default i l 0) as [Hin|Hd].
  - unfold bytes_ok in H. rewrite Forall_forall in H. auto.
  - rewrite Hd. unfold is_byte. lia.
Qed.

Lemma shift_rows_ok s : bytes_ok s -> block_ok (shift_rows s).
Proof.
  intro H. split.
  - unfold shift_rows. rewrite map_length, seq_length. reflexivity.
  - unfold shift_rows, bytes_ok. apply Forall_forall. intros x Hx.
    apply in_map_iff in Hx as [i [<- _]]. apply nth_byte. exact H.
Qed.

Lemma mix_column_ok a0 a1 a2 a3 :
  is_byte a0 -> is_byte a1 -> is_byte a2 -> is_byte a3 -> bytes_ok (mix_column a0 a1 a2 a3).
Proof.
  intros. unfold mix_column, mul2, mul3.
  repeat constructor; repeat apply lxor_byte; auto using xtime_byte.
Qed.

Lemma mix_columns_ok s : block_ok s -> block_ok (mix_columns s).
Proof.
  intros [L O].
  do 16 (destruct s as [|? s]; [discriminate L|]). destruct s; [|discriminate L].
  unfold bytes_ok in O.
  repeat match goal with H : Forall _ (_ :: _) |- _ => inversion H; clear H; subst end.
  split; [reflexivity|].
  cbn [mix_columns]. repeat apply bytes_ok_app; try apply mix_column_ok; auto; constructor.
Qed.

(* ---- key expansion ---- *)

Definition word_ok (w : bytes) : Prop := length w = 4%nat /\ bytes_ok w.

Lemma word_ok_xorb a b : word_ok a -> word_ok b -> word_ok (xorb a b).
Proof.
  intros [La Oa] [Lb Ob]. split.
  - rewrite xorb_length, La, Lb. reflexivity.
  - apply xorb_bytes_ok; assumption.
Qed.

Lemma rcon_byte j : is_byte (rcon j).
Proof.
  induction j as [|j IH]; [unfold is_byte; simpl; lia|].
  destruct j as [|j]; [unfold is_byte; simpl; lia|].
  change (rcon (S (S j))) with (xtime (rcon (S j))). apply xtime_byte. exact IH.
Qed.

Lemma word_ok_step w i : word_ok w ->
  word_ok (xorb (sub_word (rot_word w)) [rcon i; 0; 0; 0]).
Proof.
  intros [L O]. apply word_ok_xorb.
  - split.
    + unfold sub_word. rewrite map_length.
      do 4 (destruct w as [|? w]; [discriminate L|]). destruct w; [|discriminate L]. reflexivity.
    + apply map_sbox_ok.
  - split; [reflexivity|]. repeat constructor; try (unfold is_byte; lia). apply rcon_byte.
Qed.

Lemma nth_word_ok (l : list bytes) i :
  Forall word_ok l -> (i < length l)%nat -> word_ok (nth i l []).
Proof.
  intros H Hi. rewrite Forall_forall in H. apply H. apply nth_In. exact Hi.
Qed.

Lemma key_expand_loop_wf n : forall i rw,
  Forall word_ok rw -> (4 <= length rw)%nat ->
  Forall word_ok (key_expand_loop n i rw) /\
  length (key_expand_loop n i rw) = (n + length rw)%nat.
Proof.
  induction n as [|n IH]; intros i rw H L; cbn [key_expand_loop]; [auto|].
  assert (W0 : word_ok (nth 0 rw [])) by (apply nth_word_ok; [assumption|lia]).
  assert (W3 : word_ok (nth 3 rw [])) by (apply nth_word_ok; [assumption|lia]).
  match goal with |- Forall _ (key_expand_loop n (S i) ?r) /\ _ => 
    destruct (IH (S i) r) as [A B] end.
  - constructor; [|assumption]. apply word_ok_xorb; [assumption|].
    destruct (Nat.eqb (Nat.modulo i 4) 0); [apply word_ok_step|]; assumption.
  - simpl. lia.
  - split; [exact A|]. rewrite B. simpl. lia.
Qed.

Lemma key_words_wf key : block_ok key -> Forall word_ok (key_words key).
Proof.
  intros [L O].
  unfold key_words. repeat constructor;
    try (rewrite firstn_length, ?skipn_length, L; reflexivity);
    auto using bytes_ok_firstn, bytes_ok_skipn.
Qed.

Lemma key_expansion_wf key : block_ok key ->
  Forall word_ok (key_expansion key) /\ length (key_expansion key) = 44%nat.
Proof.
  intro K. unfold key_expansion.
  destruct (key_expand_loop_wf 40 4 (rev (key_words key))) as [A B].
  - apply Forall_rev. apply key_words_wf. exact K.
  - rewrite rev_length. simpl. lia.
  - split; [apply Forall_rev; exact A|].
    rewrite rev_length, B, rev_length. reflexivity.
Qed.

Lemma concat_words_ok (l : list bytes) :
  Forall word_ok l -> length (concat l) = (4 * length l)%nat /\ bytes_ok (concat l).
Proof.
  induction 1 as [|w l [Lw Ow] Hl [IH1 IH2]]; simpl; [split; [reflexivity|constructor]|].
  split; [rewrite app_length, Lw, IH1; lia | apply bytes_ok_app; assumption].
Qed.

Lemma Forall_firstn' {A} (P : A -> Prop) n l : Forall P l -> Forall P (firstn n l).
Proof.
  intro H. apply Forall_forall. intros x Hx. rewrite Forall_forall in H.
  apply H. eapply In_firstn'; eauto.
Qed.

Lemma Forall_skipn' {A} (P : A -> Prop) n l : Forall P l -> Forall P (skipn n l).
Proof.
  intro H. apply Forall_forall. intros x Hx. rewrite Forall_forall in H.
  apply H. eapply In_skipn; eauto.
Qed.

Lemma round_key_ok w r :
  Forall word_ok w -> length w = 44%nat -> (r <= 10)%nat -> block_ok (round_key w r).
Proof.
  intros H L Hr. unfold round_key.
  destruct (concat_words_ok (firstn 4 (skipn (4 * r) w))) as [A B].
  - apply Forall_firstn', Forall_skipn'. exact H.
  - split; [|exact B]. rewrite A, firstn_length, skipn_length, L. lia.
Qed.

Lemma aes_round_ok w s r :
  Forall word_ok w -> length w = 44%nat -> (r <= 10)%nat -> block_ok s -> block_ok (aes_round w s r).
Proof.
  intros H L Hr [Ls Os]. unfold aes_round, add_round_key.
  apply block_ok_xorb; [|apply round_key_ok; assumption].
  apply mix_columns_ok, shift_rows_ok. apply (sub_bytes_ok s Ls).
Qed.

Lemma fold_rounds_ok w rs s :
  Forall word_ok w -> length w = 44%nat -> Forall (fun r => (r <= 10)%nat) rs -> block_ok s ->
  block_ok (fold_left (aes_round w) rs s).
Proof.
  intros H L Hrs. revert s. induction Hrs as [|r rs Hr _ IH]; intros s Hs; simpl; [exact Hs|].
  apply IH. apply aes_round_ok; assumption.
Qed.

Theorem aes128_wf : E_wf aes128.
Proof.
  intros key b K B. unfold aes128, aes_cipher, add_round_key.
  destruct (key_expansion_wf key K) as [H L].
  apply block_ok_xorb; [|apply round_key_ok; auto; lia].
  apply shift_rows_ok.
  match goal with |- bytes_ok (sub_bytes ?s) => assert (Hs : block_ok s) end.
  { apply fold_rounds_ok; auto.
    - apply Forall_forall. intros r Hr. apply in_seq in Hr. lia.
    - apply block_ok_xorb; [exact B|apply round_key_ok; auto; lia]. }
  apply (sub_bytes_ok _ (proj1 Hs)).
Qed.
