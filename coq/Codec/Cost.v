(* C01 (bounds): a cost model of the decoder -- executed statements and allocated octets -- and the
   proof that both are bounded by a linear function of the input length plus one maximum-size element.
   The cost functions follow decode_def's control flow; what is charged:
     binary.Read of n octets: 1 step, n octets (its temporary buffer is allocated BEFORE the read,
       so it is charged even when the input is too short);
     a length check, SetLen: 1 step each; SetLen on a Buffer-backed element allocates Len octets;
     NewX(iei): 1 step, the element struct (capacity + 32 octets);
     one loop iteration: 3 steps (read identifier, classify, switch). *)
From NV Require Import Lib.Base Codec.Lang Codec.Def Codec.Sem Codec.Total.
From Coq Require Import String ZifyN ZifyNat ZifyBool.
Open Scope N_scope.

Definition struct_size (sd : slotdef) : N := N.of_nat (sh_cap (sd_shape sd)) + 32.

(* octets requested by the value read of a slot whose current value is v *)
Definition val_request (sd : slotdef) (v : ieval) : N :=
  match sd_val sd with
  | VOctet => 1
  | VArrAll => N.of_nat (sh_cap (sd_shape sd))
  | VArrN n => n
  | VArrLen => v_len v
  | VBuf => N.of_nat (List.length (v_oct v))
  | _ => 0
  end.

(* (steps, octets) of one dec_slot call *)
Definition slot_cost (sd : slotdef) (iei : N) (v : ieval) (bs : bytes) : N * N :=
  if sd_haslen sd then
    let w := N.of_nat (sh_lenw (sd_shape sd)) in
    match dec_len sd v bs with
    | Ok (v1, r) =>
        (4, w + (if sh_isbuf (sd_shape sd) then v_len v1 else 0) + val_request sd v1)
    | _ => (2, w)
    end
  else (1, val_request sd v).

Fixpoint mand_cost (d : msgdef) (bs : bytes) : N * N :=
  match d with
  | [] => (0, 0)
  | sd :: t =>
      if sd_mand sd then
        let c := slot_cost sd 0 (zero_val sd) bs in
        match dec_slot sd 0 (zero_val sd) bs with
        | Ok (_, r) => let c' := mand_cost t r in (fst c + fst c', snd c + snd c')
        | _ => c
        end
      else mand_cost t bs
  end.

Fixpoint loop_cost (fuel : nat) (d : msgdef) (bs : bytes) : N * N :=
  match bs with
  | [] => (1, 0)
  | b :: rest =>
      match fuel with
      | O => (0, 0)
      | S f =>
          match find_opt d (classify b) 0 with
          | None => let c' := loop_cost f d rest in (3 + fst c', 1 + snd c')
          | Some (_, sd) =>
              let c := slot_cost sd b (new_val sd b) rest in
              match dec_slot sd b (new_val sd b) rest with
              | Ok (_, r) => let c' := loop_cost f d r in
                             (4 + fst c + fst c', 1 + struct_size sd + snd c + snd c')
              | _ => (4 + fst c, 1 + struct_size sd + snd c)
              end
          end
      end
  end.

Definition decode_cost (d : msgdef) (bs : bytes) : N * N :=
  let c := mand_cost d bs in
  match dec_mand d bs with
  | Ok (_, r) => let c' := loop_cost (S (List.length r)) d r in (fst c + fst c', snd c + snd c')
  | _ => c
  end.

(* ---------- bounds ---------- *)

Definition max_struct (d : msgdef) : N := fold_right (fun sd m => N.max (struct_size sd) m) 0 d.

Lemma struct_le_max d sd : In sd d -> struct_size sd <= max_struct d.
Proof.
  induction d as [|x t IH]; intro H; [destruct H|].
  destruct H as [->|H]; cbn [max_struct fold_right]; [lia|].
  specialize (IH H). unfold max_struct in IH. lia.
Qed.

(* one slot: a successful slot charges at most 2 octets per consumed octet (+ its fixed part);
   a failing one at most one maximum-size element twice (Buffer + temporary) *)
Definition BIG : N := 2 * 65536 + 2.

Lemma be_val_lt l : bytes_ok l -> be_val l < 256 ^ N.of_nat (List.length l).
Proof.
  induction l as [|b t IH]; intro H; cbn [be_val List.length].
  - cbn. lia.
  - inversion H as [|? ? Hb Ht]; subst. specialize (IH Ht). unfold is_byte in Hb.
    replace (N.of_nat (S (List.length t))) with (N.of_nat (List.length t) + 1) by lia.
    rewrite N.pow_add_r, N.pow_1_r. nia.
Qed.

Definition slot_costb (sd : slotdef) : bool :=
  match sd_shape sd with
  | ShKnown _ w _ => (if sd_haslen sd then Nat.eqb w 1 || Nat.eqb w 2 else true) &&
                     (negb (sh_isbuf (sd_shape sd)) || match sd_val sd with VBuf => true | _ => false end) &&
                     match sd_val sd with
                     | VBuf => sd_haslen sd && sh_isbuf (sd_shape sd)
                     | VArrN n => n <=? N.of_nat (sh_cap (sd_shape sd))
                     | VArrLen => sd_haslen sd
                     | _ => true
                     end
  | ShUnknown => false
  end.

Lemma slot_cost_steps sd iei v bs : fst (slot_cost sd iei v bs) <= 4.
Proof.
  unfold slot_cost. destruct (sd_haslen sd); [|cbn; lia].
  destruct (dec_len sd v bs) as [[v1 r]| | |]; cbn; lia.
Qed.

Lemma take_len n bs x r : take n bs = Some (x, r) -> List.length bs = (n + List.length r)%nat /\ List.length x = n.
Proof. intro H. apply take_length in H as (A & _ & C). subst bs. rewrite app_length. lia. Qed.

(* a slot that succeeds is charged at most 2 octets per consumed octet *)
Lemma slot_cost_ok sd iei v bs v' r :
  slot_costb sd = true -> v_len v = 0 ->
  dec_slot sd iei v bs = Ok (v', r) ->
  (List.length r <= List.length bs)%nat /\
  snd (slot_cost sd iei v bs) <= 2 * N.of_nat (List.length bs - List.length r).
Proof.
  intros Hc Hl0 H. unfold slot_costb in Hc. destruct (sd_shape sd) as [h w bk|] eqn:Esh; [|discriminate].
  apply andb_true_iff in Hc as [Hw Hv]. apply andb_true_iff in Hw as [Hw Hnb].
  cbn [sh_isbuf] in Hnb.
  unfold slot_cost. unfold dec_slot in H.
  destruct (sd_haslen sd) eqn:Ehl.
  - destruct (dec_len sd v bs) as [[v1 r1]| | |] eqn:El; try discriminate. cbn [obind fst snd] in H.
    unfold dec_len in El. rewrite Ehl, Esh in El. cbn [sh_lenw sh_isbuf] in El.
    destruct (take w bs) as [[lb rr]|] eqn:Et; [|discriminate].
    destruct (check_fails (sd_check sd) (be_val lb)); [discriminate|]. inversion El; subst v1 r1. clear El.
    apply take_len in Et as (Lbs & Llb).
    rewrite Esh. cbn [sh_lenw sh_isbuf snd v_len].
    unfold dec_val in H. rewrite Esh in H. cbn [sh_cap v_len v_oct] in H.
    unfold val_request. rewrite Esh. cbn [sh_cap v_len v_oct].
    destruct (sd_val sd) eqn:Ev; try discriminate.
    + destruct (take 1 rr) as [[x r']|] eqn:E2; [|discriminate]. inversion H; subst. apply take_len in E2 as (A & B).
      destruct bk; cbn in Hnb; try discriminate Hnb; split; lia.
    + destruct (take _ rr) as [[x r']|] eqn:E2; [|discriminate]. inversion H; subst. apply take_len in E2 as (A & B).
      destruct bk; cbn in Hnb; try discriminate Hnb; cbn [sh_cap] in *; split; lia.
    + destruct (Nat.ltb _ _); [discriminate|].
      destruct (take _ rr) as [[x r']|] eqn:E2; [|discriminate]. inversion H; subst. apply take_len in E2 as (A & B).
      destruct bk; cbn in Hnb; try discriminate Hnb; split; lia.
    + destruct (Nat.ltb _ _); [discriminate|].
      destruct (take _ rr) as [[x r']|] eqn:E2; [|discriminate]. inversion H; subst. apply take_len in E2 as (A & B).
      destruct bk; cbn in Hnb; try discriminate Hnb; split; lia.
    + apply andb_true_iff in Hv as [_ Hb]. unfold sh_isbuf in Hb. destruct bk; try discriminate.
      rewrite repeat_length in *.
      destruct (take _ rr) as [[x r']|] eqn:E2; [|discriminate]. inversion H; subst. apply take_len in E2 as (A & B).
      split; lia.
    + inversion H; subst. destruct bk; cbn in Hnb; try discriminate Hnb; split; lia.
    + inversion H; subst. destruct bk; cbn in Hnb; try discriminate Hnb; split; lia.
  - cbn [obind fst snd] in H. unfold dec_len in H. rewrite Ehl in H. cbn [obind fst snd] in H.
    unfold dec_val in H. rewrite Esh in H. cbn [sh_cap] in H.
    unfold val_request. rewrite Esh. cbn [sh_cap snd].
    destruct (sd_val sd) eqn:Ev; try discriminate.
    all: try (apply andb_true_iff in Hv as [Hv _]; discriminate Hv).
    all: try (destruct (Nat.ltb _ _); [discriminate|]).
    all: try (match type of H with context [take ?n ?b] => destruct (take n b) as [[x r']|] eqn:E2; [|discriminate] end;
              inversion H; subst; apply take_len in E2 as (A & B); split; lia).
    all: try (inversion H; subst; split; lia).
Qed.

(* any slot call, successful or not, is charged at most one maximum-size element twice plus the struct *)
Lemma slot_cost_any sd iei v bs d :
  slot_costb sd = true -> In sd d -> bytes_ok bs -> v_len v = 0 ->
  snd (slot_cost sd iei v bs) <= BIG + max_struct d.
Proof.
  intros Hc Hin Hb Hl0. pose proof (struct_le_max d sd Hin) as Hms. unfold struct_size in Hms.
  unfold slot_costb in Hc. destruct (sd_shape sd) as [h w bk|] eqn:Esh; [|discriminate].
  apply andb_true_iff in Hc as [Hw Hv]. apply andb_true_iff in Hw as [Hw Hnb]. cbn [sh_cap] in *.
  unfold slot_cost, BIG.
  destruct (sd_haslen sd) eqn:Ehl.
  - assert (Hw12 : w = 1%nat \/ w = 2%nat) by (apply orb_true_iff in Hw as [E|E]; apply Nat.eqb_eq in E; auto).
    destruct (dec_len sd v bs) as [[v1 r1]| | |] eqn:El; cbn [snd]; rewrite ?Esh; cbn [sh_lenw]; try (destruct Hw12; subst; lia).
    unfold dec_len in El. rewrite Ehl, Esh in El. cbn [sh_lenw sh_isbuf] in El.
    destruct (take w bs) as [[lb rr]|] eqn:Et; [|discriminate].
    destruct (check_fails (sd_check sd) (be_val lb)); [discriminate|]. inversion El; subst v1 r1. clear El.
    pose proof Et as Et'. apply take_length in Et' as (Llb & _ & Ebs).
    assert (Hlbok : bytes_ok lb).
    { rewrite Ebs in Hb. unfold bytes_ok in *. apply Forall_app in Hb. tauto. }
    pose proof (be_val_lt lb Hlbok) as Hbd. rewrite Llb in Hbd.
    assert (Hl : be_val lb < 65536).
    { destruct Hw12; subst w; [change (256 ^ N.of_nat 1) with 256 in Hbd|change (256 ^ N.of_nat 2) with 65536 in Hbd]; lia. }
    cbn [sh_isbuf v_len]. unfold val_request. rewrite Esh. cbn [sh_cap v_len v_oct].
    destruct (sd_val sd) eqn:Ev; destruct bk; cbn [sh_cap] in *; rewrite ?repeat_length;
      try (apply N.leb_le in Hv); try lia.
    all: apply andb_true_iff in Hv as [_ Hv]; cbn in Hv; discriminate Hv.
  - cbn [snd]. unfold val_request. rewrite Esh. cbn [sh_cap].
    destruct (sd_val sd) eqn:Ev; destruct bk; cbn [sh_cap] in *; try (apply N.leb_le in Hv); try lia;
      try (apply andb_true_iff in Hv as [Hv _]; discriminate).
Qed.

(* ---------- the unconsumed input stays a list of octets ---------- *)
Lemma take_ok n bs x r : take n bs = Some (x, r) -> bytes_ok bs -> bytes_ok r.
Proof.
  intros H Hb. apply take_length in H as (_ & _ & E). subst bs. unfold bytes_ok in *.
  apply Forall_app in Hb. tauto.
Qed.

Lemma dec_slot_rest_ok sd iei v bs v' r : dec_slot sd iei v bs = Ok (v', r) -> bytes_ok bs -> bytes_ok r.
Proof.
  unfold dec_slot. destruct (dec_len sd v bs) as [[v1 r1]| | |] eqn:El; try discriminate.
  cbn [obind fst snd]. intros H Hb.
  assert (Hb1 : bytes_ok r1).
  { unfold dec_len in El. destruct (sd_haslen sd); [|inversion El; subst; exact Hb].
    destruct (take _ bs) as [[lb rr]|] eqn:Et; [|discriminate].
    destruct (check_fails _ _); [discriminate|]. inversion El; subst. eapply take_ok; eassumption. }
  clear El. unfold dec_val in H.
  destruct (sd_val sd); try (inversion H; subst; exact Hb1);
    repeat match type of H with
    | context [if ?c then _ else _] => destruct c; try discriminate
    end;
    match type of H with context [take ?n ?b] => destruct (take n b) as [[x r']|] eqn:E; [|discriminate] end;
    inversion H; subst; eapply take_ok; eassumption.
Qed.

Lemma zero_val_len sd : v_len (zero_val sd) = 0.
Proof. reflexivity. Qed.

Lemma new_val_len sd b : v_len (new_val sd b) = 0.
Proof.
  unfold new_val. destruct (sh_hasiei _); [reflexivity|].
  destruct (sd_shape sd) as [h w bk|]; [destruct bk|]; reflexivity.
Qed.

(* ---------- mandatory part ---------- *)
Definition cost_defb (d : msgdef) : bool := forallb slot_costb d.

Lemma cost_defb_in d sd : cost_defb d = true -> In sd d -> slot_costb sd = true.
Proof. unfold cost_defb. rewrite forallb_forall. auto. Qed.

Lemma mand_cost_bound dall : forall d bs, cost_defb dall = true -> incl d dall -> bytes_ok bs ->
  fst (mand_cost d bs) <= 4 * N.of_nat (List.length d) /\
  match dec_mand d bs with
  | Ok (_, r) => (List.length r <= List.length bs)%nat /\ bytes_ok r /\
                 snd (mand_cost d bs) <= 2 * N.of_nat (List.length bs - List.length r)
  | _ => snd (mand_cost d bs) <= 2 * N.of_nat (List.length bs) + BIG + max_struct dall
  end.
Proof.
  induction d as [|sd t IH]; intros bs Hc Hin Hb; cbn [mand_cost dec_mand List.length].
  - cbn [fst snd]. split; [lia|]. split; [lia|]. split; [exact Hb|lia].
  - assert (Hsd : In sd dall) by (apply Hin; left; reflexivity).
    assert (Ht : incl t dall) by (intros x Hx; apply Hin; right; exact Hx).
    pose proof (cost_defb_in _ _ Hc Hsd) as Hcs.
    destruct (sd_mand sd).
    + pose proof (slot_cost_steps sd 0 (zero_val sd) bs) as Hst.
      pose proof (slot_cost_any sd 0 (zero_val sd) bs dall Hcs Hsd Hb (zero_val_len sd)) as Hany.
      destruct (dec_slot sd 0 (zero_val sd) bs) as [[v1 r1]| | |] eqn:Es; cbn [obind fst snd];
        try (split; lia).
      pose proof (slot_cost_ok sd 0 (zero_val sd) bs v1 r1 Hcs (zero_val_len sd) Es) as (Hle & Hok).
      pose proof (dec_slot_rest_ok _ _ _ _ _ _ Es Hb) as Hb1.
      specialize (IH r1 Hc Ht Hb1). destruct IH as (IHs & IHa).
      split; [lia|].
      destruct (dec_mand t r1) as [[m2 r2]| | |]; cbn [obind fst snd].
      * destruct IHa as (L2 & B2 & A2). split; [lia|]. split; [exact B2|]. lia.
      * lia.
      * lia.
      * lia.
    + specialize (IH bs Hc Ht Hb). destruct IH as (IHs & IHa). split; [lia|].
      destruct (dec_mand t bs) as [[m2 r2]| | |]; cbn [obind fst snd]; exact IHa.
Qed.

(* ---------- optional part ---------- *)
Lemma loop_cost_bound d : cost_defb d = true -> forall fuel bs, bytes_ok bs ->
  fst (loop_cost fuel d bs) <= 8 * N.of_nat (List.length bs) + 1 /\
  snd (loop_cost fuel d bs) <= (max_struct d + 3) * N.of_nat (List.length bs) + BIG + max_struct d.
Proof.
  intros Hc. induction fuel as [|f IH]; intros bs Hb; destruct bs as [|b rest]; cbn [loop_cost fst snd List.length];
    try (split; lia).
  assert (Hbr : bytes_ok rest) by (inversion Hb; assumption).
  destruct (find_opt d (classify b) 0) as [[i sd]|] eqn:Ef.
  - pose proof (find_opt_in _ _ _ _ _ Ef) as Hin.
    pose proof (cost_defb_in _ _ Hc Hin) as Hcs.
    pose proof (struct_le_max d sd Hin) as Hms.
    pose proof (slot_cost_steps sd b (new_val sd b) rest) as Hst.
    pose proof (slot_cost_any sd b (new_val sd b) rest d Hcs Hin Hbr (new_val_len sd b)) as Hany.
    destruct (dec_slot sd b (new_val sd b) rest) as [[v1 r1]| | |] eqn:Es; cbn [fst snd]; try (split; nia).
    pose proof (slot_cost_ok sd b (new_val sd b) rest v1 r1 Hcs (new_val_len sd b) Es) as (Hle & Hok).
    pose proof (dec_slot_rest_ok _ _ _ _ _ _ Es Hbr) as Hb1.
    destruct (IH r1 Hb1) as (IHs & IHa). split; [lia|]. nia.
  - destruct (IH rest Hbr) as (IHs & IHa). cbn [fst snd]. split; [lia|]. nia.
Qed.

(* ---------- the whole decoder ---------- *)
Theorem decode_cost_bound d bs : cost_defb d = true -> bytes_ok bs ->
  fst (decode_cost d bs) <= 4 * N.of_nat (List.length d) + 8 * N.of_nat (List.length bs) + 1 /\
  snd (decode_cost d bs) <= (max_struct d + 3) * N.of_nat (List.length bs) + 2 * BIG + 2 * max_struct d.
Proof.
  intros Hc Hb. unfold decode_cost.
  destruct (mand_cost_bound d d bs Hc (incl_refl d) Hb) as (Ms & Ma).
  destruct (dec_mand d bs) as [[m r]| | |]; cbn [fst snd]; try (split; nia).
  destruct Ma as (L & Br & Ma).
  destruct (loop_cost_bound d Hc (S (List.length r)) r Br) as (Ls & La). split; [lia|]. nia.
Qed.

(* the largest element struct over a table of definitions *)
Definition worst_struct_of (defs : list (string * msgdef)) : N :=
  fold_right (fun p m => N.max (max_struct (snd p)) m) 0 defs.

Lemma worst_struct_le defs p : In p defs -> max_struct (snd p) <= worst_struct_of defs.
Proof.
  induction defs as [|x t IH]; intro H; [destruct H|].
  destruct H as [->|H]; cbn [worst_struct_of fold_right]; [lia|].
  specialize (IH H). unfold worst_struct_of in IH. lia.
Qed.
