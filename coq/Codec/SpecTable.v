(* C04: the specification-level view of a message definition (TS 24.501 section 8 tables):
   presence, format (V, LV, LV-E, T, TV, TLV, TLV-E), identifier, length bounds -- and the
   table-driven format / decoder written over that view only. *)
From NV Require Import Lib.Base Codec.Lang Codec.Def Codec.Sem Codec.Total Codec.WF.
From Coq Require Import String.
Open Scope N_scope.

Inductive fmt :=
| FV (n : N)      (* mandatory, value only, n octets *)
| FLV | FLVE      (* mandatory, 1- / 2-octet length *)
| FT1             (* optional, half-octet identifier and half-octet value in one octet *)
| FTV (n : N)     (* optional, identifier + n value octets *)
| FTLV | FTLVE    (* optional, identifier + 1- / 2-octet length + value *)
| FBad.

Record spec_slot := mkss {
  ss_name : string;
  ss_fmt : fmt;
  ss_iei : N;            (* 0 for mandatory elements *)
  ss_min : N;            (* bounds on the length field (value octets) *)
  ss_max : N;
  ss_set : list N }.     (* non-empty: the length must be one of these *)

Definition fixed_len (sd : slotdef) : N :=
  match sd_val sd with
  | VOctet | VHalf => 1
  | VArrAll => N.of_nat (sh_cap (sd_shape sd))
  | VArrN n => n
  | _ => 0
  end.

Definition check_bounds (sd : slotdef) : N * N * list N :=
  let top := 256 ^ N.of_nat (sh_lenw (sd_shape sd)) - 1 in
  match sd_check sd with
  | LNone => (0, top, [])
  | LOr l =>
      (fold_right (fun a m => match fst a with CLt | CNe => N.max (snd a) m | CGt => m end) 0 l,
       fold_right (fun a m => match fst a with CGt | CNe => N.min (snd a) m | CLt => m end) top l, [])
  | LAnd l => (fold_right (fun a m => N.min (snd a) m) top l, fold_right (fun a m => N.max (snd a) m) 0 l,
               map snd l)
  end.

Definition abstract_slot (sd : slotdef) : spec_slot :=
  let w := sh_lenw (sd_shape sd) in
  let f :=
    if sd_mand sd
    then (if sd_haslen sd then (if Nat.eqb w 1 then FLV else if Nat.eqb w 2 then FLVE else FBad) else FV (fixed_len sd))
    else match sd_val sd with
         | VHalf => FT1
         | _ => if sd_haslen sd then (if Nat.eqb w 1 then FTLV else if Nat.eqb w 2 then FTLVE else FBad)
                else FTV (fixed_len sd)
         end in
  let '(mn, mx, st) := if sd_haslen sd then check_bounds sd else (fixed_len sd, fixed_len sd, []) in
  mkss (sd_name sd) f (sd_iei sd) mn mx st.

Definition abstract (d : msgdef) : list spec_slot := map abstract_slot d.

(* ---------- the table-driven format ---------- *)

Definition be2 (n : N) : bytes := [(n / 256) mod 256; n mod 256].

(* identifier part, length part and value part of one element on the wire *)
Definition id_part (ss : spec_slot) : bytes :=
  match ss_fmt ss with FTV _ | FTLV | FTLVE => [ss_iei ss] | _ => [] end.
Definition len_part (ss : spec_slot) (v : ieval) : bytes :=
  match ss_fmt ss with
  | FLV | FTLV => [v_len v mod 256]
  | FLVE | FTLVE => be2 (v_len v)
  | _ => []
  end.
Definition content_part (ss : spec_slot) (v : ieval) : bytes :=
  match ss_fmt ss with
  | FV n | FTV n => firstn (N.to_nat n) (v_oct v)
  | FT1 => firstn 1 (v_oct v)
  | FLV | FLVE | FTLV | FTLVE => firstn (N.to_nat (v_len v)) (v_oct v)
  | FBad => []
  end.
Definition emit (ss : spec_slot) (v : ieval) : bytes := id_part ss ++ len_part ss v ++ content_part ss v.

Definition is_mand (ss : spec_slot) : bool :=
  match ss_fmt ss with FV _ | FLV | FLVE => true | _ => false end.

Fixpoint format_part (mand : bool) (t : list spec_slot) (m : msgval) : bytes :=
  match t, m with
  | ss :: t', ov :: m' =>
      (if Bool.eqb (is_mand ss) mand then match ov with Some v => emit ss v | None => [] end else []) ++
      format_part mand t' m'
  | _, _ => []
  end.

(* header and mandatory elements in table order, then each present optional element in table order *)
Definition spec_format (t : list spec_slot) (m : msgval) : bytes :=
  format_part true t m ++ format_part false t m.

(* ---------- the table-driven decoder ---------- *)

(* what is transmitted of one element: identifier octet (0 if none), declared length, value octets *)
Definition token := (N * N * bytes)%type.

Definition len_ok (ss : spec_slot) (l : N) : bool :=
  match ss_set ss with
  | [] => (ss_min ss <=? l) && (l <=? ss_max ss)
  | st => existsb (N.eqb l) st
  end.

Definition parse_lv (ss : spec_slot) (w : nat) (idb : N) (bs : bytes) : outcome (token * bytes) :=
  match take w bs with
  | None => Err
  | Some (lb, r) =>
      let l := be_val lb in
      if len_ok ss l then
        match take (N.to_nat l) r with
        | None => Err
        | Some (c, r') => Ok ((idb, l, c), r')
        end
      else Err
  end.

Definition parse_fixed (n : N) (idb : N) (bs : bytes) : outcome (token * bytes) :=
  match take (N.to_nat n) bs with
  | None => Err
  | Some (c, r) => Ok ((idb, 0, c), r)
  end.

(* [idb]: the identifier octet already consumed (optional elements) *)
Definition parse_elem (ss : spec_slot) (idb : N) (bs : bytes) : outcome (token * bytes) :=
  match ss_fmt ss with
  | FV n => parse_fixed n 0 bs
  | FLV => parse_lv ss 1 0 bs
  | FLVE => parse_lv ss 2 0 bs
  | FT1 => Ok ((0, 0, [idb]), bs)
  | FTV n => parse_fixed n idb bs
  | FTLV => parse_lv ss 1 idb bs
  | FTLVE => parse_lv ss 2 idb bs
  | FBad => Err
  end.

Fixpoint spec_mand (t : list spec_slot) (bs : bytes) : outcome (list (option token) * bytes) :=
  match t with
  | [] => Ok ([], bs)
  | ss :: t' =>
      if is_mand ss
      then r <- parse_elem ss 0 bs ;; r' <- spec_mand t' (snd r) ;; Ok (Some (fst r) :: fst r', snd r')
      else r' <- spec_mand t' bs ;; Ok (None :: fst r', snd r')
  end.

Fixpoint spec_lookup (t : list spec_slot) (k : N) (i : nat) : option (nat * spec_slot) :=
  match t with
  | [] => None
  | ss :: r => if (negb (is_mand ss) && (ss_iei ss =? k))%bool then Some (i, ss) else spec_lookup r k (S i)
  end.

(* tokenise the optional part: known identifier -> one element; anything else -> skip one octet *)
Fixpoint spec_tokens (fuel : nat) (t : list spec_slot) (bs : bytes) : outcome (list (nat * token)) :=
  match bs with
  | [] => Ok []
  | b :: rest =>
      match fuel with
      | O => OutOfFuel
      | S f =>
          match spec_lookup t (classify b) 0 with
          | None => spec_tokens f t rest
          | Some (i, ss) =>
              r <- parse_elem ss b rest ;;
              l <- spec_tokens f t (snd r) ;;
              Ok ((i, fst r) :: l)
          end
      end
  end.

(* last occurrence wins *)
Definition spec_decode (t : list spec_slot) (bs : bytes) : outcome (list (option token)) :=
  r <- spec_mand t bs ;;
  toks <- spec_tokens (S (List.length (snd r))) t (snd r) ;;
  Ok (fold_left (fun acc it => set_nth acc (fst it) (Some (snd it))) toks (fst r)).

(* the transmitted view of a decoded element value *)
Definition proj (sd : slotdef) (v : ieval) : token :=
  let n := if sd_haslen sd then v_len v else fixed_len sd in
  (match sd_val sd with VHalf => 0 | _ => v_iei v end,
   (if sd_haslen sd then v_len v else 0),
   firstn (N.to_nat n) (v_oct v)).

Definition proj_msg (d : msgdef) (m : msgval) : list (option token) :=
  map (fun p => match snd p with Some v => Some (proj (fst p) v) | None => None end) (combine d m).
