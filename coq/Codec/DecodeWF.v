(* C03 (i): whatever the decoder accepts is a well-formed message value. *)
From NV Require Import Lib.Base Lib.ListExt Codec.Lang Codec.Def Codec.Sem Codec.Total Codec.WF Codec.LoopLemmas Codec.RoundTrip.
From Coq Require Import String ZifyN ZifyNat ZifyBool.
Open Scope N_scope.

Lemma be_val_bound l : bytes_ok l -> be_val l < 256 ^ N.of_nat (List.length l).
Proof.
  induction l as [|b t IH]; intro H; cbn [be_val List.length].
  - cbn. lia.
  - inversion H as [|? ? Hb Ht]; subst. specialize (IH Ht). unfold is_byte in Hb.
    replace (N.of_nat (S (List.length t))) with (N.of_nat (List.length t) + 1) by lia.
    rewrite N.pow_add_r, N.pow_1_r. nia.
Qed.

Lemma bytes_ok_app a b : bytes_ok (a ++ b) <-> bytes_ok a /\ bytes_ok b.
Proof. unfold bytes_ok. apply Forall_app. Qed.

Lemma bytes_ok_repeat0 n : bytes_ok (repeat 0 n).
Proof. unfold bytes_ok. apply Forall_forall. intros x Hx. apply repeat_spec in Hx. subst. unfold is_byte. lia. Qed.

Lemma bytes_ok_firstn n l : bytes_ok l -> bytes_ok (firstn n l).
Proof.
  intro H. rewrite <- (firstn_skipn n l) in H. apply bytes_ok_app in H. tauto.
Qed.

Lemma bytes_ok_skipn n l : bytes_ok l -> bytes_ok (skipn n l).
Proof.
  intro H. rewrite <- (firstn_skipn n l) in H. apply bytes_ok_app in H. tauto.
Qed.

Lemma take_bytes_ok n bs x r : bytes_ok bs -> take n bs = Some (x, r) -> bytes_ok x /\ bytes_ok r.
Proof.
  intros H Ht. apply take_length in Ht as (_ & _ & E). subst bs. apply bytes_ok_app in H. exact H.
Qed.

Lemma if_same {A} (b : bool) (x : A) : (if b then x else x) = x.
Proof. destruct b; reflexivity. Qed.

Lemma zerosb_repeat n : zerosb (repeat 0 n) = true.
Proof. induction n; cbn [repeat zerosb forallb]; auto. Qed.

Lemma bytes_okb_of l : bytes_ok l -> bytes_okb l = true.
Proof. apply bytes_okb_spec. Qed.

(* the value a slot decodes to is well-formed, and the rest of the input is still octets *)
Lemma dec_slot_wf sd b s0 bs v rest :
  slot_rtb sd = true -> slot_wfb sd = true -> bytes_ok bs -> b < 256 ->
  v_len s0 = 0 -> (v_oct s0 = repeat 0 (sh_cap (sd_shape sd)) \/ sd_val sd = VHalf) ->
  dec_slot sd b s0 bs = Ok (v, rest) ->
  wf_valb sd v = true /\ v_iei v = v_iei s0 /\ bytes_ok rest /\ (sd_val sd = VHalf -> v_oct v = [b]).
Proof.
  intros Hrt Hwfd Hb Hb256 Hl0 Ho H.
  destruct s0 as [iei0 len0 oct0]. cbn [v_len v_oct v_iei] in *. subst len0.
  unfold slot_rtb in Hrt. destruct (sd_shape sd) as [hasiei w bk|] eqn:Esh; [|discriminate].
  apply andb_true_iff in Hrt as [Hrt _]. apply andb_true_iff in Hrt as [Hw Hk].
  unfold slot_wfb in Hwfd. rewrite Esh in Hwfd. apply andb_true_iff in Hwfd as [_ Hwv].
  unfold dec_slot, dec_len in H. rewrite Esh in H. cbn [sh_lenw sh_isbuf] in H.
  (* the length step *)
  assert (Hstep : exists len r1,
     (if sd_haslen sd then len < 256 ^ N.of_nat w /\ check_fails (sd_check sd) len = false else len = 0) /\
     bytes_ok r1 /\
     dec_val sd b (mkie iei0 len (if sd_haslen sd
                                   then (if match bk with TBBuffer => true | _ => false end
                                         then repeat 0 (N.to_nat len) else oct0) else oct0)) r1 = Ok (v, rest)).
  { destruct (sd_haslen sd) eqn:Ehl.
    - destruct (take w bs) as [[lb r]|] eqn:Et; [|discriminate].
      destruct (check_fails (sd_check sd) (be_val lb)) eqn:Ec; [discriminate|].
      cbn [obind fst snd] in H.
      destruct (take_bytes_ok _ _ _ _ Hb Et) as [Hlb Hr].
      pose proof (be_val_bound lb Hlb) as Hbd. apply take_length in Et as (Ll & _ & _). rewrite Ll in Hbd.
      exists (be_val lb), r. repeat split; auto.
    - cbn [obind fst snd] in H. exists 0, bs. repeat split; auto. }
  destruct Hstep as (len & r1 & Hlen & Hr1 & Hv). clear H.
  remember (if sd_haslen sd
            then (if match bk with TBBuffer => true | _ => false end then repeat 0 (N.to_nat len) else oct0)
            else oct0) as o1 eqn:Eo1.
  assert (Ho1 : match bk with TBBuffer => True | _ => o1 = oct0 end).
  { rewrite Eo1. destruct bk; auto; destruct (sd_haslen sd); reflexivity. }
  unfold wf_valb. rewrite Esh. unfold lenw_bound. rewrite Esh. cbn [sh_lenw sh_cap].
  unfold dec_val in Hv. rewrite Esh in Hv. cbn [sh_cap v_len v_oct] in Hv.
  assert (Hlenb : (if sd_haslen sd then (len <? 256 ^ N.of_nat w) && negb (check_fails (sd_check sd) len) else len =? 0) = true).
  { destruct (sd_haslen sd); [destruct Hlen as [A B]; rewrite B; apply andb_true_iff; split; [apply N.ltb_lt; exact A|reflexivity]
                              |subst len; reflexivity]. }
  destruct (sd_val sd) eqn:Ev; try discriminate.
  - (* VOctet *)
    destruct (take 1 r1) as [[x r]|] eqn:Et; [|discriminate]. inversion Hv; subst v rest. clear Hv.
    destruct (take_bytes_ok _ _ _ _ Hr1 Et) as [Hx Hr]. apply take_length in Et as (Lx & _ & _).
    unfold with_oct. cbn [v_iei v_len v_oct].
    split; [|split; [reflexivity|split; [exact Hr|discriminate]]].
    rewrite (bytes_okb_of x Hx), Hlenb, Lx. reflexivity.
  - (* VArrAll *)
    destruct bk as [|c| |]; try discriminate. cbn [sh_cap] in *.
    destruct (take c r1) as [[x r]|] eqn:Et; [|discriminate]. inversion Hv; subst v rest. clear Hv.
    destruct (take_bytes_ok _ _ _ _ Hr1 Et) as [Hx Hr]. apply take_length in Et as (Lx & _ & _).
    unfold with_oct. cbn [v_iei v_len v_oct].
    split; [|split; [reflexivity|split; [exact Hr|discriminate]]].
    rewrite (bytes_okb_of x Hx), Hlenb, Lx, Nat.eqb_refl. reflexivity.
  - (* VArrN *)
    destruct bk as [|c| |]; try discriminate. cbn [sh_cap] in *.
    destruct Ho as [Ho|Ho]; [|discriminate]. subst oct0.
    apply Nat.leb_le in Hk.
    destruct (Nat.ltb_spec c (N.to_nat n)); [discriminate|].
    destruct (take (N.to_nat n) r1) as [[x r]|] eqn:Et; [|discriminate].
    try rewrite if_same in Hv; cbv beta iota in Hv. inversion Hv; subst v rest. clear Hv.
    destruct (take_bytes_ok _ _ _ _ Hr1 Et) as [Hx Hr]. apply take_length in Et as (Lx & _ & _).
    unfold with_oct. cbn [v_iei v_len v_oct].
    split; [|split; [reflexivity|split; [exact Hr|discriminate]]].
    assert (Hbo : bytes_ok (x ++ skipn (N.to_nat n) (repeat 0 c))).
    { apply bytes_ok_app. split; [exact Hx|apply bytes_ok_skipn, bytes_ok_repeat0]. }
    rewrite (bytes_okb_of _ Hbo), Hlenb. cbn [andb].
    rewrite app_length, skipn_length, repeat_length, Lx.
    replace (N.to_nat n + (c - N.to_nat n))%nat with c by lia. rewrite Nat.eqb_refl. cbn [andb].
    rewrite skipn_app, Lx, Nat.sub_diag. cbn [skipn]. rewrite <- Lx, skipn_all. cbn [app].
    rewrite Lx, skipn_repeat. apply zerosb_repeat.
  - (* VArrLen *)
    destruct bk as [|c| |]; try discriminate. cbn [sh_cap] in *.
    destruct Ho as [Ho|Ho]; [|discriminate]. subst oct0. rewrite Hk in *.
    destruct Hlen as [Hlt Hchk].
    destruct (Nat.ltb_spec c (N.to_nat len)) as [|Hle]; [discriminate|].
    destruct (take (N.to_nat len) r1) as [[x r]|] eqn:Et; [|discriminate].
    try rewrite if_same in Hv; cbv beta iota in Hv. inversion Hv; subst v rest. clear Hv.
    destruct (take_bytes_ok _ _ _ _ Hr1 Et) as [Hx Hr]. apply take_length in Et as (Lx & _ & _).
    unfold with_oct. cbn [v_iei v_len v_oct].
    split; [|split; [reflexivity|split; [exact Hr|discriminate]]].
    assert (Hbo : bytes_ok (x ++ skipn (N.to_nat len) (repeat 0 c))).
    { apply bytes_ok_app. split; [exact Hx|apply bytes_ok_skipn, bytes_ok_repeat0]. }
    rewrite (bytes_okb_of _ Hbo), Hlenb. cbn [andb].
    rewrite app_length, skipn_length, repeat_length, Lx.
    replace (N.to_nat len + (c - N.to_nat len))%nat with c by lia. rewrite Nat.eqb_refl. cbn [andb].
    replace (Nat.leb (N.to_nat len) c) with true by (symmetry; apply Nat.leb_le; lia). cbn [andb].
    rewrite skipn_app, Lx, Nat.sub_diag. cbn [skipn]. rewrite <- Lx, skipn_all. cbn [app].
    rewrite Lx, skipn_repeat. apply zerosb_repeat.
  - (* VBuf *)
    destruct bk; try discriminate. rewrite Hk in *. subst o1. destruct Hlen as [Hlt Hchk].
    rewrite repeat_length in Hv.
    destruct (take (N.to_nat len) r1) as [[x r]|] eqn:Et; [|discriminate].
    inversion Hv; subst v rest. clear Hv.
    destruct (take_bytes_ok _ _ _ _ Hr1 Et) as [Hx Hr]. apply take_length in Et as (Lx & _ & _).
    unfold with_oct. cbn [v_iei v_len v_oct].
    split; [|split; [reflexivity|split; [exact Hr|discriminate]]].
    rewrite (bytes_okb_of x Hx), Hlenb, Lx, Nat.eqb_refl. reflexivity.
  - (* VStruct *)
    destruct bk; try discriminate. cbn [sh_cap] in *. destruct Ho as [Ho|Ho]; [|discriminate]. subst oct0.
    try rewrite if_same in Hv; cbv beta iota in Hv. cbn [repeat] in Hv. inversion Hv; subst v rest. clear Hv.
    cbn [v_iei v_len v_oct].
    split; [|split; [reflexivity|split; [exact Hr1|discriminate]]].
    rewrite Hlenb. reflexivity.
  - (* VHalf *)
    destruct bk; try discriminate.
    inversion Hv; subst v rest. clear Hv. unfold with_oct. cbn [v_iei v_len v_oct].
    split; [|split; [reflexivity|split; [exact Hr1|reflexivity]]].
    assert (Hbb : bytes_okb [b] = true).
    { cbn [bytes_okb forallb]. unfold is_byteb. apply N.ltb_lt in Hb256. rewrite Hb256. reflexivity. }
    rewrite Hbb, Hlenb. reflexivity.
Qed.

(* ---------- the message ---------- *)

Lemma wf_set_nth d : forall m i sd ov,
  wf_msgb d m = true -> nth_error d i = Some sd -> wf_slotvalb sd ov = true ->
  wf_msgb d (set_nth m i ov) = true.
Proof.
  induction d as [|x t IH]; intros m i sd ov Hw Hn Hv; [destruct i; discriminate|].
  destruct m as [|y tm]; cbn [wf_msgb] in Hw; [discriminate|].
  apply andb_true_iff in Hw as [H1 H2].
  destruct i as [|i]; cbn [nth_error] in Hn; cbn [set_nth wf_msgb].
  - inversion Hn; subst. rewrite Hv, H2. reflexivity.
  - rewrite H1. cbn [andb]. eapply IH; eassumption.
Qed.

Lemma find_opt_iei d t i j sd : find_opt d t i = Some (j, sd) -> sd_iei sd = t.
Proof.
  revert i. induction d as [|x r IH]; intros i H; [discriminate|].
  cbn [find_opt] in H. destruct (negb (sd_mand x) && (sd_iei x =? t))%bool eqn:E.
  - inversion H; subst. apply andb_true_iff in E as [_ E]. apply N.eqb_eq in E. exact E.
  - eapply IH; eassumption.
Qed.

Lemma dec_mand_wf d : forall bs m rest,
  forallb slot_rtb d = true -> wf_defb d = true -> bytes_ok bs ->
  dec_mand d bs = Ok (m, rest) -> wf_msgb d m = true /\ bytes_ok rest.
Proof.
  induction d as [|sd t IH]; intros bs m rest Hrt Hwd Hb H; cbn [dec_mand] in H.
  - inversion H; subst. split; [reflexivity|exact Hb].
  - cbn [forallb] in Hrt. apply andb_true_iff in Hrt as [Hs Ht].
    cbn [wf_defb forallb] in Hwd. apply andb_true_iff in Hwd as [Hws Hwt].
    destruct (sd_mand sd) eqn:Em.
    + destruct (dec_slot sd 0 (zero_val sd) bs) as [[v r]| | |] eqn:E1; try discriminate. cbn [obind fst snd] in H.
      destruct (dec_mand t r) as [[m1 r1]| | |] eqn:E2; try discriminate. cbn [obind fst snd] in H.
      inversion H; subst. clear H.
      destruct (dec_slot_wf sd 0 (zero_val sd) bs v r Hs Hws Hb ltac:(lia) eq_refl ltac:(left; reflexivity) E1)
        as (Hv & Hi & Hr & _).
      destruct (IH r m1 rest Ht Hwt Hr E2) as [Hm1 Hrest].
      split; [|exact Hrest]. cbn [wf_msgb wf_slotvalb]. rewrite Hv, Hm1.
      unfold ident_okb. rewrite Em. rewrite Hi. cbn. reflexivity.
    + destruct (dec_mand t bs) as [[m1 r1]| | |] eqn:E2; try discriminate. cbn [obind fst snd] in H.
      inversion H; subst. clear H.
      destruct (IH bs m1 rest Ht Hwt Hb E2) as [Hm1 Hrest].
      split; [|exact Hrest]. cbn [wf_msgb wf_slotvalb]. rewrite Em, Hm1. reflexivity.
Qed.

Lemma dec_loop_wf d : forallb slot_rtb d = true -> wf_defb d = true ->
  forall fuel m bs m', wf_msgb d m = true -> bytes_ok bs ->
  dec_loop fuel d m bs = Ok m' -> wf_msgb d m' = true.
Proof.
  intros Hrt Hwd. induction fuel as [|f IH]; intros m bs m' Hm Hb H.
  - destruct bs; cbn in H; [inversion H; subst; exact Hm|discriminate].
  - destruct bs as [|b rest]; cbn [dec_loop] in H; [inversion H; subst; exact Hm|].
    inversion Hb as [|? ? Hb0 Hbr]; subst. unfold is_byte in Hb0.
    destruct (find_opt d (classify b) 0) as [[i sd]|] eqn:Ef.
    + destruct (dec_slot sd b (new_val sd b) rest) as [[v r]| | |] eqn:E1; try discriminate.
      cbn [obind fst snd] in H.
      pose proof (find_opt_iei _ _ _ _ _ Ef) as Hiei.
      pose proof (find_opt_spec _ _ _ _ _ Ef) as (_ & Hnth & Hmand). rewrite Nat.sub_0_r in Hnth.
      assert (Hin : In sd d) by (eapply nth_error_In; eassumption).
      assert (Hs : slot_rtb sd = true) by (rewrite forallb_forall in Hrt; auto).
      assert (Hws : slot_wfb sd = true) by (unfold wf_defb in Hwd; rewrite forallb_forall in Hwd; auto).
      (* the starting value NewX(b) *)
      pose proof Hs as Hs'. unfold slot_rtb in Hs'.
      destruct (sd_shape sd) as [hasiei w bk|] eqn:Esh; [|discriminate].
      apply andb_true_iff in Hs' as [Hs1 Hopt]. rewrite Hmand in Hopt.
      assert (Hstart : v_len (new_val sd b) = 0 /\
                       (v_oct (new_val sd b) = repeat 0 (sh_cap (sd_shape sd)) \/ sd_val sd = VHalf) /\
                       v_iei (new_val sd b) = (if hasiei then b else 0)).
      { unfold new_val. rewrite Esh. cbn [sh_hasiei sh_cap]. destruct hasiei; cbn [v_len v_oct v_iei].
        - auto.
        - destruct (sd_val sd) eqn:Ev; try (rewrite andb_false_l in Hopt; discriminate).
          destruct bk; unfold zero_val; rewrite ?Esh; cbn; auto. }
      destruct Hstart as (Hl0 & Ho0 & Hi0).
      destruct (dec_slot_wf sd b (new_val sd b) rest v r Hs Hws Hbr Hb0 Hl0 Ho0 E1) as (Hv & Hi & Hr & Hh).
      eapply IH; [|exact Hr|exact H].
      eapply wf_set_nth; [exact Hm|exact Hnth|].
      cbn [wf_slotvalb]. rewrite Hv. cbn [andb].
      unfold ident_okb. rewrite Hmand. rewrite Hi, Hi0.
      destruct (sd_val sd) eqn:Ev.
      all: try (apply andb_true_iff in Hopt as [Hopt Hlt]; apply andb_true_iff in Hopt as [Hhi Hge];
                rewrite Hhi; apply N.eqb_eq; apply N.leb_le in Hge; apply N.ltb_lt in Hlt;
                rewrite Hiei in Hge, Hlt |- *; unfold classify in *;
                destruct (N.leb_spec 128 b); [exfalso; assert (b / 16 < 16) by (apply N.div_lt_upper_bound; lia); lia|reflexivity]).
      * (* half *)
        destruct bk; try discriminate; try (rewrite andb_false_r in Hs1; discriminate).
        repeat match goal with Hc : (_ && _)%bool = true |- _ => apply andb_true_iff in Hc as [? ?] end.
        match goal with Hn : negb hasiei = true |- _ => apply negb_true_iff in Hn; rewrite Hn end.
        rewrite (Hh eq_refl). cbn [hd]. rewrite Hiei, !N.eqb_refl. reflexivity.
    + eapply IH; [exact Hm|exact Hbr|exact H].
Qed.

Theorem decode_wf d bs m :
  rt_defb d = true -> bytes_ok bs -> decode_def d bs = Ok m -> wf_msgb d m = true.
Proof.
  intros Hrt Hb H. unfold rt_defb in Hrt.
  apply andb_true_iff in Hrt as [Hrt _]. apply andb_true_iff in Hrt as [Hwd Hs].
  unfold decode_def in H.
  destruct (dec_mand d bs) as [[m0 rest]| | |] eqn:E; try discriminate. cbn [obind fst snd] in H.
  destruct (dec_mand_wf d bs m0 rest Hs Hwd Hb E) as [Hm0 Hr].
  eapply dec_loop_wf; eassumption.
Qed.

(* C03 (ii): re-encoding a decoded message is stable *)
Theorem reencode_stable d bs m :
  rt_defb d = true -> bytes_ok bs -> decode_def d bs = Ok m ->
  exists bs', encode_def d m = Ok bs' /\ decode_def d bs' = Ok m.
Proof.
  intros Hrt Hb H. apply roundtrip; [exact Hrt|]. eapply decode_wf; eassumption.
Qed.

(* ... and a fixed point: decoding bs' and encoding again gives bs' *)
Corollary reencode_fixed_point d bs m bs' m' bs'' :
  rt_defb d = true -> bytes_ok bs -> decode_def d bs = Ok m ->
  encode_def d m = Ok bs' -> decode_def d bs' = Ok m' -> encode_def d m' = Ok bs'' ->
  m' = m /\ bs'' = bs'.
Proof.
  intros Hrt Hb H He Hd' He'.
  destruct (reencode_stable d bs m Hrt Hb H) as (x & Hx & Hdx).
  rewrite He in Hx. inversion Hx; subst x. rewrite Hd' in Hdx. inversion Hdx; subst m'.
  split; [reflexivity|]. rewrite He in He'. inversion He'. reflexivity.
Qed.

(* C03 (iii): canonical input (the encoding of some well-formed message) is reproduced byte for byte *)
Definition canonical (d : msgdef) (bs : bytes) : Prop :=
  exists m, wf_msgb d m = true /\ encode_def d m = Ok bs.

Theorem canonical_exact d bs m :
  rt_defb d = true -> canonical d bs -> decode_def d bs = Ok m -> encode_def d m = Ok bs.
Proof.
  intros Hrt (m0 & Hw & He) Hd.
  destruct (roundtrip d m0 Hrt Hw) as (x & Hx & Hdx).
  rewrite He in Hx. inversion Hx; subst x. rewrite Hd in Hdx. inversion Hdx; subst. exact He.
Qed.
