(* CS: the codec statement language.  tools/go2coq transliterates the generated
   Encode*/Decode* functions and the dispatch switches into these terms and refuses
   (DUnknown / EUnknown / DispUnknown) everything else. *)
From NV Require Import Lib.Base.
From Coq Require Import String.
Open Scope N_scope.

(* a slot is named by the embedded nasType field of the message struct *)
Inductive target :=
| TIei                          (* &ieiN *)
| TOctet (s : string)           (* &a.X.Octet *)
| TLen (s : string)             (* &a.X.Len *)
| TArrAll (s : string)          (* a.X.Octet[:] *)
| TArrN (s : string) (n : N)    (* a.X.Octet[:n] *)
| TArrLen (s : string)          (* a.X.Octet[:a.X.GetLen()] *)
| TBuf (s : string)             (* a.X.Buffer *)
| TStruct (s : string).         (* &a.X *)

Inductive cmp := CLt | CGt | CNe.

(* every DRead / DCheck stands for the full  `if err ...; err != nil { return fmt.Errorf(...) }`  form *)
Inductive dstmt :=
| DRead (t : target)
| DCheckOr (s : string) (c : list (cmp * N))   (* if a.X.Len c1 || c2 ... { return error } *)
| DCheckAnd (s : string) (c : list (cmp * N))  (* if a.X.Len c1 && c2 ... { return error } *)
| DSetLen (s : string)                         (* a.X.SetLen(a.X.GetLen()) *)
| DNew (s : string) (ctor : string)            (* a.X = nasType.NewX(ieiN) *)
| DOctetFromIei (s : string)                   (* a.X.Octet = ieiN *)
| DCheckBufLen (s : string)                    (* if len(a.X.Buffer) != int(a.X.Len) { return error } *)
| DLoop (cases : list (N * list dstmt))        (* the optional-part loop with its fixed prologue and empty default *)
| DRetNil
| DUnknown.

Inductive source :=
| SOctet (s : string) | SGetLen (s : string) | SGetIei (s : string)
| SArrAll (s : string) | SArrN (s : string) (n : N) | SArrLen (s : string)
| SBuf (s : string) | SStruct (s : string).

Inductive estmt :=
| EWrite (src : source)
| EIfPresent (s : string) (body : list estmt)
| ERetNil
| EUnknown.

Record gmsg := mkgmsg {
  g_name : string;
  g_fields : list (string * bool);   (* embedded nasType fields in order; true = by value (mandatory) *)
  g_dec_prologue : bool;             (* buffer := bytes.NewBuffer( *byteArray ) *)
  g_dec : list dstmt;
  g_enc : list estmt;
  g_new_ok : bool }.                 (* NewX(iei) { x = &X{}; return x } *)

Inductive tbacking := TBScalar | TBArray (n : nat) | TBBuffer | TBNone.
Inductive tshape := ShKnown (has_iei : bool) (lenw : nat) (b : tbacking) | ShUnknown.
Inductive ctor_kind := CtorSetIei | CtorPlain | CtorNone | CtorUnknown.

Inductive disp_item :=
| DispDec (type : N) (field ctor callee : string)
| DispEnc (type : N) (callee : string)
| DispUnknown.
Record disp_table := mkdisp { d_prologue : bool; d_default_err : bool; d_items : list disp_item }.
