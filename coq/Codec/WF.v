(* Well-formed message values (the hypothesis of C02; the conclusion of C03's decode_wf). *)
From NV Require Import Lib.Base Codec.Lang Codec.Def Codec.Sem Codec.Total.
From Coq Require Import String.
Open Scope N_scope.

Definition lenw_bound (sd : slotdef) : N := 256 ^ N.of_nat (sh_lenw (sd_shape sd)).
Definition zerosb (l : bytes) : bool := forallb (N.eqb 0) l.

(* the value of one element is well-formed for its slot: declared length = content length and within
   the bounds of the definition, array-backed contents zero beyond the transmitted part, all octets < 256 *)
Definition wf_valb (sd : slotdef) (v : ieval) : bool :=
  let cap := sh_cap (sd_shape sd) in
  bytes_okb (v_oct v) &&
  (if sd_haslen sd
   then (v_len v <? lenw_bound sd) && negb (check_fails (sd_check sd) (v_len v))
   else v_len v =? 0) &&
  match sd_val sd with
  | VOctet | VHalf => Nat.eqb (List.length (v_oct v)) 1
  | VArrAll => Nat.eqb (List.length (v_oct v)) cap
  | VArrN n => Nat.eqb (List.length (v_oct v)) cap && zerosb (skipn (N.to_nat n) (v_oct v))
  | VArrLen => Nat.eqb (List.length (v_oct v)) cap && Nat.leb (N.to_nat (v_len v)) cap &&
               zerosb (skipn (N.to_nat (v_len v)) (v_oct v))
  | VBuf => Nat.eqb (List.length (v_oct v)) (N.to_nat (v_len v))
  | VStruct => Nat.eqb (List.length (v_oct v)) 0
  | VNone => false
  end.

(* the stored identifier classifies to the slot *)
Definition ident_okb (sd : slotdef) (v : ieval) : bool :=
  if sd_mand sd then v_iei v =? 0
  else match sd_val sd with
       | VHalf => (v_iei v =? 0) && (classify (hd 0 (v_oct v)) =? sd_iei sd)
       | _ => (v_iei v =? sd_iei sd)
       end.

Definition wf_slotvalb (sd : slotdef) (ov : option ieval) : bool :=
  match ov with
  | None => negb (sd_mand sd)
  | Some v => wf_valb sd v && ident_okb sd v
  end.

Fixpoint wf_msgb (d : msgdef) (m : msgval) : bool :=
  match d, m with
  | [], [] => true
  | sd :: t, ov :: tm => wf_slotvalb sd ov && wf_msgb t tm
  | _, _ => false
  end.

(* ---- definition-level conditions needed for the round trip (beyond wf_defb) ---- *)

Definition slot_rtb (sd : slotdef) : bool :=
  match sd_shape sd with
  | ShUnknown => false
  | ShKnown hasiei w b =>
      (if sd_haslen sd then (Nat.eqb w 1 || Nat.eqb w 2) else true) &&
      match sd_val sd with
      | VOctet => match b with TBScalar => true | _ => false end
      | VHalf => match b with TBScalar => negb hasiei && negb (sd_haslen sd) && negb (sd_mand sd) && (sd_iei sd <? 16) && (8 <=? sd_iei sd)
                 | _ => false end
      | VArrAll => match b with TBArray _ => true | _ => false end
      | VArrN n => match b with TBArray c => Nat.leb (N.to_nat n) c | _ => false end
      | VArrLen => match b with TBArray _ => sd_haslen sd | _ => false end
      | VBuf => match b with TBBuffer => sd_haslen sd | _ => false end
      | VStruct => match b with TBNone => true | _ => false end
      | VNone => false
      end &&
      (* optional elements: full-octet identifiers (16..127) live in an Iei field *)
      (if sd_mand sd then true
       else match sd_val sd with
            | VHalf => true
            | _ => hasiei && (16 <=? sd_iei sd) && (sd_iei sd <? 128)
            end)
  end.

Fixpoint nodup_ieis (l : list N) : bool :=
  match l with [] => true | x :: t => negb (existsb (N.eqb x) t) && nodup_ieis t end.

Definition rt_defb (d : msgdef) : bool :=
  wf_defb d && forallb slot_rtb d &&
  nodup_ieis (map sd_iei (filter (fun sd => negb (sd_mand sd)) d)).
