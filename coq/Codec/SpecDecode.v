(* C04 (b): the generated decoder and the independent table-driven decoder agree on every byte string. *)
From NV Require Import Lib.Base Lib.ListExt Codec.Lang Codec.Def Codec.Sem Codec.Total Codec.WF Codec.LoopLemmas
  Codec.RoundTrip Codec.DecodeWF Codec.SpecTable Codec.SpecProofs.
From Coq Require Import String ZifyN ZifyNat ZifyBool.
Open Scope N_scope.

(* ---------- the length test of the table equals the generated guard ---------- *)

Lemma or_bounds c top l : l <= top ->
  existsb (atom_true l) c = false <->
  (fold_right (fun a m => match fst a with CLt | CNe => N.max (snd a) m | CGt => m end) 0 c <= l /\
   l <= fold_right (fun a m => match fst a with CGt | CNe => N.min (snd a) m | CLt => m end) top c).
Proof.
  intro Ht. induction c as [|[op n] t IH]; cbn [existsb fold_right fst snd].
  - split; [intros _; lia|reflexivity].
  - rewrite orb_false_iff, IH. unfold atom_true. cbn [fst snd]. destruct op; split; intros; try lia.
Qed.

Lemma and_set c l :
  forallb (fun a => match fst a with CNe => true | _ => false end) c = true ->
  forallb (atom_true l) c = negb (existsb (N.eqb l) (map snd c)).
Proof.
  induction c as [|[op n] t IH]; cbn [forallb existsb map fst snd]; intro H; [reflexivity|].
  apply andb_true_iff in H as [H1 H2]. destruct op; try discriminate.
  rewrite (IH H2). unfold atom_true. cbn [fst snd]. rewrite negb_orb. reflexivity.
Qed.

Lemma len_ok_check sd l :
  fmt_consistentb sd = true -> sd_haslen sd = true -> l < lenw_bound sd ->
  len_ok (abstract_slot sd) l = negb (check_fails (sd_check sd) l).
Proof.
  intros Hfc Hl Hlt. unfold fmt_consistentb in Hfc. apply andb_true_iff in Hfc as [Hfc _].
  apply andb_true_iff in Hfc as [_ Hand].
  unfold len_ok, abstract_slot. rewrite Hl. unfold check_bounds, lenw_bound in *.
  set (top := 256 ^ N.of_nat (sh_lenw (sd_shape sd)) - 1) in *.
  destruct (sd_check sd) as [|c|c]; cbn [ss_set ss_min ss_max check_fails].
  - destruct (N.leb_spec 0 l); destruct (N.leb_spec l top); cbn; try reflexivity; lia.
  - cbn [ss_set ss_min ss_max].
    pose proof (or_bounds c top l ltac:(unfold top; lia)) as Hb.
    destruct (existsb (atom_true l) c) eqn:E; cbn [negb].
    + apply andb_false_iff.
      destruct (N.leb_spec (fold_right (fun a m => match fst a with CLt | CNe => N.max (snd a) m | CGt => m end) 0 c) l);
        [|left; reflexivity].
      destruct (N.leb_spec l (fold_right (fun a m => match fst a with CGt | CNe => N.min (snd a) m | CLt => m end) top c));
        [|right; reflexivity].
      exfalso. assert (true = false) by (apply Hb; split; assumption). discriminate.
    + destruct (proj1 Hb eq_refl) as [A B]. apply andb_true_iff. split; apply N.leb_le; assumption.
  - apply andb_true_iff in Hand as [Hne Hall].
    cbn [ss_set]. destruct (map snd c) eqn:Em.
    + destruct c; [discriminate|discriminate].
    + rewrite <- Em. rewrite (and_set c l Hall). rewrite negb_involutive. reflexivity.
Qed.

(* ---------- one element ---------- *)

Definition same_slot (sd : slotdef) (b : N) (s0 : ieval) (bs : bytes) : Prop :=
  match dec_slot sd b s0 bs with
  | Ok (v, r) => parse_elem (abstract_slot sd) b bs = Ok (proj sd v, r)
  | Err => parse_elem (abstract_slot sd) b bs = Err
  | _ => False
  end.

Lemma firstn_app_exact {A} (x y : list A) n : List.length x = n -> firstn n (x ++ y) = x.
Proof. intro H. rewrite firstn_app, H, Nat.sub_diag. cbn. rewrite app_nil_r. apply firstn_exact. exact H. Qed.

Lemma take_w_fmt sd : slot_rtb sd = true -> sd_haslen sd = true ->
  exists w, sh_lenw (sd_shape sd) = w /\ (w = 1%nat \/ w = 2%nat).
Proof.
  intros Hrt Hl. destruct (rt_shape sd Hrt) as (h & w & bk & Esh & Hw). exists w. rewrite Esh. split; [reflexivity|auto].
Qed.


(* the spec-side parser of a length-prefixed element, unfolded *)
Lemma parse_lv_unfold ss w idb bs :
  parse_lv ss w idb bs =
  match take w bs with
  | None => Err
  | Some (lb, r) =>
      if len_ok ss (be_val lb)
      then match take (N.to_nat (be_val lb)) r with
           | None => Err
           | Some (c, r') => Ok ((idb, be_val lb, c), r')
           end
      else Err
  end.
Proof. reflexivity. Qed.

Lemma slot_agree sd b s0 bs :
  slot_rtb sd = true -> slot_wfb sd = true -> fmt_consistentb sd = true -> bytes_ok bs ->
  v_len s0 = 0 -> (v_oct s0 = repeat 0 (sh_cap (sd_shape sd)) \/ sd_val sd = VHalf) ->
  (sd_mand sd = true -> b = 0 /\ v_iei s0 = 0) ->
  (sd_mand sd = false -> sd_val sd <> VHalf -> v_iei s0 = b) ->
  same_slot sd b s0 bs.
Proof.
  intros Hrt Hwfd Hfc Hb Hl0 Ho Hm Hopt.
  destruct s0 as [iei0 len0 oct0]. cbn [v_len v_oct v_iei] in *. subst len0.
  pose proof (abstract_fmt sd Hrt) as Hfmt.
  pose proof Hrt as Hrt0. unfold slot_rtb in Hrt. destruct (sd_shape sd) as [h w bk|] eqn:Esh; [|discriminate].
  apply andb_true_iff in Hrt as [Hrt Hoptc]. apply andb_true_iff in Hrt as [Hw Hk].
  pose proof Hfc as Hfc0. unfold fmt_consistentb in Hfc. apply andb_true_iff in Hfc as [Hfc _]. apply andb_true_iff in Hfc as [Hpin _].
  unfold slot_wfb in Hwfd. rewrite Esh in Hwfd. apply andb_true_iff in Hwfd as [_ Hwv].
  cbn [sh_lenw sh_cap] in *.
  (* the identifier component of the token *)
  assert (Hid : (match sd_val sd with VHalf => 0 | _ => iei0 end) =
                (if sd_mand sd then 0 else match sd_val sd with VHalf => 0 | _ => b end)).
  { destruct (sd_mand sd) eqn:Em.
    - destruct (Hm eq_refl) as [_ H0]. rewrite H0. destruct (sd_val sd); reflexivity.
    - destruct (sd_val sd) eqn:Ev; try reflexivity; apply Hopt; auto; discriminate. }
  unfold same_slot, dec_slot, dec_len, proj. rewrite Esh. cbn [sh_lenw sh_isbuf].
  destruct (sd_haslen sd) eqn:Ehl.
  - (* a length is transmitted *)
    assert (Hw12 : w = 1%nat \/ w = 2%nat).
    { apply orb_true_iff in Hw as [H|H]; apply Nat.eqb_eq in H; auto. }
    assert (Hparse : parse_elem (abstract_slot sd) b bs =
      match sd_val sd with
      | VHalf => if sd_mand sd then parse_lv (abstract_slot sd) w 0 bs else Ok ((0, 0, [b]), bs)
      | _ => parse_lv (abstract_slot sd) w (if sd_mand sd then 0 else b) bs
      end).
    { unfold parse_elem. rewrite Hfmt. cbn [sh_lenw].
      destruct Hw12 as [->| ->]; cbn [Nat.eqb]; destruct (sd_mand sd); destruct (sd_val sd); reflexivity. }
    rewrite Hparse. clear Hparse.
    destruct (take w bs) as [[lb r]|] eqn:Et.
    2:{ (* the length octets are missing *)
        cbn [obind]. destruct (sd_val sd) eqn:Ev; try (rewrite parse_lv_unfold, Et; reflexivity).
        exfalso. destruct bk; try discriminate. repeat (apply andb_true_iff in Hk as [Hk ?]). discriminate. }
    destruct (take_bytes_ok _ _ _ _ Hb Et) as [Hlb Hr].
    pose proof (be_val_bound lb Hlb) as Hbd. pose proof Et as Et'. apply take_length in Et' as (Ll & _ & _). rewrite Ll in Hbd.
    set (l := be_val lb) in *.
    assert (Hlo : len_ok (abstract_slot sd) l = negb (check_fails (sd_check sd) l))
      by (apply (len_ok_check sd l Hfc0 Ehl); unfold lenw_bound; rewrite Esh; exact Hbd).
    destruct (check_fails (sd_check sd) l) eqn:Ec; cbn [negb] in Hlo.
    { (* the length is out of bounds: both reject *)
      cbn [obind]. destruct (sd_val sd) eqn:Ev; try (rewrite parse_lv_unfold, Et; fold l; rewrite Hlo; reflexivity).
      exfalso. destruct bk; try discriminate. repeat (apply andb_true_iff in Hk as [Hk ?]). discriminate. }
    cbn [obind fst snd]. unfold dec_val. rewrite Esh. cbn [sh_cap v_len v_oct v_iei].
    (* pinned lengths *)
    assert (Hfix : match sd_val sd with VOctet | VArrAll | VArrN _ => l = fixed_len sd | _ => True end).
    { destruct (sd_val sd); try exact I; apply (pinned_len sd); auto; unfold lenw_bound; rewrite Esh; exact Hbd. }
    unfold fixed_len in Hfix. rewrite Esh in Hfix. cbn [sh_cap] in Hfix.
    destruct (sd_val sd) eqn:Ev; try discriminate; rewrite parse_lv_unfold, Et; fold l; rewrite Hlo.
    + (* VOctet, l = 1 *)
      rewrite Hfix. change (N.to_nat 1) with 1%nat.
      destruct (take 1 r) as [[x r']|] eqn:E2; [|reflexivity].
      apply take_length in E2 as (Lx & _ & _). unfold with_oct. cbn [v_iei v_len v_oct].
      rewrite <- Hid. change (N.to_nat 1) with 1%nat. rewrite (firstn_exact x 1 Lx). reflexivity.
    + (* VArrAll, l = cap *)
      destruct bk as [|c| |]; try discriminate. cbn [sh_cap] in *. rewrite Hfix, Nat2N.id.
      destruct (take c r) as [[x r']|] eqn:E2; [|reflexivity].
      apply take_length in E2 as (Lx & _ & _). unfold with_oct. cbn [v_iei v_len v_oct].
      rewrite <- Hid. rewrite Nat2N.id, (firstn_exact x c Lx). reflexivity.
    + (* VArrN n, l = n *)
      destruct bk as [|c| |]; try discriminate. cbn [sh_cap] in *. apply Nat.leb_le in Hk.
      destruct (Nat.ltb_spec c (N.to_nat n)); [lia|]. rewrite Hfix.
      destruct (take (N.to_nat n) r) as [[x r']|] eqn:E2; [|reflexivity].
      apply take_length in E2 as (Lx & _ & _). unfold with_oct. cbn [v_iei v_len v_oct].
      rewrite <- Hid. rewrite (firstn_app_exact x _ _ Lx). reflexivity.
    + (* VArrLen *)
      destruct bk as [|c| |]; try discriminate. cbn [sh_cap] in *.
      apply andb_true_iff in Hwv as [_ Hmx].
      destruct (max_allowed (sd_check sd)) as [mx|] eqn:Em; [|discriminate]. apply Nat.leb_le in Hmx.
      pose proof (max_allowed_sound _ _ _ Ec Em) as Hle.
      destruct (Nat.ltb_spec c (N.to_nat l)); [lia|].
      destruct (take (N.to_nat l) r) as [[x r']|] eqn:E2; [|reflexivity].
      apply take_length in E2 as (Lx & _ & _). unfold with_oct. cbn [v_iei v_len v_oct].
      rewrite <- Hid. rewrite (firstn_app_exact x _ _ Lx). reflexivity.
    + (* VBuf *)
      destruct bk; try discriminate. rewrite repeat_length.
      destruct (take (N.to_nat l) r) as [[x r']|] eqn:E2; [|reflexivity].
      apply take_length in E2 as (Lx & _ & _). unfold with_oct. cbn [v_iei v_len v_oct].
      rewrite <- Hid. rewrite (firstn_exact x _ Lx). reflexivity.
    + (* VHalf never transmits a length *)
      exfalso. destruct bk; try discriminate. repeat (apply andb_true_iff in Hk as [Hk ?]). discriminate.
  - (* no length field *)
    assert (Hparse : parse_elem (abstract_slot sd) b bs =
      if sd_mand sd then parse_fixed (fixed_len sd) 0 bs
      else match sd_val sd with
           | VHalf => Ok ((0, 0, [b]), bs)
           | _ => parse_fixed (fixed_len sd) b bs
           end).
    { unfold parse_elem. rewrite Hfmt. destruct (sd_mand sd); [reflexivity|]. destruct (sd_val sd); reflexivity. }
    rewrite Hparse. clear Hparse.
    cbn [obind fst snd]. unfold dec_val. rewrite Esh. cbn [sh_cap v_len v_oct v_iei].
    unfold parse_fixed, fixed_len. rewrite Esh. cbn [sh_cap].
    destruct (sd_val sd) eqn:Ev; try discriminate.
    + (* VOctet *)
      change (N.to_nat 1) with 1%nat.
      destruct (take 1 bs) as [[x r']|] eqn:E2; [|destruct (sd_mand sd); reflexivity].
      apply take_length in E2 as (Lx & _ & _). unfold with_oct. cbn [v_iei v_len v_oct].
      rewrite (firstn_exact x 1 Lx). rewrite Hid. destruct (sd_mand sd); reflexivity.
    + (* VArrAll *)
      destruct bk as [|c| |]; try discriminate. cbn [sh_cap] in *. rewrite Nat2N.id.
      destruct (take c bs) as [[x r']|] eqn:E2; [|destruct (sd_mand sd); reflexivity].
      apply take_length in E2 as (Lx & _ & _). unfold with_oct. cbn [v_iei v_len v_oct].
      rewrite (firstn_exact x c Lx). rewrite Hid. destruct (sd_mand sd); reflexivity.
    + (* VArrN *)
      destruct bk as [|c| |]; try discriminate. cbn [sh_cap] in *. apply Nat.leb_le in Hk.
      destruct (Nat.ltb_spec c (N.to_nat n)); [lia|].
      destruct (take (N.to_nat n) bs) as [[x r']|] eqn:E2; [|destruct (sd_mand sd); reflexivity].
      apply take_length in E2 as (Lx & _ & _). unfold with_oct. cbn [v_iei v_len v_oct].
      rewrite (firstn_app_exact x _ _ Lx). rewrite Hid. destruct (sd_mand sd); reflexivity.
    + (* VBuf needs a length *)
      exfalso. unfold slot_rtb in Hrt0. rewrite Esh, Ev, Ehl in Hrt0. destruct bk; cbn in Hrt0; rewrite ?andb_false_r in Hrt0; discriminate.
    + (* VStruct: nothing transmitted *)
      destruct bk; try discriminate. change (N.to_nat 0) with 0%nat.
      assert (Ht0 : take 0 bs = Some ([], bs)) by (unfold take; cbn; reflexivity).
      rewrite Ht0. cbn [firstn]. rewrite Hid. destruct (sd_mand sd); reflexivity.
    + (* VHalf *)
      destruct (sd_mand sd) eqn:Em.
      * exfalso. destruct bk; try discriminate. repeat (apply andb_true_iff in Hk as [Hk ?]). discriminate.
      * unfold with_oct. cbn [v_iei v_len v_oct firstn]. change (N.to_nat 1) with 1%nat. cbn [firstn]. reflexivity.
Qed.

(* ---------- the message ---------- *)

Definition slots_ok (d : msgdef) : Prop :=
  forallb slot_rtb d = true /\ wf_defb d = true /\ forallb fmt_consistentb d = true.

Lemma slots_ok_cons sd t : slots_ok (sd :: t) ->
  slot_rtb sd = true /\ slot_wfb sd = true /\ fmt_consistentb sd = true /\ slots_ok t.
Proof.
  intros (A & B & C). cbn [forallb wf_defb] in *. unfold wf_defb in B. cbn [forallb] in B.
  apply andb_true_iff in A as [A1 A2]. apply andb_true_iff in B as [B1 B2]. apply andb_true_iff in C as [C1 C2].
  repeat split; assumption.
Qed.

Lemma slots_ok_in d sd : slots_ok d -> In sd d ->
  slot_rtb sd = true /\ slot_wfb sd = true /\ fmt_consistentb sd = true.
Proof.
  intros (A & B & C) Hin. unfold wf_defb in B. rewrite forallb_forall in A, B, C. auto.
Qed.

Lemma lookup_agree d : forallb slot_rtb d = true -> forall k i,
  spec_lookup (abstract d) k i =
  match find_opt d k i with Some (j, sd) => Some (j, abstract_slot sd) | None => None end.
Proof.
  induction d as [|sd t IH]; intros Hrt k i; [reflexivity|].
  cbn [forallb] in Hrt. apply andb_true_iff in Hrt as [Hs Ht].
  cbn [abstract map spec_lookup find_opt]. fold (abstract t).
  rewrite (is_mand_abstract sd Hs), abstract_iei.
  destruct (negb (sd_mand sd) && (sd_iei sd =? k))%bool; [reflexivity|]. apply IH. exact Ht.
Qed.

Lemma proj_msg_cons sd t ov m :
  proj_msg (sd :: t) (ov :: m) = (match ov with Some v => Some (proj sd v) | None => None end) :: proj_msg t m.
Proof. reflexivity. Qed.

Lemma mand_agree d : slots_ok d -> forall bs, bytes_ok bs ->
  match dec_mand d bs with
  | Ok (m, r) => spec_mand (abstract d) bs = Ok (proj_msg d m, r) /\ bytes_ok r /\ List.length m = List.length d
  | Err => spec_mand (abstract d) bs = Err
  | _ => False
  end.
Proof.
  induction d as [|sd t IH]; intros Hok bs Hb.
  - cbn. auto.
  - destruct (slots_ok_cons sd t Hok) as (Hs & Hw & Hf & Ht).
    cbn [dec_mand abstract map spec_mand]. fold (abstract t). rewrite (is_mand_abstract sd Hs).
    destruct (sd_mand sd) eqn:Em.
    + pose proof (slot_agree sd 0 (zero_val sd) bs Hs Hw Hf Hb eq_refl (or_introl eq_refl)
                    (fun _ => conj eq_refl eq_refl) ltac:(intro; congruence)) as Hsl.
      unfold same_slot in Hsl.
      destruct (dec_slot sd 0 (zero_val sd) bs) as [[v r]| | |] eqn:E1; try contradiction.
      * rewrite Hsl. cbn [obind fst snd].
        destruct (dec_slot_wf sd 0 (zero_val sd) bs v r Hs Hw Hb ltac:(lia) eq_refl (or_introl eq_refl) E1) as (_ & _ & Hr & _).
        specialize (IH Ht r Hr).
        destruct (dec_mand t r) as [[m1 r1]| | |]; try contradiction.
        -- destruct IH as (A & B & C). rewrite A. cbn [obind fst snd]. rewrite proj_msg_cons.
           repeat split; auto. cbn [List.length]. lia.
        -- rewrite IH. reflexivity.
      * rewrite Hsl. reflexivity.
    + specialize (IH Ht bs Hb).
      destruct (dec_mand t bs) as [[m1 r1]| | |]; try contradiction.
      * destruct IH as (A & B & C). rewrite A. cbn [obind fst snd]. rewrite proj_msg_cons.
        repeat split; auto. cbn [List.length]. lia.
      * rewrite IH. reflexivity.
Qed.

Lemma proj_msg_set_nth d : forall m i sd v,
  nth_error d i = Some sd -> List.length m = List.length d ->
  proj_msg d (set_nth m i (Some v)) = set_nth (proj_msg d m) i (Some (proj sd v)).
Proof.
  induction d as [|x t IH]; intros m i sd v Hn Hl; [destruct i; discriminate|].
  destruct m as [|y tm]; [discriminate|]. cbn [List.length] in Hl.
  destruct i as [|i]; cbn [nth_error] in Hn; cbn [set_nth]; rewrite !proj_msg_cons; cbn [set_nth].
  - inversion Hn; subst. reflexivity.
  - f_equal. apply IH; [exact Hn|lia].
Qed.

Definition apply_tokens (acc : list (option token)) (toks : list (nat * token)) : list (option token) :=
  fold_left (fun acc it => set_nth acc (fst it) (Some (snd it))) toks acc.

Lemma loop_agree d : slots_ok d -> forall fuel m bs, bytes_ok bs -> List.length m = List.length d ->
  match dec_loop fuel d m bs with
  | Ok m' => exists toks, spec_tokens fuel (abstract d) bs = Ok toks /\
                          proj_msg d m' = apply_tokens (proj_msg d m) toks
  | Err => spec_tokens fuel (abstract d) bs = Err
  | OutOfFuel => spec_tokens fuel (abstract d) bs = OutOfFuel
  | Panic => False
  end.
Proof.
  intros Hok. destruct Hok as (Hrt & Hwd & Hfc). induction fuel as [|f IH]; intros m bs Hb Hl.
  - destruct bs; cbn; [exists []; split; reflexivity|reflexivity].
  - destruct bs as [|b rest]; cbn [dec_loop spec_tokens]; [exists []; split; reflexivity|].
    inversion Hb as [|? ? Hb0 Hbr]; subst. unfold is_byte in Hb0.
    rewrite (lookup_agree d Hrt).
    destruct (find_opt d (classify b) 0) as [[i sd]|] eqn:Ef.
    + pose proof (find_opt_spec _ _ _ _ _ Ef) as (_ & Hnth & Hmand). rewrite Nat.sub_0_r in Hnth.
      pose proof (find_opt_iei _ _ _ _ _ Ef) as Hiei.
      assert (Hin : In sd d) by (eapply nth_error_In; eassumption).
      destruct (slots_ok_in d sd (conj Hrt (conj Hwd Hfc)) Hin) as (Hs & Hw & Hf).
      (* the start value NewX(b) *)
      pose proof Hs as Hs'. unfold slot_rtb in Hs'.
      destruct (sd_shape sd) as [hasiei w bk|] eqn:Esh; [|discriminate].
      apply andb_true_iff in Hs' as [Hs1 Hopt]. rewrite Hmand in Hopt.
      assert (Hstart : v_len (new_val sd b) = 0 /\
                       (v_oct (new_val sd b) = repeat 0 (sh_cap (sd_shape sd)) \/ sd_val sd = VHalf) /\
                       (sd_val sd <> VHalf -> v_iei (new_val sd b) = b)).
      { unfold new_val. rewrite Esh. cbn [sh_hasiei sh_cap]. destruct hasiei; cbn [v_len v_oct v_iei].
        - auto.
        - destruct (sd_val sd) eqn:Ev; try (rewrite andb_false_l in Hopt; discriminate).
          destruct bk; unfold zero_val; rewrite ?Esh; cbn; repeat split; auto; intro Hc; contradiction. }
      destruct Hstart as (Hl0 & Ho0 & Hi0).
      pose proof (slot_agree sd b (new_val sd b) rest Hs Hw Hf Hbr Hl0 Ho0 ltac:(intro; congruence) (fun _ H => Hi0 H)) as Hsl.
      unfold same_slot in Hsl.
      destruct (dec_slot sd b (new_val sd b) rest) as [[v r]| | |] eqn:E1; try contradiction.
      * rewrite Hsl. cbn [obind fst snd].
        destruct (dec_slot_wf sd b (new_val sd b) rest v r Hs Hw Hbr Hb0 Hl0 Ho0 E1) as (_ & _ & Hr & _).
        assert (Hl' : List.length (set_nth m i (Some v)) = List.length d) by (rewrite set_nth_length; exact Hl).
        specialize (IH (set_nth m i (Some v)) r Hr Hl').
        destruct (dec_loop f d (set_nth m i (Some v)) r) as [m'| | |]; try contradiction.
        -- destruct IH as (toks & Ht & Hp). rewrite Ht. cbn [obind].
           exists ((i, proj sd v) :: toks). split; [reflexivity|].
           unfold apply_tokens in *. cbn [fold_left fst snd]. rewrite Hp.
           rewrite (proj_msg_set_nth d m i sd v Hnth Hl). reflexivity.
        -- rewrite IH. reflexivity.
        -- rewrite IH. reflexivity.
      * rewrite Hsl. reflexivity.
    + specialize (IH m rest Hbr Hl).
      destruct (dec_loop f d m rest) as [m'| | |]; try contradiction; auto.
Qed.

(* C04 (b): for every byte string the generated decoder and the table-driven decoder agree:
   same accept / reject, same field values (identifier, declared length, transmitted octets of every slot) *)
Theorem decode_agrees_with_spec d bs : spec_defb d = true -> bytes_ok bs ->
  match decode_def d bs with
  | Ok m => spec_decode (abstract d) bs = Ok (proj_msg d m)
  | Err => spec_decode (abstract d) bs = Err
  | _ => False
  end.
Proof.
  intros Hsp Hb. unfold spec_defb in Hsp. apply andb_true_iff in Hsp as [Hrt Hfc].
  unfold rt_defb in Hrt. apply andb_true_iff in Hrt as [Hrt _]. apply andb_true_iff in Hrt as [Hwd Hs].
  assert (Hok : slots_ok d) by (repeat split; assumption).
  unfold decode_def, spec_decode.
  pose proof (mand_agree d Hok bs Hb) as Hm.
  destruct (dec_mand d bs) as [[m0 r]| | |]; try contradiction.
  - destruct Hm as (A & B & C). rewrite A. cbn [obind fst snd].
    pose proof (loop_agree d Hok (S (List.length r)) m0 r B C) as Hl.
    pose proof (dec_loop_total d Hwd (S (List.length r)) m0 r ltac:(lia)) as T.
    destruct (dec_loop (S (List.length r)) d m0 r) as [m'| | |]; try contradiction.
    + destruct Hl as (toks & Ht & Hp). rewrite Ht. cbn [obind]. rewrite Hp. reflexivity.
    + rewrite Hl. reflexivity.
  - rewrite Hm. reflexivity.
Qed.
