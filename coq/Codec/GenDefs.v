(* The record of tables and definitions extracted from the CURRENT source (Gen/*.v). *)
From NV Require Import Lib.Base Codec.Lang Codec.Def Codec.Sem Codec.Dispatch Gen.GenMsgs Gen.GenTypes Gen.GenDispatch.
From Coq Require Import String.
Open Scope N_scope.

Definition defs : list (string * msgdef) := map (fun g => (g_name g, def_of nas_types g)) all_msgs.

Definition T : tables :=
  mktables defs disp_GmmMessageDecode disp_GsmMessageDecode disp_GmmMessageEncode disp_GsmMessageEncode
           gmm_header_len gsm_header_len gmm_type_index gsm_type_index epd_gmm epd_gsm
           plain_decode_shape plain_encode_shape.

Notation find_def := (Dispatch.find_def T).
Notation part_decode := (Dispatch.part_decode T).
Notation plain_decode := (Dispatch.plain_decode T).
Notation plain_encode := (Dispatch.plain_encode T).
