(* nas.go / nas_generated.go: dispatch on the extended protocol discriminator and the
   message type, over a record of translated switch tables (instantiated in Codec/GenDefs.v). *)
From NV Require Import Lib.Base Codec.Lang Codec.Def Codec.Sem Codec.LoopLemmas.
From Coq Require Import String.
Open Scope N_scope.

Record tables := mktables {
  t_defs : list (string * msgdef);
  t_gmm_dec : disp_table; t_gsm_dec : disp_table;
  t_gmm_enc : disp_table; t_gsm_enc : disp_table;
  t_gmm_hlen : N; t_gsm_hlen : N;
  t_gmm_tix : N; t_gsm_tix : N;
  t_epd_gmm : N; t_epd_gsm : N;
  t_plain_dec_shape : bool; t_plain_enc_shape : bool }.

(* the Go nas.Message after a successful decode / before an encode:
   which part (GMM/GSM), the header view, and the populated body slots by name *)
Record plainmsg := mkpm {
  pm_gmm : bool;
  pm_header : bytes;
  pm_bodies : list (string * msgval) }.

Definition dec_lookup (t : disp_table) (ty : N) : option string :=
  match find (fun it => match it with DispDec n _ _ _ => n =? ty | _ => false end) (d_items t) with
  | Some (DispDec _ fld _ _) => Some fld
  | _ => None
  end.

Definition enc_lookup (t : disp_table) (ty : N) : option string :=
  match find (fun it => match it with DispEnc n _ => n =? ty | _ => false end) (d_items t) with
  | Some (DispEnc _ callee) => Some callee
  | _ => None
  end.

Definition strip_prefix (p s : string) : option string :=
  if String.prefix p s then Some (String.substring (String.length p) (String.length s - String.length p) s) else None.

Fixpoint nodupN (l : list N) : bool :=
  match l with [] => true | x :: t => negb (existsb (N.eqb x) t) && nodupN t end.

Definition item_type (it : disp_item) : N :=
  match it with DispDec n _ _ _ | DispEnc n _ => n | DispUnknown => 0 end.

Definition enc_matches_dec (e d : disp_item) : bool :=
  match e, d with
  | DispEnc n callee, DispDec n' fld _ _ => (n =? n') && String.eqb callee ("Encode" ++ fld)
  | _, _ => false
  end.

Section WithTables.
  Variable T : tables.

  Definition find_def (n : string) : option msgdef :=
    match find (fun p => String.eqb (fst p) n) (t_defs T) with Some p => Some (snd p) | None => None end.

  Definition part_decode (gmm : bool) (bs : bytes) : outcome plainmsg :=
    let hlen := N.to_nat (if gmm then t_gmm_hlen T else t_gsm_hlen T) in
    let tix := N.to_nat (if gmm then t_gmm_tix T else t_gsm_tix T) in
    let tbl := if gmm then t_gmm_dec T else t_gsm_dec T in
    match take hlen bs with
    | None => Err                                   (* binary.Read of the header fails *)
    | Some (h, _) =>
        match dec_lookup tbl (nth tix h 0) with
        | None => Err                               (* default: unknown message type *)
        | Some name =>
            match find_def name with
            | None => Panic
            | Some d => m <- decode_def d bs ;; Ok (mkpm gmm h [(name, m)])
            end
        end
    end.

  (* PlainNasDecode; None models a nil *[]byte *)
  Definition plain_decode (obs : option bytes) : outcome plainmsg :=
    match obs with
    | None => Err
    | Some [] => Err
    | Some (b :: t) =>
        if b =? t_epd_gmm T then part_decode true (b :: t)
        else if b =? t_epd_gsm T then part_decode false (b :: t)
        else Err
    end.

  Definition part_encode (gmm : bool) (pm : plainmsg) : outcome bytes :=
    let tix := N.to_nat (if gmm then t_gmm_tix T else t_gsm_tix T) in
    let tbl := if gmm then t_gmm_enc T else t_gsm_enc T in
    match enc_lookup tbl (nth tix (pm_header pm) 0) with
    | None => Err                                   (* default: unknown message type *)
    | Some callee =>
        match strip_prefix "Encode" callee with
        | None => Panic
        | Some name =>
            match find (fun p => String.eqb (fst p) name) (pm_bodies pm), find_def name with
            | Some (_, m), Some d => encode_def d m
            | _, _ => Panic                         (* nil body pointer: method call dereferences nil *)
            end
        end
    end.

  (* PlainNasEncode on a Message whose GmmMessage / GsmMessage pointer is set (or neither) *)
  Definition plain_encode (m : option plainmsg) : outcome bytes :=
    match m with
    | None => Err
    | Some pm => part_encode (pm_gmm pm) pm
    end.

  (* ---------- well-formedness of the translated tables ---------- *)

  Definition dec_item_ok (it : disp_item) : bool :=
    match it with
    | DispDec _ fld ctor callee =>
        String.eqb ctor ("New" ++ fld) && String.eqb callee ("Decode" ++ fld) &&
        match find_def fld with Some _ => true | None => false end
    | _ => false
    end.

  Definition tables_ok (dec enc : disp_table) : bool :=
    d_prologue dec && d_default_err dec && d_prologue enc && d_default_err enc &&
    forallb dec_item_ok (d_items dec) && nodupN (map item_type (d_items dec)) &&
    eqb_list enc_matches_dec (d_items enc) (d_items dec).

  Definition dispatch_ok : bool :=
    tables_ok (t_gmm_dec T) (t_gmm_enc T) &&
    tables_ok (t_gsm_dec T) (t_gsm_enc T) &&
    t_plain_dec_shape T && t_plain_enc_shape T &&
    (t_gmm_hlen T =? 3) && (t_gsm_hlen T =? 4) && (t_gmm_tix T =? 2) && (t_gsm_tix T =? 3) &&
    (t_epd_gmm T =? 126) && (t_epd_gsm T =? 46).
End WithTables.
