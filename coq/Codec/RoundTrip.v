(* C02: encoding a well-formed message and decoding the result gives the message back. *)
From NV Require Import Lib.Base Lib.ListExt Codec.Lang Codec.Def Codec.Sem Codec.Total Codec.WF Codec.LoopLemmas.
From Coq Require Import String ZifyN ZifyNat ZifyBool.
Open Scope N_scope.

(* ---------- big-endian length fields ---------- *)

Lemma be_bytes_length w n : List.length (be_bytes w n) = w.
Proof. induction w as [|k IH]; cbn [be_bytes List.length]; auto. Qed.

Lemma be_val_be_bytes w n : be_val (be_bytes w n) = n mod 256 ^ N.of_nat w.
Proof.
  induction w as [|k IH]; cbn [be_bytes be_val].
  - cbn. rewrite N.mod_1_r. reflexivity.
  - rewrite be_bytes_length, IH.
    replace (N.of_nat (S k)) with (N.of_nat k + 1) by lia.
    rewrite N.pow_add_r, N.pow_1_r.
    rewrite (N.mod_mul_r n (256 ^ N.of_nat k) 256) by (try apply N.pow_nonzero; lia).
    lia.
Qed.

Lemma take_app n x r : List.length x = n -> take n (x ++ r) = Some (x, r).
Proof.
  intro H. unfold take. rewrite app_length.
  destruct (Nat.ltb_spec (List.length x + List.length r) n); [lia|].
  rewrite firstn_app, skipn_app, H, Nat.sub_diag. cbn [firstn skipn].
  rewrite app_nil_r. rewrite <- H, firstn_all, skipn_all. reflexivity.
Qed.

Lemma zerosb_spec l : zerosb l = true -> l = repeat 0 (List.length l).
Proof.
  induction l as [|x t IH]; cbn [zerosb forallb List.length repeat]; intro H; [reflexivity|].
  apply andb_true_iff in H as [H1 H2]. apply N.eqb_eq in H1. subst. f_equal. auto.
Qed.

Lemma skipn_repeat {A} (x : A) n k : skipn k (repeat x n) = repeat x (n - k).
Proof.
  revert k. induction n as [|n IH]; intros [|k]; cbn; auto.
Qed.

(* an array whose tail beyond k is zero is its first k octets followed by the tail of a zeroed array *)
Lemma arr_tail oct cap k :
  List.length oct = cap -> zerosb (skipn k oct) = true ->
  firstn k oct ++ skipn k (repeat 0 cap) = oct.
Proof.
  intros Hl Hz. apply zerosb_spec in Hz. rewrite skipn_length in Hz.
  rewrite skipn_repeat. rewrite <- Hl. rewrite <- Hz. apply firstn_skipn.
Qed.

(* ---------- one element ---------- *)

(* the decoder's starting value for the slot: zero value (mandatory) or NewX(b) (optional) *)
Definition start_ok (sd : slotdef) (v s0 : ieval) : Prop :=
  v_iei s0 = v_iei v /\ v_len s0 = 0 /\
  (v_oct s0 = repeat 0 (sh_cap (sd_shape sd)) \/ sd_val sd = VHalf).

Lemma slot_roundtrip sd v s0 b rest :
  slot_rtb sd = true -> wf_valb sd v = true -> start_ok sd v s0 ->
  (sd_val sd = VHalf -> v_oct v = [b]) ->
  exists e, enc_value sd v = Ok e /\
    dec_slot sd b s0 ((match sd_val sd with VHalf => [] | _ => e end) ++ rest) = Ok (v, rest).
Proof.
  intros Hrt Hwf (Hi & Hl0 & Ho) Hhalf.
  destruct v as [iei len oct]. destruct s0 as [iei0 len0 oct0]. cbn [v_iei v_len v_oct] in *. subst iei0 len0.
  unfold slot_rtb in Hrt. destruct (sd_shape sd) as [hasiei w bk|] eqn:Esh; [|discriminate].
  apply andb_true_iff in Hrt as [Hrt _]. apply andb_true_iff in Hrt as [Hw Hk].
  unfold wf_valb in Hwf. rewrite Esh in Hwf. cbn [v_oct v_len] in Hwf.
  apply andb_true_iff in Hwf as [Hwf Hform]. apply andb_true_iff in Hwf as [Hbytes Hlen].
  unfold enc_value, dec_slot, dec_len, dec_val. rewrite Esh.
  (* (the half-octet element is its own identifier octet: the loop has already consumed it) *) cbn [v_len v_oct v_iei sh_lenw sh_isbuf sh_cap].
  (* the length step *)
  assert (Hlenstep : forall content,
    (if sd_haslen sd
     then match take w ((be_bytes w len ++ content) ++ rest) with
          | None => Err
          | Some (lb, r) =>
              if check_fails (sd_check sd) (be_val lb) then Err
              else Ok (mkie iei (be_val lb)
                         (if match bk with TBBuffer => true | _ => false end
                          then repeat 0 (N.to_nat (be_val lb)) else oct0), r)
          end
     else Ok (mkie iei 0 oct0, (be_bytes w len ++ content) ++ rest)) =
    (if sd_haslen sd
     then Ok (mkie iei len (if match bk with TBBuffer => true | _ => false end
                            then repeat 0 (N.to_nat len) else oct0), content ++ rest)
     else Ok (mkie iei 0 oct0, (be_bytes w len ++ content) ++ rest))).
  { intro content. destruct (sd_haslen sd) eqn:Ehl; [|reflexivity].
    apply andb_true_iff in Hlen as [Hlt Hchk]. apply negb_true_iff in Hchk.
    unfold lenw_bound in Hlt. rewrite Esh in Hlt. cbn [sh_lenw] in Hlt.
    rewrite <- app_assoc. rewrite take_app by apply be_bytes_length.
    rewrite be_val_be_bytes, N.mod_small by lia. rewrite Hchk. reflexivity. }
  destruct (sd_val sd) eqn:Ev; try discriminate.
  - (* VOctet *)
    destruct bk; try discriminate. cbn [sh_cap] in Ho. destruct Ho as [Ho|Ho]; [|discriminate]. subst oct0.
    apply Nat.eqb_eq in Hform. destruct oct as [|x [|]]; cbn in Hform; try lia.
    eexists. split; [reflexivity|]. cbn [firstn].
    destruct (sd_haslen sd) eqn:Ehl.
    + rewrite (Hlenstep [x]). cbn [obind fst snd]. rewrite (take_app 1 [x] rest eq_refl). reflexivity.
    + apply N.eqb_eq in Hlen. subst len. cbn [obind fst snd]. rewrite ?app_nil_l. rewrite (take_app 1 [x] rest eq_refl). reflexivity.
  - (* VArrAll *)
    destruct bk as [|c| |]; try discriminate. cbn [sh_cap] in *. destruct Ho as [Ho|Ho]; [|discriminate]. subst oct0.
    apply Nat.eqb_eq in Hform.
    eexists. split; [reflexivity|].
    destruct (sd_haslen sd) eqn:Ehl.
    + rewrite (Hlenstep oct). cbn [obind fst snd]. rewrite (take_app c oct rest Hform). reflexivity.
    + apply N.eqb_eq in Hlen. subst len. cbn [obind fst snd]. rewrite ?app_nil_l. rewrite (take_app c oct rest Hform). reflexivity.
  - (* VArrN *)
    destruct bk as [|c| |]; try discriminate. cbn [sh_cap] in *. destruct Ho as [Ho|Ho]; [|discriminate]. subst oct0.
    apply andb_true_iff in Hform as [Hcap Hz]. apply Nat.eqb_eq in Hcap. apply Nat.leb_le in Hk.
    destruct (Nat.ltb_spec c (N.to_nat n)) as [|Hle]; [lia|].
    eexists. split; [reflexivity|].
    assert (Hfl : List.length (firstn (N.to_nat n) oct) = N.to_nat n) by (rewrite firstn_length; lia).
    destruct (sd_haslen sd) eqn:Ehl.
    + rewrite (Hlenstep (firstn (N.to_nat n) oct)). cbn [obind fst snd v_oct v_len].
      destruct (Nat.ltb_spec c (N.to_nat n)); [lia|].
      rewrite (take_app _ _ rest Hfl). unfold with_oct. cbn [v_iei v_len v_oct].
      rewrite (arr_tail oct c (N.to_nat n) Hcap Hz). reflexivity.
    + apply N.eqb_eq in Hlen. subst len. cbn [obind fst snd v_oct v_len]. rewrite ?app_nil_l.
      destruct (Nat.ltb_spec c (N.to_nat n)); [lia|].
      rewrite (take_app _ _ rest Hfl). unfold with_oct. cbn [v_iei v_len v_oct].
      rewrite (arr_tail oct c (N.to_nat n) Hcap Hz). reflexivity.
  - (* VArrLen *)
    destruct bk as [|c| |]; try discriminate. cbn [sh_cap] in *. destruct Ho as [Ho|Ho]; [|discriminate]. subst oct0.
    rewrite Hk in *.
    apply andb_true_iff in Hform as [Hform Hz]. apply andb_true_iff in Hform as [Hcap Hle].
    apply Nat.eqb_eq in Hcap. apply Nat.leb_le in Hle.
    destruct (Nat.ltb_spec c (N.to_nat len)) as [|_]; [lia|].
    eexists. split; [reflexivity|].
    assert (Hfl : List.length (firstn (N.to_nat len) oct) = N.to_nat len) by (rewrite firstn_length; lia).
    rewrite (Hlenstep (firstn (N.to_nat len) oct)). cbn [obind fst snd v_oct v_len].
    destruct (Nat.ltb_spec c (N.to_nat len)); [lia|].
    rewrite (take_app _ _ rest Hfl). unfold with_oct. cbn [v_iei v_len v_oct].
    rewrite (arr_tail oct c (N.to_nat len) Hcap Hz). reflexivity.
  - (* VBuf *)
    destruct bk; try discriminate. rewrite Hk in *.
    apply Nat.eqb_eq in Hform.
    eexists. split; [reflexivity|].
    rewrite (Hlenstep oct). cbn [obind fst snd v_oct v_len].
    rewrite repeat_length. rewrite (take_app _ oct rest Hform). reflexivity.
  - (* VStruct *)
    destruct bk; try discriminate. cbn [sh_cap] in *. destruct Ho as [Ho|Ho]; [|discriminate]. subst oct0.
    apply Nat.eqb_eq in Hform. destruct oct; cbn in Hform; try lia.
    eexists. split; [reflexivity|].
    destruct (sd_haslen sd) eqn:Ehl.
    + pose proof (Hlenstep []) as Hs. rewrite app_nil_r in Hs. rewrite Hs.
      cbn [obind fst snd]. rewrite app_nil_l. reflexivity.
    + apply N.eqb_eq in Hlen. subst len. cbn [obind fst snd]. rewrite ?app_nil_l. reflexivity.
  - (* VHalf *)
    destruct bk; try discriminate.
    repeat (apply andb_true_iff in Hk as [Hk ?]).
    match goal with H : negb (sd_haslen sd) = true |- _ => apply negb_true_iff in H; rewrite H in * end.
    apply N.eqb_eq in Hlen. subst len.
    specialize (Hhalf eq_refl). cbn [v_oct] in Hhalf. subst oct.
    eexists. split; [reflexivity|]. cbn [firstn app obind fst snd]. unfold with_oct. cbn. reflexivity.
Qed.

(* ---------- the mandatory part ---------- *)

Fixpoint mand_only (d : msgdef) (m : msgval) : msgval :=
  match d, m with
  | sd :: t, ov :: tm => (if sd_mand sd then ov else None) :: mand_only t tm
  | _, _ => []
  end.

Lemma wf_val_mand_not_half sd : slot_rtb sd = true -> sd_mand sd = true -> sd_val sd <> VHalf.
Proof.
  unfold slot_rtb. destruct (sd_shape sd) as [h w b|]; [|discriminate].
  intros H Hm Hv. rewrite Hv in H. destruct b; cbn in H; try (rewrite ?andb_false_r in H; discriminate).
  rewrite Hm in H. cbn in H. rewrite !andb_false_r in H. cbn in H. rewrite ?andb_false_r in H. discriminate.
Qed.

Lemma dec_mand_enc d : forall m rest,
  forallb slot_rtb d = true -> wf_msgb d m = true ->
  exists e, enc_part true d m = Ok e /\ dec_mand d (e ++ rest) = Ok (mand_only d m, rest).
Proof.
  induction d as [|sd t IH]; intros m rest Hrt Hwf; destruct m as [|ov tm]; cbn [wf_msgb] in Hwf; try discriminate.
  - exists []. split; reflexivity.
  - cbn [forallb] in Hrt. apply andb_true_iff in Hrt as [Hs Ht].
    apply andb_true_iff in Hwf as [Hsv Hwt].
    destruct (IH tm rest Ht Hwt) as (e2 & He2 & Hd2).
    cbn [enc_part dec_mand mand_only].
    destruct (sd_mand sd) eqn:Em; cbn [Bool.eqb].
    + destruct ov as [v|]; cbn [wf_slotvalb] in Hsv; [|rewrite Em in Hsv; discriminate].
      apply andb_true_iff in Hsv as [Hv Hid]. unfold ident_okb in Hid. rewrite Em in Hid. apply N.eqb_eq in Hid.
      assert (Hstart : start_ok sd v (zero_val sd)).
      { unfold start_ok, zero_val. cbn. auto. }
      pose proof (wf_val_mand_not_half sd Hs Em) as Hnh.
      destruct (slot_roundtrip sd v (zero_val sd) 0 (e2 ++ rest) Hs Hv Hstart ltac:(intro; contradiction))
        as (e1 & He1 & Hd1).
      exists (e1 ++ e2). split.
      * unfold enc_slot. rewrite He1. cbn [obind]. rewrite Em. cbn [negb andb app]. rewrite He2. reflexivity.
      * rewrite <- app_assoc.
        assert (Hd1' : dec_slot sd 0 (zero_val sd) (e1 ++ e2 ++ rest) = Ok (v, e2 ++ rest)).
        { revert Hd1 Hnh. destruct (sd_val sd); intros Hd1 Hnh; try exact Hd1. exfalso. apply Hnh. reflexivity. }
        rewrite Hd1'. cbn [obind fst snd]. rewrite Hd2. reflexivity.
    + exists e2. split; [exact He2|]. rewrite Hd2. reflexivity.
Qed.

(* ---------- the optional part ---------- *)

Lemma nodup_ieis_spec l : nodup_ieis l = true -> NoDup l.
Proof.
  induction l as [|x t IH]; cbn; intro H; constructor.
  - apply andb_true_iff in H as [H _]. apply negb_true_iff in H. intro Hin.
    assert (existsb (N.eqb x) t = true); [|congruence].
    apply existsb_exists. exists x. split; [assumption|apply N.eqb_refl].
  - apply andb_true_iff in H as [_ H]. auto.
Qed.

Definition opt_ieis (d : msgdef) : list N := map sd_iei (filter (fun sd => negb (sd_mand sd)) d).

Lemma find_opt_at pre sd post i :
  sd_mand sd = false -> ~ In (sd_iei sd) (opt_ieis pre) ->
  find_opt (pre ++ sd :: post) (sd_iei sd) i = Some ((i + List.length pre)%nat, sd).
Proof.
  intros Hm. revert i. induction pre as [|x pre IH]; intros i Hni.
  - cbn [app find_opt List.length]. rewrite Hm, N.eqb_refl. cbn. rewrite Nat.add_0_r. reflexivity.
  - cbn [app find_opt List.length].
    unfold opt_ieis in Hni. cbn [filter] in Hni.
    destruct (sd_mand x) eqn:Ex; cbn [negb andb] in *.
    + rewrite IH by exact Hni. f_equal. f_equal. lia.
    + cbn [map In] in Hni.
      destruct (N.eqb_spec (sd_iei x) (sd_iei sd)) as [E|E]; [exfalso; apply Hni; left; exact E|].
      rewrite IH by (intro; apply Hni; right; assumption). f_equal. f_equal. lia.
Qed.

Lemma set_nth_app {A} (l1 : list A) x l2 y : set_nth (l1 ++ x :: l2) (List.length l1) y = l1 ++ y :: l2.
Proof. induction l1 as [|h t IH]; cbn; [reflexivity|]. f_equal. exact IH. Qed.

Lemma opt_ieis_app a b : opt_ieis (a ++ b) = opt_ieis a ++ opt_ieis b.
Proof. unfold opt_ieis. rewrite filter_app, map_app. reflexivity. Qed.

Lemma classify_full i : 16 <= i -> i < 128 -> classify i = i.
Proof. intros. unfold classify. destruct (N.leb_spec 128 i); [lia|reflexivity]. Qed.

Lemma dec_suffix post : forall pre mpre mpost fuel e,
  forallb slot_rtb post = true -> wf_msgb post mpost = true ->
  NoDup (opt_ieis (pre ++ post)) -> List.length mpre = List.length pre ->
  enc_part false post mpost = Ok e -> (List.length e < fuel)%nat ->
  dec_loop fuel (pre ++ post) (mpre ++ mand_only post mpost) e = Ok (mpre ++ mpost).
Proof.
  induction post as [|sd post IH]; intros pre mpre mpost fuel e Hrt Hwf Hnd Hlen Henc Hf;
    destruct mpost as [|ov mpost]; cbn [wf_msgb] in Hwf; try discriminate.
  - cbn [enc_part] in Henc. inversion Henc; subst. destruct fuel; cbn; reflexivity.
  - cbn [forallb] in Hrt. apply andb_true_iff in Hrt as [Hs Ht].
    apply andb_true_iff in Hwf as [Hsv Hwt].
    cbn [enc_part mand_only] in *.
    assert (Hpre : pre ++ sd :: post = (pre ++ [sd]) ++ post) by (rewrite <- app_assoc; reflexivity).
    destruct (sd_mand sd) eqn:Em; cbn [Bool.eqb] in Henc.
    + (* mandatory slot: not part of the optional bytes *)
      rewrite Hpre.
      replace (mpre ++ ov :: mand_only post mpost) with ((mpre ++ [ov]) ++ mand_only post mpost)
        by (rewrite <- app_assoc; reflexivity).
      replace (mpre ++ ov :: mpost) with ((mpre ++ [ov]) ++ mpost) by (rewrite <- app_assoc; reflexivity).
      apply IH; auto; [rewrite <- Hpre; exact Hnd|rewrite !app_length; cbn; lia].
    + destruct ov as [v|].
      * (* present optional element *)
        cbn [wf_slotvalb] in Hsv. apply andb_true_iff in Hsv as [Hv Hid].
        unfold enc_slot in Henc.
        destruct (enc_value sd v) as [ev| | |] eqn:Eev; cbn [obind] in Henc; try discriminate.
        rewrite Em in Henc. cbn [negb andb] in Henc.
        destruct (enc_part false post mpost) as [e2| | |] eqn:E2; cbn [obind] in Henc; try discriminate.
        inversion Henc; subst e; clear Henc.
        (* which octet does the loop read first, and what remains for dec_slot *)
        unfold ident_okb in Hid. rewrite Em in Hid.
        assert (Hni : ~ In (sd_iei sd) (opt_ieis pre)).
        { rewrite opt_ieis_app in Hnd. unfold opt_ieis at 2 in Hnd. cbn [filter] in Hnd. rewrite Em in Hnd.
          cbn [negb map] in Hnd. apply NoDup_remove_2 in Hnd. intro Hin. apply Hnd. apply in_or_app. left. exact Hin. }
        pose proof Hs as Hs'. unfold slot_rtb in Hs'.
        destruct (sd_shape sd) as [hasiei w bk|] eqn:Esh; [|discriminate].
        apply andb_true_iff in Hs' as [Hs1 Hopt]. rewrite Em in Hopt.
        destruct (sd_val sd) eqn:Ev.
        all: try (
          (* full-octet identifier in the Iei field *)
          apply andb_true_iff in Hopt as [Hopt Hlt]; apply andb_true_iff in Hopt as [Hhi Hge];
          apply N.eqb_eq in Hid; apply N.leb_le in Hge; apply N.ltb_lt in Hlt;
          assert (H16 : (16 <=? sd_iei sd) = true) by (apply N.leb_le; exact Hge);
          rewrite H16 in Hf |- *; cbn [app] in Hf |- *;
          destruct fuel as [|f]; [cbn in Hf; lia|];
          cbn [dec_loop]; rewrite Hid, (classify_full _ Hge Hlt);
          rewrite (find_opt_at pre sd post 0 Em Hni); cbn [Nat.add];
          assert (Hstart : start_ok sd v (new_val sd (sd_iei sd)));
          [ unfold start_ok, new_val; rewrite Esh; cbn [sh_hasiei sh_cap]; rewrite Hhi; cbn; rewrite Hid; auto |];
          destruct (slot_roundtrip sd v (new_val sd (sd_iei sd)) (sd_iei sd) (e2 ++ [])
                      Hs Hv Hstart ltac:(rewrite Ev; discriminate)) as (ev' & Hev' & Hdec);
          rewrite Eev in Hev'; inversion Hev'; subst ev'; rewrite Ev in Hdec;
          rewrite app_nil_r in Hdec; rewrite Hdec; cbn [obind fst snd];
          rewrite <- Hlen, set_nth_app;
          rewrite Hpre;
          replace (mpre ++ Some v :: mand_only post mpost) with ((mpre ++ [Some v]) ++ mand_only post mpost)
            by (rewrite <- app_assoc; reflexivity);
          replace (mpre ++ Some v :: mpost) with ((mpre ++ [Some v]) ++ mpost) by (rewrite <- app_assoc; reflexivity);
          apply IH; auto;
          [ rewrite <- Hpre; exact Hnd | rewrite !app_length; cbn; lia
          | cbn [List.length] in Hf; rewrite app_length in Hf; lia ]).
        -- (* half-octet element: its single octet is the identifier octet *)
           apply andb_true_iff in Hid as [Hi0 Hcl]. apply N.eqb_eq in Hi0. apply N.eqb_eq in Hcl.
           destruct bk; try discriminate; try (rewrite andb_false_r in Hs1; discriminate).
           repeat match goal with Hc : (_ && _)%bool = true |- _ => apply andb_true_iff in Hc as [? ?] end.
           assert (H16 : (16 <=? sd_iei sd) = false).
           { apply N.leb_gt. match goal with H : (sd_iei sd <? 16) = true |- _ => apply N.ltb_lt in H; exact H end. }
           rewrite H16 in Hf |- *. cbn [app] in Hf |- *.
           (* the value is one octet b *)
           pose proof Hv as Hv'. unfold wf_valb in Hv'. rewrite Ev in Hv'.
           apply andb_true_iff in Hv' as [_ Hl1]. apply Nat.eqb_eq in Hl1.
           destruct (v_oct v) as [|b [|]] eqn:Eo; cbn in Hl1; try lia.
           unfold enc_value in Eev. rewrite Ev in Eev.
           match goal with H : negb (sd_haslen sd) = true |- _ => apply negb_true_iff in H; rewrite H in Eev end.
           rewrite Eo in Eev. cbn [firstn app] in Eev. inversion Eev; subst ev. cbn [app] in Hf |- *.
           destruct fuel as [|f]; [cbn in Hf; lia|].
           cbn [dec_loop]. cbn [hd] in Hcl. rewrite Hcl.
           rewrite (find_opt_at pre sd post 0 Em Hni). cbn [Nat.add].
           assert (Hstart : start_ok sd v (new_val sd b)).
           { unfold start_ok, new_val. rewrite Esh. cbn [sh_hasiei].
             match goal with H : negb hasiei = true |- _ => apply negb_true_iff in H; rewrite H end.
             cbn. rewrite Hi0. auto. }
           destruct (slot_roundtrip sd v (new_val sd b) b (e2 ++ []) Hs Hv Hstart ltac:(intro; exact Eo))
             as (ev' & _ & Hdec).
           rewrite Ev in Hdec. cbn [app] in Hdec. rewrite app_nil_r in Hdec. rewrite Hdec. cbn [obind fst snd].
           rewrite <- Hlen, set_nth_app. rewrite Hpre.
           replace (mpre ++ Some v :: mand_only post mpost) with ((mpre ++ [Some v]) ++ mand_only post mpost)
             by (rewrite <- app_assoc; reflexivity).
           replace (mpre ++ Some v :: mpost) with ((mpre ++ [Some v]) ++ mpost) by (rewrite <- app_assoc; reflexivity).
           apply IH; auto; [rewrite <- Hpre; exact Hnd|rewrite !app_length; cbn; lia|cbn [List.length] in Hf; lia].
      * (* absent optional element *)
        cbn [enc_slot] in Henc. rewrite Em in Henc. cbn [obind app] in Henc.
        destruct (enc_part false post mpost) as [e2| | |] eqn:E2; cbn [obind] in Henc; try discriminate.
        inversion Henc; subst e.
        rewrite Hpre.
        replace (mpre ++ None :: mand_only post mpost) with ((mpre ++ [None]) ++ mand_only post mpost)
          by (rewrite <- app_assoc; reflexivity).
        replace (mpre ++ None :: mpost) with ((mpre ++ [None]) ++ mpost) by (rewrite <- app_assoc; reflexivity).
        apply IH; auto; [rewrite <- Hpre; exact Hnd|rewrite !app_length; cbn; lia].
Qed.

(* ---------- the message ---------- *)

Theorem roundtrip d m :
  rt_defb d = true -> wf_msgb d m = true ->
  exists bs, encode_def d m = Ok bs /\ decode_def d bs = Ok m.
Proof.
  intros Hrt Hwf. unfold rt_defb in Hrt.
  apply andb_true_iff in Hrt as [Hrt Hnd]. apply andb_true_iff in Hrt as [_ Hs].
  apply nodup_ieis_spec in Hnd.
  (* the optional bytes *)
  assert (Hopt : exists e2, enc_part false d m = Ok e2).
  { clear Hnd. revert m Hwf. induction d as [|sd t IH]; intros [|ov tm] Hwf; cbn [wf_msgb] in Hwf; try discriminate.
    - exists []. reflexivity.
    - cbn [forallb] in Hs. apply andb_true_iff in Hs as [Hs1 Hs2]. apply andb_true_iff in Hwf as [Hsv Hwt].
      destruct (IH Hs2 tm Hwt) as (e & He). cbn [enc_part].
      destruct (sd_mand sd) eqn:Em; cbn [Bool.eqb]; [exists e; exact He|].
      destruct ov as [v|]; cbn [wf_slotvalb] in Hsv.
      + apply andb_true_iff in Hsv as [Hv _].
        destruct (slot_roundtrip sd v (mkie (v_iei v) 0 (repeat 0 (sh_cap (sd_shape sd)))) (hd 0 (v_oct v)) [] Hs1 Hv) as (ev & Hev & _).
        * unfold start_ok. cbn. auto.
        * intro Hh. unfold wf_valb in Hv. rewrite Hh in Hv. apply andb_true_iff in Hv as [_ Hl].
          apply Nat.eqb_eq in Hl. destruct (v_oct v) as [|x [|]]; cbn in Hl; try lia. reflexivity.
        * unfold enc_slot. rewrite Hev. cbn [obind]. rewrite He. cbn [obind]. eexists; reflexivity.
      + cbn [enc_slot]. rewrite Em. cbn [obind]. rewrite He. cbn. eexists; reflexivity. }
  destruct Hopt as (e2 & He2).
  destruct (dec_mand_enc d m e2 Hs Hwf) as (e1 & He1 & Hd1).
  exists (e1 ++ e2). split.
  - unfold encode_def. rewrite He1, He2. reflexivity.
  - unfold decode_def. rewrite Hd1. cbn [obind fst snd].
    apply (dec_suffix d [] [] m (S (List.length e2)) e2); auto.
Qed.
