(* C05: dispatch is exact (generic in the record of translated tables; instantiated in Codec/Final.v). *)
From NV Require Import Lib.Base Lib.ListExt Codec.Lang Codec.Def Codec.Sem Codec.Total Codec.LoopLemmas Codec.Dispatch
  Spec.MsgTypes.
From Coq Require Import String ZifyN ZifyNat ZifyBool.
Open Scope N_scope.

(* ---- the translated tables are the pinned TS 24.501 tables ---- *)

Fixpoint assocN {A} (k : N) (l : list (N * A)) : option A :=
  match l with [] => None | (k', v) :: t => if k' =? k then Some v else assocN k t end.

Definition opt_string_eqb (a b : option string) : bool :=
  match a, b with
  | None, None => true
  | Some x, Some y => String.eqb x y
  | _, _ => false
  end.

Definition octets : list N := map N.of_nat (seq 0 256).

Definition tables_pinned (T : tables) : bool :=
  forallb (fun ty => opt_string_eqb (dec_lookup (t_gmm_dec T) ty) (assocN ty gmm_types) &&
                     opt_string_eqb (dec_lookup (t_gsm_dec T) ty) (assocN ty gsm_types) &&
                     opt_string_eqb (enc_lookup (t_gmm_enc T) ty)
                                    (option_map (fun n => "Encode" ++ n)%string (assocN ty gmm_types)) &&
                     opt_string_eqb (enc_lookup (t_gsm_enc T) ty)
                                    (option_map (fun n => "Encode" ++ n)%string (assocN ty gsm_types)))
          octets.

Lemma in_octets b : b < 256 -> In b octets.
Proof.
  intro H. unfold octets. apply in_map_iff. exists (N.to_nat b). split; [lia|]. apply in_seq. lia.
Qed.

Lemma opt_string_eqb_eq a b : opt_string_eqb a b = true -> a = b.
Proof.
  destruct a, b; cbn; intro H; try discriminate; auto. apply String.eqb_eq in H. congruence.
Qed.

(* every dispatchable message starts with the header octets as one-octet mandatory slots *)
Definition headers_checked (T : tables) : bool :=
  forallb (fun ty =>
    match dec_lookup (t_gmm_dec T) ty with
    | Some name => match find_def T name with Some d => header_slots_ok 3 d | None => false end
    | None => true end &&
    match dec_lookup (t_gsm_dec T) ty with
    | Some name => match find_def T name with Some d => header_slots_ok 4 d | None => false end
    | None => true end) octets.

Definition pinned (gmm : bool) : list (N * string) := if gmm then gmm_types else gsm_types.
Definition hlen_of (gmm : bool) : nat := if gmm then 3%nat else 4%nat.

Lemma prefix_app p s : String.prefix p (p ++ s) = true.
Proof.
  induction p as [|c p IH]; cbn; [destruct s; reflexivity|].
  destruct (Ascii.ascii_dec c c); [exact IH|congruence].
Qed.

Lemma substring_app p s : String.substring (String.length p) (String.length (p ++ s) - String.length p) (p ++ s) = s.
Proof.
  induction p as [|c p IH]; cbn [String.append String.length].
  - rewrite Nat.sub_0_r. clear. induction s as [|c s IH]; cbn; [reflexivity|]. f_equal. exact IH.
  - cbn [String.substring Nat.sub]. exact IH.
Qed.

Lemma strip_prefix_app p s : strip_prefix p (p ++ s) = Some s.
Proof. unfold strip_prefix. rewrite prefix_app, substring_app. reflexivity. Qed.

Section WithChecks.
  Variable T : tables.
  Hypothesis Hdisp : dispatch_ok T = true.
  Hypothesis Hpin : tables_pinned T = true.
  Hypothesis Hhdr : headers_checked T = true.

  Lemma consts :
    t_gmm_hlen T = 3 /\ t_gsm_hlen T = 4 /\ t_gmm_tix T = 2 /\ t_gsm_tix T = 3 /\
    t_epd_gmm T = 126 /\ t_epd_gsm T = 46.
  Proof.
    unfold dispatch_ok in Hdisp. repeat (apply andb_true_iff in Hdisp as [Hdisp ?]).
    repeat match goal with H : (_ =? _) = true |- _ => apply N.eqb_eq in H end. tauto.
  Qed.

  Lemma dec_lookup_pinned (gmm : bool) ty : ty < 256 ->
    dec_lookup (if gmm then (t_gmm_dec T) else (t_gsm_dec T)) ty = assocN ty (pinned gmm).
  Proof.
    intro Hty. unfold tables_pinned in Hpin. rewrite forallb_forall in Hpin.
    specialize (Hpin ty (in_octets ty Hty)). repeat (apply andb_true_iff in Hpin as [Hpin ?]).
    destruct gmm; apply opt_string_eqb_eq; assumption.
  Qed.

  Lemma headers_ok (gmm : bool) ty name d : ty < 256 ->
    dec_lookup (if gmm then (t_gmm_dec T) else (t_gsm_dec T)) ty = Some name ->
    find_def T name = Some d -> header_slots_ok (hlen_of gmm) d = true.
  Proof.
    intros Hty Hl Hd. unfold headers_checked in Hhdr. rewrite forallb_forall in Hhdr.
    specialize (Hhdr ty (in_octets ty Hty)). apply andb_true_iff in Hhdr as [H1 H2].
    destruct gmm; cbn [hlen_of].
    - rewrite Hl, Hd in H1. exact H1.
    - rewrite Hl, Hd in H2. exact H2.
  Qed.

  (* decoding through a part decoder: which body, which header *)
  Theorem part_decode_exact (gmm : bool) bs pm : bytes_ok bs ->
    part_decode T gmm bs = Ok pm ->
    let h := hlen_of gmm in
    (h <= List.length bs)%nat /\ pm_gmm pm = gmm /\ pm_header pm = firstn h bs /\
    exists name m,
      pm_bodies pm = [(name, m)] /\                         (* exactly one body, ... *)
      assocN (nth (h - 1) bs 0) (pinned gmm) = Some name /\ (* ... the one the message type names *)
      firstn h m = map (fun b => Some (mkie 0 0 [b])) (firstn h bs). (* its own header octets = the header view *)
  Proof.
    intros Hb H. destruct consts as (A & B & C & D & _).
    unfold part_decode in H.
    assert (Eh : N.to_nat (if gmm then t_gmm_hlen T else t_gsm_hlen T) = hlen_of gmm)
      by (destruct gmm; [rewrite A|rewrite B]; reflexivity).
    assert (Et : N.to_nat (if gmm then t_gmm_tix T else t_gsm_tix T) = (hlen_of gmm - 1)%nat)
      by (destruct gmm; [rewrite C|rewrite D]; reflexivity).
    rewrite Eh, Et in H.
    destruct (take (hlen_of gmm) bs) as [[h r]|] eqn:Etk; [|discriminate].
    apply take_length in Etk as (Lh & Lr & Ebs).
    destruct (dec_lookup _ _) as [name|] eqn:El; [|discriminate].
    destruct (find_def T name) as [d|] eqn:Ed; [|discriminate].
    destruct (decode_def d bs) as [m| | |] eqn:Em; try discriminate. cbn [obind] in H.
    inversion H; subst pm; clear H. cbn [pm_gmm pm_header pm_bodies].
    assert (Hh : h = firstn (hlen_of gmm) bs).
    { rewrite Ebs. rewrite firstn_app. rewrite Lh, Nat.sub_diag. cbn [firstn].
      rewrite app_nil_r. rewrite <- Lh. symmetry. apply firstn_all. }
    assert (Hlen : (hlen_of gmm <= List.length bs)%nat) by (rewrite Ebs, app_length; lia).
    split; [exact Hlen|]. split; [reflexivity|]. split; [exact Hh|].
    exists name, m. split; [reflexivity|].
    assert (Hnth : nth (hlen_of gmm - 1) h 0 = nth (hlen_of gmm - 1) bs 0).
    { rewrite Ebs. rewrite app_nth1; [reflexivity|]. destruct gmm; cbn [hlen_of] in *; lia. }
    rewrite Hnth in El.
    assert (Hty : nth (hlen_of gmm - 1) bs 0 < 256).
    { unfold bytes_ok in Hb. rewrite Forall_forall in Hb. apply Hb. apply nth_In. destruct gmm; cbn [hlen_of] in *; lia. }
    split.
    - rewrite <- dec_lookup_pinned by assumption. exact El.
    - eapply decode_header; [eapply (headers_ok gmm _ name d Hty El Ed)|exact Em].
  Qed.

  (* PlainNasDecode: routes on the first octet *)
  Theorem plain_decode_exact obs pm :
    plain_decode T obs = Ok pm ->
    exists b t, obs = Some (b :: t) /\
      ((b = 126 /\ part_decode T true (b :: t) = Ok pm) \/ (b = 46 /\ part_decode T false (b :: t) = Ok pm)).
  Proof.
    destruct consts as (_ & _ & _ & _ & E & F).
    unfold plain_decode. destruct obs as [[|b t]|]; try discriminate.
    rewrite E, F. intro H. exists b, t. split; [reflexivity|].
    destruct (N.eqb_spec b 126); [left; auto|].
    destruct (N.eqb_spec b 46); [right; auto|discriminate].
  Qed.

  Theorem plain_decode_rejects :
    plain_decode T None = Err /\ plain_decode T (Some []) = Err /\
    (forall b t, b <> 126 -> b <> 46 -> plain_decode T (Some (b :: t)) = Err) /\
    (forall gmm bs, (List.length bs < hlen_of gmm)%nat -> part_decode T gmm bs = Err) /\
    (forall gmm bs, bytes_ok bs -> (hlen_of gmm <= List.length bs)%nat ->
        assocN (nth (hlen_of gmm - 1) bs 0) (pinned gmm) = None -> part_decode T gmm bs = Err).
  Proof.
    destruct consts as (A & B & C & D & E & F).
    split; [reflexivity|]. split; [reflexivity|]. split; [|split].
    - intros b t H1 H2. unfold plain_decode. rewrite E, F.
      destruct (N.eqb_spec b 126); [contradiction|]. destruct (N.eqb_spec b 46); [contradiction|reflexivity].
    - intros gmm bs Hl. unfold part_decode.
      assert (Eh : N.to_nat (if gmm then t_gmm_hlen T else t_gsm_hlen T) = hlen_of gmm)
        by (destruct gmm; [rewrite A|rewrite B]; reflexivity).
      rewrite Eh. unfold take. destruct (Nat.ltb_spec (List.length bs) (hlen_of gmm)); [reflexivity|lia].
    - intros gmm bs Hb Hl Hn. unfold part_decode.
      assert (Eh : N.to_nat (if gmm then t_gmm_hlen T else t_gsm_hlen T) = hlen_of gmm)
        by (destruct gmm; [rewrite A|rewrite B]; reflexivity).
      assert (Et : N.to_nat (if gmm then t_gmm_tix T else t_gsm_tix T) = (hlen_of gmm - 1)%nat)
        by (destruct gmm; [rewrite C|rewrite D]; reflexivity).
      rewrite Eh, Et. unfold take.
      destruct (Nat.ltb_spec (List.length bs) (hlen_of gmm)); [lia|].
      assert (Hnth : nth (hlen_of gmm - 1) (firstn (hlen_of gmm) bs) 0 = nth (hlen_of gmm - 1) bs 0).
      { rewrite <- (firstn_skipn (hlen_of gmm) bs) at 2. rewrite app_nth1; [reflexivity|].
        rewrite firstn_length. destruct gmm; cbn [hlen_of] in *; lia. }
      rewrite Hnth.
      assert (Hty : nth (hlen_of gmm - 1) bs 0 < 256).
      { unfold bytes_ok in Hb. rewrite Forall_forall in Hb. apply Hb. apply nth_In. destruct gmm; cbn [hlen_of] in *; lia. }
      rewrite dec_lookup_pinned by assumption. rewrite Hn. reflexivity.
  Qed.

  (* PlainNasEncode: symmetric dispatch *)
  Theorem plain_encode_exact :
    plain_encode T None = Err /\
    (forall pm, bytes_ok (pm_header pm) ->
       let ty := nth (hlen_of (pm_gmm pm) - 1) (pm_header pm) 0 in ty < 256 ->
       match assocN ty (pinned (pm_gmm pm)) with
       | None => plain_encode T (Some pm) = Err                   (* unknown type *)
       | Some name =>
           forall m d, find (fun p => String.eqb (fst p) name) (pm_bodies pm) = Some (name, m) ->
                       find_def T name = Some d ->
                       plain_encode T (Some pm) = encode_def d m  (* the callee of that type on that body *)
       end).
  Proof.
    destruct consts as (A & B & C & D & _).
    split; [reflexivity|]. intros pm Hb ty Hty.
    unfold plain_encode, part_encode.
    assert (Et : N.to_nat (if pm_gmm pm then t_gmm_tix T else t_gsm_tix T) = (hlen_of (pm_gmm pm) - 1)%nat)
      by (destruct (pm_gmm pm); [rewrite C|rewrite D]; reflexivity).
    rewrite Et. fold ty.
    assert (El : enc_lookup (if pm_gmm pm then (t_gmm_enc T) else (t_gsm_enc T)) ty =
                 option_map (fun n => "Encode" ++ n)%string (assocN ty (pinned (pm_gmm pm)))).
    { unfold tables_pinned in Hpin. rewrite forallb_forall in Hpin.
      specialize (Hpin ty (in_octets ty Hty)). repeat (apply andb_true_iff in Hpin as [Hpin ?]).
      destruct (pm_gmm pm); apply opt_string_eqb_eq; assumption. }
    rewrite El. destruct (assocN ty (pinned (pm_gmm pm))) as [name|]; cbn [option_map]; [|reflexivity].
    intros m d Hf Hd.
    assert (Hs : strip_prefix "Encode" ("Encode" ++ name) = Some name) by apply strip_prefix_app.
    rewrite Hs. rewrite Hf, Hd. reflexivity.
  Qed.

End WithChecks.
