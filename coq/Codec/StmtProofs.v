(* The generator template, run statement by statement under Codec/Stmt.v, IS the definition-level
   semantics of Codec/Sem.v:
     exec_canon_dec / exec_canon_enc        for every definition with distinct field names,
     exec_dec_is_decode_def / exec_enc_is_encode_def   for every transliterated message that passes
                                                       the kernel-evaluated check stmt_ready
   so decode_def / encode_def (about which the properties are proved) are derived from the meaning
   of the individual statements, and the correspondence runs execute the translated programs. *)
From NV Require Import Lib.Base Codec.Lang Codec.Def Codec.Sem Codec.Total Codec.Stmt.
From Coq Require Import String Lia.
Open Scope N_scope.

(* ---------- lists ---------- *)
Lemma set_nth_length {A} (l : list A) i x : List.length (set_nth l i x) = List.length l.
Proof. revert i; induction l as [|a t IH]; intros [|i]; cbn; auto. Qed.

Lemma nth_error_set_nth_eq {A} (l : list A) i x : (i < List.length l)%nat -> nth_error (set_nth l i x) i = Some x.
Proof. revert i; induction l as [|a t IH]; intros [|i] H; cbn in *; try lia; auto. apply IH. lia. Qed.

Lemma set_nth_twice {A} (l : list A) i x y : set_nth (set_nth l i x) i y = set_nth l i y.
Proof. revert i; induction l as [|a t IH]; intros [|i]; cbn; auto. rewrite IH. reflexivity. Qed.

Lemma set_nth_same {A} (l : list A) i x : nth_error l i = Some x -> set_nth l i x = l.
Proof. revert i; induction l as [|a t IH]; intros [|i] H; cbn in *; try discriminate; auto.
  - inversion H; reflexivity.
  - rewrite IH; auto. Qed.

Lemma set_nth_app {A} (pre post : list A) a x : set_nth (pre ++ a :: post) (List.length pre) x = pre ++ x :: post.
Proof. induction pre as [|p t IH]; cbn; auto. rewrite IH. reflexivity. Qed.

Lemma nth_error_app_len {A} (pre post : list A) a : nth_error (pre ++ a :: post) (List.length pre) = Some a.
Proof. induction pre; cbn; auto. Qed.

Lemma seqb_refl s : seqb s s = true.
Proof. apply String.eqb_refl. Qed.

Lemma index_of_app s pre post : ~ In s pre -> index_of s (pre ++ s :: post) = Some (List.length pre).
Proof.
  induction pre as [|p t IH]; intro H; cbn.
  - rewrite seqb_refl. reflexivity.
  - destruct (seqb p s) eqn:E.
    + apply String.eqb_eq in E. subst. exfalso. apply H. left. reflexivity.
    + rewrite IH; [reflexivity|]. intro Hi. apply H. right. exact Hi.
Qed.

(* ---------- one element: the statements that touch field x act on (value, buffer) only ---------- *)
Definition lift {A B} (o : outcome A) (f : A -> B) : outcome B := omap f o.

Definition step_local (sh : tshape) (iei : N) (s : dstmt) (p : ieval * bytes) : outcome (ieval * bytes) :=
  let '(v, buf) := p in
  let rd (n : nat) (k : bytes -> bytes) :=
    match take n buf with None => Err | Some (x, r) => Ok (with_oct v (k x), r) end in
  match s with
  | DRead (TLen _) =>
      match take (sh_lenw sh) buf with
      | None => Err
      | Some (lb, r) => Ok (mkie (v_iei v) (be_val lb) (v_oct v), r)
      end
  | DCheckOr _ c => if check_fails (LOr c) (v_len v) then Err else Ok p
  | DCheckAnd _ c => if check_fails (LAnd c) (v_len v) then Err else Ok p
  | DSetLen _ => Ok (if sh_isbuf sh then with_oct v (repeat 0 (N.to_nat (v_len v))) else v, buf)
  | DRead (TOctet _) => rd 1%nat (fun b => b)
  | DRead (TArrAll _) => rd (sh_cap sh) (fun b => b)
  | DRead (TArrN _ n) => if Nat.ltb (sh_cap sh) (N.to_nat n) then Panic
                         else rd (N.to_nat n) (fun b => b ++ skipn (N.to_nat n) (v_oct v))
  | DRead (TArrLen _) => if Nat.ltb (sh_cap sh) (N.to_nat (v_len v)) then Panic
                         else rd (N.to_nat (v_len v)) (fun b => b ++ skipn (N.to_nat (v_len v)) (v_oct v))
  | DRead (TBuf _) => rd (List.length (v_oct v)) (fun b => b)
  | DRead (TStruct _) => Ok p
  | DOctetFromIei _ => Ok (with_oct v [iei], buf)
  | DCheckBufLen _ => if N.of_nat (List.length (v_oct v)) =? v_len v then Ok p else Err
  | _ => Panic
  end.

(* statements of the element x (DUnknown panics wherever it stands) *)
Definition local_to (x : string) (s : dstmt) : bool :=
  match s with
  | DRead (TLen y) | DRead (TOctet y) | DRead (TArrAll y) | DRead (TArrN y _) | DRead (TArrLen y)
  | DRead (TBuf y) | DRead (TStruct y) | DCheckOr y _ | DCheckAnd y _ | DSetLen y | DOctetFromIei y
  | DCheckBufLen y => seqb y x
  | DUnknown => true
  | _ => false
  end.

Fixpoint fold_local (sh : tshape) (iei : N) (l : list dstmt) (p : ieval * bytes) : outcome (ieval * bytes) :=
  match l with
  | [] => Ok p
  | s :: t => p' <- step_local sh iei s p ;; fold_local sh iei t p'
  end.

Section Local.
  Variable names : list string.
  Variable shape_of : string -> tshape.

  Definition stf (f : msgval) (i : nat) (v : ieval) (iei : N) (buf : bytes) : dstate :=
    mkst (set_nth f i (Some v)) iei buf.

  Definition lift_local (f : msgval) (i : nat) (iei : N) (o : outcome (ieval * bytes)) : outcome dstate :=
    match o with
    | Ok (v', b') => Ok (stf f i v' iei b')
    | Err => Err | Panic => Panic | OutOfFuel => OutOfFuel
    end.

  Lemma exec_simple_local x i f v iei buf s :
    local_to x s = true -> index_of x names = Some i -> (i < List.length f)%nat ->
    exec_simple names shape_of s (stf f i v iei buf) = lift_local f i iei (step_local (shape_of x) iei s (v, buf)).
  Proof.
    intros Hl Hi Hlt.
    assert (Hn : nth_error (set_nth f i (Some v)) i = Some (Some v)) by (apply nth_error_set_nth_eq; exact Hlt).
    destruct s as [t|y c|y c|y|y c0|y|y|cs| |]; cbn [local_to] in Hl; try discriminate Hl.
    - destruct t as [|y|y|y|y n|y|y|y]; try discriminate Hl; apply String.eqb_eq in Hl; subst y;
        cbn [exec_simple step_local]; unfold with_field, stf; cbn [s_fields s_buf s_iei]; rewrite Hi, Hn;
        unfold read_into; cbn [s_fields s_buf s_iei];
        repeat match goal with |- context [if ?c then _ else _] => destruct c; [reflexivity|] end;
        try (match goal with |- context [take ?n buf] => destruct (take n buf) as [[xx rr]|] end);
        cbn [lift_local]; unfold stf; rewrite ?set_nth_twice; reflexivity.
    - apply String.eqb_eq in Hl; subst y. cbn [exec_simple step_local]. unfold with_field, stf; cbn [s_fields]. rewrite Hi, Hn.
      destruct (check_fails _ _); reflexivity.
    - apply String.eqb_eq in Hl; subst y. cbn [exec_simple step_local]. unfold with_field, stf; cbn [s_fields]. rewrite Hi, Hn.
      destruct (check_fails _ _); reflexivity.
    - apply String.eqb_eq in Hl; subst y. cbn [exec_simple step_local]. unfold with_field, stf, setf; cbn [s_fields s_iei s_buf]. rewrite Hi, Hn.
      cbn [lift_local]. unfold stf. rewrite set_nth_twice. reflexivity.
    - apply String.eqb_eq in Hl; subst y. cbn [exec_simple step_local]. unfold with_field, stf, setf; cbn [s_fields s_iei s_buf]. rewrite Hi, Hn.
      cbn [lift_local]. unfold stf. rewrite set_nth_twice. reflexivity.
    - apply String.eqb_eq in Hl; subst y. cbn [exec_simple step_local]. unfold with_field, stf; cbn [s_fields]. rewrite Hi, Hn.
      destruct (_ =? _); reflexivity.
    - reflexivity.
  Qed.

  Lemma exec_body_local x i f iei l : forall v buf,
    forallb (local_to x) l = true -> index_of x names = Some i -> (i < List.length f)%nat ->
    exec_body names shape_of l (stf f i v iei buf) = lift_local f i iei (fold_local (shape_of x) iei l (v, buf)).
  Proof.
    induction l as [|s t IH]; intros v buf Hl Hi Hlt; cbn [exec_body fold_local forallb] in *; [reflexivity|].
    apply andb_true_iff in Hl as [Hs Ht].
    rewrite (exec_simple_local x i f v iei buf s Hs Hi Hlt).
    destruct (step_local (shape_of x) iei s (v, buf)) as [[v' b']| | |]; cbn [lift_local obind]; try reflexivity.
    apply IH; assumption.
  Qed.
End Local.


(* the dead `len(Buffer) != Len` check only follows SetLen + Read on a Buffer-backed element *)
Definition stmt_okb (sd : slotdef) : bool :=
  if sd_buflen_check sd
  then sd_haslen sd && sh_isbuf (sd_shape sd) && match sd_val sd with VBuf => true | _ => false end
  else true.

Lemma canon_dec_value_local sd : forallb (local_to (sd_name sd)) (canon_dec_value sd) = true.
Proof.
  unfold canon_dec_value.
  rewrite !forallb_app.
  destruct (sd_haslen sd), (sd_check sd), (sd_val sd), (sd_buflen_check sd); cbn; rewrite ?seqb_refl; reflexivity.
Qed.

Lemma fold_local_app sh iei a b p :
  fold_local sh iei (a ++ b) p = (p' <- fold_local sh iei a p ;; fold_local sh iei b p').
Proof.
  revert p; induction a as [|s t IH]; intro p; cbn [fold_local app obind]; [reflexivity|].
  destruct (step_local sh iei s p); cbn [obind]; auto.
Qed.

(* the element's statements, run one by one, are dec_slot *)
Lemma fold_local_slot sd iei v buf : stmt_okb sd = true ->
  fold_local (sd_shape sd) iei (canon_dec_value sd) (v, buf) = dec_slot sd iei v buf.
Proof.
  intro Hok. unfold canon_dec_value, dec_slot. rewrite !fold_local_app.
  (* length part *)
  assert (Hlen : fold_local (sd_shape sd) iei
            (if sd_haslen sd
             then [DRead (TLen (sd_name sd))] ++
                  match sd_check sd with LNone => [] | LOr c => [DCheckOr (sd_name sd) c] | LAnd c => [DCheckAnd (sd_name sd) c] end ++
                  [DSetLen (sd_name sd)]
             else []) (v, buf) = dec_len sd v buf).
  { unfold dec_len. destruct (sd_haslen sd); [|reflexivity].
    cbn [app fold_local step_local obind].
    destruct (take (sh_lenw (sd_shape sd)) buf) as [[lb r]|]; cbn [obind]; [|reflexivity].
    destruct (sd_check sd) as [|c|c]; cbn [app fold_local step_local obind v_len v_iei v_oct].
    - cbn [check_fails]. unfold with_oct. cbn [v_iei v_len v_oct]. destruct (sh_isbuf _); reflexivity.
    - destruct (check_fails (LOr c) (be_val lb)); cbn [obind fold_local step_local]; [reflexivity|].
      unfold with_oct. cbn [v_iei v_len v_oct]. destruct (sh_isbuf _); reflexivity.
    - destruct (check_fails (LAnd c) (be_val lb)); cbn [obind fold_local step_local]; [reflexivity|].
      unfold with_oct. cbn [v_iei v_len v_oct]. destruct (sh_isbuf _); reflexivity. }
  rewrite Hlen. clear Hlen.
  destruct (dec_len sd v buf) as [[v1 r1]| | |] eqn:El; cbn [obind fst snd]; try reflexivity.
  unfold dec_val.
  destruct (sd_val sd) eqn:Ev; cbn [fold_local step_local obind app].
  all: try (destruct (Nat.ltb _ _); cbn [obind]; [reflexivity|]).
  all: try (match goal with |- context [take ?n ?bb] => destruct (take n bb) as [[x r]|] eqn:Et; cbn [obind]; [|reflexivity] end).
  all: unfold stmt_okb in Hok; destruct (sd_buflen_check sd); cbn [fold_local step_local obind]; try reflexivity.
  all: try (rewrite Ev in Hok; rewrite ?andb_false_r in Hok; discriminate Hok).
  (* VBuf with the dead check *)
  apply andb_true_iff in Hok as [Hok _]. apply andb_true_iff in Hok as [Hl Hb].
  unfold dec_len in El. rewrite Hl, Hb in El.
  destruct (take (sh_lenw (sd_shape sd)) buf) as [[lb rr]|]; [|discriminate].
  destruct (check_fails _ _); [discriminate|]. inversion El; subst v1 r1. clear El.
  cbn [v_oct v_len with_oct] in *. rewrite repeat_length in Et.
  apply take_length in Et as (Lx & _). rewrite Lx, N2Nat.id, N.eqb_refl. reflexivity.
Qed.


Definition is_simple (s : dstmt) : bool := match s with DLoop _ | DRetNil => false | _ => true end.

Lemma local_simple x s : local_to x s = true -> is_simple s = true.
Proof. destruct s; cbn; auto; discriminate. Qed.

Lemma new_val_sh_eq sd b : new_val_sh (sd_shape sd) b = new_val sd b.
Proof. reflexivity. Qed.
Lemma zero_val_sh_eq sd : zero_val_sh (sd_shape sd) = zero_val sd.
Proof. reflexivity. Qed.

Definition initf (d : msgdef) : msgval := map (fun sd => if sd_mand sd then Some (zero_val sd) else None) d.

Definition loop_cases (d : msgdef) : list (N * list dstmt) :=
  map (fun sd => (sd_iei sd, DNew (sd_name sd) ("New" ++ sd_name sd) :: canon_dec_value sd))
      (filter (fun sd => negb (sd_mand sd)) d).

Lemma dec_mand_length post : forall buf m r, dec_mand post buf = Ok (m, r) -> List.length m = List.length post.
Proof.
  induction post as [|sd t IH]; intros buf m r H; cbn [dec_mand] in H.
  - inversion H; reflexivity.
  - destruct (sd_mand sd).
    + destruct (dec_slot sd 0 (zero_val sd) buf) as [[v1 r1]| | |]; try discriminate. cbn [obind fst snd] in H.
      destruct (dec_mand t r1) as [[m2 r2]| | |] eqn:E; try discriminate. cbn [obind fst snd] in H.
      inversion H; subst. cbn. f_equal. eapply IH; eassumption.
    + destruct (dec_mand t buf) as [[m2 r2]| | |] eqn:E; try discriminate. cbn [obind fst snd] in H.
      inversion H; subst. cbn. f_equal. eapply IH; eassumption.
Qed.

Section Template.
  Variable d : msgdef.
  Variable shape_of : string -> tshape.
  Let names := map sd_name d.
  Hypothesis Hnd : NoDup names.
  Hypothesis Hshape : forall sd, In sd d -> shape_of (sd_name sd) = sd_shape sd.
  Hypothesis Hok : forallb stmt_okb d = true.

  Lemma index_at pre sd post : d = pre ++ sd :: post -> index_of (sd_name sd) names = Some (List.length pre).
  Proof.
    intro E. unfold names. rewrite E, map_app. cbn [map]. rewrite <- (map_length sd_name pre).
    apply index_of_app. subst names. rewrite E, map_app in Hnd. cbn [map] in Hnd.
    apply NoDup_remove_2 in Hnd. intro Hi. apply Hnd. apply in_or_app. left. exact Hi.
  Qed.

  Lemma slot_exec pre sd post f v iei buf : d = pre ++ sd :: post -> List.length f = List.length d ->
    exec_body names shape_of (canon_dec_value sd) (stf f (List.length pre) v iei buf) =
    lift_local f (List.length pre) iei (dec_slot sd iei v buf).
  Proof.
    intros E Hlen.
    assert (Hin : In sd d) by (rewrite E; apply in_or_app; right; left; reflexivity).
    rewrite (exec_body_local names shape_of (sd_name sd) (List.length pre) f iei (canon_dec_value sd) v buf
               (canon_dec_value_local sd) (index_at pre sd post E)).
    - rewrite (Hshape sd Hin). rewrite fold_local_slot; [reflexivity|].
      rewrite forallb_forall in Hok. apply Hok. exact Hin.
    - rewrite Hlen, E, app_length. cbn. lia.
  Qed.

  Lemma exec_top_simple l K : forallb is_simple l = true -> forall st,
    exec_top names shape_of (l ++ K) st = (st' <- exec_body names shape_of l st ;; exec_top names shape_of K st').
  Proof.
    induction l as [|s t IH]; intros Hs st; cbn [app exec_body obind]; [reflexivity|].
    cbn [forallb] in Hs. apply andb_true_iff in Hs as [H1 H2].
    destruct s; try discriminate H1; cbn [exec_top]; (destruct (exec_simple names shape_of _ st); cbn [obind]; auto).
  Qed.

  Lemma canon_value_simple sd : forallb is_simple (canon_dec_value sd) = true.
  Proof.
    pose proof (canon_dec_value_local sd) as H. rewrite forallb_forall in *. intros s Hs. eapply local_simple. apply H. exact Hs.
  Qed.

  (* ---- mandatory part ---- *)
  Lemma exec_mand K : forall post pre mpre buf, d = pre ++ post -> List.length mpre = List.length pre ->
    exec_top names shape_of (flat_map canon_dec_value (filter sd_mand post) ++ K) (mkst (mpre ++ initf post) 0 buf) =
    match dec_mand post buf with
    | Ok (m, r) => exec_top names shape_of K (mkst (mpre ++ m) 0 r)
    | Err => Err | Panic => Panic | OutOfFuel => OutOfFuel
    end.
  Proof.
    induction post as [|sd t IH]; intros pre mpre buf E Hl; cbn [filter flat_map app initf map dec_mand].
    - reflexivity.
    - destruct (sd_mand sd) eqn:Em.
      + cbn [flat_map]. rewrite <- app_assoc. rewrite exec_top_simple by apply canon_value_simple.
        set (f := mpre ++ Some (zero_val sd) :: initf t).
        assert (Hf : mkst f 0 buf = stf f (List.length pre) (zero_val sd) 0 buf).
        { unfold stf. f_equal. symmetry. apply set_nth_same. rewrite <- Hl. unfold f. apply nth_error_app_len. }
        fold (initf t). fold f. rewrite Hf.
        rewrite (slot_exec pre sd t f (zero_val sd) 0 buf E).
        2:{ unfold f. rewrite E, !app_length. cbn [List.length]. unfold initf. rewrite map_length. lia. }
        destruct (dec_slot sd 0 (zero_val sd) buf) as [[v1 r1]| | |]; cbn [lift_local obind fst snd]; try reflexivity.
        unfold stf, f. rewrite <- Hl, set_nth_app.
        specialize (IH (pre ++ [sd]) (mpre ++ [Some v1]) r1).
        rewrite <- !app_assoc in IH. cbn [app] in IH. rewrite IH.
        * destruct (dec_mand t r1) as [[m2 r2]| | |]; cbn [obind fst snd]; rewrite <- ?app_assoc; reflexivity.
        * exact E.
        * rewrite !app_length. cbn. lia.
      + fold (initf t).
        specialize (IH (pre ++ [sd]) (mpre ++ [None]) buf).
        rewrite <- !app_assoc in IH. cbn [app] in IH. rewrite IH.
        * destruct (dec_mand t buf) as [[m2 r2]| | |]; cbn [obind fst snd]; rewrite <- ?app_assoc; reflexivity.
        * exact E.
        * rewrite !app_length. cbn. lia.
  Qed.

  (* ---- optional part ---- *)
  Lemma find_opt_split t : forall l k i sd, find_opt l t k = Some (i, sd) ->
    exists pre post, l = pre ++ sd :: post /\ i = (k + List.length pre)%nat /\ sd_mand sd = false /\ sd_iei sd = t.
  Proof.
    induction l as [|x r IH]; intros k i sd H; cbn [find_opt] in H; [discriminate|].
    destruct (negb (sd_mand x) && (sd_iei x =? t))%bool eqn:E.
    - inversion H; subst. apply andb_true_iff in E as [E1 E2]. exists [], r. cbn.
      split; [reflexivity|]. split; [lia|]. split; [destruct (sd_mand sd); [discriminate|reflexivity] | apply N.eqb_eq; exact E2].
    - apply IH in H as (pre & post & A & B & C & D). exists (x :: pre), post. subst. cbn. repeat split; auto; lia.
  Qed.

  Lemma find_cases t : forall l k,
    find (fun c : N * list dstmt => fst c =? t) (loop_cases l) =
    match find_opt l t k with
    | Some (_, sd) => Some (sd_iei sd, DNew (sd_name sd) ("New" ++ sd_name sd) :: canon_dec_value sd)
    | None => None
    end.
  Proof.
    induction l as [|x r IH]; intro k; cbn [loop_cases filter map find find_opt]; [reflexivity|].
    destruct (sd_mand x) eqn:Em; cbn [negb andb].
    - apply IH.
    - cbn [map find fst]. destruct (sd_iei x =? t); [reflexivity|]. apply IH.
  Qed.

  Lemma exec_loop_dec : forall fuel f iei buf, List.length f = List.length d ->
    omap s_fields (exec_loop names shape_of fuel (loop_cases d) (mkst f iei buf)) = dec_loop fuel d f buf.
  Proof.
    induction fuel as [|n IH]; intros f iei buf Hl; destruct buf as [|b rest]; cbn [exec_loop dec_loop s_buf s_fields s_iei omap obind];
      try reflexivity.
    rewrite (find_cases (classify b) d 0%nat).
    destruct (find_opt d (classify b) 0) as [[i sd]|] eqn:Ef.
    - apply find_opt_split in Ef as (pre & post & E & Hi & Hm & _). cbn [Nat.add] in Hi. subst i.
      cbn [exec_body exec_simple]. rewrite (index_at pre sd post E).
      assert (Hlt : (List.length pre < List.length f)%nat) by (rewrite Hl, E, app_length; cbn; lia).
      cbn [s_fields]. apply Nat.ltb_lt in Hlt. rewrite Hlt. apply Nat.ltb_lt in Hlt. cbn [obind].
      unfold setf. cbn [s_fields s_iei s_buf].
      assert (Hin : In sd d) by (rewrite E; apply in_or_app; right; left; reflexivity).
      rewrite (Hshape sd Hin), new_val_sh_eq.
      change (mkst (set_nth f (List.length pre) (Some (new_val sd b))) b rest) with (stf f (List.length pre) (new_val sd b) b rest).
      rewrite (slot_exec pre sd post f (new_val sd b) b rest E Hl).
      destruct (dec_slot sd b (new_val sd b) rest) as [[v1 r1]| | |]; cbn [lift_local obind fst snd omap]; try reflexivity.
      unfold stf. apply IH. rewrite set_nth_length. exact Hl.
    - apply IH. exact Hl.
  Qed.

  (* ---- the whole template ---- *)
  Theorem exec_canon_dec bs :
    omap s_fields (exec_top names shape_of (canon_dec d) (mkst (initf d) 0 bs)) = decode_def d bs.
  Proof.
    unfold canon_dec, decode_def. fold (loop_cases d).
    pose proof (exec_mand [DLoop (loop_cases d); DRetNil] d [] [] bs eq_refl eq_refl) as H. cbn [app] in H. rewrite H. clear H.
    destruct (dec_mand d bs) as [[m r]| | |] eqn:Em; cbn [obind omap fst snd]; try reflexivity.
    cbn [exec_top s_buf].
    pose proof (exec_loop_dec (S (List.length r)) m 0 r (dec_mand_length _ _ _ _ Em)) as H.
    destruct (exec_loop names shape_of (S (List.length r)) (loop_cases d) (mkst m 0 r)) as [st| | |]; cbn [obind omap exec_top] in *; exact H.
  Qed.
End Template.


(* ---------- the boolean program equality decides Leibniz equality ---------- *)
Lemma eqb_list_eq {A} (eqb : A -> A -> bool) (a : list A) :
  (forall x, In x a -> forall y, eqb x y = true -> x = y) -> forall b, eqb_list eqb a b = true -> a = b.
Proof.
  induction a as [|x t IH]; intros Hx [|y u] H; cbn in H; try discriminate; [reflexivity|].
  apply andb_true_iff in H as [H1 H2]. f_equal.
  - apply Hx; [left; reflexivity|exact H1].
  - apply IH; [|exact H2]. intros z Hz. apply Hx. right. exact Hz.
Qed.

Lemma seqb_eq a b : seqb a b = true -> a = b.
Proof. apply String.eqb_eq. Qed.

Lemma target_eqb_eq a b : target_eqb a b = true -> a = b.
Proof.
  destruct a, b; cbn; intro H; try discriminate; try reflexivity;
    try (apply seqb_eq in H; subst; reflexivity).
  apply andb_true_iff in H as [H1 H2]. apply seqb_eq in H1. apply N.eqb_eq in H2. subst. reflexivity.
Qed.

Lemma conds_eqb_eq a b : conds_eqb a b = true -> a = b.
Proof.
  unfold conds_eqb. apply eqb_list_eq. intros [c n] _ [c' n'] H. cbn in H.
  apply andb_true_iff in H as [H1 H2]. apply N.eqb_eq in H2. subst.
  destruct c, c'; cbn in H1; try discriminate; reflexivity.
Qed.

Fixpoint dstmt_eqb_eq (a : dstmt) : forall b, dstmt_eqb a b = true -> a = b.
Proof.
  destruct a as [t|x c|x c|x|x ct|x|x|cs| |]; intros b H; destruct b as [t'|y c'|y c'|y|y ct'|y|y|cs'| |]; cbn [dstmt_eqb] in H;
    try discriminate H.
  - apply target_eqb_eq in H. subst. reflexivity.
  - apply andb_true_iff in H as [H1 H2]. apply seqb_eq in H1. apply conds_eqb_eq in H2. subst. reflexivity.
  - apply andb_true_iff in H as [H1 H2]. apply seqb_eq in H1. apply conds_eqb_eq in H2. subst. reflexivity.
  - apply seqb_eq in H. subst. reflexivity.
  - apply andb_true_iff in H as [H1 H2]. apply seqb_eq in H1. apply seqb_eq in H2. subst. reflexivity.
  - apply seqb_eq in H. subst. reflexivity.
  - apply seqb_eq in H. subst. reflexivity.
  - f_equal. revert cs' H.
    induction cs as [|[n body] r IHr]; intros [|[n' body'] r'] H; try discriminate H; [reflexivity|].
    apply andb_true_iff in H as [H12 H3]. apply andb_true_iff in H12 as [H1 H2].
    apply N.eqb_eq in H1. subst n'. f_equal.
    + f_equal. clear H3 IHr. revert body' H2.
      induction body as [|s q IHq]; intros [|s' q'] H2; try discriminate H2; [reflexivity|].
      apply andb_true_iff in H2 as [Ha Hb]. f_equal.
      * apply dstmt_eqb_eq. exact Ha.
      * apply IHq. exact Hb.
    + apply IHr. exact H3.
  - reflexivity.
Qed.

(* ---------- from a transliterated function to the definition-level semantics ---------- *)
Fixpoint nodupb (l : list string) : bool :=
  match l with
  | [] => true
  | x :: t => negb (existsb (seqb x) t) && nodupb t
  end.

Lemma nodupb_NoDup l : nodupb l = true -> NoDup l.
Proof.
  induction l as [|x t IH]; intro H; [constructor|]. cbn in H. apply andb_true_iff in H as [H1 H2].
  constructor; [|apply IH; exact H2].
  intro Hin. apply negb_true_iff in H1. assert (existsb (seqb x) t = true); [|congruence].
  apply existsb_exists. exists x. split; [exact Hin|apply seqb_refl].
Qed.

Definition stmt_ready (types : list (string * tshape * ctor_kind)) (g : gmsg) : bool :=
  canon_ok types g && nodupb (map fst (g_fields g)) && forallb stmt_okb (def_of types g).

Lemma def_of_names types g : map sd_name (def_of types g) = map fst (g_fields g).
Proof.
  unfold def_of. rewrite map_map. apply map_ext. intros [s m]. cbn. destruct (lookup_type types s). reflexivity.
Qed.

Lemma def_of_shape types g sd : In sd (def_of types g) -> shape_in types (sd_name sd) = sd_shape sd.
Proof.
  unfold def_of. rewrite in_map_iff. intros ([s m] & E & _). subst sd. cbn [fst snd]. unfold shape_in.
  destruct (lookup_type types s) as [sh ct] eqn:El. cbn [sd_name sd_shape]. rewrite El. reflexivity.
Qed.

Lemma def_of_init types g : initf (def_of types g) = init_fields types (g_fields g).
Proof.
  unfold initf, init_fields, def_of. rewrite map_map. apply map_ext. intros [s m]. cbn. unfold shape_in.
  destruct (lookup_type types s) as [sh ct]. cbn. destruct m; reflexivity.
Qed.

(* every transliterated decoder that passes the (kernel-evaluated) checks computes decode_def of
   its definition, for every input *)
Theorem exec_dec_is_decode_def types g bs : stmt_ready types g = true ->
  exec_dec types g bs = decode_def (def_of types g) bs.
Proof.
  unfold stmt_ready. intro H. apply andb_true_iff in H as [H Hs]. apply andb_true_iff in H as [Hc Hn].
  unfold canon_ok in Hc. apply andb_true_iff in Hc as [Hc He]. apply andb_true_iff in Hc as [Hc Hd].
  unfold exec_dec. rewrite Hc.
  assert (Eq : g_dec g = canon_dec (def_of types g)).
  { apply (eqb_list_eq dstmt_eqb); [|exact Hd]. intros x _ y. apply dstmt_eqb_eq. }
  rewrite Eq, <- def_of_init.
  assert (Hnd : NoDup (map sd_name (def_of types g))) by (rewrite def_of_names; apply nodupb_NoDup; exact Hn).
  pose proof (exec_canon_dec (def_of types g) (shape_in types) Hnd (def_of_shape types g) Hs bs) as T.
  rewrite (def_of_names types g) in T. unfold omap in T. exact T.
Qed.


(* ---------- encoder: the template, statement by statement, is encode_def ---------- *)
Section EncTemplate.
  Variable d : msgdef.
  Variable shape_of : string -> tshape.
  Variable m : msgval.
  Let names := map sd_name d.
  Hypothesis Hnd : NoDup names.
  Hypothesis Hshape : forall sd, In sd d -> shape_of (sd_name sd) = sd_shape sd.

  Fixpoint writes_bytes (l : list estmt) : outcome bytes :=
    match l with
    | [] => Ok []
    | EWrite src :: t => b <- src_bytes names shape_of m src ;; r <- writes_bytes t ;; Ok (b ++ r)
    | _ :: _ => Panic
    end.

  Lemma exec_writes_bytes l : forall out,
    exec_writes names shape_of m l out = (b <- writes_bytes l ;; Ok (out ++ b)).
  Proof.
    induction l as [|s t IH]; intro out; cbn [exec_writes writes_bytes obind].
    - rewrite app_nil_r. reflexivity.
    - destruct s; try reflexivity.
      destruct (src_bytes names shape_of m src) as [b| | |]; cbn [obind]; try reflexivity.
      rewrite IH. destruct (writes_bytes t); cbn [obind]; try reflexivity. rewrite app_assoc. reflexivity.
  Qed.

  Definition all_writes (l : list estmt) : bool := forallb (fun s => match s with EWrite _ | EUnknown => true | _ => false end) l.

  Lemma exec_top_writes l K : all_writes l = true -> forall out,
    exec_enc_top names shape_of m (l ++ K) out = (b <- writes_bytes l ;; exec_enc_top names shape_of m K (out ++ b)).
  Proof.
    induction l as [|s t IH]; intros Hw out; cbn [app writes_bytes obind].
    - rewrite app_nil_r. reflexivity.
    - cbn [all_writes forallb] in Hw. apply andb_true_iff in Hw as [H1 H2].
      destruct s; try discriminate H1; cbn [exec_enc_top]; [|reflexivity].
      destruct (src_bytes names shape_of m src) as [b| | |]; cbn [obind]; try reflexivity.
      rewrite (IH H2). destruct (writes_bytes t); cbn [obind]; try reflexivity. rewrite app_assoc. reflexivity.
  Qed.

  Lemma canon_enc_value_writes sd : all_writes (canon_enc_value sd) = true.
  Proof. unfold canon_enc_value, all_writes. rewrite forallb_app. destruct (sd_haslen sd), (sd_val sd); reflexivity. Qed.

  Lemma field_at pre sd post mpre ov mpost : d = pre ++ sd :: post -> m = mpre ++ ov :: mpost ->
    List.length mpre = List.length pre ->
    field_of names m (sd_name sd) = ov.
  Proof.
    intros E Em Hl. unfold field_of, names. rewrite (index_at d Hnd pre sd post E). rewrite <- Hl, Em, nth_error_app_len.
    destruct ov; reflexivity.
  Qed.

  (* the writes of one element *)
  Lemma writes_value sd v : In sd d -> field_of names m (sd_name sd) = Some v ->
    writes_bytes (canon_enc_value sd) = enc_value sd v.
  Proof.
    intros Hin Hf. unfold canon_enc_value, enc_value.
    destruct (sd_haslen sd); destruct (sd_val sd); cbn [app writes_bytes src_bytes];
      rewrite ?Hf, ?(Hshape sd Hin); cbn [obind app];
      repeat match goal with |- context [if ?c then _ else _] => destruct c; cbn [obind] end;
      rewrite ?app_nil_r; reflexivity.
  Qed.

  Lemma writes_value_nil sd : field_of names m (sd_name sd) = None -> writes_bytes (canon_enc_value sd) = Panic.
  Proof.
    intro Hf. unfold canon_enc_value.
    destruct (sd_haslen sd); destruct (sd_val sd); cbn [app writes_bytes src_bytes]; rewrite ?Hf; reflexivity.
  Qed.

  Lemma enc_mand K : forall post pre mpre mpost out, d = pre ++ post -> m = mpre ++ mpost ->
    List.length mpre = List.length pre -> List.length mpost = List.length post ->
    exec_enc_top names shape_of m (flat_map canon_enc_value (filter sd_mand post) ++ K) out =
    (a <- enc_part true post mpost ;; exec_enc_top names shape_of m K (out ++ a)).
  Proof.
    induction post as [|sd t IH]; intros pre mpre mpost out E Em Hl Hl2; destruct mpost as [|ov mt]; try discriminate Hl2;
      cbn [filter flat_map enc_part app obind].
    - rewrite app_nil_r. reflexivity.
    - assert (Hin : In sd d) by (rewrite E; apply in_or_app; right; left; reflexivity).
      pose proof (field_at pre sd t mpre ov mt E Em Hl) as Hf.
      assert (IH' := IH (pre ++ [sd]) (mpre ++ [ov]) mt).
      rewrite <- !app_assoc in IH'. cbn [app] in IH'.
      assert (L1 : List.length (mpre ++ [ov]) = List.length (pre ++ [sd])) by (rewrite !app_length; cbn; lia).
      assert (L2 : List.length mt = List.length t) by (cbn in Hl2; lia).
      destruct (sd_mand sd) eqn:Emd; cbn [Bool.eqb].
      + cbn [flat_map]. rewrite <- app_assoc. rewrite (exec_top_writes _ _ (canon_enc_value_writes sd)).
        unfold enc_slot. rewrite Emd.
        destruct ov as [v|].
        * rewrite (writes_value sd v Hin Hf). cbn [negb andb app].
          destruct (enc_value sd v) as [b| | |]; cbn [obind]; try reflexivity.
          rewrite (IH' (out ++ b) E Em L1 L2).
          destruct (enc_part true t mt); cbn [obind]; try reflexivity. rewrite app_assoc. reflexivity.
        * rewrite (writes_value_nil sd Hf). reflexivity.
      + apply (IH' out E Em L1 L2).
  Qed.

  Lemma enc_opt K : forall post pre mpre mpost out, d = pre ++ post -> m = mpre ++ mpost ->
    List.length mpre = List.length pre -> List.length mpost = List.length post ->
    exec_enc_top names shape_of m
      (map (fun sd => EIfPresent (sd_name sd)
                        ((if 16 <=? sd_iei sd then [EWrite (SGetIei (sd_name sd))] else []) ++ canon_enc_value sd))
           (filter (fun sd => negb (sd_mand sd)) post) ++ K) out =
    (a <- enc_part false post mpost ;; exec_enc_top names shape_of m K (out ++ a)).
  Proof.
    induction post as [|sd t IH]; intros pre mpre mpost out E Em Hl Hl2; destruct mpost as [|ov mt]; try discriminate Hl2;
      cbn [filter map enc_part app obind].
    - rewrite app_nil_r. reflexivity.
    - assert (Hin : In sd d) by (rewrite E; apply in_or_app; right; left; reflexivity).
      pose proof (field_at pre sd t mpre ov mt E Em Hl) as Hf.
      assert (IH' := IH (pre ++ [sd]) (mpre ++ [ov]) mt).
      rewrite <- !app_assoc in IH'. cbn [app] in IH'.
      assert (L1 : List.length (mpre ++ [ov]) = List.length (pre ++ [sd])) by (rewrite !app_length; cbn; lia).
      assert (L2 : List.length mt = List.length t) by (cbn in Hl2; lia).
      destruct (sd_mand sd) eqn:Emd; cbn [negb Bool.eqb].
      + apply (IH' out E Em L1 L2).
      + cbn [map app exec_enc_top]. unfold names at 1. rewrite (index_at d Hnd pre sd t E).
        assert (Hn : nth_error m (List.length mpre) = Some ov) by (rewrite Em; apply nth_error_app_len).
        rewrite <- Hl, Hn. unfold enc_slot. rewrite Emd.
        destruct ov as [v|].
        * rewrite exec_writes_bytes. cbn [negb andb].
          assert (Hw : writes_bytes ((if 16 <=? sd_iei sd then [EWrite (SGetIei (sd_name sd))] else []) ++ canon_enc_value sd) =
                       (b <- enc_value sd v ;; Ok ((if 16 <=? sd_iei sd then [v_iei v] else []) ++ b))).
          { destruct (16 <=? sd_iei sd); cbn [app writes_bytes src_bytes].
            - rewrite Hf. cbn [obind]. rewrite (writes_value sd v Hin Hf).
              destruct (enc_value sd v); reflexivity.
            - rewrite (writes_value sd v Hin Hf). destruct (enc_value sd v); reflexivity. }
          rewrite Hw.
          destruct (enc_value sd v) as [b| | |]; cbn [obind]; try reflexivity.
          rewrite (IH' _ E Em L1 L2).
          destruct (enc_part false t mt); cbn [obind]; try reflexivity. rewrite !app_assoc. reflexivity.
        * cbn [obind app]. rewrite (IH' out E Em L1 L2). destruct (enc_part false t mt); reflexivity.
  Qed.

  Theorem exec_canon_enc : List.length m = List.length d ->
    exec_enc_top names shape_of m (canon_enc d) [] = encode_def d m.
  Proof.
    intro Hl. unfold canon_enc, encode_def.
    rewrite (enc_mand _ d [] [] m [] eq_refl eq_refl eq_refl Hl).
    destruct (enc_part true d m) as [a| | |]; cbn [obind app]; try reflexivity.
    rewrite (enc_opt _ d [] [] m a eq_refl eq_refl eq_refl Hl).
    destruct (enc_part false d m) as [b| | |]; cbn [obind exec_enc_top]; reflexivity.
  Qed.
End EncTemplate.


Lemma source_eqb_eq a b : source_eqb a b = true -> a = b.
Proof.
  destruct a, b; cbn; intro H; try discriminate; try (apply seqb_eq in H; subst; reflexivity).
  apply andb_true_iff in H as [H1 H2]. apply seqb_eq in H1. apply N.eqb_eq in H2. subst. reflexivity.
Qed.

Fixpoint estmt_eqb_eq (a : estmt) : forall b, estmt_eqb a b = true -> a = b.
Proof.
  destruct a as [s|x body| |]; intros b H; destruct b as [s'|y body'| |]; cbn [estmt_eqb] in H; try discriminate H.
  - apply source_eqb_eq in H. subst. reflexivity.
  - apply andb_true_iff in H as [H1 H2]. apply seqb_eq in H1. subst y. f_equal.
    revert body' H2. induction body as [|u q IHq]; intros [|u' q'] H2; try discriminate H2; [reflexivity|].
    apply andb_true_iff in H2 as [Ha Hb]. f_equal; [apply estmt_eqb_eq; exact Ha|apply IHq; exact Hb].
  - reflexivity.
Qed.

Lemma enc_value_ok_or_panic sd v : match enc_value sd v with Ok _ | Panic => True | _ => False end.
Proof. unfold enc_value. destruct (sd_val sd); try exact I; destruct (Nat.ltb _ _); exact I. Qed.

Lemma enc_part_mismatch b : forall d m, List.length m <> List.length d -> enc_part b d m = Panic.
Proof.
  induction d as [|sd t IH]; intros [|ov mt] H; cbn [enc_part]; try reflexivity; try (exfalso; apply H; reflexivity).
  assert (Ht : List.length mt <> List.length t) by (cbn in H; lia).
  rewrite (IH mt Ht). destruct (Bool.eqb (sd_mand sd) b); [|reflexivity].
  unfold enc_slot. destruct ov as [v|].
  - pose proof (enc_value_ok_or_panic sd v) as P. destruct (enc_value sd v); cbn [obind]; try reflexivity; destruct P.
  - destruct (sd_mand sd); reflexivity.
Qed.

Theorem exec_enc_is_encode_def types g m : stmt_ready types g = true ->
  exec_enc types g m = encode_def (def_of types g) m.
Proof.
  unfold stmt_ready. intro H. apply andb_true_iff in H as [H Hs]. apply andb_true_iff in H as [Hc Hn].
  unfold canon_ok in Hc. apply andb_true_iff in Hc as [Hc He]. apply andb_true_iff in Hc as [Hc Hd].
  assert (Eq : g_enc g = canon_enc (def_of types g)).
  { apply (eqb_list_eq estmt_eqb); [|exact He]. intros x _ y. apply estmt_eqb_eq. }
  unfold exec_enc. rewrite Eq.
  assert (Hlen : List.length (g_fields g) = List.length (def_of types g)) by (unfold def_of; rewrite map_length; reflexivity).
  destruct (Nat.eqb_spec (List.length m) (List.length (g_fields g))) as [El|Ne].
  - assert (Hnd : NoDup (map sd_name (def_of types g))) by (rewrite def_of_names; apply nodupb_NoDup; exact Hn).
    pose proof (exec_canon_enc (def_of types g) (shape_in types) m Hnd (def_of_shape types g)) as T.
    rewrite (def_of_names types g) in T. apply T. congruence.
  - unfold encode_def. rewrite enc_part_mismatch by congruence. reflexivity.
Qed.

(* ANY program of the encoder language only appends to the buffer it is given *)
Section AppendOnly.
  Variable names : list string.
  Variable shape_of : string -> tshape.
  Variable m : msgval.

  Lemma exec_writes_appends l : forall out,
    exec_writes names shape_of m l out = (b <- exec_writes names shape_of m l [] ;; Ok (out ++ b)).
  Proof.
    induction l as [|s t IH]; intro out; cbn [exec_writes obind]; [rewrite app_nil_r; reflexivity|].
    destruct s; try reflexivity.
    destruct (src_bytes names shape_of m src) as [b| | |]; cbn [obind app]; try reflexivity.
    rewrite (IH (out ++ b)), (IH b).
    destruct (exec_writes names shape_of m t []); cbn [obind]; try reflexivity. rewrite app_assoc. reflexivity.
  Qed.

  Theorem exec_enc_appends l : forall out,
    exec_enc_top names shape_of m l out = (b <- exec_enc_top names shape_of m l [] ;; Ok (out ++ b)).
  Proof.
    induction l as [|s t IH]; intro out; cbn [exec_enc_top obind]; [reflexivity|].
    destruct s as [src|x body| |].
    - destruct (src_bytes names shape_of m src) as [b| | |]; cbn [obind app]; try reflexivity.
      rewrite (IH (out ++ b)), (IH b).
      destruct (exec_enc_top names shape_of m t []); cbn [obind]; try reflexivity. rewrite app_assoc. reflexivity.
    - destruct (index_of x names) as [i|]; [|reflexivity].
      destruct (nth_error m i) as [[v|]|]; try reflexivity.
      + rewrite (exec_writes_appends body out).
        destruct (exec_writes names shape_of m body []) as [b| | |]; cbn [obind app]; try reflexivity.
        rewrite (IH (out ++ b)), (IH b).
        destruct (exec_enc_top names shape_of m t []); cbn [obind]; try reflexivity. rewrite app_assoc. reflexivity.
      + apply IH.
    - cbn [obind]. rewrite ?app_nil_r. reflexivity.
    - reflexivity.
  Qed.
End AppendOnly.
