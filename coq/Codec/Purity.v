(* C10: what a functional model can carry about purity.
   The CS language has no statement form that stores a slice of the input in the message
   (x.Buffer = buffer.Next(n), x.Buffer = ( *byteArray )[i:j], ...) and none that writes through the input
   pointer: such Go code is transliterated to DUnknown and fails canon_ok.  What remains to be shown is
   that every slice the decoder fills was freshly allocated by the same decoder step. *)
From NV Require Import Lib.Base Lib.BV Codec.Lang Codec.Def Codec.Sem C09.Types C09.Check C09.All
  Gen.GenMsgs Gen.GenTypes Gen.GenAccessors C19.Types C19.Globals.
From Coq Require Import String.
Open Scope N_scope.

(* every binary.Read into a.X.Buffer is preceded, in the same block, by a.X.SetLen(...) *)
Fixpoint block_fresh (fresh : list string) (l : list dstmt) : bool :=
  match l with
  | [] => true
  | DSetLen s :: t => block_fresh (s :: fresh) t
  | DRead (TBuf s) :: t => existsb (String.eqb s) fresh && block_fresh fresh t
  | DLoop cases :: t =>
      forallb (fun c => (fix go (fr : list string) (b : list dstmt) : bool :=
                           match b with
                           | [] => true
                           | DSetLen s :: r => go (s :: fr) r
                           | DRead (TBuf s) :: r => existsb (String.eqb s) fr && go fr r
                           | DNew s _ :: r => go (filter (fun x => negb (String.eqb x s)) fr) r
                           | _ :: r => go fr r
                           end) [] (snd c)) cases && block_fresh fresh t
  | _ :: t => block_fresh fresh t
  end.

Definition buffers_fresh : bool := forallb (fun g => block_fresh [] (g_dec g)) all_msgs.

(* the element types whose Buffer is read by some decoder *)
Fixpoint buf_targets (l : list dstmt) : list string :=
  match l with
  | [] => []
  | DRead (TBuf s) :: t => s :: buf_targets t
  | DLoop cases :: t => flat_map (fun c => (fix go (b : list dstmt) : list string :=
                                              match b with
                                              | [] => []
                                              | DRead (TBuf s) :: r => s :: go r
                                              | _ :: r => go r
                                              end) (snd c)) cases ++ buf_targets t
  | _ :: t => buf_targets t
  end.

(* SetLen of those types is the allocating kind (Len := v; Buffer := make([]uint8, Len)) -- read off the
   accessor bodies translated for C09 *)
Definition setlen_allocates (ty : string) : bool :=
  match find (fun a => String.eqb (a_type a) ty && String.eqb (a_name a) "SetLen") accessors with
  | Some a => match classify a with KHdr (HSetLenAlloc _) => true | _ => false end
  | None => false
  end.

Definition setlens_allocate : bool :=
  forallb (fun g => forallb setlen_allocates (buf_targets (g_dec g))) all_msgs.

Lemma buffers_fresh_ok : buffers_fresh = true.
Proof. vm_compute. reflexivity. Qed.

Lemma setlens_allocate_ok : setlens_allocate = true.
Proof. vm_compute. reflexivity. Qed.

(* the allocating SetLen really replaces Buffer by a fresh zeroed slice of Len octets (C09's theorem on
   that accessor class), so the Buffer the decoder fills shares nothing with the input *)
Lemma setlen_alloc_meaning mb t body :
  classify_hdr body = Some (HSetLenAlloc t) ->
  forall s v, v < 2 ^ tbits t ->
    run_body mb s [v] [] body = Ok (mkst (s_iei s) v (repeat 0 (N.to_nat v)) (s_cnt s), RNone).
Proof. intros H. exact (hdr_sound mb body (HSetLenAlloc t) H). Qed.

(* encoding only appends: the model of binary.Write on a bytes.Buffer *)
Definition encode_into (pre : bytes) (d : msgdef) (m : msgval) : outcome bytes :=
  omap (fun e => (pre ++ e)%list) (encode_def d m).

Lemma encode_into_appends pre d m e :
  encode_def d m = Ok e -> encode_into pre d m = Ok (pre ++ e)%list.
Proof. intro H. unfold encode_into. rewrite H. reflexivity. Qed.

(* determinism: the codec packages import no clock, randomness, process state, synchronisation,
   reflection or unsafe memory access (checked on the fresh import lists) *)
Lemma codec_imports_pure : codec_imports_ok = true.
Proof. vm_compute. reflexivity. Qed.
