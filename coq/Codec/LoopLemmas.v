(* Generic facts about the decoder loop (independent of the generated tables). *)
From NV Require Import Lib.Base Lib.ListExt Codec.Lang Codec.Def Codec.Sem Codec.Total.
From Coq Require Import String ZifyN ZifyNat ZifyBool.
Open Scope N_scope.

(* the header octets are the first hlen mandatory one-octet slots of a message *)
Definition header_slots_ok (hlen : nat) (d : msgdef) : bool :=
  Nat.leb hlen (List.length d) &&
  forallb (fun sd => sd_mand sd && negb (sd_haslen sd) &&
                     match sd_val sd with VOctet => true | _ => false end) (firstn hlen d).

(* ---- the optional loop never touches a mandatory position ---- *)

Lemma find_opt_spec d t i j sd :
  find_opt d t i = Some (j, sd) ->
  (i <= j)%nat /\ nth_error d (j - i) = Some sd /\ sd_mand sd = false.
Proof.
  revert i. induction d as [|x r IH]; intros i H; [discriminate|].
  cbn [find_opt] in H. destruct (negb (sd_mand x) && (sd_iei x =? t))%bool eqn:E.
  - inversion H; subst. replace (j - j)%nat with 0%nat by lia. cbn.
    apply andb_true_iff in E as [E _]. apply negb_true_iff in E. auto.
  - destruct (IH (S i) H) as (A & B & C). split; [lia|]. split; [|exact C].
    replace (j - i)%nat with (S (j - S i)) by lia. exact B.
Qed.

Lemma nth_error_set_nth_other {A} (l : list A) i j x :
  i <> j -> nth_error (set_nth l i x) j = nth_error l j.
Proof.
  revert i j. induction l as [|h t IH]; intros [|i] [|j] H; cbn; auto; try congruence.
Qed.

Lemma set_nth_length {A} (l : list A) i x : List.length (set_nth l i x) = List.length l.
Proof. revert i. induction l as [|h t IH]; intros [|i]; cbn; auto. Qed.

Lemma dec_loop_keeps_mand d : forall fuel m bs m' j sdj,
  dec_loop fuel d m bs = Ok m' ->
  nth_error d j = Some sdj -> sd_mand sdj = true ->
  nth_error m' j = nth_error m j.
Proof.
  induction fuel as [|f IH]; intros m bs m' j sdj H Hj Hm.
  - destruct bs; cbn in H; [inversion H; reflexivity|discriminate].
  - destruct bs as [|b rest]; cbn [dec_loop] in H; [inversion H; reflexivity|].
    destruct (find_opt d (classify b) 0) as [[i sd]|] eqn:Ef.
    + destruct (dec_slot sd b (new_val sd b) rest) as [[v r]| | |]; try discriminate.
      cbn [obind fst snd] in H.
      rewrite (IH _ _ _ j sdj H Hj Hm).
      apply nth_error_set_nth_other.
      apply find_opt_spec in Ef as (_ & B & C). rewrite Nat.sub_0_r in B.
      intro; subst. congruence.
    + eapply IH; eassumption.
Qed.

(* ---- the header octets are the body's first slots ---- *)

Lemma dec_mand_header hlen : forall d bs m rest,
  header_slots_ok hlen d = true -> dec_mand d bs = Ok (m, rest) ->
  (hlen <= List.length bs)%nat /\
  firstn hlen m = map (fun b => Some (mkie 0 0 [b])) (firstn hlen bs).
Proof.
  induction hlen as [|h IH]; intros d bs m rest Hok Hd.
  - split; [lia|reflexivity].
  - unfold header_slots_ok in Hok. apply andb_true_iff in Hok as [Hlen Hall].
    destruct d as [|sd t]; [cbn in Hlen; discriminate|].
    cbn [firstn forallb] in Hall. apply andb_true_iff in Hall as [Hsd Hrest].
    apply andb_true_iff in Hsd as [Hsd Hv]. apply andb_true_iff in Hsd as [Hm Hl].
    apply negb_true_iff in Hl.
    cbn [dec_mand] in Hd. rewrite Hm in Hd.
    unfold dec_slot, dec_len in Hd. rewrite Hl in Hd. cbn [obind fst snd] in Hd.
    unfold dec_val in Hd. destruct (sd_val sd); try discriminate.
    destruct (take 1 bs) as [[x r]|] eqn:Et; [|discriminate]. cbn [obind fst snd] in Hd.
    destruct (dec_mand t r) as [[m1 r1]| | |] eqn:E1; try discriminate. cbn [obind fst snd] in Hd.
    inversion Hd; subst. clear Hd.
    apply take_length in Et as (Lx & Lr & Ebs).
    assert (Hok' : header_slots_ok h t = true).
    { unfold header_slots_ok. apply andb_true_iff. split; [|exact Hrest].
      cbn [List.length] in Hlen. apply Nat.leb_le in Hlen. apply Nat.leb_le. lia. }
    destruct (IH t r m1 rest Hok' E1) as [Hl1 Hf1].
    destruct x as [|b [|]]; cbn in Lx; try lia. subst bs. cbn [app List.length firstn map] in *.
    split; [lia|]. rewrite Hf1. unfold with_oct, zero_val. cbn. reflexivity.
Qed.

Lemma decode_header d hlen bs m :
  header_slots_ok hlen d = true -> decode_def d bs = Ok m ->
  (hlen <= List.length bs)%nat /\
  firstn hlen m = map (fun b => Some (mkie 0 0 [b])) (firstn hlen bs).
Proof.
  intros Hok H. unfold decode_def in H.
  destruct (dec_mand d bs) as [[m0 rest]| | |] eqn:E; try discriminate. cbn [obind fst snd] in H.
  destruct (dec_mand_header hlen d bs m0 rest Hok E) as [Hl Hf]. split; [exact Hl|].
  rewrite <- Hf.
  (* positions below hlen are mandatory, the loop leaves them alone *)
  apply nth_error_ext_firstn. intros j Hj.
  unfold header_slots_ok in Hok. apply andb_true_iff in Hok as [Hlen Hall].
  apply Nat.leb_le in Hlen.
  destruct (nth_error d j) as [sdj|] eqn:Ej; [|apply nth_error_None in Ej; lia].
  assert (Hmand : sd_mand sdj = true).
  { rewrite forallb_forall in Hall.
    assert (In sdj (firstn hlen d)).
    { apply nth_error_In with (n := j). rewrite nth_error_firstn_lt by assumption. exact Ej. }
    apply Hall in H0. apply andb_true_iff in H0 as [H0 _]. apply andb_true_iff in H0 as [H0 _]. exact H0. }
  eapply dec_loop_keeps_mand; eassumption.
Qed.

