(* Codec correspondence: decode / encode calls observed on the Go implementation, replayed on the
   TRANSLITERATED programs under the statement semantics (Codec/Stmt.v: exec_dec / exec_enc), which
   Codec/StmtProofs.v proves equal to decode_def / encode_def of the extracted definition whenever
   stmt_ready holds; dispatch cases run the table-driven dispatch model. *)
From NV Require Import Lib.Base Codec.Lang Codec.Def Codec.Sem Codec.Stmt Codec.Dispatch Codec.GenDefs Gen.GenMsgs Gen.GenTypes.
From Coq Require Import String.
Open Scope N_scope.

Inductive dobs := DOk (m : msgval) | DErr | DPanic.
Inductive eobs := EOk (b : bytes) | EErr | EPanic.

Inductive pobs := POk (gmm : bool) (header : bytes) (bodies : list (string * msgval)) | PErr | PPanic.

Inductive case :=
| CDec (id : N) (name : string) (input : bytes) (o : dobs)
| CEnc (id : N) (name : string) (m : msgval) (o : eobs)
| CDisp (id : N) (entry : N) (input : option bytes) (o : pobs)   (* 0 PlainNasDecode, 1 Gmm-, 2 GsmMessageDecode *)
| CDispEnc (id : N) (m : option plainmsg) (o : eobs).

Definition ieval_eqb (a b : ieval) : bool :=
  (v_iei a =? v_iei b) && (v_len a =? v_len b) && eqb_bytes (v_oct a) (v_oct b).

Definition oie_eqb (a b : option ieval) : bool :=
  match a, b with
  | None, None => true
  | Some x, Some y => ieval_eqb x y
  | _, _ => false
  end.

Definition msgval_eqb (a b : msgval) : bool := eqb_list oie_eqb a b.

Definition find_msg (n : string) : option gmsg := find (fun g => String.eqb (g_name g) n) all_msgs.

Definition case_ok (c : case) : bool :=
  match c with
  | CDec _ n input o =>
      match find_msg n with
      | None => false
      | Some g =>
          match exec_dec nas_types g input, o with
          | Ok m, DOk m' => msgval_eqb m m'
          | Err, DErr => true
          | Panic, DPanic => true
          | _, _ => false
          end
      end
  | CEnc _ n m o =>
      match find_msg n with
      | None => false
      | Some g =>
          match exec_enc nas_types g m, o with
          | Ok b, EOk b' => eqb_bytes b b'
          | Err, EErr => true
          | Panic, EPanic => true
          | _, _ => false
          end
      end
  | CDisp _ entry input o =>
      let r := match entry, input with
               | 0, _ => plain_decode input
               | 1, Some bs => part_decode true bs
               | 2, Some bs => part_decode false bs
               | _, _ => Panic
               end in
      match r, o with
      | Ok pm, POk g h bodies =>
          Bool.eqb (pm_gmm pm) g && eqb_bytes (pm_header pm) h &&
          eqb_list (fun a b => String.eqb (fst a) (fst b) && msgval_eqb (snd a) (snd b)) (pm_bodies pm) bodies
      | Err, PErr => true
      | Panic, PPanic => true
      | _, _ => false
      end
  | CDispEnc _ m o =>
      match plain_encode m, o with
      | Ok b, EOk b' => eqb_bytes b b'
      | Err, EErr => true
      | Panic, EPanic => true
      | _, _ => false
      end
  end.

Definition case_id (c : case) : N :=
  match c with CDec i _ _ _ | CEnc i _ _ _ | CDisp i _ _ _ | CDispEnc i _ _ => i end.
Definition mismatches (cs : list case) : list N := map case_id (filter (fun c => negb (case_ok c)) cs).
