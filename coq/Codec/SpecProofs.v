(* C04 (a): the encoder emits exactly the table-driven format. *)
From NV Require Import Lib.Base Lib.ListExt Codec.Lang Codec.Def Codec.Sem Codec.Total Codec.WF Codec.RoundTrip Codec.SpecTable.
From Coq Require Import String ZifyN ZifyNat ZifyBool.
Open Scope N_scope.

(* when a length is transmitted for a fixed-size value, the check pins it to that size *)
Definition pinned_boundsb (sd : slotdef) : bool :=
  let '(mn, mx, st) := check_bounds sd in
  (mn =? fixed_len sd) && (mx =? fixed_len sd) && match st with [] => true | _ => false end.

Definition fmt_consistentb (sd : slotdef) : bool :=
  (if sd_haslen sd
   then match sd_val sd with VOctet | VArrAll | VArrN _ => pinned_boundsb sd | VStruct => false | _ => true end
   else true) &&
  match sd_check sd with
  | LAnd l => negb (Nat.eqb (List.length l) 0) && forallb (fun a => match fst a with CNe => true | _ => false end) l
  | _ => true
  end &&
  match ss_fmt (abstract_slot sd) with FBad => false | _ => true end.

Definition spec_defb (d : msgdef) : bool := rt_defb d && forallb fmt_consistentb d.

Lemma firstn_exact {A} (l : list A) n : List.length l = n -> firstn n l = l.
Proof. intro H. rewrite <- H. apply firstn_all. Qed.

Lemma be_bytes_1 n : be_bytes 1 n = [n mod 256].
Proof. cbn [be_bytes]. change (256 ^ N.of_nat 0) with 1. rewrite N.div_1_r. reflexivity. Qed.

Lemma be_bytes_2 n : be_bytes 2 n = be2 n.
Proof.
  cbn [be_bytes]. change (256 ^ N.of_nat 1) with 256. change (256 ^ N.of_nat 0) with 1.
  rewrite N.div_1_r. reflexivity.
Qed.

Lemma pinned_len sd l :
  pinned_boundsb sd = true -> check_fails (sd_check sd) l = false -> l < lenw_bound sd -> l = fixed_len sd.
Proof.
  unfold pinned_boundsb, check_bounds, lenw_bound. intros Hb Hc Hlt.
  destruct (sd_check sd) as [|c|c]; cbn [check_fails] in Hc.
  - apply andb_true_iff in Hb as [Hb _]. apply andb_true_iff in Hb as [H1 H2].
    apply N.eqb_eq in H1. apply N.eqb_eq in H2. lia.
  - apply andb_true_iff in Hb as [Hb _]. apply andb_true_iff in Hb as [H1 H2].
    apply N.eqb_eq in H1. apply N.eqb_eq in H2.
    set (top := 256 ^ N.of_nat (sh_lenw (sd_shape sd)) - 1) in *.
    assert (Hall : forall a, In a c -> atom_true l a = false).
    { intros a Ha. destruct (atom_true l a) eqn:E; [|reflexivity].
      assert (existsb (atom_true l) c = true) by (apply existsb_exists; eauto). congruence. }
    assert (Hge : fold_right (fun a m => match fst a with CLt | CNe => N.max (snd a) m | CGt => m end) 0 c <= l).
    { clear H1 H2 Hc. induction c as [|a t IH]; cbn [fold_right]; [lia|].
      assert (Ha := Hall a (or_introl eq_refl)). specialize (IH (fun x Hx => Hall x (or_intror Hx))).
      destruct a as [op n]. unfold atom_true in Ha. cbn [fst snd] in *. destruct op; lia. }
    assert (Hle : l <= fold_right (fun a m => match fst a with CGt | CNe => N.min (snd a) m | CLt => m end) top c).
    { clear H1 H2 Hc Hge. induction c as [|a t IH]; cbn [fold_right]; [unfold top; lia|].
      assert (Ha := Hall a (or_introl eq_refl)). specialize (IH (fun x Hx => Hall x (or_intror Hx))).
      destruct a as [op n]. unfold atom_true in Ha. cbn [fst snd] in *. destruct op; lia. }
    lia.
  - apply andb_true_iff in Hb as [_ Hb]. destruct (map snd c) eqn:E; [|discriminate].
    destruct c; [|discriminate]. cbn in Hc. discriminate.
Qed.

(* shape facts of a slot that passes slot_rtb *)
Lemma rt_shape sd : slot_rtb sd = true ->
  exists hasiei w bk, sd_shape sd = ShKnown hasiei w bk /\
    (sd_haslen sd = true -> w = 1%nat \/ w = 2%nat).
Proof.
  unfold slot_rtb. destruct (sd_shape sd) as [h w b|]; [|discriminate]. intro H.
  exists h, w, b. split; [reflexivity|]. intro Hl. rewrite Hl in H.
  apply andb_true_iff in H as [H _]. apply andb_true_iff in H as [H _].
  apply orb_true_iff in H as [H|H]; apply Nat.eqb_eq in H; auto.
Qed.

Lemma abstract_fmt sd : slot_rtb sd = true ->
  ss_fmt (abstract_slot sd) =
  (if sd_mand sd
   then (if sd_haslen sd then (if Nat.eqb (sh_lenw (sd_shape sd)) 1 then FLV else FLVE) else FV (fixed_len sd))
   else match sd_val sd with
        | VHalf => FT1
        | _ => if sd_haslen sd then (if Nat.eqb (sh_lenw (sd_shape sd)) 1 then FTLV else FTLVE) else FTV (fixed_len sd)
        end).
Proof.
  intro Hrt. destruct (rt_shape sd Hrt) as (h & w & bk & Esh & Hw).
  unfold abstract_slot. rewrite Esh. cbn [sh_lenw].
  destruct (sd_haslen sd) eqn:Ehl.
  - destruct (Hw eq_refl) as [->| ->]; cbn [Nat.eqb];
      destruct (check_bounds sd) as [[a b] c]; cbn [ss_fmt]; destruct (sd_mand sd); try reflexivity;
      destruct (sd_val sd); reflexivity.
  - cbn [ss_fmt]. destruct (sd_mand sd); try reflexivity; destruct (sd_val sd); reflexivity.
Qed.

Lemma abstract_iei sd : ss_iei (abstract_slot sd) = sd_iei sd.
Proof. unfold abstract_slot. destruct (if sd_haslen sd then _ else _) as [[a b] c]. reflexivity. Qed.

Definition lenb (sd : slotdef) (v : ieval) : bytes :=
  if sd_haslen sd then be_bytes (sh_lenw (sd_shape sd)) (v_len v) else [].

Definition valb (sd : slotdef) (v : ieval) : bytes :=
  match sd_val sd with
  | VOctet | VHalf => firstn 1 (v_oct v)
  | VArrAll | VBuf => v_oct v
  | VArrN n => firstn (N.to_nat n) (v_oct v)
  | VArrLen => firstn (N.to_nat (v_len v)) (v_oct v)
  | VStruct | VNone => []
  end.

Lemma enc_value_ok sd v : slot_rtb sd = true -> wf_valb sd v = true ->
  enc_value sd v = Ok (lenb sd v ++ valb sd v).
Proof.
  intros Hrt Hwf. unfold enc_value, lenb, valb.
  unfold slot_rtb in Hrt. destruct (sd_shape sd) as [h w bk|] eqn:Esh; [|discriminate].
  apply andb_true_iff in Hrt as [Hrt _]. apply andb_true_iff in Hrt as [_ Hk].
  unfold wf_valb in Hwf. rewrite Esh in Hwf. cbn [sh_cap sh_lenw] in *.
  apply andb_true_iff in Hwf as [_ Hform].
  destruct (sd_val sd) eqn:Ev; try discriminate; try reflexivity.
  - destruct bk; try discriminate. cbn [sh_cap]. apply Nat.leb_le in Hk.
    destruct (Nat.ltb_spec n0 (N.to_nat n)); [lia|reflexivity].
  - destruct bk; try discriminate. cbn [sh_cap].
    apply andb_true_iff in Hform as [Hform _]. apply andb_true_iff in Hform as [_ Hle]. apply Nat.leb_le in Hle.
    destruct (Nat.ltb_spec n (N.to_nat (v_len v))); [lia|reflexivity].
  - rewrite app_nil_r. reflexivity.
Qed.

Lemma id_part_eq sd v : slot_rtb sd = true -> ident_okb sd v = true ->
  (if (negb (sd_mand sd) && (16 <=? sd_iei sd))%bool then [v_iei v] else []) = id_part (abstract_slot sd).
Proof.
  intros Hrt Hid. unfold id_part. rewrite (abstract_fmt sd Hrt), abstract_iei.
  unfold ident_okb in Hid.
  unfold slot_rtb in Hrt. destruct (sd_shape sd) as [h w bk|] eqn:Esh; [|discriminate].
  apply andb_true_iff in Hrt as [Hrt Hopt]. apply andb_true_iff in Hrt as [_ Hk].
  destruct (sd_mand sd) eqn:Em; cbn [negb andb].
  - destruct (sd_haslen sd); [destruct (Nat.eqb _ 1)|]; reflexivity.
  - destruct (sd_val sd) eqn:Ev.
    all: try (apply andb_true_iff in Hopt as [Hopt _]; apply andb_true_iff in Hopt as [_ Hge];
              rewrite Hge; apply N.eqb_eq in Hid; rewrite Hid;
              destruct (sd_haslen sd); [destruct (Nat.eqb _ 1)|]; reflexivity).
    destruct bk; try discriminate.
    apply andb_true_iff in Hk as [Hk _]. apply andb_true_iff in Hk as [_ Hlt16]. apply N.ltb_lt in Hlt16.
    destruct (N.leb_spec 16 (sd_iei sd)); [lia|reflexivity].
Qed.

Lemma len_part_eq sd v : slot_rtb sd = true -> wf_valb sd v = true ->
  lenb sd v = len_part (abstract_slot sd) v.
Proof.
  intros Hrt Hwf. unfold lenb, len_part. rewrite (abstract_fmt sd Hrt).
  destruct (rt_shape sd Hrt) as (h & w & bk & Esh & Hw). rewrite Esh. cbn [sh_lenw].
  destruct (sd_haslen sd) eqn:Ehl.
  - destruct (Hw eq_refl) as [->| ->]; cbn [Nat.eqb]; rewrite ?be_bytes_1, ?be_bytes_2;
      destruct (sd_mand sd); try reflexivity; destruct (sd_val sd) eqn:Ev; try reflexivity.
    all: (* a half-octet element never transmits a length *)
      exfalso; unfold slot_rtb in Hrt; rewrite Esh, Ev, Ehl in Hrt; destruct bk; cbn in Hrt;
      rewrite ?andb_false_r in Hrt; try discriminate;
      destruct h; cbn in Hrt; rewrite ?andb_false_r in Hrt; discriminate.
  - destruct (sd_mand sd); try reflexivity. destruct (sd_val sd); reflexivity.
Qed.

Lemma content_part_eq sd v : slot_rtb sd = true -> fmt_consistentb sd = true -> wf_valb sd v = true ->
  valb sd v = content_part (abstract_slot sd) v.
Proof.
  intros Hrt Hfc Hwf. unfold valb, content_part. rewrite (abstract_fmt sd Hrt).
  pose proof Hrt as Hrt0.
  unfold slot_rtb in Hrt. destruct (sd_shape sd) as [h w bk|] eqn:Esh; [|discriminate].
  apply andb_true_iff in Hrt as [Hrt _]. apply andb_true_iff in Hrt as [_ Hk].
  unfold fmt_consistentb in Hfc. apply andb_true_iff in Hfc as [Hfc _]. apply andb_true_iff in Hfc as [Hpin _].
  pose proof Hwf as Hwf0. unfold wf_valb in Hwf. rewrite Esh in Hwf. cbn [sh_cap sh_lenw] in *.
  apply andb_true_iff in Hwf as [Hwf Hform]. apply andb_true_iff in Hwf as [_ Hlen].
  (* when a length is transmitted for a fixed-size value it equals that size *)
  assert (Hfix : sd_haslen sd = true ->
                 match sd_val sd with VOctet | VArrAll | VArrN _ => v_len v = fixed_len sd | _ => True end).
  { intro Hl. rewrite Hl in Hpin, Hlen. apply andb_true_iff in Hlen as [Hlt Hchk].
    apply negb_true_iff in Hchk. apply N.ltb_lt in Hlt.
    destruct (sd_val sd); try exact I; apply (pinned_len sd); auto; unfold lenw_bound; rewrite Esh; exact Hlt. }
  unfold fixed_len in *. rewrite Esh in *. cbn [sh_cap] in *.
  destruct (sd_val sd) eqn:Ev; try discriminate.
  - (* VOctet *)
    destruct (sd_mand sd), (sd_haslen sd) eqn:Ehl; try reflexivity;
      try (rewrite (Hfix eq_refl); destruct (Nat.eqb w 1); reflexivity).
  - (* VArrAll *)
    destruct bk as [|c| |]; try discriminate. cbn [sh_cap] in *. apply Nat.eqb_eq in Hform.
    destruct (sd_mand sd), (sd_haslen sd) eqn:Ehl;
      try (rewrite (Hfix eq_refl); destruct (Nat.eqb w 1));
      rewrite Nat2N.id; symmetry; apply firstn_exact; exact Hform.
  - (* VArrN *)
    destruct (sd_mand sd), (sd_haslen sd) eqn:Ehl;
      try (rewrite (Hfix eq_refl); destruct (Nat.eqb w 1)); reflexivity.
  - (* VArrLen *)
    destruct bk; try discriminate. rewrite Hk.
    destruct (sd_mand sd); destruct (Nat.eqb w 1); reflexivity.
  - (* VBuf *)
    destruct bk; try discriminate. rewrite Hk. apply Nat.eqb_eq in Hform.
    destruct (sd_mand sd); destruct (Nat.eqb w 1); symmetry; apply firstn_exact; exact Hform.
  - (* VStruct *)
    destruct bk; try discriminate. apply Nat.eqb_eq in Hform. destruct (v_oct v); cbn in Hform; try lia.
    destruct (sd_mand sd), (sd_haslen sd); try destruct (Nat.eqb w 1); cbn; rewrite ?firstn_nil; reflexivity.
  - (* VHalf *)
    destruct (sd_mand sd); [|reflexivity].
    exfalso. destruct bk; try discriminate. repeat (apply andb_true_iff in Hk as [Hk ?]). discriminate.
Qed.

Lemma slot_format sd v :
  slot_rtb sd = true -> fmt_consistentb sd = true -> wf_valb sd v = true -> ident_okb sd v = true ->
  enc_slot sd (Some v) = Ok (emit (abstract_slot sd) v).
Proof.
  intros Hrt Hfc Hwf Hid. unfold enc_slot, emit.
  rewrite (enc_value_ok sd v Hrt Hwf). cbn [obind].
  rewrite (id_part_eq sd v Hrt Hid), (len_part_eq sd v Hrt Hwf), (content_part_eq sd v Hrt Hfc Hwf).
  reflexivity.
Qed.

Lemma is_mand_abstract sd : slot_rtb sd = true -> is_mand (abstract_slot sd) = sd_mand sd.
Proof.
  intro Hrt. unfold is_mand. rewrite (abstract_fmt sd Hrt).
  destruct (sd_mand sd); [destruct (sd_haslen sd); [destruct (Nat.eqb _ 1)|]; reflexivity|].
  destruct (sd_val sd); try (destruct (sd_haslen sd); [destruct (Nat.eqb _ 1)|]; reflexivity); reflexivity.
Qed.

Lemma part_format mand d : forall m,
  forallb slot_rtb d = true -> forallb fmt_consistentb d = true -> wf_msgb d m = true ->
  enc_part mand d m = Ok (format_part mand (abstract d) m).
Proof.
  induction d as [|sd t IH]; intros [|ov tm] Hrt Hfc Hwf; cbn [wf_msgb] in Hwf; try discriminate.
  - reflexivity.
  - cbn [forallb] in Hrt, Hfc. apply andb_true_iff in Hrt as [Hs Ht]. apply andb_true_iff in Hfc as [Hf1 Hf2].
    apply andb_true_iff in Hwf as [Hsv Hwt].
    cbn [enc_part abstract map format_part]. fold (abstract t).
    rewrite (is_mand_abstract sd Hs). rewrite (IH tm Ht Hf2 Hwt).
    destruct (Bool.eqb (sd_mand sd) mand) eqn:Eb; [|reflexivity].
    destruct ov as [v|]; cbn [wf_slotvalb] in Hsv.
    + apply andb_true_iff in Hsv as [Hv Hid]. rewrite (slot_format sd v Hs Hf1 Hv Hid). reflexivity.
    + apply negb_true_iff in Hsv. unfold enc_slot. rewrite Hsv. reflexivity.
Qed.

(* C04 (a): the encoder emits exactly the table-driven format of the specification view *)
Theorem format_eq d m : spec_defb d = true -> wf_msgb d m = true ->
  encode_def d m = Ok (spec_format (abstract d) m).
Proof.
  intros Hsp Hwf. unfold spec_defb in Hsp. apply andb_true_iff in Hsp as [Hrt Hfc].
  unfold rt_defb in Hrt. apply andb_true_iff in Hrt as [Hrt _]. apply andb_true_iff in Hrt as [_ Hs].
  unfold encode_def, spec_format.
  rewrite (part_format true d m Hs Hfc Hwf), (part_format false d m Hs Hfc Hwf). reflexivity.
Qed.
