(* Executable meaning of a message definition: what the generator's decoder /
   encoder template does, written over the definition (not over statements).
   This reading of the template (binary.Read/Write, bytes.Buffer, SetLen, NewX) is
   what the correspondence run validates against the compiled Go code. *)
From NV Require Import Lib.Base Codec.Lang Codec.Def.
From Coq Require Import String.
Open Scope N_scope.

Record ieval := mkie { v_iei : N; v_len : N; v_oct : bytes }.
Definition msgval := list (option ieval).

Definition sh_cap (sh : tshape) : nat :=
  match sh with
  | ShKnown _ _ TBScalar => 1
  | ShKnown _ _ (TBArray n) => n
  | _ => 0
  end.
Definition sh_lenw (sh : tshape) : nat := match sh with ShKnown _ w _ => w | ShUnknown => 0 end.
Definition sh_isbuf (sh : tshape) : bool := match sh with ShKnown _ _ TBBuffer => true | _ => false end.
Definition sh_hasiei (sh : tshape) : bool := match sh with ShKnown b _ _ => b | ShUnknown => false end.

(* the Go zero value of the element struct *)
Definition zero_val (sd : slotdef) : ieval := mkie 0 0 (repeat 0 (sh_cap (sd_shape sd))).

(* nasType.NewX(ieiN): zero value, then SetIei (field, or high nibble of a half-octet element) *)
Definition new_val (sd : slotdef) (iei : N) : ieval :=
  if sh_hasiei (sd_shape sd) then mkie iei 0 (repeat 0 (sh_cap (sd_shape sd)))
  else match sd_shape sd with
       | ShKnown _ _ TBScalar => mkie 0 0 [(iei mod 16) * 16]
       | _ => zero_val sd
       end.

Definition take (n : nat) (bs : bytes) : option (bytes * bytes) :=
  if Nat.ltb (List.length bs) n then None else Some (firstn n bs, skipn n bs).

Definition atom_true (len : N) (a : cmp * N) : bool :=
  match fst a with
  | CLt => len <? snd a
  | CGt => snd a <? len
  | CNe => negb (len =? snd a)
  end.
Definition check_fails (c : lcheck) (len : N) : bool :=
  match c with
  | LNone => false
  | LOr l => existsb (atom_true len) l
  | LAnd l => forallb (atom_true len) l
  end.

(* length field: read, check, SetLen *)
Definition dec_len (sd : slotdef) (v : ieval) (bs : bytes) : outcome (ieval * bytes) :=
  if sd_haslen sd then
    match take (sh_lenw (sd_shape sd)) bs with
    | None => Err
    | Some (lb, rest) =>
        let len := be_val lb in
        if check_fails (sd_check sd) len then Err
        else Ok (mkie (v_iei v) len
                      (if sh_isbuf (sd_shape sd) then repeat 0 (N.to_nat len) else v_oct v), rest)
    end
  else Ok (v, bs).

Definition with_oct (v : ieval) (o : bytes) : ieval := mkie (v_iei v) (v_len v) o.

(* value part; [iei] is the identifier octet just read (optional elements) *)
Definition dec_val (sd : slotdef) (iei : N) (v : ieval) (bs : bytes) : outcome (ieval * bytes) :=
  let cap := sh_cap (sd_shape sd) in
  let rd (n : nat) (k : bytes -> bytes) :=
    match take n bs with
    | None => Err
    | Some (x, rest) => Ok (with_oct v (k x), rest)
    end in
  match sd_val sd with
  | VOctet => rd 1%nat (fun x => x)
  | VArrAll => rd cap (fun x => x)
  | VArrN n => if Nat.ltb cap (N.to_nat n) then Panic
               else rd (N.to_nat n) (fun x => x ++ skipn (N.to_nat n) (v_oct v))
  | VArrLen => if Nat.ltb cap (N.to_nat (v_len v)) then Panic    (* Octet[:Len] with Len > cap *)
               else rd (N.to_nat (v_len v)) (fun x => x ++ skipn (N.to_nat (v_len v)) (v_oct v))
  | VBuf => rd (List.length (v_oct v)) (fun x => x)
  | VStruct => Ok (v, bs)
  | VHalf => Ok (with_oct v [iei], bs)
  | VNone => Panic
  end.

Definition dec_slot (sd : slotdef) (iei : N) (v : ieval) (bs : bytes) : outcome (ieval * bytes) :=
  r <- dec_len sd v bs ;; dec_val sd iei (fst r) (snd r).

(* mandatory part, in definition order; optional slots start absent *)
Fixpoint dec_mand (d : msgdef) (bs : bytes) : outcome (msgval * bytes) :=
  match d with
  | [] => Ok ([], bs)
  | sd :: t =>
      if sd_mand sd
      then r <- dec_slot sd 0 (zero_val sd) bs ;;
           r' <- dec_mand t (snd r) ;;
           Ok (Some (fst r) :: fst r', snd r')
      else r' <- dec_mand t bs ;; Ok (None :: fst r', snd r')
  end.

Definition classify (b : N) : N := if 128 <=? b then b / 16 else b.

(* first optional slot whose case constant is t, with its index in the definition *)
Fixpoint find_opt (d : msgdef) (t : N) (i : nat) : option (nat * slotdef) :=
  match d with
  | [] => None
  | sd :: r => if (negb (sd_mand sd) && (sd_iei sd =? t))%bool then Some (i, sd) else find_opt r t (S i)
  end.

Fixpoint set_nth {A} (l : list A) (i : nat) (x : A) : list A :=
  match l, i with
  | [], _ => []
  | _ :: t, O => x :: t
  | h :: t, S j => h :: set_nth t j x
  end.

Fixpoint dec_loop (fuel : nat) (d : msgdef) (m : msgval) (bs : bytes) : outcome msgval :=
  match bs with
  | [] => Ok m
  | b :: rest =>
      match fuel with
      | O => OutOfFuel
      | S f =>
          match find_opt d (classify b) 0 with
          | None => dec_loop f d m rest          (* default: the octet is skipped *)
          | Some (i, sd) =>
              r <- dec_slot sd b (new_val sd b) rest ;;
              dec_loop f d (set_nth m i (Some (fst r))) (snd r)
          end
      end
  end.

Definition decode_def (d : msgdef) (bs : bytes) : outcome msgval :=
  r <- dec_mand d bs ;; dec_loop (S (List.length (snd r))) d (fst r) (snd r).

(* ---------- encoder ---------- *)

Fixpoint be_bytes (w : nat) (n : N) : bytes :=
  match w with
  | O => []
  | S k => (n / 256 ^ N.of_nat k) mod 256 :: be_bytes k n
  end.

Definition enc_value (sd : slotdef) (v : ieval) : outcome bytes :=
  let cap := sh_cap (sd_shape sd) in
  let lenb := if sd_haslen sd then be_bytes (sh_lenw (sd_shape sd)) (v_len v) else [] in
  match sd_val sd with
  | VOctet | VHalf => Ok (lenb ++ firstn 1 (v_oct v))
  | VArrAll | VBuf => Ok (lenb ++ v_oct v)
  | VArrN n => if Nat.ltb cap (N.to_nat n) then Panic else Ok (lenb ++ firstn (N.to_nat n) (v_oct v))
  | VArrLen => if Nat.ltb cap (N.to_nat (v_len v)) then Panic
               else Ok (lenb ++ firstn (N.to_nat (v_len v)) (v_oct v))
  | VStruct => Ok lenb
  | VNone => Panic
  end.

Definition enc_slot (sd : slotdef) (ov : option ieval) : outcome bytes :=
  match ov with
  | None => if sd_mand sd then Panic else Ok []
  | Some v =>
      b <- enc_value sd v ;;
      Ok ((if (negb (sd_mand sd) && (16 <=? sd_iei sd))%bool then [v_iei v] else []) ++ b)
  end.

(* the generator emits all mandatory elements first, then the optional ones, each in definition order *)
Fixpoint enc_part (mand : bool) (d : msgdef) (m : msgval) : outcome bytes :=
  match d, m with
  | [], [] => Ok []
  | sd :: t, ov :: tm =>
      if Bool.eqb (sd_mand sd) mand
      then b <- enc_slot sd ov ;; r <- enc_part mand t tm ;; Ok (b ++ r)
      else enc_part mand t tm
  | _, _ => Panic
  end.

Definition encode_def (d : msgdef) (m : msgval) : outcome bytes :=
  a <- enc_part true d m ;; b <- enc_part false d m ;; Ok (a ++ b).
