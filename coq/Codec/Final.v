(* Codec: the obligations that are re-evaluated on the freshly translated programs. *)
From NV Require Import Lib.Base Codec.Lang Codec.Def Codec.Sem Codec.Total Codec.LoopLemmas Codec.Dispatch Codec.DispatchProofs
  Codec.WF Codec.Cost Codec.Stmt Codec.StmtProofs Codec.RoundTrip Codec.DecodeWF Codec.SpecTable Codec.SpecProofs Codec.SpecDecode Codec.GenDefs Spec.TS24501Tables
  Gen.GenMsgs Gen.GenTypes Gen.GenDispatch.
From Coq Require Import String.
Open Scope N_scope.

(* every generated Encode*/Decode* function is exactly the generator template on its definition *)
Lemma all_canonical : forallb (canon_ok nas_types) all_msgs = true.
Proof. vm_compute. reflexivity. Qed.

(* names of the messages whose check fails (for the report) *)
Definition non_canonical : list string :=
  map g_name (filter (fun g => negb (canon_ok nas_types g)) all_msgs).

Lemma all_wf : forallb (fun p => wf_defb (snd p)) defs = true.
Proof. vm_compute. reflexivity. Qed.

Lemma dispatch_checked : dispatch_ok T = true.
Proof. vm_compute. reflexivity. Qed.

Lemma dispatch_pinned : tables_pinned T = true.
Proof. vm_compute. reflexivity. Qed.

Lemma headers_checked_ok : headers_checked T = true.
Proof. vm_compute. reflexivity. Qed.

Lemma def_wf n d : find_def n = Some d -> wf_defb d = true.
Proof.
  unfold Dispatch.find_def. cbn [t_defs T]. intro H. destruct (find _ defs) as [p|] eqn:E; inversion H; subst.
  apply find_some in E as [Hin _].
  pose proof all_wf as W. rewrite forallb_forall in W. exact (W p Hin).
Qed.

Lemma message_decode_total n d bs : find_def n = Some d -> is_total (decode_def d bs).
Proof. intro H. apply decode_total. eapply def_wf; eassumption. Qed.

Lemma part_decode_total (gmm : bool) bs : bytes_ok bs -> is_total (part_decode gmm bs).
Proof.
  intro Hb. unfold Dispatch.part_decode. cbn [t_gmm_hlen t_gsm_hlen t_gmm_tix t_gsm_tix t_gmm_dec t_gsm_dec T].
  destruct (take _ bs) as [[h r]|] eqn:Et; [|exact I].
  destruct (dec_lookup _ _) as [name|] eqn:El; [|exact I].
  destruct (find_def name) as [d|] eqn:Ed.
  - pose proof (message_decode_total name d bs Ed) as T.
    destruct (decode_def d bs); cbn; try exact T; exact I.
  - (* a dispatch entry always names a known message: computed for every octet value *)
    exfalso.
    set (ty := nth (N.to_nat (if gmm then gmm_type_index else gsm_type_index)) h 0) in *.
    assert (Hty : ty < 256).
    { apply take_length in Et as (_ & _ & Ebs).
      assert (Hh : bytes_ok h).
      { unfold bytes_ok in *. rewrite Ebs in Hb. apply Forall_app in Hb. tauto. }
      unfold bytes_ok in Hh. rewrite Forall_forall in Hh.
      destruct (nth_in_or_default (N.to_nat (if gmm then gmm_type_index else gsm_type_index)) h 0) as [Hin|Hd].
      - apply Hh. exact Hin.
      - subst ty. rewrite Hd. reflexivity. }
    pose proof headers_checked_ok as Hc. unfold headers_checked in Hc. cbn [t_gmm_dec t_gsm_dec T] in Hc. rewrite forallb_forall in Hc.
    specialize (Hc ty (in_octets ty Hty)). apply andb_true_iff in Hc as [H1 H2].
    destruct gmm.
    + rewrite El, Ed in H1. discriminate.
    + rewrite El, Ed in H2. discriminate.
Qed.

Lemma plain_decode_total obs : match obs with Some bs => bytes_ok bs | None => True end -> is_total (plain_decode obs).
Proof.
  unfold Dispatch.plain_decode. destruct obs as [[|b t]|]; intro Hb; try exact I.
  destruct (b =? t_epd_gmm T); [apply part_decode_total; exact Hb|].
  destruct (b =? t_epd_gsm T); [apply part_decode_total; exact Hb|exact I].
Qed.

Lemma all_rt : forallb (fun p => rt_defb (snd p)) defs = true.
Proof. vm_compute. reflexivity. Qed.

Lemma def_rt n d : find_def n = Some d -> rt_defb d = true.
Proof.
  unfold Dispatch.find_def. cbn [t_defs T]. intro H. destruct (find _ defs) as [p|] eqn:E; inversion H; subst.
  apply find_some in E as [Hin _].
  pose proof all_rt as W. rewrite forallb_forall in W. exact (W p Hin).
Qed.

Lemma message_roundtrip n d m : find_def n = Some d -> wf_msgb d m = true ->
  exists bs, encode_def d m = Ok bs /\ decode_def d bs = Ok m.
Proof. intros H Hw. apply roundtrip; [eapply def_rt; eassumption|exact Hw]. Qed.

(* the stricter reading "a header that names a type whose body pointer is nil is an error" fails: F20 *)
Lemma encode_nil_body_refuted : exists pm, plain_encode (Some pm) = Panic.
Proof. exists (mkpm true [126; 0; 65] []). vm_compute. reflexivity. Qed.

(* ---- C04 ---- *)
Lemma all_spec : forallb (fun p => spec_defb (snd p)) defs = true.
Proof. vm_compute. reflexivity. Qed.

Lemma def_spec n d : find_def n = Some d -> spec_defb d = true.
Proof.
  unfold Dispatch.find_def. cbn [t_defs T]. intro H. destruct (find _ defs) as [p|] eqn:E; inversion H; subst.
  apply find_some in E as [Hin _].
  pose proof all_spec as W. rewrite forallb_forall in W. exact (W p Hin).
Qed.

(* the specification view of the current source equals the pinned TS 24.501 element tables *)
Lemma tables_eq_pinned : map (fun p => (fst p, abstract (snd p))) defs = ts24501_tables.
Proof. vm_compute. reflexivity. Qed.

(* ---------- C01: work and allocation bounds over the cost model (Codec/Cost.v) ---------- *)
Lemma all_cost : forallb (fun p => cost_defb (snd p)) defs = true.
Proof. vm_compute. reflexivity. Qed.

(* the largest element struct (capacity + 32) of the current source *)
Definition worst_struct : N := Eval vm_compute in worst_struct_of defs.

Lemma message_decode_cost n d bs : find_def n = Some d -> bytes_ok bs ->
  fst (decode_cost d bs) <= 4 * N.of_nat (List.length d) + 8 * N.of_nat (List.length bs) + 1 /\
  snd (decode_cost d bs) <= (worst_struct + 3) * N.of_nat (List.length bs) + 2 * BIG + 2 * worst_struct.
Proof.
  unfold Dispatch.find_def. cbn [t_defs T]. intros H Hb. destruct (find _ defs) as [p|] eqn:E; inversion H; subst.
  apply find_some in E as [Hin _].
  pose proof all_cost as W. rewrite forallb_forall in W. specialize (W p Hin). cbv beta in W.
  pose proof (worst_struct_le defs p Hin) as Hws. change (worst_struct_of defs) with worst_struct in Hws.
  destruct (decode_cost_bound (snd p) bs W Hb) as (A & B). split; [exact A|]. nia.
Qed.

(* ---------- the transliterated programs, run statement by statement (Codec/Stmt.v) ---------- *)
Lemma all_stmt_ready : forallb (stmt_ready nas_types) all_msgs = true.
Proof. vm_compute. reflexivity. Qed.

Lemma msg_ready g : In g all_msgs -> stmt_ready nas_types g = true.
Proof. intro H. pose proof all_stmt_ready as W. rewrite forallb_forall in W. exact (W g H). Qed.

Lemma msg_in_defs g : In g all_msgs -> In (g_name g, def_of nas_types g) defs.
Proof. intro H. unfold defs. apply in_map_iff. exists g. split; [reflexivity|exact H]. Qed.

(* every generated Decode* / Encode* function computes decode_def / encode_def of its definition *)
Lemma generated_decoder g bs : In g all_msgs -> exec_dec nas_types g bs = decode_def (def_of nas_types g) bs.
Proof. intro H. apply exec_dec_is_decode_def. apply msg_ready. exact H. Qed.

Lemma generated_encoder g m : In g all_msgs -> exec_enc nas_types g m = encode_def (def_of nas_types g) m.
Proof. intro H. apply exec_enc_is_encode_def. apply msg_ready. exact H. Qed.

Lemma msg_wf g : In g all_msgs -> wf_defb (def_of nas_types g) = true.
Proof. intro H. pose proof all_wf as W. rewrite forallb_forall in W. exact (W _ (msg_in_defs g H)). Qed.
Lemma msg_rt g : In g all_msgs -> rt_defb (def_of nas_types g) = true.
Proof. intro H. pose proof all_rt as W. rewrite forallb_forall in W. exact (W _ (msg_in_defs g H)). Qed.
Lemma msg_spec g : In g all_msgs -> spec_defb (def_of nas_types g) = true.
Proof. intro H. pose proof all_spec as W. rewrite forallb_forall in W. exact (W _ (msg_in_defs g H)). Qed.

(* the properties, restated on the programs themselves *)
Lemma program_decode_total g bs : In g all_msgs -> is_total (exec_dec nas_types g bs).
Proof. intro H. rewrite (generated_decoder g bs H). apply decode_total. apply msg_wf. exact H. Qed.

Lemma program_roundtrip g m : In g all_msgs -> wf_msgb (def_of nas_types g) m = true ->
  exists bs, exec_enc nas_types g m = Ok bs /\ exec_dec nas_types g bs = Ok m.
Proof.
  intros H Hw. destruct (roundtrip _ m (msg_rt g H) Hw) as (bs & A & B).
  exists bs. rewrite (generated_encoder g m H), (generated_decoder g bs H). split; assumption.
Qed.

Lemma program_reencode_stable g bs m : In g all_msgs -> bytes_ok bs -> exec_dec nas_types g bs = Ok m ->
  exists bs', exec_enc nas_types g m = Ok bs' /\ exec_dec nas_types g bs' = Ok m.
Proof.
  intros H Hb Hd. rewrite (generated_decoder g bs H) in Hd.
  destruct (reencode_stable _ bs m (msg_rt g H) Hb Hd) as (bs' & A & B).
  exists bs'. rewrite (generated_encoder g m H), (generated_decoder g bs' H). split; assumption.
Qed.

Lemma program_decode_is_table_lookup g bs : In g all_msgs -> bytes_ok bs ->
  match exec_dec nas_types g bs with
  | Ok m => spec_decode (abstract (def_of nas_types g)) bs = Ok (proj_msg (def_of nas_types g) m)
  | Err => spec_decode (abstract (def_of nas_types g)) bs = Err
  | _ => False
  end.
Proof. intros H Hb. rewrite (generated_decoder g bs H). apply decode_agrees_with_spec; [apply msg_spec; exact H|exact Hb]. Qed.

Lemma program_format g m : In g all_msgs -> wf_msgb (def_of nas_types g) m = true ->
  exec_enc nas_types g m = Ok (spec_format (abstract (def_of nas_types g)) m).
Proof. intros H Hw. rewrite (generated_encoder g m H). apply format_eq; [apply msg_spec; exact H|exact Hw]. Qed.
