(* Statement-level semantics of the codec statement language (Codec/Lang.v): what each
   transliterated Go statement does to (message fields, ieiN, buffer).  Codec/StmtProofs.v proves
   that the generator template run statement by statement IS decode_def / encode_def, so the
   definition-level semantics (Codec/Sem.v) is derived, and the correspondence runs execute the
   translated programs themselves. *)
From NV Require Import Lib.Base Codec.Lang Codec.Def Codec.Sem.
From Coq Require Import String.
Open Scope N_scope.

Record dstate := mkst { s_fields : msgval; s_iei : N; s_buf : bytes }.

Definition zero_val_sh (sh : tshape) : ieval := mkie 0 0 (repeat 0 (sh_cap sh)).
Definition new_val_sh (sh : tshape) (iei : N) : ieval :=
  if sh_hasiei sh then mkie iei 0 (repeat 0 (sh_cap sh))
  else match sh with
       | ShKnown _ _ TBScalar => mkie 0 0 [(iei mod 16) * 16]
       | _ => zero_val_sh sh
       end.

Fixpoint index_of (s : string) (l : list string) : option nat :=
  match l with
  | [] => None
  | x :: t => if seqb x s then Some O else option_map S (index_of s t)
  end.

Section Exec.
  Variable names : list string.          (* the embedded fields of the message struct, in order *)
  Variable shape_of : string -> tshape.  (* nasType shape of each field *)

  (* a.X.<...>: a nil pointer (absent optional element) or an unknown field panics *)
  Definition with_field (s : string) (st : dstate) (k : nat -> ieval -> outcome dstate) : outcome dstate :=
    match index_of s names with
    | Some i => match nth_error (s_fields st) i with
                | Some (Some v) => k i v
                | _ => Panic
                end
    | None => Panic
    end.

  Definition setf (i : nat) (v : ieval) (st : dstate) : dstate :=
    mkst (set_nth (s_fields st) i (Some v)) (s_iei st) (s_buf st).

  (* binary.Read(buffer, BigEndian, <n octets of field i>) *)
  Definition read_into (st : dstate) (i : nat) (v : ieval) (n : nat) (k : bytes -> bytes) : outcome dstate :=
    match take n (s_buf st) with
    | None => Err
    | Some (x, r) => Ok (mkst (set_nth (s_fields st) i (Some (with_oct v (k x)))) (s_iei st) r)
    end.

  Definition exec_simple (s : dstmt) (st : dstate) : outcome dstate :=
    match s with
    | DRead (TLen x) =>
        with_field x st (fun i v =>
          match take (sh_lenw (shape_of x)) (s_buf st) with
          | None => Err
          | Some (lb, r) => Ok (mkst (set_nth (s_fields st) i (Some (mkie (v_iei v) (be_val lb) (v_oct v)))) (s_iei st) r)
          end)
    | DCheckOr x c => with_field x st (fun _ v => if check_fails (LOr c) (v_len v) then Err else Ok st)
    | DCheckAnd x c => with_field x st (fun _ v => if check_fails (LAnd c) (v_len v) then Err else Ok st)
    | DSetLen x =>
        with_field x st (fun i v =>
          Ok (setf i (if sh_isbuf (shape_of x) then with_oct v (repeat 0 (N.to_nat (v_len v))) else v) st))
    | DRead (TOctet x) => with_field x st (fun i v => read_into st i v 1%nat (fun b => b))
    | DRead (TArrAll x) => with_field x st (fun i v => read_into st i v (sh_cap (shape_of x)) (fun b => b))
    | DRead (TArrN x n) =>
        with_field x st (fun i v =>
          if Nat.ltb (sh_cap (shape_of x)) (N.to_nat n) then Panic
          else read_into st i v (N.to_nat n) (fun b => b ++ skipn (N.to_nat n) (v_oct v)))
    | DRead (TArrLen x) =>
        with_field x st (fun i v =>
          if Nat.ltb (sh_cap (shape_of x)) (N.to_nat (v_len v)) then Panic
          else read_into st i v (N.to_nat (v_len v)) (fun b => b ++ skipn (N.to_nat (v_len v)) (v_oct v)))
    | DRead (TBuf x) => with_field x st (fun i v => read_into st i v (List.length (v_oct v)) (fun b => b))
    | DRead (TStruct x) => with_field x st (fun _ _ => Ok st)
    | DRead TIei => Panic                 (* only as the loop prologue *)
    | DOctetFromIei x => with_field x st (fun i v => Ok (setf i (with_oct v [s_iei st]) st))
    | DNew x _ =>
        match index_of x names with
        | Some i => if Nat.ltb i (List.length (s_fields st))
                    then Ok (setf i (new_val_sh (shape_of x) (s_iei st)) st) else Panic
        | None => Panic
        end
    | DCheckBufLen x =>
        with_field x st (fun _ v => if N.of_nat (List.length (v_oct v)) =? v_len v then Ok st else Err)
    | DLoop _ | DRetNil | DUnknown => Panic
    end.

  Fixpoint exec_body (l : list dstmt) (st : dstate) : outcome dstate :=
    match l with
    | [] => Ok st
    | s :: t => st' <- exec_simple s st ;; exec_body t st'
    end.

  (* for buffer.Len() > 0 { read ieiN; classify; switch { case c: body; default: } } *)
  Fixpoint exec_loop (fuel : nat) (cases : list (N * list dstmt)) (st : dstate) : outcome dstate :=
    match s_buf st with
    | [] => Ok st
    | b :: rest =>
        match fuel with
        | O => OutOfFuel
        | S f =>
            let st1 := mkst (s_fields st) b rest in
            match find (fun c => fst c =? classify b) cases with
            | None => exec_loop f cases st1
            | Some (_, body) => st2 <- exec_body body st1 ;; exec_loop f cases st2
            end
        end
    end.

  (* the loop runs while octets remain and every iteration consumes one: |buffer|+1 is enough fuel
     (StmtProofs: the result is never OutOfFuel on the generator's template) *)
  Fixpoint exec_top (l : list dstmt) (st : dstate) : outcome dstate :=
    match l with
    | [] => Panic                          (* a function body without a return does not compile *)
    | DRetNil :: _ => Ok st
    | DLoop cases :: t => st' <- exec_loop (S (List.length (s_buf st))) cases st ;; exec_top t st'
    | s :: t => st' <- exec_simple s st ;; exec_top t st'
    end.
End Exec.

(* the whole decoder of a transliterated message: a fresh struct, then the statements *)
Definition shape_in (types : list (string * tshape * ctor_kind)) (s : string) : tshape := fst (lookup_type types s).

Definition init_fields (types : list (string * tshape * ctor_kind)) (fields : list (string * bool)) : msgval :=
  map (fun f : string * bool => if snd f then Some (zero_val_sh (shape_in types (fst f))) else None) fields.

Definition exec_dec (types : list (string * tshape * ctor_kind)) (g : gmsg) (bs : bytes) : outcome msgval :=
  if (g_dec_prologue g && g_new_ok g)%bool then
    st <- exec_top (map fst (g_fields g)) (shape_in types) (g_dec g)
                   (mkst (init_fields types (g_fields g)) 0 bs) ;;
    Ok (s_fields st)
  else Panic.

(* ---------- encoder ---------- *)
Section ExecEnc.
  Variable names : list string.
  Variable shape_of : string -> tshape.
  Variable m : msgval.

  Definition field_of (s : string) : option ieval :=
    match index_of s names with
    | Some i => match nth_error m i with Some (Some v) => Some v | _ => None end
    | None => None
    end.

  (* binary.Write(buffer, BigEndian, src) *)
  Definition src_bytes (src : source) : outcome bytes :=
    let on (s : string) (k : ieval -> outcome bytes) :=
      match field_of s with Some v => k v | None => Panic end in
    match src with
    | SOctet s => on s (fun v => Ok (firstn 1 (v_oct v)))
    | SGetLen s => on s (fun v => Ok (be_bytes (sh_lenw (shape_of s)) (v_len v)))
    | SGetIei s => on s (fun v => Ok [v_iei v])
    | SArrAll s | SBuf s => on s (fun v => Ok (v_oct v))
    | SArrN s n => on s (fun v => if Nat.ltb (sh_cap (shape_of s)) (N.to_nat n) then Panic
                                  else Ok (firstn (N.to_nat n) (v_oct v)))
    | SArrLen s => on s (fun v => if Nat.ltb (sh_cap (shape_of s)) (N.to_nat (v_len v)) then Panic
                                  else Ok (firstn (N.to_nat (v_len v)) (v_oct v)))
    | SStruct s => on s (fun _ => Ok [])
    end.

  Fixpoint exec_writes (l : list estmt) (out : bytes) : outcome bytes :=
    match l with
    | [] => Ok out
    | EWrite src :: t => b <- src_bytes src ;; exec_writes t (out ++ b)
    | _ :: _ => Panic
    end.

  Fixpoint exec_enc_top (l : list estmt) (out : bytes) : outcome bytes :=
    match l with
    | [] => Panic
    | ERetNil :: _ => Ok out
    | EWrite src :: t => b <- src_bytes src ;; exec_enc_top t (out ++ b)
    | EIfPresent s body :: t =>
        match index_of s names with
        | Some i => match nth_error m i with
                    | Some (Some _) => out' <- exec_writes body out ;; exec_enc_top t out'
                    | Some None => exec_enc_top t out
                    | None => Panic
                    end
        | None => Panic
        end
    | EUnknown :: _ => Panic
    end.
End ExecEnc.

Definition exec_enc (types : list (string * tshape * ctor_kind)) (g : gmsg) (m : msgval) : outcome bytes :=
  if Nat.eqb (List.length m) (List.length (g_fields g))
  then exec_enc_top (map fst (g_fields g)) (shape_in types) m (g_enc g) []
  else Panic.
