(* C01: decoding any byte string with a well-formed definition returns a message or an
   error: no panic (Octet[:Len] out of range), no non-termination. *)
From NV Require Import Lib.Base Codec.Lang Codec.Def Codec.Sem.
From Coq Require Import String ZifyN ZifyNat ZifyBool.
Open Scope N_scope.

(* an upper bound on the declared lengths that pass the check *)
Definition atom_max (a : cmp * N) : option N :=
  match fst a with CGt | CNe => Some (snd a) | CLt => None end.

Fixpoint min_opt (l : list (option N)) : option N :=
  match l with
  | [] => None
  | None :: t => min_opt t
  | Some x :: t => match min_opt t with None => Some x | Some y => Some (N.min x y) end
  end.

Definition max_allowed (c : lcheck) : option N :=
  match c with
  | LNone => None
  | LOr l => min_opt (map atom_max l)
  | LAnd l =>
      (* passes iff it equals one of the values (all atoms must be CNe) *)
      if forallb (fun a => match fst a with CNe => true | _ => false end) l
      then Some (fold_right (fun a m => N.max (snd a) m) 0 l) else None
  end.

Lemma min_opt_le l x m :
  In (Some x) l -> min_opt l = Some m -> m <= x.
Proof.
  revert m. induction l as [|o t IH]; intros m Hin Hm; [destruct Hin|].
  cbn [min_opt] in Hm. destruct Hin as [->|Hin].
  - destruct (min_opt t) as [y|]; inversion Hm; subst; lia.
  - destruct o as [z|].
    + destruct (min_opt t) as [y|] eqn:E.
      * inversion Hm; subst. specialize (IH y Hin eq_refl). lia.
      * exfalso. clear -Hin E. induction t as [|[w|] t IHt]; cbn in *; try destruct Hin as [H|H];
          try discriminate; try (destruct (min_opt t); discriminate); auto.
    + apply IH; assumption.
Qed.

Lemma max_allowed_sound c len mx :
  check_fails c len = false -> max_allowed c = Some mx -> len <= mx.
Proof.
  destruct c as [|l|l]; cbn [check_fails max_allowed]; intros Hc Hm; try discriminate.
  - (* some atom bounds it: every atom is false *)
    assert (Hall : forall a, In a l -> atom_true len a = false).
    { intros a Ha. destruct (atom_true len a) eqn:E; [|reflexivity].
      assert (existsb (atom_true len) l = true) by (apply existsb_exists; eauto). congruence. }
    clear Hc. revert mx Hm. induction l as [|a t IH]; intros mx Hm; [discriminate|].
    cbn [map min_opt] in Hm.
    assert (Ha := Hall a (or_introl eq_refl)).
    destruct a as [op n]. unfold atom_true in Ha; cbn [fst snd] in Ha.
    destruct op; cbn [atom_max fst snd] in Hm; cbn [fst snd] in Ha.
    + apply IH; [intros; apply Hall; right; assumption|exact Hm].
    + destruct (min_opt (map atom_max t)) as [y|] eqn:E; inversion Hm; subst.
      * specialize (IH (fun a Hin => Hall a (or_intror Hin)) y eq_refl). lia.
      * lia.
    + destruct (min_opt (map atom_max t)) as [y|] eqn:E; inversion Hm; subst.
      * specialize (IH (fun a Hin => Hall a (or_intror Hin)) y eq_refl). lia.
      * lia.
  - destruct (forallb (fun a => match fst a with CNe => true | _ => false end) l) eqn:Hne; [|discriminate].
    inversion Hm; subst. clear Hm.
    (* not all atoms true: some CNe atom is false, i.e. len equals its value *)
    induction l as [|a t IH]; cbn [forallb] in *; [discriminate|].
    apply andb_true_iff in Hne as [Ha Ht].
    destruct a as [op n]. cbn [fst] in Ha. destruct op; try discriminate.
    cbn [fold_right snd].
    destruct (atom_true len (CNe, n)) eqn:E; cbn [andb] in Hc.
    + specialize (IH Hc Ht). lia.
    + unfold atom_true in E; cbn in E. lia.
Qed.

Definition slot_wfb (sd : slotdef) : bool :=
  let cap := sh_cap (sd_shape sd) in
  match sd_shape sd with ShUnknown => false | ShKnown _ w _ =>
    (if sd_haslen sd then (Nat.eqb w 1 || Nat.eqb w 2) else true) &&
    match sd_val sd with
    | VNone => false
    | VArrN n => Nat.leb (N.to_nat n) cap
    | VArrLen =>
        sd_haslen sd &&
        match max_allowed (sd_check sd) with
        | Some mx => N.to_nat mx <=? cap
        | None => false
        end%nat
    | _ => true
    end
  end.

Definition wf_defb (d : msgdef) : bool := forallb slot_wfb d.

(* ---- single slot ---- *)

Lemma take_length n bs x rest : take n bs = Some (x, rest) ->
  List.length x = n /\ List.length rest = (List.length bs - n)%nat /\ bs = x ++ rest.
Proof.
  unfold take. destruct (Nat.ltb_spec (List.length bs) n) as [Hlt|Hge]; intro H; inversion H; subst.
  rewrite firstn_length, skipn_length, firstn_skipn. repeat split; lia.
Qed.

Lemma dec_len_total sd v bs : is_total (dec_len sd v bs).
Proof.
  unfold dec_len. destruct (sd_haslen sd); [|exact I].
  destruct (take _ bs) as [[lb rest]|]; [|exact I].
  destruct (check_fails _ _); exact I.
Qed.

Lemma dec_len_shrinks sd v bs v' rest :
  dec_len sd v bs = Ok (v', rest) -> (List.length rest <= List.length bs)%nat.
Proof.
  unfold dec_len. destruct (sd_haslen sd); [|intro H; inversion H; subst; lia].
  destruct (take _ bs) as [[lb r]|] eqn:E; [|discriminate].
  destruct (check_fails _ _); [discriminate|]. intro H; inversion H; subst.
  apply take_length in E. lia.
Qed.

(* after the length step of a slot that transmits a length, Len passed the check *)
Lemma dec_len_checked sd v bs v' rest :
  sd_haslen sd = true -> dec_len sd v bs = Ok (v', rest) ->
  check_fails (sd_check sd) (v_len v') = false.
Proof.
  intros Hl. unfold dec_len. rewrite Hl.
  destruct (take _ bs) as [[lb r]|]; [|discriminate].
  destruct (check_fails _ _) eqn:E; [discriminate|]. intro H; inversion H; subst. exact E.
Qed.

Lemma dec_val_shrinks sd iei v bs v' rest :
  dec_val sd iei v bs = Ok (v', rest) -> (List.length rest <= List.length bs)%nat.
Proof.
  unfold dec_val.
  destruct (sd_val sd); try (intro H; inversion H; subst; lia);
    repeat match goal with
    | |- context [if ?c then _ else _] => destruct c; try discriminate
    end;
    match goal with |- context [take ?n bs] => destruct (take n bs) as [[x r]|] eqn:E; [|discriminate] end;
    intro H; inversion H; subst; apply take_length in E; lia.
Qed.

Lemma dec_slot_total sd iei v bs : slot_wfb sd = true -> is_total (dec_slot sd iei v bs).
Proof.
  intro Hwf. unfold dec_slot.
  pose proof (dec_len_total sd v bs) as Ht.
  destruct (dec_len sd v bs) as [[v' rest]| | |] eqn:El; try exact Ht; try exact I. cbn [obind fst snd].
  unfold slot_wfb in Hwf. destruct (sd_shape sd) as [hi w b|] eqn:Esh; [|discriminate].
  apply andb_true_iff in Hwf as [_ Hv].
  unfold dec_val. rewrite Esh.
  destruct (sd_val sd) eqn:Ev; try discriminate;
    try (match goal with |- context [take ?n rest] => destruct (take n rest) as [[x r]|] end; exact I);
    try exact I.
  - (* VArrN *)
    rewrite <- Esh. apply Nat.leb_le in Hv.
    destruct (Nat.ltb_spec (sh_cap (sd_shape sd)) (N.to_nat n)); [rewrite Esh in *; lia|].
    destruct (take _ rest) as [[x r]|]; exact I.
  - (* VArrLen *)
    apply andb_true_iff in Hv as [Hl Hm].
    destruct (max_allowed (sd_check sd)) as [mx|] eqn:Em; [|discriminate].
    apply Nat.leb_le in Hm.
    pose proof (dec_len_checked sd v bs v' rest Hl El) as Hc.
    pose proof (max_allowed_sound _ _ _ Hc Em) as Hle.
    rewrite <- Esh.
    destruct (Nat.ltb_spec (sh_cap (sd_shape sd)) (N.to_nat (v_len v'))); [rewrite Esh in *; lia|].
    destruct (take _ rest) as [[x r]|]; exact I.
Qed.

Lemma dec_slot_shrinks sd iei v bs v' rest :
  dec_slot sd iei v bs = Ok (v', rest) -> (List.length rest <= List.length bs)%nat.
Proof.
  unfold dec_slot. destruct (dec_len sd v bs) as [[v1 r1]| | |] eqn:E; try discriminate.
  cbn [obind fst snd]. intro H. apply dec_val_shrinks in H. apply dec_len_shrinks in E. lia.
Qed.

(* ---- mandatory part ---- *)

Lemma dec_mand_total d bs : wf_defb d = true -> is_total (dec_mand d bs).
Proof.
  revert bs. induction d as [|sd t IH]; intros bs Hwf; [exact I|].
  cbn [wf_defb forallb] in Hwf. apply andb_true_iff in Hwf as [Hs Ht].
  cbn [dec_mand]. destruct (sd_mand sd).
  - pose proof (dec_slot_total sd 0 (zero_val sd) bs Hs) as H1.
    destruct (dec_slot sd 0 (zero_val sd) bs) as [[v r]| | |]; try exact H1; try exact I. cbn [obind fst snd].
    pose proof (IH r Ht) as H2. destruct (dec_mand t r) as [[m r']| | |]; try exact H2; exact I.
  - pose proof (IH bs Ht) as H2. destruct (dec_mand t bs) as [[m r']| | |]; try exact H2; exact I.
Qed.

(* ---- optional part ---- *)

Lemma find_opt_in d t i j sd : find_opt d t i = Some (j, sd) -> In sd d.
Proof.
  revert i. induction d as [|x r IH]; intros i H; [discriminate|].
  cbn [find_opt] in H. destruct (negb (sd_mand x) && (sd_iei x =? t))%bool.
  - inversion H; subst. left; reflexivity.
  - right. eapply IH; eassumption.
Qed.

Lemma dec_loop_total d : wf_defb d = true ->
  forall fuel m bs, (List.length bs < fuel)%nat -> is_total (dec_loop fuel d m bs).
Proof.
  intro Hwf. induction fuel as [|f IH]; intros m bs Hf; [lia|].
  destruct bs as [|b rest]; [exact I|]. cbn [dec_loop].
  cbn [List.length] in Hf.
  destruct (find_opt d (classify b) 0) as [[i sd]|] eqn:Ef.
  - assert (Hs : slot_wfb sd = true).
    { unfold wf_defb in Hwf. rewrite forallb_forall in Hwf. apply Hwf. eapply find_opt_in; eassumption. }
    pose proof (dec_slot_total sd b (new_val sd b) rest Hs) as H1.
    destruct (dec_slot sd b (new_val sd b) rest) as [[v r]| | |] eqn:E; try exact H1; try exact I.
    cbn [obind fst snd]. apply dec_slot_shrinks in E. apply IH. lia.
  - apply IH. lia.
Qed.

Lemma dec_mand_shrinks d bs m rest :
  dec_mand d bs = Ok (m, rest) -> (List.length rest <= List.length bs)%nat.
Proof.
  revert bs m rest. induction d as [|sd t IH]; intros bs m rest H; cbn [dec_mand] in H.
  - inversion H; subst. lia.
  - destruct (sd_mand sd).
    + destruct (dec_slot sd 0 (zero_val sd) bs) as [[v r]| | |] eqn:E; try discriminate. cbn [obind fst snd] in H.
      destruct (dec_mand t r) as [[m' r']| | |] eqn:E2; try discriminate. cbn [obind fst snd] in H.
      inversion H; subst. apply dec_slot_shrinks in E. apply IH in E2. lia.
    + destruct (dec_mand t bs) as [[m' r']| | |] eqn:E2; try discriminate. cbn [obind fst snd] in H.
      inversion H; subst. apply IH in E2. lia.
Qed.

Theorem decode_total d bs : wf_defb d = true -> is_total (decode_def d bs).
Proof.
  intro Hwf. unfold decode_def.
  pose proof (dec_mand_total d bs Hwf) as H1.
  destruct (dec_mand d bs) as [[m rest]| | |]; try exact H1; try exact I. cbn [obind fst snd].
  apply dec_loop_total; [assumption|lia].
Qed.
