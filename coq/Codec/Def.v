(* Message definitions: extracted from the transliterated decoder by simple lookups,
   then the canonical decoder / encoder is REGENERATED from the definition (a Coq
   re-statement of internal/tools/generator/nas_message.go) and compared with the
   transliterated programs.  Equality means: the Go functions are exactly the
   generator's template instantiated on this definition. *)
From NV Require Import Lib.Base Codec.Lang.
From Coq Require Import String.
Open Scope N_scope.

Inductive vform :=
| VOctet                (* Octet uint8, one octet *)
| VArrAll               (* Octet[:]  -- the whole array *)
| VArrN (n : N)         (* Octet[:n] *)
| VArrLen               (* Octet[:Len] *)
| VBuf                  (* Buffer (allocated by SetLen) *)
| VStruct               (* &a.X : struct{} *)
| VHalf                 (* a.X.Octet = ieiN *)
| VNone.                (* not found *)

Inductive lcheck := LNone | LOr (c : list (cmp * N)) | LAnd (c : list (cmp * N)).

Record slotdef := mkslot {
  sd_name : string;
  sd_mand : bool;
  sd_iei : N;             (* case constant; 0 for mandatory slots *)
  sd_haslen : bool;       (* a length field is transmitted *)
  sd_check : lcheck;
  sd_val : vform;
  sd_buflen_check : bool; (* the dead `len(Buffer) != int(Len)` check is present *)
  sd_shape : tshape;
  sd_ctor : ctor_kind }.

Definition msgdef := list slotdef.

Definition target_slot (t : target) : option string :=
  match t with
  | TIei => None
  | TOctet s | TLen s | TArrAll s | TArrN s _ | TArrLen s | TBuf s | TStruct s => Some s
  end.

Definition seqb (a b : string) : bool := String.eqb a b.

(* flatten: all statements, including those inside the loop cases, tagged with the case constant *)
Fixpoint flat (l : list dstmt) : list (option N * dstmt) :=
  match l with
  | [] => []
  | DLoop cases :: t =>
      flat_map (fun c => map (fun s => (Some (fst c), s)) (snd c)) cases ++ flat t
  | s :: t => (None, s) :: flat t
  end.

Definition find_val (s : string) (fl : list (option N * dstmt)) : vform :=
  match find (fun p => match snd p with
                       | DRead (TOctet x) | DRead (TArrAll x) | DRead (TArrN x _) | DRead (TArrLen x)
                       | DRead (TBuf x) | DRead (TStruct x) | DOctetFromIei x => seqb x s
                       | _ => false end) fl with
  | Some (_, DRead (TOctet _)) => VOctet
  | Some (_, DRead (TArrAll _)) => VArrAll
  | Some (_, DRead (TArrN _ n)) => VArrN n
  | Some (_, DRead (TArrLen _)) => VArrLen
  | Some (_, DRead (TBuf _)) => VBuf
  | Some (_, DRead (TStruct _)) => VStruct
  | Some (_, DOctetFromIei _) => VHalf
  | _ => VNone
  end.

Definition find_haslen (s : string) (fl : list (option N * dstmt)) : bool :=
  existsb (fun p => match snd p with DRead (TLen x) => seqb x s | _ => false end) fl.

Definition find_check (s : string) (fl : list (option N * dstmt)) : lcheck :=
  match find (fun p => match snd p with
                       | DCheckOr x _ | DCheckAnd x _ => seqb x s | _ => false end) fl with
  | Some (_, DCheckOr _ c) => LOr c
  | Some (_, DCheckAnd _ c) => LAnd c
  | _ => LNone
  end.

Definition find_buflen (s : string) (fl : list (option N * dstmt)) : bool :=
  existsb (fun p => match snd p with DCheckBufLen x => seqb x s | _ => false end) fl.

Definition find_iei (s : string) (fl : list (option N * dstmt)) : N :=
  match find (fun p => match snd p with DNew x _ => seqb x s | _ => false end) fl with
  | Some (Some n, _) => n
  | _ => 0
  end.

Definition lookup_type (types : list (string * tshape * ctor_kind)) (s : string) : tshape * ctor_kind :=
  match find (fun e => seqb (fst (fst e)) s) types with
  | Some (_, sh, c) => (sh, c)
  | None => (ShUnknown, CtorUnknown)
  end.

Definition def_of (types : list (string * tshape * ctor_kind)) (g : gmsg) : msgdef :=
  let fl := flat (g_dec g) in
  map (fun f =>
    let s := fst f in
    let '(sh, ct) := lookup_type types s in
    mkslot s (snd f) (if snd f then 0 else find_iei s fl) (find_haslen s fl) (find_check s fl)
           (find_val s fl) (find_buflen s fl) sh ct) (g_fields g).

(* ---------- the generator's templates ---------- *)

Definition canon_dec_value (d : slotdef) : list dstmt :=
  let s := sd_name d in
  (if sd_haslen d
   then [DRead (TLen s)] ++
        match sd_check d with LNone => [] | LOr c => [DCheckOr s c] | LAnd c => [DCheckAnd s c] end ++
        [DSetLen s]
   else []) ++
  match sd_val d with
  | VOctet => [DRead (TOctet s)]
  | VArrAll => [DRead (TArrAll s)]
  | VArrN n => [DRead (TArrN s n)]
  | VArrLen => [DRead (TArrLen s)]
  | VBuf => [DRead (TBuf s)]
  | VStruct => [DRead (TStruct s)]
  | VHalf => [DOctetFromIei s]
  | VNone => [DUnknown]
  end ++
  (if sd_buflen_check d then [DCheckBufLen s] else []).

Definition canon_dec (d : msgdef) : list dstmt :=
  flat_map canon_dec_value (filter sd_mand d) ++
  [DLoop (map (fun sd => (sd_iei sd, DNew (sd_name sd) ("New" ++ sd_name sd) :: canon_dec_value sd))
              (filter (fun sd => negb (sd_mand sd)) d));
   DRetNil].

Definition canon_enc_value (d : slotdef) : list estmt :=
  let s := sd_name d in
  (if sd_haslen d then [EWrite (SGetLen s)] else []) ++
  match sd_val d with
  | VOctet | VHalf => [EWrite (SOctet s)]
  | VArrAll => [EWrite (SArrAll s)]
  | VArrN n => [EWrite (SArrN s n)]
  | VArrLen => [EWrite (SArrLen s)]
  | VBuf => [EWrite (SBuf s)]
  | VStruct => [EWrite (SStruct s)]
  | VNone => [EUnknown]
  end.

Definition canon_enc (d : msgdef) : list estmt :=
  flat_map canon_enc_value (filter sd_mand d) ++
  map (fun sd => EIfPresent (sd_name sd)
                   ((if 16 <=? sd_iei sd then [EWrite (SGetIei (sd_name sd))] else []) ++ canon_enc_value sd))
      (filter (fun sd => negb (sd_mand sd)) d) ++
  [ERetNil].

(* ---------- decidable equality of programs ---------- *)

Definition target_eqb (a b : target) : bool :=
  match a, b with
  | TIei, TIei => true
  | TOctet x, TOctet y | TLen x, TLen y | TArrAll x, TArrAll y | TArrLen x, TArrLen y
  | TBuf x, TBuf y | TStruct x, TStruct y => seqb x y
  | TArrN x n, TArrN y m => seqb x y && (n =? m)
  | _, _ => false
  end.

Definition cmp_eqb (a b : cmp) : bool :=
  match a, b with CLt, CLt | CGt, CGt | CNe, CNe => true | _, _ => false end.

Definition conds_eqb (a b : list (cmp * N)) : bool :=
  eqb_list (fun p q => cmp_eqb (fst p) (fst q) && (snd p =? snd q)) a b.

Fixpoint dstmt_eqb (a b : dstmt) : bool :=
  match a, b with
  | DRead t, DRead u => target_eqb t u
  | DCheckOr x c, DCheckOr y c' | DCheckAnd x c, DCheckAnd y c' => seqb x y && conds_eqb c c'
  | DSetLen x, DSetLen y | DOctetFromIei x, DOctetFromIei y | DCheckBufLen x, DCheckBufLen y => seqb x y
  | DNew x c, DNew y c' => seqb x y && seqb c c'
  | DLoop cs, DLoop cs' =>
      (fix cases_eqb (l l' : list (N * list dstmt)) : bool :=
         match l, l' with
         | [], [] => true
         | (n, body) :: t, (n', body') :: t' =>
             (n =? n') &&
             (fix body_eqb (p p' : list dstmt) : bool :=
                match p, p' with
                | [], [] => true
                | x :: q, x' :: q' => dstmt_eqb x x' && body_eqb q q'
                | _, _ => false
                end) body body' && cases_eqb t t'
         | _, _ => false
         end) cs cs'
  | DRetNil, DRetNil => true
  | _, _ => false          (* DUnknown is equal to nothing, not even itself *)
  end.

Definition source_eqb (a b : source) : bool :=
  match a, b with
  | SOctet x, SOctet y | SGetLen x, SGetLen y | SGetIei x, SGetIei y | SArrAll x, SArrAll y
  | SArrLen x, SArrLen y | SBuf x, SBuf y | SStruct x, SStruct y => seqb x y
  | SArrN x n, SArrN y m => seqb x y && (n =? m)
  | _, _ => false
  end.

Fixpoint estmt_eqb (a b : estmt) : bool :=
  match a, b with
  | EWrite s, EWrite t => source_eqb s t
  | EIfPresent x body, EIfPresent y body' =>
      seqb x y &&
      (fix body_eqb (p p' : list estmt) : bool :=
         match p, p' with
         | [], [] => true
         | u :: q, u' :: q' => estmt_eqb u u' && body_eqb q q'
         | _, _ => false
         end) body body'
  | ERetNil, ERetNil => true
  | _, _ => false
  end.

(* the transliterated functions are exactly the templates instantiated on the extracted definition *)
Definition canon_ok (types : list (string * tshape * ctor_kind)) (g : gmsg) : bool :=
  let d := def_of types g in
  g_dec_prologue g && g_new_ok g &&
  eqb_list dstmt_eqb (g_dec g) (canon_dec d) &&
  eqb_list estmt_eqb (g_enc g) (canon_enc d).
