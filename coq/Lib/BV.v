(* BV: a small typed bit-vector expression / straight-line statement language.
   tools/go2coq transliterates the bodies of the nasType accessors,
   GetBitMask and security/counter.go into it; all meaning is given here. *)
From NV Require Import Lib.Base.
From Coq Require String.
Notation string := String.string.
Open Scope N_scope.

Inductive ty := U8 | U16 | U32 | U64.
Definition tbits (t : ty) : N :=
  match t with U8 => 8 | U16 => 16 | U32 => 32 | U64 => 64 end.
Definition wrap (t : ty) (n : N) : N := n mod 2 ^ tbits t.

Inductive binop := OAnd | OOr | OXor | OAdd | OSub | OShl | OShr | OAndNot.
Inductive fld := FIei | FLen | FCount.

Inductive expr :=
| EConst (t : ty) (n : N)             (* a Go constant, already typed by go/types *)
| EParam (k : nat) (t : ty)           (* k-th value parameter *)
| EOct (i : nat)                      (* a.Octet[i] / a.Buffer[i]; a.Octet (scalar) is i = 0 *)
| EFld (f : fld)                      (* a.Iei, a.Len, counter.count *)
| EBin (op : binop) (t : ty) (a b : expr) (* Go binary operator whose result type is t *)
| ECast (t : ty) (e : expr)           (* uint8(e), uint16(e), ... *)
| EMask (a b : expr)                  (* GetBitMask(a, b) *)
| EUnknown.                           (* anything the translator does not know: evaluates to Panic *)

(* machine state of one element / counter value *)
Record st := mkst { s_iei : N; s_len : N; s_oct : bytes; s_cnt : N }.

Definition getf (s : st) (f : fld) : N :=
  match f with FIei => s_iei s | FLen => s_len s | FCount => s_cnt s end.
Definition setf (s : st) (f : fld) (v : N) : st :=
  match f with
  | FIei => mkst v (s_len s) (s_oct s) (s_cnt s)
  | FLen => mkst (s_iei s) v (s_oct s) (s_cnt s)
  | FCount => mkst (s_iei s) (s_len s) (s_oct s) v
  end.
Definition seto (s : st) (o : bytes) : st := mkst (s_iei s) (s_len s) o (s_cnt s).

(* Go arithmetic on unsigned types: operate on naturals, wrap to the type.
   Shifts: count taken as a natural number; a left shift by >= width gives 0
   after wrapping, a right shift by >= width gives 0. *)
Definition binop_sem (op : binop) (t : ty) (x y : N) : N :=
  match op with
  | OAnd => N.land x y
  | OOr => N.lor x y
  | OXor => N.lxor x y
  | OAdd => wrap t (x + y)
  | OSub => wrap t (x + 2 ^ tbits t - wrap t y)
  | OShl => wrap t (N.shiftl x y)
  | OShr => N.shiftr x y
  | OAndNot => N.land x (wrap t (N.lnot y (tbits t)))
  end.

(* [call] gives the meaning of GetBitMask(x, y) *)
Fixpoint eval_gen (call : N -> N -> outcome N) (s : st) (ps : list N) (e : expr) : outcome N :=
  match e with
  | EConst t n => Ok (wrap t n)
  | EParam k t => match nth_error ps k with Some v => Ok (wrap t v) | None => Panic end
  | EOct i => idx (s_oct s) i
  | EFld f => Ok (getf s f)
  | EBin op t a b =>
      x <- eval_gen call s ps a ;; y <- eval_gen call s ps b ;; Ok (binop_sem op t x y)
  | ECast t a => x <- eval_gen call s ps a ;; Ok (wrap t x)
  | EMask a b =>
      x <- eval_gen call s ps a ;; y <- eval_gen call s ps b ;; call x y
  | EUnknown => Panic
  end.

(* [mask_body]: body of GetBitMask over parameters 0 (ub) and 1 (lb); it must not
   itself call GetBitMask (a nested call evaluates to OutOfFuel). *)
Definition eval (mask_body : expr) (s : st) (ps : list N) (e : expr) : outcome N :=
  eval_gen (fun x y => eval_gen (fun _ _ => OutOfFuel) s [x; y] mask_body) s ps e.


Inductive stmt :=
| SSetOct (i : nat) (e : expr)          (* a.Octet[i] = e  (a.Octet = e is i = 0) *)
| SSetFld (f : fld) (e : expr)          (* a.Iei = e *)
| SRet (e : expr)                       (* return e *)
| SCallM (m : string) (args : list expr) (* receiver.m(args) *)
| SMakeBuf (e : expr)                   (* a.Buffer = make([]uint8, e) *)
| SCopyIn (lo : nat) (hi : option nat)  (* copy(a.X[lo:hi], p) ; hi = None: to the end *)
| SUnknown                              (* anything else: executes to Panic *)
| SRetCopy (lo : nat) (hi : option nat) (n : option nat).
    (* result := fresh array [n]uint8 (Some n) or make([]uint8, len(a.Buffer)-lo) (None);
       copy(result, a.X[lo:hi]); return result *)

Inductive retv := RNone | RVal (v : N) | RBytes (b : bytes).

(* copy(dst[lo:hi], src): overwrites min(hi-lo, |src|) octets starting at lo *)
Fixpoint copy_at (dst : bytes) (lo : nat) (src : bytes) (room : nat) : bytes :=
  match lo, dst with
  | S l, d :: t => d :: copy_at t l src room
  | S _, [] => []
  | O, _ =>
      match room, src, dst with
      | S r, x :: src', _ :: t => x :: copy_at t O src' r
      | _, _, _ => dst
      end
  end.

Section Exec.
  Variable mask_body : expr.
  Variable methods : string -> option (list stmt).

  Definition eval1 := eval mask_body.

  Fixpoint eval_args (s : st) (ps : list N) (es : list expr) : outcome (list N) :=
    match es with
    | [] => Ok []
    | e :: t => v <- eval1 s ps e ;; vs <- eval_args s ps t ;; Ok (v :: vs)
    end.

  (* [pbytes]: the byte-slice / array parameter of copy-style setters.
     Outer recursion on [fuel] (method-call depth), inner on the statement list. *)
  Fixpoint exec (fuel : nat) : st -> list N -> bytes -> list stmt -> outcome (st * retv) :=
    fix go (s : st) (ps : list N) (pbytes : bytes) (body : list stmt) {struct body}
      : outcome (st * retv) :=
    match body with
    | [] => Ok (s, RNone)
    | c :: rest =>
        match c with
        | SSetOct i e =>
            v <- eval1 s ps e ;;
            if Nat.ltb i (length (s_oct s))
            then go (seto s (upd (s_oct s) i v)) ps pbytes rest
            else Panic
        | SSetFld f e =>
            v <- eval1 s ps e ;; go (setf s f v) ps pbytes rest
        | SRet e => v <- eval1 s ps e ;; Ok (s, RVal v)
        | SCallM m args =>
            match fuel with
            | O => OutOfFuel
            | S f =>
                match methods m with
                | None => Panic
                | Some b =>
                    vs <- eval_args s ps args ;;
                    r <- exec f s vs [] b ;;
                    go (fst r) ps pbytes rest
                end
            end
        | SMakeBuf e =>
            v <- eval1 s ps e ;;
            go (seto s (repeat 0 (N.to_nat v))) ps pbytes rest
        | SCopyIn lo hi =>
            let o := s_oct s in
            let h := match hi with Some h => h | None => length o end in
            if (Nat.leb lo h && Nat.leb h (length o))%bool
            then go (seto s (copy_at o lo pbytes (h - lo))) ps pbytes rest
            else Panic
        | SUnknown => Panic
        | SRetCopy lo hi n =>
            let o := s_oct s in
            let h := match hi with Some h => h | None => length o end in
            if (Nat.leb lo h && Nat.leb h (length o))%bool
            then
              let src := firstn (h - lo) (skipn lo o) in
              let dlen := match n with Some n => n | None => (length o - lo)%nat end in
              Ok (s, RBytes (copy_at (repeat 0 dlen) 0 src dlen))
            else Panic
        end
    end.
End Exec.
