(* list facts missing from the 8.16 standard library *)
From Coq Require Import List Arith Lia.
Import ListNotations.

Lemma nth_error_firstn_lt {A} (l : list A) n j : j < n -> nth_error (firstn n l) j = nth_error l j.
Proof.
  revert l j. induction n as [|n IH]; intros l j H; [lia|].
  destruct l as [|x l]; [destruct j; reflexivity|].
  destruct j as [|j]; [reflexivity|]. cbn. apply IH. lia.
Qed.

Lemma nth_error_ext {A} (l l' : list A) : (forall j, nth_error l j = nth_error l' j) -> l = l'.
Proof.
  revert l'. induction l as [|x l IH]; intros [|y l'] H.
  - reflexivity.
  - specialize (H 0). discriminate.
  - specialize (H 0). discriminate.
  - f_equal.
    + specialize (H 0). cbn in H. congruence.
    + apply IH. intro j. exact (H (S j)).
Qed.

Lemma nth_error_ext_firstn {A} (l l' : list A) n :
  (forall j, j < n -> nth_error l j = nth_error l' j) -> firstn n l = firstn n l'.
Proof.
  intro H. apply nth_error_ext. intro j.
  destruct (Nat.lt_ge_cases j n) as [Hj|Hj].
  - rewrite !nth_error_firstn_lt by assumption. auto.
  - transitivity (@None A); [|symmetry]; apply nth_error_None; rewrite firstn_length; lia.
Qed.
