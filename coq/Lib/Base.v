(* Common definitions: bytes, outcomes, Go-style slicing with explicit panics. *)
From Coq Require Export List NArith ZArith Bool Lia.
From Coq Require Import ZifyN ZifyNat ZifyBool.
Export ListNotations.
Open Scope N_scope.

Definition byte := N.
Definition bytes := list N.
Definition is_byte (b : N) : Prop := b < 256.
Definition is_byteb (b : N) : bool := b <? 256.
Definition bytes_ok (l : bytes) : Prop := Forall is_byte l.
Definition bytes_okb (l : bytes) : bool := forallb is_byteb l.

Lemma is_byteb_spec b : is_byteb b = true <-> is_byte b.
Proof. unfold is_byteb, is_byte. rewrite N.ltb_lt. tauto. Qed.

Lemma bytes_okb_spec l : bytes_okb l = true <-> bytes_ok l.
Proof.
  unfold bytes_okb, bytes_ok. rewrite forallb_forall, Forall_forall.
  split; intros H x Hx; apply is_byteb_spec; auto.
Qed.

(* Outcome of running a model of Go code.  Error texts are never modelled:
   [Err] carries nothing.  [Panic] is a Go run-time panic (index / slice out
   of range, nil dereference, negative count), [OutOfFuel] stands for a loop
   that did not finish within the fuel the caller supplied. *)
Inductive outcome (A : Type) : Type :=
| Ok (a : A)
| Err
| Panic
| OutOfFuel.
Arguments Ok {A} a.
Arguments Err {A}.
Arguments Panic {A}.
Arguments OutOfFuel {A}.

Definition obind {A B} (o : outcome A) (f : A -> outcome B) : outcome B :=
  match o with
  | Ok a => f a
  | Err => Err
  | Panic => Panic
  | OutOfFuel => OutOfFuel
  end.
Notation "x <- e ;; f" := (obind e (fun x => f))
  (at level 61, e at next level, right associativity).

Definition omap {A B} (f : A -> B) (o : outcome A) : outcome B :=
  obind o (fun a => Ok (f a)).

Definition is_total {A} (o : outcome A) : Prop :=
  match o with Ok _ | Err => True | Panic | OutOfFuel => False end.
Definition is_totalb {A} (o : outcome A) : bool :=
  match o with Ok _ | Err => true | Panic | OutOfFuel => false end.

(* Go x[i] *)
Definition idx (l : bytes) (i : nat) : outcome N :=
  match nth_error l i with Some b => Ok b | None => Panic end.

(* Go x[a:b] on a slice whose len = cap (every slice the modelled code slices
   was produced by make, a literal, hex decoding or is a function argument that
   the harness passes with len = cap). *)
Definition slice (l : bytes) (a b : nat) : outcome bytes :=
  if (Nat.leb a b && Nat.leb b (length l))%bool
  then Ok (firstn (b - a) (skipn a l)) else Panic.
Definition slice_from (l : bytes) (a : nat) : outcome bytes :=
  slice l a (length l).

Fixpoint upd (l : bytes) (i : nat) (v : N) : bytes :=
  match l, i with
  | [], _ => []
  | _ :: t, O => v :: t
  | h :: t, S j => h :: upd t j v
  end.

Lemma upd_length l i v : length (upd l i v) = length l.
Proof. revert i; induction l as [|h t IH]; intros [|j]; simpl; auto. Qed.

Lemma nth_error_upd_same l i v :
  (i < length l)%nat -> nth_error (upd l i v) i = Some v.
Proof.
  revert i; induction l as [|h t IH]; intros [|j] H; simpl in *; try lia; auto.
  apply IH; lia.
Qed.

Lemma nth_error_upd_other l i j v :
  i <> j -> nth_error (upd l i v) j = nth_error l j.
Proof.
  revert i j; induction l as [|h t IH]; intros [|i] [|j] H; simpl; auto; try congruence.
Qed.

(* big-endian helpers *)
Definition be16 (hi lo : N) : N := hi * 256 + lo.
Definition hi8 (w : N) : N := (w / 256) mod 256.
Definition lo8 (w : N) : N := w mod 256.

Fixpoint be_val (l : bytes) : N :=
  match l with [] => 0 | b :: t => b * 256 ^ N.of_nat (length t) + be_val t end.

Fixpoint eqb_bytes (a b : bytes) : bool :=
  match a, b with
  | [], [] => true
  | x :: a', y :: b' => (x =? y) && eqb_bytes a' b'
  | _, _ => false
  end.

Lemma eqb_bytes_spec a b : eqb_bytes a b = true <-> a = b.
Proof.
  revert b; induction a as [|x a IH]; intros [|y b]; simpl; split; intro H;
    try congruence; auto.
  - apply andb_true_iff in H as [H1 H2]. apply N.eqb_eq in H1. apply IH in H2. congruence.
  - inversion H; subst. rewrite N.eqb_refl. simpl. apply IH; auto.
Qed.

Fixpoint eqb_list {A} (eqb : A -> A -> bool) (a b : list A) : bool :=
  match a, b with
  | [], [] => true
  | x :: a', y :: b' => eqb x y && eqb_list eqb a' b'
  | _, _ => false
  end.

Definition eqb_outcome {A} (eqb : A -> A -> bool) (a b : outcome A) : bool :=
  match a, b with
  | Ok x, Ok y => eqb x y
  | Err, Err => true
  | Panic, Panic => true
  | OutOfFuel, OutOfFuel => true
  | _, _ => false
  end.

Definition repeatN (x : N) (n : nat) : bytes := repeat x n.
