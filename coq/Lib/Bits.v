(* Shift / mask lemmas turning Go's bit operations into div / mod arithmetic. *)
From NV Require Import Lib.Base.
From Coq Require Import ZifyN ZifyNat ZifyBool.
Open Scope N_scope.

Ltac Zify.zify_post_hook ::= Z.div_mod_to_equations.

Lemma land_ones_mod a n : N.land a (N.ones n) = a mod 2 ^ n.
Proof. apply N.land_ones. Qed.

Lemma shiftl_mul a n : N.shiftl a n = a * 2 ^ n.
Proof. apply N.shiftl_mul_pow2. Qed.

Lemma shiftr_div a n : N.shiftr a n = a / 2 ^ n.
Proof. apply N.shiftr_div_pow2. Qed.

(* a & (ones k << n) = ((a >> n) mod 2^k) << n *)
Lemma land_shifted_ones a k n :
  N.land a (N.shiftl (N.ones k) n) = ((a / 2 ^ n) mod 2 ^ k) * 2 ^ n.
Proof.
  rewrite <- shiftl_mul, <- shiftr_div, <- land_ones_mod.
  apply N.bits_inj. intro i.
  rewrite N.land_spec.
  destruct (N.ltb_spec i n) as [Hlt|Hge].
  - rewrite !N.shiftl_spec_low by assumption. apply andb_false_r.
  - rewrite !N.shiftl_spec_high' by assumption.
    rewrite N.land_spec, N.shiftr_spec'.
    replace (i - n + n) with i by lia. reflexivity.
Qed.

Lemma testbit_small a n i : a < 2 ^ n -> n <= i -> N.testbit a i = false.
Proof.
  intros Ha Hi. destruct (N.eq_dec a 0) as [->|Hnz]; [apply N.bits_0|].
  apply N.bits_above_log2.
  apply N.log2_lt_pow2 in Ha; lia.
Qed.

Lemma land_disjoint_0 a b n : b < 2 ^ n -> N.land (a * 2 ^ n) b = 0.
Proof.
  intro Hb. apply N.bits_inj_0. intro i. rewrite N.land_spec.
  destruct (N.ltb_spec i n) as [Hlt|Hge].
  - rewrite N.mul_pow2_bits_low by assumption. reflexivity.
  - rewrite (testbit_small b n i) by assumption. apply andb_false_r.
Qed.

(* disjoint "or" is "+" *)
Lemma lor_disjoint_add a b n : b < 2 ^ n -> N.lor (a * 2 ^ n) b = a * 2 ^ n + b.
Proof.
  intro Hb.
  pose proof (land_disjoint_0 a b n Hb) as H0.
  rewrite <- N.lxor_lor by assumption.
  symmetry. apply N.add_nocarry_lxor. assumption.
Qed.

Lemma lor_disjoint_add' a b n : b < 2 ^ n -> N.lor b (a * 2 ^ n) = a * 2 ^ n + b.
Proof. intro. rewrite N.lor_comm. apply lor_disjoint_add; assumption. Qed.

Lemma mod_small_pow a n : a < 2 ^ n -> a mod 2 ^ n = a.
Proof. intro; apply N.mod_small; assumption. Qed.

Lemma mod_mod_pow a m n : m <= n -> (a mod 2 ^ n) mod 2 ^ m = a mod 2 ^ m.
Proof.
  intro H. rewrite <- !land_ones_mod, <- N.land_assoc.
  f_equal. apply N.bits_inj. intro i. rewrite N.land_spec.
  destruct (N.ltb_spec i m) as [Hlt|Hge].
  - rewrite !N.ones_spec_low by lia. reflexivity.
  - rewrite (N.ones_spec_high m) by lia. apply andb_false_r.
Qed.

Lemma pow2_pos n : 0 < 2 ^ n.
Proof. apply N.neq_0_lt_0, N.pow_nonzero. lia. Qed.

Lemma lor_nocarry_add a b : N.land a b = 0 -> N.lor a b = a + b.
Proof.
  intro H0. rewrite <- N.lxor_lor by assumption.
  symmetry. apply N.add_nocarry_lxor. assumption.
Qed.
