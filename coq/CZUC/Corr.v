(* CZUC correspondence: calls observed on the Go implementation, replayed on the model. *)
From NV Require Import Lib.Base CZUC.Model.
Open Scope N_scope.

Inductive call :=
| CZuc (k iv : bytes) (n : N)                                   (* zuc.Zuc(k, iv, n) *)
| CNea3 (ck : bytes) (count bearer dir : N) (ibs : bytes) (length : N)    (* security.NEA3 *)
| CNia3 (ik : bytes) (count bearer dir : N) (msg : bytes) (length : N)    (* security.NIA3 *)
| CEnc (key : bytes) (count bearer dir : N) (payload : bytes)   (* security.NASEncrypt(3, ...): payload after the call *)
| CMac (key : bytes) (count bearer dir : N) (msg : bytes).      (* security.NASMacCalculate(3, ...) *)

(* projected observables: result class and returned words / octets *)
Inductive obs :=
| OWords (w : list N)
| OBytes (b : bytes)
| OErr
| OPanic.

Definition case := (N * call * obs)%type.
Definition case_id (c : case) : N := fst (fst c).

Definition obs_of (words : bool) (o : outcome (list N)) : obs :=
  match o with
  | Ok l => if words then OWords l else OBytes l
  | Err => OErr
  | Panic => OPanic
  | OutOfFuel => OPanic   (* never produced: every loop of the model is structural *)
  end.

Definition run (c : call) : obs :=
  match c with
  | CZuc k iv n => obs_of true (Zuc k iv n)
  | CNea3 ck count bearer dir ibs len => obs_of false (NEA3 ck count bearer dir ibs len)
  | CNia3 ik count bearer dir msg len => obs_of false (NIA3 ik count bearer dir msg len)
  | CEnc key count bearer dir p => obs_of false (NASEncrypt3 key count bearer dir p)
  | CMac key count bearer dir m => obs_of false (NASMacCalculate3 key count bearer dir m)
  end.

Definition obs_eqb (a b : obs) : bool :=
  match a, b with
  | OWords x, OWords y => eqb_bytes x y
  | OBytes x, OBytes y => eqb_bytes x y
  | OErr, OErr => true
  | OPanic, OPanic => true
  | _, _ => false
  end.

Definition case_ok (c : case) : bool := obs_eqb (run (snd (fst c))) (snd c).

Definition mismatches (cs : list case) : list N :=
  map case_id (filter (fun c => negb (case_ok c)) cs).
