(* CZUC: the model of security.NIA3 / genMac / getWord computes 128-EIA3. *)
From NV Require Import Lib.Base Lib.Bits CZUC.Spec CZUC.Model CZUC.Proofs_Bits CZUC.Proofs_BitStr CZUC.Proofs_Zuc CZUC.Proofs_Nea3.
From Coq Require Import ZifyN ZifyNat ZifyBool.
Open Scope N_scope.
Ltac Zify.zify_post_hook ::= Z.div_mod_to_equations.

Arguments N.land : simpl never.
Arguments N.lor : simpl never.
Arguments N.lxor : simpl never.
Arguments N.shiftl : simpl never.
Arguments N.shiftr : simpl never.
Arguments N.modulo : simpl never.
Arguments N.div : simpl never.
Arguments N.pow : simpl never.
Arguments N.add : simpl never.
Arguments N.mul : simpl never.
Arguments N.sub : simpl never.
Arguments N.testbit : simpl never.
Arguments N.of_nat : simpl never.
Arguments N.to_nat : simpl never.

(* ---- the IV the code builds *)
Definition nia3_iv (count bearer direction : N) : bytes :=
  let c := put_count count in
  let b := N.land (shl8 bearer 3) 0xF8 in
  let d := shl8 direction 7 in
  [nth 0 c 0; nth 1 c 0; nth 2 c 0; nth 3 c 0; b; 0; 0; 0;
   N.lxor d (nth 0 c 0); nth 1 c 0; nth 2 c 0; nth 3 c 0; b; 0; N.lxor d 0; 0].

Lemma nia3_iv_ok count bearer direction : key_ok (nia3_iv count bearer direction).
Proof.
  split; [reflexivity|]. unfold nia3_iv, put_count, bytes_ok. cbn [nth].
  assert (B : is_byte (N.land (shl8 bearer 3) 248)).
  { unfold is_byte. apply (land_lt_r _ _ 8). reflexivity. }
  assert (Z : is_byte 0) by (unfold is_byte; lia).
  assert (D : forall x, is_byte x -> is_byte (N.lxor (shl8 direction 7) x)).
  { intros x Hx. unfold is_byte in *. apply (lxor_lt _ _ 8); [apply u8_lt|exact Hx]. }
  repeat (constructor; [first [apply u8_byte | exact B | exact Z | apply D; first [apply u8_byte | exact Z]]|]).
  constructor.
Qed.

Lemma nia3_iv_spec count bearer direction :
  count < 2 ^ 32 -> bearer < 32 -> direction < 2 ->
  nia3_iv count bearer direction = EIA3Spec.iv count bearer direction.
Proof.
  intros Hc Hb Hd. unfold nia3_iv, EIA3Spec.iv, put_count, word_octets. cbn [nth app].
  rewrite !u8_mod, !shiftr_div, !shl8_mul.
  assert (E0 : (count / 2 ^ 24) mod 2 ^ 8 = count / 2 ^ 24).
  { apply N.mod_small. apply N.div_lt_upper_bound; [discriminate|]. rewrite p24, p8. rewrite p32 in Hc. lia. }
  rewrite E0.
  assert (E4 : N.land ((bearer * 2 ^ 3) mod 2 ^ 8) 248 = bearer * 2 ^ 3).
  { change 248 with (N.shiftl (N.ones 5) 3). rewrite land_shifted_ones.
    change (2 ^ 3) with 8. rewrite p8. change (2 ^ 5) with 32.
    rewrite (N.mod_small (bearer * 8)) by lia.
    rewrite N.div_mul by discriminate. rewrite N.mod_small by lia. reflexivity. }
  rewrite E4.
  assert (E7 : (direction * 2 ^ 7) mod 2 ^ 8 = direction * 2 ^ 7).
  { change (2 ^ 7) with 128. rewrite p8. apply N.mod_small. lia. }
  rewrite E7. rewrite !(N.lxor_comm (direction * 2 ^ 7)). reflexivity.
Qed.

(* ---- getWord *)
Lemma bits_val_lt l : bits_val l < 2 ^ N.of_nat (length l).
Proof.
  induction l as [|b t IH]; cbn [bits_val length]; [cbv; reflexivity|].
  rewrite Nat2N.inj_succ, N.pow_succ_r'. destruct b; lia.
Qed.

Lemma z_lt k i : EIA3Spec.z k i < 2 ^ 32.
Proof.
  unfold EIA3Spec.z. eapply N.lt_le_trans; [apply bits_val_lt|].
  apply N.pow_le_mono_r; [lia|]. rewrite firstn_length. lia.
Qed.

Lemma skipn_cons_nth {A} (l : list A) q a : nth_error l q = Some a -> skipn q l = a :: skipn (S q) l.
Proof.
  revert q. induction l as [|h l IH]; intros [|q] H; cbn [nth_error] in H; try discriminate.
  - injection H as ->. reflexivity.
  - cbn [skipn]. apply IH. exact H.
Qed.

Lemma getWord_spec stream i :
  Forall word_ok stream ->
  (N.to_nat (i / 32)%N + (if (i mod 32 =? 0)%N then 0 else 1) < length stream)%nat ->
  getWord stream i = Ok (EIA3Spec.z (words_bits stream) (N.to_nat i)).
Proof.
  intros Hw Hi. unfold getWord, EIA3Spec.z.
  set (q := N.to_nat (i / 32)) in *.
  set (r := N.to_nat (i mod 32)).
  assert (Ei : N.to_nat i = (32 * q + r)%nat) by (unfold q, r; lia).
  rewrite Ei, skipn_add. unfold words_bits at 1.
  rewrite (skipn_flat_map (bitsN 32) 32) by (intro; apply bitsN_length).
  rewrite Forall_forall in Hw.
  destruct (N.eqb_spec (i mod 32) 0) as [Hr|Hr].
  - destruct (nth_error_Some_ex stream q) as [a Ea]; [lia|].
    unfold idx. rewrite Ea. f_equal.
    rewrite (skipn_cons_nth stream q a Ea). cbn [flat_map].
    replace r with 0%nat by (unfold r; lia). cbn [skipn].
    rewrite firstn_app, bitsN_length, Nat.sub_diag, firstn_O, app_nil_r.
    rewrite firstn_all2 by (rewrite bitsN_length; lia).
    rewrite bits_val_bitsN. change (N.of_nat 32) with 32.
    symmetry. apply N.mod_small. apply Hw. eapply nth_error_In. exact Ea.
  - destruct (nth_error_Some_ex stream q) as [a Ea]; [lia|].
    destruct (nth_error_Some_ex stream (q + 1)) as [b Eb]; [lia|].
    unfold idx. rewrite Ea, Eb. cbn [obind]. f_equal.
    rewrite (skipn_cons_nth stream q a Ea).
    rewrite (skipn_cons_nth stream (S q) b) by (rewrite <- Eb; f_equal; lia).
    cbn [flat_map].
    assert (Hr' : (0 < r < 32)%nat) by (unfold r; lia).
    rewrite skipn_app, bitsN_length. replace (r - 32)%nat with 0%nat by lia. cbn [skipn].
    rewrite skipn_bitsN by lia.
    rewrite firstn_app, bitsN_length.
    rewrite firstn_all2 by (rewrite bitsN_length; lia).
    replace (32 - (32 - r))%nat with r by lia.
    rewrite firstn_app, bitsN_length. replace (r - 32)%nat with 0%nat by lia.
    rewrite firstn_O, app_nil_r. rewrite firstn_bitsN by lia.
    rewrite bits_val_app, !bits_val_bitsN, bitsN_length.
    assert (Hb : b < 2 ^ 32) by (apply Hw; eapply nth_error_In; exact Eb).
    replace (N.of_nat (32 - r)) with (32 - i mod 32) by (unfold r; lia).
    replace (N.of_nat r) with (i mod 32) by (unfold r; lia).
    assert (Hd : b / 2 ^ (32 - i mod 32) < 2 ^ (i mod 32)).
    { apply div_pow2_lt; [lia|exact Hb]. }
    rewrite (N.mod_small (b / _)) by exact Hd.
    rewrite shiftr_div. apply shl32_lor; [lia|exact Hd].
Qed.

(* ---- the message bit test *)
Lemma land_pow2 a j : N.land a (2 ^ j) = if N.testbit a j then 2 ^ j else 0.
Proof.
  apply N.bits_inj. intro i. rewrite N.land_spec, N.pow2_bits_eqb.
  destruct (N.eqb_spec j i) as [->|Hne].
  - destruct (N.testbit a i) eqn:E; [rewrite N.pow2_bits_true; reflexivity|rewrite N.bits_0; reflexivity].
  - rewrite Bool.andb_false_r. destruct (N.testbit a j); [|rewrite N.bits_0; reflexivity].
    rewrite N.pow2_bits_false by assumption. reflexivity.
Qed.

Lemma bit_test b j : j <= 7 -> negb (N.land b (shl8 1 j) =? 0) = N.testbit b j.
Proof.
  intro Hj. rewrite shl8_mul, N.mul_1_l.
  assert (Hp : 2 ^ j <= 2 ^ 7) by (apply N.pow_le_mono_r; lia).
  change (2 ^ 7) with 128 in Hp.
  rewrite N.mod_small by (rewrite p8; lia).
  rewrite land_pow2. destruct (N.testbit b j); [|reflexivity].
  destruct (N.eqb_spec (2 ^ j) 0) as [E|E]; [|reflexivity].
  pose proof (pow2_pos j). lia.
Qed.

Lemma nth_error_octets_bits m : forall i b, nth_error m (i / 8) = Some b ->
  nth_error (octets_bits m) i = Some (N.testbit b (N.of_nat (7 - i mod 8))).
Proof.
  induction m as [|h m IH]; intros i b H.
  - destruct (i / 8)%nat; discriminate H.
  - unfold octets_bits in *. cbn [flat_map].
    destruct (Nat.lt_ge_cases i 8) as [Hi|Hi].
    + rewrite Nat.div_small in H by assumption. cbn [nth_error] in H. injection H as ->.
      rewrite nth_error_app1 by (rewrite bitsN_length; assumption).
      rewrite Nat.mod_small by assumption.
      do 8 (destruct i as [|i]; [reflexivity|]). lia.
    + rewrite nth_error_app2 by (rewrite bitsN_length; assumption). rewrite bitsN_length.
      assert (E1 : (i / 8 = S ((i - 8) / 8))%nat) by lia.
      assert (E2 : (i mod 8 = (i - 8) mod 8)%nat) by lia.
      rewrite E1 in H. cbn [nth_error] in H. rewrite E2. apply IH. exact H.
Qed.

Lemma nth_error_firstn_lt {A} (l : list A) n i : (i < n)%nat -> nth_error (firstn n l) i = nth_error l i.
Proof.
  revert n i. induction l as [|h l IH]; intros [|n] [|i] H; try lia; try reflexivity.
  cbn [firstn nth_error]. apply IH. lia.
Qed.

(* ---- the accumulation loop *)
Lemma genMac_loop_spec m stream L : (L <= 8 * length m)%nat ->
  Forall word_ok stream -> (L / 32 + 2 <= length stream)%nat ->
  forall n i t, (i + n = L)%nat ->
  genMac_loop n (N.of_nat i) m stream t
  = Ok (EIA3Spec.accumulate (skipn i (firstn L (octets_bits m))) (words_bits stream) i t).
Proof.
  intros HL Hw Hs. induction n as [|n IH]; intros i t Hi.
  - cbn [genMac_loop]. rewrite skipn_all2 by (rewrite firstn_length; lia). reflexivity.
  - cbn [genMac_loop].
    assert (Hi8 : (i / 8 < length m)%nat) by (apply Nat.div_lt_upper_bound; lia).
    destruct (nth_error_Some_ex m (i / 8) Hi8) as [b Eb].
    replace (N.to_nat (N.of_nat i / 8)) with (i / 8)%nat
      by (change 8 with (N.of_nat 8); rewrite <- Nat2N.inj_div, Nat2N.id; reflexivity).
    unfold idx. rewrite Eb. cbn [obind].
    rewrite bit_test by lia.
    assert (Ebit : nth_error (firstn L (octets_bits m)) i = Some (N.testbit b (7 - N.of_nat i mod 8))).
    { rewrite nth_error_firstn_lt by lia. rewrite (nth_error_octets_bits m i b Eb). do 2 f_equal.
      change 8 with (N.of_nat 8). rewrite <- Nat2N.inj_mod. lia. }
    rewrite (skipn_cons_nth _ i _ Ebit). cbn [EIA3Spec.accumulate].
    replace (N.of_nat i + 1) with (N.of_nat (S i)) by lia.
    destruct (N.testbit b (7 - N.of_nat i mod 8)).
    + rewrite getWord_spec; [cbn [obind]; rewrite Nat2N.id; apply IH; lia|exact Hw|].
      destruct (N.of_nat i mod 32 =? 0); lia.
    + cbn [obind]. apply IH. lia.
Qed.

Lemma accumulate_lt m k : forall i t, t < 2 ^ 32 -> EIA3Spec.accumulate m k i t < 2 ^ 32.
Proof.
  induction m as [|b m IH]; intros i t Ht; cbn [EIA3Spec.accumulate]; [exact Ht|].
  apply IH. destruct b; [apply lxor_lt; [exact Ht|apply z_lt]|exact Ht].
Qed.

Lemma eia3_lt ik count bearer direction m : EIA3Spec.eia3 ik count bearer direction m < 2 ^ 32.
Proof.
  unfold EIA3Spec.eia3. repeat apply lxor_lt; try apply z_lt. apply accumulate_lt. reflexivity.
Qed.

Lemma put_count_octets t : t < 2 ^ 32 -> put_count t = word_octets t.
Proof.
  intro Ht. unfold put_count, word_octets. rewrite !u8_mod, !shiftr_div.
  f_equal. apply N.mod_small. apply N.div_lt_upper_bound; [discriminate|].
  rewrite p24, p8. rewrite p32 in Ht. lia.
Qed.

Definition nia3_words (length : N) : nat := N.to_nat ((length + 31) / 32 + 2).

Lemma ceil_div_64 (L : N) : ceil_div (N.to_nat L + 64) 32 = nia3_words L.
Proof.
  unfold ceil_div, nia3_words.
  replace (N.to_nat L + 64 + 32 - 1)%nat with (N.to_nat (L + 31) + 2 * 32)%nat by lia.
  rewrite Nat.div_add by discriminate.
  change 32%nat with (N.to_nat 32) at 1. rewrite <- N2Nat.inj_div. lia.
Qed.

(* NIA3 for the IV the code builds (every count, bearer, direction) *)
Theorem nia3_closed_form ik count bearer direction msg length :
  key_ok ik -> length <= 8 * N.of_nat (List.length msg) -> length + 31 < 2 ^ 32 ->
  let stream := ZucSpec.keystream ik (nia3_iv count bearer direction) (nia3_words length) in
  let k := words_bits stream in
  let L := N.to_nat length in
  NIA3 ik count bearer direction msg length
  = Ok (put_count (N.lxor (N.lxor (EIA3Spec.accumulate (firstn L (octets_bits msg)) k 0 0)
                                   (EIA3Spec.z k L))
                           (EIA3Spec.z k (32 * (nia3_words length - 1))))).
Proof.
  intros Hk Hlen H32. cbn zeta. unfold NIA3.
  cbn [put_count app repeat set upd List.length Nat.ltb Nat.leb copy_iv idx nth_error Nat.add obind].
  change (_ :: _ :: _ :: _ :: N.land (shl8 bearer 3) 248 :: _) with (nia3_iv count bearer direction).
  rewrite (u32_small (length + 31)) by assumption.
  assert (El : add32 ((length + 31) / 32) 2 = (length + 31) / 32 + 2).
  { rewrite add32_mod. apply N.mod_small. rewrite p32 in *. lia. }
  rewrite El.
  rewrite zuc_model_eq_spec by (assumption || apply nia3_iv_ok). cbn [obind].
  fold (nia3_words length).
  set (stream := ZucSpec.keystream ik (nia3_iv count bearer direction) (nia3_words length)).
  assert (Ls : List.length stream = nia3_words length) by apply keystream_length.
  assert (Hw : Forall word_ok stream) by (apply keystream_words_ok; [assumption|apply nia3_iv_ok]).
  set (L := N.to_nat length).
  assert (HL : (L <= 8 * List.length msg)%nat) by (unfold L; lia).
  assert (Hs : (L / 32 + 2 <= List.length stream)%nat).
  { rewrite Ls. unfold nia3_words, L.
    change 32%nat with (N.to_nat 32). rewrite <- N2Nat.inj_div. lia. }
  unfold genMac.
  pose proof (genMac_loop_spec msg stream L HL Hw Hs L 0 0) as EL.
  change (N.of_nat 0) with 0 in EL. rewrite Nat.add_0_l in EL. cbn [skipn] in EL.
  fold L. rewrite EL by reflexivity. cbn [obind].
  rewrite getWord_spec; [cbn [obind]|exact Hw|].
  2:{ fold L. assert (N.to_nat (length / 32) = (L / 32)%nat).
      { unfold L. change 32%nat with (N.to_nat 32). rewrite <- N2Nat.inj_div. reflexivity. }
      destruct (length mod 32 =? 0); lia. }
  rewrite getWord_spec; [cbn [obind]|exact Hw|].
  2:{ rewrite Ls. 
      assert (E : 32 * N.of_nat (nia3_words length - 1) mod 32 = 0).
      { rewrite N.mul_comm. apply N.mod_mul. discriminate. }
      rewrite E. cbn [N.eqb].
      rewrite N.mul_comm, N.div_mul by discriminate. unfold nia3_words. lia. }
  rewrite Ls. do 3 f_equal. f_equal. lia.
Qed.

Theorem nia3_eq_eia3 ik count bearer direction msg length :
  key_ok ik -> count < 2 ^ 32 -> bearer < 32 -> direction < 2 ->
  length <= 8 * N.of_nat (List.length msg) -> length + 31 < 2 ^ 32 ->
  NIA3 ik count bearer direction msg length
  = Ok (word_octets (EIA3Spec.eia3 ik count bearer direction
                       (firstn (N.to_nat length) (octets_bits msg)))).
Proof.
  intros Hk Hc Hb Hd Hlen H32.
  rewrite <- put_count_octets by apply eia3_lt.
  rewrite nia3_closed_form by assumption. cbn zeta.
  unfold EIA3Spec.eia3.
  rewrite firstn_length, octets_bits_length.
  replace (Nat.min (N.to_nat length) (8 * List.length msg)) with (N.to_nat length) by lia.
  rewrite ceil_div_64, <- nia3_iv_spec by assumption. reflexivity.
Qed.
