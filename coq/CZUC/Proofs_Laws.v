(* CZUC: the C08-style laws for algorithm identity 3 (byte-length API and NEA3 / NIA3). *)
From NV Require Import Lib.Base Lib.Bits CZUC.Spec CZUC.Model CZUC.Proofs_Bits CZUC.Proofs_BitStr CZUC.Proofs_Zuc CZUC.Proofs_Nea3 CZUC.Proofs_Nia3.
From Coq Require Import ZifyN ZifyNat ZifyBool.
Open Scope N_scope.
Ltac Zify.zify_post_hook ::= Z.div_mod_to_equations.

Arguments N.land : simpl never.
Arguments N.lor : simpl never.
Arguments N.lxor : simpl never.
Arguments N.shiftl : simpl never.
Arguments N.shiftr : simpl never.
Arguments N.modulo : simpl never.
Arguments N.div : simpl never.
Arguments N.pow : simpl never.
Arguments N.add : simpl never.
Arguments N.mul : simpl never.
Arguments N.sub : simpl never.
Arguments N.testbit : simpl never.
Arguments N.of_nat : simpl never.
Arguments N.to_nat : simpl never.

(* ---- xor_bytes algebra *)
Lemma xor_bytes_firstn_r a b m : (length a <= m)%nat -> xor_bytes a (firstn m b) = xor_bytes a b.
Proof.
  revert b m. induction a as [|x a IH]; intros [|y b] [|m] H; cbn [length] in H; try lia; try reflexivity.
  cbn [firstn xor_bytes]. f_equal. apply IH. lia.
Qed.

Lemma firstn_xor_bytes n a b : firstn n (xor_bytes a b) = xor_bytes (firstn n a) (firstn n b).
Proof.
  revert a b. induction n as [|n IH]; intros [|x a] [|y b]; try reflexivity.
  cbn [firstn xor_bytes]. f_equal. apply IH.
Qed.

Lemma xor_bytes_involutive p k : (length p <= length k)%nat -> xor_bytes (xor_bytes p k) k = p.
Proof.
  revert k. induction p as [|x p IH]; intros [|y k] H; cbn [length] in H; try lia; try reflexivity.
  cbn [xor_bytes]. rewrite N.lxor_assoc, N.lxor_nilpotent, N.lxor_0_r. f_equal. apply IH. lia.
Qed.

Lemma xor_bytes_cancel p k : (length p <= length k)%nat ->
  xor_bytes (xor_bytes p k) p = firstn (length p) k.
Proof.
  revert k. induction p as [|x p IH]; intros [|y k] H; cbn [length] in H; try lia; try reflexivity.
  cbn [xor_bytes length firstn].
  rewrite (N.lxor_comm x y), N.lxor_assoc, N.lxor_nilpotent, N.lxor_0_r. f_equal. apply IH. lia.
Qed.

Lemma ksbytes_firstn n z : ksbytes (firstn n z) = firstn (4 * n) (ksbytes z).
Proof. unfold ksbytes. symmetry. apply (firstn_flat_map word_bytes 4). reflexivity. Qed.

(* ---- the byte-length API: NASEncrypt with algorithm identity 3 *)
Definition enc_stream (key : bytes) (count bearer direction : N) (n : nat) : list N :=
  nea3_stream key count bearer direction (8 * N.of_nat n).

(* the keystream octets used for an n-octet payload *)
Definition enc_ks (key : bytes) (count bearer direction : N) (n : nat) : bytes :=
  firstn n (ksbytes (enc_stream key count bearer direction n)).

Lemma enc_ks_length key count bearer direction n :
  length (enc_ks key count bearer direction n) = n.
Proof.
  unfold enc_ks, enc_stream, nea3_stream. rewrite firstn_length, ksbytes_length, keystream_length.
  unfold nea3_words. lia.
Qed.

Definition payload_ok (p : bytes) : Prop := 8 * N.of_nat (length p) + 31 < 2 ^ 32.

Theorem enc_closed_form key count bearer direction p :
  key_ok key -> bearer <= 31 -> direction <= 1 -> payload_ok p ->
  NASEncrypt3 key count bearer direction p
  = Ok (xor_bytes p (enc_ks key count bearer direction (length p))).
Proof.
  intros Hk Hb Hd Hp. unfold payload_ok in Hp. unfold NASEncrypt3.
  destruct (N.ltb_spec 31 bearer) as [Hbad|_]; [lia|].
  destruct (N.ltb_spec 1 direction) as [Hbad|_]; [lia|].
  assert (EL : u32 (u32 (N.of_nat (length p)) * 8) = 8 * N.of_nat (length p)).
  { rewrite (u32_small (N.of_nat (length p))) by (rewrite p32 in *; lia).
    rewrite u32_small by (rewrite p32 in *; lia). lia. }
  rewrite EL. rewrite nea3_closed_form by (assumption || lia). cbn [obind].
  f_equal. unfold nea3_closed, enc_ks, enc_stream.
  set (stream := nea3_stream key count bearer direction (8 * N.of_nat (length p))).
  assert (Ls : length stream = nea3_words (8 * N.of_nat (length p))) by apply keystream_length.
  assert (Hw : (length p <= 4 * nea3_words (8 * N.of_nat (length p)))%nat) by (unfold nea3_words; lia).
  set (X := xor_bytes p (ksbytes stream)).
  assert (LX : length X = length p).
  { unfold X. rewrite xor_bytes_length, ksbytes_length, Ls. lia. }
  replace (8 * N.of_nat (length p) mod 8) with 0 by lia. cbn [N.eqb].
  replace (N.to_nat (8 * N.of_nat (length p) / 8)) with (length p) by lia.
  rewrite Nat.sub_diag. cbn [repeat]. rewrite app_nil_r.
  rewrite firstn_all2 by lia.
  unfold copy_into. rewrite LX, firstn_all2 by lia. rewrite skipn_all, app_nil_r.
  unfold X. symmetry. apply xor_bytes_firstn_r. lia.
Qed.

Theorem enc_length key count bearer direction p c :
  key_ok key -> payload_ok p ->
  NASEncrypt3 key count bearer direction p = Ok c -> length c = length p.
Proof.
  intros Hk Hp E. unfold NASEncrypt3 in E.
  destruct (N.ltb_spec 31 bearer) as [_|Hb]; [discriminate E|].
  destruct (N.ltb_spec 1 direction) as [_|Hd]; [discriminate E|].
  pose proof (enc_closed_form key count bearer direction p Hk Hb Hd Hp) as E'.
  unfold NASEncrypt3 in E'.
  destruct (N.ltb_spec 31 bearer) as [Hbad|_]; [lia|].
  destruct (N.ltb_spec 1 direction) as [Hbad|_]; [lia|].
  rewrite E' in E. injection E as <-.
  rewrite xor_bytes_length, enc_ks_length. lia.
Qed.

Theorem enc_involution key count bearer direction p c :
  key_ok key -> payload_ok p ->
  NASEncrypt3 key count bearer direction p = Ok c ->
  NASEncrypt3 key count bearer direction c = Ok p.
Proof.
  intros Hk Hp E.
  pose proof (enc_length _ _ _ _ _ _ Hk Hp E) as Lc.
  unfold NASEncrypt3 in E.
  destruct (N.ltb_spec 31 bearer) as [_|Hb]; [discriminate E|].
  destruct (N.ltb_spec 1 direction) as [_|Hd]; [discriminate E|].
  fold (NASEncrypt3 key count bearer direction p) in E.
  assert (E0 : NASEncrypt3 key count bearer direction p = Ok c).
  { unfold NASEncrypt3.
    destruct (N.ltb_spec 31 bearer) as [Hbad|_]; [lia|].
    destruct (N.ltb_spec 1 direction) as [Hbad|_]; [lia|]. exact E. }
  rewrite enc_closed_form in E0 by assumption. injection E0 as <-.
  rewrite enc_closed_form; try assumption.
  - rewrite Lc. f_equal. apply xor_bytes_involutive. rewrite enc_ks_length. lia.
  - unfold payload_ok in *. rewrite Lc. exact Hp.
Qed.

(* the keystream octets for n octets are a prefix of those for n + m octets *)
Lemma enc_ks_prefix key count bearer direction n m :
  enc_ks key count bearer direction n = firstn n (enc_ks key count bearer direction (n + m)).
Proof.
  unfold enc_ks, enc_stream, nea3_stream.
  set (w1 := nea3_words (8 * N.of_nat n)). set (w2 := nea3_words (8 * N.of_nat (n + m))).
  assert (Hw : (w1 <= w2)%nat) by (unfold w1, w2, nea3_words; lia).
  assert (H1 : (n <= 4 * w1)%nat) by (unfold w1, nea3_words; lia).
  replace w2 with (w1 + (w2 - w1))%nat by lia.
  rewrite (keystream_prefix key (nea3_iv count bearer direction) w1 (w2 - w1)).
  rewrite ksbytes_firstn. rewrite !firstn_firstn.
  replace (Nat.min n (4 * w1)) with n by lia. replace (Nat.min n (n + m)) with n by lia. reflexivity.
Qed.

Theorem enc_prefix key count bearer direction p c n :
  key_ok key -> payload_ok p ->
  NASEncrypt3 key count bearer direction p = Ok c ->
  NASEncrypt3 key count bearer direction (firstn n p) = Ok (firstn n c).
Proof.
  intros Hk Hp E.
  assert (Hv : bearer <= 31 /\ direction <= 1).
  { unfold NASEncrypt3 in E.
    destruct (N.ltb_spec 31 bearer) as [_|Hb]; [discriminate E|].
    destruct (N.ltb_spec 1 direction) as [_|Hd]; [discriminate E|]. auto. }
  destruct Hv as [Hb Hd].
  rewrite enc_closed_form in E by assumption. injection E as <-.
  assert (Hn : payload_ok (firstn n p)).
  { unfold payload_ok in *. rewrite firstn_length. lia. }
  rewrite enc_closed_form by assumption. f_equal.
  rewrite firstn_xor_bytes, firstn_length.
  set (n' := Nat.min n (length p)).
  replace (length p) with (n' + (length p - n'))%nat by (unfold n'; lia).
  rewrite (enc_ks_prefix key count bearer direction n' (length p - n')).
  destruct (Nat.le_ge_cases n (length p)) as [H|H].
  - replace n' with n by (unfold n'; lia). reflexivity.
  - replace n' with (length p) by (unfold n'; lia).
    rewrite Nat.sub_diag, Nat.add_0_r.
    rewrite !firstn_all2; try reflexivity; rewrite ?enc_ks_length; lia.
Qed.

Theorem enc_keystream_indep key count bearer direction p p' c c' :
  key_ok key -> payload_ok p -> length p = length p' ->
  NASEncrypt3 key count bearer direction p = Ok c ->
  NASEncrypt3 key count bearer direction p' = Ok c' ->
  xor_bytes c p = xor_bytes c' p'.
Proof.
  intros Hk Hp Hl E E'.
  assert (Hv : bearer <= 31 /\ direction <= 1).
  { unfold NASEncrypt3 in E.
    destruct (N.ltb_spec 31 bearer) as [_|Hb]; [discriminate E|].
    destruct (N.ltb_spec 1 direction) as [_|Hd]; [discriminate E|]. auto. }
  destruct Hv as [Hb Hd].
  assert (Hp' : payload_ok p') by (unfold payload_ok in *; rewrite <- Hl; exact Hp).
  rewrite enc_closed_form in E, E' by assumption.
  injection E as <-. injection E' as <-.
  rewrite !xor_bytes_cancel by (rewrite enc_ks_length; lia).
  rewrite <- Hl. reflexivity.
Qed.

(* ---- totality *)
Theorem zuc_total k iv n : key_ok k -> key_ok iv -> is_total (Zuc k iv n).
Proof. intros. rewrite zuc_model_eq_spec by assumption. exact I. Qed.

Theorem nea3_total ck count bearer direction ibs length :
  key_ok ck -> length <= 8 * N.of_nat (List.length ibs) -> length + 31 < 2 ^ 32 ->
  is_total (NEA3 ck count bearer direction ibs length).
Proof. intros. rewrite nea3_closed_form by assumption. exact I. Qed.

Theorem nia3_total ik count bearer direction msg length :
  key_ok ik -> length <= 8 * N.of_nat (List.length msg) -> length + 31 < 2 ^ 32 ->
  is_total (NIA3 ik count bearer direction msg length).
Proof. intros. rewrite nia3_closed_form by assumption. exact I. Qed.

Theorem enc_total key count bearer direction p :
  key_ok key -> payload_ok p -> is_total (NASEncrypt3 key count bearer direction p).
Proof.
  intros Hk Hp. unfold NASEncrypt3.
  destruct (N.ltb_spec 31 bearer) as [_|Hb]; [exact I|].
  destruct (N.ltb_spec 1 direction) as [_|Hd]; [exact I|].
  pose proof (enc_closed_form key count bearer direction p Hk Hb Hd Hp) as E.
  unfold NASEncrypt3 in E.
  destruct (N.ltb_spec 31 bearer) as [Hbad|_]; [lia|].
  destruct (N.ltb_spec 1 direction) as [Hbad|_]; [lia|].
  rewrite E. exact I.
Qed.

Lemma mac_length_u32 msg : payload_ok msg ->
  u32 (u32 (N.of_nat (length msg)) * 8) = 8 * N.of_nat (length msg).
Proof.
  unfold payload_ok. intro Hp.
  rewrite (u32_small (N.of_nat (length msg))) by (rewrite p32 in *; lia).
  rewrite u32_small by (rewrite p32 in *; lia). lia.
Qed.

Theorem mac_total key count bearer direction msg :
  key_ok key -> payload_ok msg -> is_total (NASMacCalculate3 key count bearer direction msg).
Proof.
  intros Hk Hp. unfold NASMacCalculate3.
  destruct (N.ltb_spec 31 bearer) as [_|Hb]; [exact I|].
  destruct (N.ltb_spec 1 direction) as [_|Hd]; [exact I|].
  rewrite mac_length_u32 by assumption.
  apply nia3_total; [assumption|lia|unfold payload_ok in Hp; lia].
Qed.

(* ---- a MAC is exactly 4 octets *)
Theorem nia3_mac_len4 ik count bearer direction msg length mac :
  key_ok ik -> length <= 8 * N.of_nat (List.length msg) -> length + 31 < 2 ^ 32 ->
  NIA3 ik count bearer direction msg length = Ok mac -> List.length mac = 4%nat /\ bytes_ok mac.
Proof.
  intros Hk Hl H32 E. rewrite nia3_closed_form in E by assumption. cbn zeta in E.
  injection E as <-. split; [reflexivity|].
  unfold put_count, bytes_ok. repeat constructor; apply u8_byte.
Qed.

Theorem mac_len4 key count bearer direction msg mac :
  key_ok key -> payload_ok msg ->
  NASMacCalculate3 key count bearer direction msg = Ok mac -> length mac = 4%nat.
Proof.
  intros Hk Hp E. unfold NASMacCalculate3 in E.
  destruct (N.ltb_spec 31 bearer) as [_|Hb]; [discriminate E|].
  destruct (N.ltb_spec 1 direction) as [_|Hd]; [discriminate E|].
  rewrite mac_length_u32 in E by assumption.
  destruct (nia3_mac_len4 key count bearer direction msg (8 * N.of_nat (length msg)) mac Hk) as [L _];
    [lia|unfold payload_ok in Hp; lia|exact E|exact L].
Qed.

(* NASMacCalculate(3, ...) = 128-EIA3 of the whole octets *)
Theorem mac_eq_eia3 key count bearer direction msg :
  key_ok key -> count < 2 ^ 32 -> bearer <= 31 -> direction <= 1 -> payload_ok msg ->
  NASMacCalculate3 key count bearer direction msg
  = Ok (word_octets (EIA3Spec.eia3 key count bearer direction (octets_bits msg))).
Proof.
  intros Hk Hc Hb Hd Hp. unfold NASMacCalculate3.
  destruct (N.ltb_spec 31 bearer) as [Hbad|_]; [lia|].
  destruct (N.ltb_spec 1 direction) as [Hbad|_]; [lia|].
  rewrite mac_length_u32 by assumption.
  rewrite nia3_eq_eia3; try assumption; try lia; try (unfold payload_ok in Hp; lia).
  do 3 f_equal. apply firstn_all2. rewrite octets_bits_length. lia.
Qed.

(* NASEncrypt(3, ...) = 128-EEA3 of the whole octets, in place *)
Theorem enc_eq_eea3 key count bearer direction p :
  key_ok key -> count < 2 ^ 32 -> bearer <= 31 -> direction <= 1 -> payload_ok p ->
  exists c, NASEncrypt3 key count bearer direction p = Ok c /\
            length c = length p /\
            octets_bits c = EEA3Spec.eea3 key count bearer direction (octets_bits p).
Proof.
  intros Hk Hc Hb Hd Hp.
  pose proof (enc_closed_form key count bearer direction p Hk Hb Hd Hp) as E.
  eexists. split; [exact E|]. split; [rewrite xor_bytes_length, enc_ks_length; lia|].
  unfold NASEncrypt3 in E.
  destruct (N.ltb_spec 31 bearer) as [Hbad|_]; [lia|].
  destruct (N.ltb_spec 1 direction) as [Hbad|_]; [lia|].
  assert (EL : u32 (u32 (N.of_nat (length p)) * 8) = 8 * N.of_nat (length p)) by (apply mac_length_u32; exact Hp).
  rewrite EL in E.
  destruct (nea3_eq_eea3 key count bearer direction p (8 * N.of_nat (length p))) as (obs & E1 & L1 & B1);
    try assumption; try lia; try (unfold payload_ok in Hp; lia).
  rewrite E1 in E. cbn [obind] in E. injection E as E.
  unfold copy_into in E. rewrite L1, skipn_all, app_nil_r in E.
  rewrite firstn_all2 in E by lia. rewrite <- E, B1.
  replace (8 * length p - N.to_nat (8 * N.of_nat (length p)))%nat with 0%nat by lia.
  cbn [repeat]. rewrite app_nil_r. f_equal.
  apply firstn_all2. rewrite octets_bits_length. lia.
Qed.
