(* CZUC: the model of zuc.go computes the keystream of the ZUC v1.6 specification. *)
From NV Require Import Lib.Base Lib.Bits CZUC.Spec CZUC.Model CZUC.Proofs_Bits.
From Coq Require Import ZifyN ZifyNat ZifyBool.
Import ZucSpec.
Open Scope N_scope.
Ltac Zify.zify_post_hook ::= Z.div_mod_to_equations.

Arguments N.land : simpl never.
Arguments N.lor : simpl never.
Arguments N.lxor : simpl never.
Arguments N.shiftl : simpl never.
Arguments N.shiftr : simpl never.
Arguments N.modulo : simpl never.
Arguments N.div : simpl never.
Arguments N.pow : simpl never.
Arguments N.add : simpl never.
Arguments N.mul : simpl never.
Arguments N.sub : simpl never.
Arguments N.testbit : simpl never.
Arguments N.to_nat : simpl never.

(* ---- the tables of the code are the tables of the specification *)
Lemma tables_eq : sbox0 = S0 /\ sbox1 = S1 /\ ek_d = D.
Proof. repeat split; reflexivity. Qed.

Lemma P_P31 : P = P31. Proof. reflexivity. Qed.

(* ---- invariant: every LFSR cell is one of the representatives 1 .. 2^31 - 1 *)
Definition cell_ok (c : N) : Prop := 1 <= c <= P.
Definition cells_ok (s : list N) : Prop := length s = 16%nat /\ Forall cell_ok s.
Definition word_ok (w : N) : Prop := w < 2 ^ 32.

Lemma cell_ok_lt c : cell_ok c -> c < 2 ^ 31.
Proof. unfold cell_ok, P. change (2 ^ 31) with 2147483648. lia. Qed.

Lemma list16 (s : list N) : length s = 16%nat ->
  exists a0 a1 a2 a3 a4 a5 a6 a7 a8 a9 a10 a11 a12 a13 a14 a15,
    s = [a0; a1; a2; a3; a4; a5; a6; a7; a8; a9; a10; a11; a12; a13; a14; a15].
Proof.
  intro H.
  do 16 (destruct s as [|? s]; [discriminate H|]).
  destruct s; [|discriminate H].
  repeat eexists.
Qed.

Ltac cells16 s H :=
  let L := fresh "L" in let F := fresh "F" in
  destruct H as [L F];
  destruct (list16 s L) as (s0 & s1 & s2 & s3 & s4 & s5 & s6 & s7 & s8 & s9 & s10 & s11 & s12 & s13 & s14 & s15 & ->);
  clear L;
  repeat match goal with
         | H : Forall _ (_ :: _) |- _ => inversion H; clear H; subst
         | H : Forall _ [] |- _ => clear H
         end.

(* ---- LFSR *)
Lemma tap_step f X sv k :
  cell_ok f -> f mod P = X mod P -> sv < 2 ^ 31 -> 0 < k < 31 ->
  let f' := fold31 (add32 f (rot31 sv k)) in
  cell_ok f' /\ f' mod P = (X + 2 ^ k * sv) mod P.
Proof.
  intros Hf HX Hsv Hk. cbn zeta.
  assert (Hr : rot31 sv k <= P).
  { pose proof (rot31_lt sv k Hsv Hk). unfold P. change (2 ^ 31) with 2147483648 in *. lia. }
  destruct (addM_correct f (rot31 sv k) Hf Hr) as [H1 H2]. split; [exact H1|].
  rewrite H2. rewrite N.add_mod by discriminate.
  rewrite HX, rot31_mod by assumption.
  rewrite <- N.add_mod by discriminate. reflexivity.
Qed.

Lemma canon_unique g X : cell_ok g -> g mod P = X mod P -> g = nonzero31 (X mod P31).
Proof.
  unfold cell_ok, nonzero31. rewrite <- P_P31. intros Hg HX. rewrite <- HX.
  destruct (N.eq_dec g P) as [->|Hne].
  - rewrite N.mod_same by discriminate. reflexivity.
  - rewrite N.mod_small by lia.
    destruct (N.eqb_spec g 0); [lia|reflexivity].
Qed.

Lemma nonzero31_ok x : x < P31 -> cell_ok (nonzero31 x).
Proof.
  unfold nonzero31, cell_ok. rewrite <- P_P31. intro H.
  destruct (N.eqb_spec x 0); unfold P in *; change (2 ^ 31) with 2147483648 in *; lia.
Qed.

Lemma feedback_lt s : feedback s < P31.
Proof. unfold feedback. apply N.mod_lt. discriminate. Qed.

Lemma shift_in_ok s c : cells_ok s -> cell_ok c -> cells_ok (shift_in s c).
Proof.
  intros H Hc. cells16 s H. unfold shift_in. cbn [tl app]. split; [reflexivity|].
  repeat (constructor; try assumption).
Qed.

Lemma work_mode_ok s : cells_ok s -> cells_ok (LFSRWithWorkMode s).
Proof.
  intro H. unfold LFSRWithWorkMode. apply shift_in_ok; [assumption|].
  apply nonzero31_ok, feedback_lt.
Qed.

Lemma init_mode_ok s u : cells_ok s -> cells_ok (LFSRWithInitialisationMode s u).
Proof.
  intro H. unfold LFSRWithInitialisationMode. apply shift_in_ok; [assumption|].
  apply nonzero31_ok. apply N.mod_lt. discriminate.
Qed.

Lemma taps_sum s0 s4 s10 s13 s15 :
  cell_ok s0 -> cell_ok s4 -> cell_ok s10 -> cell_ok s13 -> cell_ok s15 ->
  let f := fold31 (add32 (fold31 (add32 (fold31 (add32 (fold31 (add32 (fold31 (add32 s0
             (rot31 s0 8))) (rot31 s4 20))) (rot31 s10 21))) (rot31 s13 17))) (rot31 s15 15)) in
  cell_ok f /\
  f mod P = (2 ^ 15 * s15 + 2 ^ 17 * s13 + 2 ^ 21 * s10 + 2 ^ 20 * s4 + (1 + 2 ^ 8) * s0) mod P.
Proof.
  intros H0 H4 H10 H13 H15. cbn zeta.
  pose proof (cell_ok_lt _ H0) as L0. pose proof (cell_ok_lt _ H4) as L4.
  pose proof (cell_ok_lt _ H10) as L10. pose proof (cell_ok_lt _ H13) as L13.
  pose proof (cell_ok_lt _ H15) as L15.
  assert (K8 : 0 < 8 < 31) by lia. assert (K20 : 0 < 20 < 31) by lia.
  assert (K21 : 0 < 21 < 31) by lia. assert (K17 : 0 < 17 < 31) by lia.
  assert (K15 : 0 < 15 < 31) by lia.
  destruct (tap_step s0 s0 s0 8 H0 eq_refl L0 K8) as [A1 B1].
  destruct (tap_step _ _ s4 20 A1 B1 L4 K20) as [A2 B2].
  destruct (tap_step _ _ s10 21 A2 B2 L10 K21) as [A3 B3].
  destruct (tap_step _ _ s13 17 A3 B3 L13 K17) as [A4 B4].
  destruct (tap_step _ _ s15 15 A4 B4 L15 K15) as [A5 B5].
  split; [exact A5|]. rewrite B5. f_equal. ring.
Qed.

Lemma state_work s : cells_ok s -> state s false 0 = Ok (LFSRWithWorkMode s).
Proof.
  intro H. cells16 s H.
  unfold state, LFSRWithWorkMode, shift_in, feedback, cell.
  cbn [idx nth_error obind state_taps shift_cells set upd length Nat.ltb Nat.leb Nat.add tl app nth].
  f_equal. do 15 (apply f_equal). apply (f_equal (fun x => [x])).
  destruct (taps_sum s0 s4 s10 s13 s15) as [A B]; try assumption.
  apply canon_unique; assumption.
Qed.

Lemma state_init s u : cells_ok s -> u < 2 ^ 31 ->
  state s true u = Ok (LFSRWithInitialisationMode s u).
Proof.
  intros H Hu. cells16 s H.
  unfold state, LFSRWithInitialisationMode, shift_in, feedback, cell.
  cbn [idx nth_error obind state_taps shift_cells set upd length Nat.ltb Nat.leb Nat.add tl app nth].
  f_equal. do 15 (apply f_equal). apply (f_equal (fun x => [x])).
  destruct (taps_sum s0 s4 s10 s13 s15) as [A B]; try assumption.
  assert (Hu' : u <= P) by (unfold P; change (2 ^ 31) with 2147483648 in *; lia).
  destruct (addM_correct _ u A Hu') as [A' B'].
  apply canon_unique; [exact A'|].
  rewrite B'. rewrite <- N.add_mod_idemp_l by discriminate. rewrite B. reflexivity.
Qed.

(* ---- bit reorganisation *)
Lemma p31 : 2 ^ 31 = 2147483648. Proof. reflexivity. Qed.
Lemma p32 : 2 ^ 32 = 4294967296. Proof. reflexivity. Qed.
Lemma p16 : 2 ^ 16 = 65536. Proof. reflexivity. Qed.
Lemma p15 : 2 ^ 15 = 32768. Proof. reflexivity. Qed.
Lemma p8 : 2 ^ 8 = 256. Proof. reflexivity. Qed.
Lemma p24 : 2 ^ 24 = 16777216. Proof. reflexivity. Qed.

Lemma br_hi_lo a b : a < 2 ^ 31 ->
  N.lor (shl32 (N.land a 0x7FFF8000) 1) (N.land b 0xFFFF) = cat16 (H31 a) (L31 b).
Proof.
  intro Ha. unfold cat16, H31, L31.
  change 0x7FFF8000 with (N.shiftl (N.ones 16) 15). change 0xFFFF with (N.ones 16).
  rewrite land_shifted_ones, land_ones_mod, shl32_mul.
  assert (Hh : a / 2 ^ 15 < 2 ^ 16).
  { apply N.div_lt_upper_bound; [discriminate|]. rewrite p15, p16. rewrite p31 in Ha. lia. }
  rewrite (N.mod_small (a / 2 ^ 15)) by assumption.
  replace (a / 2 ^ 15 * 2 ^ 15 * 2 ^ 1) with (a / 2 ^ 15 * 2 ^ 16) by (rewrite p15, p16; lia).
  rewrite N.mod_small by (rewrite p16, p32 in *; nia).
  apply lor_disjoint_add. apply N.mod_lt. discriminate.
Qed.

Lemma br_lo_hi a b : b < 2 ^ 31 ->
  N.lor (shl32 (N.land a 0xFFFF) 16) (N.shiftr b 15) = cat16 (L31 a) (H31 b).
Proof.
  intro Hb. unfold cat16, H31, L31. change 0xFFFF with (N.ones 16).
  rewrite land_ones_mod, shiftr_div.
  assert (Hh : b / 2 ^ 15 < 2 ^ 16).
  { apply N.div_lt_upper_bound; [discriminate|]. rewrite p15, p16. rewrite p31 in Hb. lia. }
  rewrite shl32_lor by first [lia | assumption].
  change (32 - 16) with 16. rewrite N.mod_mod by discriminate. reflexivity.
Qed.

Lemma cat16_lt a b : a < 2 ^ 16 -> b < 2 ^ 16 -> cat16 a b < 2 ^ 32.
Proof. unfold cat16. rewrite p16, p32. nia. Qed.

Lemma H31_lt a : a < 2 ^ 31 -> H31 a < 2 ^ 16.
Proof.
  intro Ha. unfold H31. apply N.div_lt_upper_bound; [discriminate|].
  rewrite p15, p16. rewrite p31 in Ha. lia.
Qed.
Lemma L31_lt a : L31 a < 2 ^ 16.
Proof. unfold L31. apply N.mod_lt. discriminate. Qed.

Definition br_list (s : list N) : list N :=
  let '(x0, x1, x2, x3) := BitReorganization s in [x0; x1; x2; x3].

Lemma bitReorganization_spec s : cells_ok s -> bitReorganization s = Ok (br_list s).
Proof.
  intro H. cells16 s H.
  repeat match goal with H : cell_ok _ |- _ => apply cell_ok_lt in H end.
  unfold bitReorganization, br_list, BitReorganization, cell.
  cbn [idx nth_error obind nth].
  rewrite br_hi_lo, !br_lo_hi by assumption. reflexivity.
Qed.

Lemma br_words s : cells_ok s -> Forall word_ok (br_list s).
Proof.
  intro H. cells16 s H.
  repeat match goal with H : cell_ok _ |- _ => apply cell_ok_lt in H end.
  unfold br_list, BitReorganization, cell. cbn [nth].
  repeat constructor; apply cat16_lt; auto using H31_lt, L31_lt.
Qed.

(* ---- F *)
Lemma l_rot x k : x < 2 ^ 32 -> 0 < k < 32 -> rot x k = rotl32 x k.
Proof. intros. unfold rotl32. apply rot_arith; assumption. Qed.

Lemma l1_spec x : x < 2 ^ 32 -> l1 x = L1 x.
Proof. intro H. unfold l1, L1. rewrite !l_rot by (assumption || lia). reflexivity. Qed.

Lemma l2_spec x : x < 2 ^ 32 -> l2 x = L2 x.
Proof. intro H. unfold l2, L2. rewrite !l_rot by (assumption || lia). reflexivity. Qed.

Lemma l1_lt x : x < 2 ^ 32 -> l1 x < 2 ^ 32.
Proof. intro H. unfold l1. repeat apply lxor_lt; try assumption; apply rot_lt; (assumption || lia). Qed.

Lemma l2_lt x : x < 2 ^ 32 -> l2 x < 2 ^ 32.
Proof. intro H. unfold l2. repeat apply lxor_lt; try assumption; apply rot_lt; (assumption || lia). Qed.

(* (w1 << 16) | (w2 >> 16) *)
Lemma cat_lo_hi a b : b < 2 ^ 32 ->
  N.lor (shl32 a 16) (N.shiftr b 16) = cat16 (L32 a) (H32 b).
Proof.
  intro Hb. unfold cat16, L32, H32. rewrite shiftr_div.
  rewrite shl32_lor; [reflexivity|lia|].
  apply N.div_lt_upper_bound; [discriminate|]. rewrite p16. rewrite p32 in Hb. lia.
Qed.

Lemma cat_lo_hi_lt a b : b < 2 ^ 32 -> cat16 (L32 a) (H32 b) < 2 ^ 32.
Proof.
  intro Hb. apply cat16_lt. unfold L32. apply N.mod_lt; discriminate.
  unfold H32. apply N.div_lt_upper_bound; [discriminate|]. rewrite p16. rewrite p32 in Hb. lia.
Qed.

(* S-box lookups are in range and give octets *)
Lemma S0_len : length S0 = 256%nat. Proof. reflexivity. Qed.
Lemma S1_len : length S1 = 256%nat. Proof. reflexivity. Qed.

Lemma S0_octets : Forall (fun x => x < 256) S0.
Proof.
  apply Forall_forall. intros x Hx.
  assert (H : forallb (fun x => x <? 256) S0 = true) by (vm_compute; reflexivity).
  rewrite forallb_forall in H. apply N.ltb_lt. apply H. exact Hx.
Qed.
Lemma S1_octets : Forall (fun x => x < 256) S1.
Proof.
  apply Forall_forall. intros x Hx.
  assert (H : forallb (fun x => x <? 256) S1 = true) by (vm_compute; reflexivity).
  rewrite forallb_forall in H. apply N.ltb_lt. apply H. exact Hx.
Qed.

Lemma idx_table t i : (N.to_nat i < length t)%nat -> idx t (N.to_nat i) = Ok (sb t i).
Proof.
  intro H. unfold idx, sb. rewrite (nth_error_nth' t 0 H). reflexivity.
Qed.

Lemma sb_octet t i : Forall (fun x => x < 256) t -> (N.to_nat i < length t)%nat -> sb t i < 256.
Proof.
  intros Ht H. unfold sb. rewrite Forall_forall in Ht. apply Ht. apply nth_In. exact H.
Qed.

Lemma makeU32_arith a b c d : a < 256 -> b < 256 -> c < 256 -> d < 256 ->
  makeU32 a b c d = ((a * 2 ^ 8 + b) * 2 ^ 8 + c) * 2 ^ 8 + d.
Proof.
  intros Ha Hb Hc Hd. unfold makeU32. rewrite !shl32_mul.
  rewrite !N.mod_small by (rewrite ?p24, ?p16, ?p8, ?p32; lia).
  rewrite lor_disjoint_add by (rewrite p16, p24; lia).
  replace (a * 2 ^ 24 + b * 2 ^ 16) with ((a * 2 ^ 8 + b) * 2 ^ 16) by (rewrite p24, p16, p8; lia).
  rewrite lor_disjoint_add by (rewrite p8, p16; lia).
  replace ((a * 2 ^ 8 + b) * 2 ^ 16 + c * 2 ^ 8) with (((a * 2 ^ 8 + b) * 2 ^ 8 + c) * 2 ^ 8) by (rewrite p16, p8; lia).
  rewrite lor_disjoint_add by (rewrite p8; lia). reflexivity.
Qed.

Lemma sbox_word u : u < 2 ^ 32 ->
  exists a0 a1 a2 a3,
    idx sbox0 (N.to_nat (N.shiftr u 24)) = Ok a0 /\
    idx sbox1 (N.to_nat (N.land (N.shiftr u 16) 0xFF)) = Ok a1 /\
    idx sbox0 (N.to_nat (N.land (N.shiftr u 8) 0xFF)) = Ok a2 /\
    idx sbox1 (N.to_nat (N.land u 0xFF)) = Ok a3 /\
    makeU32 a0 a1 a2 a3 = Sbox u /\ Sbox u < 2 ^ 32.
Proof.
  intro Hu.
  change sbox0 with S0. change sbox1 with S1. change 0xFF with (N.ones 8).
  rewrite !land_ones_mod, !shiftr_div.
  assert (H0 : u / 2 ^ 24 < 256).
  { apply N.div_lt_upper_bound; [discriminate|]. rewrite p24. rewrite p32 in Hu. lia. }
  assert (H1 : (u / 2 ^ 16) mod 2 ^ 8 < 256) by (apply N.mod_lt; discriminate).
  assert (H2 : (u / 2 ^ 8) mod 2 ^ 8 < 256) by (apply N.mod_lt; discriminate).
  assert (H3 : u mod 2 ^ 8 < 256) by (apply N.mod_lt; discriminate).
  rewrite !idx_table by (rewrite ?S0_len, ?S1_len; lia).
  assert (B0 : sb S0 (u / 2 ^ 24) < 256) by (apply sb_octet; [apply S0_octets|rewrite S0_len; lia]).
  assert (B1 : sb S1 ((u / 2 ^ 16) mod 2 ^ 8) < 256) by (apply sb_octet; [apply S1_octets|rewrite S1_len; lia]).
  assert (B2 : sb S0 ((u / 2 ^ 8) mod 2 ^ 8) < 256) by (apply sb_octet; [apply S0_octets|rewrite S0_len; lia]).
  assert (B3 : sb S1 (u mod 2 ^ 8) < 256) by (apply sb_octet; [apply S1_octets|rewrite S1_len; lia]).
  do 4 eexists. repeat (split; [reflexivity|]).
  rewrite makeU32_arith by assumption.
  unfold Sbox. split; [reflexivity|].
  cbn zeta. revert B0 B1 B2 B3.
  generalize (sb S0 (u / 2 ^ 24)) (sb S1 ((u / 2 ^ 16) mod 2 ^ 8))
             (sb S0 ((u / 2 ^ 8) mod 2 ^ 8)) (sb S1 (u mod 2 ^ 8)).
  intros a b c d. rewrite p8, p32. lia.
Qed.

Definition f_out (x : list N) (r : list N) : N * list N :=
  let '(w, (r1, r2)) := F (nth 0 x 0) (nth 1 x 0) (nth 2 x 0) (nth 0 r 0, nth 1 r 0) in (w, [r1; r2]).

Definition regs_ok (r : list N) : Prop := length r = 2%nat /\ Forall word_ok r.

Lemma nonlinF_spec x r :
  length x = 4%nat -> Forall word_ok x -> regs_ok r ->
  nonlinF x r = Ok (f_out x r) /\ word_ok (fst (f_out x r)) /\ regs_ok (snd (f_out x r)).
Proof.
  intros Lx Fx [Lr Fr].
  destruct x as [|x0 [|x1 [|x2 [|x3 [|]]]]]; try discriminate Lx.
  destruct r as [|r1 [|r2 [|]]]; try discriminate Lr.
  inversion Fx as [|? ? X0 Fx1]; subst. inversion Fx1 as [|? ? X1 Fx2]; subst.
  inversion Fx2 as [|? ? X2 Fx3]; subst. inversion Fx3 as [|? ? X3 _]; subst.
  inversion Fr as [|? ? R1 Fr1]; subst. inversion Fr1 as [|? ? R2 _]; subst.
  unfold word_ok in *.
  unfold nonlinF, f_out, F. cbn [idx nth_error obind nth fst snd].
  assert (W1 : add32 r1 x1 < 2 ^ 32) by apply u32_lt.
  assert (W2 : N.lxor r2 x2 < 2 ^ 32) by (apply lxor_lt; assumption).
  rewrite !cat_lo_hi by assumption.
  pose proof (cat_lo_hi_lt (add32 r1 x1) (N.lxor r2 x2) W2) as C1.
  pose proof (cat_lo_hi_lt (N.lxor r2 x2) (add32 r1 x1) W1) as C2.
  destruct (sbox_word _ (l1_lt _ C1)) as (a0 & a1 & a2 & a3 & Ea0 & Ea1 & Ea2 & Ea3 & Ea & Ba).
  destruct (sbox_word _ (l2_lt _ C2)) as (b0 & b1 & b2 & b3 & Eb0 & Eb1 & Eb2 & Eb3 & Eb & Bb).
  rewrite Ea0, Ea1, Ea2, Ea3, Eb0, Eb1, Eb2, Eb3. cbn [obind].
  rewrite Ea, Eb. rewrite l1_spec, l2_spec in * by assumption.
  rewrite !add32_mod in *. unfold plus32.
  split; [reflexivity|]. cbn [fst snd]. split.
  - unfold word_ok. apply N.mod_lt. discriminate.
  - split; [reflexivity|]. repeat (constructor; try assumption).
Qed.

(* ---- key loading *)
Lemma load_cell_eq k d iv : k < 256 -> d < 2 ^ 15 -> iv < 256 ->
  N.lor (N.lor (shl32 k 23) (shl32 d 8)) iv = load_cell k d iv.
Proof.
  intros Hk Hd Hiv. unfold load_cell. rewrite !shl32_mul.
  change (2 ^ 23) with 8388608. rewrite p8, p15, p32 in *.
  rewrite !N.mod_small by lia.
  replace (k * 8388608) with (k * 2 ^ 23) by reflexivity.
  rewrite lor_disjoint_add by (change (2 ^ 23) with 8388608; lia).
  replace (k * 2 ^ 23 + d * 256) with ((k * 32768 + d) * 2 ^ 8) by (change (2 ^ 23) with 8388608; rewrite p8; lia).
  rewrite lor_disjoint_add by (rewrite p8; lia). rewrite p8. reflexivity.
Qed.

Lemma load_cell_ok k d iv : k < 256 -> 1 <= d < 2 ^ 15 -> iv < 256 -> cell_ok (load_cell k d iv).
Proof.
  intros Hk Hd Hiv. unfold load_cell, cell_ok, P. rewrite p8, p15, p31 in *. lia.
Qed.

Definition key_ok (k : bytes) : Prop := length k = 16%nat /\ bytes_ok k.

Ltac bytes16 k H :=
  let L := fresh "L" in let F := fresh "F" in
  destruct H as [L F];
  destruct (list16 k L) as (?k & ?k & ?k & ?k & ?k & ?k & ?k & ?k & ?k & ?k & ?k & ?k & ?k & ?k & ?k & ?k & ->);
  clear L; unfold bytes_ok, is_byte in F;
  repeat match goal with
         | H : Forall _ (_ :: _) |- _ => inversion H; clear H; subst
         | H : Forall _ [] |- _ => clear H
         end.

Lemma key_load_spec k iv : key_ok k -> key_ok iv ->
  key_load 16 0 k iv (repeat 0 16) = Ok (key_loading k D iv) /\ cells_ok (key_loading k D iv).
Proof.
  intros Hk Hiv. bytes16 k Hk. bytes16 iv Hiv.
  unfold D. cbn [key_loading].
  split.
  - cbn [key_load idx nth_error obind ek_d repeat set upd length Nat.ltb Nat.leb Nat.add].
    rewrite !load_cell_eq by (assumption || reflexivity). reflexivity.
  - split; [reflexivity|].
    repeat (constructor; [apply load_cell_ok; first [assumption | split; [discriminate|reflexivity]]|]).
    constructor.
Qed.

(* ---- initialisation and working stages *)
Definition st_of (s r : list N) : zstate := (s, (nth 0 r 0, nth 1 r 0)).

Lemma shiftr1_lt w : w < 2 ^ 32 -> N.shiftr w 1 < 2 ^ 31.
Proof.
  intro H. rewrite shiftr_div. apply N.div_lt_upper_bound; [discriminate|].
  rewrite p31. rewrite p32 in H. change (2 ^ 1) with 2. lia.
Qed.

Lemma clock_parts s r : cells_ok s -> regs_ok r ->
  exists x0 x1 x2 x3 w r1 r2,
    BitReorganization s = (x0, x1, x2, x3) /\
    F x0 x1 x2 (nth 0 r 0, nth 1 r 0) = (w, (r1, r2)) /\
    bitReorganization s = Ok [x0; x1; x2; x3] /\
    nonlinF [x0; x1; x2; x3] r = Ok (w, [r1; r2]) /\
    w < 2 ^ 32 /\ regs_ok [r1; r2].
Proof.
  intros Hs Hr.
  pose proof (bitReorganization_spec s Hs) as Eb.
  pose proof (br_words s Hs) as Wb.
  unfold br_list in *.
  destruct (BitReorganization s) as [[[x0 x1] x2] x3] eqn:EB.
  destruct (nonlinF_spec [x0; x1; x2; x3] r eq_refl Wb Hr) as (En & Hw & Hr').
  unfold f_out in *. cbn [nth] in *.
  destruct (F x0 x1 x2 (nth 0 r 0, nth 1 r 0)) as [w [r1 r2]] eqn:EF.
  exists x0, x1, x2, x3, w, r1, r2. cbn [fst snd] in *.
  repeat (split; [first [reflexivity | assumption]|]). apply Hr'.
Qed.

Lemma init_rounds_spec n : forall s r, cells_ok s -> regs_ok r ->
  exists s' r', init_rounds n s r = Ok (s', r') /\
                iterate n init_round (st_of s r) = st_of s' r' /\
                cells_ok s' /\ regs_ok r'.
Proof.
  induction n as [|n IH]; intros s r Hs Hr.
  - exists s, r. cbn. auto.
  - destruct (clock_parts s r Hs Hr) as (x0 & x1 & x2 & x3 & w & r1 & r2 & EB & EF & Eb & En & Hw & Hr').
    cbn [init_rounds iterate]. rewrite Eb. cbn [obind]. rewrite En. cbn [obind fst snd].
    rewrite state_init by (try assumption; apply shiftr1_lt; assumption). cbn [obind].
    destruct (IH (LFSRWithInitialisationMode s (N.shiftr w 1)) [r1; r2]) as (s' & r' & E1 & E2 & H1 & H2).
    { apply init_mode_ok; assumption. } { assumption. }
    exists s', r'. split; [exact E1|]. split; [|auto].
    rewrite <- E2. f_equal.
    unfold init_round, st_of. rewrite EB, EF. cbn [nth].
    rewrite shiftr_div. reflexivity.
Qed.

Lemma firstn_upd_snoc (l : list N) i v : (i < length l)%nat ->
  firstn (i + 1) (upd l i v) = firstn i l ++ [v].
Proof.
  revert i. induction l as [|h t IH]; intros [|i] H; cbn [length] in H; try lia.
  - reflexivity.
  - cbn [Nat.add upd firstn app]. f_equal. apply IH. lia.
Qed.

Lemma gen_loop_spec n : forall i s r stream, cells_ok s -> regs_ok r ->
  length stream = (i + n)%nat ->
  gen_loop n i s r stream = Ok (firstn i stream ++ work_stage n (st_of s r)).
Proof.
  induction n as [|n IH]; intros i s r stream Hs Hr Hl.
  - cbn [gen_loop work_stage]. rewrite app_nil_r, firstn_all2 by lia. reflexivity.
  - destruct (clock_parts s r Hs Hr) as (x0 & x1 & x2 & x3 & w & r1 & r2 & EB & EF & Eb & En & Hw & Hr').
    cbn [gen_loop work_stage]. rewrite Eb. cbn [obind]. rewrite En. cbn [obind fst snd idx nth_error].
    unfold set. destruct (Nat.ltb_spec i (length stream)) as [Hi|Hi]; [|lia]. cbn [obind].
    rewrite state_work by assumption. cbn [obind].
    rewrite IH; [|apply work_mode_ok; assumption|assumption|rewrite upd_length; lia].
    rewrite firstn_upd_snoc by assumption. rewrite <- app_assoc. cbn [app].
    assert (EW : work_step (st_of s r) = (N.lxor w x3, st_of (LFSRWithWorkMode s) [r1; r2])).
    { unfold work_step, st_of. rewrite EB, EF. reflexivity. }
    rewrite EW. reflexivity.
Qed.

(* the model of zuc.Zuc is the keystream generator of the specification *)
Theorem zuc_model_eq_spec k iv n : key_ok k -> key_ok iv ->
  Zuc k iv n = Ok (keystream k iv (N.to_nat n)).
Proof.
  intros Hk Hiv. unfold Zuc, initialization, keystream, init_stage.
  destruct (key_load_spec k iv Hk Hiv) as [E0 H0]. rewrite E0. cbn [obind].
  destruct (init_rounds_spec 32 (key_loading k D iv) [0; 0] H0) as (s & r & E1 & E2 & Hs & Hr).
  { split; [reflexivity|]. repeat constructor; reflexivity. }
  rewrite E1. cbn [obind fst snd].
  change (key_loading k D iv, (0, 0)) with (st_of (key_loading k D iv) [0; 0]). rewrite E2.
  unfold generateKeystream.
  destruct (clock_parts s r Hs Hr) as (x0 & x1 & x2 & x3 & w & r1 & r2 & EB & EF & Eb & En & Hw & Hr').
  rewrite Eb. cbn [obind]. rewrite En. cbn [obind fst snd].
  rewrite state_work by assumption. cbn [obind].
  rewrite gen_loop_spec; [|apply work_mode_ok; assumption|assumption|rewrite repeat_length; reflexivity].
  cbn [firstn app].
  assert (EW : work_step (st_of s r) = (N.lxor w x3, st_of (LFSRWithWorkMode s) [r1; r2])).
  { unfold work_step, st_of. rewrite EB, EF. reflexivity. }
  rewrite EW. reflexivity.
Qed.

(* ---- every keystream word is a 32-bit word *)
Lemma work_stage_ok n : forall s r, cells_ok s -> regs_ok r ->
  Forall word_ok (work_stage n (st_of s r)).
Proof.
  induction n as [|n IH]; intros s r Hs Hr; [constructor|].
  destruct (clock_parts s r Hs Hr) as (x0 & x1 & x2 & x3 & w & r1 & r2 & EB & EF & Eb & En & Hw & Hr').
  assert (EW : work_step (st_of s r) = (N.lxor w x3, st_of (LFSRWithWorkMode s) [r1; r2])).
  { unfold work_step, st_of. rewrite EB, EF. reflexivity. }
  cbn [work_stage]. rewrite EW. constructor.
  - pose proof (br_words s Hs) as Wb. unfold br_list in Wb. rewrite EB in Wb.
    unfold word_ok. apply lxor_lt; [exact Hw|].
    inversion Wb as [|? ? _ W1]; subst. inversion W1 as [|? ? _ W2]; subst.
    inversion W2 as [|? ? _ W3]; subst. inversion W3; subst. assumption.
  - apply IH; [apply work_mode_ok; assumption|assumption].
Qed.

Lemma keystream_words_ok k iv n : key_ok k -> key_ok iv -> Forall word_ok (keystream k iv n).
Proof.
  intros Hk Hiv. unfold keystream, init_stage.
  destruct (key_load_spec k iv Hk Hiv) as [_ H0].
  destruct (init_rounds_spec 32 (key_loading k D iv) [0; 0] H0) as (s & r & _ & E2 & Hs & Hr).
  { split; [reflexivity|]. repeat constructor; reflexivity. }
  change (key_loading k D iv, (0, 0)) with (st_of (key_loading k D iv) [0; 0]). rewrite E2.
  destruct (clock_parts s r Hs Hr) as (x0 & x1 & x2 & x3 & w & r1 & r2 & EB & EF & Eb & En & Hw & Hr').
  assert (EW : work_step (st_of s r) = (N.lxor w x3, st_of (LFSRWithWorkMode s) [r1; r2])).
  { unfold work_step, st_of. rewrite EB, EF. reflexivity. }
  rewrite EW. cbn [snd]. apply work_stage_ok; [apply work_mode_ok; assumption|assumption].
Qed.

Lemma work_stage_length n : forall st, length (work_stage n st) = n.
Proof.
  induction n as [|n IH]; intro st; [reflexivity|].
  cbn [work_stage]. destruct (work_step st) as [z st']. cbn [length]. f_equal. apply IH.
Qed.

(* the keystream of n words is a prefix of the keystream of n + m words *)
Lemma work_stage_prefix n m : forall st, work_stage n st = firstn n (work_stage (n + m) st).
Proof.
  induction n as [|n IH]; intro st; [reflexivity|].
  cbn [Nat.add work_stage]. destruct (work_step st) as [z st']. cbn [firstn]. f_equal. apply IH.
Qed.

Lemma keystream_prefix k iv n m : keystream k iv n = firstn n (keystream k iv (n + m)).
Proof. unfold keystream. apply work_stage_prefix. Qed.
