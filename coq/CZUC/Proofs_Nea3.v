(* CZUC: closed form of the model of security.NEA3, equality with 128-EEA3, and the C08 laws. *)
From NV Require Import Lib.Base Lib.Bits CZUC.Spec CZUC.Model CZUC.Proofs_Bits CZUC.Proofs_BitStr CZUC.Proofs_Zuc.
From Coq Require Import ZifyN ZifyNat ZifyBool.
Open Scope N_scope.
Ltac Zify.zify_post_hook ::= Z.div_mod_to_equations.

Arguments N.land : simpl never.
Arguments N.lor : simpl never.
Arguments N.lxor : simpl never.
Arguments N.shiftl : simpl never.
Arguments N.shiftr : simpl never.
Arguments N.modulo : simpl never.
Arguments N.div : simpl never.
Arguments N.pow : simpl never.
Arguments N.add : simpl never.
Arguments N.mul : simpl never.
Arguments N.sub : simpl never.
Arguments N.testbit : simpl never.
Arguments N.of_nat : simpl never.
Arguments N.to_nat : simpl never.

(* ---- the IV the code builds *)
Definition nea3_iv (count bearer direction : N) : bytes :=
  let h := put_count count ++ [N.lor (shl8 bearer 3) (shl8 direction 2); 0; 0; 0] in h ++ h.

Lemma u8_byte x : is_byte (u8 x).
Proof. unfold is_byte. apply (u8_lt x). Qed.

Lemma nea3_iv_ok count bearer direction : key_ok (nea3_iv count bearer direction).
Proof.
  split; [reflexivity|]. unfold nea3_iv, put_count, bytes_ok. cbn [app].
  assert (B : is_byte (N.lor (shl8 bearer 3) (shl8 direction 2))).
  { unfold is_byte. apply (lor_lt _ _ 8); apply u8_lt. }
  assert (Z : is_byte 0) by (unfold is_byte; lia).
  repeat (constructor; [first [apply u8_byte | exact B | exact Z]|]). constructor.
Qed.

Lemma nea3_iv_spec count bearer direction :
  count < 2 ^ 32 -> bearer < 32 -> direction < 2 ->
  nea3_iv count bearer direction = EEA3Spec.iv count bearer direction.
Proof.
  intros Hc Hb Hd. unfold nea3_iv, EEA3Spec.iv, put_count, word_octets.
  rewrite !u8_mod, !shiftr_div, !shl8_mul.
  assert (E0 : (count / 2 ^ 24) mod 2 ^ 8 = count / 2 ^ 24).
  { apply N.mod_small. apply N.div_lt_upper_bound; [discriminate|]. rewrite p24, p8. rewrite p32 in Hc. lia. }
  rewrite E0.
  assert (E4 : N.lor ((bearer * 2 ^ 3) mod 2 ^ 8) ((direction * 2 ^ 2) mod 2 ^ 8)
               = bearer * 2 ^ 3 + direction * 2 ^ 2).
  { change (2 ^ 3) with 8. change (2 ^ 2) with 4. rewrite p8.
    rewrite !N.mod_small by lia. change 8 with (2 ^ 3).
    apply lor_disjoint_add. change (2 ^ 3) with 8. lia. }
  rewrite E4. reflexivity.
Qed.

(* ---- list helpers *)
Lemma upd_app_mid (a b : bytes) x k v : length a = k -> upd (a ++ x :: b) k v = a ++ v :: b.
Proof.
  revert k. induction a as [|h a IH]; intros k H; cbn [length] in H; subst k; [reflexivity|].
  cbn [app upd length]. f_equal. apply IH. reflexivity.
Qed.

Lemma firstn_succ_nth {A} (l : list A) k v : nth_error l k = Some v ->
  firstn (k + 1) l = firstn k l ++ [v].
Proof.
  revert k. induction l as [|h l IH]; intros [|k] H; cbn [nth_error] in H; try discriminate.
  - injection H as ->. reflexivity.
  - cbn [Nat.add firstn app]. f_equal. apply IH. exact H.
Qed.

Lemma nth_error_Some_ex {A} (l : list A) k : (k < length l)%nat -> exists v, nth_error l k = Some v.
Proof.
  intro H. destruct (nth_error l k) eqn:E; [eauto|]. apply nth_error_None in E. lia.
Qed.

(* ---- the two loops of NEA3 *)
Section Loops.
  Variables (ibs : bytes) (stream : list N) (nb : nat).
  Let len := length ibs.
  Let X := xor_bytes ibs (ksbytes stream).
  Definition Pk (k : nat) : bytes := firstn k X ++ repeat 0 (len - k).
  Lemma X_length : length X = Nat.min len (4 * length stream).
  Proof. unfold X. rewrite xor_bytes_length, ksbytes_length. reflexivity. Qed.

  Lemma Pk_length k : (k <= len)%nat -> (k <= 4 * length stream)%nat -> length (Pk k) = len.
  Proof.
    intros H1 H2. unfold Pk. rewrite app_length, firstn_length, repeat_length, X_length. lia.
  Qed.

  Hypothesis nb_le : (nb <= len)%nat.

  Lemma nea3_inner_spec i n : forall j, (j + n = 4)%nat -> (i < length stream)%nat ->
    nea3_inner n j i nb ibs stream (Pk (Nat.min nb (i * 4 + j)))
    = Ok (Pk (Nat.min nb (i * 4 + 4))).
  Proof.
    induction n as [|n IH]; intros j Hj Hi.
    - replace j with 4%nat by lia. reflexivity.
    - cbn [nea3_inner]. destruct (Nat.ltb_spec (i * 4 + j) nb) as [Hlt|Hge].
      + set (k := (i * 4 + j)%nat) in *.
        destruct (nth_error_Some_ex ibs k) as [b Eb]; [fold len; lia|].
        destruct (nth_error_Some_ex stream i Hi) as [w Ew].
        unfold idx. rewrite Eb, Ew. cbn [obind].
        assert (Ex : nth_error X k = Some (N.lxor b (u8 (N.land (N.shiftr w (8 * (3 - N.of_nat j))) 255)))).
        { unfold X. apply nth_error_xor_bytes; [exact Eb|]. apply nth_error_ksbytes; [exact Ew|lia]. }
        replace (Nat.min nb k) with k by lia.
        unfold set. rewrite Pk_length by lia.
        destruct (Nat.ltb_spec k len) as [_|Hbad]; [|lia]. cbn [obind].
        assert (Hf : length (firstn k X) = k) by (rewrite firstn_length, X_length; lia).
        unfold Pk at 1. replace (len - k)%nat with (S (len - (k + 1)))%nat by lia.
        cbn [repeat]. rewrite upd_app_mid by exact Hf.
        replace (firstn k X ++ _ :: repeat 0 (len - (k + 1))) with (Pk (k + 1)).
        * replace (k + 1)%nat with (Nat.min nb (i * 4 + (j + 1))) by lia.
          apply IH; lia.
        * unfold Pk. rewrite (firstn_succ_nth X k _ Ex), <- app_assoc. reflexivity.
      + f_equal. f_equal. lia.
  Qed.

  Lemma nea3_outer_spec n : forall i, (i + n <= length stream)%nat ->
    nea3_outer n i nb ibs stream (Pk (Nat.min nb (i * 4)))
    = Ok (Pk (Nat.min nb ((i + n) * 4))).
  Proof.
    induction n as [|n IH]; intros i Hi.
    - cbn [nea3_outer]. rewrite Nat.add_0_r. reflexivity.
    - cbn [nea3_outer].
      replace (i * 4)%nat with (i * 4 + 0)%nat at 1 by lia.
      rewrite (nea3_inner_spec i 4 0) by lia. cbn [obind].
      replace (i * 4 + 4)%nat with ((i + 1) * 4)%nat by lia.
      rewrite IH by lia. do 3 f_equal. lia.
  Qed.
End Loops.

Lemma zero_from_spec n : forall j (obs : bytes), (j + n = length obs)%nat ->
  zero_from n j obs = Ok (firstn j obs ++ repeat 0 n).
Proof.
  induction n as [|n IH]; intros j obs H.
  - cbn [zero_from repeat]. rewrite app_nil_r, firstn_all2 by lia. reflexivity.
  - cbn [zero_from]. unfold set. destruct (Nat.ltb_spec j (length obs)) as [_|Hbad]; [|lia].
    cbn [obind]. rewrite IH by (rewrite upd_length; lia).
    rewrite firstn_upd_snoc by lia. rewrite <- app_assoc. reflexivity.
Qed.

(* ---- closed form of NEA3 *)
Definition nea3_closed (ibs : bytes) (stream : list N) (length : N) : bytes :=
  let X := xor_bytes ibs (ksbytes stream) in
  let len := List.length ibs in
  let q := N.to_nat (length / 8) in
  if length mod 8 =? 0 then firstn q X ++ repeat 0 (len - q)
  else firstn q X ++ N.land (nth q X 0) (shl8 0xff (8 - length mod 8)) :: repeat 0 (len - q - 1).

Definition nea3_words (length : N) : nat := N.to_nat ((length + 31) / 32).

Definition nea3_stream (ck : bytes) (count bearer direction length : N) : list N :=
  ZucSpec.keystream ck (nea3_iv count bearer direction) (nea3_words length).

Theorem nea3_closed_form ck count bearer direction ibs length :
  key_ok ck -> length <= 8 * N.of_nat (List.length ibs) -> length + 31 < 2 ^ 32 ->
  NEA3 ck count bearer direction ibs length
  = Ok (nea3_closed ibs (nea3_stream ck count bearer direction length) length).
Proof.
  intros Hk Hlen H32. unfold NEA3.
  cbn [put_count app repeat set upd List.length Nat.ltb Nat.leb copy_iv idx nth_error Nat.add obind].
  change (_ :: _ :: _ :: _ :: N.lor (shl8 bearer 3) (shl8 direction 2) :: _) with (nea3_iv count bearer direction).
  rewrite (u32_small (length + 31)) by assumption.
  rewrite (u32_small (length + 7)) by (rewrite p32 in *; lia).
  rewrite zuc_model_eq_spec by (assumption || apply nea3_iv_ok). cbn [obind].
  fold (nea3_words length). fold (nea3_stream ck count bearer direction length).
  set (stream := nea3_stream ck count bearer direction length).
  assert (Ls : List.length stream = nea3_words length).
  { unfold stream, nea3_stream, ZucSpec.keystream.
    generalize (snd (ZucSpec.work_step (ZucSpec.init_stage ck (nea3_iv count bearer direction)))).
    generalize (nea3_words length) as n. induction n as [|n IH]; intro st; [reflexivity|].
    cbn [ZucSpec.work_stage]. destruct (ZucSpec.work_step st) as [z st']. cbn [List.length]. f_equal. apply IH. }
  set (len := List.length ibs) in *.
  set (nb := N.to_nat ((length + 7) / 8)).
  set (q := N.to_nat (length / 8)).
  assert (Hnb : (nb <= len)%nat) by (unfold nb; lia).
  assert (Hnl : (nb <= nea3_words length * 4)%nat) by (unfold nb, nea3_words; lia).
  assert (Hnb0 : length mod 8 = 0 -> nb = q) by (unfold nb, q; lia).
  assert (Hnb1 : length mod 8 <> 0 -> nb = (q + 1)%nat) by (unfold nb, q; lia).
  clearbody nb.
  pose proof (nea3_outer_spec ibs stream nb Hnb (nea3_words length) 0) as Ho.
  rewrite Nat.mul_0_l, Nat.min_0_r, Nat.add_0_l in Ho.
  unfold Pk at 1 in Ho. cbn [firstn app] in Ho. rewrite Nat.sub_0_r in Ho. fold len in Ho.
  rewrite Ho by lia. clear Ho. cbn [obind].
  replace (Nat.min nb (nea3_words length * 4)) with nb by lia.
  unfold nea3_closed. fold len. fold q.
  set (X := xor_bytes ibs (ksbytes stream)).
  assert (LX : List.length X = Nat.min len (4 * nea3_words length)).
  { unfold X. rewrite xor_bytes_length, ksbytes_length, Ls. reflexivity. }
  destruct (N.eqb_spec (length mod 8) 0) as [Hr|Hr]; cbn [negb].
  - (* whole octets *)
    rewrite (Hnb0 Hr) in *. clear Hnb0 Hnb1. cbn [obind].
    assert (Hf : List.length (firstn q X) = q) by (rewrite firstn_length, LX; lia).
    assert (LP : List.length (Pk ibs stream q) = len) by (apply Pk_length; rewrite ?Ls; lia).
    replace (N.to_nat (length / 8 + 1)) with (q + 1)%nat by (unfold q; lia).
    rewrite LP.
    destruct (Nat.le_gt_cases (q + 1) len) as [Hq|Hq].
    + rewrite zero_from_spec by lia. f_equal.
      unfold Pk. fold len. fold X.
      replace (len - q)%nat with (S (len - (q + 1)))%nat by lia. cbn [repeat].
      rewrite firstn_app, Hf. replace (q + 1 - q)%nat with 1%nat by lia. cbn [firstn].
      rewrite firstn_all2 by lia. rewrite <- app_assoc. reflexivity.
    + replace (len - (q + 1))%nat with 0%nat by lia. reflexivity.
  - (* a partial last octet *)
    rewrite (Hnb1 Hr) in *. clear Hnb0 Hnb1.
    assert (Hq : (q < len)%nat) by lia.
    assert (Hf : List.length (firstn q X) = q) by (rewrite firstn_length, LX; lia).
    destruct (nth_error_Some_ex X q) as [xq Exq]; [rewrite LX; lia|].
    assert (EP : Pk ibs stream (q + 1) = firstn q X ++ xq :: repeat 0 (len - q - 1)).
    { unfold Pk. fold len. fold X. rewrite (firstn_succ_nth X q xq Exq), <- app_assoc.
      cbn [app]. do 3 f_equal. lia. }
    rewrite EP. unfold idx. rewrite nth_error_app2 by lia. rewrite Hf, Nat.sub_diag.
    cbn [nth_error obind]. unfold set. rewrite app_length, Hf. cbn [List.length]. rewrite repeat_length.
    destruct (Nat.ltb_spec q (q + S (len - q - 1))) as [_|Hbad]; [|lia]. cbn [obind].
    rewrite upd_app_mid by exact Hf.
    rewrite (nth_error_nth X q 0 Exq).
    replace (N.to_nat (length / 8 + 1)) with (q + 1)%nat by (unfold q; lia).
    rewrite app_length, Hf. cbn [List.length]. rewrite repeat_length.
    rewrite zero_from_spec by (rewrite app_length, Hf; cbn [List.length]; rewrite repeat_length; lia).
    f_equal. rewrite firstn_app, Hf. replace (q + 1 - q)%nat with 1%nat by lia. cbn [firstn].
    rewrite firstn_all2 by lia. rewrite <- app_assoc. cbn [app]. do 3 f_equal. lia.
Qed.

(* ---- NEA3 = 128-EEA3 on the first [length] bits; the remaining bits are zero *)
Lemma octets_bits_app a b : octets_bits (a ++ b) = octets_bits a ++ octets_bits b.
Proof. unfold octets_bits. apply flat_map_app. Qed.

Lemma octets_bits_zeros n : octets_bits (repeat 0 n) = repeat false (8 * n).
Proof.
  induction n as [|n IH]; [reflexivity|].
  cbn [repeat]. change (0 :: repeat 0 n) with ([0] ++ repeat 0 n).
  rewrite octets_bits_app, IH. replace (8 * S n)%nat with (8 + 8 * n)%nat by lia.
  rewrite repeat_app. reflexivity.
Qed.

Lemma mask_bits x r : 0 < r < 8 ->
  bitsN 8 (N.land x (shl8 0xff (8 - r)))
  = firstn (N.to_nat r) (bitsN 8 x) ++ repeat false (8 - N.to_nat r).
Proof.
  intro Hr.
  assert (C : r = 1 \/ r = 2 \/ r = 3 \/ r = 4 \/ r = 5 \/ r = 6 \/ r = 7) by lia.
  cbn [bitsN]. rewrite !N.land_spec.
  destruct C as [->|[->|[->|[->|[->|[->| ->]]]]]];
    repeat match goal with
           | |- context [N.testbit (shl8 ?a ?b) (N.of_nat ?i)] =>
               let v := eval vm_compute in (N.testbit (shl8 a b) (N.of_nat i)) in
               change (N.testbit (shl8 a b) (N.of_nat i)) with v
           end;
    rewrite ?Bool.andb_true_r, ?Bool.andb_false_r; reflexivity.
Qed.

Lemma firstn_octets_bits q r (X : bytes) xq : nth_error X q = Some xq -> (r <= 8)%nat ->
  firstn (8 * q + r) (octets_bits X) = octets_bits (firstn q X) ++ firstn r (bitsN 8 xq).
Proof.
  intros Hx Hr. rewrite firstn_add. unfold octets_bits.
  rewrite (firstn_flat_map (bitsN 8) 8) by (intro; apply bitsN_length).
  rewrite (skipn_flat_map (bitsN 8) 8) by (intro; apply bitsN_length).
  f_equal.
  assert (E : skipn q X = xq :: skipn (S q) X).
  { clear Hr. revert q Hx. induction X as [|h X IH]; intros [|q] H; cbn [nth_error] in H; try discriminate.
    - injection H as ->. reflexivity.
    - cbn [skipn]. apply IH. exact H. }
  rewrite E. cbn [flat_map]. rewrite firstn_app, bitsN_length.
  replace (r - 8)%nat with 0%nat by lia. cbn [firstn]. apply app_nil_r.
Qed.

Lemma ceil_div_32 (L : N) : ceil_div (N.to_nat L) 32 = nea3_words L.
Proof.
  unfold ceil_div, nea3_words.
  replace (N.to_nat L + 32 - 1)%nat with (N.to_nat (L + 31)) by lia.
  change 32%nat with (N.to_nat 32). rewrite <- N2Nat.inj_div. reflexivity.
Qed.

Lemma keystream_length k iv n : List.length (ZucSpec.keystream k iv n) = n.
Proof.
  unfold ZucSpec.keystream.
  generalize (snd (ZucSpec.work_step (ZucSpec.init_stage k iv))).
  induction n as [|n IH]; intro st; [reflexivity|].
  cbn [ZucSpec.work_stage]. destruct (ZucSpec.work_step st) as [z st']. cbn [List.length]. f_equal. apply IH.
Qed.

Theorem nea3_closed_bits ck count bearer direction ibs length :
  count < 2 ^ 32 -> bearer < 32 -> direction < 2 ->
  length <= 8 * N.of_nat (List.length ibs) ->
  octets_bits (nea3_closed ibs (nea3_stream ck count bearer direction length) length)
  = EEA3Spec.eea3 ck count bearer direction (firstn (N.to_nat length) (octets_bits ibs))
    ++ repeat false (8 * List.length ibs - N.to_nat length).
Proof.
  intros Hc Hb Hd Hlen.
  unfold EEA3Spec.eea3.
  rewrite firstn_length, octets_bits_length.
  replace (Nat.min (N.to_nat length) (8 * List.length ibs)) with (N.to_nat length) by lia.
  rewrite ceil_div_32, <- nea3_iv_spec by assumption.
  fold (nea3_stream ck count bearer direction length).
  set (stream := nea3_stream ck count bearer direction length).
  assert (Ls : List.length stream = nea3_words length) by apply keystream_length.
  unfold nea3_closed.
  set (X := xor_bytes ibs (ksbytes stream)).
  set (len := List.length ibs) in *.
  set (q := N.to_nat (length / 8)).
  assert (LX : List.length X = Nat.min len (4 * nea3_words length)).
  { unfold X. rewrite xor_bytes_length, ksbytes_length, Ls. reflexivity. }
  assert (XB : octets_bits X = xor_bits (octets_bits ibs) (words_bits stream)).
  { unfold X. rewrite xor_bytes_bits, ksbytes_bits. reflexivity. }
  assert (Hw : (N.to_nat length <= 32 * nea3_words length)%nat) by (unfold nea3_words; lia).
  assert (FX : forall n, (n <= 8 * len)%nat ->
               firstn n (octets_bits X) = xor_bits (firstn n (octets_bits ibs)) (words_bits stream)).
  { intros n Hn. rewrite XB, firstn_xor_bits.
    rewrite (xor_bits_firstn_l (firstn n (octets_bits ibs)) (words_bits stream)).
    rewrite firstn_length, octets_bits_length. fold len. replace (Nat.min n (8 * len)) with n by lia.
    reflexivity. }
  destruct (N.eqb_spec (length mod 8) 0) as [Hr|Hr].
  - assert (EL : N.to_nat length = (8 * q)%nat) by (unfold q; lia).
    rewrite octets_bits_app, octets_bits_zeros.
    unfold octets_bits at 1. rewrite <- (firstn_flat_map (bitsN 8) 8) by (intro; apply bitsN_length).
    fold (octets_bits X). rewrite FX by lia. rewrite EL. do 2 f_equal. lia.
  - assert (Hq : (q < len)%nat) by (unfold q; lia).
    destruct (nth_error_Some_ex X q) as [xq Exq]; [rewrite LX; unfold q, nea3_words; lia|].
    rewrite (nth_error_nth X q 0 Exq).
    change (firstn q X ++ ?a :: ?t) with (firstn q X ++ [a] ++ t).
    rewrite !octets_bits_app, octets_bits_zeros.
    unfold octets_bits at 2. cbn [flat_map]. rewrite app_nil_r.
    rewrite mask_bits by lia.
    set (r := N.to_nat (length mod 8)).
    assert (EL : N.to_nat length = (8 * q + r)%nat) by (unfold q, r; lia).
    rewrite <- FX by lia. rewrite EL.
    rewrite (firstn_octets_bits q r X xq Exq) by (unfold r; lia).
    rewrite <- !app_assoc. do 2 f_equal. rewrite <- repeat_app. f_equal. unfold r in *. lia.
Qed.

Theorem nea3_eq_eea3 ck count bearer direction ibs length :
  key_ok ck -> count < 2 ^ 32 -> bearer < 32 -> direction < 2 ->
  length <= 8 * N.of_nat (List.length ibs) -> length + 31 < 2 ^ 32 ->
  exists obs,
    NEA3 ck count bearer direction ibs length = Ok obs /\
    List.length obs = List.length ibs /\
    octets_bits obs
    = EEA3Spec.eea3 ck count bearer direction (firstn (N.to_nat length) (octets_bits ibs))
      ++ repeat false (8 * List.length ibs - N.to_nat length).
Proof.
  intros Hk Hc Hb Hd Hlen H32. eexists. split; [apply nea3_closed_form; assumption|].
  split; [|apply nea3_closed_bits; assumption].
  pose proof (nea3_closed_bits ck count bearer direction ibs length Hc Hb Hd Hlen) as E.
  apply (f_equal (@List.length bool)) in E.
  rewrite octets_bits_length, app_length, repeat_length in E.
  unfold EEA3Spec.eea3 in E.
  repeat rewrite ?xor_bits_length, ?firstn_length, ?octets_bits_length, ?words_bits_length, ?keystream_length in E.
  replace (Nat.min (N.to_nat length) (8 * List.length ibs)) with (N.to_nat length) in E by lia.
  rewrite ceil_div_32 in E. unfold nea3_words in E. lia.
Qed.
