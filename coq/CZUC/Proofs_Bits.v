(* CZUC: Go bit operations of the model as div / mod arithmetic. *)
From NV Require Import Lib.Base Lib.Bits CZUC.Model.
From Coq Require Import ZifyN ZifyNat ZifyBool.
Open Scope N_scope.
Ltac Zify.zify_post_hook ::= Z.div_mod_to_equations.

Arguments N.land : simpl never.
Arguments N.lor : simpl never.
Arguments N.lxor : simpl never.
Arguments N.shiftl : simpl never.
Arguments N.shiftr : simpl never.
Arguments N.modulo : simpl never.
Arguments N.div : simpl never.
Arguments N.pow : simpl never.
Arguments N.add : simpl never.
Arguments N.mul : simpl never.
Arguments N.sub : simpl never.
Arguments N.testbit : simpl never.

Lemma u32_mod x : u32 x = x mod 2 ^ 32.
Proof. unfold u32. change 0xFFFFFFFF with (N.ones 32). apply land_ones_mod. Qed.

Lemma u8_mod x : u8 x = x mod 2 ^ 8.
Proof. unfold u8. change 0xFF with (N.ones 8). apply land_ones_mod. Qed.

Lemma u32_lt x : u32 x < 2 ^ 32.
Proof. rewrite u32_mod. apply N.mod_lt. apply N.pow_nonzero. lia. Qed.

Lemma u8_lt x : u8 x < 2 ^ 8.
Proof. rewrite u8_mod. apply N.mod_lt. apply N.pow_nonzero. lia. Qed.

Lemma u32_small x : x < 2 ^ 32 -> u32 x = x.
Proof. intro. rewrite u32_mod. apply N.mod_small. assumption. Qed.

Lemma add32_mod a b : add32 a b = (a + b) mod 2 ^ 32.
Proof. apply u32_mod. Qed.

Lemma shl32_mul a k : shl32 a k = (a * 2 ^ k) mod 2 ^ 32.
Proof. unfold shl32. rewrite u32_mod, shiftl_mul. reflexivity. Qed.

Lemma shl8_mul a k : shl8 a k = (a * 2 ^ k) mod 2 ^ 8.
Proof. unfold shl8. rewrite u8_mod, shiftl_mul. reflexivity. Qed.

Lemma pow2_split a b : b <= a -> 2 ^ a = 2 ^ (a - b) * 2 ^ b.
Proof. intro H. rewrite <- N.pow_add_r. f_equal. lia. Qed.

(* (a << k) as uint32 keeps the low 32-k bits of a *)
Lemma shl32_arith a k : k <= 32 -> shl32 a k = (a mod 2 ^ (32 - k)) * 2 ^ k.
Proof.
  intro Hk. rewrite shl32_mul. rewrite (pow2_split 32 k) by assumption.
  rewrite N.mul_mod_distr_r; try (apply N.pow_nonzero; lia). reflexivity.
Qed.

Lemma div_pow2_lt a n k : k <= n -> a < 2 ^ n -> a / 2 ^ (n - k) < 2 ^ k.
Proof.
  intros Hk Ha. apply N.div_lt_upper_bound. apply N.pow_nonzero; lia.
  rewrite <- pow2_split; assumption.
Qed.

(* (a << k) | b for b below 2^k *)
Lemma shl32_lor a k b : k <= 32 -> b < 2 ^ k ->
  N.lor (shl32 a k) b = (a mod 2 ^ (32 - k)) * 2 ^ k + b.
Proof. intros Hk Hb. rewrite shl32_arith by assumption. apply lor_disjoint_add. assumption. Qed.

Lemma lxor_lt a b n : a < 2 ^ n -> b < 2 ^ n -> N.lxor a b < 2 ^ n.
Proof.
  intros Ha Hb.
  destruct (N.eq_dec (N.lxor a b) 0) as [->|Hnz]; [apply pow2_pos|].
  apply N.log2_lt_pow2; [lia|].
  eapply N.le_lt_trans; [apply N.log2_lxor|].
  destruct (N.eq_dec a 0) as [->|Ha0]; destruct (N.eq_dec b 0) as [->|Hb0];
    try (rewrite N.lxor_0_r in Hnz || rewrite N.lxor_0_l in Hnz); try lia.
  - rewrite N.max_r by (apply N.log2_nonneg || (change (N.log2 0) with 0; lia)).
    apply N.log2_lt_pow2; lia.
  - rewrite N.max_l by (change (N.log2 0) with 0; lia). apply N.log2_lt_pow2; lia.
  - apply N.max_lub_lt; apply N.log2_lt_pow2; lia.
Qed.

Lemma lor_lt a b n : a < 2 ^ n -> b < 2 ^ n -> N.lor a b < 2 ^ n.
Proof.
  intros Ha Hb.
  destruct (N.eq_dec (N.lor a b) 0) as [->|Hnz]; [apply pow2_pos|].
  apply N.log2_lt_pow2; [lia|].
  rewrite N.log2_lor.
  destruct (N.eq_dec a 0) as [->|Ha0]; destruct (N.eq_dec b 0) as [->|Hb0];
    try (rewrite N.lor_0_r in Hnz || rewrite N.lor_0_l in Hnz); try lia.
  - change (N.log2 0) with 0. rewrite N.max_r by lia. apply N.log2_lt_pow2; lia.
  - change (N.log2 0) with 0. rewrite N.max_l by lia. apply N.log2_lt_pow2; lia.
  - apply N.max_lub_lt; apply N.log2_lt_pow2; lia.
Qed.

Lemma land_lt_r a b n : b < 2 ^ n -> N.land a b < 2 ^ n.
Proof.
  intro Hb.
  destruct (N.eq_dec (N.land a b) 0) as [->|Hnz]; [apply pow2_pos|].
  apply N.log2_lt_pow2; [lia|].
  eapply N.le_lt_trans; [apply N.log2_land|].
  destruct (N.eq_dec b 0) as [->|Hb0]; [rewrite N.land_0_r in Hnz; lia|].
  eapply N.le_lt_trans; [apply N.le_min_r|]. apply N.log2_lt_pow2; lia.
Qed.

(* ---- 32-bit rotation *)
Lemma rot_arith x k : x < 2 ^ 32 -> 0 < k < 32 ->
  rot x k = (x * 2 ^ k) mod 2 ^ 32 + x / 2 ^ (32 - k).
Proof.
  intros Hx Hk. unfold rot. rewrite shiftr_div.
  rewrite shl32_lor by first [lia | apply div_pow2_lt; [lia|assumption]].
  rewrite <- shl32_arith by lia. rewrite shl32_mul. reflexivity.
Qed.

Lemma rot_lt x k : x < 2 ^ 32 -> 0 < k < 32 -> rot x k < 2 ^ 32.
Proof.
  intros Hx Hk. unfold rot. apply lor_lt. apply u32_lt.
  rewrite shiftr_div. eapply N.le_lt_trans; [apply N.div_le_upper_bound with (q := x)|exact Hx].
  apply N.pow_nonzero; lia. 
  assert (1 <= 2 ^ (32 - k)) by (pose proof (pow2_pos (32-k)); lia). nia.
Qed.

(* ---- the 31-bit rotation of the LFSR = multiplication by 2^k modulo 2^31 - 1 *)
Definition P : N := 2 ^ 31 - 1.

Lemma rot31_arith a k : a < 2 ^ 31 -> 0 < k < 31 ->
  rot31 a k = (a mod 2 ^ (31 - k)) * 2 ^ k + a / 2 ^ (31 - k).
Proof.
  intros Ha Hk. unfold rot31. change 0x7FFFFFFF with (N.ones 31).
  rewrite N.land_lor_distr_l, !land_ones_mod, shiftr_div, shl32_mul.
  rewrite (mod_mod_pow _ 31 32) by lia.
  rewrite (pow2_split 31 k) at 1 by lia.
  rewrite N.mul_mod_distr_r by (apply N.pow_nonzero; lia).
  assert (Hhi : a / 2 ^ (31 - k) < 2 ^ k) by (apply div_pow2_lt; [lia|assumption]).
  rewrite (N.mod_small (a / 2 ^ (31 - k))).
  - apply lor_disjoint_add. assumption.
  - eapply N.lt_le_trans; [exact Hhi|]. apply N.pow_le_mono_r; lia.
Qed.

Lemma rot31_lt a k : a < 2 ^ 31 -> 0 < k < 31 -> rot31 a k < 2 ^ 31.
Proof.
  intros Ha Hk. unfold rot31. apply land_lt_r. reflexivity.
Qed.

Lemma rot31_mod a k : a < 2 ^ 31 -> 0 < k < 31 ->
  rot31 a k mod P = (2 ^ k * a) mod P.
Proof.
  intros Ha Hk. rewrite rot31_arith by assumption.
  set (lo := a mod 2 ^ (31 - k)). set (hi := a / 2 ^ (31 - k)).
  assert (Ea : a = hi * 2 ^ (31 - k) + lo).
  { unfold hi, lo. rewrite N.mul_comm. apply N.div_mod. apply N.pow_nonzero; lia. }
  rewrite Ea at 1.
  replace (2 ^ k * (hi * 2 ^ (31 - k) + lo)) with (lo * 2 ^ k + hi + hi * P).
  - rewrite N.mod_add by (unfold P; cbv; discriminate). reflexivity.
  - assert (E31 : 2 ^ (31 - k) * 2 ^ k = P + 1).
    { rewrite <- pow2_split by lia. reflexivity. }
    nia.
Qed.

(* f = (f & 0x7FFFFFFF) + (f >> 31) after f += a: addition modulo 2^31 - 1 on the
   representatives 1 .. 2^31 - 1 *)
Lemma fold31_arith f : fold31 f = (f mod 2 ^ 31 + f / 2 ^ 31) mod 2 ^ 32.
Proof.
  unfold fold31. rewrite add32_mod. change 0x7FFFFFFF with (N.ones 31).
  rewrite land_ones_mod, shiftr_div. reflexivity.
Qed.

Lemma addM_correct f a :
  1 <= f <= P -> a <= P ->
  let g := fold31 (add32 f a) in
  1 <= g <= P /\ g mod P = (f + a) mod P.
Proof.
  unfold P. intros Hf Ha. cbn zeta. rewrite fold31_arith, add32_mod.
  change (2 ^ 31) with 2147483648 in *. change (2 ^ 32) with 4294967296.
  rewrite (N.mod_small (f + a)) by lia.
  destruct (N.ltb_spec (f + a) 2147483648) as [Hlt|Hge].
  - rewrite (N.mod_small (f + a) 2147483648) by assumption.
    rewrite (N.div_small (f + a) 2147483648) by assumption.
    rewrite N.add_0_r, N.mod_small by lia. split; [lia|reflexivity].
  - assert (Hq : (f + a) / 2147483648 = 1).
    { symmetry. apply N.div_unique with (r := f + a - 2147483648); lia. }
    assert (Hr : (f + a) mod 2147483648 = f + a - 2147483648).
    { symmetry. apply N.mod_unique with (q := 1); lia. }
    rewrite Hq, Hr. rewrite N.mod_small by lia. split; [lia|].
    replace (f + a) with ((f + a - 2147483648 + 1) + 1 * (2147483648 - 1)) at 2 by lia.
    rewrite N.mod_add by discriminate. reflexivity.
Qed.
