(* CZUC: bit strings (Spec.bitsN, bits_val, words_bits, octets_bits) versus arithmetic. *)
From NV Require Import Lib.Base Lib.Bits CZUC.Spec CZUC.Model CZUC.Proofs_Bits.
From Coq Require Import ZifyN ZifyNat ZifyBool.
Open Scope N_scope.
Ltac Zify.zify_post_hook ::= Z.div_mod_to_equations.

Arguments N.land : simpl never.
Arguments N.lor : simpl never.
Arguments N.lxor : simpl never.
Arguments N.shiftl : simpl never.
Arguments N.shiftr : simpl never.
Arguments N.modulo : simpl never.
Arguments N.div : simpl never.
Arguments N.pow : simpl never.
Arguments N.add : simpl never.
Arguments N.mul : simpl never.
Arguments N.sub : simpl never.
Arguments N.testbit : simpl never.
Arguments N.of_nat : simpl never.
Arguments N.to_nat : simpl never.

(* ---- generic list facts *)
Lemma firstn_add {A} (a b : nat) (l : list A) :
  firstn (a + b) l = firstn a l ++ firstn b (skipn a l).
Proof.
  revert l. induction a as [|a IH]; intro l; [reflexivity|].
  destruct l as [|h t]; cbn [Nat.add firstn skipn app].
  - rewrite firstn_nil. reflexivity.
  - f_equal. apply IH.
Qed.

Lemma skipn_add {A} (a b : nat) (l : list A) : skipn (a + b) l = skipn b (skipn a l).
Proof.
  revert l. induction a as [|a IH]; intro l; [reflexivity|].
  destruct l as [|h t]; cbn [Nat.add skipn].
  - rewrite skipn_nil. reflexivity.
  - apply IH.
Qed.

Lemma skipn_app_2 {A} (a b : list A) n : skipn (length a + n) (a ++ b) = skipn n b.
Proof. induction a as [|h a IH]; [reflexivity|]. cbn [length Nat.add app skipn]. exact IH. Qed.

Section Chunks.
  Context {A B : Type} (f : A -> list B) (c : nat).
  Hypothesis f_len : forall x, length (f x) = c.

  Lemma flat_map_length_c l : length (flat_map f l) = (c * length l)%nat.
  Proof.
    induction l as [|h t IH]; cbn [flat_map length]; [lia|].
    rewrite app_length, f_len, IH. lia.
  Qed.

  Lemma firstn_flat_map q : forall l, firstn (c * q) (flat_map f l) = flat_map f (firstn q l).
  Proof.
    induction q as [|q IH]; intro l.
    - rewrite Nat.mul_0_r. reflexivity.
    - destruct l as [|h t]; [rewrite firstn_nil; reflexivity|].
      cbn [flat_map firstn]. replace (c * S q)%nat with (length (f h) + c * q)%nat by (rewrite f_len; lia).
      rewrite firstn_app_2. f_equal. apply IH.
  Qed.

  Lemma skipn_flat_map q : forall l, skipn (c * q) (flat_map f l) = flat_map f (skipn q l).
  Proof.
    induction q as [|q IH]; intro l.
    - rewrite Nat.mul_0_r. reflexivity.
    - destruct l as [|h t]; [rewrite skipn_nil; reflexivity|].
      cbn [flat_map skipn]. replace (c * S q)%nat with (length (f h) + c * q)%nat by (rewrite f_len; lia).
      rewrite skipn_app_2. apply IH.
  Qed.
End Chunks.

(* ---- bitsN / bits_val *)
Lemma bitsN_length n w : length (bitsN n w) = n.
Proof. induction n as [|n IH]; cbn [bitsN length]; [reflexivity|]. rewrite IH. reflexivity. Qed.

Lemma bits_val_app a b :
  bits_val (a ++ b) = bits_val a * 2 ^ N.of_nat (length b) + bits_val b.
Proof.
  induction a as [|x a IH]; cbn [app bits_val]; [lia|].
  rewrite IH, app_length, Nat2N.inj_add, N.pow_add_r. destruct x; lia.
Qed.

Lemma bits_val_bitsN n w : bits_val (bitsN n w) = w mod 2 ^ N.of_nat n.
Proof.
  induction n as [|n IH]; cbn [bitsN bits_val].
  - change (N.of_nat 0) with 0. rewrite N.pow_0_r, N.mod_1_r. reflexivity.
  - rewrite IH, bitsN_length, Nat2N.inj_succ, N.pow_succ_r'.
    rewrite (N.mul_comm 2), N.mod_mul_r by (try apply N.pow_nonzero; lia).
    pose proof (N.testbit_spec' w (N.of_nat n)) as H.
    destruct (N.testbit w (N.of_nat n)); cbn [N.b2n] in H; rewrite <- H; lia.
Qed.

Lemma bitsN_add a b w :
  bitsN (a + b) w = bitsN a (w / 2 ^ N.of_nat b) ++ bitsN b w.
Proof.
  induction a as [|a IH]; [reflexivity|].
  cbn [Nat.add bitsN app]. rewrite IH. f_equal.
  rewrite N.div_pow2_bits. f_equal. lia.
Qed.

Lemma skipn_bitsN r n w : (r <= n)%nat -> skipn r (bitsN n w) = bitsN (n - r) w.
Proof.
  intro H. replace n with (r + (n - r))%nat at 1 by lia.
  rewrite bitsN_add, skipn_app, bitsN_length, Nat.sub_diag. cbn [skipn].
  rewrite <- (bitsN_length r (w / 2 ^ N.of_nat (n - r))) at 1. rewrite skipn_all. reflexivity.
Qed.

Lemma firstn_bitsN r n w : (r <= n)%nat ->
  firstn r (bitsN n w) = bitsN r (w / 2 ^ N.of_nat (n - r)).
Proof.
  intro H. replace n with (r + (n - r))%nat at 1 by lia.
  rewrite bitsN_add, firstn_app, bitsN_length, Nat.sub_diag. cbn [firstn].
  rewrite app_nil_r. rewrite <- (bitsN_length r (w / 2 ^ N.of_nat (n - r))) at 1.
  apply firstn_all.
Qed.

Lemma bitsN_mod n m w : (n <= m)%nat -> bitsN n (w mod 2 ^ N.of_nat m) = bitsN n w.
Proof.
  intro H. induction n as [|n IH]; cbn [bitsN]; [reflexivity|].
  rewrite IH by lia. f_equal. apply N.mod_pow2_bits_low. lia.
Qed.

Lemma bitsN_lxor n a b : bitsN n (N.lxor a b) = xor_bits (bitsN n a) (bitsN n b).
Proof.
  induction n as [|n IH]; cbn [bitsN xor_bits]; [reflexivity|].
  rewrite IH, N.lxor_spec. reflexivity.
Qed.

Lemma xor_bits_app a1 a2 b1 b2 : length a1 = length b1 ->
  xor_bits (a1 ++ a2) (b1 ++ b2) = xor_bits a1 b1 ++ xor_bits a2 b2.
Proof.
  revert b1. induction a1 as [|x a1 IH]; intros [|y b1] H; try discriminate H; [reflexivity|].
  cbn [app xor_bits]. f_equal. apply IH. injection H. auto.
Qed.

Lemma xor_bits_length a b : length (xor_bits a b) = Nat.min (length a) (length b).
Proof.
  revert b. induction a as [|x a IH]; intros [|y b]; cbn [xor_bits length]; try reflexivity.
  rewrite IH. reflexivity.
Qed.

Lemma firstn_xor_bits n a b : firstn n (xor_bits a b) = xor_bits (firstn n a) (firstn n b).
Proof.
  revert a b. induction n as [|n IH]; intros a b; [reflexivity|].
  destruct a as [|x a]; destruct b as [|y b]; cbn [xor_bits firstn]; try reflexivity.
  f_equal. apply IH.
Qed.

Lemma xor_bits_firstn_l a b : xor_bits a b = xor_bits a (firstn (length a) b).
Proof.
  revert b. induction a as [|x a IH]; intros [|y b]; cbn [xor_bits length firstn]; try reflexivity.
  f_equal. apply IH.
Qed.

Lemma xor_bits_nil_r a : xor_bits a [] = [].
Proof. destruct a; reflexivity. Qed.

(* ---- words and octets *)
Lemma words_bits_length z : length (words_bits z) = (32 * length z)%nat.
Proof. unfold words_bits. apply flat_map_length_c. intro; apply bitsN_length. Qed.

Lemma octets_bits_length m : length (octets_bits m) = (8 * length m)%nat.
Proof. unfold octets_bits. apply flat_map_length_c. intro; apply bitsN_length. Qed.

(* the four octets the code extracts from a keystream word *)
Definition word_bytes (w : N) : bytes :=
  [u8 (N.land (N.shiftr w 24) 0xff); u8 (N.land (N.shiftr w 16) 0xff);
   u8 (N.land (N.shiftr w 8) 0xff); u8 (N.land (N.shiftr w 0) 0xff)].

Definition ksbytes (z : list N) : bytes := flat_map word_bytes z.

Lemma ksbyte_bits w k : bitsN 8 (u8 (N.land (N.shiftr w k) 0xff)) = bitsN 8 (w / 2 ^ k).
Proof.
  rewrite u8_mod. change 0xff with (N.ones 8). rewrite land_ones_mod, shiftr_div.
  rewrite N.mod_mod by discriminate. apply (bitsN_mod 8 8). lia.
Qed.

Lemma word_bytes_bits w : octets_bits (word_bytes w) = bitsN 32 w.
Proof.
  unfold octets_bits, word_bytes. cbn [flat_map]. rewrite !ksbyte_bits, app_nil_r.
  change 32%nat with (8 + (8 + (8 + 8)))%nat.
  rewrite (bitsN_add 8 (8 + (8 + 8)) w).
  rewrite (bitsN_add 8 (8 + 8) w).
  rewrite (bitsN_add 8 8 w).
  change (N.of_nat (8 + (8 + 8))) with 24. change (N.of_nat (8 + 8)) with 16. change (N.of_nat 8) with 8.
  change (2 ^ 0) with 1. rewrite N.div_1_r. reflexivity.
Qed.

Lemma ksbytes_bits z : octets_bits (ksbytes z) = words_bits z.
Proof.
  unfold ksbytes, words_bits. induction z as [|w z IH]; [reflexivity|].
  cbn [flat_map]. unfold octets_bits in *. rewrite flat_map_app, IH.
  f_equal. apply word_bytes_bits.
Qed.

Lemma ksbytes_length z : length (ksbytes z) = (4 * length z)%nat.
Proof. unfold ksbytes. apply flat_map_length_c. reflexivity. Qed.

Lemma ksbytes_ok z : bytes_ok (ksbytes z).
Proof.
  unfold ksbytes, bytes_ok. induction z as [|w z IH]; [constructor|].
  cbn [flat_map]. apply Forall_app. split; [|exact IH].
  unfold word_bytes, is_byte. repeat constructor; apply u8_lt.
Qed.

(* octet-wise xor *)
Fixpoint xor_bytes (a b : bytes) : bytes :=
  match a, b with
  | x :: a', y :: b' => N.lxor x y :: xor_bytes a' b'
  | _, _ => []
  end.

Lemma xor_bytes_bits a b : octets_bits (xor_bytes a b) = xor_bits (octets_bits a) (octets_bits b).
Proof.
  revert b. induction a as [|x a IH]; intros [|y b]; try reflexivity.
  unfold octets_bits in *. cbn [xor_bytes flat_map].
  rewrite xor_bits_app by (rewrite !bitsN_length; reflexivity).
  rewrite IH, bitsN_lxor. reflexivity.
Qed.

Lemma xor_bytes_length a b : length (xor_bytes a b) = Nat.min (length a) (length b).
Proof.
  revert b. induction a as [|x a IH]; intros [|y b]; cbn [xor_bytes length]; try reflexivity.
  rewrite IH. reflexivity.
Qed.

Lemma nth_error_xor_bytes a b i x y :
  nth_error a i = Some x -> nth_error b i = Some y ->
  nth_error (xor_bytes a b) i = Some (N.lxor x y).
Proof.
  revert b i. induction a as [|h a IH]; intros [|g b] [|i] Ha Hb; cbn in *; try discriminate.
  - congruence.
  - apply IH; assumption.
Qed.

Lemma nth_error_ksbytes z i w j : nth_error z i = Some w -> (j < 4)%nat ->
  nth_error (ksbytes z) (i * 4 + j) = Some (u8 (N.land (N.shiftr w (8 * (3 - N.of_nat j))) 0xff)).
Proof.
  revert i. induction z as [|h z IH]; intros [|i] Hz Hj; cbn [nth_error] in Hz; try discriminate.
  - injection Hz as ->. unfold ksbytes. cbn [flat_map]. rewrite nth_error_app1 by (cbn; lia).
    cbn [Nat.mul Nat.add].
    destruct j as [|[|[|[|j]]]]; try lia; reflexivity.
  - unfold ksbytes in *. cbn [flat_map].
    rewrite nth_error_app2 by (cbn [word_bytes length]; lia).
    cbn [word_bytes length]. replace (S i * 4 + j - 4)%nat with (i * 4 + j)%nat by lia.
    apply IH; assumption.
Qed.
