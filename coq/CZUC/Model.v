(* CZUC: hand-written executable model of security/zuc/zuc.go (all of it) and of
   NEA3, NIA3, genMac, getWord (and the AlgoID = 3 paths of NASEncrypt /
   NASMacCalculate) of security/security.go, statement by statement.

   Conventions: Go uint32 / uint8 arithmetic wraps explicitly ([u32], [u8]);
   every slice / array / table access goes through [idx] / [set] and yields
   [Panic] when out of range; loops are structural (the trip count is a
   compile-time constant or [N.to_nat] of the Go bound).  Go structs Lfsr, Br,
   Fsm are the lists of their array field (16, 4 and 2 uint32 cells). *)
From NV Require Import Lib.Base.
Open Scope N_scope.

(* ---------------------------------------------------------------- tables *)
Definition sbox0 : list N :=
  [0x3e; 0x72; 0x5b; 0x47; 0xca; 0xe0; 0x00; 0x33; 0x04; 0xd1; 0x54; 0x98; 0x09; 0xb9; 0x6d; 0xcb;
   0x7b; 0x1b; 0xf9; 0x32; 0xaf; 0x9d; 0x6a; 0xa5; 0xb8; 0x2d; 0xfc; 0x1d; 0x08; 0x53; 0x03; 0x90;
   0x4d; 0x4e; 0x84; 0x99; 0xe4; 0xce; 0xd9; 0x91; 0xdd; 0xb6; 0x85; 0x48; 0x8b; 0x29; 0x6e; 0xac;
   0xcd; 0xc1; 0xf8; 0x1e; 0x73; 0x43; 0x69; 0xc6; 0xb5; 0xbd; 0xfd; 0x39; 0x63; 0x20; 0xd4; 0x38;
   0x76; 0x7d; 0xb2; 0xa7; 0xcf; 0xed; 0x57; 0xc5; 0xf3; 0x2c; 0xbb; 0x14; 0x21; 0x06; 0x55; 0x9b;
   0xe3; 0xef; 0x5e; 0x31; 0x4f; 0x7f; 0x5a; 0xa4; 0x0d; 0x82; 0x51; 0x49; 0x5f; 0xba; 0x58; 0x1c;
   0x4a; 0x16; 0xd5; 0x17; 0xa8; 0x92; 0x24; 0x1f; 0x8c; 0xff; 0xd8; 0xae; 0x2e; 0x01; 0xd3; 0xad;
   0x3b; 0x4b; 0xda; 0x46; 0xeb; 0xc9; 0xde; 0x9a; 0x8f; 0x87; 0xd7; 0x3a; 0x80; 0x6f; 0x2f; 0xc8;
   0xb1; 0xb4; 0x37; 0xf7; 0x0a; 0x22; 0x13; 0x28; 0x7c; 0xcc; 0x3c; 0x89; 0xc7; 0xc3; 0x96; 0x56;
   0x07; 0xbf; 0x7e; 0xf0; 0x0b; 0x2b; 0x97; 0x52; 0x35; 0x41; 0x79; 0x61; 0xa6; 0x4c; 0x10; 0xfe;
   0xbc; 0x26; 0x95; 0x88; 0x8a; 0xb0; 0xa3; 0xfb; 0xc0; 0x18; 0x94; 0xf2; 0xe1; 0xe5; 0xe9; 0x5d;
   0xd0; 0xdc; 0x11; 0x66; 0x64; 0x5c; 0xec; 0x59; 0x42; 0x75; 0x12; 0xf5; 0x74; 0x9c; 0xaa; 0x23;
   0x0e; 0x86; 0xab; 0xbe; 0x2a; 0x02; 0xe7; 0x67; 0xe6; 0x44; 0xa2; 0x6c; 0xc2; 0x93; 0x9f; 0xf1;
   0xf6; 0xfa; 0x36; 0xd2; 0x50; 0x68; 0x9e; 0x62; 0x71; 0x15; 0x3d; 0xd6; 0x40; 0xc4; 0xe2; 0x0f;
   0x8e; 0x83; 0x77; 0x6b; 0x25; 0x05; 0x3f; 0x0c; 0x30; 0xea; 0x70; 0xb7; 0xa1; 0xe8; 0xa9; 0x65;
   0x8d; 0x27; 0x1a; 0xdb; 0x81; 0xb3; 0xa0; 0xf4; 0x45; 0x7a; 0x19; 0xdf; 0xee; 0x78; 0x34; 0x60].

Definition sbox1 : list N :=
  [0x55; 0xc2; 0x63; 0x71; 0x3b; 0xc8; 0x47; 0x86; 0x9f; 0x3c; 0xda; 0x5b; 0x29; 0xaa; 0xfd; 0x77;
   0x8c; 0xc5; 0x94; 0x0c; 0xa6; 0x1a; 0x13; 0x00; 0xe3; 0xa8; 0x16; 0x72; 0x40; 0xf9; 0xf8; 0x42;
   0x44; 0x26; 0x68; 0x96; 0x81; 0xd9; 0x45; 0x3e; 0x10; 0x76; 0xc6; 0xa7; 0x8b; 0x39; 0x43; 0xe1;
   0x3a; 0xb5; 0x56; 0x2a; 0xc0; 0x6d; 0xb3; 0x05; 0x22; 0x66; 0xbf; 0xdc; 0x0b; 0xfa; 0x62; 0x48;
   0xdd; 0x20; 0x11; 0x06; 0x36; 0xc9; 0xc1; 0xcf; 0xf6; 0x27; 0x52; 0xbb; 0x69; 0xf5; 0xd4; 0x87;
   0x7f; 0x84; 0x4c; 0xd2; 0x9c; 0x57; 0xa4; 0xbc; 0x4f; 0x9a; 0xdf; 0xfe; 0xd6; 0x8d; 0x7a; 0xeb;
   0x2b; 0x53; 0xd8; 0x5c; 0xa1; 0x14; 0x17; 0xfb; 0x23; 0xd5; 0x7d; 0x30; 0x67; 0x73; 0x08; 0x09;
   0xee; 0xb7; 0x70; 0x3f; 0x61; 0xb2; 0x19; 0x8e; 0x4e; 0xe5; 0x4b; 0x93; 0x8f; 0x5d; 0xdb; 0xa9;
   0xad; 0xf1; 0xae; 0x2e; 0xcb; 0x0d; 0xfc; 0xf4; 0x2d; 0x46; 0x6e; 0x1d; 0x97; 0xe8; 0xd1; 0xe9;
   0x4d; 0x37; 0xa5; 0x75; 0x5e; 0x83; 0x9e; 0xab; 0x82; 0x9d; 0xb9; 0x1c; 0xe0; 0xcd; 0x49; 0x89;
   0x01; 0xb6; 0xbd; 0x58; 0x24; 0xa2; 0x5f; 0x38; 0x78; 0x99; 0x15; 0x90; 0x50; 0xb8; 0x95; 0xe4;
   0xd0; 0x91; 0xc7; 0xce; 0xed; 0x0f; 0xb4; 0x6f; 0xa0; 0xcc; 0xf0; 0x02; 0x4a; 0x79; 0xc3; 0xde;
   0xa3; 0xef; 0xea; 0x51; 0xe6; 0x6b; 0x18; 0xec; 0x1b; 0x2c; 0x80; 0xf7; 0x74; 0xe7; 0xff; 0x21;
   0x5a; 0x6a; 0x54; 0x1e; 0x41; 0x31; 0x92; 0x35; 0xc4; 0x33; 0x07; 0x0a; 0xba; 0x7e; 0x0e; 0x34;
   0x88; 0xb1; 0x98; 0x7c; 0xf3; 0x3d; 0x60; 0x6c; 0x7b; 0xca; 0xd3; 0x1f; 0x32; 0x65; 0x04; 0x28;
   0x64; 0xbe; 0x85; 0x9b; 0x2f; 0x59; 0x8a; 0xd7; 0xb0; 0x25; 0xac; 0xaf; 0x12; 0x03; 0xe2; 0xf2].

(* the constants D *)
Definition ek_d : list N :=
  [0x44d7; 0x26bc; 0x626b; 0x135e; 0x5789; 0x35e2; 0x7135; 0x09af; 0x4d78; 0x2f13; 0x6bc4; 0x1af1; 0x5e26; 0x3c4d; 0x789a; 0x47ac].

(* ------------------------------------------------- Go integer primitives *)
(* truncation to uint32 / uint8 (= x mod 2^32, x mod 2^8: Proofs_Bits.u32_mod, u8_mod) *)
Definition u32 (x : N) : N := N.land x 0xFFFFFFFF.
Definition u8 (x : N) : N := N.land x 0xFF.
Definition shl32 (x k : N) : N := u32 (N.shiftl x k).   (* uint32 x << k *)
Definition shl8 (x k : N) : N := u8 (N.shiftl x k).     (* uint8 x << k *)
Definition add32 (a b : N) : N := u32 (a + b).

(* x[i] = v *)
Definition set (l : list N) (i : nat) (v : N) : outcome (list N) :=
  if Nat.ltb i (length l) then Ok (upd l i v) else Panic.

(* ------------------------------------------------------------ zuc.go *)

(* (a << k) | (a >> (32 - k)) *)
Definition rot (a k : N) : N := N.lor (shl32 a k) (N.shiftr a (32 - k)).

Definition l1 (x : N) : N :=
  N.lxor (N.lxor (N.lxor (N.lxor x (rot x 2)) (rot x 10)) (rot x 18)) (rot x 24).

Definition l2 (x : N) : N :=
  N.lxor (N.lxor (N.lxor (N.lxor x (rot x 8)) (rot x 14)) (rot x 22)) (rot x 30).

(* (uint32(a) << 24) | (uint32(b) << 16) | (uint32(c) << 8) | uint32(d) *)
Definition makeU32 (a b c d : N) : N :=
  N.lor (N.lor (N.lor (shl32 a 24) (shl32 b 16)) (shl32 c 8)) d.

(* func (br *Br) bitReorganization(l Lfsr): assigns all four br.x *)
Definition bitReorganization (s : list N) : outcome (list N) :=
  s15 <- idx s 15 ;; s14 <- idx s 14 ;;
  s11 <- idx s 11 ;; s9 <- idx s 9 ;;
  s7 <- idx s 7 ;; s5 <- idx s 5 ;;
  s2 <- idx s 2 ;; s0 <- idx s 0 ;;
  Ok [ N.lor (shl32 (N.land s15 0x7FFF8000) 1) (N.land s14 0xFFFF);
       N.lor (shl32 (N.land s11 0xFFFF) 16) (N.shiftr s9 15);
       N.lor (shl32 (N.land s7 0xFFFF) 16) (N.shiftr s5 15);
       N.lor (shl32 (N.land s2 0xFFFF) 16) (N.shiftr s0 15) ].

(* func (f *Fsm) nonlinF(br Br) uint32: returns (w, new f.r) *)
Definition nonlinF (x r : list N) : outcome (N * list N) :=
  x0 <- idx x 0 ;; r0 <- idx r 0 ;; r1 <- idx r 1 ;;
  let w := add32 (N.lxor x0 r0) r1 in
  x1 <- idx x 1 ;;
  let w1 := add32 r0 x1 in
  x2 <- idx x 2 ;;
  let w2 := N.lxor r1 x2 in
  let u := l1 (N.lor (shl32 w1 16) (N.shiftr w2 16)) in
  let v := l2 (N.lor (shl32 w2 16) (N.shiftr w1 16)) in
  a0 <- idx sbox0 (N.to_nat (N.shiftr u 24)) ;;
  a1 <- idx sbox1 (N.to_nat (N.land (N.shiftr u 16) 0xFF)) ;;
  a2 <- idx sbox0 (N.to_nat (N.land (N.shiftr u 8) 0xFF)) ;;
  a3 <- idx sbox1 (N.to_nat (N.land u 0xFF)) ;;
  b0 <- idx sbox0 (N.to_nat (N.shiftr v 24)) ;;
  b1 <- idx sbox1 (N.to_nat (N.land (N.shiftr v 16) 0xFF)) ;;
  b2 <- idx sbox0 (N.to_nat (N.land (N.shiftr v 8) 0xFF)) ;;
  b3 <- idx sbox1 (N.to_nat (N.land v 0xFF)) ;;
  Ok (w, [makeU32 a0 a1 a2 a3; makeU32 b0 b1 b2 b3]).

(* ((l.s[v] << k) | (l.s[v] >> (31 - k))) & 0x7FFFFFFF *)
Definition rot31 (a k : N) : N :=
  N.land (N.lor (shl32 a k) (N.shiftr a (31 - k))) 0x7FFFFFFF.

(* f = (f & 0x7FFFFFFF) + (f >> 31) *)
Definition fold31 (f : N) : N := add32 (N.land f 0x7FFFFFFF) (N.shiftr f 31).

(* for i, v := range x { f += rot31(l.s[v], k[i]); f = fold31(f) } *)
Fixpoint state_taps (xs : list nat) (ks : list N) (s : list N) (f : N) : outcome N :=
  match xs with
  | [] => Ok f
  | v :: xs' =>
      match ks with
      | [] => Panic
      | k :: ks' =>
          sv <- idx s v ;;
          let f := add32 f (rot31 sv k) in
          let f := fold31 f in
          state_taps xs' ks' s f
      end
  end.

(* for i := 0; i < 15; i++ { l.s[i] = l.s[i+1] }   ([n] iterations left, at [i]) *)
Fixpoint shift_cells (n i : nat) (s : list N) : outcome (list N) :=
  match n with
  | O => Ok s
  | S n' => v <- idx s (i + 1) ;; s' <- set s i v ;; shift_cells n' (i + 1) s'
  end.

(* func (l *Lfsr) state(mode string, u uint32); [init] = (mode == "InitialisationMode") *)
Definition state (s : list N) (init : bool) (u : N) : outcome (list N) :=
  f <- idx s 0 ;;
  f <- state_taps [0; 4; 10; 13; 15]%nat [8; 20; 21; 17; 15] s f ;;
  let f := if init then fold31 (add32 f u) else f in
  s <- shift_cells 15 0 s ;;
  set s 15 f.

(* for i := 0; i < 16; i++ { l.s[i] = uint32(k[i])<<23 | ek_d[i]<<8 | uint32(iv[i]) } *)
Fixpoint key_load (n i : nat) (k iv : bytes) (s : list N) : outcome (list N) :=
  match n with
  | O => Ok s
  | S n' =>
      ki <- idx k i ;; di <- idx ek_d i ;; ivi <- idx iv i ;;
      s' <- set s i (N.lor (N.lor (shl32 ki 23) (shl32 di 8)) ivi) ;;
      key_load n' (i + 1) k iv s'
  end.

(* for nCount := 32; nCount > 0; nCount-- { br.bitReorganization(l); w = f.nonlinF(br); l.state("InitialisationMode", w>>1) } *)
Fixpoint init_rounds (n : nat) (s r : list N) : outcome (list N * list N) :=
  match n with
  | O => Ok (s, r)
  | S n' =>
      x <- bitReorganization s ;;
      wr <- nonlinF x r ;;
      s' <- state s true (N.shiftr (fst wr) 1) ;;
      init_rounds n' s' (snd wr)
  end.

(* func (l *Lfsr) initialization(k, iv []byte, br *Br, f *Fsm); l, br, f are never nil here *)
Definition initialization (k iv : bytes) : outcome (list N * list N) :=
  s <- key_load 16 0 k iv (repeat 0 16) ;;
  init_rounds 32 s [0; 0].

(* the loop of generateKeystream: [n] iterations left, at index [i] *)
Fixpoint gen_loop (n i : nat) (s r stream : list N) : outcome (list N) :=
  match n with
  | O => Ok stream
  | S n' =>
      x <- bitReorganization s ;;
      wr <- nonlinF x r ;;
      x3 <- idx x 3 ;;
      stream' <- set stream i (N.lxor (fst wr) x3) ;;
      s' <- state s false 0 ;;
      gen_loop n' (i + 1) s' (snd wr) stream'
  end.

Definition generateKeystream (wlength : N) (s r : list N) : outcome (list N) :=
  let stream := repeat 0 (N.to_nat wlength) in
  x <- bitReorganization s ;;
  wr <- nonlinF x r ;;      (* discard the output of F *)
  s' <- state s false 0 ;;
  gen_loop (N.to_nat wlength) 0 s' (snd wr) stream.

Definition Zuc (k iv : bytes) (wlength : N) : outcome (list N) :=
  sr <- initialization k iv ;;
  generateKeystream wlength (fst sr) (snd sr).

(* ------------------------------------------------------------ security.go *)

(* binary.BigEndian.PutUint32(iv, count) followed by the rest of a 16-octet make *)
Definition put_count (count : N) : bytes :=
  [u8 (N.shiftr count 24); u8 (N.shiftr count 16); u8 (N.shiftr count 8); u8 count].

(* for i := 0; i < 8; i++ { iv[i+8] = iv[i] } *)
Fixpoint copy_iv (n i : nat) (off : nat) (iv : bytes) : outcome bytes :=
  match n with
  | O => Ok iv
  | S n' => v <- idx iv (i + off) ;; iv' <- set iv (i + off + 8) v ;; copy_iv n' (i + 1) off iv'
  end.

(* inner loop of NEA3: for j := 0; j < 4 && (i*4+j) < nb; j++ { obs[i*4+j] = ibs[i*4+j] ^ byte((stream[i]>>(8*(3-j)))&0xff) }
   [n] = 4 - j iterations left *)
Fixpoint nea3_inner (n j i nb : nat) (ibs : bytes) (stream : list N) (obs : bytes) : outcome bytes :=
  match n with
  | O => Ok obs
  | S n' =>
      if Nat.ltb (i * 4 + j) nb then
        b <- idx ibs (i * 4 + j) ;;
        w <- idx stream i ;;
        obs' <- set obs (i * 4 + j)
                  (N.lxor b (u8 (N.land (N.shiftr w (8 * (3 - N.of_nat j))) 0xff))) ;;
        nea3_inner n' (j + 1) i nb ibs stream obs'
      else Ok obs
  end.

(* for i := 0; i < int(l); i++ { ... }   ([n] iterations left) *)
Fixpoint nea3_outer (n i nb : nat) (ibs : bytes) (stream : list N) (obs : bytes) : outcome bytes :=
  match n with
  | O => Ok obs
  | S n' =>
      obs' <- nea3_inner 4 0 i nb ibs stream obs ;;
      nea3_outer n' (i + 1) nb ibs stream obs'
  end.

(* for j := start; j < len(obs); j++ { obs[j] = 0 }   ([n] = len(obs) - start iterations) *)
Fixpoint zero_from (n j : nat) (obs : bytes) : outcome bytes :=
  match n with
  | O => Ok obs
  | S n' => obs' <- set obs j 0 ;; zero_from n' (j + 1) obs'
  end.

(* func NEA3(ck [16]byte, count uint32, bearer uint8, direction uint8, ibs []byte, length uint32) (obs []byte, err error)
   the err result is always nil: Ok carries obs *)
Definition NEA3 (ck : bytes) (count bearer direction : N) (ibs : bytes) (length : N) : outcome bytes :=
  let iv := put_count count ++ repeat 0 12 in
  iv <- set iv 4 (N.lor (shl8 bearer 3) (shl8 direction 2)) ;;
  iv <- copy_iv 8 0 0 iv ;;
  let l := u32 (length + 31) / 32 in
  stream <- Zuc ck iv l ;;
  let obs := repeat 0 (List.length ibs) in
  obs <- nea3_outer (N.to_nat l) 0 (N.to_nat (u32 (length + 7) / 8)) ibs stream obs ;;
  obs <- (if negb (length mod 8 =? 0) then
            o <- idx obs (N.to_nat (length / 8)) ;;
            set obs (N.to_nat (length / 8)) (N.land o (shl8 0xff (8 - length mod 8)))
          else Ok obs) ;;
  zero_from (List.length obs - N.to_nat (length / 8 + 1)) (N.to_nat (length / 8 + 1)) obs.

(* func getWord(stream []uint32, i int) (zi uint32), i >= 0 *)
Definition getWord (stream : list N) (i : N) : outcome N :=
  let cntBackBit := i mod 32 in
  let cntFrontBit := 32 - cntBackBit in
  let loc := N.to_nat (i / 32) in
  if cntBackBit =? 0 then idx stream loc
  else
    a <- idx stream loc ;;
    b <- idx stream (loc + 1) ;;
    Ok (N.lor (shl32 a cntBackBit) (N.shiftr b cntFrontBit)).

(* for i := 0; i < blength; i++ { if m[i/8]&(1<<(7-(i%8))) != 0 { t ^= getWord(stream, i) } }   ([n] iterations left) *)
Fixpoint genMac_loop (n : nat) (i : N) (m : bytes) (stream : list N) (t : N) : outcome N :=
  match n with
  | O => Ok t
  | S n' =>
      mb <- idx m (N.to_nat (i / 8)) ;;
      t' <- (if negb (N.land mb (shl8 1 (7 - i mod 8)) =? 0)
             then w <- getWord stream i ;; Ok (N.lxor t w)
             else Ok t) ;;
      genMac_loop n' (i + 1) m stream t'
  end.

(* func genMac(m []byte, stream []uint32, blength int) []byte, blength >= 0 *)
Definition genMac (m : bytes) (stream : list N) (blength : N) : outcome bytes :=
  let l := List.length stream in
  t <- genMac_loop (N.to_nat blength) 0 m stream 0 ;;
  w <- getWord stream blength ;;
  let t := N.lxor t w in
  (* 32*(l-1): for l = 0 Go reads stream[-1] and panics; so does stream[0] of the empty stream here *)
  w <- getWord stream (32 * N.of_nat (l - 1)) ;;
  let t := N.lxor t w in
  Ok (put_count t).

(* func NIA3(ik [16]byte, count uint32, bearer uint8, direction uint8, msg []byte, length uint32) (mac []byte, err error) *)
Definition NIA3 (ik : bytes) (count bearer direction : N) (msg : bytes) (length : N) : outcome bytes :=
  let iv := put_count count ++ repeat 0 12 in
  iv <- set iv 4 (N.land (shl8 bearer 3) 0xF8) ;;
  iv <- set iv 5 0 ;; iv <- set iv 6 0 ;; iv <- set iv 7 0 ;;
  iv0 <- idx iv 0 ;;
  iv <- set iv 8 (N.lxor (shl8 direction 7) iv0) ;;
  iv <- copy_iv 7 0 1 iv ;;
  iv6 <- idx iv 6 ;;
  iv <- set iv 14 (N.lxor (shl8 direction 7) iv6) ;;
  let l := add32 (u32 (length + 31) / 32) 2 in
  stream <- Zuc ik iv l ;;
  genMac msg stream length.

(* NASEncrypt(AlgCiphering128NEA3 = 3, KnasEnc, Count, Bearer, Direction, payload) for a non-nil payload:
   the result is the payload after the call (Go: written in place by copy(payload, output)). *)
Definition copy_into (dst src : bytes) : bytes :=
  firstn (List.length dst) src ++ skipn (List.length src) dst.

Definition NASEncrypt3 (key : bytes) (count bearer direction : N) (payload : bytes) : outcome bytes :=
  if 0x1f <? bearer then Err
  else if 1 <? direction then Err
  else
    output <- NEA3 key count bearer direction payload (u32 (u32 (N.of_nat (List.length payload)) * 8)) ;;
    Ok (copy_into payload output).

(* NASMacCalculate(AlgIntegrity128NIA3 = 3, ...) for a non-nil msg *)
Definition NASMacCalculate3 (key : bytes) (count bearer direction : N) (msg : bytes) : outcome bytes :=
  if 0x1f <? bearer then Err
  else if 1 <? direction then Err
  else NIA3 key count bearer direction msg (u32 (u32 (N.of_nat (List.length msg)) * 8)).
