(* CZUC specification, written from the standard and independently of the Go code:

   [ZUC]  ETSI/SAGE "Specification of the 3GPP Confidentiality and Integrity
          Algorithms 128-EEA3 & 128-EIA3. Document 2: ZUC Specification", v1.6
   [EEA3] "... Document 1: 128-EEA3 and 128-EIA3 Specification", v1.8 (v1.7 changed EIA3)

   Everything is arithmetic on N: a 31-bit cell of the LFSR is an element of
   {1, ..., 2^31-1} (the document's representation of GF(2^31-1), with the
   residue 0 represented by 2^31-1), the LFSR feedback is computed with
   [mod (2^31-1)], words are numbers below 2^32, "a || b" is a*2^|b| + b.
   The tables S0, S1 and the constants D are pinned here (transcribed) and the
   specification is validated below against the published test vectors. *)
From Coq Require Import List NArith Bool.
Import ListNotations.
Open Scope N_scope.

Module ZucSpec.

(* ------------------------------------------------------------------ 3.4.1 S-boxes *)
Definition S0 : list N :=
  [0x3e; 0x72; 0x5b; 0x47; 0xca; 0xe0; 0x00; 0x33; 0x04; 0xd1; 0x54; 0x98; 0x09; 0xb9; 0x6d; 0xcb;
   0x7b; 0x1b; 0xf9; 0x32; 0xaf; 0x9d; 0x6a; 0xa5; 0xb8; 0x2d; 0xfc; 0x1d; 0x08; 0x53; 0x03; 0x90;
   0x4d; 0x4e; 0x84; 0x99; 0xe4; 0xce; 0xd9; 0x91; 0xdd; 0xb6; 0x85; 0x48; 0x8b; 0x29; 0x6e; 0xac;
   0xcd; 0xc1; 0xf8; 0x1e; 0x73; 0x43; 0x69; 0xc6; 0xb5; 0xbd; 0xfd; 0x39; 0x63; 0x20; 0xd4; 0x38;
   0x76; 0x7d; 0xb2; 0xa7; 0xcf; 0xed; 0x57; 0xc5; 0xf3; 0x2c; 0xbb; 0x14; 0x21; 0x06; 0x55; 0x9b;
   0xe3; 0xef; 0x5e; 0x31; 0x4f; 0x7f; 0x5a; 0xa4; 0x0d; 0x82; 0x51; 0x49; 0x5f; 0xba; 0x58; 0x1c;
   0x4a; 0x16; 0xd5; 0x17; 0xa8; 0x92; 0x24; 0x1f; 0x8c; 0xff; 0xd8; 0xae; 0x2e; 0x01; 0xd3; 0xad;
   0x3b; 0x4b; 0xda; 0x46; 0xeb; 0xc9; 0xde; 0x9a; 0x8f; 0x87; 0xd7; 0x3a; 0x80; 0x6f; 0x2f; 0xc8;
   0xb1; 0xb4; 0x37; 0xf7; 0x0a; 0x22; 0x13; 0x28; 0x7c; 0xcc; 0x3c; 0x89; 0xc7; 0xc3; 0x96; 0x56;
   0x07; 0xbf; 0x7e; 0xf0; 0x0b; 0x2b; 0x97; 0x52; 0x35; 0x41; 0x79; 0x61; 0xa6; 0x4c; 0x10; 0xfe;
   0xbc; 0x26; 0x95; 0x88; 0x8a; 0xb0; 0xa3; 0xfb; 0xc0; 0x18; 0x94; 0xf2; 0xe1; 0xe5; 0xe9; 0x5d;
   0xd0; 0xdc; 0x11; 0x66; 0x64; 0x5c; 0xec; 0x59; 0x42; 0x75; 0x12; 0xf5; 0x74; 0x9c; 0xaa; 0x23;
   0x0e; 0x86; 0xab; 0xbe; 0x2a; 0x02; 0xe7; 0x67; 0xe6; 0x44; 0xa2; 0x6c; 0xc2; 0x93; 0x9f; 0xf1;
   0xf6; 0xfa; 0x36; 0xd2; 0x50; 0x68; 0x9e; 0x62; 0x71; 0x15; 0x3d; 0xd6; 0x40; 0xc4; 0xe2; 0x0f;
   0x8e; 0x83; 0x77; 0x6b; 0x25; 0x05; 0x3f; 0x0c; 0x30; 0xea; 0x70; 0xb7; 0xa1; 0xe8; 0xa9; 0x65;
   0x8d; 0x27; 0x1a; 0xdb; 0x81; 0xb3; 0xa0; 0xf4; 0x45; 0x7a; 0x19; 0xdf; 0xee; 0x78; 0x34; 0x60].

Definition S1 : list N :=
  [0x55; 0xc2; 0x63; 0x71; 0x3b; 0xc8; 0x47; 0x86; 0x9f; 0x3c; 0xda; 0x5b; 0x29; 0xaa; 0xfd; 0x77;
   0x8c; 0xc5; 0x94; 0x0c; 0xa6; 0x1a; 0x13; 0x00; 0xe3; 0xa8; 0x16; 0x72; 0x40; 0xf9; 0xf8; 0x42;
   0x44; 0x26; 0x68; 0x96; 0x81; 0xd9; 0x45; 0x3e; 0x10; 0x76; 0xc6; 0xa7; 0x8b; 0x39; 0x43; 0xe1;
   0x3a; 0xb5; 0x56; 0x2a; 0xc0; 0x6d; 0xb3; 0x05; 0x22; 0x66; 0xbf; 0xdc; 0x0b; 0xfa; 0x62; 0x48;
   0xdd; 0x20; 0x11; 0x06; 0x36; 0xc9; 0xc1; 0xcf; 0xf6; 0x27; 0x52; 0xbb; 0x69; 0xf5; 0xd4; 0x87;
   0x7f; 0x84; 0x4c; 0xd2; 0x9c; 0x57; 0xa4; 0xbc; 0x4f; 0x9a; 0xdf; 0xfe; 0xd6; 0x8d; 0x7a; 0xeb;
   0x2b; 0x53; 0xd8; 0x5c; 0xa1; 0x14; 0x17; 0xfb; 0x23; 0xd5; 0x7d; 0x30; 0x67; 0x73; 0x08; 0x09;
   0xee; 0xb7; 0x70; 0x3f; 0x61; 0xb2; 0x19; 0x8e; 0x4e; 0xe5; 0x4b; 0x93; 0x8f; 0x5d; 0xdb; 0xa9;
   0xad; 0xf1; 0xae; 0x2e; 0xcb; 0x0d; 0xfc; 0xf4; 0x2d; 0x46; 0x6e; 0x1d; 0x97; 0xe8; 0xd1; 0xe9;
   0x4d; 0x37; 0xa5; 0x75; 0x5e; 0x83; 0x9e; 0xab; 0x82; 0x9d; 0xb9; 0x1c; 0xe0; 0xcd; 0x49; 0x89;
   0x01; 0xb6; 0xbd; 0x58; 0x24; 0xa2; 0x5f; 0x38; 0x78; 0x99; 0x15; 0x90; 0x50; 0xb8; 0x95; 0xe4;
   0xd0; 0x91; 0xc7; 0xce; 0xed; 0x0f; 0xb4; 0x6f; 0xa0; 0xcc; 0xf0; 0x02; 0x4a; 0x79; 0xc3; 0xde;
   0xa3; 0xef; 0xea; 0x51; 0xe6; 0x6b; 0x18; 0xec; 0x1b; 0x2c; 0x80; 0xf7; 0x74; 0xe7; 0xff; 0x21;
   0x5a; 0x6a; 0x54; 0x1e; 0x41; 0x31; 0x92; 0x35; 0xc4; 0x33; 0x07; 0x0a; 0xba; 0x7e; 0x0e; 0x34;
   0x88; 0xb1; 0x98; 0x7c; 0xf3; 0x3d; 0x60; 0x6c; 0x7b; 0xca; 0xd3; 0x1f; 0x32; 0x65; 0x04; 0x28;
   0x64; 0xbe; 0x85; 0x9b; 0x2f; 0x59; 0x8a; 0xd7; 0xb0; 0x25; 0xac; 0xaf; 0x12; 0x03; 0xe2; 0xf2].

(* ------------------------------------------------------------------ 3.5 constants d_0 .. d_15 (15 bits each) *)
Definition D : list N :=
  [0x44d7; 0x26bc; 0x626b; 0x135e; 0x5789; 0x35e2; 0x7135; 0x09af; 0x4d78; 0x2f13; 0x6bc4; 0x1af1; 0x5e26; 0x3c4d; 0x789a; 0x47ac].

(* ------------------------------------------------------------------ 3.2 the LFSR *)
Definition P31 : N := 2 ^ 31 - 1.

(* an LFSR state is the list [s0; ...; s15]; [cell s i] = s_i *)
Definition cell (s : list N) (i : nat) : N := nth i s 0.

(* 2^15 s15 + 2^17 s13 + 2^21 s10 + 2^20 s4 + (1 + 2^8) s0  mod (2^31 - 1) *)
Definition feedback (s : list N) : N :=
  (2 ^ 15 * cell s 15 + 2 ^ 17 * cell s 13 + 2 ^ 21 * cell s 10 + 2 ^ 20 * cell s 4
   + (1 + 2 ^ 8) * cell s 0) mod P31.

(* "if s16 = 0 then set s16 = 2^31 - 1" *)
Definition nonzero31 (x : N) : N := if x =? 0 then P31 else x.

(* (s1, s2, ..., s15, s16) -> (s0, s1, ..., s15) *)
Definition shift_in (s : list N) (s16 : N) : list N := tl s ++ [s16].

(* LFSRWithInitialisationMode(u), u a 31-bit word *)
Definition LFSRWithInitialisationMode (s : list N) (u : N) : list N :=
  let v := feedback s in
  let s16 := (v + u) mod P31 in
  shift_in s (nonzero31 s16).

(* LFSRWithWorkMode() *)
Definition LFSRWithWorkMode (s : list N) : list N :=
  shift_in s (nonzero31 (feedback s)).

(* ------------------------------------------------------------------ 3.3 bit reorganisation *)
(* for a 31-bit cell: H = bits 30..15, L = bits 15..0 *)
Definition H31 (a : N) : N := a / 2 ^ 15.
Definition L31 (a : N) : N := a mod 2 ^ 16.
(* concatenation of two 16-bit strings *)
Definition cat16 (a b : N) : N := a * 2 ^ 16 + b.

(* X0 = s15H || s14L, X1 = s11L || s9H, X2 = s7L || s5H, X3 = s2L || s0H *)
Definition BitReorganization (s : list N) : N * N * N * N :=
  (cat16 (H31 (cell s 15)) (L31 (cell s 14)),
   cat16 (L31 (cell s 11)) (H31 (cell s 9)),
   cat16 (L31 (cell s 7)) (H31 (cell s 5)),
   cat16 (L31 (cell s 2)) (H31 (cell s 0))).

(* ------------------------------------------------------------------ 3.4 the nonlinear function F *)
Definition H32 (w : N) : N := w / 2 ^ 16.
Definition L32 (w : N) : N := w mod 2 ^ 16.
(* addition modulo 2^32 *)
Definition plus32 (a b : N) : N := (a + b) mod 2 ^ 32.
(* X <<< k: cyclic shift of a 32-bit word by k bits to the left, 0 < k < 32 *)
Definition rotl32 (x k : N) : N := (x * 2 ^ k) mod 2 ^ 32 + x / 2 ^ (32 - k).

Definition L1 (x : N) : N :=
  N.lxor (N.lxor (N.lxor (N.lxor x (rotl32 x 2)) (rotl32 x 10)) (rotl32 x 18)) (rotl32 x 24).
Definition L2 (x : N) : N :=
  N.lxor (N.lxor (N.lxor (N.lxor x (rotl32 x 8)) (rotl32 x 14)) (rotl32 x 22)) (rotl32 x 30).

(* S = (S0, S1, S0, S1) on the four octets x0 || x1 || x2 || x3 of a word *)
Definition sb (t : list N) (x : N) : N := nth (N.to_nat x) t 0.
Definition Sbox (x : N) : N :=
  let x0 := x / 2 ^ 24 in
  let x1 := (x / 2 ^ 16) mod 2 ^ 8 in
  let x2 := (x / 2 ^ 8) mod 2 ^ 8 in
  let x3 := x mod 2 ^ 8 in
  ((sb S0 x0 * 2 ^ 8 + sb S1 x1) * 2 ^ 8 + sb S0 x2) * 2 ^ 8 + sb S1 x3.

(* F(X0, X1, X2) with memory (R1, R2): returns W and the new (R1, R2) *)
Definition F (x0 x1 x2 : N) (r : N * N) : N * (N * N) :=
  let '(r1, r2) := r in
  let w := plus32 (N.lxor x0 r1) r2 in
  let w1 := plus32 r1 x1 in
  let w2 := N.lxor r2 x2 in
  (w, (Sbox (L1 (cat16 (L32 w1) (H32 w2))), Sbox (L2 (cat16 (L32 w2) (H32 w1))))).

(* ------------------------------------------------------------------ 3.5 key loading *)
(* s_i = k_i || d_i || iv_i  (8 || 15 || 8 bits) *)
Definition load_cell (k d iv : N) : N := (k * 2 ^ 15 + d) * 2 ^ 8 + iv.

Fixpoint key_loading (k d iv : list N) : list N :=
  match k, d, iv with
  | ki :: k', di :: d', ivi :: iv' => load_cell ki di ivi :: key_loading k' d' iv'
  | _, _, _ => []
  end.

(* ------------------------------------------------------------------ 3.6 execution of ZUC *)
Definition zstate : Type := list N * (N * N).   (* LFSR cells, (R1, R2) *)

(* one round of the initialisation stage *)
Definition init_round (st : zstate) : zstate :=
  let '(s, r) := st in
  let '(x0, x1, x2, _) := BitReorganization s in
  let '(w, r') := F x0 x1 x2 r in
  (LFSRWithInitialisationMode s (w / 2), r').

Fixpoint iterate {A} (n : nat) (f : A -> A) (a : A) : A :=
  match n with O => a | S n' => iterate n' f (f a) end.

Definition init_stage (k iv : list N) : zstate :=
  iterate 32 init_round (key_loading k D iv, (0, 0)).

(* one step of the working stage: output word and next state *)
Definition work_step (st : zstate) : N * zstate :=
  let '(s, r) := st in
  let '(x0, x1, x2, x3) := BitReorganization s in
  let '(w, r') := F x0 x1 x2 r in
  (N.lxor w x3, (LFSRWithWorkMode s, r')).

Fixpoint work_stage (n : nat) (st : zstate) : list N :=
  match n with
  | O => []
  | S n' => let '(z, st') := work_step st in z :: work_stage n' st'
  end.

(* the keystream of L words under a 128-bit key and a 128-bit iv (lists of 16 octets):
   initialisation stage, one working step whose output is discarded, then L words *)
Definition keystream (k iv : list N) (L : nat) : list N :=
  work_stage L (snd (work_step (init_stage k iv))).

End ZucSpec.

(* ====================================================================== bit strings *)
(* bit strings are lists of booleans, first bit first; numbers are written most
   significant bit first, as in the documents *)
Fixpoint bitsN (n : nat) (w : N) : list bool :=     (* the n low bits of w, msb first *)
  match n with O => [] | S n' => N.testbit w (N.of_nat n') :: bitsN n' w end.

Fixpoint bits_val (l : list bool) : N :=            (* value of a bit string *)
  match l with [] => 0 | b :: t => (if b then 2 ^ N.of_nat (length t) else 0) + bits_val t end.

Definition words_bits (z : list N) : list bool := flat_map (bitsN 32) z.
Definition octets_bits (m : list N) : list bool := flat_map (bitsN 8) m.

Fixpoint xor_bits (a b : list bool) : list bool :=
  match a, b with
  | x :: a', y :: b' => xorb x y :: xor_bits a' b'
  | _, _ => []
  end.

(* the four octets of a 32-bit word, most significant first (COUNT[0] .. COUNT[3]; MAC) *)
Definition word_octets (count : N) : list N :=
  [count / 2 ^ 24; (count / 2 ^ 16) mod 2 ^ 8; (count / 2 ^ 8) mod 2 ^ 8; count mod 2 ^ 8].

Definition ceil_div (a b : nat) : nat := Nat.div (a + b - 1) b.

(* ====================================================================== 128-EEA3 *)
Module EEA3Spec.

(* IV[0..3] = COUNT, IV[4] = BEARER || DIRECTION || 00, IV[5..7] = 0, IV[8..15] = IV[0..7] *)
Definition iv (count bearer direction : N) : list N :=
  let h := word_octets count ++ [bearer * 2 ^ 3 + direction * 2 ^ 2; 0; 0; 0] in
  h ++ h.

(* L = ceil(LENGTH / 32); OBS[i] = IBS[i] xor k[i], i = 0 .. LENGTH-1 *)
Definition eea3 (ck : list N) (count bearer direction : N) (ibs : list bool) : list bool :=
  let L := ceil_div (length ibs) 32 in
  let k := words_bits (ZucSpec.keystream ck (iv count bearer direction) L) in
  xor_bits ibs k.

End EEA3Spec.

(* ====================================================================== 128-EIA3 *)
Module EIA3Spec.

(* IV[0..3] = COUNT, IV[4] = BEARER || 000, IV[5..7] = 0,
   IV[8] = IV[0] xor (DIRECTION << 7), IV[9..13] = IV[1..5],
   IV[14] = IV[6] xor (DIRECTION << 7), IV[15] = IV[7] *)
Definition iv (count bearer direction : N) : list N :=
  let h := word_octets count ++ [bearer * 2 ^ 3; 0; 0; 0] in      (* IV[0..7] *)
  let i n := nth n h 0 in
  h ++ [N.lxor (i 0%nat) (direction * 2 ^ 7); i 1%nat; i 2%nat; i 3%nat; i 4%nat; i 5%nat;
        N.lxor (i 6%nat) (direction * 2 ^ 7); i 7%nat].

(* z_i = k[i] || k[i+1] || ... || k[i+31] *)
Definition z (k : list bool) (i : nat) : N := bits_val (firstn 32 (skipn i k)).

(* T = 0; for i = 0 .. LENGTH-1: if M[i] = 1 then T = T xor z_i *)
Fixpoint accumulate (m : list bool) (k : list bool) (i : nat) (t : N) : N :=
  match m with
  | [] => t
  | b :: m' => accumulate m' k (S i) (if b then N.lxor t (z k i) else t)
  end.

(* N = LENGTH + 64, L = ceil(N / 32); T = T xor z_LENGTH; MAC = T xor z_{32 (L-1)} *)
Definition eia3 (ik : list N) (count bearer direction : N) (m : list bool) : N :=
  let LENGTH := length m in
  let L := ceil_div (LENGTH + 64) 32 in
  let k := words_bits (ZucSpec.keystream ik (iv count bearer direction) L) in
  let t := accumulate m k 0 0 in
  let t := N.lxor t (z k LENGTH) in
  N.lxor t (z k (32 * (L - 1))).

End EIA3Spec.
