(* CZUC: collected results (see Proofs_Bits, Proofs_BitStr, Proofs_Zuc, Proofs_Nea3, Proofs_Nia3,
   Proofs_Laws, Proofs_Vectors) and the statements exported to Props/CZUC.v. *)
From NV Require Export Lib.Base CZUC.Spec CZUC.Model CZUC.Proofs_Bits CZUC.Proofs_BitStr
  CZUC.Proofs_Zuc CZUC.Proofs_Nea3 CZUC.Proofs_Nia3 CZUC.Proofs_Laws CZUC.Proofs_Vectors.
From Coq Require Import ZifyN ZifyNat ZifyBool.
Open Scope N_scope.
Ltac Zify.zify_post_hook ::= Z.div_mod_to_equations.

Arguments N.of_nat : simpl never.
Arguments N.to_nat : simpl never.
Arguments N.pow : simpl never.
Arguments N.mul : simpl never.
Arguments N.add : simpl never.
Arguments N.div : simpl never.
Arguments N.modulo : simpl never.

(* the keystream of n words is a prefix of the keystream of n + m words (on the model of zuc.Zuc) *)
Theorem zuc_prefix k iv n m a b :
  key_ok k -> key_ok iv ->
  Zuc k iv n = Ok a -> Zuc k iv (n + m) = Ok b -> a = firstn (N.to_nat n) b.
Proof.
  intros Hk Hiv Ea Eb. rewrite zuc_model_eq_spec in Ea, Eb by assumption.
  injection Ea as <-. injection Eb as <-.
  rewrite N2Nat.inj_add. apply keystream_prefix.
Qed.

Theorem zuc_length k iv n a : key_ok k -> key_ok iv -> Zuc k iv n = Ok a -> length a = N.to_nat n.
Proof.
  intros Hk Hiv Ea. rewrite zuc_model_eq_spec in Ea by assumption. injection Ea as <-.
  apply keystream_length.
Qed.

(* Why the byte-length theorems carry [payload_ok] (8 * octets + 31 < 2^32): NASEncrypt computes the
   bit length as uint32(len(payload)) * 8, which wraps.  For a payload of exactly 2^29 octets
   (512 MiB) the bit length is 0 and the payload is overwritten with zeros. *)
Theorem enc_wrap_observation key count bearer direction p :
  key_ok key -> bearer <= 31 -> direction <= 1 -> N.of_nat (length p) = 2 ^ 29 ->
  NASEncrypt3 key count bearer direction p = Ok (repeat 0 (length p)).
Proof.
  intros Hk Hb Hd Hl. unfold NASEncrypt3.
  destruct (N.ltb_spec 31 bearer) as [Hbad|_]; [lia|].
  destruct (N.ltb_spec 1 direction) as [Hbad|_]; [lia|].
  rewrite Hl. change (u32 (u32 (2 ^ 29) * 8)) with 0.
  rewrite nea3_closed_form by first [assumption | lia | reflexivity]. cbn [obind].
  unfold nea3_closed. change (0 mod 8 =? 0) with true. cbn iota.
  change (N.to_nat (0 / 8)) with 0%nat. cbn [firstn app]. rewrite Nat.sub_0_r.
  unfold copy_into. rewrite repeat_length, skipn_all, app_nil_r.
  rewrite firstn_all2 by (rewrite repeat_length; lia). reflexivity.
Qed.

(* ---- the hypotheses of the theorems are satisfiable on the published vectors *)
Lemma key_ok_b k : (Nat.eqb (length k) 16 && bytes_okb k)%bool = true -> key_ok k.
Proof.
  intro H. apply andb_true_iff in H as [H1 H2]. split.
  - apply Nat.eqb_eq. exact H1.
  - apply bytes_okb_spec. exact H2.
Qed.

Example key_ok_vector : key_ok zk3 /\ key_ok ziv3 /\ key_ok ea_ck1 /\ key_ok ia_ik3.
Proof. repeat split; try reflexivity; apply bytes_okb_spec; reflexivity. Qed.
